import CalicoVerif.Model.C10
/-! Helper lemmas for C10 (order on byte strings, sorting/dedup, common prefix, buckets). -/
namespace CalicoVerif.C10
open CalicoVerif.Netfilter

/-! ### `bytesLe` is a total order -/

theorem u8_trichotomy (x y : UInt8) : x < y ∨ x = y ∨ y < x := by
  rcases Nat.lt_trichotomy x.toNat y.toNat with h | h | h
  · exact Or.inl (UInt8.lt_iff_toNat_lt.2 h)
  · exact Or.inr (Or.inl (UInt8.toNat_inj.1 h))
  · exact Or.inr (Or.inr (UInt8.lt_iff_toNat_lt.2 h))

theorem bytesLe_total (a b : Bytes) : (bytesLe a b || bytesLe b a) = true := by
  induction a generalizing b with
  | nil => simp [bytesLe]
  | cons x xs ih =>
    cases b with
    | nil => simp [bytesLe]
    | cons y ys =>
      simp only [bytesLe, Bool.or_eq_true, Bool.and_eq_true, decide_eq_true_eq, beq_iff_eq]
      have := ih ys
      simp only [Bool.or_eq_true] at this
      rcases u8_trichotomy x y with h | h | h
      · exact Or.inl (Or.inl h)
      · subst h
        rcases this with h | h
        · exact Or.inl (Or.inr ⟨rfl, h⟩)
        · exact Or.inr (Or.inr ⟨rfl, h⟩)
      · exact Or.inr (Or.inl h)

theorem bytesLe_trans (a b c : Bytes) : bytesLe a b = true → bytesLe b c = true → bytesLe a c = true := by
  induction a generalizing b c with
  | nil => simp [bytesLe]
  | cons x xs ih =>
    cases b with
    | nil => simp [bytesLe]
    | cons y ys =>
      cases c with
      | nil => simp [bytesLe]
      | cons z zs =>
        simp only [bytesLe, Bool.or_eq_true, Bool.and_eq_true, decide_eq_true_eq, beq_iff_eq]
        rintro (h1 | ⟨h1, h1'⟩) (h2 | ⟨h2, h2'⟩)
        · exact Or.inl (UInt8.lt_trans h1 h2)
        · subst h2; exact Or.inl h1
        · subst h1; exact Or.inl h2
        · subst h1; subst h2; exact Or.inr ⟨rfl, ih _ _ h1' h2'⟩

theorem bytesLe_antisymm (a b : Bytes) : bytesLe a b = true → bytesLe b a = true → a = b := by
  induction a generalizing b with
  | nil => cases b <;> simp [bytesLe]
  | cons x xs ih =>
    cases b with
    | nil => simp [bytesLe]
    | cons y ys =>
      simp only [bytesLe, Bool.or_eq_true, Bool.and_eq_true, decide_eq_true_eq, beq_iff_eq]
      rintro (h1 | ⟨h1, h1'⟩) (h2 | ⟨h2, h2'⟩)
      · exact absurd (UInt8.lt_trans h1 h2) (UInt8.lt_irrefl _)
      · subst h2; exact absurd h1 (UInt8.lt_irrefl _)
      · subst h1; exact absurd h2 (UInt8.lt_irrefl _)
      · subst h1; rw [ih _ h1' h2']

/-! ### sorting + adjacent de-duplication -/

theorem mem_dedupAdj_of_mem (last : Option Bytes) (l : List Bytes) (x : Bytes) :
    x ∈ dedupAdj last l → x ∈ l := by
  induction l generalizing last with
  | nil => simp [dedupAdj]
  | cons n ns ih =>
    simp only [dedupAdj]
    split
    · intro h; exact List.mem_cons_of_mem _ (ih _ h)
    · intro h
      rcases List.mem_cons.1 h with h | h
      · exact h ▸ List.mem_cons_self
      · exact List.mem_cons_of_mem _ (ih _ h)

theorem mem_of_mem_dedupAdj (last : Option Bytes) (l : List Bytes) (x : Bytes) :
    x ∈ l → some x ≠ last → x ∈ dedupAdj last l := by
  induction l generalizing last with
  | nil => simp
  | cons n ns ih =>
    intro h hl
    simp only [dedupAdj]
    split
    · rename_i hn
      rcases List.mem_cons.1 h with h | h
      · subst h; exact absurd hn hl
      · exact ih _ h hl
    · rcases List.mem_cons.1 h with h | h
      · subst h; exact List.mem_cons_self
      · by_cases hx : x = n
        · subst hx; exact List.mem_cons_self
        · exact List.mem_cons_of_mem _ (ih _ h (by simpa using hx))

theorem dedupAdj_nodup (l : List Bytes) (last : Option Bytes)
    (hs : List.Pairwise (fun a b => bytesLe a b = true) l)
    (hl : ∀ y, last = some y → ∀ a ∈ l, bytesLe y a = true) :
    (dedupAdj last l).Nodup ∧ ∀ y, last = some y → y ∉ dedupAdj last l := by
  induction l generalizing last with
  | nil => simp [dedupAdj]
  | cons n ns ih =>
    rw [List.pairwise_cons] at hs
    simp only [dedupAdj]
    split
    · rename_i hn
      exact ih last hs.2 (fun y hy a ha => hl y hy a (List.mem_cons_of_mem _ ha))
    · rename_i hn
      have h := ih (some n) hs.2 (fun y hy a ha => by cases hy; exact hs.1 a ha)
      refine ⟨List.nodup_cons.2 ⟨h.2 n rfl, h.1⟩, ?_⟩
      intro y hy hmem
      rcases List.mem_cons.1 hmem with h1 | h1
      · subst h1; exact hn hy.symm
      · have hyn : y ∈ ns := mem_dedupAdj_of_mem _ _ _ h1
        have h1 := hs.1 y hyn
        have h2 := hl y hy n List.mem_cons_self
        exact hn (by rw [hy, bytesLe_antisymm _ _ h1 h2])

theorem uniq_nodup (names : List Bytes) : (dedupAdj none (sortNames names)).Nodup :=
  (dedupAdj_nodup _ none (List.pairwise_mergeSort bytesLe_trans bytesLe_total names) (by simp)).1

theorem mem_uniq (names : List Bytes) (x : Bytes) :
    x ∈ dedupAdj none (sortNames names) ↔ x ∈ names := by
  constructor
  · intro h; exact List.mem_mergeSort.1 (mem_dedupAdj_of_mem _ _ _ h)
  · intro h; exact mem_of_mem_dedupAdj _ _ _ (List.mem_mergeSort.2 h) (by simp)

/-! ### common prefix -/

theorem commonPrefix2_prefix_left (a b : Bytes) : commonPrefix2 a b <+: a := by
  induction a generalizing b with
  | nil => simp [commonPrefix2]
  | cons x xs ih =>
    cases b with
    | nil => simp [commonPrefix2]
    | cons y ys =>
      simp only [commonPrefix2]
      split
      · exact List.cons_prefix_cons.2 ⟨rfl, ih ys⟩
      · exact List.nil_prefix

theorem commonPrefix2_prefix_right (a b : Bytes) : commonPrefix2 a b <+: b := by
  induction a generalizing b with
  | nil => simp [commonPrefix2]
  | cons x xs ih =>
    cases b with
    | nil => simp [commonPrefix2]
    | cons y ys =>
      simp only [commonPrefix2]
      split
      · rename_i h; subst h; exact List.cons_prefix_cons.2 ⟨rfl, ih ys⟩
      · exact List.nil_prefix

theorem foldl_commonPrefix2_prefix (s : Bytes) (ss : List Bytes) :
    ss.foldl commonPrefix2 s <+: s ∧ ∀ x ∈ ss, ss.foldl commonPrefix2 s <+: x := by
  induction ss generalizing s with
  | nil => simp
  | cons y ys ih =>
    simp only [List.foldl_cons]
    have h := ih (commonPrefix2 s y)
    refine ⟨h.1.trans (commonPrefix2_prefix_left _ _), ?_⟩
    intro x hx
    rcases List.mem_cons.1 hx with hx | hx
    · subst hx; exact h.1.trans (commonPrefix2_prefix_right _ _)
    · exact h.2 x hx

theorem commonPrefix_prefix (l : List Bytes) : ∀ x ∈ l, commonPrefix l <+: x := by
  cases l with
  | nil => simp
  | cons s ss =>
    intro x hx
    simp only [commonPrefix]
    rcases List.mem_cons.1 hx with hx | hx
    · subst hx; exact (foldl_commonPrefix2_prefix _ _).1
    · exact (foldl_commonPrefix2_prefix _ _).2 x hx

/-! ### first occurrences -/

theorem mem_firstOccurrences (seen l : List Bytes) (x : Bytes) :
    x ∈ firstOccurrences seen l ↔ x ∈ l ∧ x ∉ seen := by
  induction l generalizing seen with
  | nil => simp [firstOccurrences]
  | cons y ys ih =>
    simp only [firstOccurrences]
    split
    · rename_i h
      have hy : y ∈ seen := by simpa using h
      rw [ih]
      constructor
      · rintro ⟨h1, h2⟩; exact ⟨List.mem_cons_of_mem _ h1, h2⟩
      · rintro ⟨h1, h2⟩
        rcases List.mem_cons.1 h1 with h1 | h1
        · subst h1; exact absurd hy h2
        · exact ⟨h1, h2⟩
    · rename_i h
      have hy : y ∉ seen := by simpa using h
      rw [List.mem_cons, ih]
      constructor
      · rintro (h1 | ⟨h1, h2⟩)
        · subst h1; exact ⟨List.mem_cons_self, hy⟩
        · exact ⟨List.mem_cons_of_mem _ h1, fun h3 => h2 (List.mem_cons_of_mem _ h3)⟩
      · rintro ⟨h1, h2⟩
        by_cases hxy : x = y
        · exact Or.inl hxy
        · rcases List.mem_cons.1 h1 with h1 | h1
          · exact absurd h1 hxy
          · refine Or.inr ⟨h1, ?_⟩
            intro h3
            rcases List.mem_cons.1 h3 with h3 | h3
            · exact hxy h3
            · exact h2 h3

/-! ### what `sortAndDivide` guarantees about its buckets -/

structure TreeOK (names : List Bytes) (t : Tree) : Prop where
  /-- every configured name sits in some bucket, and buckets only hold configured names -/
  mem : ∀ n, n ∈ names ↔ ∃ b ∈ t.buckets, n ∈ b.2
  /-- the key of a bucket is the `prefixOf` of each of its names -/
  key : ∀ b ∈ t.buckets, ∀ n ∈ b.2, prefixOf t.commonPrefix n = b.1
  nonempty : ∀ b ∈ t.buckets, b.2 ≠ []
  /-- a bucket holds ALL names with its key -/
  complete : ∀ b ∈ t.buckets, ∀ n ∈ names, prefixOf t.commonPrefix n = b.1 → n ∈ b.2
  cpPrefix : ∀ n ∈ names, t.commonPrefix <+: n
  /-- the bucket keyed by the bare common prefix (if any) holds exactly one name -/
  cpSingle : ∀ b ∈ t.buckets, b.1 = t.commonPrefix → ∃ n, b.2 = [n]
  noEmpty : [] ∉ names

theorem prefixOf_eq_cp {cp n : Bytes} (hp : cp <+: n) (h : prefixOf cp n = cp) : n = cp := by
  unfold prefixOf at h
  split at h
  · rename_i hl
    have : (n.take (cp.length + 1)).length = cp.length := by rw [h]
    rw [List.length_take] at this
    omega
  · rename_i hl
    have := List.prefix_iff_eq_take.1 hp
    rw [this, List.take_of_length_le (by omega)]

theorem nodup_all_eq_singleton {l : List Bytes} {c : Bytes} (hn : l.Nodup) (hne : l ≠ [])
    (hall : ∀ x ∈ l, x = c) : l = [c] := by
  cases l with
  | nil => exact absurd rfl hne
  | cons a as =>
    have ha := hall a List.mem_cons_self
    subst ha
    cases as with
    | nil => rfl
    | cons b bs =>
      have hb := hall b (List.mem_cons_of_mem _ List.mem_cons_self)
      subst hb
      simp at hn

theorem sortAndDivide_ok {names : List Bytes} {t : Tree} (h : sortAndDivide names = some t) :
    TreeOK names t := by
  unfold sortAndDivide at h
  simp only at h
  split at h
  · exact absurd h (by simp)
  · rename_i hany
    have ht := Option.some.inj h
    subst ht
    have hne : [] ∉ names := by
      intro hmem
      apply hany
      simp only [List.any_eq_true, beq_iff_eq]
      exact ⟨[], List.mem_mergeSort.2 hmem, rfl⟩
    have hcp : ∀ n ∈ names, commonPrefix (sortNames names) <+: n := fun n hn =>
      commonPrefix_prefix _ n (List.mem_mergeSort.2 hn)
    refine ⟨?_, ?_, ?_, ?_, hcp, ?_, hne⟩
    · intro n
      constructor
      · intro hn
        refine ⟨(prefixOf (commonPrefix (sortNames names)) n, _), List.mem_map.2 ⟨_, ?_, rfl⟩, ?_⟩
        · rw [mem_firstOccurrences]
          exact ⟨List.mem_map.2 ⟨n, (mem_uniq _ _).2 hn, rfl⟩, by simp⟩
        · simp only [List.mem_filter, beq_iff_eq]
          exact ⟨(mem_uniq _ _).2 hn, trivial⟩
      · rintro ⟨b, hb, hn⟩
        obtain ⟨p, _, rfl⟩ := List.mem_map.1 hb
        simp only [List.mem_filter, beq_iff_eq] at hn
        exact (mem_uniq _ _).1 hn.1
    · intro b hb n hn
      simp only [List.mem_map] at hb
      obtain ⟨p, _, rfl⟩ := hb
      simp only [List.mem_filter, beq_iff_eq] at hn
      exact hn.2
    · intro b hb
      simp only [List.mem_map] at hb
      obtain ⟨p, hp, rfl⟩ := hb
      rw [mem_firstOccurrences] at hp
      obtain ⟨n, hn, hnp⟩ := List.mem_map.1 hp.1
      intro hnil
      have : n ∈ List.filter (fun n => prefixOf (commonPrefix (sortNames names)) n == p)
          (dedupAdj none (sortNames names)) := by
        simp only [List.mem_filter, beq_iff_eq]; exact ⟨hn, hnp⟩
      simp only at hnil
      rw [hnil] at this
      exact absurd this (by simp)
    · intro b hb n hn hk
      simp only [List.mem_map] at hb
      obtain ⟨p, _, rfl⟩ := hb
      simp only [List.mem_filter, beq_iff_eq]
      exact ⟨(mem_uniq _ _).2 hn, hk⟩
    · intro b hb hk
      simp only [List.mem_map] at hb
      obtain ⟨p, hp, rfl⟩ := hb
      simp only at hk
      subst hk
      refine ⟨commonPrefix (sortNames names), ?_⟩
      apply nodup_all_eq_singleton
      · exact (uniq_nodup names).sublist List.filter_sublist
      · rw [mem_firstOccurrences] at hp
        obtain ⟨n, hn, hnp⟩ := List.mem_map.1 hp.1
        intro hnil
        have : n ∈ List.filter (fun n => prefixOf (commonPrefix (sortNames names)) n == commonPrefix (sortNames names))
            (dedupAdj none (sortNames names)) := by
          simp only [List.mem_filter, beq_iff_eq]; exact ⟨hn, hnp⟩
        simp only at hnil
        rw [hnil] at this
        exact absurd this (by simp)
      · intro x hx
        simp only [List.mem_filter, beq_iff_eq] at hx
        exact prefixOf_eq_cp (hcp x ((mem_uniq _ _).1 hx.1)) hx.2

/-! ### evaluating lists of "interface pattern → goto" rules -/

def ifaceOf (d : IfDir) (pkt : Packet) : Bytes :=
  match d with
  | .inp => pkt.inIface
  | .out => pkt.outIface

def gotoRule (d : IfDir) (pat : Bytes) (t : String) : Rule :=
  { clauses := [ifaceClause d pat], action := .goto t }

theorem endpointRule_eq (pfx : String) (d : IfDir) (n : Bytes) :
    endpointRule pfx d n = gotoRule d n (endpointChainName pfx n) := rfl

theorem runRules_gotoRule (env : Env) (call : String → Mark → Result) (pkt : Packet) (d : IfDir)
    (pat : Bytes) (t : String) (rs : List Rule) (mark : Mark) :
    runRules env call pkt (gotoRule d pat t :: rs) mark =
      if ifaceMatches env.dp pat (ifaceOf d pkt) then call t mark else runRules env call pkt rs mark := by
  cases d <;>
    simp [runRules, gotoRule, Rule.matches, resolveAction, ifaceClause, Clause.matches, ifaceOf] <;> rfl

/-- Generic: a block of goto rules followed by `tail`. -/
theorem runRules_gotoBlock (env : Env) (call : String → Mark → Result) (pkt : Packet) (d : IfDir)
    (mark : Mark) (P : Result → Prop) (tail : List Rule) (l : List (Bytes × String))
    (hfire : ∀ e ∈ l, ifaceMatches env.dp e.1 (ifaceOf d pkt) = true → P (call e.2 mark))
    (hnone : (∀ e ∈ l, ifaceMatches env.dp e.1 (ifaceOf d pkt) = false) →
      P (runRules env call pkt tail mark)) :
    P (runRules env call pkt (l.map (fun e => gotoRule d e.1 e.2) ++ tail) mark) := by
  induction l with
  | nil => exact hnone (by simp)
  | cons e es ih =>
    simp only [List.map_cons, List.cons_append, runRules_gotoRule]
    split
    · rename_i h; exact hfire e List.mem_cons_self h
    · rename_i h
      apply ih
      · intro e' he' h'; exact hfire e' (List.mem_cons_of_mem _ he') h'
      · intro hall
        apply hnone
        intro e' he'
        rcases List.mem_cons.1 he' with h1 | h1
        · subst h1; simpa using h
        · exact hall e' h1

theorem ifaceMatches_exact {dp : Dataplane} {pat x : Bytes}
    (h : pat.getLast? ≠ some (wildcardByte dp)) : ifaceMatches dp pat x = (pat == x) := by
  unfold ifaceMatches
  split
  · rename_i b hb
    split
    · rename_i hw; subst hw; exact absurd hb h
    · rfl
  · rfl

theorem ifaceMatches_wild (dp : Dataplane) (p x : Bytes) :
    ifaceMatches dp (p ++ [wildcardByte dp]) x = p.isPrefixOf x := by
  unfold ifaceMatches
  simp

/-! ### the prefix tree -/

def rootPat (dp : Dataplane) (b : Bytes × List Bytes) : Bytes :=
  match b.2 with
  | [single] => single
  | _ => b.1 ++ [wildcardByte dp]

def rootTarget (chainName ifx epPfx : String) (cp : Bytes) (b : Bytes × List Bytes) : String :=
  match b.2 with
  | [single] => endpointChainName epPfx single
  | _ => childChainName chainName ifx cp b.1

theorem rootRule_eq (dp : Dataplane) (chainName ifx epPfx : String) (d : IfDir) (cp : Bytes)
    (b : Bytes × List Bytes) :
    rootRule dp chainName ifx epPfx d cp b =
      gotoRule d (rootPat dp b) (rootTarget chainName ifx epPfx cp b) := by
  obtain ⟨p, ns⟩ := b
  rcases ns with _ | ⟨a, _ | ⟨c, cs⟩⟩ <;> rfl

theorem prefixOf_prefix {cp x : Bytes} (h : cp <+: x) : prefixOf cp x <+: x := by
  unfold prefixOf
  split
  · exact List.take_prefix _ _
  · exact h

/-- a multi-name bucket whose key is a prefix of `x` contains `x` (if `x` is configured) -/
theorem mem_bucket_of_prefix {names : List Bytes} {t : Tree} (ok : TreeOK names t)
    {b : Bytes × List Bytes} (hb : b ∈ t.buckets) (hmulti : ∀ n, b.2 ≠ [n]) {x : Bytes}
    (hx : x ∈ names) (hpre : b.1 <+: x) : x ∈ b.2 := by
  have hne : b.1 ≠ t.commonPrefix := fun h => by
    obtain ⟨n, hn⟩ := ok.cpSingle b hb h
    exact hmulti n hn
  obtain ⟨n, hn⟩ := List.exists_mem_of_ne_nil _ (ok.nonempty b hb)
  have hk := ok.key b hb n hn
  apply ok.complete b hb x hx
  unfold prefixOf at hk ⊢
  split at hk
  · rename_i hlen
    have hl : b.1.length = t.commonPrefix.length + 1 := by
      rw [← hk, List.length_take]; omega
    have hxl : b.1.length ≤ x.length := hpre.length_le
    rw [if_pos (by omega)]
    have := List.prefix_iff_eq_take.1 hpre
    rw [hl] at this
    exact this.symm
  · exact absurd hk.symm hne

theorem tree_dispatch (env : Env) (callRoot callChild : String → Mark → Result) (pkt : Packet)
    (d : IfDir) (mark : Mark) (names : List Bytes) (t : Tree) (chainName ifx epPfx : String)
    (endRules : List Rule) (ok : TreeOK names t)
    (hw : ∀ n ∈ names, n.getLast? ≠ some (wildcardByte env.dp))
    (hchild : ∀ b ∈ t.buckets, (∀ n, b.2 ≠ [n]) → ∀ m,
      callRoot (childChainName chainName ifx t.commonPrefix b.1) m =
        runRules env callChild pkt (b.2.map (endpointRule epPfx d) ++ endRules) m) :
    (ifaceOf d pkt ∈ names →
      runRules env callRoot pkt
        (t.buckets.map (rootRule env.dp chainName ifx epPfx d t.commonPrefix) ++ endRules) mark
          = callRoot (endpointChainName epPfx (ifaceOf d pkt)) mark ∨
      runRules env callRoot pkt
        (t.buckets.map (rootRule env.dp chainName ifx epPfx d t.commonPrefix) ++ endRules) mark
          = callChild (endpointChainName epPfx (ifaceOf d pkt)) mark) ∧
    (ifaceOf d pkt ∉ names →
      runRules env callRoot pkt
        (t.buckets.map (rootRule env.dp chainName ifx epPfx d t.commonPrefix) ++ endRules) mark
          = runRules env callRoot pkt endRules mark ∨
      runRules env callRoot pkt
        (t.buckets.map (rootRule env.dp chainName ifx epPfx d t.commonPrefix) ++ endRules) mark
          = runRules env callChild pkt endRules mark) := by
  have hmap : t.buckets.map (rootRule env.dp chainName ifx epPfx d t.commonPrefix) =
      (t.buckets.map (fun b => (rootPat env.dp b, rootTarget chainName ifx epPfx t.commonPrefix b))).map
        (fun e => gotoRule d e.1 e.2) := by
    rw [List.map_map]; apply List.map_congr_left; intro b _; simp [rootRule_eq]
  have hmapc : ∀ ns : List Bytes, ns.map (endpointRule epPfx d) =
      (ns.map (fun n => (n, endpointChainName epPfx n))).map (fun e => gotoRule d e.1 e.2) := by
    intro ns; rw [List.map_map]; apply List.map_congr_left; intro n _; simp [endpointRule_eq]
  have hsingle : ∀ b ∈ t.buckets, ∀ n, b.2 = [n] → n ∈ names := fun b hb n hn =>
    (ok.mem n).2 ⟨b, hb, by rw [hn]; exact List.mem_cons_self⟩
  rw [hmap]
  constructor
  · intro hx
    apply runRules_gotoBlock env callRoot pkt d mark
      (fun r => r = callRoot (endpointChainName epPfx (ifaceOf d pkt)) mark ∨
                r = callChild (endpointChainName epPfx (ifaceOf d pkt)) mark)
    · intro e he hfire
      obtain ⟨b, hb, rfl⟩ := List.mem_map.1 he
      simp only [rootPat, rootTarget] at hfire ⊢
      split at hfire
      · rename_i n hn
        rw [ifaceMatches_exact (hw n (hsingle b hb n hn))] at hfire
        have : n = ifaceOf d pkt := by simpa using hfire
        simp [this]
      · rename_i hmulti
        rw [ifaceMatches_wild] at hfire
        have hpre : b.1 <+: ifaceOf d pkt := List.isPrefixOf_iff_prefix.1 hfire
        have hmulti' : ∀ n, b.2 ≠ [n] := fun n hn => hmulti n hn
        have hxb := mem_bucket_of_prefix ok hb hmulti' hx hpre
        right
        rw [hchild b hb hmulti' mark, hmapc]
        apply runRules_gotoBlock env callChild pkt d mark
          (fun r => r = callChild (endpointChainName epPfx (ifaceOf d pkt)) mark)
        · intro e he hf
          obtain ⟨n, hn, rfl⟩ := List.mem_map.1 he
          have hnn : n ∈ names := (ok.mem n).2 ⟨b, hb, hn⟩
          rw [ifaceMatches_exact (hw n hnn)] at hf
          have : n = ifaceOf d pkt := by simpa using hf
          simp only [this]
        · intro hall
          have := hall (ifaceOf d pkt, endpointChainName epPfx (ifaceOf d pkt))
            (List.mem_map.2 ⟨_, hxb, rfl⟩)
          rw [ifaceMatches_exact (hw _ hx)] at this
          simp at this
    · intro hall
      exfalso
      obtain ⟨b, hb, hxb⟩ := (ok.mem _).1 hx
      have := hall (rootPat env.dp b, rootTarget chainName ifx epPfx t.commonPrefix b)
        (List.mem_map.2 ⟨b, hb, rfl⟩)
      simp only [rootPat] at this
      split at this
      · rename_i n hn
        rw [hn] at hxb
        have hxn : ifaceOf d pkt = n := by simpa using hxb
        rw [ifaceMatches_exact (hw n (hsingle b hb n hn)), hxn] at this
        simp at this
      · rw [ifaceMatches_wild] at this
        have hk := ok.key b hb _ hxb
        have hp := prefixOf_prefix (ok.cpPrefix _ hx)
        rw [hk] at hp
        have := List.isPrefixOf_iff_prefix.2 hp
        simp_all
  · intro hx
    apply runRules_gotoBlock env callRoot pkt d mark
      (fun r => r = runRules env callRoot pkt endRules mark ∨ r = runRules env callChild pkt endRules mark)
    · intro e he hfire
      obtain ⟨b, hb, rfl⟩ := List.mem_map.1 he
      simp only [rootPat, rootTarget] at hfire ⊢
      split at hfire
      · rename_i n hn
        rw [ifaceMatches_exact (hw n (hsingle b hb n hn))] at hfire
        have : n = ifaceOf d pkt := by simpa using hfire
        exact absurd (this ▸ hsingle b hb n hn) hx
      · rename_i hmulti
        have hmulti' : ∀ n, b.2 ≠ [n] := fun n hn => hmulti n hn
        right
        rw [hchild b hb hmulti' mark, hmapc]
        apply runRules_gotoBlock env callChild pkt d mark
          (fun r => r = runRules env callChild pkt endRules mark)
        · intro e he hf
          obtain ⟨n, hn, rfl⟩ := List.mem_map.1 he
          have hnn : n ∈ names := (ok.mem n).2 ⟨b, hb, hn⟩
          rw [ifaceMatches_exact (hw n hnn)] at hf
          have : n = ifaceOf d pkt := by simpa using hf
          exact absurd (this ▸ hnn) hx
        · intro _; rfl
    · intro _; exact Or.inl rfl

/-! ### chain lookup -/

theorem lookupChain_of_mem {chains : List Chain} (hn : (chains.map (·.name)).Nodup) {c : Chain}
    (hc : c ∈ chains) : lookupChain chains c.name = some c.rules := by
  induction chains with
  | nil => exact absurd hc (by simp)
  | cons a as ih =>
    simp only [List.map_cons, List.nodup_cons] at hn
    rcases List.mem_cons.1 hc with h | h
    · subst h; simp [lookupChain]
    · have hne : a.name ≠ c.name := fun he => hn.1 (he ▸ List.mem_map.2 ⟨c, h, rfl⟩)
      have := ih hn.2 h
      simp only [lookupChain, List.find?_cons] at this ⊢
      rw [show (a.name == c.name) = false from by simpa using hne]
      exact this

theorem evalChain_of_lookup {env : Env} {chains : List Chain} {pkt : Packet} {name : String}
    {rules : List Rule} (h : lookupChain chains name = some rules) (fuel : Nat) (mark : Mark) :
    evalChain env chains pkt (fuel + 1) name mark =
      runRules env (evalChain env chains pkt fuel) pkt rules mark := by
  simp [evalChain, h]

theorem evalChain_missing {env : Env} {chains : List Chain} {pkt : Packet} {name : String}
    (h : lookupChain chains name = none) (fuel : Nat) (mark : Mark) :
    evalChain env chains pkt (fuel + 1) name mark = .missing name := by
  simp [evalChain, h]

/-! ### the rendered chain names never collide (string-level facts) -/

def unhex (c : Char) : Nat := if c.toNat < 58 then c.toNat - 48 else c.toNat - 87

/-- decoder for one escaped byte -/
def unescOne : List Char → Nat
  | [c] => c.toNat
  | [_, a, b] => unhex a * 16 + unhex b
  | _ => 0

theorem unesc_escByte : ∀ n : Fin 256, unescOne (escByte (UInt8.ofNat n.val)).toList = n.val := by
  decide +kernel

theorem escByte_inj (a b : UInt8) (h : escByte a = escByte b) : a = b := by
  have ha := unesc_escByte ⟨a.toNat, a.toNat_lt⟩
  have hb := unesc_escByte ⟨b.toNat, b.toNat_lt⟩
  simp only [UInt8.ofNat_toNat] at ha hb
  rw [h] at ha
  exact UInt8.toNat_inj.1 (ha.symm.trans hb)

theorem escBytes_single (b : UInt8) : escBytes [b] = escByte b := by
  simp [escBytes, String.join]

/-- first seven characters of a name: enough to tell the four chain-name families apart -/
def pfx7 (s : String) : List Char := s.toList.take 7

theorem pfx7_append (lit x : String) (h : 7 ≤ lit.toList.length) : pfx7 (lit ++ x) = lit.toList.take 7 := by
  simp [pfx7, String.toList_append, List.take_append_of_le_length h]

theorem firstOccurrences_nodup (seen l : List Bytes) : (firstOccurrences seen l).Nodup := by
  induction l generalizing seen with
  | nil => simp [firstOccurrences]
  | cons y ys ih =>
    simp only [firstOccurrences]
    split
    · exact ih seen
    · refine List.nodup_cons.2 ⟨?_, ih _⟩
      intro h
      have := (mem_firstOccurrences _ _ _).1 h
      exact this.2 List.mem_cons_self

theorem keys_nodup {names : List Bytes} {t : Tree} (h : sortAndDivide names = some t) :
    (t.buckets.map (·.1)).Nodup := by
  unfold sortAndDivide at h
  simp only at h
  split at h
  · exact absurd h (by simp)
  · have := Option.some.inj h
    subst this
    simp only [List.map_map, Function.comp_def, List.map_id']
    exact firstOccurrences_nodup _ _

theorem key_shape {names : List Bytes} {t : Tree} (ok : TreeOK names t) {b : Bytes × List Bytes}
    (hb : b ∈ t.buckets) (hm : ∀ n, b.2 ≠ [n]) : ∃ byte, b.1 = t.commonPrefix ++ [byte] := by
  have hne : b.1 ≠ t.commonPrefix := fun h => by
    obtain ⟨n, hn⟩ := ok.cpSingle b hb h
    exact hm n hn
  obtain ⟨n, hn⟩ := List.exists_mem_of_ne_nil _ (ok.nonempty b hb)
  have hk := ok.key b hb n hn
  have hnn : n ∈ names := (ok.mem n).2 ⟨b, hb, hn⟩
  obtain ⟨rest, hrest⟩ := ok.cpPrefix n hnn
  unfold prefixOf at hk
  split at hk
  · rename_i hlen
    cases rest with
    | nil => simp at hrest; rw [← hrest] at hlen; simp at hlen
    | cons r rs =>
      refine ⟨r, ?_⟩
      rw [← hk, ← hrest]
      simp [List.take_append, List.take_of_length_le]
  · exact absurd hk.symm hne

theorem childChainName_form (cn : String) (cp : Bytes) (byte : UInt8) :
    childChainName cn "" cp (cp ++ [byte]) = cn ++ ("-" ++ escByte byte) := by
  simp [childChainName, escBytes_single, toString, String.append_assoc]

theorem childChain_single (cn ifx epPfx : String) (d : IfDir) (cp : Bytes) (endRules : List Rule)
    (b : Bytes × List Bytes) (n : Bytes) (h : b.2 = [n]) : childChain cn ifx epPfx d cp endRules b = none := by
  obtain ⟨p, ns⟩ := b
  simp only at h
  subst h
  rfl

theorem childChain_multi' (cn ifx epPfx : String) (d : IfDir) (cp : Bytes) (endRules : List Rule)
    (b : Bytes × List Bytes) (hm : ∀ n, b.2 ≠ [n]) :
    childChain cn ifx epPfx d cp endRules b =
      some { name := childChainName cn ifx cp b.1, rules := b.2.map (endpointRule epPfx d) ++ endRules } := by
  obtain ⟨p, ns⟩ := b
  rcases ns with _ | ⟨a, _ | ⟨c, cs⟩⟩
  · rfl
  · exact absurd rfl (hm a)
  · rfl

/-- names of the child chains of a prefix tree: pairwise distinct, each `<root>-<escaped byte>` -/
theorem tree_child_names {names : List Bytes} {t : Tree} (hsd : sortAndDivide names = some t)
    (dp : Dataplane) (cn epPfx : String) (d : IfDir) (endRules : List Rule) :
    ((buildTree dp cn t epPfx d endRules "").1.map (·.name)).Nodup ∧
    ∀ c ∈ (buildTree dp cn t epPfx d endRules "").1, ∃ byte, c.name = cn ++ ("-" ++ escByte byte) := by
  have ok := sortAndDivide_ok hsd
  have hk := keys_nodup hsd
  simp only [buildTree]
  constructor
  · rw [List.nodup_iff_pairwise_ne, List.pairwise_map]
    have hp : List.Pairwise (fun b b' : Bytes × List Bytes => b.1 ≠ b'.1) t.buckets := by
      rw [List.nodup_iff_pairwise_ne, List.pairwise_map] at hk; exact hk
    have hp' := List.Pairwise.and_mem.1 hp
    refine List.Pairwise.filterMap _ ?_ hp'
    intro b b' ⟨hb, hb', hne⟩ c hc c' hc'
    by_cases hm : ∀ n, b.2 ≠ [n]
    · by_cases hm' : ∀ n, b'.2 ≠ [n]
      · rw [childChain_multi' _ _ _ _ _ _ b hm] at hc
        rw [childChain_multi' _ _ _ _ _ _ b' hm'] at hc'
        cases hc; cases hc'
        obtain ⟨x, hx⟩ := key_shape ok hb hm
        obtain ⟨y, hy⟩ := key_shape ok hb' hm'
        simp only [hx, hy, childChainName_form]
        intro heq
        have h1 := congrArg String.toList heq
        simp only [String.toList_append, List.append_cancel_left_eq] at h1
        have := escByte_inj x y (String.toList_inj.1 h1)
        exact hne (by rw [hx, hy, this])
      · have : ∃ n, b'.2 = [n] := by
          by_cases h : ∃ n, b'.2 = [n]
          · exact h
          · exact absurd (fun n hn => h ⟨n, hn⟩) hm'
        obtain ⟨n, hn⟩ := this
        rw [childChain_single _ _ _ _ _ _ b' n hn] at hc'; cases hc'
    · have : ∃ n, b.2 = [n] := by
        by_cases h : ∃ n, b.2 = [n]
        · exact h
        · exact absurd (fun n hn => h ⟨n, hn⟩) hm
      obtain ⟨n, hn⟩ := this
      rw [childChain_single _ _ _ _ _ _ b n hn] at hc; cases hc
  · intro c hc
    obtain ⟨b, hb, hcb⟩ := List.mem_filterMap.1 hc
    by_cases hm : ∀ n, b.2 ≠ [n]
    · rw [childChain_multi' _ _ _ _ _ _ b hm] at hcb
      cases hcb
      obtain ⟨x, hx⟩ := key_shape ok hb hm
      exact ⟨x, by simp only [hx, childChainName_form]⟩
    · have : ∃ n, b.2 = [n] := by
        by_cases h : ∃ n, b.2 = [n]
        · exact h
        · exact absurd (fun n hn => h ⟨n, hn⟩) hm
      obtain ⟨n, hn⟩ := this
      rw [childChain_single _ _ _ _ _ _ b n hn] at hcb; cases hcb

theorem lookupChain_none_of_names {chains : List Chain} {t : String}
    (h : t ∉ chains.map (·.name)) : lookupChain chains t = none := by
  induction chains with
  | nil => rfl
  | cons c cs ih =>
    simp only [List.map_cons, List.mem_cons, not_or] at h
    simp only [lookupChain, List.find?_cons]
    have : (c.name == t) = false := by simpa using Ne.symm h.1
    rw [this]
    exact ih h.2

theorem append_ne_self (a y : String) (h : y.toList ≠ []) : a ++ y ≠ a := by
  intro he
  have := congrArg String.toList he
  simp only [String.toList_append, List.append_right_eq_self] at this
  exact h this

theorem pfx7_epName (pfx : String) (n : Bytes) (h : 7 ≤ pfx.toList.length) :
    pfx7 (endpointChainName pfx n) = pfx.toList.take 7 := by
  unfold endpointChainName
  split <;> exact pfx7_append _ _ h

theorem ne_of_pfx7 {a b : String} (h : pfx7 a ≠ pfx7 b) : a ≠ b := fun he => h (by rw [he])

/-- names of one direction's tree (children + root): pairwise distinct and all with the root's
7-character prefix -/
theorem tree_names {names : List Bytes} {t : Tree} (hsd : sortAndDivide names = some t)
    (dp : Dataplane) (cn epPfx : String) (d : IfDir) (endRules : List Rule) (h7 : 7 ≤ cn.toList.length) :
    (((buildTree dp cn t epPfx d endRules "").1 ++ [(buildTree dp cn t epPfx d endRules "").2]).map (·.name)).Nodup ∧
    ∀ x ∈ ((buildTree dp cn t epPfx d endRules "").1 ++ [(buildTree dp cn t epPfx d endRules "").2]).map (·.name),
      pfx7 x = cn.toList.take 7 := by
  obtain ⟨hnd, hform⟩ := tree_child_names hsd dp cn epPfx d endRules
  have hroot : (buildTree dp cn t epPfx d endRules "").2.name = cn := rfl
  constructor
  · rw [List.map_append, List.nodup_append]
    refine ⟨hnd, by simp, ?_⟩
    intro a ha b hb
    simp only [List.map_cons, List.map_nil, List.mem_singleton, hroot] at hb
    subst hb
    obtain ⟨c, hc, rfl⟩ := List.mem_map.1 ha
    obtain ⟨byte, hbyte⟩ := hform c hc
    rw [hbyte]
    exact append_ne_self _ _ (by simp [String.toList_append])
  · intro x hx
    rw [List.map_append, List.mem_append] at hx
    rcases hx with hx | hx
    · obtain ⟨c, hc, rfl⟩ := List.mem_map.1 hx
      obtain ⟨byte, hbyte⟩ := hform c hc
      rw [hbyte]
      exact pfx7_append _ _ h7
    · simp only [List.map_cons, List.map_nil, List.mem_singleton, hroot] at hx
      subst hx
      rfl

/-- **The rendered workload dispatch chain names never collide** (either dataplane): the decidable
side condition of the dispatch theorems holds for every list of interface names. -/
theorem workload_names_ok (dp : Dataplane) (reject : Bool) (names : List Bytes) (chains : List Chain)
    (hc : workloadDispatchChains dp reject names = some chains) :
    chainNamesOK chains
      (names.map (endpointChainName pfxFromWl) ++ names.map (endpointChainName pfxToWl)) = true := by
  unfold workloadDispatchChains interfaceNameDispatchChains at hc
  split at hc
  · exact absurd hc (by simp)
  · rename_i t hsd
    have hc := Option.some.inj hc
    have p1 : chainFromWl.toList.take 7 = ['c', 'a', 'l', 'i', '-', 'f', 'r'] := by decide
    have p2 : chainToWl.toList.take 7 = ['c', 'a', 'l', 'i', '-', 't', 'o'] := by decide
    have p3 : pfxFromWl.toList.take 7 = ['c', 'a', 'l', 'i', '-', 'f', 'w'] := by decide
    have p4 : pfxToWl.toList.take 7 = ['c', 'a', 'l', 'i', '-', 't', 'w'] := by decide
    -- names of the two families and their 7-prefixes
    have key : (chains.map (·.name)).Nodup ∧
        ∀ x ∈ chains.map (·.name), pfx7 x = ['c', 'a', 'l', 'i', '-', 'f', 'r'] ∨ pfx7 x = ['c', 'a', 'l', 'i', '-', 't', 'o'] := by
      simp only [pfxFromWl, pfxToWl, ne_eq, String.reduceEq, not_false_eq_true, if_true] at hc
      cases dp
      · -- iptables: two prefix trees
        have hbs : ∀ (cn pf : String) (d : IfDir) (e : List Rule),
            buildSingle .ipt cn t pf d e "" = buildTree .ipt cn t pf d e "" := by
          intro cn pf d e; simp [buildSingle]
        simp only [hbs] at hc
        obtain ⟨n1, f1⟩ := tree_names hsd .ipt chainFromWl "cali-fw-" .inp (unknownIfaceRules reject) (by decide)
        obtain ⟨n2, f2⟩ := tree_names hsd .ipt chainToWl "cali-tw-" .out (unknownIfaceRules reject) (by decide)
        rw [← hc, List.map_append]
        constructor
        · rw [List.nodup_append]
          refine ⟨n1, n2, ?_⟩
          intro a ha b hb
          apply ne_of_pfx7
          rw [f1 a ha, f2 b hb, p1, p2]; decide
        · intro x hx
          rcases List.mem_append.1 hx with h | h
          · exact Or.inl (by rw [f1 x h, p1])
          · exact Or.inr (by rw [f2 x h, p2])
      · -- nftables: the two verdict-map root chains
        simp only [buildSingle, pfxFromWl, pfxToWl, true_and, or_true, true_or, if_true, List.nil_append] at hc
        rw [← hc]
        simp only [List.map_append, List.map_cons, List.map_nil, buildVmap, List.cons_append, List.nil_append]
        constructor
        · simp only [List.nodup_cons, List.mem_singleton, List.not_mem_nil, not_false_eq_true, List.nodup_nil, and_true]
          decide
        · intro x hx
          simp only [List.mem_cons, List.mem_singleton, List.not_mem_nil, or_false] at hx
          rcases hx with rfl | rfl
          · left; decide
          · right; decide
    obtain ⟨hnd, hfam⟩ := key
    simp only [chainNamesOK, Bool.and_eq_true, decide_eq_true_eq, List.all_eq_true, List.mem_append, List.mem_map,
      Option.isNone_iff_eq_none]
    refine ⟨hnd, ?_⟩
    rintro x (⟨n, _, rfl⟩ | ⟨n, _, rfl⟩)
    · apply lookupChain_none_of_names
      intro hmem
      have h7 := pfx7_epName pfxFromWl n (by decide)
      rcases hfam _ hmem with h | h <;> (rw [h7, p3] at h; exact absurd h (by decide))
    · apply lookupChain_none_of_names
      intro hmem
      have h7 := pfx7_epName pfxToWl n (by decide)
      rcases hfam _ hmem with h | h <;> (rw [h7, p4] at h; exact absurd h (by decide))

/-- same for `HostDispatchChains(endpoints, default, false)` -/
theorem host_names_ok (dp : Dataplane) (names : List Bytes) (dflt : Bytes) (wlp : List Bytes) (chains : List Chain)
    (hc : hostDispatchChains dp names dflt wlp .both false = some chains) :
    chainNamesOK chains
      (names.map (endpointChainName "cali-fh-") ++ names.map (endpointChainName "cali-th-") ++
        [endpointChainName "cali-fh-" dflt, endpointChainName "cali-th-" dflt]) = true := by
  unfold hostDispatchChains at hc
  simp only [Bool.false_eq_true, not_false_eq_true, and_true, if_true] at hc
  unfold interfaceNameDispatchChains at hc
  split at hc
  · exact absurd hc (by simp)
  · rename_i t hsd
    have hc := Option.some.inj hc
    have hbs : ∀ (cn pf : String) (d : IfDir) (e : List Rule), pf ≠ pfxFromWl → pf ≠ pfxToWl →
        buildSingle dp cn t pf d e "" = buildTree dp cn t pf d e "" := by
      intro cn pf d e h1 h2; simp [buildSingle, h1, h2]
    rw [hbs _ "cali-fh-" _ _ (by decide) (by decide), hbs _ "cali-th-" _ _ (by decide) (by decide)] at hc
    simp only [ne_eq, String.reduceEq, not_false_eq_true, if_true] at hc
    have p1 : "cali-from-host-endpoint".toList.take 7 = ['c', 'a', 'l', 'i', '-', 'f', 'r'] := by decide
    have p2 : "cali-to-host-endpoint".toList.take 7 = ['c', 'a', 'l', 'i', '-', 't', 'o'] := by decide
    have p3 : "cali-fh-".toList.take 7 = ['c', 'a', 'l', 'i', '-', 'f', 'h'] := by decide
    have p4 : "cali-th-".toList.take 7 = ['c', 'a', 'l', 'i', '-', 't', 'h'] := by decide
    obtain ⟨n1, f1⟩ := tree_names hsd dp "cali-from-host-endpoint" "cali-fh-" .inp
      (if dflt ≠ [] then [({ action := .goto (endpointChainName "cali-fh-" dflt) } : Rule)] else []) (by decide)
    obtain ⟨n2, f2⟩ := tree_names hsd dp "cali-to-host-endpoint" "cali-th-" .out
      ((if dflt ≠ [] ∧ True then wlp.map (skipWorkloadRule dp) else []) ++
        (if dflt ≠ [] then [({ action := .goto (endpointChainName "cali-th-" dflt) } : Rule)] else [])) (by decide)
    have key : (chains.map (·.name)).Nodup ∧
        ∀ x ∈ chains.map (·.name), pfx7 x = ['c', 'a', 'l', 'i', '-', 'f', 'r'] ∨ pfx7 x = ['c', 'a', 'l', 'i', '-', 't', 'o'] := by
      rw [← hc, List.map_append]
      simp only [and_true] at n2 f2
      constructor
      · rw [List.nodup_append]
        refine ⟨n1, n2, ?_⟩
        intro a ha b hb
        apply ne_of_pfx7
        rw [f1 a ha, f2 b hb, p1, p2]; decide
      · intro x hx
        rcases List.mem_append.1 hx with h | h
        · exact Or.inl (by rw [f1 x h, p1])
        · exact Or.inr (by rw [f2 x h, p2])
    obtain ⟨hnd, hfam⟩ := key
    simp only [chainNamesOK, Bool.and_eq_true, decide_eq_true_eq, List.all_eq_true, List.mem_append, List.mem_map,
      Option.isNone_iff_eq_none, List.mem_cons, List.not_mem_nil, or_false]
    refine ⟨hnd, ?_⟩
    have hF : ∀ n, lookupChain chains (endpointChainName "cali-fh-" n) = none := by
      intro n
      apply lookupChain_none_of_names
      intro hmem
      have h7 := pfx7_epName "cali-fh-" n (by decide)
      rcases hfam _ hmem with h | h <;> (rw [h7, p3] at h; exact absurd h (by decide))
    have hT : ∀ n, lookupChain chains (endpointChainName "cali-th-" n) = none := by
      intro n
      apply lookupChain_none_of_names
      intro hmem
      have h7 := pfx7_epName "cali-th-" n (by decide)
      rcases hfam _ hmem with h | h <;> (rw [h7, p4] at h; exact absurd h (by decide))
    rintro x ((⟨n, _, rfl⟩ | ⟨n, _, rfl⟩) | rfl | rfl)
    · exact hF n
    · exact hT n
    · exact hF dflt
    · exact hT dflt

/-! ### nftables verdict maps: desired / dataplane tracking -/

/-- **add-or-replace + Apply converges, from ANY prior state**: afterwards the kernel holds exactly
the new member set — in particular nothing at all when the new set is empty. -/
theorem mapState_apply_mem (s : MapState) (m : List Member) (e : Member) :
    e ∈ ((s.addOrReplace m).apply).dataplane ↔ e ∈ m := by
  simp only [MapState.apply, MapState.addOrReplace, MapState.pendingDeletions, MapState.pendingAdds,
    List.mem_append, List.mem_filter, List.contains_eq_mem, Bool.not_eq_true', decide_eq_false_iff_not,
    Bool.and_eq_true, decide_eq_true_eq, not_and, Decidable.not_not]
  constructor
  · rintro (⟨h1, h2⟩ | ⟨h1, _⟩)
    · exact h2 h1
    · exact h1
  · intro h
    by_cases hd : e ∈ s.dataplane
    · exact Or.inl ⟨hd, fun _ => h⟩
    · exact Or.inr ⟨h, hd⟩

theorem find_val_of_set_eq (l1 l2 : List Member) (hset : ∀ e, e ∈ l1 ↔ e ∈ l2)
    (hfun : ∀ k v v', (k, v) ∈ l2 → (k, v') ∈ l2 → v = v') (key : Bytes) :
    (l1.find? fun kv => kv.1 == key).map (·.2) = (l2.find? fun kv => kv.1 == key).map (·.2) := by
  cases h1 : l1.find? fun kv => kv.1 == key with
  | none =>
    cases h2 : l2.find? fun kv => kv.1 == key with
    | none => rfl
    | some e =>
      exfalso
      have hm := List.mem_of_find?_eq_some h2
      have hk := List.find?_some h2
      have := List.find?_eq_none.1 h1 e ((hset e).2 hm)
      exact this hk
  | some e =>
    have hm := (hset e).1 (List.mem_of_find?_eq_some h1)
    have hk : e.1 = key := by simpa using List.find?_some h1
    cases h2 : l2.find? fun kv => kv.1 == key with
    | none =>
      exfalso
      have := List.find?_eq_none.1 h2 e hm
      exact this (by simpa using hk)
    | some e' =>
      have hm' := List.mem_of_find?_eq_some h2
      have hk' : e'.1 = key := by simpa using List.find?_some h2
      obtain ⟨k, v⟩ := e
      obtain ⟨k', v'⟩ := e'
      simp only at hk hk'
      subst hk; subst hk'
      simp only [Option.map_some]
      rw [hfun _ _ _ hm hm']

theorem dispatchMappings_functional (names : List Bytes) (pfx : String) :
    ∀ k v v', (k, v) ∈ (dedupAdj none (sortNames names)).map (fun n => (n, endpointChainName pfx n)) →
      (k, v') ∈ (dedupAdj none (sortNames names)).map (fun n => (n, endpointChainName pfx n)) → v = v' := by
  intro k v v' h1 h2
  obtain ⟨n1, _, e1⟩ := List.mem_map.1 h1
  obtain ⟨n2, _, e2⟩ := List.mem_map.1 h2
  cases e1; cases e2; rfl

end CalicoVerif.C10
