import CalicoVerif.Proofs.C02Calls
/-! C02: every flush phase keeps the invariant and emits only well-formed messages. -/
namespace CalicoVerif.C02

/-- A phase is OK if, from any state satisfying the invariant, its messages are well-formed one after
the other and the invariant holds again for the dataplane state they produce. -/
def PhaseOK (p : Phase) : Prop :=
  ∀ s u d, Inv s u d → AllWF d (p s).2 ∧ Inv (p s).1 u (d.applyAll (p s).2)

/-- A message that neither changes the modelled dataplane state nor has a well-formedness condition. -/
def Inert (m : Msg) : Prop := ∀ d, d.apply m = d ∧ WF d m

theorem inert_list {ms : List Msg} (h : ∀ m ∈ ms, Inert m) (d : DP) : d.applyAll ms = d ∧ AllWF d ms := by
  induction ms with
  | nil => exact ⟨rfl, trivial⟩
  | cons m t ih =>
    have hm := h m (by simp) d
    have := ih (fun m' hm' => h m' (by simp [hm']))
    simp only [applyAll_cons, AllWF, hm.1, hm.2, this, and_self]

theorem PhaseOK.seq {p q : Phase} (hp : PhaseOK p) (hq : PhaseOK q) :
    PhaseOK (fun s => ((q (p s).1).1, (p s).2 ++ (q (p s).1).2)) := by
  intro s u d h
  have h1 := hp s u d h
  have h2 := hq _ u _ h1.2
  simp only [AllWF_append, applyAll_append]
  exact ⟨⟨h1.1, h2.1⟩, h2.2⟩

theorem PhaseOK.nil : PhaseOK (runPhases []) := fun _ _ _ h => ⟨trivial, h⟩

theorem PhaseOK.cons {p : Phase} {ps : List Phase} (hp : PhaseOK p) (hps : PhaseOK (runPhases ps)) :
    PhaseOK (runPhases (p :: ps)) := hp.seq hps

theorem ok_readyFlag : PhaseOK flushReadyFlag := by
  intro s u d h
  unfold flushReadyFlag
  by_cases hn : s.notReady
  · simp only [hn, if_true]
    exact ⟨⟨trivial, trivial⟩, ⟨h.ips, h.pol, h.prof, h.ep, h.vtep, h.route, h.gen⟩⟩
  · simp only [hn, Bool.false_eq_true, if_false]; exact ⟨trivial, h⟩

theorem ok_encap : PhaseOK flushEncap := by
  intro s u d h
  unfold flushEncap
  cases he : s.encap with
  | none => exact ⟨trivial, h⟩
  | some t => exact ⟨⟨trivial, trivial⟩, ⟨h.ips, h.pol, h.prof, h.ep, h.vtep, h.route, h.gen⟩⟩

theorem ok_bgp : PhaseOK flushBGP := by
  intro s u d h
  unfold flushBGP
  cases he : s.bgp with
  | none => exact ⟨trivial, h⟩
  | some t => exact ⟨⟨trivial, trivial⟩, ⟨h.ips, h.pol, h.prof, h.ep, h.vtep, h.route, h.gen⟩⟩

theorem ok_policyUpdates : PhaseOK flushPolicyUpdates := by
  intro s u d h
  have := polLens.phaseUpd (c := s.pol) (U := u.pol) (d := d) h.pol
  obtain ⟨h1, h2, h3⟩ := this
  refine ⟨h1, ?_⟩
  have hd : d.applyAll (flushPolicyUpdates s).2 = polLens.set d (applyUpds polLens.g (polLens.get d) s.pol.upd) := h2
  rw [hd]
  rw [h2] at h3
  exact ⟨h.ips, h3, h.prof, h.ep, h.vtep, h.route, h.gen⟩

theorem ok_policyDeletes : PhaseOK flushPolicyDeletes := by
  intro s u d h
  obtain ⟨h1, h2, h3⟩ := polLens.phaseDel (c := s.pol) (U := u.pol) (d := d) h.pol
  refine ⟨h1, ?_⟩
  have hd : d.applyAll (flushPolicyDeletes s).2 = polLens.set d (applyDels (polLens.get d) s.pol.del) := h2
  rw [hd]; rw [h2] at h3
  exact ⟨h.ips, h3, h.prof, h.ep, h.vtep, h.route, h.gen⟩

theorem ok_profileUpdates : PhaseOK flushProfileUpdates := by
  intro s u d h
  obtain ⟨h1, h2, h3⟩ := profLens.phaseUpd (c := s.prof) (U := u.prof) (d := d) h.prof
  refine ⟨h1, ?_⟩
  have hd : d.applyAll (flushProfileUpdates s).2 = profLens.set d (applyUpds profLens.g (profLens.get d) s.prof.upd) := h2
  rw [hd]; rw [h2] at h3
  exact ⟨h.ips, h.pol, h3, h.ep, h.vtep, h.route, h.gen⟩

theorem ok_profileDeletes : PhaseOK flushProfileDeletes := by
  intro s u d h
  obtain ⟨h1, h2, h3⟩ := profLens.phaseDel (c := s.prof) (U := u.prof) (d := d) h.prof
  refine ⟨h1, ?_⟩
  have hd : d.applyAll (flushProfileDeletes s).2 = profLens.set d (applyDels (profLens.get d) s.prof.del) := h2
  rw [hd]; rw [h2] at h3
  exact ⟨h.ips, h.pol, h3, h.ep, h.vtep, h.route, h.gen⟩

theorem ok_endpointUpdates : PhaseOK flushEndpointTierUpdates := by
  intro s u d h
  obtain ⟨h1, h2, h3⟩ := epLens.phaseUpd (c := s.ep) (U := u.ep) (d := d) h.ep
  refine ⟨h1, ?_⟩
  have hd : d.applyAll (flushEndpointTierUpdates s).2 = epLens.set d (applyUpds epLens.g (epLens.get d) s.ep.upd) := h2
  rw [hd]; rw [h2] at h3
  exact ⟨h.ips, h.pol, h.prof, h3, h.vtep, h.route, h.gen⟩

theorem ok_endpointDeletes : PhaseOK flushEndpointTierDeletes := by
  intro s u d h
  obtain ⟨h1, h2, h3⟩ := epLens.phaseDel (c := s.ep) (U := u.ep) (d := d) h.ep
  refine ⟨h1, ?_⟩
  have hd : d.applyAll (flushEndpointTierDeletes s).2 = epLens.set d (applyDels (epLens.get d) s.ep.del) := h2
  rw [hd]; rw [h2] at h3
  exact ⟨h.ips, h.pol, h.prof, h3, h.vtep, h.route, h.gen⟩

theorem ok_vtepAdds : PhaseOK flushVTEPAdds := by
  intro s u d h
  obtain ⟨h1, h2, h3⟩ := vtepLens.phaseUpd (c := s.vtep) (U := u.vtep) (d := d) h.vtep
  refine ⟨h1, ?_⟩
  have hd : d.applyAll (flushVTEPAdds s).2 = vtepLens.set d (applyUpds vtepLens.g (vtepLens.get d) s.vtep.upd) := h2
  rw [hd]; rw [h2] at h3
  exact ⟨h.ips, h.pol, h.prof, h.ep, h3, h.route, h.gen⟩

theorem ok_vtepRemoves : PhaseOK flushVTEPRemoves := by
  intro s u d h
  obtain ⟨h1, h2, h3⟩ := vtepLens.phaseDel (c := s.vtep) (U := u.vtep) (d := d) h.vtep
  refine ⟨h1, ?_⟩
  have hd : d.applyAll (flushVTEPRemoves s).2 = vtepLens.set d (applyDels (vtepLens.get d) s.vtep.del) := h2
  rw [hd]; rw [h2] at h3
  exact ⟨h.ips, h.pol, h.prof, h.ep, h3, h.route, h.gen⟩

theorem ok_routeAdds : PhaseOK flushRouteAdds := by
  intro s u d h
  obtain ⟨h1, h2, h3⟩ := routeLens.phaseUpd (c := s.route) (U := u.route) (d := d) h.route
  refine ⟨h1, ?_⟩
  have hd : d.applyAll (flushRouteAdds s).2 = routeLens.set d (applyUpds routeLens.g (routeLens.get d) s.route.upd) := h2
  rw [hd]; rw [h2] at h3
  exact ⟨h.ips, h.pol, h.prof, h.ep, h.vtep, h3, h.gen⟩

theorem ok_routeRemoves : PhaseOK flushRouteRemoves := by
  intro s u d h
  obtain ⟨h1, h2, h3⟩ := routeLens.phaseDel (c := s.route) (U := u.route) (d := d) h.route
  refine ⟨h1, ?_⟩
  have hd : d.applyAll (flushRouteRemoves s).2 = routeLens.set d (applyDels (routeLens.get d) s.route.del) := h2
  rw [hd]; rw [h2] at h3
  exact ⟨h.ips, h.pol, h.prof, h.ep, h.vtep, h3, h.gen⟩

theorem ok_gen (g : GenCat) : PhaseOK (flushGen g) := by
  intro s u d h
  obtain ⟨h1, h2, h3⟩ := (genLens g).phaseDel (c := s.gen g) (U := u.gen g) (d := d) (h.gen g)
  obtain ⟨k1, k2, k3⟩ := (genLens g).phaseUpd (c := ((s.gen g).flushDel (Msg.genRemove g)).1) (U := u.gen g)
    (d := d.applyAll ((s.gen g).flushDel (Msg.genRemove g)).2) h3
  have hms : (flushGen g s).2 = ((s.gen g).flushDel (Msg.genRemove g)).2 ++
      (((s.gen g).flushDel (Msg.genRemove g)).1.flushUpd (fun k v => [Msg.genUpdate g k v])).2 := rfl
  rw [hms, AllWF_append, applyAll_append]
  refine ⟨⟨h1, k1⟩, ?_⟩
  have h2' : d.applyAll ((s.gen g).flushDel (Msg.genRemove g)).snd =
      (genLens g).set d (applyDels ((genLens g).get d) (s.gen g).del) := h2
  have hfin : ∃ F, (d.applyAll ((s.gen g).flushDel (Msg.genRemove g)).snd).applyAll
      (((s.gen g).flushDel (Msg.genRemove g)).fst.flushUpd fun k v => [Msg.genUpdate g k v]).snd = (genLens g).set d F :=
    ⟨_, by rw [show (fun k v => [Msg.genUpdate g k v]) = (genLens g).updMsg from rfl, k2, h2', (genLens g).set_set]⟩
  obtain ⟨F, hF⟩ := hfin
  have k3' : CatInv (genLens g).g (((s.gen g).flushDel (Msg.genRemove g)).fst.flushUpd (genLens g).updMsg).fst (u.gen g)
    ((genLens g).get ((d.applyAll ((s.gen g).flushDel (Msg.genRemove g)).snd).applyAll
      (((s.gen g).flushDel (Msg.genRemove g)).fst.flushUpd fun k v => [Msg.genUpdate g k v]).snd)) := k3
  rw [hF] at k3' ⊢
  refine ⟨h.ips, h.pol, h.prof, h.ep, h.vtep, h.route, ?_⟩
  intro c
  by_cases hc : c = g
  · subst hc
    have e : (flushGen c s).1.gen c = (((s.gen c).flushDel (Msg.genRemove c)).1.flushUpd (fun k v => [Msg.genUpdate c k v])).1 := by
      simp [flushGen]
    rw [e]; exact k3'
  · have e : (flushGen g s).1.gen c = s.gen c := by simp [flushGen, hc]
    rw [e]
    have e2 : ∀ f, ((genLens g).set d f).gen c = d.gen c := by
      intro f; simp [genLens, hc]
    rw [e2]; exact h.gen c

/-! wireguard phases: their messages do not touch the modelled dataplane state -/

theorem inert_wg (n p a : String) : Inert (.wgUpdate n p a) ∧ Inert (.wgRemove n) ∧ Inert (.wg6Update n p a) ∧ Inert (.wg6Remove n) :=
  ⟨fun _ => ⟨rfl, trivial⟩, fun _ => ⟨rfl, trivial⟩, fun _ => ⟨rfl, trivial⟩, fun _ => ⟨rfl, trivial⟩⟩

theorem foldl_inert {α : Type} (f : List String × List String × List Msg → α → List String × List String × List Msg)
    (hf : ∀ acc x, (∀ m ∈ acc.2.2, Inert m) → ∀ m ∈ (f acc x).2.2, Inert m)
    (l : List α) (acc : List String × List String × List Msg) (h : ∀ m ∈ acc.2.2, Inert m) :
    ∀ m ∈ (l.foldl f acc).2.2, Inert m := by
  induction l generalizing acc with
  | nil => exact h
  | cons x t ih => exact ih _ (hf acc x h)

theorem ok_of_inert {p : Phase} (hm : ∀ s, ∀ m ∈ (p s).2, Inert m)
    (hs : ∀ s u d, Inv s u d → Inv (p s).1 u d) : PhaseOK p := by
  intro s u d h
  have := inert_list (hm s) d
  rw [this.1]
  exact ⟨this.2, hs s u d h⟩

theorem allInert_snoc {ms : List Msg} {m : Msg} (h : ∀ x ∈ ms, Inert x) (hm : Inert m) : ∀ x ∈ ms ++ [m], Inert x := by
  intro x hx
  simp only [List.mem_append, List.mem_singleton] at hx
  rcases hx with hx | hx
  · exact h x hx
  · subst hx; exact hm

theorem ok_wgDeletes : PhaseOK flushWgDeletes := by
  apply ok_of_inert
  · intro s
    simp only [flushWgDeletes]
    apply foldl_inert
    · intro acc k hacc
      obtain ⟨s4, s6, ms⟩ := acc
      simp only at hacc ⊢
      by_cases h4 : k ∈ s4 <;> by_cases h6 : k ∈ s6 <;> simp only [h4, h6, if_true, if_false]
      · exact allInert_snoc (allInert_snoc hacc (inert_wg k "" "").2.1) (inert_wg k "" "").2.2.2
      · exact allInert_snoc hacc (inert_wg k "" "").2.1
      · exact allInert_snoc hacc (inert_wg k "" "").2.2.2
      · exact hacc
    · simp
  · intro s u d h
    simp only [flushWgDeletes]
    exact ⟨h.ips, h.pol, h.prof, h.ep, h.vtep, h.route, h.gen⟩

theorem ok_wgUpdates : PhaseOK flushWgUpdates := by
  apply ok_of_inert
  · intro s
    simp only [flushWgUpdates]
    apply foldl_inert
    · intro acc p hacc
      obtain ⟨s4, s6, ms⟩ := acc
      obtain ⟨n, wg⟩ := p
      simp only at hacc ⊢
      by_cases h4 : wg.pub4 = "" <;> by_cases h6 : wg.pub6 = "" <;> by_cases m4 : n ∈ s4 <;> by_cases m6 : n ∈ s6 <;>
        simp only [h4, h6, m4, m6, ne_eq, not_true_eq_false, not_false_eq_true, if_true, if_false] <;>
        first
        | exact hacc
        | exact allInert_snoc hacc (inert_wg n _ _).1
        | exact allInert_snoc hacc (inert_wg n "" "").2.1
        | exact allInert_snoc hacc (inert_wg n _ _).2.2.1
        | exact allInert_snoc hacc (inert_wg n "" "").2.2.2
        | exact allInert_snoc (allInert_snoc hacc (inert_wg n _ _).1) (inert_wg n _ _).2.2.1
        | exact allInert_snoc (allInert_snoc hacc (inert_wg n _ _).1) (inert_wg n "" "").2.2.2
        | exact allInert_snoc (allInert_snoc hacc (inert_wg n "" "").2.1) (inert_wg n _ _).2.2.1
        | exact allInert_snoc (allInert_snoc hacc (inert_wg n "" "").2.1) (inert_wg n "" "").2.2.2
    · simp
  · intro s u d h
    simp only [flushWgUpdates]
    exact ⟨h.ips, h.pol, h.prof, h.ep, h.vtep, h.route, h.gen⟩

/-! IP-set phases -/

theorem ok_removedIPSets : PhaseOK flushRemovedIPSets := by
  intro s u d h
  obtain ⟨hn, hp, hinv⟩ := h.ips.flushRemoved
  obtain ⟨e1, e2⟩ := ipsLens.applyDels d s.removedSets hn hp
  have hms : (flushRemovedIPSets s).2 = s.removedSets.map ipsLens.delMsg := rfl
  rw [hms, e1]
  exact ⟨e2, ⟨hinv, h.pol, h.prof, h.ep, h.vtep, h.route, h.gen⟩⟩

/-- `flushAddedIPSets` followed by `flushIPSetDeltas`. -/
def flushIPSetsAB : Phase := fun s =>
  ((flushIPSetDeltas (flushAddedIPSets s).1).1, (flushAddedIPSets s).2 ++ (flushIPSetDeltas (flushAddedIPSets s).1).2)

theorem ok_ipsetsAB : PhaseOK flushIPSetsAB := by
  intro s u d h
  -- phase A
  obtain ⟨eA, wA⟩ := applyAll_ipsetUpdates s.addedMem.iter s.addedSets d
  have invA := h.ips.flushAdded
  -- phase B on the state after A
  obtain ⟨hn, hp, invB⟩ := invA.flushDeltas
  simp only [flushIPSetsAB, AllWF_append, applyAll_append]
  have hmsA : (flushAddedIPSets s).2 = s.addedSets.map (fun p => Msg.ipsetUpdate p.1 p.2 (s.addedMem.iter p.1)) := rfl
  rw [hmsA, eA]
  obtain ⟨eB, wB⟩ := applyAll_deltas (flushAddedIPSets s).1.addedMem.iter (flushAddedIPSets s).1.removedMem.iter _ hn
    ({ d with ipsets := fun k => if (mget s.addedSets k).isSome then some (fun m => decide (m ∈ s.addedMem.iter k)) else d.ipsets k }) hp
  have hmsB : (flushIPSetDeltas (flushAddedIPSets s).1).2 = _ := rfl
  refine ⟨⟨wA, ?_⟩, ?_⟩
  · exact wB
  · have : (({ d with ipsets := fun k => if (mget s.addedSets k).isSome then some (fun m => decide (m ∈ s.addedMem.iter k)) else d.ipsets k } : DP).applyAll
        (flushIPSetDeltas (flushAddedIPSets s).1).2) = _ := eB
    rw [this]
    exact ⟨invB, h.pol, h.prof, h.ep, h.vtep, h.route, h.gen⟩

theorem runPhases_cons (p : Phase) (ps : List Phase) (s : State) :
    runPhases (p :: ps) s = ((runPhases ps (p s).1).1, (p s).2 ++ (runPhases ps (p s).1).2) := rfl

theorem runPhases_AB (ps : List Phase) (s : State) :
    runPhases (flushAddedIPSets :: flushIPSetDeltas :: ps) s = runPhases (flushIPSetsAB :: ps) s := by
  simp only [runPhases_cons, flushIPSetsAB, List.append_assoc]

/-- `EventSequencer.Flush` as a whole keeps the invariant and emits only well-formed messages. -/
theorem flush_ok : PhaseOK State.flush := by
  have h : PhaseOK (runPhases (flushReadyFlag :: flushIPSetsAB ::
      [flushPolicyUpdates, flushProfileUpdates, flushEndpointTierUpdates,
       flushEndpointTierDeletes, flushProfileDeletes, flushPolicyDeletes, flushRemovedIPSets,
       flushGen .sa, flushGen .ns, flushRouteRemoves, flushVTEPAdds, flushRouteAdds, flushVTEPRemoves,
       flushWgDeletes, flushWgUpdates, flushGen .host, flushGen .pool, flushEncap, flushBGP, flushGen .svc])) := by
    repeat' first
      | exact PhaseOK.nil
      | apply PhaseOK.cons
    all_goals first
      | exact ok_readyFlag | exact ok_ipsetsAB | exact ok_policyUpdates | exact ok_profileUpdates
      | exact ok_endpointUpdates | exact ok_endpointDeletes | exact ok_profileDeletes | exact ok_policyDeletes
      | exact ok_removedIPSets | exact ok_gen _ | exact ok_routeRemoves | exact ok_vtepRemoves | exact ok_vtepAdds
      | exact ok_routeAdds | exact ok_wgDeletes | exact ok_wgUpdates | exact ok_encap | exact ok_bgp
  intro s u d hi
  have := h s u d hi
  have e : s.flush = runPhases (flushReadyFlag :: flushIPSetsAB ::
      [flushPolicyUpdates, flushProfileUpdates, flushEndpointTierUpdates,
       flushEndpointTierDeletes, flushProfileDeletes, flushPolicyDeletes, flushRemovedIPSets,
       flushGen .sa, flushGen .ns, flushRouteRemoves, flushVTEPAdds, flushRouteAdds, flushVTEPRemoves,
       flushWgDeletes, flushWgUpdates, flushGen .host, flushGen .pool, flushEncap, flushBGP, flushGen .svc]) s := by
    show runPhases flushPhases s = _
    unfold flushPhases
    rw [runPhases_cons, runPhases_AB]
    rfl
  rw [e]; exact this

theorem readyFlag_fst (s : State) : (flushReadyFlag s).1 = { s with notReady := false } := by
  unfold flushReadyFlag
  cases h : s.notReady
  · simp only [Bool.false_eq_true, if_false]; cases s; simp_all
  · simp only [if_true]

theorem encap_fst (s : State) : (flushEncap s).1 = { s with encap := none } := by
  unfold flushEncap
  cases h : s.encap
  · cases s; simp_all
  · rfl

theorem bgp_fst (s : State) : (flushBGP s).1 = { s with bgp := none } := by
  unfold flushBGP
  cases h : s.bgp
  · cases s; simp_all
  · rfl

theorem wgDeletes_fst (s : State) : ∃ a b, (flushWgDeletes s).1 = { s with wgDel := [], sentWg := a, sentWg6 := b } :=
  ⟨_, _, rfl⟩

theorem wgUpdates_fst (s : State) : ∃ a b, (flushWgUpdates s).1 = { s with wgUpd := [], sentWg := a, sentWg6 := b } :=
  ⟨_, _, rfl⟩

/-- After a flush nothing is pending any more. -/
theorem flush_empties (s : State) :
    let s' := s.flush.1
    s'.addedSets = [] ∧ s'.removedSets = [] ∧ s'.addedMem = [] ∧ s'.removedMem = [] ∧
    s'.pol.upd = [] ∧ s'.pol.del = [] ∧ s'.prof.upd = [] ∧ s'.prof.del = [] ∧ s'.ep.upd = [] ∧ s'.ep.del = [] ∧
    s'.vtep.upd = [] ∧ s'.vtep.del = [] ∧ s'.route.upd = [] ∧ s'.route.del = [] ∧
    (∀ c, (s'.gen c).upd = [] ∧ (s'.gen c).del = []) := by
  simp only [State.flush, flushPhases, runPhases_cons, runPhases]
  generalize h0 : (flushReadyFlag s).1 = s0
  generalize h1 : (flushVTEPRemoves (flushRouteAdds (flushVTEPAdds (flushRouteRemoves (flushGen GenCat.ns (flushGen GenCat.sa
    (flushRemovedIPSets (flushPolicyDeletes (flushProfileDeletes (flushEndpointTierDeletes (flushEndpointTierUpdates
    (flushProfileUpdates (flushPolicyUpdates (flushIPSetDeltas (flushAddedIPSets s0).1).1).1).1).1).1).1).1).1).1).1).1).1).1).1 = s1
  obtain ⟨a1, b1, e1⟩ := wgDeletes_fst s1
  rw [e1]
  obtain ⟨a2, b2, e2⟩ := wgUpdates_fst { s1 with wgDel := [], sentWg := a1, sentWg6 := b1 }
  rw [e2, encap_fst, bgp_fst]
  subst h1
  have hfold : ∀ l : List String, l.foldl (fun (md : MD) id => md.discardKey id) [] = [] := by
    intro l; induction l with
    | nil => rfl
    | cons x t ih => simpa [MD.discardKey] using ih
  refine ⟨rfl, rfl, ?_, ?_, rfl, rfl, rfl, rfl, rfl, rfl, rfl, rfl, rfl, rfl, ?_⟩
  · exact hfold _
  · exact hfold _
  · intro c
    cases c <;> simp [flushGen, Cat.flushUpd, Cat.flushDel, flushRouteAdds, flushVTEPAdds, flushVTEPRemoves, flushRouteRemoves]

theorem DP.ext' {d u : DP} (h1 : d.ipsets = u.ipsets) (h2 : d.pol = u.pol) (h3 : d.prof = u.prof) (h4 : d.ep = u.ep)
    (h5 : d.vtep = u.vtep) (h6 : d.route = u.route) (h7 : d.gen = u.gen) : d = u := by
  cases d; cases u; simp_all

/-- Coalescing is sound: after a flush the dataplane state described by the stream IS the
upstream-declared state. -/
theorem flush_synced {s : State} {u d : DP} (h : Inv s u d) : d.applyAll s.flush.2 = u := by
  have hi := (flush_ok s u d h).2
  obtain ⟨e1, e2, e3, e4, e5, e6, e7, e8, e9, e10, e11, e12, e13, e14, e15⟩ := flush_empties s
  obtain ⟨hips, hpol, hprof, hep, hvtep, hroute, hgen⟩ := hi
  rw [e1, e2, e3, e4] at hips
  refine (DP.ext' ?_ ?_ ?_ ?_ ?_ ?_ ?_).symm
  · exact hips.synced rfl rfl
  · exact hpol.synced e5 e6
  · exact hprof.synced e7 e8
  · exact hep.synced e9 e10
  · exact hvtep.synced e11 e12
  · exact hroute.synced e13 e14
  · funext c; exact (hgen c).synced (e15 c).1 (e15 c).2

end CalicoVerif.C02
