import CalicoVerif.Model.C30Flat
import CalicoVerif.Proofs.C30Addr
/-! Helper lemmas for C30, part 7: the tier flattener (flattener.go). -/
namespace CalicoVerif.C30

/-- What the flattener may assume about a rule of a tier built by GetPolicySetRules for direction
`d`: same direction and IPv4 addresses. -/
structure RuleOK (d : Bool) (h : HRule) : Prop where
  dir : h.inbound = d
  v4l : ∀ a ∈ h.lAddrs, a.v6 = false
  v4r : ∀ a ∈ h.rAddrs, a.v6 = false

def TierOK (d : Bool) (t : List HRule) : Prop := ∀ h ∈ t, RuleOK d h

/-- Some rule of the tier matches every packet (the end-of-tier rule). -/
def Total (t : List HRule) : Prop := ∀ p, (firstAction t p).isSome = true

theorem intersectCIDRs_v4 (as bs : List Addr) : ∀ x ∈ intersectCIDRs as bs, x.v6 = false := by
  intro x hx
  unfold intersectCIDRs at hx
  dsimp only at hx
  rw [(List.mergeSort_perm _ _).mem_iff, List.mem_eraseDups, List.mem_flatMap] at hx
  obtain ⟨a, _, hx⟩ := hx
  rw [List.mem_filterMap] at hx
  obtain ⟨b, _, hx⟩ := hx
  unfold intersectPair at hx
  dsimp only at hx
  split at hx
  · split at hx <;> simp at hx; subst hx; rfl
  · split at hx
    · split at hx <;> simp at hx; subst hx; rfl
    · split at hx <;> simp at hx; subst hx; rfl

theorem combineCIDRs_sem (a b : List Addr) (ha : ∀ x ∈ a, x.v6 = false) (hb : ∀ x ∈ b, x.v6 = false) (ip : Nat) :
    match combineCIDRs a b with
    | some c => addrsOK c ip = (addrsOK a ip && addrsOK b ip) ∧ (∀ x ∈ c, x.v6 = false)
    | none => (addrsOK a ip && addrsOK b ip) = false := by
  unfold combineCIDRs
  cases hae : a.isEmpty
  · cases hbe : b.isEmpty
    · simp only [Bool.false_eq_true, if_false]
      have hi := intersectCIDRs_any a b ha hb ip
      cases hie : (intersectCIDRs a b).isEmpty
      · simp only [Bool.false_eq_true, if_false]
        exact ⟨by simp only [addrsOK, hie, hae, hbe, Bool.false_or]; exact hi, intersectCIDRs_v4 a b⟩
      · simp only [if_true]
        have : intersectCIDRs a b = [] := by simpa using hie
        rw [this] at hi
        simp only [addrsOK, hae, hbe, Bool.false_or]
        simpa using hi.symm
    · have : b = [] := by simpa using hbe
      subst this
      simp only [Bool.false_eq_true, if_false, List.isEmpty_nil, if_true]
      exact ⟨by simp [addrsOK], ha⟩
  · have : a = [] := by simpa using hae
    subst this
    simp only [if_true]
    exact ⟨by simp [addrsOK], hb⟩

theorem combinePorts_nil (b : List PortRange) : combinePorts [] b = some b := by simp [combinePorts]

/-! ### combinePorts (repaired) computes the intersection -/

theorem foldl_maxPort_ge (l : List PortRange) : ∀ m : Nat,
    m ≤ l.foldl (fun m r => if r.valid then max m r.last else m) m ∧
    ∀ r ∈ l, r.first ≤ r.last → r.last ≤ l.foldl (fun m r => if r.valid then max m r.last else m) m := by
  induction l with
  | nil => intro m; simp
  | cons a rest ih =>
    intro m
    simp only [List.foldl_cons]
    have := ih (if a.valid then max m a.last else m)
    have hm : m ≤ (if a.valid then max m a.last else m) := by split <;> omega
    refine ⟨by omega, ?_⟩
    intro r hr hv
    simp only [List.mem_cons] at hr
    rcases hr with rfl | hr
    · have : r.valid = true := by simpa [PortRange.valid] using hv
      simp only [this, if_true] at *
      omega
    · exact this.2 r hr hv

theorem inPorts_le_max (l : List PortRange) (x : Nat) (h : inPorts l x = true) : x ≤ maxPort l := by
  obtain ⟨r, hr, hc⟩ := List.any_eq_true.1 h
  simp only [PortRange.contains, Bool.and_eq_true, decide_eq_true_eq] at hc
  have := (foldl_maxPort_ge l 0).2 r hr (by omega)
  unfold maxPort; omega

theorem runsGo_any (x : Nat) (rest : List Nat) : ∀ (f l : Nat), f ≤ l → (∀ y ∈ rest, l < y) →
    rest.Pairwise (· < ·) →
    ((runsGo f l rest).any (fun r => r.contains x) = true ↔ ((f ≤ x ∧ x ≤ l) ∨ x ∈ rest)) := by
  induction rest with
  | nil => intro f l _ _ _; simp [runsGo, PortRange.contains]
  | cons n rest ih =>
    intro f l hfl hgt hs
    have hln := hgt n (by simp)
    have hs' := List.pairwise_cons.1 hs
    by_cases hn : n = l + 1
    · simp only [runsGo, hn, if_true, List.mem_cons]
      rw [ih f (l + 1) (by omega) (fun y hy => by have := hs'.1 y hy; omega) hs'.2]
      constructor
      · rintro (h | h)
        · by_cases hx : x = l + 1
          · exact Or.inr (Or.inl hx)
          · exact Or.inl ⟨h.1, by omega⟩
        · exact Or.inr (Or.inr h)
      · rintro (h | h | h)
        · exact Or.inl ⟨h.1, by omega⟩
        · exact Or.inl ⟨by omega, by omega⟩
        · exact Or.inr h
    · simp only [runsGo, hn, if_false, List.any_cons, Bool.or_eq_true, List.mem_cons]
      rw [ih n n (Nat.le_refl n) hs'.1 hs'.2]
      simp only [PortRange.contains, Bool.and_eq_true, decide_eq_true_eq]
      constructor
      · rintro (h | h | h)
        · exact Or.inl h
        · exact Or.inr (Or.inl (by omega))
        · exact Or.inr (Or.inr h)
      · rintro (h | h | h)
        · exact Or.inl h
        · exact Or.inr (Or.inl (by omega))
        · exact Or.inr (Or.inr h)

theorem runs_any (x : Nat) (l : List Nat) (hs : l.Pairwise (· < ·)) :
    ((runs l).any (fun r => r.contains x) = true ↔ x ∈ l) := by
  cases l with
  | nil => simp [runs]
  | cons n rest =>
    have hs' := List.pairwise_cons.1 hs
    simp only [runs]
    rw [runsGo_any x rest n n (Nat.le_refl n) hs'.1 hs'.2]
    simp only [List.mem_cons]
    constructor
    · rintro (h | h)
      · exact Or.inl (by omega)
      · exact Or.inr h
    · rintro (h | h)
      · exact Or.inl (by omega)
      · exact Or.inr h

theorem runs_ne_nil (l : List Nat) (h : l ≠ []) : runs l ≠ [] := by
  cases l with
  | nil => exact absurd rfl h
  | cons n rest =>
    simp only [runs]
    have : ∀ (rest : List Nat) (f l : Nat), runsGo f l rest ≠ [] := by
      intro rest
      induction rest with
      | nil => intro f l; simp [runsGo]
      | cons m rest ih => intro f l; simp only [runsGo]; split
                          · exact ih f m
                          · simp
    exact this rest n n

/-- combinePorts: `none` iff no port satisfies both lists; otherwise the result admits exactly the
ports both lists admit ("" = any port on either side is handled). -/
theorem combinePorts_sem (a b : List PortRange) (x : Nat) :
    match combinePorts a b with
    | some c => portsOK c x = (portsOK a x && portsOK b x)
    | none => (portsOK a x && portsOK b x) = false := by
  unfold combinePorts
  cases hae : a.isEmpty
  · cases hbe : b.isEmpty
    · simp only [Bool.false_eq_true, if_false]
      have hmem : ∀ y, y ∈ (List.range (max (maxPort a) (maxPort b) + 1)).filter (fun x => inPorts a x && inPorts b x) ↔
          (inPorts a y = true ∧ inPorts b y = true) := by
        intro y
        simp only [List.mem_filter, List.mem_range, Bool.and_eq_true]
        constructor
        · exact fun h => h.2
        · intro h
          have := inPorts_le_max a y h.1
          exact ⟨by omega, h⟩
      have hsorted : ((List.range (max (maxPort a) (maxPort b) + 1)).filter (fun x => inPorts a x && inPorts b x)).Pairwise (· < ·) :=
        List.pairwise_lt_range.filter _
      cases hse : ((List.range (max (maxPort a) (maxPort b) + 1)).filter (fun x => inPorts a x && inPorts b x)).isEmpty
      · simp only [Bool.false_eq_true, if_false]
        have hne : (List.range (max (maxPort a) (maxPort b) + 1)).filter (fun x => inPorts a x && inPorts b x) ≠ [] := by
          simpa using hse
        have hre : (runs ((List.range (max (maxPort a) (maxPort b) + 1)).filter (fun x => inPorts a x && inPorts b x))).isEmpty = false := by
          have := runs_ne_nil _ hne
          cases hr : runs ((List.range (max (maxPort a) (maxPort b) + 1)).filter (fun x => inPorts a x && inPorts b x)) <;> simp_all
        simp only [portsOK, hae, hbe, hre, Bool.false_or]
        rw [Bool.eq_iff_iff, runs_any x _ hsorted, hmem x]
        simp [inPorts]
      · simp only [if_true]
        have hnil : (List.range (max (maxPort a) (maxPort b) + 1)).filter (fun x => inPorts a x && inPorts b x) = [] := by
          simpa using hse
        simp only [portsOK, hae, hbe, Bool.false_or]
        rw [Bool.eq_false_iff]
        intro hboth
        have : x ∈ (List.range (max (maxPort a) (maxPort b) + 1)).filter (fun x => inPorts a x && inPorts b x) := by
          rw [hmem x]; simpa [inPorts] using hboth
        rw [hnil] at this; simp at this
    · have : b = [] := by simpa using hbe
      subst this
      simp [portsOK]
  · have : a = [] := by simpa using hae
    subst this
    simp [portsOK]

def protoPart (h : HRule) (p : Pkt) : Bool := h.proto == 256 || h.proto == p.proto

theorem matches_eq (h : HRule) (d : Bool) (hd : h.inbound = d) (p : Pkt) :
    h.matches p = (protoPart h p && addrsOK h.lAddrs (if d then p.dst else p.src) &&
      addrsOK h.rAddrs (if d then p.src else p.dst) && portsOK h.lPorts (if d then p.dport else p.sport) &&
      portsOK h.rPorts (if d then p.sport else p.dport)) := by
  subst hd
  cases hi : h.inbound <;> simp [HRule.matches, hi, protoPart]

theorem combineProto_sem (p1 p2 q : Nat) :
    match combineProto p1 p2 with
    | some pr => (pr == 256 || pr == q) = ((p1 == 256 || p1 == q) && (p2 == 256 || p2 == q))
    | none => ((p1 == 256 || p1 == q) && (p2 == 256 || p2 == q)) = false := by
  unfold combineProto
  by_cases h1 : p1 = 256
  · simp [h1]
  · by_cases h2 : p2 = 256
    · simp [h1, h2]
    · by_cases he : p1 = p2
      · simp [h1, he]
      · have b1 : (p1 == 256) = false := by simpa using h1
        have b2 : (p2 == 256) = false := by simpa using h2
        simp only [h1, h2, he, ne_eq, not_false_eq_true, if_true, if_false, b1, b2, Bool.false_or]
        by_cases hq : p1 = q
        · have : (p2 == q) = false := by simp only [beq_eq_false_iff_ne, ne_eq]; intro h; exact he (hq.trans h.symm)
          simp [this]
        · have : (p1 == q) = false := by simpa using hq
          simp [this]

/-- combineRules never panics; the result matches exactly the packets both rules match and keeps
`r2`'s action; "no-op" means no packet matches both. -/
theorem combineRules_sem (d : Bool) (r1 r2 : HRule) (h1 : RuleOK d r1) (h2 : RuleOK d r2) (p : Pkt) :
    match combineRules r1 r2 with
    | .panic => False
    | .noOp => (r1.matches p && r2.matches p) = false
    | .ok c => c.matches p = (r1.matches p && r2.matches p) ∧ c.action = r2.action ∧ RuleOK d c := by
  have hP := combineProto_sem r1.proto r2.proto p.proto
  have hL := combineCIDRs_sem r1.lAddrs r2.lAddrs h1.v4l h2.v4l (if d then p.dst else p.src)
  have hR := combineCIDRs_sem r1.rAddrs r2.rAddrs h1.v4r h2.v4r (if d then p.src else p.dst)
  have hLP := combinePorts_sem r1.lPorts r2.lPorts (if d then p.dport else p.sport)
  have hRP := combinePorts_sem r1.rPorts r2.rPorts (if d then p.sport else p.dport)
  rw [matches_eq r1 d h1.dir, matches_eq r2 d h2.dir]
  unfold combineRules
  simp only [protoPart]
  cases hcp : combineProto r1.proto r2.proto with
  | none =>
    rw [hcp] at hP; simp only at hP ⊢
    revert hP
    generalize (r1.proto == 256 || r1.proto == p.proto) = a
    generalize (r2.proto == 256 || r2.proto == p.proto) = b
    intro hP
    cases a <;> cases b <;> simp_all
  | some pr =>
    rw [hcp] at hP
    cases hcl : combineCIDRs r1.lAddrs r2.lAddrs with
    | none =>
      rw [hcl] at hL; simp only at hL ⊢
      revert hL
      generalize addrsOK r1.lAddrs (if d then p.dst else p.src) = a
      generalize addrsOK r2.lAddrs (if d then p.dst else p.src) = b
      intro hL
      cases a <;> cases b <;> simp_all
    | some la =>
      rw [hcl] at hL
      cases hcr : combineCIDRs r1.rAddrs r2.rAddrs with
      | none =>
        rw [hcr] at hR; simp only at hR ⊢
        revert hR
        generalize addrsOK r1.rAddrs (if d then p.src else p.dst) = a
        generalize addrsOK r2.rAddrs (if d then p.src else p.dst) = b
        intro hR
        cases a <;> cases b <;> simp_all
      | some ra =>
        rw [hcr] at hR
        cases hlp : combinePorts r1.lPorts r2.lPorts with
        | none =>
          rw [hlp] at hLP; simp only at hLP ⊢
          revert hLP
          generalize portsOK r1.lPorts (if d then p.dport else p.sport) = a
          generalize portsOK r2.lPorts (if d then p.dport else p.sport) = b
          intro hLP
          cases a <;> cases b <;> simp_all
        | some lp =>
          rw [hlp] at hLP
          cases hrp : combinePorts r1.rPorts r2.rPorts with
          | none =>
            rw [hrp] at hRP; simp only at hRP ⊢
            revert hRP
            generalize portsOK r1.rPorts (if d then p.sport else p.dport) = a
            generalize portsOK r2.rPorts (if d then p.sport else p.dport) = b
            intro hRP
            cases a <;> cases b <;> simp_all
          | some rp =>
            rw [hrp] at hRP
            simp only at hP hL hR hLP hRP ⊢
            refine ⟨?_, rfl, ⟨h2.dir, hL.2, hR.2⟩⟩
            rw [matches_eq (mkComb r2 pr la ra lp rp) d h2.dir]
            simp only [mkComb, protoPart, hP, hL.1, hR.1, hLP, hRP]
            simp only [Bool.and_assoc, Bool.and_comm, Bool.and_left_comm]

theorem firstAction_cons (h : HRule) (t : List HRule) (p : Pkt) :
    firstAction (h :: t) p = if h.matches p then some h.action else firstAction t p := by
  unfold firstAction
  simp only [List.find?_cons]
  cases h.matches p <;> simp

/-- appendCombinedRules for one pass rule. -/
theorem combineWithTier_sem (d : Bool) (r : HRule) (hr : RuleOK d r)
    (second : List HRule) (hs : TierOK d second) :
    ∃ cs, combineWithTier r second = some cs ∧ TierOK d cs ∧
      ∀ p, firstAction cs p = if r.matches p then firstAction second p else none := by
  induction second with
  | nil => exact ⟨[], rfl, by intro h hh; simp at hh, by intro p; simp [firstAction]⟩
  | cons x rest ih =>
    obtain ⟨cs, hcs, hok, hfa⟩ := ih (fun h hh => hs h (by simp [hh]))
    have hx := hs x (by simp)
    cases hc : combineRules r x with
    | panic =>
      have := combineRules_sem d r x hr hx ⟨0, 0, 0, 0, 0⟩
      rw [hc] at this
      exact this.elim
    | noOp =>
      refine ⟨cs, by simp [combineWithTier, hc, hcs], hok, ?_⟩
      intro p
      have := combineRules_sem d r x hr hx p
      rw [hc] at this
      simp only at this
      rw [hfa p, firstAction_cons]
      cases hrm : r.matches p
      · simp
      · simp only [hrm, Bool.true_and] at this
        simp [this]
    | ok c =>
      refine ⟨c :: cs, by simp [combineWithTier, hc, hcs], ?_, ?_⟩
      · intro h hh
        simp only [List.mem_cons] at hh
        rcases hh with rfl | hh
        · have := combineRules_sem d r x hr hx ⟨0, 0, 0, 0, 0⟩
          rw [hc] at this
          exact this.2.2
        · exact hok h hh
      · intro p
        have := combineRules_sem d r x hr hx p
        rw [hc] at this
        simp only at this
        rw [firstAction_cons, firstAction_cons, hfa p, this.1, this.2.1]
        cases r.matches p <;> simp

def cascade1 (a : Option Action) (next : Option Action) : Option Action :=
  match a with
  | some .pass => next
  | x => x

/-- One step of flattenTiersRecurse: the new first tier behaves like "first tier, and on a pass
continue in the second tier". -/
theorem buildFirst_sem (d : Bool) (second : List HRule) (hs : TierOK d second) (htot : Total second)
    (first : List HRule) (hf : TierOK d first) :
    ∃ nf, buildFirst second first = some nf ∧ TierOK d nf ∧
      ∀ p, firstAction nf p = cascade1 (firstAction first p) (firstAction second p) := by
  induction first with
  | nil => exact ⟨[], rfl, by intro h hh; simp at hh, by intro p; simp [firstAction, cascade1]⟩
  | cons r rest ih =>
    obtain ⟨nf, hnf, hok, hfa⟩ := ih (fun h hh => hf h (by simp [hh]))
    have hr := hf r (by simp)
    by_cases hp : r.action = .pass
    · obtain ⟨cs, hcs, hcok, hcfa⟩ := combineWithTier_sem d r hr second hs
      refine ⟨cs ++ nf, by simp [buildFirst, hp, hcs, hnf], ?_, ?_⟩
      · intro h hh
        rcases List.mem_append.1 hh with hh | hh
        · exact hcok h hh
        · exact hok h hh
      · intro p
        rw [firstAction_append, hcfa p, hfa p, firstAction_cons]
        cases hrm : r.matches p
        · simp
        · have := htot p
          simp only [if_true, hp, cascade1]
          cases hsec : firstAction second p with
          | none => rw [hsec] at this; simp at this
          | some a => simp
    · refine ⟨r :: nf, by simp [buildFirst, hp, hnf], ?_, ?_⟩
      · intro h hh
        simp only [List.mem_cons] at hh
        rcases hh with rfl | hh
        · exact hr
        · exact hok h hh
      · intro p
        rw [firstAction_cons, firstAction_cons, hfa p]
        cases hrm : r.matches p
        · simp
        · simp only [if_true, cascade1]
          cases hra : r.action <;> simp_all

/-- Evaluating tiers in order: a `pass` verdict continues in the next tier. -/
def cascade (p : Pkt) : Option Action → List (List HRule) → Option Action
  | x, [] => x
  | x, t :: rest => match x with
    | some .pass => cascade p (firstAction t p) rest
    | y => y

theorem firstAction_pass_mem (t : List HRule) (p : Pkt) (h : firstAction t p = some .pass) :
    t.any (fun r => r.action == .pass) = true := by
  unfold firstAction at h
  cases hf : t.find? (·.matches p) with
  | none => simp [hf] at h
  | some x =>
    simp only [hf, Option.map_some, Option.some.injEq] at h
    exact List.any_eq_true.2 ⟨x, List.mem_of_find?_eq_some hf, by simp [h]⟩

/-- flattenTiersRecurse: never panics and its result, read first-match,
evaluates the tiers in order. -/
theorem flattenRec_sem (d : Bool) (rest : List (List HRule)) (hrest : ∀ t ∈ rest, TierOK d t ∧ Total t) :
    ∀ first, TierOK d first →
      ∃ l, flattenRec first rest = some l ∧ ∀ p, firstAction l p = cascade p (firstAction first p) rest := by
  induction rest with
  | nil => intro first _; exact ⟨first, rfl, fun p => rfl⟩
  | cons second rest ih =>
    intro first hf
    obtain ⟨hs, htot⟩ := hrest second (by simp)
    by_cases hany : first.any (fun r => r.action == .pass) = true
    · obtain ⟨nf, hnf, hok, hfa⟩ := buildFirst_sem d second hs htot first hf
      obtain ⟨l, hl, hlf⟩ := ih (fun t ht => hrest t (by simp [ht])) nf hok
      refine ⟨l, by simp [flattenRec, hany, hnf, hl], ?_⟩
      intro p
      rw [hlf p, hfa p]
      simp only [cascade, cascade1]
      cases hfp : firstAction first p with
      | none => cases rest <;> simp [cascade]
      | some a => cases a <;> cases rest <;> simp [cascade]
    · refine ⟨first, by simp [flattenRec, hany], ?_⟩
      intro p
      simp only [cascade]
      cases hfp : firstAction first p with
      | none => rfl
      | some a =>
        cases a
        · rfl
        · rfl
        · exact absurd (firstAction_pass_mem first p hfp) hany


/-! ### rewritePriorities -/

theorem firstAction_zipIdx_prio (l : List HRule) (p : Pkt) (f : Nat → Nat) : ∀ k,
    firstAction ((l.zipIdx k).map fun (x : HRule × Nat) => { x.1 with prio := f x.2 }) p = firstAction l p := by
  induction l with
  | nil => intro k; rfl
  | cons a rest ih =>
    intro k
    simp only [List.zipIdx_cons, List.map_cons, firstAction_cons, matches_prio, ih]

theorem good_zipIdx (l : List HRule) : ∀ k,
    good ((l.zipIdx k).map fun (x : HRule × Nat) => { x.1 with prio := policyRuleBasePriority + x.2 }) := by
  induction l with
  | nil => intro k; simp [good]
  | cons a rest ih =>
    intro k
    cases rest with
    | nil => simp [good]
    | cons b rest' =>
      have := ih (k + 1)
      simp only [List.zipIdx_cons, List.map_cons] at this ⊢
      exact ⟨by show policyRuleBasePriority + k ≤ policyRuleBasePriority + (k + 1); omega,
        fun _ => by show policyRuleBasePriority + k < policyRuleBasePriority + (k + 1); omega, this⟩

/-- rewritePriorities keeps the order (first match is unchanged) and, for lists of at least two
rules, produces a good priority assignment; a list of at most one rule is trivially good. -/
theorem rewritePriorities_sem (l : List HRule) (limit : Nat) (p : Pkt) :
    good (rewritePriorities l limit) ∧ firstAction (rewritePriorities l limit) p = firstAction l p := by
  unfold rewritePriorities
  split
  · rename_i h
    refine ⟨?_, rfl⟩
    cases l with
    | nil => trivial
    | cons a rest =>
      cases rest with
      | nil => trivial
      | cons b r => simp at h
  · split
    · exact ⟨good_zipIdx l 0, firstAction_zipIdx_prio l p _ 0⟩
    · exact ⟨bump_good l _ _, bump_firstAction l p _ _⟩

/-! ### flattenTiers -/

/-- Tier-by-tier semantics on HNS rule lists: pass continues, pass in the last tier is block. -/
def mvH (p : Pkt) : List (List HRule) → Option Action
  | [] => none
  | [t] => (firstAction t p).map fun a => if a = .pass then .block else a
  | t :: t2 :: rest =>
    match firstAction t p with
    | some .pass => mvH p (t2 :: rest)
    | x => x

theorem passToBlock_matches (h : HRule) (p : Pkt) : (passToBlock h).matches p = h.matches p := by
  unfold passToBlock; split <;> rfl

theorem firstAction_passToBlock (t : List HRule) (p : Pkt) :
    firstAction (t.map passToBlock) p = (firstAction t p).map fun a => if a = .pass then .block else a := by
  induction t with
  | nil => rfl
  | cons h rest ih =>
    simp only [List.map_cons, firstAction_cons, passToBlock_matches, ih]
    cases h.matches p
    · simp
    · simp only [if_true, Option.map_some, Option.some.injEq]
      unfold passToBlock
      cases ha : h.action <;> simp [ha]

theorem ruleOK_passToBlock (d : Bool) (h : HRule) (hh : RuleOK d h) : RuleOK d (passToBlock h) := by
  unfold passToBlock
  split
  · exact ⟨hh.dir, hh.v4l, hh.v4r⟩
  · exact hh

theorem cascade_mapLast (p : Pkt) : ∀ (first : List HRule) (rest : List (List HRule)),
    (match mapLast (fun t => t.map passToBlock) (first :: rest) with
     | [] => none
     | f :: r => cascade p (firstAction f p) r) = mvH p (first :: rest) := by
  intro first rest
  induction rest generalizing first with
  | nil => simp [mapLast, cascade, mvH, firstAction_passToBlock]
  | cons second rest ih =>
    have := ih second
    simp only [mapLast] at this ⊢
    cases hm : mapLast (fun t => List.map passToBlock t) (second :: rest) with
    | nil => cases rest <;> simp [mapLast] at hm
    | cons f r =>
      rw [hm] at this
      simp only at this ⊢
      simp only [cascade, mvH]
      cases hfa : firstAction first p with
      | none => rfl
      | some a => cases a <;> simp [this]

theorem mapLast_props (d : Bool) : ∀ (tiers : List (List HRule)), (∀ t ∈ tiers, TierOK d t ∧ Total t) →
    ∀ t ∈ mapLast (fun t => t.map passToBlock) tiers, TierOK d t ∧ Total t := by
  intro tiers
  induction tiers with
  | nil => intro _ t ht; simp [mapLast] at ht
  | cons a rest ih =>
    intro h t ht
    cases rest with
    | nil =>
      simp only [mapLast, List.mem_singleton] at ht
      subst ht
      obtain ⟨h1, h2⟩ := h a (by simp)
      refine ⟨?_, ?_⟩
      · intro x hx
        obtain ⟨y, hy, rfl⟩ := List.mem_map.1 hx
        exact ruleOK_passToBlock d y (h1 y hy)
      · intro p
        rw [firstAction_passToBlock]
        have := h2 p
        cases hfa : firstAction a p <;> simp_all
    | cons b rest' =>
      simp only [mapLast, List.mem_cons] at ht
      rcases ht with rfl | ht
      · exact h _ (by simp)
      · exact ih (fun x hx => h x (by simp [hx])) t (by simpa [mapLast] using ht)

/-- flattenTiers: no panic, and the flattened
list read first-match evaluates the tiers in order. -/
theorem flattenTiers_sem (d : Bool) (tiers : List (List HRule)) (hne : tiers ≠ [])
    (h : ∀ t ∈ tiers, TierOK d t ∧ Total t) :
    ∃ l, flattenTiers tiers = some l ∧ ∀ p, firstAction l p = mvH p tiers := by
  cases tiers with
  | nil => exact absurd rfl hne
  | cons first rest =>
    have hp := mapLast_props d (first :: rest) h
    unfold flattenTiers
    cases hm : mapLast (fun t => List.map passToBlock t) (first :: rest) with
    | nil => cases rest <;> simp [mapLast] at hm
    | cons f r =>
      rw [hm] at hp
      obtain ⟨l, hl, hlf⟩ := flattenRec_sem d r (fun t ht => hp t (by simp [ht])) f (hp f (by simp)).1
      refine ⟨l, hl, ?_⟩
      intro p
      have := cascade_mapLast p first rest
      rw [hm] at this
      rw [hlf p]; exact this

end CalicoVerif.C30
