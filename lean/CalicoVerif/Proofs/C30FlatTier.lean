import CalicoVerif.Proofs.C30Flat
import CalicoVerif.Proofs.C30Tier
/-! Helper lemmas for C30, part 8: the tiers produced by policysets satisfy what the flattener needs. -/
namespace CalicoVerif.C30

theorem mem_zipIdx_map_ex {α β : Type} (l : List α) (F : α × Nat → β) : ∀ k, ∀ b ∈ (l.zipIdx k).map F,
    ∃ a ∈ l, ∃ i, b = F (a, i) := by
  induction l with
  | nil => intro k b hb; simp at hb
  | cons a rest ih =>
    intro k b hb
    simp only [List.zipIdx_cons, List.map_cons, List.mem_cons] at hb
    rcases hb with rfl | hb
    · exact ⟨a, by simp, k, rfl⟩
    · obtain ⟨x, hx, i, hi⟩ := ih (k + 1) b hb
      exact ⟨x, by simp [hx], i, hi⟩

theorem splitList_mem {α : Type} (l : List α) (n : Nat) (hn : 0 < n) : ∀ c ∈ splitList l n, ∀ x ∈ c, x ∈ l := by
  intro c hc x hx
  unfold splitList at hc
  cases l with
  | nil => simp at hc; subst hc; simp at hx
  | cons a rest =>
    simp only [List.isEmpty_cons, Bool.false_eq_true, if_false] at hc
    exact ((chunksAux_spec n hn _ (a :: rest) (Nat.le_refl _)).2 x).1 ⟨c, hc, hx⟩

theorem splitList_nil {α : Type} (n : Nat) : splitList ([] : List α) n = [[]] := by simp [splitList]

theorem expand_mem (base : HRule) (pid rid : String) (lA : List (List Addr)) (lP : List (List PortRange))
    (rA : List (List Addr)) (rP : List (List PortRange)) :
    ∀ h ∈ expand base pid rid lA lP rA rP, h.action = base.action ∧ h.inbound = base.inbound ∧
      h.lAddrs ∈ lA ∧ h.lPorts ∈ lP ∧ h.rAddrs ∈ rA ∧ h.rPorts ∈ rP := by
  intro h hh
  unfold expand at hh
  obtain ⟨c, hc, i, rfl⟩ := mem_zipIdx_map_ex _ _ 0 h hh
  simp only [List.mem_flatMap, List.mem_map] at hc
  obtain ⟨la, hla, lp, hlp, ra, hra, rp, hrp, rfl⟩ := hc
  exact ⟨rfl, rfl, hla, hlp, hra, hrp⟩

theorem getIPSetAddresses_v4 (s : IPSets) (hs : s.wf) : ∀ (ids : List String) (m : List Addr),
    getIPSetAddresses s ids = some m → ∀ a ∈ m, a.v6 = false := by
  intro ids
  induction ids with
  | nil => intro m h a ha; simp [getIPSetAddresses] at h; subst h; simp at ha
  | cons id rest ih =>
    intro m h a ha
    simp only [getIPSetAddresses] at h
    cases hg : s.get id with
    | none => simp [hg] at h
    | some m1 =>
      simp only [hg] at h
      cases hr : getIPSetAddresses s rest with
      | none => simp [hr] at h
      | some m2 =>
        simp only [hr, Option.map_some, Option.some.injEq] at h
        subst h
        rcases List.mem_append.1 ha with ha | ha
        · exact hs.v4 id m1 hg a ha
        · exact ih m2 hr a ha

theorem sideAddrs_v4 (s : IPSets) (hs : s.wf) (nets : List Addr) (hv : ∀ a ∈ nets, a.v6 = false) (ids : List String)
    (A : List Addr) (h : sideAddrs s nets ids = .ok A) : ∀ a ∈ A, a.v6 = false := by
  unfold sideAddrs at h
  split at h
  · simp only [Except.ok.injEq] at h; subst h; exact hv
  · split at h
    · simp at h
    · rename_i m hm
      split at h
      · dsimp only at h
        split at h
        · simp at h
        · simp only [Except.ok.injEq] at h; subst h; exact intersectCIDRs_v4 _ _
      · simp only [Except.ok.injEq] at h; subst h
        exact getIPSetAddresses_v4 s hs ids m hm

/-- IP-port set members are IPv4 too. -/
def IPSets.ipportV4 (s : IPSets) : Prop := ∀ id m, s.getIPPort id = some m → ∀ x ∈ m, x.addr.v6 = false

theorem getIPPortMembers_v4 (s : IPSets) (hs : s.ipportV4) : ∀ (ids : List String) (m : List IPPort),
    getIPPortMembers s ids = some m → ∀ x ∈ m, x.addr.v6 = false := by
  intro ids
  induction ids with
  | nil => intro m h a ha; simp [getIPPortMembers] at h; subst h; simp at ha
  | cons id rest ih =>
    intro m h a ha
    simp only [getIPPortMembers] at h
    cases hg : s.getIPPort id with
    | none => simp [hg] at h
    | some m1 =>
      simp only [hg] at h
      cases hr : getIPPortMembers s rest with
      | none => simp [hr] at h
      | some m2 =>
        simp only [hr, Option.map_some, Option.some.injEq] at h
        subst h
        rcases List.mem_append.1 ha with ha | ha
        · exact hs id m1 hg a ha
        · exact ih m2 hr a ha

theorem withProto_fields (b : HRule) (ps : Option ProtoSpec) :
    (withProto b ps).action = b.action ∧ (withProto b ps).inbound = b.inbound := by
  cases ps with
  | none => exact ⟨rfl, rfl⟩
  | some x => cases x <;> exact ⟨rfl, rfl⟩

/-- Shape of a successful conversion. -/
theorem protoRule_ok_shape (s : IPSets) (pid : String) (r : Rule) (d : Bool) (n : Nat) (hs' : List HRule)
    (h : protoRuleToHnsRules s pid r d n = .ok hs') :
    ∃ act, actionOf r.action = some act ∧
      ((r.dstIpPortSets.isEmpty = false ∧ ∃ ms, getIPPortMembers s r.dstIpPortSets = some ms ∧
          ∀ h ∈ hs', h.inbound = d ∧ h.lAddrs = [] ∧ ∃ g ∈ groupIPPorts ms, h.rAddrs = g.2.2) ∨
       (r.dstIpPortSets.isEmpty = true ∧ ∃ srcA dstA,
          sideAddrs s (filterNets r.srcNet).1 r.srcSets = .ok srcA ∧
          sideAddrs s (filterNets r.dstNet).1 r.dstSets = .ok dstA ∧
          hs' = expand (withProto (baseRule act d) r.proto) pid r.ruleId
            (splitList (if d then dstA else srcA) n) (splitList (if d then r.dstPorts else r.srcPorts) n)
            (splitList (if d then srcA else dstA) n) (splitList (if d then r.srcPorts else r.dstPorts) n))) := by
  unfold protoRuleToHnsRules at h
  by_cases c1 : r.ipVersion ≠ 0 ∧ r.ipVersion ≠ 4
  · simp [c1] at h
  · simp only [c1, if_false] at h
    by_cases c2 : (!r.notSrcNet.isEmpty || !r.notDstNet.isEmpty || r.otherNeg) = true
    · simp [c2] at h
    · simp only [c2, if_false] at h
      by_cases c3 : r.icmp = true
      · simp [c3] at h
      · simp only [c3, if_false] at h
        by_cases c4 : r.namedPortSets = true
        · simp [c4] at h
        · simp only [c4, if_false] at h
          rw [show filterNets r.srcNet = ((filterNets r.srcNet).1, (filterNets r.srcNet).2) from rfl] at h
          simp only at h
          by_cases c5 : (filterNets r.srcNet).2 = true
          · simp [c5] at h
          · simp only [c5, if_false] at h
            rw [show filterNets r.dstNet = ((filterNets r.dstNet).1, (filterNets r.dstNet).2) from rfl] at h
            simp only at h
            by_cases c6 : (filterNets r.dstNet).2 = true
            · simp [c6] at h
            · simp only [c6, if_false] at h
              cases ha : actionOf r.action with
              | none => simp [ha] at h
              | some act =>
                simp only [ha] at h
                refine ⟨act, rfl, ?_⟩
                cases hipp : r.dstIpPortSets.isEmpty with
                | false =>
                  left
                  simp only [hipp, Bool.not_false, if_true] at h
                  cases hm : getIPPortMembers s r.dstIpPortSets with
                  | none => simp [hm] at h
                  | some ms =>
                    simp only [hm, Bool.false_eq_true, if_false, Except.ok.injEq] at h
                    refine ⟨rfl, ms, rfl, ?_⟩
                    intro x hx
                    rw [← h] at hx
                    obtain ⟨c, hc, i, rfl⟩ := mem_zipIdx_map_ex _ _ 0 x hx
                    obtain ⟨g, hg, hc⟩ := List.mem_flatMap.1 hc
                    obtain ⟨sp, _, rfl⟩ := List.mem_map.1 hc
                    exact ⟨rfl, rfl, g, (List.mem_filter.1 hg).1, rfl⟩
                | true =>
                  right
                  simp only [hipp, Bool.not_true, Bool.false_eq_true, if_false] at h
                  cases hS : sideAddrs s (filterNets r.srcNet).1 r.srcSets with
                  | error e => simp [hS] at h
                  | ok srcA =>
                    simp only [hS] at h
                    cases hD : sideAddrs s (filterNets r.dstNet).1 r.dstSets with
                    | error e => simp [hD] at h
                    | ok dstA =>
                      simp only [hD, Bool.false_eq_true, if_false, Except.ok.injEq] at h
                      refine ⟨rfl, srcA, dstA, rfl, rfl, ?_⟩
                      rw [← h]
                      cases d <;> rfl

/-- Every HNS rule generated for a proto rule satisfies what the flattener needs. -/
theorem hr_ruleOK (s : IPSets) (hs : s.wf) (hv : s.ipportV4) (r : Rule) (d : Bool)
    (n : Nat) (hn : 0 < n) (pid : String) : ∀ h ∈ hr s pid r d n, RuleOK d h := by
  intro h hh
  unfold hr at hh
  cases hc : protoRuleToHnsRules s pid r d n with
  | error e => simp [hc] at hh
  | ok hs' =>
    simp only [hc] at hh
    obtain ⟨act, hact, hshape⟩ := protoRule_ok_shape s pid r d n hs' hc
    rcases hshape with ⟨hne, ms, hms, hall⟩ | ⟨hemp, srcA, dstA, hS, hD, rfl⟩
    · obtain ⟨hdir, hl, g, hg, hra⟩ := hall h hh
      obtain ⟨_, _, hmem⟩ := groupIPPorts_spec ms
      refine ⟨hdir, by intro a ha; rw [hl] at ha; simp at ha, ?_⟩
      intro a ha
      rw [hra] at ha
      obtain ⟨m, hm, _, _, e3⟩ := (hmem g.1 g.2.1 a).1 ⟨g, hg, rfl, rfl, ha⟩
      rw [← e3]; exact getIPPortMembers_v4 s hv _ ms hms m hm
    · obtain ⟨h1, h2, h3, h4, h5, h6⟩ := expand_mem _ _ _ _ _ _ _ h hh
      have hvS := sideAddrs_v4 s hs _ (filterNets_sem r.srcNet 0).2.2 r.srcSets srcA hS
      have hvD := sideAddrs_v4 s hs _ (filterNets_sem r.dstNet 0).2.2 r.dstSets dstA hD
      have hfields := withProto_fields (baseRule act d) r.proto
      refine ⟨by rw [h2, hfields.2]; rfl, ?_, ?_⟩
      · intro a ha
        have := splitList_mem _ n hn _ h3 a ha
        cases d
        · exact hvS a this
        · exact hvD a this
      · intro a ha
        have := splitList_mem _ n hn _ h5 a ha
        cases d
        · exact hvD a this
        · exact hvS a this

theorem bump_mem (ms : List HRule) : ∀ (cur : Nat) (last : Option Action), ∀ r ∈ (bump cur last ms).1,
    ∃ m ∈ ms, r = { m with prio := r.prio } := by
  induction ms with
  | nil => intro cur last r hr; simp [bump] at hr
  | cons m ms ih =>
    intro cur last r hr
    rw [bump_cons] at hr
    simp only [List.mem_cons] at hr
    rcases hr with rfl | hr
    · exact ⟨m, by simp, rfl⟩
    · obtain ⟨x, hx, he⟩ := ih _ _ r hr
      exact ⟨x, by simp [hx], he⟩

theorem ruleOK_prio (d : Bool) (m : HRule) (k : Nat) (h : RuleOK d m) : RuleOK d { m with prio := k } :=
  ⟨h.dir, h.v4l, h.v4r⟩

theorem gather_ruleOK (s : IPSets) (hs : s.wf) (hv : s.ipportV4) (n : Nat) (hn : 0 < n) (d : Bool)
    (sets : List (String × PolicySet)) :
    ∀ h ∈ gatherMembers d (sets.map fun x => some (x.2.members s x.1 n)), RuleOK d h := by
  induction sets with
  | nil => intro h hh; simp [gatherMembers] at hh
  | cons x rest ih =>
    intro h hh
    simp only [List.map_cons, gatherMembers, List.mem_append, List.mem_filter] at hh
    rcases hh with ⟨hm, hd⟩ | hh
    · have hd' : h.inbound = d := by simpa using hd
      unfold PolicySet.members at hm
      rw [protoRules_eq, protoRules_eq, List.mem_append, List.mem_flatMap, List.mem_flatMap] at hm
      rcases hm with ⟨r, hr, hm⟩ | ⟨r, hr, hm⟩
      · have := hr_ruleOK s hs hv r true n hn x.1 h hm
        have e : d = true := by rw [← hd', this.dir]
        subst e; exact this
      · have := hr_ruleOK s hs hv r false n hn x.1 h hm
        have e : d = false := by rw [← hd', this.dir]
        subst e; exact this
    · exact ih h hh

theorem eotRule_ok (d eot : Bool) (k : Nat) : RuleOK d (eotRule d eot k) :=
  ⟨rfl, by intro a ha; simp [eotRule] at ha, by intro a ha; simp [eotRule] at ha⟩

theorem tierOK_generated (s : IPSets) (hs : s.wf) (hv : s.ipportV4) (n : Nat) (hn : 0 < n) (d eot : Bool)
    (sets : List (String × PolicySet)) :
    TierOK d (getPolicySetRules (sets.map fun x => some (x.2.members s x.1 n)) d eot) := by
  intro h hh
  unfold getPolicySetRules at hh
  cases hb : bump policyRuleBasePriority none (gatherMembers d (sets.map fun x => some (x.2.members s x.1 n))) with
  | mk rs cur =>
    rw [hb] at hh
    simp only [List.mem_append, List.mem_singleton] at hh
    rcases hh with hh | rfl
    · have : h ∈ (bump policyRuleBasePriority none (gatherMembers d (sets.map fun x => some (x.2.members s x.1 n)))).1 := by
        rw [hb]; exact hh
      obtain ⟨m, hm, he⟩ := bump_mem _ _ _ h this
      rw [he]
      exact ruleOK_prio d m _ (gather_ruleOK s hs hv n hn d sets m hm)
    · exact eotRule_ok d eot _

/-- The first-match reading of one generated tier is the tier's policy verdict. -/
theorem tier_first (s : IPSets) (hs : s.wf) (hipp : s.ipportOK) (n : Nat) (hn : 0 < n) (d eot : Bool) (p : Pkt)
    (sets : List (String × PolicySet)) (hsup : ∀ x ∈ sets, x.2.supported) :
    firstAction (getPolicySetRules (sets.map fun x => some (x.2.members s x.1 n)) d eot) p =
      some (tierVerdict s (sets.map (·.2)) d eot p) := by
  have := (getPolicySetRules_spec (sets.map fun x => some (x.2.members s x.1 n)) d eot p).2
  rw [firstAction_gather s hs hipp n hn d p sets hsup, ← tierVerdict_eq] at this
  exact this

abbrev TierSpec := List (String × PolicySet) × Bool

def genTier (s : IPSets) (n : Nat) (d : Bool) (t : TierSpec) : List HRule :=
  getPolicySetRules (t.1.map fun x => some (x.2.members s x.1 n)) d t.2

theorem mvH_generated (s : IPSets) (hs : s.wf) (hipp : s.ipportOK) (n : Nat) (hn : 0 < n) (d : Bool) (p : Pkt) :
    ∀ (ts : List TierSpec), ts ≠ [] → (∀ t ∈ ts, ∀ x ∈ t.1, x.2.supported) →
      mvH p (ts.map (genTier s n d)) = some (multiVerdict s d p (ts.map fun t => (t.1.map (·.2), t.2))) := by
  intro ts
  induction ts with
  | nil => intro h; exact absurd rfl h
  | cons t rest ih =>
    intro _ hsup
    have ht := tier_first s hs hipp n hn d t.2 p t.1 (hsup t (by simp))
    cases rest with
    | nil =>
      simp only [List.map_cons, List.map_nil, mvH, genTier, ht, multiVerdict, Option.map_some]
      cases tierVerdict s (t.1.map (·.2)) d t.2 p <;> rfl
    | cons t2 rest' =>
      have := ih (by simp) (fun x hx => hsup x (by simp [hx]))
      simp only [List.map_cons] at this ⊢
      simp only [mvH, multiVerdict]
      rw [show firstAction (genTier s n d t) p = some (tierVerdict s (t.1.map (·.2)) d t.2 p) from ht]
      cases hv : tierVerdict s (t.1.map (·.2)) d t.2 p
      · rfl
      · rfl
      · simpa using this

end CalicoVerif.C30
