import CalicoVerif.Proofs.C15s
set_option linter.unusedSimpArgs false
namespace CalicoVerif.C15

theorem ensureLoaded_K (w : W) : w.ensureLoaded.1.K = w.K ∧ w.ensureLoaded.1.pre = w.pre := by
  unfold W.ensureLoaded
  obtain ⟨_, h2, h3⟩ := save_frame 4 w
  split
  · dsimp only
    split
    · exact ⟨h2, h3⟩
    · exact ⟨h2, h3⟩
  · exact ⟨rfl, rfl⟩

theorem applyLoop_stuck_K : ∀ (fuel : Nat) (w : W), w.t.inSync = true → w.t.plan = none → w.pre = none →
    (W.applyLoop fuel w).1.K = w.K := by
  intro fuel
  induction fuel with
  | zero => intro w _ _ _; rfl
  | succ fuel ih =>
    intro w hs hp hpre
    unfold W.applyLoop
    dsimp only
    have hl : w.ensureLoaded = (w, true) := by unfold W.ensureLoaded; simp [hs]
    rw [hl]
    simp only [Bool.not_true, Bool.false_eq_true, if_false]
    rcases applyUpdates_spec w hpre with ⟨_, h2, h3, h4, h5⟩ | ⟨lines, newH, newFull, hp', _⟩
    · rw [h2]
      simp only [if_true]
      split
      · exact h4
      · have := ih { w.applyUpdates.1 with sleeps := w.applyUpdates.1.sleeps + 1 }
          (by show w.applyUpdates.1.t.inSync = true; rw [h3]; exact hs)
          (by show w.applyUpdates.1.t.plan = none; rw [h3]; exact hp) h5
        rw [this]; exact h4
    · rw [hp] at hp'; simp at hp'

/-- Over the whole retry loop of an `Apply` that starts with the cache out of date, whether it ends in success or in
a panic: a chain outside Felix's name space keeps the rules of other software, in order, and is neither created
nor deleted. -/
theorem applyLoop_foreign {P : List String} : ∀ (fuel : Nat) (w : W), PInv P w.t → w.t.inSync = false → w.pre = none →
    ∀ x, oursP P x = false → x ≠ "" →
    ((W.applyLoop fuel w).1.K.get x).map foreignSub = (w.K.get x).map foreignSub := by
  intro fuel
  induction fuel with
  | zero => intro w _ _ _ x _ _; rfl
  | succ fuel ih =>
    intro w hinv hns hpre x hx hne
    unfold W.applyLoop
    dsimp only
    obtain ⟨lK0, lpre0⟩ := ensureLoaded_K w
    by_cases hl : w.ensureLoaded.2 = true
    case neg =>
      simp only [hl, Bool.not_false, if_true]
      rw [lK0]
    case pos =>
      simp only [hl, Bool.not_true, Bool.false_eq_true, if_false]
      obtain ⟨lK, lpre, lt⟩ := ensureLoaded_spec w hl
      rw [hns] at lt
      simp only [Bool.false_eq_true, if_false] at lt
      have lpre' : w.ensureLoaded.1.pre = none := lpre.trans hpre
      have hinvL : PInv P (w.t.load w.K) := hinv.load w.K
      rcases applyUpdates_spec w.ensureLoaded.1 lpre' with ⟨hp, h2, h3, h4, h5⟩ | ⟨lines, newH, newFull, hp, hcase⟩
      · rw [h2]
        simp only [if_true]
        by_cases hfz : (fuel == 0) = true
        · rw [if_pos hfz]; show (w.ensureLoaded.1.applyUpdates.1.K.get x).map _ = _; rw [h4, lK]
        · rw [if_neg hfz]
          have := applyLoop_stuck_K fuel { w.ensureLoaded.1.applyUpdates.1 with sleeps := w.ensureLoaded.1.applyUpdates.1.sleeps + 1 }
            (by show w.ensureLoaded.1.applyUpdates.1.t.inSync = true; rw [h3, lt]; rfl)
            (by show w.ensureLoaded.1.applyUpdates.1.t.plan = none; rw [h3]; exact hp) h5
          rw [this]
          show (w.ensureLoaded.1.applyUpdates.1.K.get x).map _ = _
          rw [h4, lK]
      · rcases hcase with ⟨h2, h3, h4, h5⟩ | ⟨K', hres, h2, h3, h4, h5⟩
        · rw [h2]
          simp only [if_true]
          by_cases hfz : (fuel == 0) = true
          · rw [if_pos hfz]; show (w.ensureLoaded.1.applyUpdates.1.K.get x).map _ = _; rw [h4, lK]
          · rw [if_neg hfz]
            have ht' : w.ensureLoaded.1.applyUpdates.1.t = (w.t.load w.K).invalidate := by rw [h3, lt]
            have hK' : w.ensureLoaded.1.applyUpdates.1.K = w.K := h4.trans lK
            have := ih { w.ensureLoaded.1.applyUpdates.1 with sleeps := w.ensureLoaded.1.applyUpdates.1.sleeps + 1 }
              (by show PInv P w.ensureLoaded.1.applyUpdates.1.t; rw [ht']; exact hinvL.invalidate)
              (by show w.ensureLoaded.1.applyUpdates.1.t.inSync = false; rw [ht']; rfl) h5 x hx hne
            rw [this]
            show (w.ensureLoaded.1.applyUpdates.1.K.get x).map _ = _
            rw [hK']
        · rw [h2]
          simp only [Bool.false_eq_true, if_false]
          show (w.ensureLoaded.1.applyUpdates.1.K.get x).map _ = _
          rw [h4]
          rw [lt] at hp
          rw [lK] at hres
          apply unowned_unchanged (load_FullOK w.t w.K) hp w.K K' hres x _ hne
          intro hd
          have := hinvL.2.2.dirty x hd
          rw [hx] at this; simp at this

theorem apply_foreign {P : List String} (w : W) (hinv : PInv P w.t) (hns : w.t.inSync = false) (hpre : w.pre = none)
    (x : String) (hx : oursP P x = false) (hne : x ≠ "") :
    (w.apply.1.K.get x).map foreignSub = (w.K.get x).map foreignSub := by
  have := applyLoop_foreign 11 w hinv hns hpre x hx hne
  unfold W.apply
  cases hr : W.applyLoop 11 w with
  | mk w' ok =>
    rw [hr] at this
    dsimp only
    split
    · exact this
    · exact this

end CalicoVerif.C15
