import CalicoVerif.Proofs.C03Tiers
/-! C03: the from-scratch characterisation of an endpoint's tier list (`IsSpec`), that every list a
flush in sync emits satisfies it, and dirty-set completeness: an endpoint that a flush does not
re-emit still has a list that satisfies it for the CURRENT datastore state. -/
namespace CalicoVerif.C03
open CalicoVerif.C02

/-- sort key of an emitted tier computed from the datastore: a tier is "valid" iff the datastore has it -/
def dkey (ds : TierDS) (t : TierInfo) : TierKey := ⟨t.name, (mget ds t.name).isSome, t.order⟩

/-- `l` is THE policy list of endpoint `e` for the datastore state (tier resources `ds`, policy
metadata `all`) and the match relation `matched`: written from scratch, no reference to the sorter. -/
structure IsSpec (ds : TierDS) (all : List (PolicyKey × PolMeta)) (matched : List (PolicyKey × EpKey)) (e : EpKey)
    (l : List TierInfo) : Prop where
  /-- tiers ascend: existing tiers first, order ascending, unset last, then name -/
  tiersSorted : l.Pairwise (fun a b => tierLess (dkey ds a) (dkey ds b) = true)
  nonEmpty : ∀ t ∈ l, t.policies ≠ []
  /-- policies in a tier ascend: order ascending, default last, then name/namespace/kind -/
  polSorted : ∀ t ∈ l, Sorted polKVLess t.policies
  /-- a tier carries the datastore tier's order and default action (none / "" if it does not exist) -/
  attrs : ∀ t ∈ l, match mget ds t.name with
    | some (o, a) => t.order = o ∧ t.defaultAction = a
    | none => t.order = none ∧ t.defaultAction = ""
  /-- exactly the policies that match the endpoint, with their current metadata, in their own tier -/
  exact : ∀ p m, (∃ t ∈ l, t.name = m.tier ∧ ⟨p, m⟩ ∈ t.policies) ↔ ((p, e) ∈ matched ∧ mget all p = some m)
  inTier : ∀ t ∈ l, ∀ kv ∈ t.policies, kv.val.tier = t.name
  valid : ∀ t ∈ l, t.valid = true

/-- with no matching known policy the list is empty, and conversely -/
theorem IsSpec.nil_of_noMatch {ds all matched e l} (h : IsSpec ds all matched e l) (hn : ∀ p, (p, e) ∉ matched) : l = [] := by
  cases l with
  | nil => rfl
  | cons t rest =>
    exfalso
    have hne := h.nonEmpty t (by simp)
    cases hp : t.policies with
    | nil => exact hne hp
    | cons kv _ =>
      have hin : kv ∈ t.policies := by rw [hp]; simp
      have := (h.exact kv.key kv.val).1 ⟨t, by simp, (h.inTier t (by simp) kv hin).symm, by cases kv; exact hin⟩
      exact hn kv.key this.1

theorem IsSpec.nil {ds all matched e} (hn : ∀ p, (p, e) ∉ matched) : IsSpec ds all matched e [] :=
  ⟨by simp, by simp, by simp, by simp, by intro p m; simp; intro h; exact absurd h (hn p), by simp, by simp⟩

/-- `IsSpec` only looks at the policies matching `e` -/
theorem IsSpec.congr {ds all all' matched matched' e l} (h : IsSpec ds all matched e l)
    (hm : ∀ p, (p, e) ∈ matched' ↔ (p, e) ∈ matched) (ha : ∀ p, (p, e) ∈ matched → mget all' p = mget all p) :
    IsSpec ds all' matched' e l := by
  refine ⟨h.tiersSorted, h.nonEmpty, h.polSorted, h.attrs, ?_, h.inTier, h.valid⟩
  intro p m
  rw [h.exact p m, hm p]
  constructor
  · rintro ⟨a, b⟩; exact ⟨a, by rw [ha p a]; exact b⟩
  · rintro ⟨a, b⟩; exact ⟨a, by rw [← ha p a]; exact b⟩

/-- Every list emitted by a flush in sync satisfies `IsSpec` for the current datastore state. -/
theorem flush_isSpec {K : PolicyKey → Prop} (hK : KeyU K) {ds : TierDS} {r r' : Resolver} {calls : List Call}
    (hfull : Full K r) (ta : TierAttr ds r.sorter) (hs : r.inSync = true) (hf : r.flush = some (r', calls)) :
    ∃ g : EpKey → Option EpUpd, calls = r.dirty.map (fun e => Call.endpointUpdate e (g e)) ∧
      ∀ e, match mget r.endpoints e with
        | none => g e = none
        | some ep => ∃ l, g e = some ⟨ep, l⟩ ∧ IsSpec ds r.allPolicies r.matched e l := by
  have hfull' := hfull.flush hK hf
  have ta' := ta.flush hfull.rinv.sinv hf
  obtain ⟨ts, hts, hm, ha, hcalls⟩ := flush_shape hs hf
  have hcomp := (hfull.compl.flush hfull.rinv hf).2 hs
  have hs' := hfull'.rinv.sinv
  obtain ⟨ts2, e1, e2, e3⟩ := sortedOut_spec hs'
  rw [hts] at e1; simp only [Option.some.injEq] at e1; subst e1
  refine ⟨fun e => match mget r.endpoints e with
      | none => none
      | some ep => some ⟨ep, filterTiers r.matched e ts⟩, ?_, ?_⟩
  · rw [hcalls]
    apply List.map_congr_left
    intro e _
    cases hh : mget r.endpoints e <;> simp [hh]
  · intro e
    cases hep : mget r.endpoints e with
    | none => simp [hep]
    | some ep =>
      simp only
      refine ⟨filterTiers r.matched e ts, by simp [hep], ?_⟩
      obtain ⟨f1, f2, f3⟩ := filterTiers_spec r.matched e ts
      -- facts about each emitted tier
      have hback : ∀ t' ∈ filterTiers r.matched e ts, ∃ n T, mget r'.sorter.tiers n = some T ∧ T.name = n ∧
          t'.name = n ∧ t'.order = T.order ∧ t'.defaultAction = T.defaultAction ∧
          t'.policies = T.sorted.filter (fun kv => decide ((kv.key, e) ∈ r.matched)) := by
        intro t' ht'
        obtain ⟨_, _, t, ht, hn, ho, hda, hp⟩ := f1 t' ht'
        obtain ⟨n, T, hT, rfl⟩ := (sortedOut_mem hs' hts t).1 ht
        have hname := (hs'.tiers n T hT).1
        exact ⟨n, T, hT, hname, by rw [hn]; exact hname, ho, hda, hp⟩
      have hvalid : ∀ n T, mget r'.sorter.tiers n = some T → T.valid = (mget ds n).isSome := by
        intro n T hT
        cases hds : mget ds n with
        | none => simpa using (ta'.notDS n T hT hds).1
        | some oa =>
          obtain ⟨o, a⟩ := oa
          obtain ⟨T2, hT2, v, _, _⟩ := ta'.fromDS n o a hds
          rw [hT] at hT2; simp only [Option.some.injEq] at hT2; subst hT2; simpa using v
      refine ⟨?_, fun t ht => (f1 t ht).1, ?_, ?_, ?_, ?_, ?_⟩
      · -- tiers sorted under the datastore-computed key
        rw [filterTiers_eq]
        have hsorted : ts.Pairwise (fun a b => tierLess (TierInfo.key a) (TierInfo.key b) = true) := by
          have := hs'.sorted
          rw [← e2] at this
          exact List.pairwise_map.1 this
        have hkey : ∀ t ∈ ts, dkey ds t = TierInfo.key t := by
          intro t ht
          obtain ⟨n, T, hT, rfl⟩ := (sortedOut_mem hs' hts t).1 ht
          simp only [dkey, TierInfo.key, tierInfoOf, (hs'.tiers n T hT).1, hvalid n T hT]
        have hsorted' : ts.Pairwise (fun a b => a ∈ ts ∧ b ∈ ts ∧ tierLess (TierInfo.key a) (TierInfo.key b) = true) := by
          have := List.Pairwise.and_mem.1 hsorted
          exact this.imp (fun ⟨a, b, c⟩ => ⟨a, b, c⟩)
        refine List.Pairwise.filterMap _ ?_ hsorted'
        intro a a' ⟨ha1, ha2, hlt⟩ b hb b' hb'
        have kb : dkey ds b = TierInfo.key a := by
          by_cases hx : (a.policies.filter (fun kv => decide ((kv.key, e) ∈ r.matched))).isEmpty = true
          · simp [hx] at hb
          · simp only [hx, Bool.false_eq_true, if_false, Option.some.injEq] at hb
            subst hb; rw [← hkey a ha1]; rfl
        have kb' : dkey ds b' = TierInfo.key a' := by
          by_cases hx : (a'.policies.filter (fun kv => decide ((kv.key, e) ∈ r.matched))).isEmpty = true
          · simp [hx] at hb'
          · simp only [hx, Bool.false_eq_true, if_false, Option.some.injEq] at hb'
            subst hb'; rw [← hkey a' ha2]; rfl
        rw [kb, kb']; exact hlt
      · intro t' ht'
        obtain ⟨_, _, t, ht, _, _, _, hp⟩ := f1 t' ht'
        rw [hp]; exact List.Pairwise.filter _ (e3 t ht)
      · intro t' ht'
        obtain ⟨n, T, hT, _, hn, ho, hda, _⟩ := hback t' ht'
        rw [hn, ho, hda]
        cases hds : mget ds n with
        | none => exact (ta'.notDS n T hT hds).2
        | some oa =>
          obtain ⟨o, a⟩ := oa
          obtain ⟨T2, hT2, _, h2, h3⟩ := ta'.fromDS n o a hds
          rw [hT] at hT2; simp only [Option.some.injEq] at hT2; subst hT2
          exact ⟨h2, h3⟩
      · intro p m
        have := emitted_exact hfull'.rinv hfull'.tc hcomp hts e p m
        rw [hm, ha] at this
        exact this
      · intro t' ht' kv hkv
        obtain ⟨n, T, hT, _, hn, _, _, hp⟩ := hback t' ht'
        rw [hp, List.mem_filter] at hkv
        have hin : mget T.policies kv.key = some kv.val := ((hfull'.tc n T hT).1 kv).1 hkv.1
        rw [hn]
        exact (hfull'.rinv.held kv.key n kv.val ⟨T, hT, hin⟩).2.2
      · intro t' ht'
        rw [filterTiers_eq] at ht'
        simp only [List.mem_filterMap] at ht'
        obtain ⟨t, _, hx⟩ := ht'
        by_cases hxe : (t.policies.filter (fun kv => decide ((kv.key, e) ∈ r.matched))).isEmpty = true
        · simp [hxe] at hx
        · simp only [hxe, Bool.false_eq_true, if_false, Option.some.injEq] at hx
          subst hx; rfl

/-! ### dirty-set completeness -/

theorem insertPolicy_snd (s : Sorter) (k : PolicyKey) (np : PolMeta) (d : Bool) :
    (s.insertPolicy k np d).2 = (d || decide (mget (match mget s.tiers np.tier with
      | some t => t.policies | none => []) k ≠ some np)) := by
  unfold Sorter.insertPolicy
  cases mget s.tiers np.tier <;> rfl

/-- `UpdatePolicy` reports "not dirty" only if nothing changed. -/
theorem updatePolicy_notDirty {s : Sorter} (h : SInv s) (k : PolicyKey) (v : Option PolMeta)
    (hd : (s.updatePolicy k v).2 = false) :
    (v = none ∧ ¬ Held s k) ∨ (∃ np, v = some np ∧ holdsIn s k np.tier np) := by
  cases v with
  | none =>
    left
    refine ⟨rfl, ?_⟩
    simp only [Sorter.updatePolicy] at hd
    cases hot : s.tierHolding k with
    | none => rintro ⟨n, m, hx⟩; exact tierHolding_none h hot n m hx
    | some t =>
      obtain ⟨_, hk⟩ := tierHolding_holds h hot
      rw [hot] at hd
      cases hp : mget t.policies k with
      | none => rw [hp] at hk; cases hk
      | some op => simp [hp] at hd
  | some np =>
    right
    refine ⟨np, rfl, ?_⟩
    simp only [Sorter.updatePolicy] at hd
    have fin : ∀ d, (s.insertPolicy k np d).2 = false → holdsIn s k np.tier np := by
      intro d hx
      rw [insertPolicy_snd] at hx
      simp only [Bool.or_eq_false_iff, decide_eq_false_iff_not, ne_eq, Decidable.not_not] at hx
      cases ht : mget s.tiers np.tier with
      | none => rw [ht] at hx; simp at hx
      | some t => rw [ht] at hx; exact ⟨t, ht, hx.2⟩
    cases hot : s.tierHolding k with
    | none => rw [hot] at hd; exact fin _ hd
    | some ot =>
      rw [hot] at hd
      by_cases hc : ot.name = np.tier
      · simp only [hc, ne_eq, not_true_eq_false, if_false] at hd
        exact fin _ hd
      · simp only [ne_eq, hc, not_false_eq_true, if_true] at hd
        exfalso
        cases hp : mget ot.policies k with
        | none => simp only [hp] at hd; rw [insertPolicy_snd] at hd; simp at hd
        | some op => simp only [hp] at hd; rw [insertPolicy_snd] at hd; simp at hd

theorem mem_matchingEps (r : Resolver) (k : PolicyKey) (e : EpKey) : e ∈ r.matchingEps k ↔ (k, e) ∈ r.matched := by
  simp only [Resolver.matchingEps, List.mem_map, List.mem_filter, decide_eq_true_eq]
  constructor
  · rintro ⟨⟨k', e'⟩, ⟨h1, h2⟩, h3⟩; simp only at h2 h3; subst h2; subst h3; exact h1
  · intro h; exact ⟨(k, e), ⟨h, rfl⟩, rfl⟩

theorem mem_addAll {α : Type} [DecidableEq α] (xs s : List α) (x : α) : x ∈ addAll xs s ↔ x ∈ xs ∨ x ∈ s := by
  unfold addAll; exact mem_foldl_sadd

theorem applyPolicy_dirty (r : Resolver) (k : PolicyKey) (m : Option PolMeta) (e : EpKey) :
    e ∈ (r.applyPolicy k m).dirty ↔
      (e ∈ r.dirty ∨ (r.polHasMatch k = true ∧ (r.sorter.updatePolicy k m).2 = true ∧ (k, e) ∈ r.matched)) := by
  unfold Resolver.applyPolicy
  by_cases hm : r.polHasMatch k = true
  · simp only [hm, Bool.not_true, Bool.false_eq_true, if_false, true_and]
    rcases hu : r.sorter.updatePolicy k m with ⟨s', d⟩
    cases d
    · simp
    · simp only [if_true, mem_addAll, mem_matchingEps, true_and]
      exact or_comm
  · simp [hm]

theorem mem_matchedEps (r : Resolver) (e : EpKey) : e ∈ r.matchedEps ↔ ∃ p, (p, e) ∈ r.matched := by
  simp only [Resolver.matchedEps, List.mem_eraseDups, List.mem_map]
  constructor
  · rintro ⟨⟨p, e'⟩, h1, h2⟩; simp only at h2; subst h2; exact ⟨p, h1⟩
  · rintro ⟨p, h⟩; exact ⟨(p, e), h, rfl⟩

/-- last emitted `OnEndpointTierUpdate` per endpoint (`none` = never emitted) -/
abbrev Last := EpKey → Option (Option EpUpd)

/-- what "up to date" means for the last emitted update of endpoint `e` -/
def UpToDate (ds : TierDS) (r : Resolver) (L : Last) (e : EpKey) : Prop :=
  match mget r.endpoints e with
  | none => L e = none ∨ L e = some none
  | some ep => ∃ l, L e = some (some ⟨ep, l⟩) ∧ IsSpec ds r.allPolicies r.matched e l

structure DInv (K : PolicyKey → Prop) (r : Resolver) (L : Last) (ds : TierDS) : Prop where
  full : Full K r
  ta : TierAttr ds r.sorter
  /-- a known policy still waiting for the flush: every endpoint it matches is dirty -/
  pendDirty : ∀ p, p ∈ r.pending → (mget r.allPolicies p).isSome → ∀ e, (p, e) ∈ r.matched → e ∈ r.dirty
  /-- an endpoint that is not dirty has an up-to-date last update -/
  good : ∀ e, e ∉ r.dirty → UpToDate ds r L e

theorem DInv.init (K : PolicyKey → Prop) : DInv K {} (fun _ => none) [] :=
  ⟨Full.init K, TierAttr.init, by simp, by intro e _; simp [UpToDate]⟩

theorem upToDate_congr {ds : TierDS} {r r' : Resolver} {L : Last} {e : EpKey} (h : UpToDate ds r L e)
    (hep : mget r'.endpoints e = mget r.endpoints e)
    (hm : ∀ p, (p, e) ∈ r'.matched ↔ (p, e) ∈ r.matched)
    (ha : ∀ p, (p, e) ∈ r.matched → mget r'.allPolicies p = mget r.allPolicies p) : UpToDate ds r' L e := by
  unfold UpToDate at *
  rw [hep]
  cases hx : mget r.endpoints e with
  | none => rw [hx] at h; exact h
  | some ep =>
    rw [hx] at h
    obtain ⟨l, h1, h2⟩ := h
    exact ⟨l, h1, h2.congr hm ha⟩

theorem status_fields (r : Resolver) (b : Bool) :
    (r.step (.status b)).matched = r.matched ∧ (r.step (.status b)).allPolicies = r.allPolicies ∧
    (r.step (.status b)).endpoints = r.endpoints ∧ (r.step (.status b)).dirty = r.dirty ∧
    (r.step (.status b)).pending = r.pending := by
  simp only [Resolver.step]; split <;> exact ⟨rfl, rfl, rfl, rfl, rfl⟩

theorem DInv.step {K : PolicyKey → Prop} (hK : KeyU K) {r : Resolver} {L : Last} {ds : TierDS} (h : DInv K r L ds)
    (ev : Event) (hev : EventIn K ev) : DInv K (r.step ev) L (dsEvent ds ev) := by
  obtain ⟨hfull, hta, hpd, hgood⟩ := h
  refine ⟨hfull.step hK ev hev, hta.step hfull.rinv.sinv ev, ?_, ?_⟩
  · -- pendDirty
    cases ev with
    | endpoint k v =>
      intro p hp hk e he
      have := hpd p (by cases v <;> exact hp) (by cases v <;> exact hk) e (by cases v <;> exact he)
      cases v <;> simp [Resolver.step, this]
    | status b =>
      intro p hp hk e he
      obtain ⟨s1, s2, _, s4, s5⟩ := status_fields r b
      rw [s5] at hp; rw [s2] at hk; rw [s1] at he; rw [s4]
      exact hpd p hp hk e he
    | tier name v =>
      intro p hp hk e he
      simp only [Resolver.step, mem_addAll]
      exact Or.inr (hpd p hp hk e he)
    | matchStarted q e0 =>
      intro p hp hk e he
      have hall : (r.step (.matchStarted q e0)).allPolicies = r.allPolicies := by
        simp only [Resolver.step]; split <;> rfl
      have hmat : (r.step (.matchStarted q e0)).matched = sadd (q, e0) r.matched := by
        simp only [Resolver.step]; split <;> rfl
      have hdir : (r.step (.matchStarted q e0)).dirty = sadd e0 r.dirty := by
        simp only [Resolver.step]; split <;> rfl
      rw [hall] at hk; rw [hmat, mem_sadd] at he; rw [hdir, mem_sadd]
      rcases he with he | he
      · left; exact (Prod.ext_iff.1 he).2
      · right
        by_cases hpp : p ∈ r.pending
        · exact hpd p hpp hk e he
        · -- p became pending just now although it already matched e: impossible (it would be held or pending)
          exfalso
          have hpq : p = q ∧ r.sorter.hasPolicy q = false := by
            simp only [Resolver.step] at hp
            split at hp
            · rename_i hh
              simp only [mem_sadd] at hp
              rcases hp with rfl | hp
              · exact ⟨rfl, by simpa using hh⟩
              · exact absurd hp hpp
            · exact absurd hp hpp
          obtain ⟨rfl, hnh⟩ := hpq
          rcases hfull.compl p ((polHasMatch_iff r p).2 ⟨e, he⟩) hk with x | x
          · have := (hasPolicy_iff hfull.rinv.sinv p).2 x
            rw [this] at hnh; cases hnh
          · exact hpp x
    | matchStopped q e0 =>
      intro p hp hk e he
      simp only [Resolver.step] at hp hk he ⊢
      split at hp
      · rw [if_pos (by assumption)] at hk he ⊢
        simp only [mem_sadd]
        exact Or.inr (hpd p (mem_sdel.1 hp).1 hk e (mem_sdel.1 he).1)
      · rw [if_neg (by assumption)] at hk he ⊢
        simp only [mem_sadd]
        exact Or.inr (hpd p hp hk e (mem_sdel.1 he).1)
    | policy k v =>
      intro p hp hk e he
      simp only [Resolver.step] at hp hk he ⊢
      obtain ⟨_, f2, f3, f4, _, _⟩ := applyPolicy_fields (r.recordPolicy k v) k (v.map extractPolicyMetadata)
      rw [f4] at hp; rw [f3] at hk; rw [f2] at he
      have e_matched : (r.recordPolicy k v).matched = r.matched := by cases v <;> rfl
      have e_sorter : (r.recordPolicy k v).sorter = r.sorter := by cases v <;> rfl
      rw [e_matched] at he
      rw [applyPolicy_dirty]
      have e_dirty : (r.recordPolicy k v).dirty = r.dirty := by cases v <;> rfl
      rw [e_dirty, e_matched, e_sorter]
      have e_hm : (r.recordPolicy k v).polHasMatch k = r.polHasMatch k := by simp [Resolver.polHasMatch, e_matched]
      rw [e_hm]
      by_cases hpk : p = k
      · subst hpk
        have hpp : p ∈ r.pending := by
          cases v with
          | none => exact (mem_sdel.1 hp).1
          | some _ => exact hp
        by_cases hknown : (mget r.allPolicies p).isSome
        · exact Or.inl (hpd p hpp hknown e he)
        · -- p was unknown, hence not held: the sorter reports a change and p's endpoints become dirty
          right
          refine ⟨(polHasMatch_iff r p).2 ⟨e, he⟩, ?_, he⟩
          cases hd : (r.sorter.updatePolicy p (v.map extractPolicyMetadata)).2 with
          | true => rfl
          | false =>
            exfalso
            rcases updatePolicy_notDirty hfull.rinv.sinv p _ hd with ⟨hv, _⟩ | ⟨np, _, hx⟩
            · cases v with
              | none => simp [Resolver.recordPolicy, mget_mdel] at hk
              | some _ => cases hv
            · have := (hfull.rinv.held p np.tier np hx).2.1
              rw [this] at hknown; exact hknown rfl
      · have hpp : p ∈ r.pending := by
          cases v with
          | none => exact (mem_sdel.1 hp).1
          | some _ => exact hp
        have hk' : (mget r.allPolicies p).isSome := by
          cases v <;> simpa [Resolver.recordPolicy, mget_mdel, mget_mset, hpk] using hk
        exact Or.inl (hpd p hpp hk' e he)
  · -- good
    cases ev with
    | endpoint k v =>
      intro e he
      have hek : e ≠ k ∧ e ∉ r.dirty := by
        cases v <;> (simp only [Resolver.step, mem_sadd, not_or] at he; exact he)
      refine upToDate_congr (hgood e hek.2) ?_ (fun p => by cases v <;> rfl) (fun p _ => by cases v <;> rfl)
      cases v <;> simp [Resolver.step, mget_mset, mget_mdel, hek.1]
    | status b =>
      intro e he
      obtain ⟨s1, s2, s3, s4, _⟩ := status_fields r b
      rw [s4] at he
      exact upToDate_congr (hgood e he) (by rw [s3]) (fun p => by rw [s1]) (fun p _ => by rw [s2])
    | tier name v =>
      intro e he
      simp only [Resolver.step, mem_addAll, not_or, mem_matchedEps, not_exists] at he
      have hold := hgood e he.2
      unfold UpToDate at hold ⊢
      show match mget r.endpoints e with
        | none => L e = none ∨ L e = some none
        | some ep => ∃ l, L e = some (some ⟨ep, l⟩) ∧ IsSpec (dsTier ds name v) r.allPolicies r.matched e l
      cases hx : mget r.endpoints e with
      | none => rw [hx] at hold; exact hold
      | some ep =>
        rw [hx] at hold
        obtain ⟨l, h1, h2⟩ := hold
        have := h2.nil_of_noMatch he.1
        subst this
        exact ⟨[], h1, IsSpec.nil he.1⟩
    | matchStarted q e0 =>
      intro e he
      have hall : (r.step (.matchStarted q e0)).allPolicies = r.allPolicies := by
        simp only [Resolver.step]; split <;> rfl
      have hmat : (r.step (.matchStarted q e0)).matched = sadd (q, e0) r.matched := by
        simp only [Resolver.step]; split <;> rfl
      have hdir : (r.step (.matchStarted q e0)).dirty = sadd e0 r.dirty := by
        simp only [Resolver.step]; split <;> rfl
      have hend : (r.step (.matchStarted q e0)).endpoints = r.endpoints := by
        simp only [Resolver.step]; split <;> rfl
      rw [hdir, mem_sadd, not_or] at he
      refine upToDate_congr (hgood e he.2) (by rw [hend]) (fun p => ?_) (fun p _ => by rw [hall])
      rw [hmat, mem_sadd]
      constructor
      · rintro (x | x)
        · exact absurd (Prod.ext_iff.1 x).2 he.1
        · exact x
      · exact Or.inr
    | matchStopped q e0 =>
      intro e he
      have hall : (r.step (.matchStopped q e0)).allPolicies = r.allPolicies := by
        simp only [Resolver.step]; split <;> rfl
      have hmat : (r.step (.matchStopped q e0)).matched = sdel (q, e0) r.matched := by
        simp only [Resolver.step]; split <;> rfl
      have hdir : (r.step (.matchStopped q e0)).dirty = sadd e0 r.dirty := by
        simp only [Resolver.step]; split <;> rfl
      have hend : (r.step (.matchStopped q e0)).endpoints = r.endpoints := by
        simp only [Resolver.step]; split <;> rfl
      rw [hdir, mem_sadd, not_or] at he
      refine upToDate_congr (hgood e he.2) (by rw [hend]) (fun p => ?_) (fun p _ => by rw [hall])
      rw [hmat, mem_sdel]
      constructor
      · exact fun x => x.1
      · intro x; exact ⟨x, fun y => he.1 (Prod.ext_iff.1 y).2⟩
    | policy k v =>
      intro e he
      simp only [Resolver.step] at he ⊢
      obtain ⟨_, f2, f3, _, f5, _⟩ := applyPolicy_fields (r.recordPolicy k v) k (v.map extractPolicyMetadata)
      have e_matched : (r.recordPolicy k v).matched = r.matched := by cases v <;> rfl
      have e_sorter : (r.recordPolicy k v).sorter = r.sorter := by cases v <;> rfl
      have e_dirty : (r.recordPolicy k v).dirty = r.dirty := by cases v <;> rfl
      have e_end : (r.recordPolicy k v).endpoints = r.endpoints := by cases v <;> rfl
      have e_hm : (r.recordPolicy k v).polHasMatch k = r.polHasMatch k := by simp [Resolver.polHasMatch, e_matched]
      have e_all : ∀ q, q ≠ k → mget (r.recordPolicy k v).allPolicies q = mget r.allPolicies q := by
        intro q hq; cases v <;> simp [Resolver.recordPolicy, mget_mdel, mget_mset, hq]
      have e_allk : mget (r.recordPolicy k v).allPolicies k = v.map extractPolicyMetadata := by
        cases v <;> simp [Resolver.recordPolicy, mget_mdel, mget_mset]
      rw [applyPolicy_dirty, e_dirty, e_matched, e_sorter, e_hm, not_or] at he
      refine upToDate_congr (hgood e he.1) (by rw [f5, e_end]) (fun p => by rw [f2, e_matched]) ?_
      intro p hpe
      rw [f3]
      by_cases hpk : p = k
      · subst hpk
        have hmatch : r.polHasMatch p = true := (polHasMatch_iff r p).2 ⟨e, hpe⟩
        have hd : (r.sorter.updatePolicy p (v.map extractPolicyMetadata)).2 = false := by
          cases hx : (r.sorter.updatePolicy p (v.map extractPolicyMetadata)).2 with
          | false => rfl
          | true => exact absurd ⟨hmatch, hx, hpe⟩ he.2
        rw [e_allk]
        rcases updatePolicy_notDirty hfull.rinv.sinv p _ hd with ⟨hv, hnh⟩ | ⟨np, hv, hx⟩
        · rw [hv]
          cases hknown : mget r.allPolicies p with
          | none => rfl
          | some m =>
            exfalso
            rcases hfull.compl p hmatch (by simp [hknown]) with x | x
            · exact hnh x
            · exact he.1 (hpd p x (by simp [hknown]) e hpe)
        · rw [hv, (hfull.rinv.held p np.tier np hx).2.1]
      · exact e_all p hpk

/-- the last-emitted map after a batch of `OnEndpointTierUpdate` calls -/
def lastAfter (L : Last) (calls : List Call) : Last :=
  calls.foldl (fun L c => match c with
    | .endpointUpdate e v => (fun e' => if e' = e then some v else L e')
    | _ => L) L

theorem lastAfter_map (g : EpKey → Option EpUpd) (l : List EpKey) (L : Last) (e : EpKey) :
    lastAfter L (l.map (fun e => Call.endpointUpdate e (g e))) e = if e ∈ l then some (g e) else L e := by
  induction l generalizing L with
  | nil => simp [lastAfter]
  | cons x t ih =>
    simp only [lastAfter, List.map_cons, List.foldl_cons] at ih ⊢
    rw [ih]
    by_cases h1 : e ∈ t
    · simp [h1]
    · by_cases h2 : e = x
      · subst h2; simp [h1]
      · simp [h1, h2]

theorem flush_fields {r r' : Resolver} {calls : List Call} (hf : r.flush = some (r', calls)) :
    r'.endpoints = r.endpoints ∧ r'.matched = r.matched ∧ r'.allPolicies = r.allPolicies ∧
    (r.inSync = true → r'.dirty = [] ∧ ∀ p, p ∈ r'.pending → (mget r.allPolicies p).isSome = false) ∧
    (r.inSync = false → r' = r ∧ calls = []) := by
  unfold Resolver.flush at hf
  by_cases hs : r.inSync = true
  · simp only [hs, Bool.not_true, Bool.false_eq_true, if_false] at hf
    split at hf
    · cases hf
    · simp only [Option.some.injEq, Prod.mk.injEq] at hf
      obtain ⟨rfl, _⟩ := hf
      refine ⟨rfl, rfl, rfl, fun _ => ⟨rfl, ?_⟩, fun x => by rw [hs] at x; cases x⟩
      intro p hp
      simp only [List.mem_filter] at hp
      simpa using hp.2
  · have hs' : r.inSync = false := by simpa using hs
    simp only [hs', Bool.not_false, if_true, Option.some.injEq, Prod.mk.injEq] at hf
    obtain ⟨rfl, rfl⟩ := hf
    refine ⟨rfl, rfl, rfl, ?_, ?_⟩
    · intro x; rw [hs'] at x; cases x
    · intro _; exact ⟨rfl, rfl⟩

theorem DInv.flush {K : PolicyKey → Prop} (hK : KeyU K) {r r' : Resolver} {L : Last} {ds : TierDS} {calls : List Call}
    (h : DInv K r L ds) (hf : r.flush = some (r', calls)) : DInv K r' (lastAfter L calls) ds := by
  obtain ⟨f1, f2, f3, f4, f5⟩ := flush_fields hf
  by_cases hs : r.inSync = true
  · obtain ⟨hd, hpend⟩ := f4 hs
    obtain ⟨g, hcalls, hg⟩ := flush_isSpec hK h.full h.ta hs hf
    refine ⟨h.full.flush hK hf, h.ta.flush h.full.rinv.sinv hf, ?_, ?_⟩
    · intro p hp hk
      rw [f3, hpend p hp] at hk; cases hk
    · intro e _
      by_cases hed : e ∈ r.dirty
      · have hL : lastAfter L calls e = some (g e) := by rw [hcalls, lastAfter_map]; simp [hed]
        unfold UpToDate
        rw [f1, f2, f3, hL]
        have := hg e
        cases hx : mget r.endpoints e with
        | none => rw [hx] at this; simp only at this; rw [this]; exact Or.inr rfl
        | some ep =>
          rw [hx] at this
          obtain ⟨l, h1, h2⟩ := this
          exact ⟨l, by rw [h1], h2⟩
      · have hL : lastAfter L calls e = L e := by rw [hcalls, lastAfter_map]; simp [hed]
        have := h.good e hed
        unfold UpToDate at this ⊢
        rw [f1, f2, f3, hL]; exact this
  · have hs' : r.inSync = false := by simpa using hs
    obtain ⟨rfl, rfl⟩ := f5 hs'
    exact h

/-- history run that also tracks the last emitted update per endpoint -/
def runL (r : Resolver) (L : Last) : List RStep → Option (Resolver × Last)
  | [] => some (r, L)
  | .ev e :: t => runL (r.step e) L t
  | .flush :: t => match r.flush with
    | none => none
    | some (r', calls) => runL r' (lastAfter L calls) t

theorem runL_inv {K : PolicyKey → Prop} (hK : KeyU K) {r : Resolver} {L : Last} {ds : TierDS} (h : DInv K r L ds)
    (hist : List RStep) (hin : HistIn K hist) :
    ∃ r' L', runL r L hist = some (r', L') ∧ DInv K r' L' (dsHist ds hist) := by
  induction hist generalizing r L ds with
  | nil => exact ⟨r, L, rfl, h⟩
  | cons st t ih =>
    cases st with
    | ev e => simpa [runL, dsHist] using ih (h.step hK e hin.1) hin.2
    | flush =>
      obtain ⟨r1, calls, e1, _, _, _⟩ := flush_spec h.full.rinv.sinv
      obtain ⟨r2, L2, e2, h2⟩ := ih (h.flush hK e1) hin
      exact ⟨r2, L2, by simp [runL, e1, e2], h2⟩

theorem flush_inSync {r r' : Resolver} {calls : List Call} (hf : r.flush = some (r', calls)) : r'.inSync = r.inSync := by
  unfold Resolver.flush at hf
  by_cases hs : r.inSync = true
  · simp only [hs, Bool.not_true, Bool.false_eq_true, if_false] at hf
    split at hf
    · cases hf
    · simp only [Option.some.injEq, Prod.mk.injEq] at hf
      obtain ⟨rfl, _⟩ := hf; exact hs.symm
  · have hs' : r.inSync = false := by simpa using hs
    simp only [hs', Bool.not_false, if_true, Option.some.injEq, Prod.mk.injEq] at hf
    obtain ⟨rfl, _⟩ := hf; rfl

theorem runL_append_flush {r : Resolver} {L : Last} (hist : List RStep) {r1 : Resolver} {L1 : Last}
    (h : runL r L (hist ++ [.flush]) = some (r1, L1)) :
    ∃ r0 L0 calls, runL r L hist = some (r0, L0) ∧ r0.flush = some (r1, calls) ∧ L1 = lastAfter L0 calls := by
  induction hist generalizing r L with
  | nil =>
    simp only [List.nil_append, runL] at h
    cases hf : r.flush with
    | none => simp [hf] at h
    | some x =>
      obtain ⟨r', calls⟩ := x
      simp only [hf, runL, Option.some.injEq, Prod.mk.injEq] at h
      obtain ⟨rfl, rfl⟩ := h
      exact ⟨r, L, calls, rfl, hf, rfl⟩
  | cons st t ih =>
    cases st with
    | ev e => simp only [List.cons_append, runL] at h ⊢; exact ih h
    | flush =>
      simp only [List.cons_append, runL] at h ⊢
      cases hf : r.flush with
      | none => simp [hf] at h
      | some x =>
        obtain ⟨r', calls⟩ := x
        simp only [hf] at h ⊢
        exact ih h

theorem dsHist_append_flush (ds : TierDS) (hist : List RStep) : dsHist ds (hist ++ [.flush]) = dsHist ds hist := by
  induction hist generalizing ds with
  | nil => rfl
  | cons st t ih => cases st <;> simp [dsHist, ih]

/-! ### the in-sync latch: arbitrary status sequences -/

theorem step_inSync_false {r : Resolver} (ev : Event) (h : (r.step ev).inSync = false) : r.inSync = false := by
  cases ev with
  | endpoint k v => cases v <;> exact h
  | policy k v =>
    simp only [Resolver.step] at h
    rw [(applyPolicy_fields _ _ _).2.2.2.2.2] at h
    cases v <;> exact h
  | tier n v => exact h
  | status b =>
    simp only [Resolver.step] at h
    split at h
    · cases h
    · exact h
  | matchStarted p e => simp only [Resolver.step] at h; split at h <;> exact h
  | matchStopped p e => simp only [Resolver.step] at h; split at h <;> exact h

/-- while the resolver has never been in sync nothing has been emitted -/
theorem runL_notInSync {r : Resolver} {L : Last} (hq : r.inSync = false → ∀ e, L e = none) (hist : List RStep)
    {r' : Resolver} {L' : Last} (hr : runL r L hist = some (r', L')) : r'.inSync = false → ∀ e, L' e = none := by
  induction hist generalizing r L with
  | nil => simp only [runL, Option.some.injEq, Prod.mk.injEq] at hr; obtain ⟨rfl, rfl⟩ := hr; exact hq
  | cons st t ih =>
    cases st with
    | ev e => exact ih (fun h => hq (step_inSync_false e h)) hr
    | flush =>
      simp only [runL] at hr
      cases hf : r.flush with
      | none => simp [hf] at hr
      | some x =>
        obtain ⟨r1, calls⟩ := x
        simp only [hf] at hr
        refine ih ?_ hr
        intro h1
        have h0 : r.inSync = false := by rw [← flush_inSync hf]; exact h1
        obtain ⟨rfl, rfl⟩ := (flush_fields hf).2.2.2.2 h0
        simpa [lastAfter] using hq h0

/-- The latch: for ALL histories, with status changes in ANY order (regressions after in-sync
included), after a flush the last update of every endpoint lists only policies that currently match
that endpoint — so a policy the ActiveRulesCalculator has just declared inactive (no match left) is
referenced by no endpoint update downstream. -/
theorem last_update_refs_live {K : PolicyKey → Prop} (hK : KeyU K) (hist : List RStep) (hin : HistIn K hist)
    {r : Resolver} {L : Last} (hr : runL {} (fun _ => none) (hist ++ [.flush]) = some (r, L))
    (e : EpKey) (u : EpUpd) (hu : L e = some (some u)) :
    ∀ t ∈ u.tiers, ∀ kv ∈ t.policies, (kv.key, e) ∈ r.matched := by
  cases hs : r.inSync with
  | false =>
    have := runL_notInSync (r := {}) (L := fun _ => none) (fun _ _ => rfl) _ hr hs e
    rw [this] at hu; cases hu
  | true =>
    obtain ⟨r0, L0, calls, h0, hf, rfl⟩ := runL_append_flush hist hr
    obtain ⟨r0', L0', h0', hinv⟩ := runL_inv hK (DInv.init K) hist hin
    rw [h0] at h0'; simp only [Option.some.injEq, Prod.mk.injEq] at h0'
    obtain ⟨rfl, rfl⟩ := h0'
    have hinv' := hinv.flush hK hf
    have hs0 : r0.inSync = true := by rw [← flush_inSync hf]; exact hs
    have hd : r.dirty = [] := ((flush_fields hf).2.2.2.1 hs0).1
    have hg := hinv'.good e (by rw [hd]; simp)
    unfold UpToDate at hg
    cases hep : mget r.endpoints e with
    | none => rw [hep] at hg; rcases hg with x | x <;> (rw [x] at hu; cases hu)
    | some ep =>
      rw [hep] at hg
      obtain ⟨l, h1, h2⟩ := hg
      rw [h1] at hu
      simp only [Option.some.injEq] at hu
      subst hu
      intro t ht kv hkv
      have hin := h2.inTier t ht kv hkv
      exact ((h2.exact kv.key kv.val).1 ⟨t, ht, hin.symm, by cases kv; exact hkv⟩).1

/-! ### the datastore tables as folds of the history (independent of the resolver's fields) -/

/-- policy metadata table after a history: last policy update per key, deletions removed -/
def polHistory (ps : List (PolicyKey × PolMeta)) : List RStep → List (PolicyKey × PolMeta)
  | [] => ps
  | .ev (.policy k (some p)) :: t => polHistory (mset k (extractPolicyMetadata p) ps) t
  | .ev (.policy k none) :: t => polHistory (mdel k ps) t
  | _ :: t => polHistory ps t

/-- match relation after a history: match-started calls not yet followed by the match-stopped call -/
def matchedHistory (m : List (PolicyKey × EpKey)) : List RStep → List (PolicyKey × EpKey)
  | [] => m
  | .ev (.matchStarted p e) :: t => matchedHistory (sadd (p, e) m) t
  | .ev (.matchStopped p e) :: t => matchedHistory (sdel (p, e) m) t
  | _ :: t => matchedHistory m t

/-- local endpoint table after a history -/
def epHistory (es : List (EpKey × EpData)) : List RStep → List (EpKey × EpData)
  | [] => es
  | .ev (.endpoint k (some v)) :: t => epHistory (mset k v es) t
  | .ev (.endpoint k none) :: t => epHistory (mdel k es) t
  | _ :: t => epHistory es t

theorem step_tables (r : Resolver) (ev : Event) :
    (r.step ev).allPolicies = polHistory r.allPolicies [.ev ev] ∧
    (r.step ev).matched = matchedHistory r.matched [.ev ev] ∧
    (r.step ev).endpoints = epHistory r.endpoints [.ev ev] := by
  cases ev with
  | endpoint k v => cases v <;> exact ⟨rfl, rfl, rfl⟩
  | policy k v =>
    simp only [Resolver.step]
    obtain ⟨_, f2, f3, _, f5, _⟩ := applyPolicy_fields (r.recordPolicy k v) k (v.map extractPolicyMetadata)
    rw [f2, f3, f5]
    cases v <;> exact ⟨rfl, rfl, rfl⟩
  | tier n v => exact ⟨rfl, rfl, rfl⟩
  | status b => simp only [Resolver.step]; split <;> exact ⟨rfl, rfl, rfl⟩
  | matchStarted p e => simp only [Resolver.step]; split <;> exact ⟨rfl, rfl, rfl⟩
  | matchStopped p e => simp only [Resolver.step]; split <;> exact ⟨rfl, rfl, rfl⟩

/-- The resolver's policy table, match relation and endpoint table ARE the folds of the history (no
update is dropped or invented), whatever flushes happen in between. -/
theorem runL_tables {r : Resolver} {L : Last} (hist : List RStep) {r' : Resolver} {L' : Last}
    (hr : runL r L hist = some (r', L')) :
    r'.allPolicies = polHistory r.allPolicies hist ∧ r'.matched = matchedHistory r.matched hist ∧
    r'.endpoints = epHistory r.endpoints hist := by
  induction hist generalizing r L with
  | nil => simp only [runL, Option.some.injEq, Prod.mk.injEq] at hr; obtain ⟨rfl, _⟩ := hr; exact ⟨rfl, rfl, rfl⟩
  | cons st t ih =>
    cases st with
    | ev e =>
      obtain ⟨a, b, c⟩ := ih (r := r.step e) hr
      obtain ⟨a1, b1, c1⟩ := step_tables r e
      rw [a, b, c, a1, b1, c1]
      cases e with
      | endpoint k v => cases v <;> exact ⟨rfl, rfl, rfl⟩
      | policy k v => cases v <;> exact ⟨rfl, rfl, rfl⟩
      | tier n v => exact ⟨rfl, rfl, rfl⟩
      | status b => exact ⟨rfl, rfl, rfl⟩
      | matchStarted p e => exact ⟨rfl, rfl, rfl⟩
      | matchStopped p e => exact ⟨rfl, rfl, rfl⟩
    | flush =>
      simp only [runL] at hr
      cases hf : r.flush with
      | none => simp [hf] at hr
      | some x =>
        obtain ⟨r1, calls⟩ := x
        simp only [hf] at hr
        obtain ⟨a, b, c⟩ := ih hr
        obtain ⟨f1, f2, f3, _, _⟩ := flush_fields hf
        rw [a, b, c, f1, f2, f3]
        exact ⟨rfl, rfl, rfl⟩

theorem tables_append_flush (hist : List RStep) :
    (∀ ps, polHistory ps (hist ++ [.flush]) = polHistory ps hist) ∧
    (∀ m, matchedHistory m (hist ++ [.flush]) = matchedHistory m hist) ∧
    (∀ es, epHistory es (hist ++ [.flush]) = epHistory es hist) := by
  induction hist with
  | nil => exact ⟨fun _ => rfl, fun _ => rfl, fun _ => rfl⟩
  | cons st t ih =>
    obtain ⟨a, b, c⟩ := ih
    cases st with
    | flush => exact ⟨fun ps => a ps, fun m => b m, fun es => c es⟩
    | ev e =>
      cases e with
      | endpoint k v => cases v <;> exact ⟨fun ps => a ps, fun m => b m, fun es => c _⟩
      | policy k v => cases v <;> exact ⟨fun ps => a _, fun m => b m, fun es => c es⟩
      | tier n v => exact ⟨fun ps => a ps, fun m => b m, fun es => c es⟩
      | status x => exact ⟨fun ps => a ps, fun m => b m, fun es => c es⟩
      | matchStarted p e => exact ⟨fun ps => a ps, fun m => b _, fun es => c es⟩
      | matchStopped p e => exact ⟨fun ps => a ps, fun m => b _, fun es => c es⟩

/-! ### `IsSpec` determines the list -/

theorem sorted_ext {α : Type} {less : α → α → Bool} (hs : SWO less) {l₁ l₂ : List α}
    (h1 : Sorted less l₁) (h2 : Sorted less l₂) (hm : ∀ x, x ∈ l₁ ↔ x ∈ l₂) : l₁ = l₂ := by
  induction l₁ generalizing l₂ with
  | nil =>
    cases l₂ with
    | nil => rfl
    | cons b t => exact absurd ((hm b).2 (by simp)) (by simp)
  | cons a t ih =>
    cases l₂ with
    | nil => exact absurd ((hm a).1 (by simp)) (by simp)
    | cons b t' =>
      simp only [Sorted, List.pairwise_cons] at h1 h2
      have hab : a = b := by
        by_cases hab : a = b
        · exact hab
        · exfalso
          have ha : a ∈ t' := by
            have := (hm a).1 (by simp)
            simp only [List.mem_cons] at this
            rcases this with x | x
            · exact absurd x hab
            · exact x
          have hb : b ∈ t := by
            have := (hm b).2 (by simp)
            simp only [List.mem_cons] at this
            rcases this with x | x
            · exact absurd x.symm hab
            · exact x
          have := hs.trans _ _ _ (h1.1 b hb) (h2.1 a ha)
          rw [hs.irrefl] at this; cases this
      subst hab
      congr 1
      apply ih h1.2 h2.2
      intro x
      constructor
      · intro hx
        have := (hm x).1 (by simp [hx])
        simp only [List.mem_cons] at this
        rcases this with rfl | y
        · have := h1.1 x hx; rw [hs.irrefl] at this; cases this
        · exact y
      · intro hx
        have := (hm x).2 (by simp [hx])
        simp only [List.mem_cons] at this
        rcases this with rfl | y
        · have := h2.1 x hx; rw [hs.irrefl] at this; cases this
        · exact y

theorem pairwise_mem_rel {α : Type} {R : α → α → Prop} {l : List α} (h : l.Pairwise R) {a b : α}
    (ha : a ∈ l) (hb : b ∈ l) (hne : a ≠ b) : R a b ∨ R b a := by
  induction l with
  | nil => cases ha
  | cons x t ih =>
    simp only [List.pairwise_cons] at h
    simp only [List.mem_cons] at ha hb
    rcases ha with rfl | ha <;> rcases hb with rfl | hb
    · exact absurd rfl hne
    · exact Or.inl (h.1 b hb)
    · exact Or.inr (h.1 a ha)
    · exact ih h.2 ha hb

/-- Two lists satisfying `IsSpec` for the same datastore state and endpoint are equal: `IsSpec` is a
complete from-scratch description of the endpoint's policy list. -/
theorem isSpec_unique {ds all matched e} {l₁ l₂ : List TierInfo} (h1 : IsSpec ds all matched e l₁)
    (h2 : IsSpec ds all matched e l₂) : l₁ = l₂ := by
  -- same name ⇒ same element, inside one spec list
  have sameName : ∀ {l}, IsSpec ds all matched e l → ∀ a ∈ l, ∀ b ∈ l, a.name = b.name → a = b := by
    intro l h a ha b hb hn
    by_cases hab : a = b
    · exact hab
    · exfalso
      have hk : dkey ds a = dkey ds b := by
        have aa := h.attrs a ha
        have ab := h.attrs b hb
        rw [hn] at aa
        simp only [dkey, hn]
        cases hx : mget ds b.name with
        | none => rw [hx] at aa ab; rw [aa.1, ab.1]
        | some oa => obtain ⟨o, a'⟩ := oa; rw [hx] at aa ab; simp only at aa ab; rw [aa.1, ab.1]
      rcases pairwise_mem_rel h.tiersSorted ha hb hab with x | x
      · rw [hk, swo_tierLess.irrefl] at x; cases x
      · rw [hk, swo_tierLess.irrefl] at x; cases x
  -- membership transfers from one spec list to the other
  have transfer : ∀ {la lb}, IsSpec ds all matched e la → IsSpec ds all matched e lb → ∀ t ∈ la, t ∈ lb := by
    intro la lb ha hb t ht
    -- the tier of lb with the same name
    have hne := ha.nonEmpty t ht
    cases hp : t.policies with
    | nil => exact absurd hp hne
    | cons kv0 rest =>
      have hkv0 : kv0 ∈ t.policies := by rw [hp]; simp
      have key : ∀ kv ∈ t.policies, ∃ t₂ ∈ lb, t₂.name = t.name ∧ kv ∈ t₂.policies := by
        intro kv hkv
        have hin := ha.inTier t ht kv hkv
        have := (ha.exact kv.key kv.val).1 ⟨t, ht, hin.symm, by cases kv; exact hkv⟩
        obtain ⟨t₂, ht₂, hn₂, hk₂⟩ := (hb.exact kv.key kv.val).2 this
        exact ⟨t₂, ht₂, hn₂.trans hin, by cases kv; exact hk₂⟩
      obtain ⟨t₂, ht₂, hn₂, _⟩ := key kv0 hkv0
      have hpol : t.policies = t₂.policies := by
        apply sorted_ext swo_polKVLess (ha.polSorted t ht) (hb.polSorted t₂ ht₂)
        intro kv
        constructor
        · intro hkv
          obtain ⟨t₃, ht₃, hn₃, hk₃⟩ := key kv hkv
          have := sameName hb t₃ ht₃ t₂ ht₂ (hn₃.trans hn₂.symm)
          rw [← this]; exact hk₃
        · intro hkv
          have hin := hb.inTier t₂ ht₂ kv hkv
          have := (hb.exact kv.key kv.val).1 ⟨t₂, ht₂, hin.symm, by cases kv; exact hkv⟩
          obtain ⟨t₃, ht₃, hn₃, hk₃⟩ := (ha.exact kv.key kv.val).2 this
          have := sameName ha t₃ ht₃ t ht (hn₃.trans (hin.trans hn₂))
          rw [← this]; cases kv; exact hk₃
      have heq : t = t₂ := by
        have a1 := ha.attrs t ht
        have a2 := hb.attrs t₂ ht₂
        rw [hn₂] at a2
        have v1 := ha.valid t ht
        have v2 := hb.valid t₂ ht₂
        cases t; cases t₂
        simp only at hn₂ hpol a1 a2 v1 v2
        simp only [TierInfo.mk.injEq]
        subst hn₂; subst hpol
        cases hx : mget ds _ with
        | none => rw [hx] at a1 a2; simp only at a1 a2; exact ⟨rfl, by rw [a1.1, a2.1], by rw [a1.2, a2.2], by rw [v1, v2], rfl⟩
        | some oa =>
          obtain ⟨o, a'⟩ := oa
          rw [hx] at a1 a2; simp only at a1 a2
          exact ⟨rfl, by rw [a1.1, a2.1], by rw [a1.2, a2.2], by rw [v1, v2], rfl⟩
      rw [heq]; exact ht₂
  -- both lists are sorted under the pulled-back comparator and have the same members
  have hswo : SWO (fun a b : TierInfo => tierLess (dkey ds a) (dkey ds b)) :=
    ⟨fun a => swo_tierLess.irrefl _, fun a b c => swo_tierLess.trans _ _ _, fun a b c => swo_tierLess.negTrans _ _ _⟩
  exact sorted_ext hswo h1.tiersSorted h2.tiersSorted (fun t => ⟨transfer h1 h2 t, transfer h2 h1 t⟩)

end CalicoVerif.C03
