import CalicoVerif.Proofs.C15b
set_option linter.unusedSimpArgs false
namespace CalicoVerif.C15

/-- Hash soundness for one chain: a kernel rule that carries the hash of the desired rule at its position
is that rule (rule hashes are collision-free tags; the chained hash covers the chain name, the position
and all earlier rules). -/
def Sound : List KRule → List DRule → Prop
  | l :: L, r :: rs => (l.hash = r.hash → l = r.k) ∧ Sound L rs
  | _, _ => True

theorem krestore_append (a b : List RLine) (K : Kernel) :
    krestore K (a ++ b) = (krestore K a).bind (fun K' => krestore K' b) := by
  induction a generalizing K with
  | nil => rfl
  | cons l a ih =>
    simp only [List.cons_append, krestore]
    cases kline K l with
    | none => rfl
    | some K' => simp only [Option.bind_some]; exact ih K'

/-- Deleting the tail: `ps.length` deletions at the fixed index `curLen + 1`. -/
theorem diff_delTail (c : String) : ∀ (ps : List String) (L done : List KRule) (K : Kernel) (i : Nat),
    L.length = ps.length → K.get c = some (done ++ L) →
    ∃ K', krestore K (diffLines c done.length i ps []) = some K' ∧ K'.get c = some done ∧
      ∀ x, x ≠ c → K'.get x = K.get x := by
  intro ps
  induction ps with
  | nil =>
    intro L done K i hl hk
    have : L = [] := by cases L with | nil => rfl | cons _ _ => simp at hl
    subst this
    exact ⟨K, by simp [diffLines, krestore], by simpa using hk, fun _ _ => rfl⟩
  | cons p ps ih =>
    intro L done K i hl hk
    cases L with
    | nil => simp at hl
    | cons l L =>
      simp only [List.length_cons, Nat.add_right_cancel_iff] at hl
      simp only [diffLines, krestore, kline, hk]
      have hlen : 1 ≤ done.length + 1 ∧ done.length + 1 ≤ (done ++ l :: L).length := by
        simp only [List.length_append, List.length_cons]; omega
      simp only [hlen, and_self, if_true, Option.bind_some, Nat.add_sub_cancel]
      have herase : (done ++ l :: L).eraseIdx done.length = done ++ L := by
        rw [List.eraseIdx_append_of_length_le (Nat.le_refl _)]; simp
      rw [herase]
      obtain ⟨K', h1, h2, h3⟩ := ih L done (K.set c (done ++ L)) (i + 1) hl (by simp [Map.get_set])
      refine ⟨K', h1, h2, ?_⟩
      intro x hx
      rw [h3 x hx, Map.get_set]; simp [hx]

/-- Appending the tail. -/
theorem diff_appTail (c : String) (n : Nat) : ∀ (rs : List DRule) (done : List KRule) (K : Kernel) (i : Nat),
    K.get c = some done →
    ∃ K', krestore K (diffLines c n i [] rs) = some K' ∧ K'.get c = some (done ++ rs.map DRule.k) ∧
      ∀ x, x ≠ c → K'.get x = K.get x := by
  intro rs
  induction rs with
  | nil => intro done K i hk; exact ⟨K, by simp [diffLines, krestore], by simpa using hk, fun _ _ => rfl⟩
  | cons r rs ih =>
    intro done K i hk
    simp only [diffLines, krestore, kline, hk, Option.map_some, Option.bind_some]
    obtain ⟨K', h1, h2, h3⟩ := ih (done ++ [r.k]) (K.set c (done ++ [r.k])) (i + 1) (by simp [Map.get_set])
    refine ⟨K', h1, by simpa [List.append_assoc] using h2, ?_⟩
    intro x hx
    rw [h3 x hx, Map.get_set]; simp [hx]

/-- **The diff lemma**: the per-position replace/delete/append lines turn a chain whose hashes are `ps`
into exactly the desired rules, in order (given hash soundness), and touch no other chain. -/
theorem diff_converges (c : String) : ∀ (ps : List String) (rs : List DRule) (L done : List KRule) (K : Kernel),
    L.map KRule.hash = ps → Sound L rs → K.get c = some (done ++ L) →
    ∃ K', krestore K (diffLines c (done.length + rs.length) done.length ps rs) = some K' ∧
      K'.get c = some (done ++ rs.map DRule.k) ∧ ∀ x, x ≠ c → K'.get x = K.get x := by
  intro ps
  induction ps with
  | nil =>
    intro rs L done K hm _ hk
    have : L = [] := by cases L with | nil => rfl | cons _ _ => simp at hm
    subst this
    exact diff_appTail c _ rs done K _ (by simpa using hk)
  | cons p ps ih =>
    intro rs L done K hm hs hk
    cases L with
    | nil => simp at hm
    | cons l L =>
      simp only [List.map_cons, List.cons.injEq] at hm
      obtain ⟨hlp, hm⟩ := hm
      cases rs with
      | nil =>
        have := diff_delTail c (p :: ps) (l :: L) done K done.length (by simp [← hm]) hk
        simpa using this
      | cons r rs =>
        simp only [Sound] at hs
        obtain ⟨hs1, hs2⟩ := hs
        simp only [diffLines]
        have hlen : (done ++ [r.k]).length = done.length + 1 := by simp
        have hcount : done.length + (r :: rs).length = (done ++ [r.k]).length + rs.length := by
          simp only [List.length_cons, hlen]; omega
        by_cases hpr : (p == r.hash) = true
        · -- same hash: the rule stays, and by soundness it is the desired rule
          simp only [hpr, if_true]
          have hl : l = r.k := hs1 (by rw [hlp]; simpa using hpr)
          have hk' : K.get c = some ((done ++ [r.k]) ++ L) := by rw [hk, hl]; simp
          obtain ⟨K', h1, h2, h3⟩ := ih rs L (done ++ [r.k]) K hm hs2 hk'
          rw [hcount, ← hlen]
          exact ⟨K', h1, by simpa [List.append_assoc] using h2, h3⟩
        · have hpr' : (p == r.hash) = false := by simpa using hpr
          simp only [hpr', Bool.false_eq_true, if_false, krestore, kline, hk]
          have hb : 1 ≤ done.length + 1 ∧ done.length + 1 ≤ (done ++ l :: L).length := by
            simp only [List.length_append, List.length_cons]; omega
          simp only [hb, and_self, if_true, Option.bind_some, Nat.add_sub_cancel]
          have hset : (done ++ l :: L).set done.length r.k = (done ++ [r.k]) ++ L := by
            rw [List.set_append_right _ _ (Nat.le_refl _)]; simp
          rw [hset]
          obtain ⟨K', h1, h2, h3⟩ := ih rs L (done ++ [r.k]) (K.set c ((done ++ [r.k]) ++ L)) hm hs2 (by simp [Map.get_set])
          rw [hcount, ← hlen]
          refine ⟨K', h1, by simpa [List.append_assoc] using h2, ?_⟩
          intro x hx
          rw [h3 x hx, Map.get_set]; simp [hx]

end CalicoVerif.C15
