import CalicoVerif.Proofs.C11Step2
import CalicoVerif.Proofs.C11Comp
/-!
C11 — the match fragments of `writeRule` are guards for the corresponding
clauses of the reference `ruleMatch` (IPv4 programs).
-/
namespace CalicoVerif.C11

theorem getBytes_full {st : List Byte} (hlen : st.length = 512) (k n : Nat) (h : k + n ≤ 512) :
    getBytes st k n = some ((st.drop k).take n) := by
  unfold getBytes; rw [if_pos (by omega)]

theorem leNat_lt (bs : List Byte) : leNat bs < 256 ^ bs.length := by
  induction bs with
  | nil => simp [leNat]
  | cons b bs ih =>
    simp only [leNat, List.length_cons, Nat.pow_succ]
    have := b.isLt
    omega

theorem fieldN_lt (st : List Byte) (k n : Nat) : fieldN st k n < 256 ^ n := by
  unfold fieldN
  have h1 := leNat_lt ((st.drop k).take n)
  have h2 : ((st.drop k).take n).length ≤ n := by simp [List.length_take]; omega
  exact Nat.lt_of_lt_of_le h1 (Nat.pow_le_pow_right (by omega) h2)

/-- Generic fragment: load a state field into R1, then a conditional 64-bit jump
against an immediate to `L`.  Falls through iff the condition is false. -/
theorem guard_load_jcond64 (env : Env) (st : List Byte) (L : Label) (hlen : st.length = 512)
    (ldop n k jop : Nat) (imm : Int) (c : Bool)
    (hld : (ldop = opLoadReg8 ∧ n = 1) ∨ (ldop = opLoadReg16 ∧ n = 2) ∨ (ldop = opLoadReg32 ∧ n = 4) ∨
      (ldop = opLoadReg64 ∧ n = 8))
    (hk : k + n ≤ 512)
    (hj : jop = opJumpEqImm64 ∨ jop = opJumpNEImm64 ∨ jop = opJumpGEImm64 ∨ jop = opJumpLTImm64 ∨ jop = opJumpLEImm64)
    (hc : cond (jop / 16) (BitVec.ofNat 64 (fieldN st k n)) (sext32 imm) = some c) :
    Guard env st L [.ins ⟨ldop, 1, 9, (k : Int), 0⟩, .jmp ⟨jop, 1, 0, 0, imm⟩ L] (!c) := by
  intro rest m hI
  have h1 := step_ldx_state (env := env) hI ldop 1 k n 0 (nextIns (Ev.jmp ⟨jop, 1, 0, 0, imm⟩ L :: rest))
    ((st.drop k).take n) hld (by omega) hk (getBytes_full hlen k n hk)
  have hI1 : Inv st (m.setReg 1 (BitVec.ofNat 64 (leNat ((st.drop k).take n)))) :=
    hI.setReg 1 _ (by omega) (by omega) (by omega)
  refine ⟨_, hI1, ?_⟩
  simp only [List.cons_append, List.nil_append]
  rw [lrun_ins_next h1]
  have hr : (m.setReg 1 (BitVec.ofNat 64 (leNat ((st.drop k).take n)))).reg 1 =
      some (BitVec.ofNat 64 (fieldN st k n)) := reg_setReg_eq (by rw [hI.regsLen]; omega)
  have h2 := step_jcond64 (env := env) jop 1 0 imm none _ hj hr
  rw [hc] at h2
  have hjo : (⟨jop, 1, 0, 0, imm⟩ : Insn).isJumpOp = true := by
    rcases hj with rfl | rfl | rfl | rfl | rfl <;>
      simp [Insn.isJumpOp, opJumpEqImm64, opJumpNEImm64, opJumpGEImm64, opJumpLTImm64, opJumpLEImm64]
  cases c with
  | true => simp only [Bool.not_true, Bool.false_eq_true, if_false]; exact lrun_jmp_taken hjo h2
  | false => simp only [Bool.not_false, if_true]; exact lrun_jmp_next hjo h2

end CalicoVerif.C11
