import CalicoVerif.Proofs.C11Step2
import CalicoVerif.Proofs.C11Comp
/-!
C11 — the match fragments of `writeRule` are guards for the corresponding
clauses of the reference `ruleMatch` (IPv4 programs).
-/
namespace CalicoVerif.C11

theorem getBytes_full {st : List Byte} (hlen : st.length = 512) (k n : Nat) (h : k + n ≤ 512) :
    getBytes st k n = some ((st.drop k).take n) := by
  unfold getBytes; rw [if_pos (by omega)]

theorem leNat_lt (bs : List Byte) : leNat bs < 256 ^ bs.length := by
  induction bs with
  | nil => simp [leNat]
  | cons b bs ih =>
    simp only [leNat, List.length_cons, Nat.pow_succ]
    have := b.isLt
    omega

theorem fieldN_lt (st : List Byte) (k n : Nat) : fieldN st k n < 256 ^ n := by
  unfold fieldN
  have h1 := leNat_lt ((st.drop k).take n)
  have h2 : ((st.drop k).take n).length ≤ n := by simp [List.length_take]; omega
  exact Nat.lt_of_lt_of_le h1 (Nat.pow_le_pow_right (by omega) h2)

/-- Generic fragment: load a state field into R1, then a conditional 64-bit jump
against an immediate to `L`.  Falls through iff the condition is false. -/
theorem guard_load_jcond64 (env : Env) (st : List Byte) (L : Label) (hlen : st.length = 512)
    (ldop n k jop : Nat) (imm : Int) (c : Bool)
    (hld : (ldop = opLoadReg8 ∧ n = 1) ∨ (ldop = opLoadReg16 ∧ n = 2) ∨ (ldop = opLoadReg32 ∧ n = 4) ∨
      (ldop = opLoadReg64 ∧ n = 8))
    (hk : k + n ≤ 512) (hstab : ∀ j, k ≤ j → j < k + n → Stable j)
    (hj : jop = opJumpEqImm64 ∨ jop = opJumpNEImm64 ∨ jop = opJumpGEImm64 ∨ jop = opJumpLTImm64 ∨ jop = opJumpLEImm64)
    (hc : cond (jop / 16) (BitVec.ofNat 64 (fieldN st k n)) (sext32 imm) = some c) :
    Guard env st L [.ins ⟨ldop, 1, 9, (k : Int), 0⟩, .jmp ⟨jop, 1, 0, 0, imm⟩ L] (!c) := by
  intro rest m hI
  have h1 := step_ldx_state (env := env) hI ldop 1 k n 0 (nextIns (Ev.jmp ⟨jop, 1, 0, 0, imm⟩ L :: rest))
    ((st.drop k).take n) hld (by omega) hk (getBytes_full hlen k n hk) hstab
  have hI1 : Inv st (m.setReg 1 (BitVec.ofNat 64 (leNat ((st.drop k).take n)))) :=
    hI.setReg 1 _ (by omega) (by omega) (by omega)
  refine ⟨_, hI1, ?_⟩
  simp only [List.cons_append, List.nil_append]
  rw [lrun_ins_next h1]
  have hr : (m.setReg 1 (BitVec.ofNat 64 (leNat ((st.drop k).take n)))).reg 1 =
      some (BitVec.ofNat 64 (fieldN st k n)) := reg_setReg_eq (by rw [hI.regsLen]; omega)
  have h2 := step_jcond64 (env := env) jop 1 0 imm none _ hj hr
  rw [hc] at h2
  have hjo : (⟨jop, 1, 0, 0, imm⟩ : Insn).isJumpOp = true := by
    rcases hj with rfl | rfl | rfl | rfl | rfl <;>
      simp [Insn.isJumpOp, opJumpEqImm64, opJumpNEImm64, opJumpGEImm64, opJumpLTImm64, opJumpLEImm64]
  cases c with
  | true => simp only [Bool.not_true, Bool.false_eq_true, if_false]; exact lrun_jmp_taken hjo h2
  | false => simp only [Bool.not_false, if_true]; exact lrun_jmp_next hjo h2

theorem sext32_nat (k : Nat) : sext32 (k : Int) = BitVec.ofNat 64 k := by
  unfold sext32; exact BitVec.ofInt_natCast 64 k

theorem ofNat64_eq_iff {x k : Nat} (hx : x < 2 ^ 64) (hk : k < 2 ^ 64) :
    (BitVec.ofNat 64 x = BitVec.ofNat 64 k) ↔ x = k := by
  constructor
  · intro h
    have := congrArg BitVec.toNat h
    simp only [BitVec.toNat_ofNat] at this
    omega
  · intro h; rw [h]

theorem cond_eq_nat {x k : Nat} (hx : x < 2 ^ 64) (hk : k < 2 ^ 64) :
    cond 1 (BitVec.ofNat 64 x) (sext32 (k : Int)) = some (x == k) := by
  rw [sext32_nat]
  simp only [cond]
  by_cases h : x = k
  · subst h; simp
  · have hne : ¬ (BitVec.ofNat 64 x = BitVec.ofNat 64 k) :=
      (fun e => h ((ofNat64_eq_iff hx hk).1 e))
    have hb : (BitVec.ofNat 64 x == BitVec.ofNat 64 k) = false := by simpa using hne
    have hb2 : (x == k) = false := by simpa using h
    simp [bne, hb, hb2]

theorem cond_ne_nat {x k : Nat} (hx : x < 2 ^ 64) (hk : k < 2 ^ 64) :
    cond 5 (BitVec.ofNat 64 x) (sext32 (k : Int)) = some (x != k) := by
  rw [sext32_nat]
  simp only [cond]
  by_cases h : x = k
  · subst h; simp
  · have hne : ¬ (BitVec.ofNat 64 x = BitVec.ofNat 64 k) :=
      (fun e => h ((ofNat64_eq_iff hx hk).1 e))
    have hb : (BitVec.ofNat 64 x == BitVec.ofNat 64 k) = false := by simpa using hne
    have hb2 : (x == k) = false := by simpa using h
    simp [bne, hb, hb2]

/-- Equality / inequality test of a loaded field against a small constant. -/
theorem guard_field_eq (env : Env) (st : List Byte) (L : Label) (hlen : st.length = 512)
    (ldop n k : Nat) (v : Nat) (neg : Bool)
    (hld : (ldop = opLoadReg8 ∧ n = 1) ∨ (ldop = opLoadReg16 ∧ n = 2))
    (hk : k + n ≤ 512) (hstab : ∀ j, k ≤ j → j < k + n → Stable j) (hv : v < 2 ^ 64) :
    Guard env st L [.ins ⟨ldop, 1, 9, (k : Int), 0⟩,
      if neg then jumpEqImm64 R1 (v : Int) L else jumpNEImm64 R1 (v : Int) L]
      (if neg then !(fieldN st k n == v) else fieldN st k n == v) := by
  have hf : fieldN st k n < 2 ^ 64 := by
    have := fieldN_lt st k n
    rcases hld with ⟨_, rfl⟩ | ⟨_, rfl⟩ <;> omega
  have hld' : (ldop = opLoadReg8 ∧ n = 1) ∨ (ldop = opLoadReg16 ∧ n = 2) ∨ (ldop = opLoadReg32 ∧ n = 4) ∨
      (ldop = opLoadReg64 ∧ n = 8) := by
    rcases hld with h | h
    · exact Or.inl h
    · exact Or.inr (Or.inl h)
  cases neg with
  | true =>
    have := guard_load_jcond64 env st L hlen ldop n k opJumpEqImm64 (v : Int) (fieldN st k n == v) hld' hk hstab
      (Or.inl rfl) (by simpa [opJumpEqImm64] using cond_eq_nat hf hv)
    simpa [jumpEqImm64, mkJ, R1] using this
  | false =>
    have := guard_load_jcond64 env st L hlen ldop n k opJumpNEImm64 (v : Int) (fieldN st k n != v) hld' hk hstab
      (Or.inr (Or.inl rfl)) (by simpa [opJumpNEImm64] using cond_ne_nat hf hv)
    simpa [jumpNEImm64, mkJ, R1, bne] using this

/-! ### protocol -/

/-- The builder's `protocolToNumber` knows the protocol (not the case for the
names icmpv6 / udplite: known finding). -/
def ProtoOK (pr : Proto) : Prop :=
  ∃ k : Nat, k < 256 ∧ protoNumberRef pr = some k ∧ protocolToNumber pr = (k : Int)

/-- **The builder's protocol table agrees with the API names**: every protocol the reference knows
(tcp, udp, icmp, sctp, icmpv6, udplite, numbers 0..255) is compiled to its IANA number. -/
theorem protoOK_of_ref (pr : Proto) (k : Nat) (h : protoNumberRef pr = some k) : ProtoOK pr := by
  cases pr with
  | num n =>
    simp only [protoNumberRef] at h
    split at h
    · rename_i hn
      cases h
      exact ⟨n.toNat, by omega, by simp [protoNumberRef, hn], by simp only [protocolToNumber, toUint8]; omega⟩
    · cases h
  | name s =>
    refine ⟨k, ?_, h, ?_⟩
    · unfold protoNumberRef at h
      simp only at h
      generalize asciiLower s = l at h
      by_cases h1 : l = "tcp" <;> by_cases h2 : l = "udp" <;> by_cases h3 : l = "icmp" <;> by_cases h4 : l = "sctp" <;>
        by_cases h5 : l = "icmpv6" <;> by_cases h6 : l = "udplite" <;> simp_all <;> omega
    · unfold protoNumberRef at h
      unfold protocolToNumber
      simp only at h ⊢
      generalize asciiLower s = l at h ⊢
      by_cases h1 : l = "tcp" <;> by_cases h2 : l = "udp" <;> by_cases h3 : l = "icmp" <;> by_cases h4 : l = "sctp" <;>
        by_cases h5 : l = "icmpv6" <;> by_cases h6 : l = "udplite" <;> simp_all <;> omega

theorem pkt_proto_toNat (st : List Byte) : (pktOfD st).proto.toNat = fieldN st 104 1 := by
  have := fieldN_lt st 104 1
  simp only [pktOfD, BitVec.toNat_ofNat]
  omega

theorem guard_proto (env : Env) (st : List Byte) (rid : Nat) (neg : Bool) (pr : Proto)
    (hlen : st.length = 512) (hp : ProtoOK pr) :
    Guard env st (.ruleNoMatch rid) (protoMatch rid neg pr)
      (if neg then !(protoIs (pktOfD st) pr) else protoIs (pktOfD st) pr) := by
  obtain ⟨k, hk, h1, h2⟩ := hp
  have hb : protoIs (pktOfD st) pr = (fieldN st 104 1 == k) := by
    simp only [protoIs, h1, pkt_proto_toNat]
  have := guard_field_eq env st (.ruleNoMatch rid) hlen opLoadReg8 1 104 k neg (Or.inl ⟨rfl, rfl⟩)
    (by omega) (by intro j h1 h2; unfold Stable; omega) (by omega)
  rw [hb]
  unfold protoMatch
  rw [h2]
  exact this

/-! ### ICMP -/

theorem fieldN_succ (st : List Byte) (k n : Nat) (h : k < st.length) :
    fieldN st k (n + 1) = fieldN st k 1 + 256 * fieldN st (k + 1) n := by
  unfold fieldN
  rw [List.drop_eq_getElem_cons h]
  simp [leNat, List.take]

theorem pkt_icmpW_toNat (st : List Byte) : (pktOfD st).icmpW.toNat = fieldN st 98 2 := by
  have := fieldN_lt st 98 2
  simp only [pktOfD, BitVec.toNat_ofNat]
  omega

theorem guard_icmp (env : Env) (st : List Byte) (rid : Nat) (neg : Bool) (ic : Icmp) (hlen : st.length = 512) :
    Guard env st (.ruleNoMatch rid) (icmpMatch rid neg ic)
      (if neg then (ic == .none || !(icmpIs (pktOfD st) ic)) else icmpIs (pktOfD st) ic) := by
  have h98 : fieldN st 98 2 = fieldN st 98 1 + 256 * fieldN st 99 1 := fieldN_succ st 98 1 (by omega)
  have hlo := fieldN_lt st 98 1
  have hhi := fieldN_lt st 99 1
  cases ic with
  | none =>
    have : (if neg then ((Icmp.none == Icmp.none) || !(icmpIs (pktOfD st) .none)) else icmpIs (pktOfD st) .none) = true := by
      cases neg <;> simp [icmpIs]
    rw [this]
    exact Guard.nil env st _
  | type t =>
    have ht : (toUint8 t) = (((t % 256).toNat : Nat) : Int) := by
      unfold toUint8; omega
    have hb : icmpIs (pktOfD st) (.type t) = (fieldN st 98 1 == (t % 256).toNat) := by
      simp only [icmpIs, pkt_icmpW_toNat, h98]
      have : ((fieldN st 98 1 + 256 * fieldN st 99 1) % 256 : Nat) = fieldN st 98 1 := by omega
      rw [Bool.eq_iff_iff]
      simp only [beq_iff_eq]
      omega
    have := guard_field_eq env st (.ruleNoMatch rid) hlen opLoadReg8 1 98 (t % 256).toNat neg (Or.inl ⟨rfl, rfl⟩)
      (by omega) (by intro j h1 h2; unfold Stable; omega) (by omega)
    have hn : ((Icmp.type t == Icmp.none) = false) := by simp
    simp only [icmpMatch, icmpTypeMatch, hb, hn, Bool.false_or]
    rw [ht]
    exact this
  | typeCode t c =>
    have hv : (toUint8 c) * 256 + toUint8 t = ((((c % 256).toNat * 256 + (t % 256).toNat : Nat)) : Int) := by
      unfold toUint8; omega
    have hb : icmpIs (pktOfD st) (.typeCode t c) = (fieldN st 98 2 == (c % 256).toNat * 256 + (t % 256).toNat) := by
      simp only [icmpIs, pkt_icmpW_toNat, h98]
      rw [Bool.eq_iff_iff]
      simp only [Bool.and_eq_true, beq_iff_eq]
      omega
    have := guard_field_eq env st (.ruleNoMatch rid) hlen opLoadReg16 2 98 ((c % 256).toNat * 256 + (t % 256).toNat) neg
      (Or.inr ⟨rfl, rfl⟩) (by omega) (by intro j h1 h2; unfold Stable; omega) (by omega)
    have hn : ((Icmp.typeCode t c == Icmp.none) = false) := by simp
    simp only [icmpMatch, icmpTypeCodeMatch, hb, hn, Bool.false_or]
    rw [hv]
    exact this

end CalicoVerif.C11
