import CalicoVerif.Proofs.C31Hist
/-! C31 — every contract-respecting step preserves the whole-history invariant `Inv`. -/
namespace CalicoVerif.C31

theorem sameStores_refl (p : Proc) : SameStores p p := ⟨rfl, rfl, rfl, rfl, rfl, rfl⟩

theorem bound_nil {p p' : Proc} {evs : List Ev} (hb : Bound p evs) (hn : p.nextCh ≤ p'.nextCh) : Bound p' (evs ++ []) := by
  intro e he
  rw [List.append_nil] at he
  exact Nat.lt_of_lt_of_le (hb e he) hn

theorem isSome_get_set {α : Type} (m : AMap α) (k k' : Nat) (v : α) (h : (m.get k').isSome) : ((m.set k v).get k').isSome := by
  rw [AMap.get_set]; split <;> simp_all

/-- the stores-only part of `Good` (everything except `epRefs`) transported along equal stores -/
theorem mem_set_iff {eps : AMap EpInfo} {w : Nat} {ei' : EpInfo} {kv : Nat × EpInfo} (h : kv ∈ eps.set w ei') :
    kv = (w, ei') ∨ (kv ∈ eps ∧ kv.1 ≠ w) := by
  simp only [AMap.set, List.mem_cons] at h
  rcases h with h | h
  · exact Or.inl h
  · exact Or.inr (AMap.mem_del h)

/-- the other endpoints are untouched by a step that only talks on endpoint `w`'s channels -/
theorem others_ok {p p' : Proc} {cl : List Nat} {evs new : List Ev} {w : Nat} (hch : ChanInv p cl) (hs : Streams p evs)
    (hst : SameStores p p') {kv : Nat × EpInfo} (hkv : kv ∈ p.eps) (hne : kv.1 ≠ w) {c : Nat} (ho : kv.2.output = some c)
    (hnew : ∀ e ∈ new, e.2.isSome → e.1 ≠ c) : EpOK p' kv.1 kv.2 (viewOf (evs ++ new) c) := by
  rw [viewOf_append]
  have : msgsOf new c = [] := by
    unfold msgsOf
    induction new with
    | nil => rfl
    | cons e r ih =>
      simp only [List.filterMap_cons]
      have ih' := ih (fun e' he' => hnew e' (List.mem_cons_of_mem _ he'))
      by_cases hc : e.1 = c
      · cases h2 : e.2 with
        | none => simp [hc, h2, ih']
        | some m => exact absurd hc (hnew e (by simp) (by simp [h2]))
      · simp [hc, ih']
  rw [this]
  exact (hs kv hkv c ho).congr hst

/-- a live channel of another endpoint differs from endpoint `w`'s channel -/
theorem other_chan_ne {p : Proc} {cl : List Nat} (hch : ChanInv p cl) {w : Nat} {ei : EpInfo} (hg : p.eps.get w = some ei)
    {kv : Nat × EpInfo} (hkv : kv ∈ p.eps) (hne : kv.1 ≠ w) {c c' : Nat} (ho : kv.2.output = some c) (ho' : ei.output = some c') :
    c' ≠ c := by
  intro e; subst e
  have := chans_inj hch.nodup hkv (AMap.mem_of_get hg) ho ho' hch.keys
  exact hne (by rw [this])

/-- what a step must re-establish besides the channel discipline -/
def Rest (p' : Proc) (evs : List Ev) : Prop := Good p' ∧ Streams p' evs ∧ Bound p' evs

theorem not_mem_synced_of_unreferenced {p : Proc} {w : Nat} {ei : EpInfo} {v : View} (hok : EpOK p w ei v) {id : Nat}
    (hp : ∀ kv ∈ p.pols, id ∉ kv.2.refs) (hf : ∀ kv ∈ p.profs, id ∉ kv.2.refs) : id ∉ ei.syncedIP := by
  intro hin
  rcases (hok.exact.ipsets id).1 hin with ⟨pid, _, r, hr, hx⟩ | ⟨pid, _, r, hr, hx⟩
  · exact hf (pid, r) (AMap.mem_of_get hr) hx
  · exact hp (pid, r) (AMap.mem_of_get hr) hx

theorem step_rest_stores {p p' : Proc} {cl : List Nat} {evs new : List Ev} {op : Op} (hch : ChanInv p cl) (hg : Good p)
    (hst : Streams p evs) (hb : Bound p evs) (hpre : Pre p op) (hs : step p op = some (p', new))
    (hop : match op with
      | .inSync | .sa _ _ | .saRm _ | .ns _ _ | .nsRm _ | .polRm _ | .profRm _ | .ipRm _ => True
      | _ => False) : Rest p' (evs ++ new) := by
  cases op with
  | inSync =>
    simp only [step, handleInSync, Option.some.injEq] at hs
    by_cases h1 : p.inSync = true
    · simp only [h1, if_true, Prod.mk.injEq] at hs; obtain ⟨rfl, rfl⟩ := hs
      exact ⟨hg, by rw [List.append_nil]; exact hst, bound_nil hb (Nat.le_refl _)⟩
    · simp only [h1, Prod.mk.injEq] at hs
      simp only [Bool.false_eq_true, if_false, Prod.mk.injEq] at hs
      obtain ⟨rfl, rfl⟩ := hs
      exact ⟨⟨hg.epRefs, hg.polRefs, hg.profRefs, hg.sasK, hg.nssK⟩,
        streams_broadcast hch hst _ rfl (fun w ei v h => inSync_ok h), bound_broadcast hch hb _ rfl⟩
  | sa id x =>
    simp only [step, Option.some.injEq, Prod.mk.injEq] at hs; obtain ⟨rfl, rfl⟩ := hs
    exact ⟨⟨hg.epRefs, hg.polRefs, hg.profRefs, AMap.nodupKeys_set hg.sasK _ _, hg.nssK⟩,
      streams_broadcast hch hst _ rfl (fun w ei v h => saUpd_ok h id x), bound_broadcast hch hb _ rfl⟩
  | saRm id =>
    simp only [step, Option.some.injEq, Prod.mk.injEq] at hs; obtain ⟨rfl, rfl⟩ := hs
    exact ⟨⟨hg.epRefs, hg.polRefs, hg.profRefs, AMap.nodupKeys_del hg.sasK _, hg.nssK⟩,
      streams_broadcast hch hst _ rfl (fun w ei v h => saRm_ok h id), bound_broadcast hch hb _ rfl⟩
  | ns id x =>
    simp only [step, Option.some.injEq, Prod.mk.injEq] at hs; obtain ⟨rfl, rfl⟩ := hs
    exact ⟨⟨hg.epRefs, hg.polRefs, hg.profRefs, hg.sasK, AMap.nodupKeys_set hg.nssK _ _⟩,
      streams_broadcast hch hst _ rfl (fun w ei v h => nsUpd_ok h id x), bound_broadcast hch hb _ rfl⟩
  | nsRm id =>
    simp only [step, Option.some.injEq, Prod.mk.injEq] at hs; obtain ⟨rfl, rfl⟩ := hs
    exact ⟨⟨hg.epRefs, hg.polRefs, hg.profRefs, hg.sasK, AMap.nodupKeys_del hg.nssK _⟩,
      streams_broadcast hch hst _ rfl (fun w ei v h => nsRm_ok h id), bound_broadcast hch hb _ rfl⟩
  | polRm id =>
    simp only [step, Option.some.injEq, Prod.mk.injEq] at hs; obtain ⟨rfl, rfl⟩ := hs
    have hpre' : ∀ kv ∈ p.eps, id ∉ epPols kv.2.ep := hpre
    refine ⟨⟨fun kv hkv e he => ?_, fun id' r hr x hx => ?_, hg.profRefs, hg.sasK, hg.nssK⟩,
      streams_quiet hst rfl (fun kv hkv v h => polRm_ok h (hpre' kv hkv)), bound_nil hb (Nat.le_refl _)⟩
    · obtain ⟨a, b, c, d⟩ := hg.epRefs kv hkv e he
      refine ⟨a, b, fun id' hid' => ?_, d⟩
      show ((p.pols.del id).get id').isSome
      have : id' ≠ id := by
        intro e'; subst e'
        have := hpre' kv hkv; rw [he] at this; exact this hid'
      rw [AMap.get_del_ne _ this]; exact c id' hid'
    · have hr' : (p.pols.del id).get id' = some r := hr
      rw [AMap.get_del] at hr'
      by_cases e' : id' = id
      · simp [e'] at hr'
      · simp only [e', if_false] at hr'; exact hg.polRefs id' r hr' x hx
  | profRm id =>
    simp only [step, Option.some.injEq, Prod.mk.injEq] at hs; obtain ⟨rfl, rfl⟩ := hs
    have hpre' : ∀ kv ∈ p.eps, id ∉ epProfs kv.2.ep := hpre
    refine ⟨⟨fun kv hkv e he => ?_, hg.polRefs, fun id' r hr x hx => ?_, hg.sasK, hg.nssK⟩,
      streams_quiet hst rfl (fun kv hkv v h => profRm_ok h (hpre' kv hkv)), bound_nil hb (Nat.le_refl _)⟩
    · obtain ⟨a, b, c, d⟩ := hg.epRefs kv hkv e he
      refine ⟨a, b, c, fun id' hid' => ?_⟩
      show ((p.profs.del id).get id').isSome
      have : id' ≠ id := by
        intro e'; subst e'
        have := hpre' kv hkv; rw [he] at this; exact this hid'
      rw [AMap.get_del_ne _ this]; exact d id' hid'
    · have hr' : (p.profs.del id).get id' = some r := hr
      rw [AMap.get_del] at hr'
      by_cases e' : id' = id
      · simp [e'] at hr'
      · simp only [e', if_false] at hr'; exact hg.profRefs id' r hr' x hx
  | ipRm id =>
    simp only [step, Option.some.injEq, Prod.mk.injEq] at hs; obtain ⟨rfl, rfl⟩ := hs
    have hpre' : (∀ kv ∈ p.pols, id ∉ kv.2.refs) ∧ (∀ kv ∈ p.profs, id ∉ kv.2.refs) := hpre
    refine ⟨⟨hg.epRefs, fun id' r hr x hx => ?_, fun id' r hr x hx => ?_, hg.sasK, hg.nssK⟩,
      streams_quiet hst rfl (fun kv hkv v h => ipStore_ok h (not_mem_synced_of_unreferenced h hpre'.1 hpre'.2) _
        (fun x hx => AMap.get_del_ne _ hx)), bound_nil hb (Nat.le_refl _)⟩
    · show ((p.ipsets.del id).get x).isSome
      have : x ≠ id := by
        intro e'; subst e'; exact hpre'.1 (id', r) (AMap.mem_of_get hr) hx
      rw [AMap.get_del_ne _ this]; exact hg.polRefs id' r hr x hx
    · show ((p.ipsets.del id).get x).isSome
      have : x ≠ id := by
        intro e'; subst e'; exact hpre'.2 (id', r) (AMap.mem_of_get hr) hx
      rw [AMap.get_del_ne _ this]; exact hg.profRefs id' r hr x hx
  | ep w e => exact hop.elim
  | epRm w => exact hop.elim
  | pol id r => exact hop.elim
  | prof id r => exact hop.elim
  | ipset id ms => exact hop.elim
  | ipDelta id a d => exact hop.elim
  | join w uid => exact hop.elim
  | leave w uid => exact hop.elim

theorem step_rest_each {p p' : Proc} {cl : List Nat} {evs new : List Ev} {op : Op} (hch : ChanInv p cl) (hg : Good p)
    (hst : Streams p evs) (hb : Bound p evs) (hpre : Pre p op) (hs : step p op = some (p', new))
    (hop : match op with
      | .pol _ _ | .prof _ _ | .ipset _ _ | .ipDelta _ _ _ => True
      | _ => False) : Rest p' (evs ++ new) := by
  cases op with
  | pol id r =>
    have hpre' : ∀ x ∈ r.refs, (p.ipsets.get x).isSome := hpre
    simp only [step, handlePolUpdate] at hs
    split at hs
    · cases hs
    · next eps' evs' he =>
      simp only [Option.some.injEq, Prod.mk.injEq] at hs; obtain ⟨rfl, rfl⟩ := hs
      have hk := refreshOne_keepsAll { p with pols := p.pols.set id r } true id (Msg.polUpd id r)
      refine ⟨⟨fun kv' hkv' e he' => ?_, fun id' r' hr x hx => ?_, hg.profRefs, hg.sasK, hg.nssK⟩,
        streams_each (p1 := { p with pols := p.pols.set id r }) hch hst hk he rfl ⟨rfl, rfl, rfl, rfl, rfl, rfl⟩
          (fun w ei ei' ms v h hf => refreshPol_ok h hf),
        bound_each hch hb hk he rfl⟩
      · obtain ⟨kv, hkv, hke⟩ := each_eps hk hch.nodup he kv' hkv' e he'
        obtain ⟨a, b, c, d⟩ := hg.epRefs kv hkv e hke
        exact ⟨a, b, fun id' hid' => isSome_get_set _ _ _ _ (c id' hid'), d⟩
      · have hr' : (p.pols.set id r).get id' = some r' := hr
        rw [AMap.get_set] at hr'
        by_cases e' : id' = id
        · simp only [e', if_true, Option.some.injEq] at hr'; subst hr'; exact hpre' x hx
        · simp only [e', if_false] at hr'; exact hg.polRefs id' r' hr' x hx
  | prof id r =>
    have hpre' : ∀ x ∈ r.refs, (p.ipsets.get x).isSome := hpre
    simp only [step, handleProfUpdate] at hs
    split at hs
    · cases hs
    · next eps' evs' he =>
      simp only [Option.some.injEq, Prod.mk.injEq] at hs; obtain ⟨rfl, rfl⟩ := hs
      have hk := refreshOne_keepsAll { p with profs := p.profs.set id r } false id (Msg.profUpd id r)
      refine ⟨⟨fun kv' hkv' e he' => ?_, hg.polRefs, fun id' r' hr x hx => ?_, hg.sasK, hg.nssK⟩,
        streams_each (p1 := { p with profs := p.profs.set id r }) hch hst hk he rfl ⟨rfl, rfl, rfl, rfl, rfl, rfl⟩
          (fun w ei ei' ms v h hf => refreshProf_ok h hf),
        bound_each hch hb hk he rfl⟩
      · obtain ⟨kv, hkv, hke⟩ := each_eps hk hch.nodup he kv' hkv' e he'
        obtain ⟨a, b, c, d⟩ := hg.epRefs kv hkv e hke
        exact ⟨a, b, c, fun id' hid' => isSome_get_set _ _ _ _ (d id' hid')⟩
      · have hr' : (p.profs.set id r).get id' = some r' := hr
        rw [AMap.get_set] at hr'
        by_cases e' : id' = id
        · simp only [e', if_true, Option.some.injEq] at hr'; subst hr'; exact hpre' x hx
        · simp only [e', if_false] at hr'; exact hg.profRefs id' r' hr' x hx
  | ipset id ms =>
    simp only [step, handleIPUpdate] at hs
    cases hget : p.ipsets.get id with
    | none =>
      simp only [hget, Option.some.injEq, Prod.mk.injEq] at hs; obtain ⟨rfl, rfl⟩ := hs
      refine ⟨⟨hg.epRefs, fun id' r hr x hx => isSome_get_set _ _ _ _ (hg.polRefs id' r hr x hx),
          fun id' r hr x hx => isSome_get_set _ _ _ _ (hg.profRefs id' r hr x hx), hg.sasK, hg.nssK⟩,
        streams_quiet hst rfl (fun kv hkv v h => ipStore_ok h ?_ _ (fun x hx => AMap.get_set_ne _ _ hx)),
        bound_nil hb (Nat.le_refl _)⟩
      intro hin
      have := needed_isSome hg.polRefs hg.profRefs ((h.exact.ipsets id).1 hin)
      rw [hget] at this; cases this
    | some cur =>
      simp only [hget] at hs
      split at hs
      · cases hs
      · next eps' evs' he =>
        simp only [Option.some.injEq, Prod.mk.injEq] at hs; obtain ⟨rfl, rfl⟩ := hs
        have hk := ipUpdOne_keepsAll { p with ipsets := p.ipsets.set id (dedup ms) } id ms
        refine ⟨⟨fun kv' hkv' e he' => ?_, fun id' r hr x hx => isSome_get_set _ _ _ _ (hg.polRefs id' r hr x hx),
            fun id' r hr x hx => isSome_get_set _ _ _ _ (hg.profRefs id' r hr x hx), hg.sasK, hg.nssK⟩,
          streams_each (p1 := { p with ipsets := p.ipsets.set id (dedup ms) }) hch hst hk he rfl ⟨rfl, rfl, rfl, rfl, rfl, rfl⟩
            (fun w ei ei' ms' v h hf => ipUpdOne_ok h hf),
          bound_each hch hb hk he rfl⟩
        obtain ⟨kv, hkv, hke⟩ := each_eps hk hch.nodup he kv' hkv' e he'
        exact hg.epRefs kv hkv e hke
  | ipDelta id a d =>
    have hpre' : (p.ipsets.get id).isSome := hpre
    simp only [step, handleIPDelta] at hs
    cases hcur : p.ipsets.get id with
    | none => rw [hcur] at hpre'; cases hpre'
    | some cur =>
      have hd : deltaStore p id a d = some { p with ipsets := p.ipsets.set id (applyDelta cur a d) } := by
        unfold deltaStore; simp only [hcur]
      simp only [hd] at hs
      split at hs
      · cases hs
      · next eps' evs' he =>
        simp only [Option.some.injEq, Prod.mk.injEq] at hs; obtain ⟨rfl, rfl⟩ := hs
        have hk := ipDeltaOne_keepsAll { p with ipsets := p.ipsets.set id (applyDelta cur a d) } id a d
        refine ⟨⟨fun kv' hkv' e he' => ?_, fun id' r hr x hx => isSome_get_set _ _ _ _ (hg.polRefs id' r hr x hx),
            fun id' r hr x hx => isSome_get_set _ _ _ _ (hg.profRefs id' r hr x hx), hg.sasK, hg.nssK⟩,
          streams_each (p1 := { p with ipsets := p.ipsets.set id (applyDelta cur a d) }) hch hst hk he rfl ⟨rfl, rfl, rfl, rfl, rfl, rfl⟩
            (fun w ei ei' ms' v h hf => ipDeltaOne_ok hcur h hf),
          bound_each hch hb hk he rfl⟩
        obtain ⟨kv, hkv, hke⟩ := each_eps hk hch.nodup he kv' hkv' e he'
        exact hg.epRefs kv hkv e hke
  | inSync => exact hop.elim
  | sa id x => exact hop.elim
  | saRm id => exact hop.elim
  | ns id x => exact hop.elim
  | nsRm id => exact hop.elim
  | polRm id => exact hop.elim
  | profRm id => exact hop.elim
  | ipRm id => exact hop.elim
  | ep w e => exact hop.elim
  | epRm w => exact hop.elim
  | join w uid => exact hop.elim
  | leave w uid => exact hop.elim

theorem evsFor_chan {o : Option Nat} {ms : List Msg} {e : Ev} (h : e ∈ evsFor o ms) : o = some e.1 ∧ e.2.isSome := by
  cases o with
  | none => simp [evsFor] at h
  | some c =>
    simp only [evsFor, tag, List.mem_map] at h
    obtain ⟨m, _, rfl⟩ := h
    exact ⟨rfl, rfl⟩

theorem closeEv_chan {o : Option Nat} {e : Ev} (h : e ∈ closeEv o) : o = some e.1 ∧ e.2 = none := by
  cases o with
  | none => simp [closeEv] at h
  | some c => simp [closeEv] at h; subst h; exact ⟨rfl, rfl⟩

theorem epForUpdate_ep (p : Proc) (w : Nat) (e : Endpoint) : (epForUpdate p w e).ep = some e := by
  unfold epForUpdate; split <;> rfl

theorem step_rest_ep {p p' : Proc} {cl : List Nat} {evs new : List Ev} {w : Nat} {e : Endpoint} (hch : ChanInv p cl) (hg : Good p)
    (hst : Streams p evs) (hb : Bound p evs) (hpre : Pre p (.ep w e)) (hs : step p (.ep w e) = some (p', new)) :
    Rest p' (evs ++ new) := by
  have hpre' : e.pols.Nodup ∧ e.profs.Nodup ∧ (∀ id ∈ e.pols, (p.pols.get id).isSome) ∧
      (∀ id ∈ e.profs, (p.profs.get id).isSome) := hpre
  simp only [step, handleEpUpdate] at hs
  cases hm : maybeSync p w (epForUpdate p w e) with
  | none => simp only [hm] at hs; cases hs
  | some r =>
    obtain ⟨ei', ms⟩ := r
    simp only [hm, Option.some.injEq, Prod.mk.injEq] at hs; obtain ⟨rfl, rfl⟩ := hs
    have hout := maybeSync_output hm
    have hep' : ei'.ep = some e := by rw [hout.2.1, epForUpdate_ep]
    -- the channel of w's entry, if any, is w's old channel
    have hold : ∀ c, ei'.output = some c → ∃ ei, p.eps.get w = some ei ∧ ei.output = some c ∧
        epForUpdate p w e = { ei with ep := some e } := by
      intro c hc
      rw [hout.1] at hc
      unfold epForUpdate at hc ⊢
      cases hgw : p.eps.get w with
      | none => simp [hgw] at hc
      | some ei => simp only [hgw] at hc ⊢; exact ⟨ei, rfl, hc, rfl⟩
    refine ⟨⟨fun kv' hkv' e' he' => ?_, hg.polRefs, hg.profRefs, hg.sasK, hg.nssK⟩, fun kv' hkv' c ho => ?_, fun ev hev => ?_⟩
    · rcases mem_set_iff hkv' with rfl | ⟨hkv, _⟩
      · rw [hep'] at he'; cases he'; exact hpre'
      · exact hg.epRefs kv' hkv e' he'
    · rcases mem_set_iff hkv' with rfl | ⟨hkv, hne⟩
      · obtain ⟨ei, hgw, hoc, heq⟩ := hold c ho
        have hok := hst (w, ei) (AMap.mem_of_get hgw) c hoc
        rw [heq] at hm
        obtain ⟨c1, x1, ep1, sa1, ns1, sy1, _⟩ := maybeSync_core (v := viewOf evs c) (e := e) (c := c)
          (ei := { ei with ep := some e }) ⟨hok.core.pols, hok.core.profs, hok.core.ipsets⟩ rfl hoc hm
        have hmsgs : msgsOf (evsFor ei'.output ms) c = ms := by
          rw [ho]; exact msgsOf_tag c ms
        rw [viewOf_append, hmsgs]
        exact ⟨⟨c1.pols, c1.profs, c1.ipsets⟩, ⟨x1.pols, x1.profs, x1.ipsets⟩, by rw [ep1, hep']; rfl,
          fun k => by rw [sa1]; exact hok.sas k, fun k => by rw [ns1]; exact hok.nss k, by rw [sy1]; exact hok.inSync⟩
      · refine others_ok (w := w) hch hst (by exact ⟨rfl, rfl, rfl, rfl, rfl, rfl⟩) hkv hne ho (fun ev hev _ hc => ?_)
        obtain ⟨hoc, _⟩ := evsFor_chan hev
        obtain ⟨ei, hgw, hoc', _⟩ := hold ev.1 hoc
        exact other_chan_ne hch hgw hkv hne ho hoc' hc
    · rcases List.mem_append.1 hev with h | h
      · exact hb ev h
      · obtain ⟨hoc, _⟩ := evsFor_chan h
        obtain ⟨ei, hgw, hoc', _⟩ := hold ev.1 hoc
        exact (hch.live _ (mem_chans_of_get hgw hoc')).1

theorem step_rest_epRm {p p' : Proc} {cl : List Nat} {evs new : List Ev} {w : Nat} (hch : ChanInv p cl) (hg : Good p)
    (hst : Streams p evs) (hb : Bound p evs) (hs : step p (.epRm w) = some (p', new)) :
    Rest p' (evs ++ new) := by
  simp only [step, handleEpRemove] at hs
  cases hgw : p.eps.get w with
  | none => simp only [hgw] at hs; cases hs
  | some ei =>
    simp only [hgw, Option.some.injEq, Prod.mk.injEq] at hs; obtain ⟨rfl, rfl⟩ := hs
    refine ⟨⟨fun kv' hkv' e' he' => hg.epRefs kv' (AMap.mem_del hkv').1 e' he', hg.polRefs, hg.profRefs, hg.sasK, hg.nssK⟩,
      fun kv' hkv' c ho => ?_, fun ev hev => ?_⟩
    · obtain ⟨hkv, hne⟩ := AMap.mem_del hkv'
      refine others_ok (w := w) hch hst (by exact ⟨rfl, rfl, rfl, rfl, rfl, rfl⟩) hkv hne ho (fun ev hev hsome hc => ?_)
      rcases List.mem_append.1 hev with h | h
      · exact other_chan_ne hch hgw hkv hne ho (evsFor_chan h).1 hc
      · rw [(closeEv_chan h).2] at hsome; cases hsome
    · rcases List.mem_append.1 hev with h | h
      · exact hb ev h
      · rcases List.mem_append.1 h with h | h
        · exact (hch.live _ (mem_chans_of_get hgw (evsFor_chan h).1)).1
        · exact (hch.live _ (mem_chans_of_get hgw (closeEv_chan h).1)).1

theorem step_rest_leave {p p' : Proc} {cl : List Nat} {evs new : List Ev} {w uid : Nat} (hch : ChanInv p cl) (hg : Good p)
    (hst : Streams p evs) (hb : Bound p evs) (hs : step p (.leave w uid) = some (p', new)) :
    Rest p' (evs ++ new) := by
  simp only [step, handleLeave] at hs
  cases hgw : p.eps.get w with
  | none =>
    simp only [hgw, Option.some.injEq, Prod.mk.injEq] at hs; obtain ⟨rfl, rfl⟩ := hs
    exact ⟨hg, by rw [List.append_nil]; exact hst, bound_nil hb (Nat.le_refl _)⟩
  | some ei =>
    simp only [hgw] at hs
    -- in every branch: eps' entries come from eps (or are w's entry without a channel), and no message is sent
    have key : ∀ (eps' : AMap EpInfo) (new' : List Ev),
        (∀ kv' ∈ eps', (kv' ∈ p.eps ∧ kv'.1 ≠ w) ∨ (kv'.2.output = none ∧ kv'.2.ep = ei.ep) ∨ (kv' ∈ p.eps ∧ new' = [])) →
        (∀ ev ∈ new', ev.2 = none ∧ ev.1 < p.nextCh) →
        Rest { p with eps := eps' } (evs ++ new') := by
      intro eps' new' h1 h2
      refine ⟨⟨fun kv' hkv' e' he' => ?_, hg.polRefs, hg.profRefs, hg.sasK, hg.nssK⟩, fun kv' hkv' c ho => ?_, fun ev hev => ?_⟩
      · rcases h1 kv' hkv' with ⟨hkv, _⟩ | ⟨_, hep⟩ | ⟨hkv, _⟩
        · exact hg.epRefs kv' hkv e' he'
        · rw [hep] at he'; exact hg.epRefs (w, ei) (AMap.mem_of_get hgw) e' he'
        · exact hg.epRefs kv' hkv e' he'
      · rcases h1 kv' hkv' with ⟨hkv, hne⟩ | ⟨hno, _⟩ | ⟨hkv, hnil⟩
        · refine others_ok (w := w) hch hst (by exact ⟨rfl, rfl, rfl, rfl, rfl, rfl⟩) hkv hne ho (fun ev hev hsome _ => ?_)
          rw [(h2 ev hev).1] at hsome; cases hsome
        · rw [hno] at ho; cases ho
        · subst hnil
          rw [List.append_nil]
          exact (hst kv' hkv c ho).congr (by exact ⟨rfl, rfl, rfl, rfl, rfl, rfl⟩)
      · rcases List.mem_append.1 hev with h | h
        · exact hb ev h
        · exact (h2 ev h).2
    by_cases hu : (ei.joinUID != uid) = true
    · simp only [hu, if_true, Option.some.injEq, Prod.mk.injEq] at hs
      obtain ⟨rfl, rfl⟩ := hs
      by_cases hcc : cleanupCond ei = true
      · simp only [hcc, if_true]
        exact key (p.eps.del w) [] (fun kv' hkv' => Or.inl (AMap.mem_del hkv')) (fun ev hev => by simp at hev)
      · simp only [hcc]
        exact key p.eps [] (fun kv' hkv' => Or.inr (Or.inr ⟨hkv', rfl⟩)) (fun ev hev => by simp at hev)
    · simp only [hu] at hs
      cases ho : ei.output with
      | none => simp only [ho] at hs; cases hs
      | some c =>
        simp only [ho, Option.some.injEq, Prod.mk.injEq] at hs
        obtain ⟨rfl, rfl⟩ := hs
        have hc2 : ∀ ev ∈ [((c, none) : Ev)], ev.2 = none ∧ ev.1 < p.nextCh := by
          intro ev hev; simp at hev; subst hev
          exact ⟨rfl, (hch.live c (mem_chans_of_get hgw ho)).1⟩
        by_cases hcd : cleanupCond { ei with output := none, joinUID := 0 } = true
        · simp only [hcd, if_true]
          exact key (p.eps.del w) _ (fun kv' hkv' => Or.inl (AMap.mem_del hkv')) hc2
        · simp only [hcd]
          refine key (p.eps.set w { ei with output := none, joinUID := 0 }) _ (fun kv' hkv' => ?_) hc2
          rcases mem_set_iff hkv' with rfl | h
          · exact Or.inr (Or.inl ⟨rfl, rfl⟩)
          · exact Or.inl h

theorem step_rest_join {p p' : Proc} {cl : List Nat} {evs new : List Ev} {w uid : Nat} (hch : ChanInv p cl) (hg : Good p)
    (hst : Streams p evs) (hb : Bound p evs) (hs : step p (.join w uid) = some (p', new)) :
    Rest p' (evs ++ new) := by
  obtain ⟨ei', hget, hout, hok, _, rfl, hep, ms', rfl⟩ := join_epok hg.sasK hg.nssK hs
  have hempty : viewOf evs p.nextCh = View.empty := by
    unfold viewOf
    rw [msgsOf_nil_of_notin (fun e he => Nat.ne_of_lt (hb e he))]; rfl
  refine ⟨⟨fun kv' hkv' e' he' => ?_, hg.polRefs, hg.profRefs, hg.sasK, hg.nssK⟩, fun kv' hkv' c ho => ?_, fun ev hev => ?_⟩
  · rcases mem_set_iff hkv' with rfl | ⟨hkv, _⟩
    · rw [hep] at he'
      unfold joinOld at he'
      cases hgw : p.eps.get w with
      | none => simp [hgw] at he'
      | some ei => simp only [hgw] at he'; exact hg.epRefs (w, ei) (AMap.mem_of_get hgw) e' he'
    · exact hg.epRefs kv' hkv e' he'
  · rcases mem_set_iff hkv' with rfl | ⟨hkv, hne⟩
    · rw [hout] at ho; cases ho
      rw [viewOf_append, hempty]; exact hok
    · have hlt : c < p.nextCh := (hch.live c (mem_chans.2 ⟨kv', hkv, ho⟩)).1
      refine others_ok (w := w) hch hst (by exact ⟨rfl, rfl, rfl, rfl, rfl, rfl⟩) hkv hne ho (fun ev hev hsome hc => ?_)
      rcases List.mem_append.1 hev with h | h
      · rw [(closeEv_chan h).2] at hsome; cases hsome
      · simp only [tag, List.mem_map] at h
        obtain ⟨m, _, rfl⟩ := h
        exact Nat.lt_irrefl _ (hc ▸ hlt)
  · show ev.1 < p.nextCh + 1
    rcases List.mem_append.1 hev with h | h
    · exact Nat.lt_succ_of_lt (hb ev h)
    · rcases List.mem_append.1 h with h | h
      · have hoc := (closeEv_chan h).1
        unfold joinOld at hoc
        cases hgw : p.eps.get w with
        | none => simp [hgw] at hoc
        | some ei =>
          simp only [hgw] at hoc
          exact Nat.lt_succ_of_lt (hch.live _ (mem_chans_of_get hgw hoc)).1
      · simp only [tag, List.mem_map] at h
        obtain ⟨m, _, rfl⟩ := h
        exact Nat.lt_succ_self _

/-- **every contract-respecting step preserves the whole-history invariant** -/
theorem step_inv {p p' : Proc} {evs new : List Ev} {op : Op} (hi : Inv p evs) (hpre : Pre p op)
    (hs : step p op = some (p', new)) : Inv p' (evs ++ new) := by
  obtain ⟨⟨cl, hch⟩, hg, hst, hb⟩ := hi
  obtain ⟨cl', _, hch'⟩ := step_chan hch hs
  have hr : Rest p' (evs ++ new) := by
    cases op with
    | inSync => exact step_rest_stores hch hg hst hb hpre hs trivial
    | sa id x => exact step_rest_stores hch hg hst hb hpre hs trivial
    | saRm id => exact step_rest_stores hch hg hst hb hpre hs trivial
    | ns id x => exact step_rest_stores hch hg hst hb hpre hs trivial
    | nsRm id => exact step_rest_stores hch hg hst hb hpre hs trivial
    | polRm id => exact step_rest_stores hch hg hst hb hpre hs trivial
    | profRm id => exact step_rest_stores hch hg hst hb hpre hs trivial
    | ipRm id => exact step_rest_stores hch hg hst hb hpre hs trivial
    | pol id r => exact step_rest_each hch hg hst hb hpre hs trivial
    | prof id r => exact step_rest_each hch hg hst hb hpre hs trivial
    | ipset id ms => exact step_rest_each hch hg hst hb hpre hs trivial
    | ipDelta id a d => exact step_rest_each hch hg hst hb hpre hs trivial
    | ep w e => exact step_rest_ep hch hg hst hb hpre hs
    | epRm w => exact step_rest_epRm hch hg hst hb hs
    | join w uid => exact step_rest_join hch hg hst hb hs
    | leave w uid => exact step_rest_leave hch hg hst hb hs
  exact ⟨⟨cl', hch'⟩, hr.1, hr.2.1, hr.2.2⟩

theorem inv_init : Inv Proc.init [] := by
  refine ⟨⟨[], ?_⟩, ⟨?_, ?_, ?_, ?_, ?_⟩, ?_, ?_⟩
  · exact ⟨by simp [Proc.init, AMap.NodupKeys], by simp [Proc.init, chans], by simp [Proc.init, chans], by simp⟩
  · intro kv hkv; simp [Proc.init] at hkv
  · intro id r h; simp [Proc.init, AMap.get] at h
  · intro id r h; simp [Proc.init, AMap.get] at h
  · simp [Proc.init, AMap.NodupKeys]
  · simp [Proc.init, AMap.NodupKeys]
  · intro kv hkv; simp [Proc.init] at hkv
  · intro e he; simp at he

theorem valid_inv {p p' : Proc} {ops : List Op} {pre evs : List Ev} (hi : Inv p pre) (hv : Valid p ops p' evs) :
    Inv p' (pre ++ evs) := by
  induction hv generalizing pre with
  | nil p => rw [List.append_nil]; exact hi
  | cons hpre hs _ ih =>
    rw [← List.append_assoc]
    exact ih (step_inv hi hpre hs)

end CalicoVerif.C31
