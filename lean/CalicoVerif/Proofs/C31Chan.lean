import CalicoVerif.Proofs.C31Base
/-! C31 — channel discipline: live channels are distinct, never closed, and
nothing is sent on (or done to) a closed channel. -/
namespace CalicoVerif.C31

structure ChanInv (p : Proc) (closed : List Nat) : Prop where
  keys : p.eps.NodupKeys
  nodup : (chans p.eps).Nodup
  live : ∀ c ∈ chans p.eps, c < p.nextCh ∧ c ∉ closed
  closedLt : ∀ c ∈ closed, c < p.nextCh

theorem ChanInv.congr {p p' : Proc} {cl : List Nat} (h : ChanInv p cl) (e : p'.eps = p.eps) (n : p'.nextCh = p.nextCh) :
    ChanInv p' cl := by
  obtain ⟨a, b, c, d⟩ := h
  exact ⟨e ▸ a, e ▸ b, by rw [e, n]; exact c, by rw [n]; exact d⟩

theorem monitor_sends {closed : List Nat} {evs : List Ev} (h : ∀ e ∈ evs, e.2.isSome ∧ e.1 ∉ closed) :
    monitor closed evs = some closed := by
  induction evs with
  | nil => rfl
  | cons e evs ih =>
    obtain ⟨c, m⟩ := e
    have h0 := h (c, m) (by simp)
    have hc : closed.contains c = false := by simpa using h0.2
    cases m with
    | none => simp at h0
    | some m =>
      simp only [monitor, hc]
      exact ih (fun e he => h e (List.mem_cons_of_mem _ he))

theorem monitor_append (closed : List Nat) (a b : List Ev) :
    monitor closed (a ++ b) = (monitor closed a).bind (fun c => monitor c b) := by
  induction a generalizing closed with
  | nil => simp [monitor]
  | cons e a ih =>
    obtain ⟨c, m⟩ := e
    simp only [List.cons_append, monitor]
    split
    · rfl
    · cases m <;> simp [ih]

/-- `f` keeps the output channel. -/
def Keeps (f : EpInfo → Option (EpInfo × List Msg)) : Prop :=
  ∀ ei ei' ms, f ei = some (ei', ms) → ei'.output = ei.output

theorem each_chan {f : EpInfo → Option (EpInfo × List Msg)} (hf : Keeps f) {eps eps' : AMap EpInfo} {evs : List Ev}
    (h : eachUpdateable f eps = some (eps', evs)) :
    eps'.map (·.1) = eps.map (·.1) ∧ chans eps' = chans eps ∧ ∀ e ∈ evs, e.2.isSome ∧ e.1 ∈ chans eps := by
  induction eps generalizing eps' evs with
  | nil => simp [eachUpdateable] at h; obtain ⟨rfl, rfl⟩ := h; simp
  | cons kv r ih =>
    obtain ⟨w, ei⟩ := kv
    simp only [eachUpdateable] at h
    cases ho : ei.output with
    | none =>
      simp only [ho] at h
      cases hr : eachUpdateable f r with
      | none => simp [hr] at h
      | some res =>
        obtain ⟨r', evs'⟩ := res
        simp only [hr, Option.some.injEq, Prod.mk.injEq] at h
        obtain ⟨rfl, rfl⟩ := h
        obtain ⟨a, b, c⟩ := ih hr
        refine ⟨by simp [a], by simp [chans, ho] at b ⊢; exact b, ?_⟩
        intro e he
        refine ⟨(c e he).1, ?_⟩
        have := (c e he).2
        simp only [chans, List.filterMap_cons, ho] at this ⊢
        exact this
    | some c =>
      simp only [ho] at h
      cases hfe : f ei with
      | none => simp [hfe] at h
      | some res1 =>
        obtain ⟨ei', ms⟩ := res1
        cases hr : eachUpdateable f r with
        | none => simp [hfe, hr] at h
        | some res =>
          obtain ⟨r', evs'⟩ := res
          simp only [hfe, hr, Option.some.injEq, Prod.mk.injEq] at h
          obtain ⟨rfl, rfl⟩ := h
          obtain ⟨a, b, d⟩ := ih hr
          have ho' : ei'.output = some c := by rw [hf ei ei' ms hfe, ho]
          refine ⟨by simp [a], ?_, ?_⟩
          · simp only [chans, List.filterMap_cons, ho, ho'] at b ⊢; rw [b]
          · intro e he
            rcases List.mem_append.1 he with he | he
            · simp only [tag, List.mem_map] at he
              obtain ⟨m, _, rfl⟩ := he
              simp [chans, List.filterMap_cons, ho]
            · refine ⟨(d e he).1, ?_⟩
              have := (d e he).2
              simp only [chans, List.filterMap_cons, ho] at this ⊢
              exact List.mem_cons_of_mem _ this

theorem broadcast_chan (m : Msg) (eps : AMap EpInfo) : ∀ e ∈ broadcast m eps, e.2.isSome ∧ e.1 ∈ chans eps := by
  intro e he
  simp only [broadcast, List.mem_filterMap] at he
  obtain ⟨kv, hkv, h⟩ := he
  cases ho : kv.2.output with
  | none => simp [ho] at h
  | some c =>
    simp [ho] at h
    subst h
    exact ⟨rfl, mem_chans.2 ⟨kv, hkv, ho⟩⟩

theorem ChanInv.sends {p p' : Proc} {cl : List Nat} {evs : List Ev} (h : ChanInv p cl)
    (hk : p'.eps.map (·.1) = p.eps.map (·.1)) (hc : chans p'.eps = chans p.eps) (hn : p'.nextCh = p.nextCh)
    (he : ∀ e ∈ evs, e.2.isSome ∧ e.1 ∈ chans p.eps) :
    monitor cl evs = some cl ∧ ChanInv p' cl := by
  refine ⟨monitor_sends (fun e h' => ⟨(he e h').1, (h.live _ (he e h').2).2⟩), ?_⟩
  obtain ⟨a, b, c, d⟩ := h
  exact ⟨by unfold AMap.NodupKeys at *; rw [hk]; exact a, by rw [hc]; exact b, by rw [hc, hn]; exact c, by rw [hn]; exact d⟩

theorem ipSync_output {p : Proc} {ei ei1 : EpInfo} {a d : List Msg} (h : ipSync p ei = some (ei1, a, d)) :
    ei1.output = ei.output ∧ ei1.ep = ei.ep ∧ ei1.joinUID = ei.joinUID ∧ ei1.syncedPol = ei.syncedPol ∧ ei1.syncedProf = ei.syncedProf := by
  unfold ipSync at h
  cases h1 : wantedIP p ei.ep with
  | none => simp [h1] at h
  | some newS =>
    simp only [h1] at h
    cases h2 : ipAddMsgs p (newS.filter (fun x => !ei.syncedIP.contains x)) with
    | none => simp only [h2] at h; cases h
    | some adds =>
      simp only [h2, Option.some.injEq, Prod.mk.injEq] at h
      obtain ⟨rfl, _, _⟩ := h
      simp

theorem maybeSync_output {p : Proc} {w : Nat} {ei ei' : EpInfo} {ms : List Msg} (h : maybeSync p w ei = some (ei', ms)) :
    ei'.output = ei.output ∧ ei'.ep = ei.ep ∧ ei'.joinUID = ei.joinUID := by
  unfold maybeSync at h
  cases he : ei.ep with
  | none => simp [he] at h; obtain ⟨rfl, _⟩ := h; simp [he]
  | some e =>
    cases ho : ei.output with
    | none => simp [he, ho] at h; obtain ⟨rfl, _⟩ := h; simp [he, ho]
    | some c =>
      simp only [he, ho] at h
      cases h1 : ipSync p ei with
      | none => simp [h1] at h
      | some r1 =>
        obtain ⟨ei1, adds, dels⟩ := r1
        have := ipSync_output h1
        simp only [h1] at h
        cases h2 : syncAdded p.pols Msg.polUpd e.pols ei1.syncedPol with
        | none => simp [h2] at h
        | some r2 =>
          obtain ⟨sp, polMsgs⟩ := r2
          simp only [h2] at h
          cases h3 : syncAdded p.profs Msg.profUpd e.profs ei1.syncedProf with
          | none => simp [h3] at h
          | some r3 =>
            obtain ⟨sf, profMsgs⟩ := r3
            simp only [h3] at h
            cases h4 : syncRemovedLoop e.pols sp [] with
            | none => simp [h4] at h
            | some r4 =>
              cases h5 : syncRemovedLoop e.profs sf [] with
              | none => simp [h4, h5] at h
              | some r5 =>
                simp only [h4, h5, Option.some.injEq, Prod.mk.injEq] at h
                obtain ⟨rfl, _⟩ := h
                simp [this, he, ho]

theorem markSynced_output (b : Bool) (ei : EpInfo) (id : Nat) :
    (markSynced b ei id).output = ei.output ∧ (markSynced b ei id).ep = ei.ep ∧ (markSynced b ei id).joinUID = ei.joinUID := by
  cases b <;> simp [markSynced]

theorem refreshOne_keeps (p : Proc) (b : Bool) (id : Nat) (m : Msg) : Keeps (refreshOne p b id m) := by
  intro ei ei' ms h
  unfold refreshOne at h
  by_cases hl : (epList b ei.ep).contains id = true
  · simp only [hl, if_true] at h
    cases h1 : ipSync p ei with
    | none => simp [h1] at h
    | some r1 =>
      obtain ⟨ei1, adds, dels⟩ := r1
      simp only [h1, Option.some.injEq, Prod.mk.injEq] at h
      obtain ⟨rfl, _⟩ := h
      rw [(markSynced_output b ei1 id).1, (ipSync_output h1).1]
  · simp only [hl] at h
    simp at h; obtain ⟨rfl, _⟩ := h; rfl

theorem ipUpdOne_keeps (p : Proc) (id : Nat) (ms : List Nat) : Keeps (ipUpdOne p id ms) := by
  intro ei ei' ms' h
  unfold ipUpdOne at h
  cases h1 : referencesIP p ei id with
  | none => simp [h1] at h
  | some b => cases b <;> (simp [h1] at h; obtain ⟨rfl, _⟩ := h; rfl)

theorem ipDeltaOne_keeps (p : Proc) (id : Nat) (a d : List Nat) : Keeps (ipDeltaOne p id a d) := by
  intro ei ei' ms' h
  unfold ipDeltaOne at h
  cases h1 : referencesIP p ei id with
  | none => simp [h1] at h
  | some b => cases b <;> (simp [h1] at h; obtain ⟨rfl, _⟩ := h; rfl)

theorem deltaStore_eps {p p1 : Proc} {id : Nat} {a d : List Nat} (h : deltaStore p id a d = some p1) :
    p1.eps = p.eps ∧ p1.nextCh = p.nextCh := by
  unfold deltaStore at h
  cases h1 : p.ipsets.get id with
  | none =>
    simp only [h1] at h
    by_cases hc : (a.isEmpty && d.isEmpty) = true
    · simp [hc] at h; subst h; exact ⟨rfl, rfl⟩
    · simp [hc] at h
  | some cur => simp [h1] at h; subst h; exact ⟨rfl, rfl⟩

theorem mem_chans_del {eps : AMap EpInfo} (hn : (chans eps).Nodup) (hk : eps.NodupKeys) {w c : Nat}
    (h : c ∈ chans (eps.del w)) : c ∈ chans eps ∧ ∀ ei, eps.get w = some ei → ei.output ≠ some c := by
  obtain ⟨kv, hkv, ho⟩ := mem_chans.1 h
  have hm := AMap.mem_del hkv
  refine ⟨mem_chans.2 ⟨kv, hm.1, ho⟩, ?_⟩
  intro ei hg ho'
  have := chans_inj hn hm.1 (AMap.mem_of_get hg) ho ho' hk
  exact hm.2 (by rw [this])

theorem mem_chans_of_get {eps : AMap EpInfo} {w c : Nat} {ei : EpInfo} (hg : eps.get w = some ei) (ho : ei.output = some c) :
    c ∈ chans eps := mem_chans.2 ⟨(w, ei), AMap.mem_of_get hg, ho⟩

/-- removing an endpoint whose channel (if any) has just been closed -/
theorem ChanInv.del {p : Proc} {cl : List Nat} (h : ChanInv p cl) (w : Nat) (cl' : List Nat)
    (hcl : ∀ c, c ∈ cl' ↔ c ∈ cl ∨ ∃ ei, p.eps.get w = some ei ∧ ei.output = some c) :
    ChanInv { p with eps := p.eps.del w } cl' := by
  refine ⟨AMap.nodupKeys_del h.keys w, chans_del_nodup h.nodup w, ?_, ?_⟩
  · intro c hc
    have := mem_chans_del h.nodup h.keys hc
    refine ⟨(h.live c this.1).1, ?_⟩
    rw [hcl]
    rintro (h1 | ⟨ei, hg, ho⟩)
    · exact (h.live c this.1).2 h1
    · exact this.2 ei hg ho
  · intro c hc
    rcases (hcl c).1 hc with h1 | ⟨ei, hg, ho⟩
    · exact h.closedLt c h1
    · exact (h.live c (mem_chans_of_get hg ho)).1

/-- replacing endpoint `w`'s info by one with output `o'`, where `o'` is its old channel, a fresh one, or none -/
theorem ChanInv.set {p : Proc} {cl : List Nat} (h : ChanInv p cl) (w : Nat) (ei' : EpInfo) (cl' : List Nat) (n' : Nat)
    (hn' : p.nextCh ≤ n')
    (ho : ei'.output = none ∨ (∃ ei, p.eps.get w = some ei ∧ ei.output = ei'.output ∧ cl' = cl) ∨
      (ei'.output = some p.nextCh ∧ p.nextCh < n'))
    (hcl : ∀ c, c ∈ cl' → c ∈ cl ∨ ∃ ei, p.eps.get w = some ei ∧ ei.output = some c ∧ ei'.output ≠ some c) :
    ChanInv { p with eps := p.eps.set w ei', nextCh := n' } cl' := by
  have hdel : ∀ c ∈ chans (p.eps.del w), c < p.nextCh ∧ c ∉ cl' := by
    intro c hc
    have := mem_chans_del h.nodup h.keys hc
    refine ⟨(h.live c this.1).1, fun hc' => ?_⟩
    rcases hcl c hc' with h1 | ⟨ei, hg, ho1, _⟩
    · exact (h.live c this.1).2 h1
    · exact this.2 ei hg ho1
  refine ⟨AMap.nodupKeys_set h.keys w ei', ?_, ?_, ?_⟩
  · show (chans (p.eps.set w ei')).Nodup
    rw [chans_set]
    cases hoe : ei'.output with
    | none => simpa using chans_del_nodup h.nodup w
    | some c =>
      simp only [List.singleton_append, List.nodup_cons]
      refine ⟨fun hc => ?_, chans_del_nodup h.nodup w⟩
      have hd := mem_chans_del h.nodup h.keys hc
      rcases ho with ho | ⟨ei, hg, ho1, _⟩ | ⟨ho, _⟩
      · rw [hoe] at ho; cases ho
      · exact hd.2 ei hg (by rw [ho1, hoe])
      · rw [hoe] at ho; cases ho
        exact absurd (h.live _ hd.1).1 (Nat.lt_irrefl _)
  · intro c hc
    show c < n' ∧ c ∉ cl'
    change c ∈ chans (p.eps.set w ei') at hc
    rw [chans_set] at hc
    rcases List.mem_append.1 hc with hc | hc
    · cases hoe : ei'.output with
      | none => simp [hoe] at hc
      | some c' =>
        simp only [hoe, List.mem_singleton] at hc
        subst hc
        rcases ho with ho | ⟨ei, hg, ho1, hcl'⟩ | ⟨ho, hlt⟩
        · rw [hoe] at ho; cases ho
        · have hl := h.live c (mem_chans_of_get hg (by rw [ho1, hoe]))
          exact ⟨Nat.lt_of_lt_of_le hl.1 hn', by rw [hcl']; exact hl.2⟩
        · rw [hoe] at ho; cases ho
          refine ⟨hlt, fun hc' => ?_⟩
          rcases hcl _ hc' with h1 | ⟨ei, hg, ho1, _⟩
          · exact absurd (h.closedLt _ h1) (Nat.lt_irrefl _)
          · exact absurd (h.live _ (mem_chans_of_get hg ho1)).1 (Nat.lt_irrefl _)
    · exact ⟨Nat.lt_of_lt_of_le (hdel c hc).1 hn', (hdel c hc).2⟩
  · intro c hc
    show c < n'
    rcases hcl c hc with h1 | ⟨ei, hg, ho1, _⟩
    · exact Nat.lt_of_lt_of_le (h.closedLt c h1) hn'
    · exact Nat.lt_of_lt_of_le (h.live c (mem_chans_of_get hg ho1)).1 hn'

theorem monitor_tag {cl : List Nat} {c : Nat} (ms : List Msg) (hc : c ∉ cl) : monitor cl (tag c ms) = some cl :=
  monitor_sends (by
    intro e he
    simp only [tag, List.mem_map] at he
    obtain ⟨m, _, rfl⟩ := he
    exact ⟨rfl, hc⟩)

/-- Every step keeps the channel discipline, and its events pass the monitor. -/
theorem step_chan {p p' : Proc} {cl : List Nat} {op : Op} {evs : List Ev} (h : ChanInv p cl)
    (hs : step p op = some (p', evs)) : ∃ cl', monitor cl evs = some cl' ∧ ChanInv p' cl' := by
  cases op with
  | inSync =>
    simp only [step, handleInSync, Option.some.injEq] at hs
    split at hs
    · simp only [Prod.mk.injEq] at hs; obtain ⟨rfl, rfl⟩ := hs; exact ⟨cl, rfl, h⟩
    · simp only [Prod.mk.injEq] at hs; obtain ⟨rfl, rfl⟩ := hs
      exact ⟨cl, h.sends rfl rfl rfl (broadcast_chan _ _)⟩
  | polRm id => simp only [step, Option.some.injEq, Prod.mk.injEq] at hs; obtain ⟨rfl, rfl⟩ := hs; exact ⟨cl, rfl, h.congr rfl rfl⟩
  | profRm id => simp only [step, Option.some.injEq, Prod.mk.injEq] at hs; obtain ⟨rfl, rfl⟩ := hs; exact ⟨cl, rfl, h.congr rfl rfl⟩
  | ipRm id => simp only [step, Option.some.injEq, Prod.mk.injEq] at hs; obtain ⟨rfl, rfl⟩ := hs; exact ⟨cl, rfl, h.congr rfl rfl⟩
  | sa id v => simp only [step, Option.some.injEq, Prod.mk.injEq] at hs; obtain ⟨rfl, rfl⟩ := hs; exact ⟨cl, h.sends rfl rfl rfl (broadcast_chan _ _)⟩
  | saRm id => simp only [step, Option.some.injEq, Prod.mk.injEq] at hs; obtain ⟨rfl, rfl⟩ := hs; exact ⟨cl, h.sends rfl rfl rfl (broadcast_chan _ _)⟩
  | ns id v => simp only [step, Option.some.injEq, Prod.mk.injEq] at hs; obtain ⟨rfl, rfl⟩ := hs; exact ⟨cl, h.sends rfl rfl rfl (broadcast_chan _ _)⟩
  | nsRm id => simp only [step, Option.some.injEq, Prod.mk.injEq] at hs; obtain ⟨rfl, rfl⟩ := hs; exact ⟨cl, h.sends rfl rfl rfl (broadcast_chan _ _)⟩
  | pol id r =>
    simp only [step, handlePolUpdate] at hs
    split at hs
    · simp at hs
    · next eps' evs' he =>
      simp only [Option.some.injEq, Prod.mk.injEq] at hs; obtain ⟨rfl, rfl⟩ := hs
      obtain ⟨a, b, c⟩ := each_chan (refreshOne_keeps _ _ _ _) he
      exact ⟨cl, h.sends a b rfl c⟩
  | prof id r =>
    simp only [step, handleProfUpdate] at hs
    split at hs
    · simp at hs
    · next eps' evs' he =>
      simp only [Option.some.injEq, Prod.mk.injEq] at hs; obtain ⟨rfl, rfl⟩ := hs
      obtain ⟨a, b, c⟩ := each_chan (refreshOne_keeps _ _ _ _) he
      exact ⟨cl, h.sends a b rfl c⟩
  | ipset id ms =>
    simp only [step, handleIPUpdate] at hs
    cases hg : p.ipsets.get id with
    | none =>
      simp only [hg, Option.some.injEq, Prod.mk.injEq] at hs; obtain ⟨rfl, rfl⟩ := hs; exact ⟨cl, rfl, h.congr rfl rfl⟩
    | some cur =>
      simp only [hg] at hs
      cases he : eachUpdateable (ipUpdOne { p with ipsets := p.ipsets.set id (dedup ms) } id ms) p.eps with
      | none => simp [he] at hs
      | some r =>
        obtain ⟨eps', evs'⟩ := r
        simp only [he, Option.some.injEq, Prod.mk.injEq] at hs; obtain ⟨rfl, rfl⟩ := hs
        obtain ⟨a, b, c⟩ := each_chan (ipUpdOne_keeps _ _ _) he
        exact ⟨cl, h.sends a b rfl c⟩
  | ipDelta id adds dels =>
    simp only [step, handleIPDelta] at hs
    cases hd : deltaStore p id adds dels with
    | none => simp [hd] at hs
    | some p1 =>
      simp only [hd] at hs
      have hp1e := deltaStore_eps hd
      cases he : eachUpdateable (ipDeltaOne p1 id adds dels) p1.eps with
      | none => simp [he] at hs
      | some r =>
        obtain ⟨eps', evs'⟩ := r
        simp only [he, Option.some.injEq, Prod.mk.injEq] at hs; obtain ⟨rfl, rfl⟩ := hs
        obtain ⟨a, b, c⟩ := each_chan (ipDeltaOne_keeps _ _ _ _) he
        rw [hp1e.1] at a b c
        exact ⟨cl, h.sends a b hp1e.2 c⟩
  | ep w e =>
    simp only [step, handleEpUpdate] at hs
    cases hm : maybeSync p w (epForUpdate p w e) with
    | none => simp only [hm] at hs; cases hs
    | some r =>
      obtain ⟨ei', ms⟩ := r
      simp only [hm, Option.some.injEq, Prod.mk.injEq] at hs; obtain ⟨rfl, rfl⟩ := hs
      have hout := (maybeSync_output hm).1
      refine ⟨cl, ?_, ?_⟩
      · cases hoe : ei'.output with
        | none => rfl
        | some c =>
          simp only [evsFor]
          apply monitor_tag
          rw [hoe] at hout
          unfold epForUpdate at hout
          cases hg : p.eps.get w with
          | none => simp [hg] at hout
          | some ei =>
            simp only [hg] at hout
            exact (h.live c (mem_chans_of_get hg hout.symm)).2
      · have := h.set w ei' cl p.nextCh (Nat.le_refl _) (by
          cases hg : p.eps.get w with
          | none => left; rw [hout]; simp [epForUpdate, hg]
          | some ei => right; left; exact ⟨ei, rfl, by rw [hout]; simp [epForUpdate, hg], rfl⟩)
          (fun c hc => Or.inl hc)
        exact this
  | epRm w =>
    simp only [step, handleEpRemove] at hs
    cases hg : p.eps.get w with
    | none => simp only [hg] at hs; cases hs
    | some ei =>
      simp only [hg, Option.some.injEq, Prod.mk.injEq] at hs; obtain ⟨rfl, rfl⟩ := hs
      cases ho : ei.output with
      | none =>
        refine ⟨cl, rfl, h.del w cl (fun c => ?_)⟩
        simp [hg, ho]
      | some c =>
        have hc := (h.live c (mem_chans_of_get hg ho)).2
        have hcc : cl.contains c = false := by simpa using hc
        refine ⟨c :: cl, by simp [evsFor, closeEv, tag, monitor, hc], h.del w (c :: cl) (fun c' => ?_)⟩
        simp only [hg, Option.some.injEq, exists_eq_left', ho, List.mem_cons]
        constructor
        · rintro (rfl | h1)
          · exact Or.inr rfl
          · exact Or.inl h1
        · rintro (h1 | h1)
          · exact Or.inr h1
          · exact Or.inl h1.symm
  | join w uid =>
    simp only [step, handleJoin] at hs
    cases hm : maybeSync p w { joinOld p w with joinUID := uid, output := some p.nextCh, syncedPol := [], syncedProf := [], syncedIP := [] } with
    | none => simp only [hm] at hs; cases hs
    | some r =>
      obtain ⟨ei', ms⟩ := r
      simp only [hm, Option.some.injEq, Prod.mk.injEq] at hs; obtain ⟨rfl, rfl⟩ := hs
      have hout : ei'.output = some p.nextCh := (maybeSync_output hm).1
      cases hoo : (joinOld p w).output with
      | none =>
        refine ⟨cl, ?_, ?_⟩
        · simp only [closeEv, List.nil_append]
          exact monitor_tag _ (fun hc => Nat.lt_irrefl _ (h.closedLt _ hc))
        · exact h.set w ei' cl (p.nextCh + 1) (Nat.le_succ _) (Or.inr (Or.inr ⟨hout, Nat.lt_succ_self _⟩))
            (fun c hc => Or.inl hc)
      | some oc =>
        have hg : ∃ ei, p.eps.get w = some ei ∧ ei.output = some oc := by
          unfold joinOld at hoo
          cases hg : p.eps.get w with
          | none => simp [hg] at hoo
          | some ei => simp only [hg] at hoo; exact ⟨ei, rfl, hoo⟩
        obtain ⟨ei, hg, hoc⟩ := hg
        have hl := h.live oc (mem_chans_of_get hg hoc)
        refine ⟨oc :: cl, ?_, ?_⟩
        · simp only [closeEv, List.singleton_append, monitor]
          have : cl.contains oc = false := by simpa using hl.2
          simp only [this]
          apply monitor_tag
          intro hc
          rcases List.mem_cons.1 hc with e | hc
          · rw [e] at hl; exact Nat.lt_irrefl _ hl.1
          · exact Nat.lt_irrefl _ (h.closedLt _ hc)
        · refine h.set w ei' (oc :: cl) (p.nextCh + 1) (Nat.le_succ _) (Or.inr (Or.inr ⟨hout, Nat.lt_succ_self _⟩)) ?_
          intro c hc
          rcases List.mem_cons.1 hc with e | hc
          · subst e
            refine Or.inr ⟨ei, hg, hoc, ?_⟩
            rw [hout]; intro e; cases e; exact Nat.lt_irrefl _ hl.1
          · exact Or.inl hc
  | leave w uid =>
    simp only [step, handleLeave] at hs
    cases hg : p.eps.get w with
    | none => simp only [hg, Option.some.injEq, Prod.mk.injEq] at hs; obtain ⟨rfl, rfl⟩ := hs; exact ⟨cl, rfl, h⟩
    | some ei =>
      simp only [hg] at hs
      by_cases hu : (ei.joinUID != uid) = true
      · simp only [hu, if_true, Option.some.injEq, Prod.mk.injEq] at hs
        obtain ⟨rfl, rfl⟩ := hs
        refine ⟨cl, rfl, ?_⟩
        by_cases hcc : cleanupCond ei = true
        · simp only [hcc, if_true]
          refine h.del w cl (fun c => ?_)
          simp only [hg, Option.some.injEq, exists_eq_left']
          have : ei.output = none := by
            simp only [cleanupCond, Bool.and_eq_true, Option.isNone_iff_eq_none] at hcc; exact hcc.1.1
          simp [this]
        · simp only [hcc]; exact h
      · simp only [hu] at hs
        cases ho : ei.output with
        | none => simp only [ho] at hs; cases hs
        | some c =>
          simp only [ho, Option.some.injEq, Prod.mk.injEq] at hs
          obtain ⟨rfl, rfl⟩ := hs
          have hl := h.live c (mem_chans_of_get hg ho)
          have hcc : cl.contains c = false := by simpa using hl.2
          refine ⟨c :: cl, by simp [monitor, hl.2], ?_⟩
          by_cases hcd : cleanupCond { ei with output := none, joinUID := 0 } = true
          · simp only [hcd, if_true]
            refine h.del w (c :: cl) (fun c' => ?_)
            simp only [hg, Option.some.injEq, exists_eq_left', ho, List.mem_cons]
            constructor
            · rintro (rfl | h1)
              · exact Or.inr rfl
              · exact Or.inl h1
            · rintro (h1 | h1)
              · exact Or.inr h1
              · exact Or.inl h1.symm
          · simp only [hcd]
            have := h.set w { ei with output := none, joinUID := 0 } (c :: cl) p.nextCh (Nat.le_refl _) (Or.inl rfl) (by
              intro c' hc'
              rcases List.mem_cons.1 hc' with e | hc'
              · subst e; exact Or.inr ⟨ei, hg, ho, by simp⟩
              · exact Or.inl hc')
            exact this

end CalicoVerif.C31
