import CalicoVerif.Proofs.C03Resolver
/-! C03: which policies the sorter holds (and with which metadata), for all histories. -/
namespace CalicoVerif.C03
open CalicoVerif.C02

/-- policy `p` is held by tier `n` with metadata `m` -/
def holdsIn (s : Sorter) (p : PolicyKey) (n : String) (m : PolMeta) : Prop :=
  ∃ t, mget s.tiers n = some t ∧ mget t.policies p = some m

/-- a policy is held by at most one tier -/
def Uniq (s : Sorter) : Prop := ∀ p n n' m m', holdsIn s p n m → holdsIn s p n' m' → n = n'

theorem tierHolding_none {s : Sorter} (h : SInv s) {k : PolicyKey} (hn : s.tierHolding k = none) :
    ∀ n m, ¬ holdsIn s k n m := by
  intro n m ⟨t, ht, hm⟩
  unfold Sorter.tierHolding at hn
  simp only [Option.map_eq_none_iff, List.find?_eq_none] at hn
  have hmem : (n, t) ∈ s.tiers := by
    clear hn
    generalize s.tiers = l at ht
    induction l with
    | nil => cases ht
    | cons p rest ih =>
      obtain ⟨n0, t0⟩ := p
      rw [mget_cons] at ht
      by_cases h0 : n0 = n
      · simp only [h0, if_true, Option.some.injEq] at ht; subst ht; subst h0; simp
      · simp only [h0, if_false] at ht; exact List.mem_cons_of_mem _ (ih ht)
  have := hn (n, t) hmem
  simp [hm] at this

theorem tierHolding_holds {s : Sorter} (h : SInv s) {k : PolicyKey} {t : TierSt} (ht : s.tierHolding k = some t) :
    mget s.tiers t.name = some t ∧ (mget t.policies k).isSome := by
  refine ⟨tierHolding_some h ht, ?_⟩
  unfold Sorter.tierHolding at ht
  cases hf : s.tiers.find? (fun p => (mget p.2.policies k).isSome) with
  | none => simp [hf] at ht
  | some p =>
    simp only [hf, Option.map_some, Option.some.injEq] at ht
    subst ht
    have := List.find?_some hf
    simpa using this

theorem holdsIn_removeFrom {s : Sorter} (h : SInv s) {t : TierSt} (ht : mget s.tiers t.name = some t)
    {k : PolicyKey} {old : PolMeta} (p : PolicyKey) (n : String) (m : PolMeta) :
    holdsIn (s.removeFrom t k old) p n m ↔ holdsIn s p n m ∧ ¬ (p = k ∧ n = t.name) := by
  have tiersEq : ∀ n', n' ≠ t.name → mget (s.removeFrom t k old).tiers n' = mget s.tiers n' :=
    fun n' hn' => removeFrom_other s t k old n' hn'
  by_cases hn : n = t.name
  · -- the tier itself
    have hself : ∀ x, mget (s.removeFrom t k old).tiers t.name = some x → x.policies = mdel k t.policies := by
      intro x hx
      unfold Sorter.removeFrom at hx
      simp only at hx
      split at hx
      · simp [mget_mdel] at hx
      · simp only [mget_mset, if_true, Option.some.injEq] at hx; subst hx; rfl
    have hself2 : (mdel k t.policies ≠ [] ∨ t.valid = true) →
        mget (s.removeFrom t k old).tiers t.name =
          some { t with sorted := btDelete polKVLess ⟨k, old⟩ t.sorted, policies := mdel k t.policies } := by
      intro hne
      unfold Sorter.removeFrom
      simp only
      split
      · rename_i he
        simp only [Bool.and_eq_true, List.isEmpty_iff, Bool.not_eq_true'] at he
        rcases hne with x | x
        · exact absurd he.1 x
        · rw [x] at he; cases he.2
      · simp [mget_mset]
    constructor
    · rintro ⟨x, hx, hm⟩
      rw [hn] at hx
      have := hself x hx
      rw [this, mget_mdel] at hm
      by_cases hpk : p = k
      · simp [hpk] at hm
      · simp only [hpk, if_false] at hm
        exact ⟨⟨t, by rw [hn]; exact ht, hm⟩, fun x => hpk x.1⟩
    · rintro ⟨⟨x, hx, hm⟩, hne⟩
      rw [hn, ht] at hx
      simp only [Option.some.injEq] at hx; subst hx
      have hpk : p ≠ k := fun e => hne ⟨e, hn⟩
      have hm' : mget (mdel k t.policies) p = some m := by rw [mget_mdel]; simp [hpk, hm]
      have hne' : mdel k t.policies ≠ [] := by intro e; rw [e] at hm'; cases hm'
      exact ⟨_, by rw [hn]; exact hself2 (Or.inl hne'), hm'⟩
  · constructor
    · rintro ⟨x, hx, hm⟩
      rw [tiersEq n hn] at hx
      exact ⟨⟨x, hx, hm⟩, fun y => hn y.2⟩
    · rintro ⟨⟨x, hx, hm⟩, _⟩
      exact ⟨x, by rw [tiersEq n hn]; exact hx, hm⟩

theorem insertPolicy_tiers (s : Sorter) (k : PolicyKey) (np : PolMeta) (d : Bool) (n : String) (hn : n ≠ np.tier)
    (hname : ∀ t, mget s.tiers np.tier = some t → t.name = np.tier) :
    mget (s.insertPolicy k np d).1.tiers n = mget s.tiers n := by
  unfold Sorter.insertPolicy
  cases ht : mget s.tiers np.tier with
  | some t => simp [mget_mset, hname t ht, hn]
  | none => simp [mget_mset, hn]

theorem insertPolicy_self (s : Sorter) (k : PolicyKey) (np : PolMeta) (d : Bool)
    (hname : ∀ t, mget s.tiers np.tier = some t → t.name = np.tier) :
    ∃ x, mget (s.insertPolicy k np d).1.tiers np.tier = some x ∧
      x.policies = mset k np (match mget s.tiers np.tier with | some t => t.policies | none => []) := by
  unfold Sorter.insertPolicy
  cases ht : mget s.tiers np.tier with
  | some t =>
    simp only [hname t ht, mget_mset, if_true]
    exact ⟨_, rfl, rfl⟩
  | none =>
    simp only [mget_mset, if_true]
    exact ⟨_, rfl, rfl⟩

theorem holdsIn_insertPolicy {s : Sorter} (h : SInv s) (k : PolicyKey) (np : PolMeta) (d : Bool)
    (p : PolicyKey) (n : String) (m : PolMeta) :
    holdsIn (s.insertPolicy k np d).1 p n m ↔
      ((p = k ∧ n = np.tier ∧ m = np) ∨ (holdsIn s p n m ∧ ¬ (p = k ∧ n = np.tier))) := by
  have hname : ∀ t, mget s.tiers np.tier = some t → t.name = np.tier := fun t ht => (h.tiers _ _ ht).1
  by_cases hn : n = np.tier
  · obtain ⟨x, hx, hpol⟩ := insertPolicy_self s k np d hname
    constructor
    · rintro ⟨y, hy, hm⟩
      rw [hn, hx] at hy
      simp only [Option.some.injEq] at hy; subst hy
      rw [hpol, mget_mset] at hm
      by_cases hpk : p = k
      · simp only [hpk, if_true, Option.some.injEq] at hm
        exact Or.inl ⟨hpk, hn, hm.symm⟩
      · simp only [hpk, if_false] at hm
        cases ht : mget s.tiers np.tier with
        | none => simp [ht] at hm
        | some t =>
          simp only [ht] at hm
          exact Or.inr ⟨⟨t, by rw [hn]; exact ht, hm⟩, fun z => hpk z.1⟩
    · rintro (⟨hp, _, hm⟩ | ⟨⟨t, ht, hm⟩, hne⟩)
      · refine ⟨x, by rw [hn]; exact hx, ?_⟩
        rw [hpol, mget_mset, hp, hm]; simp
      · have hpk : p ≠ k := fun e => hne ⟨e, hn⟩
        refine ⟨x, by rw [hn]; exact hx, ?_⟩
        rw [hn] at ht
        rw [hpol, mget_mset, ht]; simp [hpk, hm]
  · have := insertPolicy_tiers s k np d n hn hname
    constructor
    · rintro ⟨y, hy, hm⟩
      rw [this] at hy
      exact Or.inr ⟨⟨y, hy, hm⟩, fun z => hn z.2⟩
    · rintro (⟨_, z, _⟩ | ⟨⟨y, hy, hm⟩, _⟩)
      · exact absurd z hn
      · exact ⟨y, by rw [this]; exact hy, hm⟩

theorem holdsIn_updatePolicy_none {s : Sorter} (h : SInv s) (hu : Uniq s) (k : PolicyKey)
    (p : PolicyKey) (n : String) (m : PolMeta) :
    holdsIn (s.updatePolicy k none).1 p n m ↔ (holdsIn s p n m ∧ p ≠ k) := by
  simp only [Sorter.updatePolicy]
  cases hot : s.tierHolding k with
  | none =>
    have := tierHolding_none h hot
    constructor
    · intro hx; exact ⟨hx, fun e => this n m (e ▸ hx)⟩
    · exact fun hx => hx.1
  | some t =>
    obtain ⟨ht, hk⟩ := tierHolding_holds h hot
    cases hp : mget t.policies k with
    | none => rw [hp] at hk; cases hk
    | some op =>
      simp only [hp]
      rw [holdsIn_removeFrom h ht]
      constructor
      · rintro ⟨hx, hne⟩
        refine ⟨hx, fun e => hne ⟨e, ?_⟩⟩
        subst e
        exact hu p n t.name m op hx ⟨t, ht, hp⟩
      · rintro ⟨hx, hne⟩
        exact ⟨hx, fun e => hne e.1⟩

theorem holdsIn_updatePolicy_some {s : Sorter} (h : SInv s) (hu : Uniq s) (k : PolicyKey) (np : PolMeta)
    (p : PolicyKey) (n : String) (m : PolMeta) :
    holdsIn (s.updatePolicy k (some np)).1 p n m ↔ ((p = k ∧ n = np.tier ∧ m = np) ∨ (holdsIn s p n m ∧ p ≠ k)) := by
  simp only [Sorter.updatePolicy]
  cases hot : s.tierHolding k with
  | none =>
    have hnone := tierHolding_none h hot
    simp only
    rw [holdsIn_insertPolicy h]
    constructor
    · rintro (x | ⟨hx, _⟩)
      · exact Or.inl x
      · exact Or.inr ⟨hx, fun e => hnone n m (e ▸ hx)⟩
    · rintro (x | ⟨hx, hne⟩)
      · exact Or.inl x
      · exact Or.inr ⟨hx, fun e => hne e.1⟩
  | some ot =>
    obtain ⟨ht, hk⟩ := tierHolding_holds h hot
    cases hp : mget ot.policies k with
    | none => rw [hp] at hk; cases hk
    | some op =>
      by_cases hc : ot.name = np.tier
      · simp only [hc, ne_eq, not_true_eq_false, if_false]
        rw [holdsIn_insertPolicy h]
        constructor
        · rintro (x | ⟨hx, hne⟩)
          · exact Or.inl x
          · refine Or.inr ⟨hx, fun e => hne ⟨e, ?_⟩⟩
            subst e
            rw [← hc]; exact hu p n ot.name m op hx ⟨ot, ht, hp⟩
        · rintro (x | ⟨hx, hne⟩)
          · exact Or.inl x
          · exact Or.inr ⟨hx, fun e => hne e.1⟩
      · simp only [ne_eq, hc, not_false_eq_true, if_true, hp]
        rw [holdsIn_insertPolicy (h.removeFrom ot ht k op), holdsIn_removeFrom h ht]
        constructor
        · rintro (x | ⟨⟨hx, hne1⟩, _⟩)
          · exact Or.inl x
          · refine Or.inr ⟨hx, fun e => hne1 ⟨e, ?_⟩⟩
            subst e
            exact hu p n ot.name m op hx ⟨ot, ht, hp⟩
        · rintro (x | ⟨hx, hne⟩)
          · exact Or.inl x
          · exact Or.inr ⟨⟨hx, fun e => hne e.1⟩, fun e => hne e.1⟩

theorem holdsIn_updatePolicy {s : Sorter} (h : SInv s) (hu : Uniq s) (k : PolicyKey) (v : Option PolMeta)
    (p : PolicyKey) (n : String) (m : PolMeta) :
    holdsIn (s.updatePolicy k v).1 p n m ↔ ((p = k ∧ v = some m ∧ n = m.tier) ∨ (holdsIn s p n m ∧ p ≠ k)) := by
  cases v with
  | none => rw [holdsIn_updatePolicy_none h hu]; simp
  | some np =>
    rw [holdsIn_updatePolicy_some h hu]
    constructor
    · rintro (⟨a, b, c⟩ | x)
      · subst c; exact Or.inl ⟨a, rfl, b⟩
      · exact Or.inr x
    · rintro (⟨a, b, c⟩ | x)
      · simp only [Option.some.injEq] at b; subst b; exact Or.inl ⟨a, c, rfl⟩
      · exact Or.inr x

theorem Uniq.updatePolicy {s : Sorter} (h : SInv s) (hu : Uniq s) (k : PolicyKey) (v : Option PolMeta) :
    Uniq (s.updatePolicy k v).1 := by
  intro p n n' m m' h1 h2
  rw [holdsIn_updatePolicy h hu] at h1 h2
  rcases h1 with ⟨a1, b1, c1⟩ | ⟨x1, y1⟩ <;> rcases h2 with ⟨a2, b2, c2⟩ | ⟨x2, y2⟩
  · rw [b1] at b2; simp only [Option.some.injEq] at b2; subst b2; rw [c1, c2]
  · exact absurd a1 y2
  · exact absurd a2 y1
  · exact hu p n n' m m' x1 x2

theorem holdsIn_onTierUpdate {s : Sorter} (h : SInv s) (name : String) (v : Option (Option Int × String))
    (p : PolicyKey) (n : String) (m : PolMeta) :
    holdsIn (s.onTierUpdate name v).1 p n m ↔ holdsIn s p n m := by
  unfold Sorter.onTierUpdate holdsIn
  cases v with
  | some ov =>
    obtain ⟨order, act⟩ := ov
    simp only
    cases ht : mget s.tiers name with
    | none =>
      simp only [mget_mset]
      by_cases hn : n = name
      · subst hn; simp [ht]
      · simp [hn]
    | some t =>
      simp only [mget_mset]
      by_cases hn : n = name
      · subst hn; simp [ht]
      · simp [hn]
  | none =>
    simp only
    cases ht : mget s.tiers name with
    | none => simp
    | some t =>
      simp only
      by_cases he : t.policies.isEmpty = true
      · simp only [he, if_true, mget_mdel]
        by_cases hn : n = name
        · subst hn
          simp only [if_true, ht, Option.some.injEq, exists_eq_left']
          have : t.policies = [] := by simpa [List.isEmpty_iff] using he
          simp [this]
        · simp [hn]
      · simp only [he, Bool.false_eq_true, if_false, mget_mset]
        by_cases hn : n = name
        · subst hn; simp [ht]
        · simp [hn]

theorem Uniq.onTierUpdate {s : Sorter} (h : SInv s) (hu : Uniq s) (name : String) (v : Option (Option Int × String)) :
    Uniq (s.onTierUpdate name v).1 := by
  intro p n n' m m' h1 h2
  rw [holdsIn_onTierUpdate h] at h1 h2
  exact hu p n n' m m' h1 h2

/-! ### resolver level -/

theorem polHasMatch_iff (r : Resolver) (k : PolicyKey) : r.polHasMatch k = true ↔ ∃ e, (k, e) ∈ r.matched := by
  simp only [Resolver.polHasMatch, List.any_eq_true, decide_eq_true_eq]
  constructor
  · rintro ⟨⟨k', e⟩, hm, hk⟩; simp only at hk; subst hk; exact ⟨e, hm⟩
  · rintro ⟨e, hm⟩; exact ⟨(k, e), hm, rfl⟩

/-- The sorter holds only policies that currently match some endpoint, each in the tier named by —
and with exactly — its current metadata; a policy waiting for the next flush still matches. -/
structure RInv (r : Resolver) : Prop where
  sinv : SInv r.sorter
  uniq : Uniq r.sorter
  held : ∀ p n m, holdsIn r.sorter p n m → r.polHasMatch p = true ∧ mget r.allPolicies p = some m ∧ m.tier = n
  pend : ∀ p, p ∈ r.pending → r.polHasMatch p = true

theorem RInv.init : RInv {} :=
  ⟨SInv.init, by intro p n n' m m' h1; obtain ⟨t, ht, _⟩ := h1; simp at ht,
   by intro p n m h1; obtain ⟨t, ht, _⟩ := h1; simp at ht, by simp⟩

theorem RInv.step {r : Resolver} (h : RInv r) (e : Event) : RInv (r.step e) := by
  obtain ⟨hs, hu, hh, hp⟩ := h
  cases e with
  | endpoint k v => cases v <;> exact ⟨hs, hu, hh, hp⟩
  | status b =>
    simp only [Resolver.step]
    split <;> exact ⟨hs, hu, hh, hp⟩
  | tier name v =>
    refine ⟨hs.onTierUpdate name v, hu.onTierUpdate hs name v, ?_, hp⟩
    intro p n m hx
    simp only [Resolver.step] at hx
    rw [holdsIn_onTierUpdate hs] at hx
    exact hh p n m hx
  | matchStarted p e =>
    have mono : ∀ q, r.polHasMatch q = true → (r.step (.matchStarted p e)).polHasMatch q = true := by
      intro q hq
      rw [polHasMatch_iff] at hq ⊢
      obtain ⟨e', he'⟩ := hq
      refine ⟨e', ?_⟩
      simp only [Resolver.step]
      split <;> simp [he']
    have hnew : (r.step (.matchStarted p e)).polHasMatch p = true := by
      rw [polHasMatch_iff]
      refine ⟨e, ?_⟩
      simp only [Resolver.step]
      split <;> simp
    refine ⟨?_, ?_, ?_, ?_⟩
    · simp only [Resolver.step]; split <;> exact hs
    · simp only [Resolver.step]; split <;> exact hu
    · intro q n m hx
      have hx' : holdsIn r.sorter q n m := by
        simp only [Resolver.step] at hx; split at hx <;> exact hx
      obtain ⟨a, b, c⟩ := hh q n m hx'
      refine ⟨mono q a, ?_, c⟩
      simp only [Resolver.step]; split <;> exact b
    · intro q hq
      have : q = p ∨ q ∈ r.pending := by
        simp only [Resolver.step] at hq
        split at hq
        · simpa using hq
        · exact Or.inr hq
      rcases this with rfl | hq'
      · exact hnew
      · exact mono q (hp q hq')
  | matchStopped p e =>
    simp only [Resolver.step]
    have other : ∀ q, q ≠ p → ∀ r' : Resolver, r'.matched = sdel (p, e) r.matched →
        (r'.polHasMatch q = true ↔ r.polHasMatch q = true) := by
      intro q hq r' hr'
      rw [polHasMatch_iff, polHasMatch_iff, hr']
      constructor
      · rintro ⟨e', he'⟩; exact ⟨e', (mem_sdel.1 he').1⟩
      · rintro ⟨e', he'⟩; exact ⟨e', mem_sdel.2 ⟨he', fun x => hq (Prod.ext_iff.1 x).1⟩⟩
    split
    · rename_i hno
      -- last match of p stopped: p leaves the sorter and the pending set
      refine ⟨hs.updatePolicy p none, hu.updatePolicy hs p none, ?_, ?_⟩
      · intro q n m hx
        rw [holdsIn_updatePolicy hs hu] at hx
        rcases hx with ⟨_, x, _⟩ | ⟨hx, hqp⟩
        · cases x
        · obtain ⟨a, b, c⟩ := hh q n m hx
          exact ⟨(other q hqp _ rfl).2 a, b, c⟩
      · intro q hq
        simp only [mem_sdel] at hq
        exact (other q hq.2 _ rfl).2 (hp q hq.1)
    · rename_i hyes
      have hyes' : ({ r with matched := sdel (p, e) r.matched } : Resolver).polHasMatch p = true := by
        simpa using hyes
      have all : ∀ q, r.polHasMatch q = true → ({ r with matched := sdel (p, e) r.matched } : Resolver).polHasMatch q = true := by
        intro q hq
        by_cases hqp : q = p
        · subst hqp; exact hyes'
        · exact (other q hqp _ rfl).2 hq
      refine ⟨hs, hu, ?_, ?_⟩
      · intro q n m hx
        obtain ⟨a, b, c⟩ := hh q n m hx
        exact ⟨all q a, b, c⟩
      · intro q hq; exact all q (hp q hq)
  | policy k v =>
    simp only [Resolver.step]
    -- the bookkeeping of allPolicies / pending first
    have e_sorter : (r.recordPolicy k v).sorter = r.sorter := by cases v <;> rfl
    have e_matched : (r.recordPolicy k v).matched = r.matched := by cases v <;> rfl
    have e_all : ∀ q, q ≠ k → mget (r.recordPolicy k v).allPolicies q = mget r.allPolicies q := by
      intro q hq; cases v <;> simp [Resolver.recordPolicy, mget_mdel, mget_mset, hq]
    have e_allk : mget (r.recordPolicy k v).allPolicies k = v.map extractPolicyMetadata := by
      cases v <;> simp [Resolver.recordPolicy, mget_mdel, mget_mset]
    have e_pend : ∀ q, q ∈ (r.recordPolicy k v).pending → q ∈ r.pending := by
      intro q hq
      cases v with
      | none => exact (mem_sdel.1 hq).1
      | some _ => exact hq
    have e_hm : ∀ q, (r.recordPolicy k v).polHasMatch q = r.polHasMatch q := by
      intro q; simp [Resolver.polHasMatch, e_matched]
    generalize r.recordPolicy k v = r1 at *
    obtain ⟨f1, f2, f3, f4, _, _⟩ := applyPolicy_fields r1 k (v.map extractPolicyMetadata)
    have f_hm : ∀ q, (r1.applyPolicy k (v.map extractPolicyMetadata)).polHasMatch q = r.polHasMatch q := by
      intro q; rw [← e_hm q]; simp [Resolver.polHasMatch, f2]
    have hs1 : SInv r1.sorter := e_sorter ▸ hs
    have hu1 : Uniq r1.sorter := e_sorter ▸ hu
    by_cases hm : r1.polHasMatch k = true
    · -- matched: the sorter entry is refreshed (or dropped) from the new datastore value
      have f1' : (r1.applyPolicy k (v.map extractPolicyMetadata)).sorter = (r1.sorter.updatePolicy k (v.map extractPolicyMetadata)).1 := by
        rw [f1]; simp [hm]
      refine ⟨f1' ▸ hs1.updatePolicy k _, f1' ▸ hu1.updatePolicy hs1 k _, ?_, ?_⟩
      · intro q n m hx
        rw [f1', holdsIn_updatePolicy hs1 hu1] at hx
        rw [f_hm, f3]
        rcases hx with ⟨rfl, hv, hn⟩ | ⟨hx, hqk⟩
        · refine ⟨by rw [← e_hm]; exact hm, ?_, hn.symm⟩
          rw [e_allk, hv]
        · rw [e_sorter] at hx
          obtain ⟨a, b, c⟩ := hh q n m hx
          exact ⟨a, by rw [e_all q hqk]; exact b, c⟩
      · intro q hq
        rw [f4] at hq
        rw [f_hm]; exact hp q (e_pend q hq)
    · -- not matched: the sorter does not hold k, nothing to do
      have f1' : (r1.applyPolicy k (v.map extractPolicyMetadata)).sorter = r.sorter := by
        rw [f1, e_sorter]; simp [hm]
      refine ⟨f1' ▸ hs, f1' ▸ hu, ?_, ?_⟩
      · intro q n m hx
        rw [f1'] at hx
        obtain ⟨a, b, c⟩ := hh q n m hx
        have hqk : q ≠ k := by
          intro e; subst e
          rw [e_hm, a] at hm; exact hm rfl
        rw [f_hm, f3]
        exact ⟨a, by rw [e_all q hqk]; exact b, c⟩
      · intro q hq
        rw [f4] at hq
        rw [f_hm]; exact hp q (e_pend q hq)

theorem RInv.foldPending {r : Resolver} (l : List PolicyKey)
    (s : Sorter) (hs : SInv s) (hu : Uniq s)
    (hh : ∀ p n m, holdsIn s p n m → r.polHasMatch p = true ∧ mget r.allPolicies p = some m ∧ m.tier = n)
    (hl : ∀ p ∈ l, r.polHasMatch p = true) :
    let s' := l.foldl (Sorter.resolvePending r.allPolicies) s
    SInv s' ∧ Uniq s' ∧
      (∀ p n m, holdsIn s' p n m → r.polHasMatch p = true ∧ mget r.allPolicies p = some m ∧ m.tier = n) := by
  induction l generalizing s with
  | nil => exact ⟨hs, hu, hh⟩
  | cons k t ih =>
    simp only [List.foldl_cons]
    apply ih
    · unfold Sorter.resolvePending
      cases mget r.allPolicies k with
      | none => exact hs
      | some m => exact hs.updatePolicy k _
    · unfold Sorter.resolvePending
      cases mget r.allPolicies k with
      | none => exact hu
      | some m => exact hu.updatePolicy hs k _
    · intro p n m hx
      unfold Sorter.resolvePending at hx
      cases hk : mget r.allPolicies k with
      | none => rw [hk] at hx; exact hh p n m hx
      | some mk =>
        rw [hk] at hx
        simp only at hx
        rw [holdsIn_updatePolicy hs hu] at hx
        rcases hx with ⟨rfl, hv, hn⟩ | ⟨hx, _⟩
        · simp only [Option.some.injEq] at hv; subst hv
          exact ⟨hl p (by simp), hk, hn.symm⟩
        · exact hh p n m hx
    · intro p hp; exact hl p (by simp [hp])

theorem RInv.flush {r r' : Resolver} {calls : List Call} (h : RInv r) (hf : r.flush = some (r', calls)) : RInv r' := by
  unfold Resolver.flush at hf
  by_cases hs : r.inSync = true
  · simp only [hs, Bool.not_true, Bool.false_eq_true, if_false] at hf
    have hfold := RInv.foldPending (r := r) (r.pending.filter (fun k => (mget r.allPolicies k).isSome))
      r.sorter h.sinv h.uniq h.held (fun p hp => h.pend p (List.mem_filter.1 hp).1)
    obtain ⟨a, b, c⟩ := hfold
    split at hf
    · cases hf
    · simp only [Option.some.injEq, Prod.mk.injEq] at hf
      obtain ⟨rfl, _⟩ := hf
      exact ⟨a, b, c, fun p hp => h.pend p (List.mem_filter.1 hp).1⟩
  · simp only [hs, Bool.not_false, if_true, Option.some.injEq, Prod.mk.injEq] at hf
    obtain ⟨rfl, _⟩ := hf
    exact h

/-- For every history: whatever the sorter holds currently matches an endpoint and carries the
policy's current metadata, in the tier that metadata names. -/
theorem runR_content {r : Resolver} (h : RInv r) (hist : List RStep) {r' : Resolver}
    {outs : List (List (PolicyKey × EpKey) × List Call)} (hr : runR r hist = some (r', outs)) : RInv r' := by
  induction hist generalizing r outs with
  | nil => simp only [runR, Option.some.injEq, Prod.mk.injEq] at hr; obtain ⟨rfl, _⟩ := hr; exact h
  | cons st t ih =>
    cases st with
    | ev e => exact ih (h.step e) hr
    | flush =>
      simp only [runR] at hr
      cases hf : r.flush with
      | none => simp [hf] at hr
      | some x =>
        obtain ⟨r1, calls⟩ := x
        simp only [hf] at hr
        cases hr2 : runR r1 t with
        | none => simp [hr2] at hr
        | some y =>
          obtain ⟨r2, outs2⟩ := y
          simp only [hr2, Option.some.injEq, Prod.mk.injEq] at hr
          obtain ⟨rfl, _⟩ := hr
          exact ih (h.flush hf) hr2

/-! ### completeness: a matched, known policy is held by the sorter or waits for the next flush -/

def Held (s : Sorter) (p : PolicyKey) : Prop := ∃ n m, holdsIn s p n m

theorem hasPolicy_iff {s : Sorter} (h : SInv s) (p : PolicyKey) : s.hasPolicy p = true ↔ Held s p := by
  unfold Sorter.hasPolicy
  cases ht : s.tierHolding p with
  | none =>
    simp only [Option.isSome_none, Bool.false_eq_true, false_iff]
    rintro ⟨n, m, hx⟩; exact tierHolding_none h ht n m hx
  | some t =>
    simp only [Option.isSome_some, true_iff]
    obtain ⟨a, b⟩ := tierHolding_holds h ht
    cases hm : mget t.policies p with
    | none => rw [hm] at b; cases b
    | some m => exact ⟨t.name, m, t, a, hm⟩

def Compl (r : Resolver) : Prop :=
  ∀ p, r.polHasMatch p = true → (mget r.allPolicies p).isSome → Held r.sorter p ∨ p ∈ r.pending

theorem held_updatePolicy_other {s : Sorter} (h : SInv s) (hu : Uniq s) (k : PolicyKey) (v : Option PolMeta)
    (q : PolicyKey) (hq : q ≠ k) : Held (s.updatePolicy k v).1 q ↔ Held s q := by
  unfold Held
  constructor
  · rintro ⟨n, m, hx⟩
    rw [holdsIn_updatePolicy h hu] at hx
    rcases hx with ⟨e, _⟩ | ⟨hx, _⟩
    · exact absurd e hq
    · exact ⟨n, m, hx⟩
  · rintro ⟨n, m, hx⟩
    exact ⟨n, m, (holdsIn_updatePolicy h hu k v q n m).2 (Or.inr ⟨hx, hq⟩)⟩

theorem held_updatePolicy_self {s : Sorter} (h : SInv s) (hu : Uniq s) (k : PolicyKey) (m : PolMeta) :
    Held (s.updatePolicy k (some m)).1 k :=
  ⟨m.tier, m, (holdsIn_updatePolicy h hu k (some m) k m.tier m).2 (Or.inl ⟨rfl, rfl, rfl⟩)⟩

theorem Compl.step {r : Resolver} (h : RInv r) (hc : Compl r) (e : Event) : Compl (r.step e) := by
  obtain ⟨hs, hu, hh, hp⟩ := h
  cases e with
  | endpoint k v => cases v <;> exact hc
  | status b =>
    simp only [Resolver.step]
    split <;> exact hc
  | tier name v =>
    intro p h1 h2
    rcases hc p h1 h2 with ⟨n, m, hx⟩ | hx
    · exact Or.inl ⟨n, m, (holdsIn_onTierUpdate hs name v p n m).2 hx⟩
    · exact Or.inr hx
  | matchStarted p e =>
    intro q h1 h2
    have hall : mget (r.step (.matchStarted p e)).allPolicies q = mget r.allPolicies q := by
      simp only [Resolver.step]; split <;> rfl
    have hsort : (r.step (.matchStarted p e)).sorter = r.sorter := by
      simp only [Resolver.step]; split <;> rfl
    rw [hall] at h2
    rw [hsort]
    by_cases hqp : q = p
    · subst hqp
      by_cases hhas : r.sorter.hasPolicy q = true
      · exact Or.inl ((hasPolicy_iff hs q).1 hhas)
      · right
        simp only [Resolver.step, hhas, Bool.not_false, if_true, Bool.false_eq_true]
        simp
    · have : r.polHasMatch q = true := by
        rw [polHasMatch_iff] at h1 ⊢
        obtain ⟨e', he'⟩ := h1
        have : (q, e') ∈ sadd (p, e) r.matched := by
          simp only [Resolver.step] at he'; split at he' <;> exact he'
        rw [mem_sadd] at this
        rcases this with x | x
        · exact absurd (Prod.ext_iff.1 x).1 hqp
        · exact ⟨e', x⟩
      rcases hc q this h2 with x | x
      · exact Or.inl x
      · right
        simp only [Resolver.step]; split
        · simp [x]
        · exact x
  | matchStopped p e =>
    intro q h1 h2
    simp only [Resolver.step] at h1 h2 ⊢
    have sub : ∀ q', ({ r with matched := sdel (p, e) r.matched } : Resolver).polHasMatch q' = true → r.polHasMatch q' = true := by
      intro q' hq'
      rw [polHasMatch_iff] at hq' ⊢
      obtain ⟨e', he'⟩ := hq'
      exact ⟨e', (mem_sdel.1 he').1⟩
    split at h1
    · rename_i hno
      have h1' : ({ r with matched := sdel (p, e) r.matched } : Resolver).polHasMatch q = true := h1
      have hqp : q ≠ p := by
        intro e'; subst e'
        rw [h1'] at hno; simp at hno
      rw [if_pos hno] at h2 ⊢
      rcases hc q (sub q h1') h2 with x | x
      · exact Or.inl ((held_updatePolicy_other hs hu p none q hqp).2 x)
      · exact Or.inr (mem_sdel.2 ⟨x, hqp⟩)
    · rename_i hyes
      rw [if_neg hyes] at h2 ⊢
      exact hc q (sub q h1) h2
  | policy k v =>
    simp only [Resolver.step]
    have e_sorter : (r.recordPolicy k v).sorter = r.sorter := by cases v <;> rfl
    have e_matched : (r.recordPolicy k v).matched = r.matched := by cases v <;> rfl
    have e_all : ∀ q, q ≠ k → mget (r.recordPolicy k v).allPolicies q = mget r.allPolicies q := by
      intro q hq; cases v <;> simp [Resolver.recordPolicy, mget_mdel, mget_mset, hq]
    have e_allk : mget (r.recordPolicy k v).allPolicies k = v.map extractPolicyMetadata := by
      cases v <;> simp [Resolver.recordPolicy, mget_mdel, mget_mset]
    have e_pend : ∀ q, q ≠ k → q ∈ r.pending → q ∈ (r.recordPolicy k v).pending := by
      intro q hq hx
      cases v with
      | none => exact mem_sdel.2 ⟨hx, hq⟩
      | some _ => exact hx
    have e_pendk : v.isSome → k ∈ r.pending → k ∈ (r.recordPolicy k v).pending := by
      intro hv hx; cases v with
      | none => cases hv
      | some _ => exact hx
    have e_hm : ∀ q, (r.recordPolicy k v).polHasMatch q = r.polHasMatch q := by
      intro q; simp [Resolver.polHasMatch, e_matched]
    generalize r.recordPolicy k v = r1 at *
    obtain ⟨f1, f2, f3, f4, _, _⟩ := applyPolicy_fields r1 k (v.map extractPolicyMetadata)
    have f_hm : ∀ q, (r1.applyPolicy k (v.map extractPolicyMetadata)).polHasMatch q = r.polHasMatch q := by
      intro q; rw [← e_hm q]; simp [Resolver.polHasMatch, f2]
    have hs1 : SInv r1.sorter := e_sorter ▸ hs
    have hu1 : Uniq r1.sorter := e_sorter ▸ hu
    intro q h1 h2
    rw [f_hm] at h1
    rw [f3] at h2
    rw [f4]
    by_cases hm : r1.polHasMatch k = true
    · have f1' : (r1.applyPolicy k (v.map extractPolicyMetadata)).sorter = (r1.sorter.updatePolicy k (v.map extractPolicyMetadata)).1 := by
        rw [f1]; simp [hm]
      rw [f1']
      by_cases hqk : q = k
      · subst hqk
        rw [e_allk] at h2
        cases hv : v.map extractPolicyMetadata with
        | none => rw [hv] at h2; cases h2
        | some m => exact Or.inl (held_updatePolicy_self hs1 hu1 q m)
      · rw [e_all q hqk] at h2
        rcases hc q h1 h2 with x | x
        · exact Or.inl ((held_updatePolicy_other hs1 hu1 k _ q hqk).2 (e_sorter ▸ x))
        · exact Or.inr (e_pend q hqk x)
    · have f1' : (r1.applyPolicy k (v.map extractPolicyMetadata)).sorter = r.sorter := by
        rw [f1, e_sorter]; simp [hm]
      rw [f1']
      have hqk : q ≠ k := by
        intro e; subst e
        rw [e_hm, h1] at hm; exact hm rfl
      rw [e_all q hqk] at h2
      rcases hc q h1 h2 with x | x
      · exact Or.inl x
      · exact Or.inr (e_pend q hqk x)

theorem foldPending_held (all : List (PolicyKey × PolMeta)) (l : List PolicyKey) (s : Sorter) (hs : SInv s) (hu : Uniq s)
    (hl : ∀ k ∈ l, (mget all k).isSome) (q : PolicyKey) (hq : q ∈ l ∨ Held s q) :
    Held (l.foldl (Sorter.resolvePending all) s) q := by
  induction l generalizing s with
  | nil =>
    rcases hq with x | x
    · cases x
    · exact x
  | cons k t ih =>
    simp only [List.foldl_cons]
    have hk := hl k (by simp)
    cases hm : mget all k with
    | none => rw [hm] at hk; cases hk
    | some mk =>
      have e : Sorter.resolvePending all s k = (s.updatePolicy k (some mk)).1 := by
        unfold Sorter.resolvePending; rw [hm]
      rw [e]
      apply ih _ (hs.updatePolicy k _) (hu.updatePolicy hs k _) (fun k' hk' => hl k' (by simp [hk']))
      by_cases hqk : q = k
      · subst hqk; exact Or.inr (held_updatePolicy_self hs hu q mk)
      · rcases hq with x | x
        · simp only [List.mem_cons] at x
          rcases x with x | x
          · exact absurd x hqk
          · exact Or.inl x
        · exact Or.inr ((held_updatePolicy_other hs hu k _ q hqk).2 x)

/-- After a flush in sync, every policy that matches an endpoint and exists in the datastore is held
by the sorter (and nothing waits any more except matches for policies the datastore does not have). -/
theorem Compl.flush {r r' : Resolver} {calls : List Call} (h : RInv r) (hc : Compl r)
    (hf : r.flush = some (r', calls)) :
    Compl r' ∧ (r.inSync = true → ∀ p, r'.polHasMatch p = true → (mget r'.allPolicies p).isSome → Held r'.sorter p) := by
  unfold Resolver.flush at hf
  by_cases hs : r.inSync = true
  · simp only [hs, Bool.not_true, Bool.false_eq_true, if_false] at hf
    split at hf
    · cases hf
    · simp only [Option.some.injEq, Prod.mk.injEq] at hf
      obtain ⟨rfl, _⟩ := hf
      have key : ∀ p, r.polHasMatch p = true → (mget r.allPolicies p).isSome →
          Held ((r.pending.filter (fun k => (mget r.allPolicies k).isSome)).foldl (Sorter.resolvePending r.allPolicies) r.sorter) p := by
        intro p h1 h2
        apply foldPending_held r.allPolicies _ r.sorter h.sinv h.uniq (fun k hk => (List.mem_filter.1 hk).2)
        rcases hc p h1 h2 with x | x
        · exact Or.inr x
        · exact Or.inl (List.mem_filter.2 ⟨x, h2⟩)
      exact ⟨fun p h1 h2 => Or.inl (key p h1 h2), fun _ p h1 h2 => key p h1 h2⟩
  · simp only [hs, Bool.not_false, if_true, Option.some.injEq, Prod.mk.injEq] at hf
    obtain ⟨rfl, _⟩ := hf
    exact ⟨hc, fun x => absurd x hs⟩

theorem Compl.init : Compl {} := by intro p h1; simp [Resolver.polHasMatch] at h1

/-- history version: the content invariant incl. completeness, and what holds right after a flush in sync -/
theorem runR_complete {r : Resolver} (h : RInv r) (hc : Compl r) (hist : List RStep) {r' : Resolver}
    {outs : List (List (PolicyKey × EpKey) × List Call)} (hr : runR r (hist ++ [.flush]) = some (r', outs))
    (hsync : ∀ r0 outs0, runR r hist = some (r0, outs0) → r0.inSync = true) :
    ∀ p, r'.polHasMatch p = true → (mget r'.allPolicies p).isSome → Held r'.sorter p := by
  induction hist generalizing r outs with
  | nil =>
    simp only [List.nil_append, runR] at hr
    cases hf : r.flush with
    | none => simp [hf] at hr
    | some x =>
      obtain ⟨r1, calls⟩ := x
      simp only [hf, Option.some.injEq, Prod.mk.injEq] at hr
      obtain ⟨rfl, _⟩ := hr
      exact (hc.flush h hf).2 (hsync r [] rfl)
  | cons st t ih =>
    cases st with
    | ev e =>
      simp only [List.cons_append, runR] at hr
      exact ih (h.step e) (hc.step h e) hr (fun r0 outs0 hx => hsync r0 outs0 (by simpa [runR] using hx))
    | flush =>
      simp only [List.cons_append, runR] at hr
      cases hf : r.flush with
      | none => simp [hf] at hr
      | some x =>
        obtain ⟨r1, calls⟩ := x
        simp only [hf] at hr
        cases hr2 : runR r1 (t ++ [.flush]) with
        | none => simp [hr2] at hr
        | some y =>
          obtain ⟨r2, outs2⟩ := y
          simp only [hr2, Option.some.injEq, Prod.mk.injEq] at hr
          obtain ⟨rfl, _⟩ := hr
          refine ih (h.flush hf) (hc.flush h hf).1 hr2 ?_
          intro r0 outs0 hx
          exact hsync r0 ((r.matched, calls) :: outs0) (by simp [runR, hf, hx])

end CalicoVerif.C03
