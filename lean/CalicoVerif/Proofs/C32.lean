import CalicoVerif.Model.C32
/-! C32 — helper lemmas for Props/C32: ring index arithmetic, contiguity, the per-key window store, the ghost log invariant, queries, emission. -/
namespace CalicoVerif.C32

/-! ### ring index arithmetic -/

theorem sub_mod_cases (i n k : Nat) (hi : i < n) (hk : k ≤ n) :
    (i + n - k) % n = if k ≤ i then i - k else i + n - k := by
  by_cases h : k ≤ i
  · simp only [h, if_true]
    have : i + n - k = (i - k) + n := by omega
    rw [this, Nat.add_mod_right, Nat.mod_eq_of_lt (by omega)]
  · simp only [h, if_false]
    exact Nat.mod_eq_of_lt (by omega)

theorem add_one_mod_cases (i n : Nat) (hi : i < n) : (i + 1) % n = if i + 1 = n then 0 else i + 1 := by
  by_cases h : i + 1 = n
  · simp only [h, if_true]; rw [← h]; exact Nat.mod_self _
  · simp only [h, if_false]; exact Nat.mod_eq_of_lt (by omega)

theorem idxSub_lt (r : Ring) (i k : Nat) (hn : 0 < r.n) : r.idxSub i k < r.n := Nat.mod_lt _ hn
theorem idxAdd_lt (r : Ring) (i k : Nat) (hn : 0 < r.n) : r.idxAdd i k < r.n := Nat.mod_lt _ hn

/-- `k ↦ idxSub head k` is injective on `[0, n)` and hits every index -/
theorem idxSub_inj (r : Ring) (h k1 k2 : Nat) (hh : h < r.n) (h1 : k1 < r.n) (h2 : k2 < r.n)
    (he : r.idxSub h k1 = r.idxSub h k2) : k1 = k2 := by
  unfold Ring.idxSub at he
  rw [sub_mod_cases h r.n k1 hh (by omega), sub_mod_cases h r.n k2 hh (by omega)] at he
  split at he <;> split at he <;> omega

theorem idxSub_surj (r : Ring) (h i : Nat) (hh : h < r.n) (hi : i < r.n) :
    ∃ k, k < r.n ∧ r.idxSub h k = i := by
  by_cases hle : i ≤ h
  · refine ⟨h - i, by omega, ?_⟩
    unfold Ring.idxSub
    rw [sub_mod_cases h r.n (h - i) hh (by omega)]; split <;> omega
  · refine ⟨h + r.n - i, by omega, ?_⟩
    unfold Ring.idxSub
    rw [sub_mod_cases h r.n (h + r.n - i) hh (by omega)]; split <;> omega

theorem idxAdd_one_eq_sub (r : Ring) (h : Nat) (hh : h < r.n) : r.idxAdd h 1 = r.idxSub h (r.n - 1) := by
  unfold Ring.idxAdd Ring.idxSub
  congr 1; omega

/-- stepping the head forward: `k` back from the new head is `k-1` back from the old one -/
theorem idxSub_next (r : Ring) (h k : Nat) (hh : h < r.n) (hk1 : 1 ≤ k) (hk : k < r.n) :
    (r.idxAdd h 1 + r.n - k) % r.n = r.idxSub h (k - 1) := by
  unfold Ring.idxAdd Ring.idxSub
  rw [add_one_mod_cases h r.n hh]
  split
  · rw [sub_mod_cases 0 r.n k (by omega) (by omega), sub_mod_cases h r.n (k - 1) hh (by omega)]
    split <;> split <;> omega
  · rw [sub_mod_cases (h + 1) r.n k (by omega) (by omega), sub_mod_cases h r.n (k - 1) hh (by omega)]
    split <;> split <;> omega

/-! ### contiguity of the ring -/

/-- The `j` newest buckets (head, head-1, …) tile time backwards from the end of history in steps of
`interval`. `Contig r` = all `n` of them. -/
structure PContig (r : Ring) (j : Nat) : Prop where
  npos : 0 < r.n
  hlt : r.head < r.n
  ipos : 0 < r.interval
  jle : j ≤ r.n
  tile : ∀ k, k < j → (r.bucket (r.idxSub r.head k)).stop = r.eoh - (k : Int) * r.interval ∧
                      (r.bucket (r.idxSub r.head k)).start = r.eoh - (k : Int) * r.interval - r.interval

def Contig (r : Ring) : Prop := PContig r r.n

theorem bucket_set_self (r : Ring) (i : Nat) (b : Bucket) (hi : i < r.n) :
    ({ r with buckets := r.buckets.set i b } : Ring).bucket i = b := by
  simp [Ring.bucket, Ring.n] at *; simp [hi]

theorem bucket_set_ne (r : Ring) (i j : Nat) (b : Bucket) (hne : i ≠ j) :
    ({ r with buckets := r.buckets.set i b } : Ring).bucket j = r.bucket j := by
  simp [Ring.bucket, List.getD_eq_getElem?_getD, List.getElem?_set_ne hne]


/-! ### operations that only touch `pushed` flags / `dia` keep the time layout -/

structure SameTimes (a b : Ring) : Prop where
  head : a.head = b.head
  interval : a.interval = b.interval
  len : a.buckets.length = b.buckets.length
  bk : ∀ i, (a.bucket i).start = (b.bucket i).start ∧ (a.bucket i).stop = (b.bucket i).stop ∧
            (a.bucket i).keys = (b.bucket i).keys

theorem SameTimes.refl (a : Ring) : SameTimes a a := ⟨rfl, rfl, rfl, fun _ => ⟨rfl, rfl, rfl⟩⟩
theorem SameTimes.trans {a b c : Ring} (h1 : SameTimes a b) (h2 : SameTimes b c) : SameTimes a c :=
  ⟨h1.head.trans h2.head, h1.interval.trans h2.interval, h1.len.trans h2.len,
   fun i => ⟨(h1.bk i).1.trans (h2.bk i).1, (h1.bk i).2.1.trans (h2.bk i).2.1, (h1.bk i).2.2.trans (h2.bk i).2.2⟩⟩

theorem markStep_same (bs : List Bucket) (i j : Nat) :
    ((bs.set i { (bs.getD i emptyBucket) with pushed := true }).getD j emptyBucket).start = (bs.getD j emptyBucket).start ∧
    ((bs.set i { (bs.getD i emptyBucket) with pushed := true }).getD j emptyBucket).stop = (bs.getD j emptyBucket).stop ∧
    ((bs.set i { (bs.getD i emptyBucket) with pushed := true }).getD j emptyBucket).keys = (bs.getD j emptyBucket).keys := by
  by_cases h : i = j
  · subst h
    by_cases hl : i < bs.length
    · simp [List.getD_eq_getElem?_getD, List.getElem?_set_self hl]
    · rw [List.set_eq_of_length_le (Nat.le_of_not_lt hl)]
      exact ⟨rfl, rfl, rfl⟩
  · simp [List.getD_eq_getElem?_getD, List.getElem?_set_ne h]

theorem markFold_same (idxs : List Nat) (bs : List Bucket) :
    (idxs.foldl (fun bs i => bs.set i { (bs.getD i emptyBucket) with pushed := true }) bs).length = bs.length ∧
    ∀ j, ((idxs.foldl (fun bs i => bs.set i { (bs.getD i emptyBucket) with pushed := true }) bs).getD j emptyBucket).start = (bs.getD j emptyBucket).start ∧
         ((idxs.foldl (fun bs i => bs.set i { (bs.getD i emptyBucket) with pushed := true }) bs).getD j emptyBucket).stop = (bs.getD j emptyBucket).stop ∧
         ((idxs.foldl (fun bs i => bs.set i { (bs.getD i emptyBucket) with pushed := true }) bs).getD j emptyBucket).keys = (bs.getD j emptyBucket).keys := by
  induction idxs generalizing bs with
  | nil => exact ⟨rfl, fun _ => ⟨rfl, rfl, rfl⟩⟩
  | cons i is ih =>
    simp only [List.foldl_cons]
    have := ih (bs.set i { (bs.getD i emptyBucket) with pushed := true })
    refine ⟨by rw [this.1]; simp, fun j => ?_⟩
    have h2 := markStep_same bs i j
    have h1 := this.2 j
    exact ⟨h1.1.trans h2.1, h1.2.1.trans h2.2.1, h1.2.2.trans h2.2.2⟩

theorem markPushed_same (r : Ring) (idxs : List Nat) : SameTimes (r.markPushed idxs) r := by
  have := markFold_same idxs r.buckets
  exact ⟨rfl, rfl, this.1, fun j => this.2 j⟩

theorem markPushed_dia (r : Ring) (idxs : List Nat) : (r.markPushed idxs).dia = r.dia := rfl

theorem foldMark_same (cs : List Coll) (r : Ring) :
    SameTimes (cs.foldl (fun r c => r.markPushed c.idxs) r) r ∧ (cs.foldl (fun r c => r.markPushed c.idxs) r).dia = r.dia := by
  induction cs generalizing r with
  | nil => exact ⟨SameTimes.refl r, rfl⟩
  | cons c cs ih =>
    simp only [List.foldl_cons]
    have := ih (r.markPushed c.idxs)
    exact ⟨this.1.trans (markPushed_same r c.idxs), this.2.trans (markPushed_dia r c.idxs)⟩

theorem emit_same (r : Ring) : SameTimes r.emit.1 r ∧ r.emit.1.dia = r.dia := by
  unfold Ring.emit; exact foldMark_same _ r

/-- the ring right after the head moved and the new head bucket was reset (before the per-key expiry and the emission) -/
def Ring.advance (r : Ring) : Ring :=
  { r with head := r.idxAdd r.head 1,
           buckets := r.buckets.set (r.idxAdd r.head 1)
             { start := (r.bucket r.head).stop, stop := (r.bucket r.head).stop + r.interval, pushed := false, keys := [] } }

theorem rollover_same (r : Ring) (sink : Bool) : SameTimes (r.rollover sink).1 r.advance := by
  unfold Ring.rollover
  simp only []
  split
  · exact (emit_same _).1.trans ⟨rfl, rfl, rfl, fun _ => ⟨rfl, rfl, rfl⟩⟩
  · exact ⟨rfl, rfl, rfl, fun _ => ⟨rfl, rfl, rfl⟩⟩

theorem PContig.of_same {a b : Ring} {j : Nat} (h : SameTimes a b) (hb : PContig b j) : PContig a j := by
  have hn : a.n = b.n := h.len
  refine ⟨by rw [hn]; exact hb.npos, by rw [hn, h.head]; exact hb.hlt, by rw [h.interval]; exact hb.ipos, by rw [hn]; exact hb.jle, ?_⟩
  intro k hk
  have := hb.tile k hk
  unfold Ring.eoh Ring.idxSub at this ⊢
  rw [hn, h.head, h.interval, (h.bk _).1, (h.bk _).2.1, (h.bk _).2.1]
  exact this

/-- `Rollover` extends the contiguous part by the new head bucket. -/
theorem advance_pcontig {r : Ring} {j : Nat} (h : PContig r j) : PContig r.advance (min (j + 1) r.n) := by
  have hn : r.advance.n = r.n := by simp [Ring.advance, Ring.n]
  have hh' : r.idxAdd r.head 1 < r.n := idxAdd_lt r _ _ h.npos
  have hnew : r.advance.bucket (r.idxAdd r.head 1) =
      { start := (r.bucket r.head).stop, stop := (r.bucket r.head).stop + r.interval, pushed := false, keys := [] } :=
    bucket_set_self _ _ _ hh'
  have heoh : r.advance.eoh = r.eoh + r.interval := by
    unfold Ring.eoh; show (r.advance.bucket (r.idxAdd r.head 1)).stop = _; rw [hnew]
  refine ⟨by rw [hn]; exact h.npos, by rw [hn]; exact hh', h.ipos, by rw [hn]; exact Nat.min_le_right _ _, ?_⟩
  intro k hk
  have hk' : k < j + 1 ∧ k < r.n := by omega
  have hint : r.advance.interval = r.interval := rfl
  rw [heoh, hint]
  by_cases hk0 : k = 0
  · subst hk0
    have : r.advance.idxSub r.advance.head 0 = r.idxAdd r.head 1 := by
      unfold Ring.idxSub; rw [hn]; show (r.idxAdd r.head 1 + r.n - 0) % r.n = _
      rw [Nat.sub_zero, Nat.add_mod_right]; exact Nat.mod_eq_of_lt hh'
    rw [this, hnew]; unfold Ring.eoh; simp only []; constructor <;> omega
  · have hidx : r.advance.idxSub r.advance.head k = r.idxSub r.head (k - 1) := by
      unfold Ring.idxSub; rw [hn]
      exact idxSub_next r r.head k h.hlt (by omega) hk'.2
    have hne : r.idxAdd r.head 1 ≠ r.idxSub r.head (k - 1) := by
      rw [idxAdd_one_eq_sub r r.head h.hlt]
      intro he
      have := idxSub_inj r r.head (r.n - 1) (k - 1) h.hlt (by omega) (by omega) he
      omega
    rw [hidx]
    have hb : r.advance.bucket (r.idxSub r.head (k - 1)) = r.bucket (r.idxSub r.head (k - 1)) :=
      bucket_set_ne _ _ _ _ hne
    rw [hb]
    have := h.tile (k - 1) (by omega)
    have hmul : ((k - 1 : Nat) : Int) * r.interval = (k : Int) * r.interval - r.interval := by
      have : ((k - 1 : Nat) : Int) = (k : Int) - 1 := by omega
      rw [this, Int.sub_mul, Int.one_mul]
    rw [this.1, this.2, hmul]
    constructor <;> omega

theorem rollover_pcontig {r : Ring} {j : Nat} (h : PContig r j) (sink : Bool) :
    PContig (r.rollover sink).1 (min (j + 1) r.n) :=
  PContig.of_same (rollover_same r sink) (advance_pcontig h)

theorem rollover_n (r : Ring) (sink : Bool) : (r.rollover sink).1.n = r.n := by
  have := (rollover_same r sink).len
  simp [Ring.n, this, Ring.advance]

theorem rollover_contig {r : Ring} (h : Contig r) (sink : Bool) : Contig (r.rollover sink).1 := by
  have := rollover_pcontig h sink
  unfold Contig; rw [rollover_n]
  have hm : min (r.n + 1) r.n = r.n := by omega
  rw [hm] at this; exact this


/-! ### a freshly built ring is contiguous -/

theorem rollN_pcontig {r : Ring} {j : Nat} (h : PContig r j) (m : Nat) :
    PContig (rollN r m) (min (j + m) r.n) ∧ (rollN r m).n = r.n := by
  induction m generalizing r j with
  | zero =>
    have : min (j + 0) r.n = j := by have := h.jle; omega
    show PContig r (min (j + 0) r.n) ∧ r.n = r.n
    rw [this]; exact ⟨h, rfl⟩
  | succ m ih =>
    simp only [rollN]
    have h1 := rollover_pcontig h false
    have hn1 := rollover_n r false
    have := ih h1
    rw [hn1] at this
    refine ⟨?_, this.2⟩
    have he : min (min (j + 1) r.n + m) r.n = min (j + (m + 1)) r.n := by omega
    rw [← he]; exact this.1

def initRing (n : Nat) (interval S : Int) (pushAfter agg : Nat) : Ring :=
  { buckets := (List.replicate n emptyBucket).set 0 (⟨S, S + interval, false, []⟩ : Bucket),
    head := 0, interval := interval, pushAfter := pushAfter, agg := agg, dia := [], bflows := List.replicate n [] }

theorem initRing_pcontig (n : Nat) (interval S : Int) (pushAfter agg : Nat) (hn : 0 < n) (hi : 0 < interval) :
    PContig (initRing n interval S pushAfter agg) 1 ∧ (initRing n interval S pushAfter agg).n = n := by
  have hlen : (initRing n interval S pushAfter agg).n = n := by simp [initRing, Ring.n]
  refine ⟨⟨by rw [hlen]; exact hn, by rw [hlen]; exact hn, hi, by rw [hlen]; omega, ?_⟩, hlen⟩
  intro k hk
  have hk0 : k = 0 := by omega
  subst hk0
  have hidx : (initRing n interval S pushAfter agg).idxSub (initRing n interval S pushAfter agg).head 0 = 0 := by
    unfold Ring.idxSub; rw [hlen]; simp [initRing]
  have hb : (initRing n interval S pushAfter agg).bucket 0 = (⟨S, S + interval, false, []⟩ : Bucket) := by
    simp [initRing, Ring.bucket, hn]
  have he : (initRing n interval S pushAfter agg).eoh = S + interval := by
    unfold Ring.eoh; show ((initRing n interval S pushAfter agg).bucket 0).stop = _; rw [hb]
  rw [hidx, hb, he]
  show S + interval = S + interval - ((0 : Nat) : Int) * interval ∧ S = S + interval - ((0 : Nat) : Int) * interval - interval
  constructor <;> simp

theorem newRing_eq (n : Nat) (interval now : Int) (pushAfter agg : Nat) :
    newRing n interval now pushAfter agg = rollN (initRing n interval (now + interval - interval * n) pushAfter agg) n := rfl

theorem newRing_contig (n : Nat) (interval now : Int) (pushAfter agg : Nat) (hn : 0 < n) (hi : 0 < interval) :
    Contig (newRing n interval now pushAfter agg) ∧ (newRing n interval now pushAfter agg).n = n := by
  rw [newRing_eq]
  obtain ⟨h0, hl⟩ := initRing_pcontig n interval (now + interval - interval * n) pushAfter agg hn hi
  have := rollN_pcontig h0 n
  rw [hl] at this
  have hm : min (1 + n) n = n := by omega
  rw [hm] at this
  unfold Contig
  rw [this.2]
  exact ⟨this.1, rfl⟩

/-! ### findBucket on a contiguous ring: one bucket per flow -/

theorem contig_boh {r : Ring} (h : Contig r) : r.boh = r.eoh - (r.n : Int) * r.interval := by
  unfold Ring.boh
  rw [idxAdd_one_eq_sub r r.head h.hlt]
  have := (h.tile (r.n - 1) (by have := h.npos; omega)).2
  rw [this]
  have hc : ((r.n - 1 : Nat) : Int) = (r.n : Int) - 1 := by have := h.npos; omega
  rw [hc, Int.sub_mul, Int.one_mul]; omega

/-- every index is some number of buckets back from the head, with the tiled bounds -/
theorem contig_bucket {r : Ring} (h : Contig r) (i : Nat) (hi : i < r.n) :
    ∃ k : Nat, k < r.n ∧ i = r.idxSub r.head k ∧ (r.bucket i).stop = r.eoh - (k : Int) * r.interval ∧
      (r.bucket i).start = r.eoh - (k : Int) * r.interval - r.interval := by
  obtain ⟨k, hk, he⟩ := idxSub_surj r r.head i h.hlt hi
  have := h.tile k hk
  rw [he] at this
  exact ⟨k, hk, he.symm, this.1, this.2⟩

/-- one_bucket_per_flow, uniqueness: on a contiguous ring at most one bucket contains an instant. -/
theorem contig_unique {r : Ring} (h : Contig r) (t : Int) (i j : Nat) (hi : i < r.n) (hj : j < r.n)
    (ci : (r.bucket i).contains t = true) (cj : (r.bucket j).contains t = true) : i = j := by
  obtain ⟨ki, _, hei, sti, sri⟩ := contig_bucket h i hi
  obtain ⟨kj, _, hej, stj, srj⟩ := contig_bucket h j hj
  simp only [Bucket.contains, Bool.and_eq_true, decide_eq_true_eq] at ci cj
  rw [sti, sri] at ci
  rw [stj, srj] at cj
  have hI := h.ipos
  have : ki = kj := by
    rcases Nat.lt_trichotomy ki kj with hlt | heq | hgt
    · have h1 : ((ki : Int) + 1) * r.interval ≤ (kj : Int) * r.interval :=
        Int.mul_le_mul_of_nonneg_right (by omega) (by omega)
      rw [Int.add_mul, Int.one_mul] at h1; omega
    · exact heq
    · have h1 : ((kj : Int) + 1) * r.interval ≤ (ki : Int) * r.interval :=
        Int.mul_le_mul_of_nonneg_right (by omega) (by omega)
      rw [Int.add_mul, Int.one_mul] at h1; omega
  rw [hei, hej, this]

/-- one_bucket_per_flow, existence: a flow whose start time lies inside the retained history
`[BeginningOfHistory, EndOfHistory)` is sorted into a bucket that contains it (computed directly,
without the fallback scan). -/
theorem contig_findBucket {r : Ring} (h : Contig r) (t : Int) (h1 : r.boh ≤ t) (h2 : t < r.eoh) :
    ∃ i, i < r.n ∧ r.findBucket t = some i ∧ (r.bucket i).contains t = true := by
  have hI := h.ipos
  have hb := contig_boh h
  let a := r.eoh - 1 - t
  have ha0 : 0 ≤ a := by show 0 ≤ r.eoh - 1 - t; omega
  have hq1 : a / r.interval * r.interval ≤ a := Int.ediv_mul_le a (by omega)
  have hq2 : a < (a / r.interval + 1) * r.interval := Int.lt_ediv_add_one_mul_self a hI
  rw [Int.add_mul, Int.one_mul] at hq2
  have hq0 : 0 ≤ a / r.interval := Int.ediv_nonneg ha0 (by omega)
  have hqn : a / r.interval < r.n := by
    by_cases hc : a / r.interval < r.n
    · exact hc
    · have : (r.n : Int) * r.interval ≤ a / r.interval * r.interval :=
        Int.mul_le_mul_of_nonneg_right (by omega) (by omega)
      have ha : a = r.eoh - 1 - t := rfl
      omega
  have hk : (a / r.interval).toNat < r.n := by omega
  have hkc : ((a / r.interval).toNat : Int) = a / r.interval := Int.toNat_of_nonneg hq0
  have htile := h.tile _ hk
  rw [hkc] at htile
  refine ⟨r.idxSub r.head (a / r.interval).toNat, idxSub_lt r _ _ h.npos, ?_, ?_⟩
  · unfold Ring.findBucket
    have hno : ¬ (t ≥ r.eoh ∨ t < r.boh) := by omega
    simp only [hno, if_false]
    have hmod : (a / r.interval).toNat % r.n = (a / r.interval).toNat := Nat.mod_eq_of_lt hk
    show (if (r.bucket (r.idxSub r.head ((a / r.interval).toNat % r.n))).contains t = true then _ else _) = _
    rw [hmod]
    have : (r.bucket (r.idxSub r.head (a / r.interval).toNat)).contains t = true := by
      simp only [Bucket.contains, Bool.and_eq_true, decide_eq_true_eq]
      rw [htile.1, htile.2]
      have ha : a = r.eoh - 1 - t := rfl
      constructor <;> omega
    simp [this]
  · simp only [Bucket.contains, Bool.and_eq_true, decide_eq_true_eq]
    rw [htile.1, htile.2]
    have ha : a = r.eoh - 1 - t := rfl
    constructor <;> omega


/-! ### the per-key window store (`diachronics`) -/

def KeysSorted (dia : List (Nat × List Win)) : Prop := (dia.map (·.1)).Pairwise (· < ·)

def winsOf (dia : List (Nat × List Win)) (k : Nat) : List Win := (lookupDia dia k).getD []
def Ring.wins (r : Ring) (k : Nat) : List Win := winsOf r.dia k

def total (ws : List Win) : Int := (ws.map (·.cnt)).sum

theorem lookup_cons (p : Nat × List Win) (ps : List (Nat × List Win)) (k : Nat) :
    winsOf (p :: ps) k = if p.1 = k then p.2 else winsOf ps k := by
  unfold winsOf lookupDia
  by_cases h : p.1 = k
  · simp [List.find?_cons, h]
  · have : (p.1 == k) = false := by simpa using h
    simp [List.find?_cons, this, h]

theorem lookup_nil (k : Nat) : winsOf [] k = [] := rfl

theorem setDia_ne (k k' : Nat) (ws : List Win) (dia : List (Nat × List Win)) (hne : k' ≠ k) :
    winsOf (setDia k ws dia) k' = winsOf dia k' := by
  induction dia with
  | nil =>
    simp only [setDia]; split
    · rfl
    · rw [lookup_cons]; simp [Ne.symm hne, lookup_nil]
  | cons p ps ih =>
    simp only [setDia]
    split
    · split
      · rfl
      · rw [lookup_cons]; simp [Ne.symm hne]
    · split
      · rename_i hk
        split
        · rw [lookup_cons]; simp [← hk, Ne.symm hne]
        · rw [lookup_cons, lookup_cons]; simp [← hk, Ne.symm hne]
      · rw [lookup_cons, lookup_cons, ih]

theorem setDia_self (k : Nat) (ws : List Win) (dia : List (Nat × List Win)) (hs : KeysSorted dia) :
    winsOf (setDia k ws dia) k = ws := by
  induction dia with
  | nil =>
    simp only [setDia]; split
    · rename_i he; rw [lookup_nil]; cases ws <;> simp_all
    · rw [lookup_cons]; simp
  | cons p ps ih =>
    have hs' : KeysSorted ps := by unfold KeysSorted at hs ⊢; simp only [List.map_cons, List.pairwise_cons] at hs; exact hs.2
    have hall : ∀ q ∈ ps, p.1 < q.1 := by
      unfold KeysSorted at hs; simp only [List.map_cons, List.pairwise_cons, List.mem_map] at hs
      intro q hq; exact hs.1 q.1 ⟨q, hq, rfl⟩
    -- no later entry has key k when k ≤ p.1
    have hnone : k ≤ p.1 → winsOf ps k = [] := by
      intro hle
      unfold winsOf lookupDia
      have : ps.find? (fun q => q.1 == k) = none := by
        apply List.find?_eq_none.2
        intro q hq; have := hall q hq; simp; omega
      simp [this]
    simp only [setDia]
    split
    · rename_i hlt
      split
      · rename_i he
        rw [lookup_cons]
        have : p.1 ≠ k := by omega
        simp only [this, if_false]
        rw [hnone (by omega)]; cases ws <;> simp_all
      · rw [lookup_cons]; simp
    · split
      · rename_i hk
        split
        · rename_i he
          rw [hnone (by omega)]; cases ws <;> simp_all
        · rw [lookup_cons]; simp
      · rename_i h1 h2
        rw [lookup_cons]
        have : p.1 ≠ k := fun h => h2 h.symm
        simp only [this, if_false]
        exact ih hs'

theorem setDia_keys (k : Nat) (ws : List Win) (dia : List (Nat × List Win)) (q : Nat × List Win)
    (hq : q ∈ setDia k ws dia) : q ∈ dia ∨ q.1 = k := by
  induction dia with
  | nil => simp only [setDia] at hq; split at hq <;> simp_all
  | cons p ps ih =>
    simp only [setDia] at hq
    split at hq
    · split at hq
      · exact Or.inl hq
      · simp only [List.mem_cons] at hq ⊢
        rcases hq with rfl | hq
        · exact Or.inr rfl
        · exact Or.inl hq
    · split at hq
      · split at hq
        · exact Or.inl (List.mem_cons_of_mem _ hq)
        · simp only [List.mem_cons] at hq ⊢
          rcases hq with rfl | hq
          · exact Or.inr rfl
          · exact Or.inl (Or.inr hq)
      · simp only [List.mem_cons] at hq ⊢
        rcases hq with rfl | hq
        · exact Or.inl (Or.inl rfl)
        · rcases ih hq with h | h
          · exact Or.inl (Or.inr h)
          · exact Or.inr h

theorem setDia_sorted (k : Nat) (ws : List Win) (dia : List (Nat × List Win)) (hs : KeysSorted dia) :
    KeysSorted (setDia k ws dia) := by
  induction dia with
  | nil => simp only [setDia]; split <;> simp [KeysSorted]
  | cons p ps ih =>
    have hs' : KeysSorted ps := by unfold KeysSorted at hs ⊢; simp only [List.map_cons, List.pairwise_cons] at hs; exact hs.2
    have hall : ∀ q ∈ ps, p.1 < q.1 := by
      unfold KeysSorted at hs; simp only [List.map_cons, List.pairwise_cons, List.mem_map] at hs
      intro q hq; exact hs.1 q.1 ⟨q, hq, rfl⟩
    simp only [setDia]
    split
    · rename_i hlt
      split
      · exact hs
      · unfold KeysSorted at hs ⊢
        simp only [List.map_cons, List.pairwise_cons, List.mem_cons, List.mem_map] at hs ⊢
        refine ⟨?_, hs⟩
        rintro a (rfl | ⟨q, hq, rfl⟩)
        · exact hlt
        · exact Nat.lt_trans hlt (hall q hq)
    · split
      · rename_i hk
        split
        · exact hs'
        · unfold KeysSorted at hs ⊢
          simp only [List.map_cons, List.pairwise_cons] at hs ⊢
          rw [hk]; exact hs
      · rename_i h1 h2
        unfold KeysSorted
        simp only [List.map_cons, List.pairwise_cons, List.mem_map]
        refine ⟨?_, ih hs'⟩
        rintro a ⟨q, hq, rfl⟩
        rcases setDia_keys k ws ps q hq with h | h
        · exact hall q h
        · rw [h]; omega

/-! ### windows of one key -/

theorem addWin_mem (st sp c : Int) (ws : List Win) (w : Win) (h : w ∈ addWin st sp c ws) :
    (w ∈ ws) ∨ (w.start = st ∧ (w.stop = sp ∨ ∃ w' ∈ ws, w'.start = st ∧ w.stop = w'.stop)) := by
  induction ws with
  | nil => simp only [addWin, List.mem_singleton] at h; subst h; exact Or.inr ⟨rfl, Or.inl rfl⟩
  | cons x xs ih =>
    simp only [addWin] at h
    split at h
    · split at h
      · rename_i hx
        simp only [List.mem_cons] at h
        rcases h with rfl | h
        · exact Or.inr ⟨hx, Or.inr ⟨x, List.mem_cons_self .., hx, rfl⟩⟩
        · exact Or.inl (List.mem_cons_of_mem _ h)
      · simp only [List.mem_cons] at h
        rcases h with rfl | h
        · exact Or.inr ⟨rfl, Or.inl rfl⟩
        · exact Or.inl (List.mem_cons.2 h)
    · simp only [List.mem_cons] at h
      rcases h with rfl | h
      · exact Or.inl (List.mem_cons_self ..)
      · rcases ih h with h' | ⟨h1, h2⟩
        · exact Or.inl (List.mem_cons_of_mem _ h')
        · refine Or.inr ⟨h1, ?_⟩
          rcases h2 with h2 | ⟨w', hw', h3⟩
          · exact Or.inl h2
          · exact Or.inr ⟨w', List.mem_cons_of_mem _ hw', h3⟩

/-- count stored for the window that starts at `s` -/
def wcOf (ws : List Win) (s : Int) : Int := total (ws.filter (fun w => w.start == s))

theorem addWin_wc (st sp c : Int) (ws : List Win) (s : Int) :
    wcOf (addWin st sp c ws) s = wcOf ws s + (if s = st then c else 0) := by
  induction ws with
  | nil =>
    by_cases h : s = st
    · subst h; simp [addWin, wcOf, total]
    · have : (st == s) = false := by simpa using (fun hh => h hh.symm)
      simp [addWin, wcOf, total, this, h]
  | cons x xs ih =>
    simp only [addWin]
    split
    · split
      · rename_i hx
        by_cases h : s = st
        · subst h; simp [wcOf, total, List.filter_cons, hx]; omega
        · have : (x.start == s) = false := by rw [hx]; simpa using (fun hh => h hh.symm)
          simp [wcOf, total, List.filter_cons, this, h]
      · by_cases h : s = st
        · subst h; simp [wcOf, total, List.filter_cons]; omega
        · have : (st == s) = false := by simpa using (fun hh => h hh.symm)
          simp [wcOf, total, List.filter_cons, this, h]
    · unfold wcOf total at ih ⊢
      by_cases hx : (x.start == s) = true
      · simp only [List.filter_cons, hx, if_true, List.map_cons, List.sum_cons, ih]; omega
      · simp only [List.filter_cons, hx]; exact ih

theorem dropExpired_mem (lim : Int) (ws : List Win) (w : Win) (h : w ∈ dropExpired lim ws) : w ∈ ws := by
  induction ws with
  | nil => simp [dropExpired] at h
  | cons x xs ih =>
    simp only [dropExpired] at h
    split at h
    · exact h
    · exact List.mem_cons_of_mem _ (ih h)

theorem dropExpired_wc (lim : Int) (ws : List Win) (s : Int)
    (hkeep : ∀ w ∈ ws, w.start = s → w.stop > lim) : wcOf (dropExpired lim ws) s = wcOf ws s := by
  induction ws with
  | nil => rfl
  | cons x xs ih =>
    simp only [dropExpired]
    split
    · rfl
    · rename_i hx
      have hne : (x.start == s) = false := by
        by_cases hh : x.start = s
        · exact absurd (hkeep x (List.mem_cons_self ..) hh) hx
        · simpa using hh
      rw [ih (fun w hw => hkeep w (List.mem_cons_of_mem _ hw))]
      simp [wcOf, List.filter_cons, hne]

theorem dropExpired_idem (lim : Int) (ws : List Win) : dropExpired lim (dropExpired lim ws) = dropExpired lim ws := by
  induction ws with
  | nil => rfl
  | cons x xs ih =>
    simp only [dropExpired]
    split
    · rename_i hx; simp [dropExpired, hx]
    · exact ih

/-- the per-key expiry loop of `Rollover` -/
def expireFold (lim : Int) (keys : List Nat) (dia : List (Nat × List Win)) : List (Nat × List Win) :=
  keys.foldl (fun dia k => setDia k (dropExpired lim ((lookupDia dia k).getD [])) dia) dia

theorem expireFold_spec (lim : Int) (keys : List Nat) (dia : List (Nat × List Win)) (hs : KeysSorted dia) :
    KeysSorted (expireFold lim keys dia) ∧
    ∀ k, winsOf (expireFold lim keys dia) k = if k ∈ keys then dropExpired lim (winsOf dia k) else winsOf dia k := by
  induction keys generalizing dia with
  | nil => exact ⟨hs, fun k => by simp [expireFold]⟩
  | cons x xs ih =>
    have hs1 := setDia_sorted x (dropExpired lim ((lookupDia dia x).getD [])) dia hs
    have := ih (setDia x (dropExpired lim ((lookupDia dia x).getD [])) dia) hs1
    refine ⟨this.1, fun k => ?_⟩
    have h2 := this.2 k
    show winsOf (expireFold lim xs (setDia x (dropExpired lim ((lookupDia dia x).getD [])) dia)) k = _
    rw [h2]
    by_cases hkx : k = x
    · subst hkx
      rw [setDia_self _ _ _ hs]
      have : winsOf dia k = (lookupDia dia k).getD [] := rfl
      by_cases hm : k ∈ xs
      · simp [hm, this, dropExpired_idem]
      · simp [hm, this]
    · rw [setDia_ne _ _ _ _ hkx]
      simp [hkx]


/-! ### ghost log of accepted flows; the window/sum invariant -/

structure SameLayout (a b : Ring) : Prop where
  head : a.head = b.head
  interval : a.interval = b.interval
  len : a.n = b.n
  bk : ∀ i, (a.bucket i).start = (b.bucket i).start ∧ (a.bucket i).stop = (b.bucket i).stop

theorem SameTimes.layout {a b : Ring} (h : SameTimes a b) : SameLayout a b :=
  ⟨h.head, h.interval, h.len, fun i => ⟨(h.bk i).1, (h.bk i).2.1⟩⟩

theorem SameLayout.eoh {a b : Ring} (h : SameLayout a b) : a.eoh = b.eoh := by
  unfold Ring.eoh; rw [h.head]; exact (h.bk _).2

theorem PContig.of_layout {a b : Ring} {j : Nat} (h : SameLayout a b) (hb : PContig b j) : PContig a j := by
  have hn : a.n = b.n := h.len
  refine ⟨by rw [hn]; exact hb.npos, by rw [hn, h.head]; exact hb.hlt, by rw [h.interval]; exact hb.ipos, by rw [hn]; exact hb.jle, ?_⟩
  intro k hk
  have := hb.tile k hk
  unfold Ring.eoh Ring.idxSub at this ⊢
  rw [hn, h.head, h.interval, (h.bk _).1, (h.bk _).2, (h.bk _).2]
  exact this

theorem Contig.of_layout {a b : Ring} (h : SameLayout a b) (hb : Contig b) : Contig a := by
  unfold Contig at hb ⊢; rw [h.len]; exact PContig.of_layout h hb

abbrev Log := List (Nat × Int × Int)

def inLog (k : Nat) (lo hi : Int) (e : Nat × Int × Int) : Bool :=
  e.1 == k && decide (lo ≤ e.2.1) && decide (e.2.1 < hi)

/-- sum of the counts of the logged (accepted) flows of key `k` whose start time lies in `[lo, hi)` -/
def logSum (log : Log) (k : Nat) (lo hi : Int) : Int := ((log.filter (inLog k lo hi)).map (·.2.2)).sum

theorem inLog_iff (k : Nat) (lo hi : Int) (e : Nat × Int × Int) :
    inLog k lo hi e = true ↔ e.1 = k ∧ lo ≤ e.2.1 ∧ e.2.1 < hi := by
  simp [inLog, and_assoc]

theorem logSum_cons (e : Nat × Int × Int) (log : Log) (k : Nat) (lo hi : Int) :
    logSum (e :: log) k lo hi = logSum log k lo hi + (if e.1 = k ∧ lo ≤ e.2.1 ∧ e.2.1 < hi then e.2.2 else 0) := by
  unfold logSum
  by_cases h : e.1 = k ∧ lo ≤ e.2.1 ∧ e.2.1 < hi
  · rw [List.filter_cons_of_pos ((inLog_iff k lo hi e).2 h)]
    simp only [List.map_cons, List.sum_cons, h, and_self, if_true]; omega
  · rw [List.filter_cons_of_neg (fun hh => h ((inLog_iff k lo hi e).1 hh))]
    simp [h]

theorem logSum_zero_of_lt (log : Log) (k : Nat) (lo hi : Int) (h : ∀ e ∈ log, e.2.1 < lo) : logSum log k lo hi = 0 := by
  unfold logSum
  have : log.filter (inLog k lo hi) = [] := by
    apply List.filter_eq_nil_iff.2
    intro e he hh; have := h e he
    have := (inLog_iff k lo hi e).1 hh; omega
  simp [this]

structure GInv (r : Ring) (log : Log) : Prop where
  contig : Contig r
  ks : KeysSorted r.dia
  wlt : ∀ k w, w ∈ r.wins k → w.start < r.eoh
  wI : ∀ k w, w ∈ r.wins k → w.stop = w.start + r.interval
  llt : ∀ e ∈ log, e.2.1 < r.eoh
  q : ∀ k i, i < r.n → wcOf (r.wins k) (r.bucket i).start = logSum log k (r.bucket i).start (r.bucket i).stop

theorem GInv.of_layout {a b : Ring} {log : Log} (h : SameLayout a b) (hd : a.dia = b.dia) (hb : GInv b log) : GInv a log := by
  have hw : ∀ k, a.wins k = b.wins k := fun k => by unfold Ring.wins; rw [hd]
  refine ⟨Contig.of_layout h hb.contig, by rw [hd]; exact hb.ks, ?_, ?_, ?_, ?_⟩
  · intro k w hwm; rw [hw] at hwm; rw [h.eoh]; exact hb.wlt k w hwm
  · intro k w hwm; rw [hw] at hwm; rw [h.interval]; exact hb.wI k w hwm
  · intro e he; rw [h.eoh]; exact hb.llt e he
  · intro k i hi; rw [hw, (h.bk i).1, (h.bk i).2]; exact hb.q k i (by rw [← h.len]; exact hi)

theorem contig_stop_le {r : Ring} (h : Contig r) (i : Nat) (hi : i < r.n) :
    (r.bucket i).stop = (r.bucket i).start + r.interval ∧ (r.bucket i).stop ≤ r.eoh ∧ r.boh ≤ (r.bucket i).start := by
  obtain ⟨k, hk, _, st, sr⟩ := contig_bucket h i hi
  have hI := h.ipos
  have h0 : 0 ≤ (k : Int) * r.interval := Int.mul_nonneg (by omega) (by omega)
  have h1 : ((k : Int) + 1) * r.interval ≤ (r.n : Int) * r.interval :=
    Int.mul_le_mul_of_nonneg_right (by omega) (by omega)
  rw [Int.add_mul, Int.one_mul] at h1
  rw [contig_boh h, st, sr]
  refine ⟨by omega, by omega, by omega⟩

theorem findBucket_sound' (r : Ring) (t : Int) (i : Nat) (h : r.findBucket t = some i) : t < r.eoh ∧ r.boh ≤ t := by
  unfold Ring.findBucket at h
  split at h
  · cases h
  · rename_i hc; omega

theorem addFlow_accept (r : Ring) (key : Nat) (t cnt : Int) (i : Nat) (h : r.findBucket t = some i) :
    (r.addFlow key t cnt).2 = true ∧
    (r.addFlow key t cnt).1.dia = setDia key (addWin (r.bucket i).start (r.bucket i).stop cnt (r.wins key)) r.dia ∧
    SameLayout (r.addFlow key t cnt).1 r := by
  simp only [Ring.addFlow, h, Ring.setBucket, Ring.wins, winsOf]
  refine ⟨trivial, trivial, rfl, rfl, by simp [Ring.n], fun j => ?_⟩
  by_cases hj : i = j
  · subst hj
    by_cases hl : i < r.buckets.length
    · simp [Ring.bucket, List.getD_eq_getElem?_getD, List.getElem?_set_self hl]
    · rw [List.set_eq_of_length_le (Nat.le_of_not_lt hl)]; exact ⟨rfl, rfl⟩
  · simp [Ring.bucket, List.getD_eq_getElem?_getD, List.getElem?_set_ne hj]

theorem addFlow_ginv {r : Ring} {log : Log} (hg : GInv r log) (key : Nat) (t cnt : Int) :
    GInv (r.addFlow key t cnt).1 (if (r.addFlow key t cnt).2 then (key, t, cnt) :: log else log) := by
  cases hf : r.findBucket t with
  | none => simp only [Ring.addFlow, hf]; exact hg
  | some i0 =>
    obtain ⟨hacc, hdia, hlay⟩ := addFlow_accept r key t cnt i0 hf
    obtain ⟨ht1, ht2⟩ := findBucket_sound' r t i0 hf
    obtain ⟨i', hi', hf', hc'⟩ := contig_findBucket hg.contig t ht2 ht1
    have hii : i0 = i' := by rw [hf] at hf'; exact Option.some.inj hf'
    subst hii
    rw [hacc]; simp only [if_true]
    have hb := contig_stop_le hg.contig i0 hi'
    have hwk : (r.addFlow key t cnt).1.wins key = addWin (r.bucket i0).start (r.bucket i0).stop cnt (r.wins key) := by
      unfold Ring.wins; rw [hdia]; exact setDia_self _ _ _ hg.ks
    have hwo : ∀ k, k ≠ key → (r.addFlow key t cnt).1.wins k = r.wins k := by
      intro k hk; unfold Ring.wins; rw [hdia]; exact setDia_ne _ _ _ _ hk
    simp only [Bucket.contains, Bool.and_eq_true, decide_eq_true_eq] at hc'
    refine ⟨Contig.of_layout hlay hg.contig, by rw [hdia]; exact setDia_sorted _ _ _ hg.ks, ?_, ?_, ?_, ?_⟩
    · intro k w hw
      rw [hlay.eoh]
      by_cases hk : k = key
      · subst hk; rw [hwk] at hw
        rcases addWin_mem _ _ _ _ _ hw with h1 | ⟨h1, _⟩
        · exact hg.wlt k w h1
        · rw [h1]; omega
      · rw [hwo k hk] at hw; exact hg.wlt k w hw
    · intro k w hw
      rw [hlay.interval]
      by_cases hk : k = key
      · subst hk; rw [hwk] at hw
        rcases addWin_mem _ _ _ _ _ hw with h1 | ⟨h1, h2⟩
        · exact hg.wI k w h1
        · rcases h2 with h2 | ⟨w', hw', h3, h4⟩
          · rw [h1, h2]; exact hb.1
          · rw [h4, hg.wI k w' hw', h3, h1]
      · rw [hwo k hk] at hw; exact hg.wI k w hw
    · intro e he
      rw [hlay.eoh]
      simp only [List.mem_cons] at he
      rcases he with rfl | he
      · exact ht1
      · exact hg.llt e he
    · intro k i hi
      have hi2 : i < r.n := by rw [← hlay.len]; exact hi
      rw [(hlay.bk i).1, (hlay.bk i).2, logSum_cons]
      have hq := hg.q k i hi2
      have hbi := contig_stop_le hg.contig i hi2
      by_cases hk : k = key
      · subst hk
        rw [hwk, addWin_wc, hq]
        by_cases hs : (r.bucket i).start = (r.bucket i0).start
        · have : (r.bucket i).stop = (r.bucket i0).stop := by rw [hbi.1, hb.1, hs]
          simp only [hs, if_true, this, true_and]
          have hcond : (r.bucket i0).start ≤ t ∧ t < (r.bucket i0).stop := hc'
          simp [hcond]
        · simp only [hs, if_false, true_and]
          have hnot : ¬ ((r.bucket i).start ≤ t ∧ t < (r.bucket i).stop) := by
            intro hcon
            have : i = i0 := contig_unique hg.contig t i i0 hi2 hi'
              (by simp [Bucket.contains, hcon.1, hcon.2]) (by simp [Bucket.contains, hc'.1, hc'.2])
            exact hs (by rw [this])
          simp [hnot]
      · rw [hwo k hk, hq]
        have : ¬ (key = k ∧ (r.bucket i).start ≤ t ∧ t < (r.bucket i).stop) := fun hh => hk hh.1.symm
        simp [this]


/-! ### rollover and emission steps of the invariant -/

theorem advance_n (r : Ring) : r.advance.n = r.n := by simp [Ring.advance, Ring.n]

theorem advance_contig {r : Ring} (h : Contig r) : Contig r.advance := by
  have := advance_pcontig h
  unfold Contig; rw [advance_n]
  have hm : min (r.n + 1) r.n = r.n := by omega
  rw [hm] at this; exact this

theorem advance_new {r : Ring} (h : Contig r) :
    r.advance.bucket (r.idxAdd r.head 1) =
      { start := r.eoh, stop := r.eoh + r.interval, pushed := false, keys := [] } :=
  bucket_set_self _ _ _ (idxAdd_lt r _ _ h.npos)

theorem advance_old (r : Ring) (i : Nat) (hne : r.idxAdd r.head 1 ≠ i) : r.advance.bucket i = r.bucket i :=
  bucket_set_ne _ _ _ _ hne

theorem advance_eoh {r : Ring} (h : Contig r) : r.advance.eoh = r.eoh + r.interval := by
  unfold Ring.eoh; show (r.advance.bucket (r.idxAdd r.head 1)).stop = _; rw [advance_new h]; rfl

theorem rollover_dia (r : Ring) (sink : Bool) :
    (r.rollover sink).1.dia = expireFold r.advance.boh (r.bucket (r.idxAdd r.head 1)).keys r.dia := by
  unfold Ring.rollover
  simp only []
  split
  · rw [(emit_same _).2]; rfl
  · rfl

theorem wcOf_zero (ws : List Win) (s : Int) (h : ∀ w ∈ ws, w.start ≠ s) : wcOf ws s = 0 := by
  unfold wcOf
  have : ws.filter (fun w => w.start == s) = [] := by
    apply List.filter_eq_nil_iff.2
    intro w hw; simpa using h w hw
  simp [this, total]

theorem rollover_ginv {r : Ring} {log : Log} (hg : GInv r log) (sink : Bool) : GInv (r.rollover sink).1 log := by
  have hca := advance_contig hg.contig
  have hI := hg.contig.ipos
  -- the ring with the new layout and the expired windows removed
  let r2 : Ring := { r.advance with dia := expireFold r.advance.boh (r.bucket (r.idxAdd r.head 1)).keys r.dia }
  have hl2 : SameLayout r2 r.advance := ⟨rfl, rfl, rfl, fun _ => ⟨rfl, rfl⟩⟩
  have hspec := expireFold_spec r.advance.boh (r.bucket (r.idxAdd r.head 1)).keys r.dia hg.ks
  have hwins : ∀ k w, w ∈ r2.wins k → w ∈ r.wins k := by
    intro k w hw
    have : r2.wins k = _ := hspec.2 k
    rw [this] at hw
    split at hw
    · exact dropExpired_mem _ _ _ hw
    · exact hw
  have he2 : r2.eoh = r.eoh + r.interval := by rw [hl2.eoh]; exact advance_eoh hg.contig
  have hg2 : GInv r2 log := by
    refine ⟨Contig.of_layout hl2 hca, hspec.1, ?_, ?_, ?_, ?_⟩
    · intro k w hw; rw [he2]; have := hg.wlt k w (hwins k w hw); omega
    · intro k w hw; exact hg.wI k w (hwins k w hw)
    · intro e he; rw [he2]; have := hg.llt e he; omega
    · intro k i hi
      have hi' : i < r.n := by rw [← advance_n r]; exact hi
      by_cases hih : r.idxAdd r.head 1 = i
      · subst hih
        have hb : r2.bucket (r.idxAdd r.head 1) = _ := advance_new hg.contig
        rw [hb]
        simp only []
        rw [wcOf_zero _ _ (fun w hw => by have := hg.wlt k w (hwins k w hw); omega),
            logSum_zero_of_lt _ _ _ _ hg.llt]
      · have hb : r2.bucket i = r.bucket i := advance_old r i hih
        rw [hb, ← hg.q k i hi']
        have hwk : r2.wins k = _ := hspec.2 k
        rw [hwk]
        split
        · apply dropExpired_wc
          intro w hw hs
          have h1 := hg.wI k w hw
          have h2 := (contig_stop_le hca i (by rw [advance_n]; exact hi')).2.2
          rw [advance_old r i hih] at h2
          omega
        · rfl
  exact GInv.of_layout (b := r2) ⟨(rollover_same r sink).layout.head, (rollover_same r sink).layout.interval,
    (rollover_same r sink).layout.len, (rollover_same r sink).layout.bk⟩ (rollover_dia r sink) hg2

theorem emit_ginv {r : Ring} {log : Log} (hg : GInv r log) : GInv r.emit.1 log :=
  GInv.of_layout (emit_same r).1.layout (emit_same r).2 hg

/-! ### histories -/

inductive Op
  | add (k : Nat) (t c : Int)
  | roll (sink : Bool)
  | emit
deriving Repr

/-- one step of the aggregator together with the ghost log of ACCEPTED flows -/
def gstep (s : Ring × Log) : Op → Ring × Log
  | .add k t c => ((s.1.addFlow k t c).1, if (s.1.addFlow k t c).2 then (k, t, c) :: s.2 else s.2)
  | .roll sink => ((s.1.rollover sink).1, s.2)
  | .emit => (s.1.emit.1, s.2)

def grun (s : Ring × Log) (ops : List Op) : Ring × Log := ops.foldl gstep s

theorem gstep_ginv {s : Ring × Log} (h : GInv s.1 s.2) (op : Op) : GInv (gstep s op).1 (gstep s op).2 := by
  cases op with
  | add k t c => exact addFlow_ginv h k t c
  | roll sink => exact rollover_ginv h sink
  | emit => exact emit_ginv h

theorem grun_ginv {s : Ring × Log} (h : GInv s.1 s.2) (ops : List Op) : GInv (grun s ops).1 (grun s ops).2 := by
  induction ops generalizing s with
  | nil => exact h
  | cons op ops ih => exact ih (gstep_ginv h op)

/-- no flow recorded anywhere -/
def EmptyRing (r : Ring) : Prop := r.dia = [] ∧ ∀ i, (r.bucket i).keys = []

theorem rollover_empty {r : Ring} (h : EmptyRing r) : EmptyRing (r.rollover false).1 := by
  constructor
  · rw [rollover_dia, h.2]; simp [expireFold, h.1]
  · intro i
    rw [((rollover_same r false).bk i).2.2]
    by_cases hi : r.idxAdd r.head 1 = i
    · subst hi
      by_cases hl : r.idxAdd r.head 1 < r.buckets.length
      · show (r.advance.bucket (r.idxAdd r.head 1)).keys = []
        simp [Ring.advance, Ring.bucket, List.getD_eq_getElem?_getD, List.getElem?_set_self hl]
      · show (r.advance.bucket (r.idxAdd r.head 1)).keys = []
        unfold Ring.advance Ring.bucket
        simp only []
        rw [List.set_eq_of_length_le (Nat.le_of_not_lt hl)]
        exact h.2 _
    · rw [advance_old r i hi]; exact h.2 i

theorem rollN_empty {r : Ring} (h : EmptyRing r) (m : Nat) : EmptyRing (rollN r m) := by
  induction m generalizing r with
  | zero => exact h
  | succ m ih => exact ih (rollover_empty h)

theorem initRing_empty (n : Nat) (interval S : Int) (pushAfter agg : Nat) : EmptyRing (initRing n interval S pushAfter agg) := by
  refine ⟨rfl, fun i => ?_⟩
  unfold initRing Ring.bucket
  simp only [List.getD_eq_getElem?_getD]
  by_cases h0 : 0 = i
  · subst h0
    by_cases hl : 0 < (List.replicate n emptyBucket).length
    · rw [List.getElem?_set_self hl]; rfl
    · rw [List.set_eq_of_length_le (Nat.le_of_not_lt hl)]
      cases hh : (List.replicate n emptyBucket)[0]? with
      | none => rfl
      | some b => have := List.mem_of_getElem? hh; rw [List.mem_replicate] at this; rw [this.2]; rfl
  · rw [List.getElem?_set_ne h0]
    cases hh : (List.replicate n emptyBucket)[i]? with
    | none => rfl
    | some b => have := List.mem_of_getElem? hh; rw [List.mem_replicate] at this; simp [this.2, emptyBucket]

/-- a freshly built ring with the empty log satisfies the invariant -/
theorem newRing_ginv (n : Nat) (interval now : Int) (pushAfter agg : Nat) (hn : 0 < n) (hi : 0 < interval) :
    GInv (newRing n interval now pushAfter agg) [] := by
  have hc := (newRing_contig n interval now pushAfter agg hn hi).1
  have he : EmptyRing (newRing n interval now pushAfter agg) := by
    rw [newRing_eq]; exact rollN_empty (initRing_empty _ _ _ _ _) n
  have hw : ∀ k, (newRing n interval now pushAfter agg).wins k = [] := by
    intro k; unfold Ring.wins; rw [he.1]; rfl
  refine ⟨hc, by rw [he.1]; simp [KeysSorted], ?_, ?_, by simp, ?_⟩
  · intro k w hwm; rw [hw] at hwm; cases hwm
  · intro k w hwm; rw [hw] at hwm; cases hwm
  · intro k i _; rw [hw]; rfl


/-! ### queries -/

def inRange (gte lt : Int) (w : Win) : Bool := (gte == 0 || decide (w.start ≥ gte)) && (lt == 0 || decide (w.stop ≤ lt))

theorem aggregate_fold (sel : List Win) (a b c : Int) :
    (sel.foldl (fun (acc : Int × Int × Int) w =>
      (acc.1 + w.cnt,
       (if acc.2.1 == 0 || decide (w.start < acc.2.1) then w.start else acc.2.1),
       (if acc.2.2 == 0 || decide (w.stop > acc.2.2) then w.stop else acc.2.2))) (a, b, c)).1 = a + total sel := by
  induction sel generalizing a b c with
  | nil => simp [total]
  | cons w ws ih =>
    simp only [List.foldl_cons]
    rw [ih]; simp [total]; omega

/-- `Aggregate`: the count is the sum of the windows inside the range -/
theorem aggregate_fst (ws : List Win) (gte lt : Int) : (aggregate ws gte lt).1 = total (ws.filter (inRange gte lt)) := by
  unfold aggregate
  have := aggregate_fold (ws.filter (inRange gte lt)) 0 0 0
  simp only [Int.zero_add] at this
  exact this

/-- `List`: every row's count is the sum of that key's windows inside the requested range -/
theorem list_count (r : Ring) (gte lt : Int) (x : Nat × Int × Int × Int) (hx : x ∈ r.list gte lt) :
    x.2.1 = total ((r.wins x.1).filter (inRange gte lt)) := by
  unfold Ring.list at hx
  rw [List.mem_filterMap] at hx
  obtain ⟨k, _, hk⟩ := hx
  simp only [] at hk
  split at hk
  · cases hk
    exact aggregate_fst _ _ _
  · cases hk

/-- a range that is exactly one bucket selects exactly the window of that bucket -/
theorem range_one_bucket {r : Ring} {log : Log} (hg : GInv r log) (k i : Nat) (hi : i < r.n)
    (h0 : (r.bucket i).start ≠ 0) (h1 : (r.bucket i).stop ≠ 0) :
    total ((r.wins k).filter (inRange (r.bucket i).start (r.bucket i).stop)) = wcOf (r.wins k) (r.bucket i).start := by
  unfold wcOf
  congr 1
  apply List.filter_congr
  intro w hw
  have hwI := hg.wI k w hw
  have hb := (contig_stop_le hg.contig i hi).1
  have e0 : ((r.bucket i).start == 0) = false := by simpa using h0
  have e1 : ((r.bucket i).stop == 0) = false := by simpa using h1
  simp only [inRange, e0, e1, Bool.false_or]
  by_cases hs : w.start = (r.bucket i).start
  · have : (w.start == (r.bucket i).start) = true := by simpa using hs
    rw [this]; simp; omega
  · have : (w.start == (r.bucket i).start) = false := by simpa using hs
    rw [this]
    simp only [Bool.and_eq_false_iff, decide_eq_false_iff_not]
    by_cases hge : w.start ≥ (r.bucket i).start
    · right; omega
    · left; exact hge

/-! ### emission -/

theorem markStep_pushed (bs : List Bucket) (i j : Nat) :
    ((bs.set i { (bs.getD i emptyBucket) with pushed := true }).getD j emptyBucket).pushed =
      ((bs.getD j emptyBucket).pushed || (decide (i = j) && decide (i < bs.length))) := by
  by_cases h : i = j
  · subst h
    by_cases hl : i < bs.length
    · simp [List.getD_eq_getElem?_getD, List.getElem?_set_self hl, hl]
    · rw [List.set_eq_of_length_le (Nat.le_of_not_lt hl)]; simp [hl]
  · simp [List.getD_eq_getElem?_getD, List.getElem?_set_ne h, h]

theorem markFold_pushed (idxs : List Nat) (bs : List Bucket) (j : Nat) :
    ((idxs.foldl (fun bs i => bs.set i { (bs.getD i emptyBucket) with pushed := true }) bs).getD j emptyBucket).pushed =
      ((bs.getD j emptyBucket).pushed || (decide (j ∈ idxs) && decide (j < bs.length))) := by
  induction idxs generalizing bs with
  | nil => simp
  | cons i is ih =>
    simp only [List.foldl_cons]
    rw [ih, markStep_pushed]
    by_cases h : i = j
    · subst h; by_cases hl : i < bs.length <;> simp [hl]
    · have : ¬ j = i := fun hh => h hh.symm
      simp [h, this]

theorem markPushed_pushed (r : Ring) (idxs : List Nat) (j : Nat) :
    ((r.markPushed idxs).bucket j).pushed = ((r.bucket j).pushed || (decide (j ∈ idxs) && decide (j < r.n))) :=
  markFold_pushed idxs r.buckets j

theorem foldMark_pushed (cs : List Coll) (r : Ring) (j : Nat) :
    ((cs.foldl (fun r c => r.markPushed c.idxs) r).bucket j).pushed =
      ((r.bucket j).pushed || (decide (∃ c ∈ cs, j ∈ c.idxs) && decide (j < r.n))) := by
  induction cs generalizing r with
  | nil => simp
  | cons c cs ih =>
    simp only [List.foldl_cons]
    rw [ih, markPushed_pushed]
    have hn : (r.markPushed c.idxs).n = r.n := (markPushed_same r c.idxs).len
    rw [hn]
    by_cases h1 : j ∈ c.idxs <;> by_cases h2 : j < r.n <;> by_cases h3 : ∃ c' ∈ cs, j ∈ c'.idxs <;> simp [h1, h2, h3]

/-- every bucket of a collection handed to the sink is marked pushed afterwards -/
theorem emit_sent_marked (r : Ring) (c : Coll) (hc : c ∈ r.emit.2) (i : Nat) (hi : i ∈ c.idxs) (hn : i < r.n) :
    (r.emit.1.bucket i).pushed = true := by
  unfold Ring.emit at hc ⊢
  simp only [] at hc ⊢
  rw [foldMark_pushed, Bool.or_eq_true]
  right
  rw [Bool.and_eq_true]
  exact ⟨decide_eq_true ⟨c, hc, hi⟩, decide_eq_true hn⟩

theorem maybeBuild_start_unpushed (r : Ring) (s e : Nat) (c : Coll) (h : r.maybeBuild s e = some c) :
    (r.bucket s).pushed = false := by
  unfold Ring.maybeBuild at h
  split at h
  · cases h
  · rename_i hp; simpa using hp

/-- `(key, count)` rows of a built collection: the count is the sum of the key's windows inside the window of the collection -/
theorem maybeBuild_flows (r : Ring) (s e : Nat) (c : Coll) (h : r.maybeBuild s e = some c) (k : Nat) (x : Int)
    (hk : (k, x) ∈ c.flows) :
    c.start = (r.bucket s).start ∧ c.stop = (r.bucket e).start ∧
    x = total ((r.wins k).filter (inRange c.start c.stop)) := by
  unfold Ring.maybeBuild at h
  split at h
  · cases h
  · simp only [Option.some.injEq] at h
    subst h
    rw [List.mem_filterMap] at hk
    obtain ⟨k', _, hk'⟩ := hk
    split at hk'
    · simp only [Option.some.injEq, Prod.mk.injEq] at hk'
      obtain ⟨rfl, rfl⟩ := hk'
      exact ⟨rfl, rfl, aggregate_fst _ _ _⟩
    · cases hk'

/-! ### the emission walk: termination, shape, disjointness -/

/-- the walk stops by its own test: more fuel than `n - oldest` changes nothing -/
theorem buildLoop2_fuel (r : Ring) (hagg : 1 ≤ r.agg) (fuel oldest s e : Nat) (h : r.n ≤ fuel + oldest) :
    r.buildLoop2 fuel oldest s e = r.buildLoop2 (fuel + 1) oldest s e := by
  induction fuel generalizing oldest s e with
  | zero =>
    have : ¬ oldest < r.n := by omega
    simp [Ring.buildLoop2, this]
  | succ f ih =>
    rw [Ring.buildLoop2, Ring.buildLoop2]
    split
    · cases r.maybeBuild s e with
      | none => rfl
      | some c => simp only []; rw [ih _ _ _ (by omega)]
    · rfl

theorem idxSub_idxSub (r : Ring) (h a b : Nat) (hh : h < r.n) (hab : a + b ≤ r.n) :
    r.idxSub (r.idxSub h a) b = r.idxSub h (a + b) := by
  unfold Ring.idxSub
  rw [sub_mod_cases h r.n a hh (by omega)]
  split
  · rw [sub_mod_cases (h - a) r.n b (by omega) (by omega), sub_mod_cases h r.n (a + b) hh hab]
    split <;> split <;> omega
  · rw [sub_mod_cases (h + r.n - a) r.n b (by omega) (by omega), sub_mod_cases h r.n (a + b) hh hab]
    split <;> split <;> omega

theorem idxAdd_idxSub (r : Ring) (h d : Nat) (hh : h < r.n) (hd1 : 1 ≤ d) (hd : d < r.n) :
    r.idxAdd (r.idxSub h d) 1 = r.idxSub h (d - 1) := by
  unfold Ring.idxAdd Ring.idxSub
  rw [sub_mod_cases h r.n d hh (by omega), sub_mod_cases h r.n (d - 1) hh (by omega)]
  split
  · rw [add_one_mod_cases (h - d) r.n (by omega)]; split <;> split <;> omega
  · rw [add_one_mod_cases (h + r.n - d) r.n (by omega)]; split <;> split <;> omega

/-- indexes of the window whose oldest bucket is `D` back from the head: distances `D, D-1, …, D-m+1` -/
def winIdx (r : Ring) (D m : Nat) : List Nat := (List.range m).map (fun j => r.idxSub r.head (D - j))

theorem iterIdx_win (r : Ring) (hh : r.head < r.n) (fuel D m : Nat) (hm : m ≤ fuel) (hmD : m ≤ D) (hD : D < r.n) :
    r.iterIdx fuel (r.idxSub r.head D) (r.idxSub r.head (D - m)) = winIdx r D m := by
  induction m generalizing fuel D with
  | zero =>
    cases fuel with
    | zero => simp [Ring.iterIdx, winIdx]
    | succ f => simp [Ring.iterIdx, winIdx]
  | succ m ih =>
    cases fuel with
    | zero => omega
    | succ f =>
      have hne : r.idxSub r.head D ≠ r.idxSub r.head (D - (m + 1)) := by
        intro he
        have := idxSub_inj r r.head D (D - (m + 1)) hh hD (by omega) he
        omega
      rw [Ring.iterIdx]
      simp only [hne, if_false]
      rw [idxAdd_idxSub r r.head D hh (by omega) hD]
      have : D - (m + 1) = (D - 1) - m := by omega
      rw [this, ih f (D - 1) (by omega) (by omega) (by omega)]
      unfold winIdx
      rw [List.range_succ_eq_map]
      simp only [List.map_cons, List.map_map, Nat.sub_zero]
      congr 1
      apply List.map_congr_left
      intro j _
      simp only [Function.comp]
      congr 1; omega

theorem maybeBuild_idxs (r : Ring) (s e : Nat) (c : Coll) (h : r.maybeBuild s e = some c) : c.idxs = r.iterIdx r.n s e := by
  unfold Ring.maybeBuild at h
  split at h
  · cases h
  · simp only [Option.some.injEq] at h; subst h; rfl

/-- all windows the fixed walk can build from distance `D` on -/
def allWins (r : Ring) : Nat → Nat → List (List Nat)
  | 0, _ => []
  | fuel + 1, D => if D < r.n then winIdx r D r.agg :: allWins r fuel (D + r.agg) else []

theorem buildLoop2_prefix (r : Ring) (hh : r.head < r.n) (fuel D : Nat) (hD : r.agg ≤ D) :
    ((r.buildLoop2 fuel D (r.idxSub r.head D) (r.idxSub r.head (D - r.agg))).map (·.idxs)).IsPrefix (allWins r fuel D) := by
  induction fuel generalizing D with
  | zero => simp [Ring.buildLoop2, allWins]
  | succ f ih =>
    rw [Ring.buildLoop2, allWins]
    by_cases hlt : D < r.n
    · simp only [hlt, if_true]
      cases hb : r.maybeBuild (r.idxSub r.head D) (r.idxSub r.head (D - r.agg)) with
      | none => simp
      | some c =>
        simp only [List.map_cons]
        have hidx : c.idxs = winIdx r D r.agg := by
          rw [maybeBuild_idxs r _ _ c hb]
          exact iterIdx_win r hh r.n D r.agg (by omega) hD hlt
        rw [hidx]
        have hnext : r.idxSub (r.idxSub r.head D) r.agg = r.idxSub r.head (D + r.agg) ∨ ¬ (D + r.agg < r.n) := by
          by_cases h2 : D + r.agg < r.n
          · left; exact idxSub_idxSub r r.head D r.agg hh (by omega)
          · right; exact h2
        rcases hnext with hnext | hnext
        · have := ih (D + r.agg) (by omega)
          rw [hnext]
          have he : D + r.agg - r.agg = D := by omega
          rw [he] at this
          exact List.prefix_cons_inj _ |>.2 this
        · -- the next window does not fit: the recursive call returns []
          have hnil : ∀ s e, r.buildLoop2 f (D + r.agg) s e = [] := by
            intro s e
            cases f with
            | zero => rfl
            | succ f' => rw [Ring.buildLoop2]; simp [hnext]
          rw [hnil]
          simp
    · simp [hlt]


theorem mem_winIdx {r : Ring} {D m i : Nat} : i ∈ winIdx r D m ↔ ∃ j, j < m ∧ i = r.idxSub r.head (D - j) := by
  unfold winIdx
  simp only [List.mem_map, List.mem_range]
  constructor
  · rintro ⟨j, hj, rfl⟩; exact ⟨j, hj, rfl⟩
  · rintro ⟨j, hj, rfl⟩; exact ⟨j, hj, rfl⟩

/-- every index of every window from `D` on is some distance `d` with `D - agg < d < n` back from the head -/
theorem allWins_dist (r : Ring) (fuel D : Nat) (hD : r.agg ≤ D) (w : List Nat) (hw : w ∈ allWins r fuel D) (i : Nat) (hi : i ∈ w) :
    ∃ d, D - r.agg < d ∧ d < r.n ∧ i = r.idxSub r.head d := by
  induction fuel generalizing D with
  | zero => simp [allWins] at hw
  | succ f ih =>
    rw [allWins] at hw
    split at hw
    · rename_i hlt
      simp only [List.mem_cons] at hw
      rcases hw with rfl | hw
      · obtain ⟨j, hj, rfl⟩ := mem_winIdx.1 hi
        exact ⟨D - j, by omega, by omega, rfl⟩
      · obtain ⟨d, h1, h2, h3⟩ := ih (D + r.agg) (by omega) hw
        exact ⟨d, by omega, h2, h3⟩
    · cases hw

theorem allWins_pairwise (r : Ring) (hh : r.head < r.n) (fuel D : Nat) (hD : r.agg ≤ D) :
    (allWins r fuel D).Pairwise (fun a b => ∀ i, i ∈ a → i ∉ b) := by
  induction fuel generalizing D with
  | zero => simp [allWins]
  | succ f ih =>
    rw [allWins]
    split
    · rename_i hlt
      rw [List.pairwise_cons]
      refine ⟨?_, ih (D + r.agg) (by omega)⟩
      intro b hb i hi hib
      obtain ⟨j, hj, rfl⟩ := mem_winIdx.1 hi
      obtain ⟨d, h1, h2, h3⟩ := allWins_dist r f (D + r.agg) (by omega) b hb _ hib
      have := idxSub_inj r r.head (D - j) d hh (by omega) h2 h3
      omega
    · exact List.Pairwise.nil

/-- the windows `r.built` is made of, for the fixed walk -/
theorem built_prefix (r : Ring) (hh : r.head < r.n) :
    (r.built.map (·.idxs)).IsPrefix (allWins r r.n (1 + r.pushAfter + r.agg)) := by
  unfold Ring.built
  simp only []
  by_cases hagg : r.agg < 1
  · simp [hagg]
  · simp only [hagg, if_false]
    by_cases hfit : 1 + r.pushAfter + r.agg < r.n
    · have h1 : r.idxSub (r.idxSub r.head 1) r.pushAfter = r.idxSub r.head (1 + r.pushAfter) :=
        idxSub_idxSub r r.head 1 r.pushAfter hh (by omega)
      have h2 : r.idxSub (r.idxSub r.head (1 + r.pushAfter)) r.agg = r.idxSub r.head (1 + r.pushAfter + r.agg) :=
        idxSub_idxSub r r.head (1 + r.pushAfter) r.agg hh (by omega)
      rw [h1, h2]
      have := buildLoop2_prefix r hh r.n (1 + r.pushAfter + r.agg) (by omega)
      have he : 1 + r.pushAfter + r.agg - r.agg = 1 + r.pushAfter := by omega
      rw [he] at this
      exact this
    · have : ∀ s e, r.buildLoop2 r.n (1 + r.pushAfter + r.agg) s e = [] := by
        intro s e
        cases hn : r.n with
        | zero => rfl
        | succ f => rw [Ring.buildLoop2]; simp [hfit]
      rw [this]; simp

/-- fixed walk, within one emission: no two built collections share a bucket, none contains the head
bucket, and every index is a ring index — for EVERY configuration. -/
theorem built_disjoint (r : Ring) (hh : r.head < r.n) :
    (r.built.map (·.idxs)).Pairwise (fun a b => ∀ i, i ∈ a → i ∉ b) ∧
    ∀ c ∈ r.built, ∀ i ∈ c.idxs, i ≠ r.head ∧ i < r.n := by
  have hpre := built_prefix r hh
  by_cases hagg : r.agg < 1
  · have : r.built = [] := by unfold Ring.built; simp [hagg]
    rw [this]; simp
  · refine ⟨(allWins_pairwise r hh r.n _ (by omega)).sublist hpre.sublist, ?_⟩
    intro c hc i hi
    have hmem : c.idxs ∈ allWins r r.n (1 + r.pushAfter + r.agg) :=
      hpre.subset (List.mem_map.2 ⟨c, hc, rfl⟩)
    obtain ⟨d, h1, h2, h3⟩ := allWins_dist r r.n _ (by omega) _ hmem i hi
    refine ⟨?_, by rw [h3]; exact idxSub_lt r _ _ (by omega)⟩
    intro he
    have h0 : r.idxSub r.head 0 = r.head := by
      unfold Ring.idxSub; rw [Nat.sub_zero, Nat.add_mod_right]; exact Nat.mod_eq_of_lt hh
    have he' : r.idxSub r.head d = r.idxSub r.head 0 := by rw [← h3, he, h0]
    have := idxSub_inj r r.head d 0 hh h2 (by omega) he'
    omega


/-! ### the emission walk over histories: a bucket is handed to the sink at most once -/

/-- pushed flag of the bucket `d` back from the head -/
def Ring.pd (r : Ring) (d : Nat) : Bool := (r.bucket (r.idxSub r.head d)).pushed

/-- Every pushed bucket lies in a window `(x, x + agg]` of distances, at or behind the emission
position (`x ≥ 1 + pushAfter`), all of whose buckets still in the ring are pushed: the pushed buckets
are exactly (the retained parts of) windows that were handed to the sink. -/
def PInv (r : Ring) : Prop :=
  ∀ d, d < r.n → r.pd d = true →
    ∃ x, 1 + r.pushAfter ≤ x ∧ x < d ∧ d ≤ x + r.agg ∧ ∀ d', x < d' → d' ≤ x + r.agg → d' < r.n → r.pd d' = true

theorem idxSub_zero (r : Ring) (hh : r.head < r.n) : r.idxSub r.head 0 = r.head := by
  unfold Ring.idxSub; rw [Nat.sub_zero, Nat.add_mod_right]; exact Nat.mod_eq_of_lt hh

theorem mem_allWins_form (r : Ring) (fuel D0 : Nat) (w : List Nat) (hw : w ∈ allWins r fuel D0) :
    ∃ D, D0 ≤ D ∧ D < r.n ∧ w = winIdx r D r.agg := by
  induction fuel generalizing D0 with
  | zero => simp [allWins] at hw
  | succ f ih =>
    rw [allWins] at hw
    split at hw
    · rename_i hlt
      simp only [List.mem_cons] at hw
      rcases hw with rfl | hw
      · exact ⟨D0, Nat.le_refl _, hlt, rfl⟩
      · obtain ⟨D, h1, h2, h3⟩ := ih (D0 + r.agg) hw
        exact ⟨D, by omega, h2, h3⟩
    · cases hw

theorem idx_in_win (r : Ring) (hh : r.head < r.n) (D d : Nat) (hD : D < r.n) (hd : d < r.n) (hagg : r.agg ≤ D) :
    r.idxSub r.head d ∈ winIdx r D r.agg ↔ D - r.agg < d ∧ d ≤ D := by
  rw [mem_winIdx]
  constructor
  · rintro ⟨j, hj, he⟩
    have := idxSub_inj r r.head d (D - j) hh hd (by omega) he
    omega
  · rintro ⟨h1, h2⟩
    exact ⟨D - d, by omega, by congr 1; omega⟩

/-- what the fixed walk builds: windows whose oldest bucket is unpushed, and so is the oldest bucket of the
window built just before (the next newer one), unless it is the first window -/
theorem buildLoop2_unpushed (r : Ring) (hh : r.head < r.n) (fuel D : Nat) (hD : r.agg ≤ D) (c : Coll)
    (hc : c ∈ r.buildLoop2 fuel D (r.idxSub r.head D) (r.idxSub r.head (D - r.agg))) :
    ∃ D', D ≤ D' ∧ D' < r.n ∧ c.idxs = winIdx r D' r.agg ∧ r.pd D' = false ∧
      (D' = D ∨ (D ≤ D' - r.agg ∧ r.pd (D' - r.agg) = false)) := by
  induction fuel generalizing D with
  | zero => simp [Ring.buildLoop2] at hc
  | succ f ih =>
    rw [Ring.buildLoop2] at hc
    by_cases hlt : D < r.n
    · simp only [hlt, if_true] at hc
      cases hb : r.maybeBuild (r.idxSub r.head D) (r.idxSub r.head (D - r.agg)) with
      | none => simp [hb] at hc
      | some c0 =>
        simp only [hb, List.mem_cons] at hc
        have hun : r.pd D = false := maybeBuild_start_unpushed r _ _ c0 hb
        rcases hc with rfl | hc
        · refine ⟨D, Nat.le_refl _, hlt, ?_, hun, Or.inl rfl⟩
          rw [maybeBuild_idxs r _ _ c hb]
          exact iterIdx_win r hh r.n D r.agg (by omega) hD hlt
        · by_cases h2 : D + r.agg < r.n
          · have hnext : r.idxSub (r.idxSub r.head D) r.agg = r.idxSub r.head (D + r.agg) :=
              idxSub_idxSub r r.head D r.agg hh (by omega)
            rw [hnext] at hc
            have he : D = D + r.agg - r.agg := by omega
            rw [he] at hc
            rw [← he] at hc
            have hc' : c ∈ r.buildLoop2 f (D + r.agg) (r.idxSub r.head (D + r.agg)) (r.idxSub r.head (D + r.agg - r.agg)) := by
              rw [← he]; exact hc
            obtain ⟨D', h1, h2', h3, h4, h5⟩ := ih (D + r.agg) (by omega) hc'
            refine ⟨D', by omega, h2', h3, h4, Or.inr ?_⟩
            rcases h5 with h5 | ⟨h5, h6⟩
            · subst h5; rw [← he]; exact ⟨Nat.le_refl _, hun⟩
            · exact ⟨by omega, h6⟩
          · have hnil : ∀ s e, r.buildLoop2 f (D + r.agg) s e = [] := by
              intro s e
              cases f with
              | zero => rfl
              | succ f' => rw [Ring.buildLoop2]; simp [h2]
            rw [hnil] at hc; cases hc
    · simp [hlt] at hc

theorem built_unpushed (r : Ring) (hh : r.head < r.n) (c : Coll) (hc : c ∈ r.built) :
    ∃ D', 1 + r.pushAfter + r.agg ≤ D' ∧ D' < r.n ∧ 1 ≤ r.agg ∧ c.idxs = winIdx r D' r.agg ∧ r.pd D' = false ∧
      (D' = 1 + r.pushAfter + r.agg ∨ (1 + r.pushAfter + r.agg ≤ D' - r.agg ∧ r.pd (D' - r.agg) = false)) := by
  unfold Ring.built at hc
  simp only [] at hc
  by_cases hagg : r.agg < 1
  · simp [hagg] at hc
  · simp only [hagg, if_false] at hc
    by_cases hfit : 1 + r.pushAfter + r.agg < r.n
    · have h1 : r.idxSub (r.idxSub r.head 1) r.pushAfter = r.idxSub r.head (1 + r.pushAfter) :=
        idxSub_idxSub r r.head 1 r.pushAfter hh (by omega)
      have h2 : r.idxSub (r.idxSub r.head (1 + r.pushAfter)) r.agg = r.idxSub r.head (1 + r.pushAfter + r.agg) :=
        idxSub_idxSub r r.head (1 + r.pushAfter) r.agg hh (by omega)
      rw [h1, h2] at hc
      have he : 1 + r.pushAfter + r.agg - r.agg = 1 + r.pushAfter := by omega
      have hc' : c ∈ r.buildLoop2 r.n (1 + r.pushAfter + r.agg) (r.idxSub r.head (1 + r.pushAfter + r.agg))
          (r.idxSub r.head (1 + r.pushAfter + r.agg - r.agg)) := by rw [he]; exact hc
      obtain ⟨D', a1, a2, a3, a4, a5⟩ := buildLoop2_unpushed r hh r.n (1 + r.pushAfter + r.agg) (by omega) c hc'
      exact ⟨D', a1, a2, by omega, a3, a4, a5⟩
    · have : ∀ s e, r.buildLoop2 r.n (1 + r.pushAfter + r.agg) s e = [] := by
        intro s e
        cases hn : r.n with
        | zero => rfl
        | succ f => rw [Ring.buildLoop2]; simp [hfit]
      rw [this] at hc; cases hc

/-- Under the pushed-window invariant every bucket of every collection the fixed walk builds is unpushed. -/
theorem built_all_unpushed (r : Ring) (hh : r.head < r.n) (hI : PInv r)
    (c : Coll) (hc : c ∈ r.built) (i : Nat) (hi : i ∈ c.idxs) : (r.bucket i).pushed = false := by
  obtain ⟨D', h1, h2, hagg, h3, h4, h5⟩ := built_unpushed r hh c hc
  rw [h3] at hi
  obtain ⟨j, hj, rfl⟩ := mem_winIdx.1 hi
  cases hpd : r.pd (D' - j) with
  | false => exact hpd
  | true =>
    exfalso
    obtain ⟨x, x1, x2, x3, x4⟩ := hI (D' - j) (by omega) hpd
    by_cases hcase : D' ≤ x + r.agg
    · have := x4 D' (by omega) hcase h2
      rw [h4] at this; cases this
    · rcases h5 with h5 | ⟨h5, h6⟩
      · omega
      · have := x4 (D' - r.agg) (by omega) (by omega) (by omega)
        rw [h6] at this; cases this


structure SameFlags (a b : Ring) : Prop where
  head : a.head = b.head
  len : a.n = b.n
  pa : a.pushAfter = b.pushAfter
  agg : a.agg = b.agg
  pushed : ∀ i, (a.bucket i).pushed = (b.bucket i).pushed

theorem SameFlags.pd {a b : Ring} (h : SameFlags a b) (d : Nat) : a.pd d = b.pd d := by
  unfold Ring.pd Ring.idxSub; rw [h.head, h.len]; exact h.pushed _

theorem PInv.of_flags {a b : Ring} (h : SameFlags a b) (hb : PInv b) : PInv a := by
  intro d hd hp
  rw [h.len] at hd; rw [h.pd] at hp
  obtain ⟨x, x1, x2, x3, x4⟩ := hb d hd hp
  refine ⟨x, by rw [h.pa]; exact x1, x2, by rw [h.agg]; exact x3, fun d' a1 a2 a3 => ?_⟩
  rw [h.pd]; exact x4 d' a1 (by rw [← h.agg]; exact a2) (by rw [← h.len]; exact a3)

theorem addFlow_flags (r : Ring) (key : Nat) (t cnt : Int) : SameFlags (r.addFlow key t cnt).1 r := by
  cases hf : r.findBucket t with
  | none => simp only [Ring.addFlow, hf]; exact ⟨rfl, rfl, rfl, rfl, fun _ => rfl⟩
  | some i =>
    simp only [Ring.addFlow, hf, Ring.setBucket]
    refine ⟨rfl, by simp [Ring.n], rfl, rfl, fun j => ?_⟩
    by_cases hj : i = j
    · subst hj
      by_cases hl : i < r.buckets.length
      · simp [Ring.bucket, List.getD_eq_getElem?_getD, List.getElem?_set_self hl]
      · rw [List.set_eq_of_length_le (Nat.le_of_not_lt hl)]; rfl
    · simp [Ring.bucket, List.getD_eq_getElem?_getD, List.getElem?_set_ne hj]

theorem advance_pd (r : Ring) (hn : 0 < r.n) (hh : r.head < r.n) (d : Nat) (hd : d < r.n) :
    r.advance.pd d = if d = 0 then false else r.pd (d - 1) := by
  have hh' : r.idxAdd r.head 1 < r.n := idxAdd_lt r _ _ hn
  have hnn : r.advance.n = r.n := advance_n r
  unfold Ring.pd
  by_cases hd0 : d = 0
  · subst hd0
    have : r.advance.idxSub r.advance.head 0 = r.idxAdd r.head 1 := by
      unfold Ring.idxSub; rw [hnn]; show (r.idxAdd r.head 1 + r.n - 0) % r.n = _
      rw [Nat.sub_zero, Nat.add_mod_right]; exact Nat.mod_eq_of_lt hh'
    rw [this]
    have := bucket_set_self r (r.idxAdd r.head 1)
      { start := (r.bucket r.head).stop, stop := (r.bucket r.head).stop + r.interval, pushed := false, keys := [] } hh'
    show (r.advance.bucket (r.idxAdd r.head 1)).pushed = _
    unfold Ring.advance
    simp only [if_true]
    simp only [Ring.bucket] at this ⊢
    rw [this]
  · simp only [hd0, if_false]
    have hidx : r.advance.idxSub r.advance.head d = r.idxSub r.head (d - 1) := by
      unfold Ring.idxSub; rw [hnn]
      exact idxSub_next r r.head d hh (by omega) hd
    have hne : r.idxAdd r.head 1 ≠ r.idxSub r.head (d - 1) := by
      rw [idxAdd_one_eq_sub r r.head hh]
      intro he
      have := idxSub_inj r r.head (r.n - 1) (d - 1) hh (by omega) (by omega) he
      omega
    rw [hidx, advance_old r _ hne]

theorem advance_pinv {r : Ring} (hn : 0 < r.n) (hh : r.head < r.n) (h : PInv r) : PInv r.advance := by
  intro d hd hp
  rw [advance_n] at hd
  rw [advance_pd r hn hh d hd] at hp
  by_cases hd0 : d = 0
  · simp [hd0] at hp
  · simp only [hd0, if_false] at hp
    obtain ⟨x, x1, x2, x3, x4⟩ := h (d - 1) (by omega) hp
    refine ⟨x + 1, by show 1 + r.pushAfter ≤ x + 1; omega, by omega, by show d ≤ x + 1 + r.agg; omega, ?_⟩
    intro d' a1 a2 a3
    rw [advance_n] at a3
    rw [advance_pd r hn hh d' a3]
    have : d' ≠ 0 := by omega
    simp only [this, if_false]
    exact x4 (d' - 1) (by omega) (by have : d' ≤ x + 1 + r.agg := a2; omega) (by omega)

theorem emit_fields (r : Ring) : r.emit.1.pushAfter = r.pushAfter ∧ r.emit.1.agg = r.agg := by
  unfold Ring.emit
  simp only []
  generalize (r.built.reverse).filter (fun c => !c.flows.isEmpty) = cs
  induction cs generalizing r with
  | nil => exact ⟨rfl, rfl⟩
  | cons c cs ih => simp only [List.foldl_cons]; exact ih (r.markPushed c.idxs)

theorem emit_pushed (r : Ring) (j : Nat) :
    (r.emit.1.bucket j).pushed = ((r.bucket j).pushed || (decide (∃ c ∈ r.emit.2, j ∈ c.idxs) && decide (j < r.n))) := by
  unfold Ring.emit; simp only []; exact foldMark_pushed _ r j

theorem emit_sent_built (r : Ring) (c : Coll) (hc : c ∈ r.emit.2) : c ∈ r.built := by
  unfold Ring.emit at hc; simp only [] at hc
  exact List.mem_reverse.1 (List.mem_filter.1 hc).1

theorem emit_pinv {r : Ring} (hn : 0 < r.n) (hh : r.head < r.n) (h : PInv r) : PInv r.emit.1 := by
  have hs := (emit_same r).1
  have hf := emit_fields r
  have hlen : r.emit.1.n = r.n := hs.len
  have hpd : ∀ d, r.emit.1.pd d = (r.pd d || (decide (∃ c ∈ r.emit.2, r.idxSub r.head d ∈ c.idxs))) := by
    intro d
    unfold Ring.pd Ring.idxSub
    rw [hs.head, hlen, emit_pushed]
    have : (r.head + r.n - d) % r.n < r.n := Nat.mod_lt _ hn
    simp [this]
  intro d hd hpt
  rw [hlen] at hd
  rw [hpd d, Bool.or_eq_true] at hpt
  rcases hpt with hold | hnew
  · obtain ⟨x, x1, x2, x3, x4⟩ := h d hd hold
    refine ⟨x, by rw [hf.1]; exact x1, x2, by rw [hf.2]; exact x3, fun d' a1 a2 a3 => ?_⟩
    rw [hpd d', Bool.or_eq_true]; left
    exact x4 d' a1 (by rw [← hf.2]; exact a2) (by rw [← hlen]; exact a3)
  · simp only [decide_eq_true_eq] at hnew
    obtain ⟨c, hc, hi⟩ := hnew
    obtain ⟨D', b1, b2, b3, b4, _, _⟩ := built_unpushed r hh c (emit_sent_built r c hc)
    rw [b4] at hi
    have hw := (idx_in_win r hh D' d b2 hd (by omega)).1 hi
    refine ⟨D' - r.agg, by rw [hf.1]; omega, hw.1, by rw [hf.2]; omega, fun d' a1 a2 a3 => ?_⟩
    rw [hpd d', Bool.or_eq_true]; right
    simp only [decide_eq_true_eq]
    refine ⟨c, hc, ?_⟩
    rw [b4]
    rw [hlen] at a3; rw [hf.2] at a2
    exact (idx_in_win r hh D' d' b2 a3 (by omega)).2 ⟨a1, by omega⟩

/-- the ring after the head moved and the expired windows were dropped, before the emission -/
def Ring.rolled (r : Ring) : Ring := (r.rollover false).1

theorem rolled_flags (r : Ring) : SameFlags r.rolled r.advance := by
  unfold Ring.rolled Ring.rollover
  simp only []
  exact ⟨rfl, rfl, rfl, rfl, fun _ => rfl⟩

theorem rollover_true_eq (r : Ring) : (r.rollover true).1 = r.rolled.emit.1 ∧ (r.rollover true).2.2 = r.rolled.emit.2 := by
  unfold Ring.rolled Ring.rollover
  simp only []
  exact ⟨rfl, rfl⟩

/-- invariant of the fixed walk over histories -/
structure HInv (r : Ring) : Prop where
  npos : 0 < r.n
  hlt : r.head < r.n
  pinv : PInv r

theorem rolled_hinv {r : Ring} (h : HInv r) : HInv r.rolled := by
  have hf := rolled_flags r
  refine ⟨by rw [hf.len, advance_n]; exact h.npos,
    by rw [hf.len, hf.head, advance_n]; exact idxAdd_lt r _ _ h.npos,
    PInv.of_flags hf (advance_pinv h.npos h.hlt h.pinv)⟩

theorem emit_hinv {r : Ring} (h : HInv r) : HInv r.emit.1 := by
  have hs := (emit_same r).1
  refine ⟨by rw [show r.emit.1.n = r.n from hs.len]; exact h.npos,
    by rw [show r.emit.1.n = r.n from hs.len, hs.head]; exact h.hlt, emit_pinv h.npos h.hlt h.pinv⟩

theorem gstep_hinv {s : Ring × Log} (h : HInv s.1) (op : Op) : HInv (gstep s op).1 := by
  cases op with
  | add k t c =>
    have hf := addFlow_flags s.1 k t c
    show HInv (s.1.addFlow k t c).1
    exact ⟨by rw [hf.len]; exact h.npos, by rw [hf.len, hf.head]; exact h.hlt,
      PInv.of_flags hf h.pinv⟩
  | roll sink =>
    cases sink with
    | false => exact rolled_hinv h
    | true =>
      show HInv (s.1.rollover true).1
      rw [(rollover_true_eq s.1).1]
      exact emit_hinv (rolled_hinv h)
  | emit => exact emit_hinv h

theorem grun_hinv {s : Ring × Log} (h : HInv s.1) (ops : List Op) : HInv (grun s ops).1 := by
  induction ops generalizing s with
  | nil => exact h
  | cons op ops ih => exact ih (gstep_hinv h op)


def AllUnpushed (r : Ring) : Prop := ∀ i, (r.bucket i).pushed = false

theorem advance_unpushed {r : Ring} (h : AllUnpushed r) : AllUnpushed r.advance := by
  intro i
  by_cases hi : r.idxAdd r.head 1 = i
  · subst hi
    by_cases hl : r.idxAdd r.head 1 < r.buckets.length
    · simp [Ring.advance, Ring.bucket, List.getD_eq_getElem?_getD, List.getElem?_set_self hl]
    · unfold Ring.advance Ring.bucket
      simp only []
      rw [List.set_eq_of_length_le (Nat.le_of_not_lt hl)]
      exact h _
  · rw [advance_old r i hi]; exact h i

theorem rollN_unpushed {r : Ring} (h : AllUnpushed r) (m : Nat) : AllUnpushed (rollN r m) := by
  induction m generalizing r with
  | zero => exact h
  | succ m ih =>
    apply ih
    intro i
    have := (rolled_flags r).pushed i
    unfold Ring.rolled at this
    rw [this]; exact advance_unpushed h i

theorem initRing_unpushed (n : Nat) (interval S : Int) (pushAfter agg : Nat) :
    AllUnpushed (initRing n interval S pushAfter agg) := by
  intro i
  unfold initRing Ring.bucket
  simp only [List.getD_eq_getElem?_getD]
  by_cases h0 : 0 = i
  · subst h0
    by_cases hl : 0 < (List.replicate n emptyBucket).length
    · rw [List.getElem?_set_self hl]; rfl
    · rw [List.set_eq_of_length_le (Nat.le_of_not_lt hl)]
      cases hh : (List.replicate n emptyBucket)[0]? with
      | none => rfl
      | some b => have := List.mem_of_getElem? hh; rw [List.mem_replicate] at this; rw [this.2]; rfl
  · rw [List.getElem?_set_ne h0]
    cases hh : (List.replicate n emptyBucket)[i]? with
    | none => rfl
    | some b => have := List.mem_of_getElem? hh; rw [List.mem_replicate] at this; simp [this.2, emptyBucket]

theorem newRing_hinv (n : Nat) (interval now : Int) (pushAfter agg : Nat) (hn : 0 < n) (hi : 0 < interval) :
    HInv (newRing n interval now pushAfter agg) := by
  obtain ⟨hc, hl⟩ := newRing_contig n interval now pushAfter agg hn hi
  have hu : AllUnpushed (newRing n interval now pushAfter agg) := by
    rw [newRing_eq]; exact rollN_unpushed (initRing_unpushed _ _ _ _ _) n
  refine ⟨hc.npos, hc.hlt, ?_⟩
  intro d _ hp
  unfold Ring.pd at hp
  rw [hu] at hp; cases hp

/-! ### multi-bucket queries: no stale windows -/

def WSorted (ws : List Win) : Prop := ws.Pairwise (fun a b => a.start ≤ b.start)

theorem addWin_sorted (st sp c : Int) (ws : List Win) (h : WSorted ws) : WSorted (addWin st sp c ws) := by
  induction ws with
  | nil => simp [addWin, WSorted]
  | cons x xs ih =>
    unfold WSorted at h ih ⊢
    rw [List.pairwise_cons] at h
    simp only [addWin]
    split
    · rename_i hge
      split
      · rw [List.pairwise_cons]; exact ⟨fun b hb => h.1 b hb, h.2⟩
      · rw [List.pairwise_cons, List.pairwise_cons]
        refine ⟨?_, h.1, h.2⟩
        intro b hb
        simp only [List.mem_cons] at hb
        rcases hb with rfl | hb
        · exact hge
        · exact Int.le_trans hge (h.1 b hb)
    · rename_i hlt
      rw [List.pairwise_cons]
      refine ⟨?_, ih h.2⟩
      intro b hb
      rcases addWin_mem _ _ _ _ _ hb with h1 | ⟨h1, _⟩
      · exact h.1 b h1
      · rw [h1]; omega

theorem dropExpired_sorted (lim : Int) (ws : List Win) (h : WSorted ws) : WSorted (dropExpired lim ws) := by
  induction ws with
  | nil => exact h
  | cons x xs ih =>
    simp only [dropExpired]
    split
    · exact h
    · unfold WSorted at h; rw [List.pairwise_cons] at h; exact ih h.2

/-- on a start-sorted list whose windows all have the same width, `Rollover` drops exactly the expired windows -/
theorem dropExpired_all (lim I : Int) (ws : List Win) (hs : WSorted ws) (hI : ∀ w ∈ ws, w.stop = w.start + I) :
    ∀ w ∈ dropExpired lim ws, w.stop > lim := by
  induction ws with
  | nil => simp [dropExpired]
  | cons x xs ih =>
    unfold WSorted at hs; rw [List.pairwise_cons] at hs
    simp only [dropExpired]
    split
    · rename_i hx
      intro w hw
      simp only [List.mem_cons] at hw
      rcases hw with rfl | hw
      · exact hx
      · have h1 := hs.1 w hw
        have h2 := hI w (List.mem_cons_of_mem _ hw)
        have h3 := hI x (List.mem_cons_self ..)
        omega
    · exact ih hs.2 (fun w hw => hI w (List.mem_cons_of_mem _ hw))

theorem insertKey_mem (k : Nat) (l : List Nat) (x : Nat) : x ∈ insertKey k l ↔ x = k ∨ x ∈ l := by
  induction l with
  | nil => simp [insertKey]
  | cons y ys ih =>
    simp only [insertKey]
    split
    · simp
    · split
      · rename_i hk; subst hk; simp
      · simp only [List.mem_cons, ih]
        constructor
        · rintro (h | h | h)
          · exact Or.inr (Or.inl h)
          · exact Or.inl h
          · exact Or.inr (Or.inr h)
        · rintro (h | h | h)
          · exact Or.inr (Or.inl h)
          · exact Or.inl h
          · exact Or.inr (Or.inr h)

/-- extended invariant: the windows of every key are sorted by start, and every window belongs to a bucket
of the ring that lists the key -/
structure QInv (r : Ring) (log : Log) : Prop where
  g : GInv r log
  sorted : ∀ k, WSorted (r.wins k)
  home : ∀ k w, w ∈ r.wins k → ∃ i, i < r.n ∧ (r.bucket i).start = w.start ∧ k ∈ (r.bucket i).keys


theorem addFlow_keys (r : Ring) (key : Nat) (t cnt : Int) (j k : Nat) (h : k ∈ (r.bucket j).keys) :
    k ∈ ((r.addFlow key t cnt).1.bucket j).keys := by
  cases hf : r.findBucket t with
  | none => simp only [Ring.addFlow, hf]; exact h
  | some i =>
    simp only [Ring.addFlow, hf, Ring.setBucket]
    by_cases hj : i = j
    · subst hj
      by_cases hl : i < r.buckets.length
      · simp only [Ring.bucket, List.getD_eq_getElem?_getD, List.getElem?_set_self hl, Option.getD_some]
        exact (insertKey_mem _ _ _).2 (Or.inr h)
      · rw [List.set_eq_of_length_le (Nat.le_of_not_lt hl)]; exact h
    · simpa [Ring.bucket, List.getD_eq_getElem?_getD, List.getElem?_set_ne hj] using h

theorem addFlow_key_self (r : Ring) (key : Nat) (t cnt : Int) (i : Nat) (hf : r.findBucket t = some i) (hi : i < r.n) :
    key ∈ ((r.addFlow key t cnt).1.bucket i).keys := by
  simp only [Ring.addFlow, hf, Ring.setBucket]
  have hl : i < r.buckets.length := hi
  simp only [Ring.bucket, List.getD_eq_getElem?_getD, List.getElem?_set_self hl, Option.getD_some]
  exact (insertKey_mem _ _ _).2 (Or.inl rfl)

theorem addFlow_qinv {r : Ring} {log : Log} (hq : QInv r log) (key : Nat) (t cnt : Int) :
    QInv (r.addFlow key t cnt).1 (if (r.addFlow key t cnt).2 then (key, t, cnt) :: log else log) := by
  have hg := addFlow_ginv hq.g key t cnt
  cases hf : r.findBucket t with
  | none =>
    have : r.addFlow key t cnt = (r, false) := by simp [Ring.addFlow, hf]
    rw [this]; exact hq
  | some i0 =>
    obtain ⟨hacc, hdia, hlay⟩ := addFlow_accept r key t cnt i0 hf
    obtain ⟨ht1, ht2⟩ := findBucket_sound' r t i0 hf
    obtain ⟨i', hi', hf', _⟩ := contig_findBucket hq.g.contig t ht2 ht1
    have hii : i0 = i' := by rw [hf] at hf'; exact Option.some.inj hf'
    subst hii
    have hwk : (r.addFlow key t cnt).1.wins key = addWin (r.bucket i0).start (r.bucket i0).stop cnt (r.wins key) := by
      unfold Ring.wins; rw [hdia]; exact setDia_self _ _ _ hq.g.ks
    have hwo : ∀ k, k ≠ key → (r.addFlow key t cnt).1.wins k = r.wins k := by
      intro k hk; unfold Ring.wins; rw [hdia]; exact setDia_ne _ _ _ _ hk
    refine ⟨hg, ?_, ?_⟩
    · intro k
      by_cases hk : k = key
      · subst hk; rw [hwk]; exact addWin_sorted _ _ _ _ (hq.sorted k)
      · rw [hwo k hk]; exact hq.sorted k
    · intro k w hw
      have old : w ∈ r.wins k → ∃ i, i < (r.addFlow key t cnt).1.n ∧ ((r.addFlow key t cnt).1.bucket i).start = w.start ∧
          k ∈ ((r.addFlow key t cnt).1.bucket i).keys := by
        intro hwo'
        obtain ⟨i, hi, hs, hk⟩ := hq.home k w hwo'
        exact ⟨i, by rw [hlay.len]; exact hi, by rw [(hlay.bk i).1]; exact hs, addFlow_keys r key t cnt i k hk⟩
      by_cases hk : k = key
      · subst hk
        rw [hwk] at hw
        rcases addWin_mem _ _ _ _ _ hw with h1 | ⟨h1, _⟩
        · exact old h1
        · exact ⟨i0, by rw [hlay.len]; exact hi', by rw [(hlay.bk i0).1, h1], addFlow_key_self r k t cnt i0 hf hi'⟩
      · rw [hwo k hk] at hw; exact old hw

theorem advance_boh {r : Ring} (h : Contig r) : r.advance.boh = r.boh + r.interval := by
  have h1 := contig_boh h
  have h2 := contig_boh (advance_contig h)
  rw [advance_eoh h, advance_n] at h2
  have : r.advance.interval = r.interval := rfl
  rw [this] at h2
  omega

theorem rollover_qinv {r : Ring} {log : Log} (hq : QInv r log) (sink : Bool) : QInv (r.rollover sink).1 log := by
  have hg := rollover_ginv hq.g sink
  have hspec := expireFold_spec r.advance.boh (r.bucket (r.idxAdd r.head 1)).keys r.dia hq.g.ks
  have hw' : ∀ k, (r.rollover sink).1.wins k =
      if k ∈ (r.bucket (r.idxAdd r.head 1)).keys then dropExpired r.advance.boh (r.wins k) else r.wins k := by
    intro k; unfold Ring.wins; rw [rollover_dia]; exact hspec.2 k
  have hsame := rollover_same r sink
  refine ⟨hg, ?_, ?_⟩
  · intro k; rw [hw']; split
    · exact dropExpired_sorted _ _ (hq.sorted k)
    · exact hq.sorted k
  · intro k w hw
    rw [hw'] at hw
    have hwold : w ∈ r.wins k := by
      split at hw
      · exact dropExpired_mem _ _ _ hw
      · exact hw
    obtain ⟨i, hi, hs, hk⟩ := hq.home k w hwold
    by_cases hih : r.idxAdd r.head 1 = i
    · -- the window belongs to the bucket that was just reset: it has been dropped
      exfalso
      subst hih
      simp only [hk, if_true] at hw
      have h1 := dropExpired_all r.advance.boh r.interval (r.wins k) (hq.sorted k) (fun w hw => hq.g.wI k w hw) w hw
      have h2 := hq.g.wI k w hwold
      have h3 := advance_boh hq.g.contig
      have h4 : r.boh = (r.bucket (r.idxAdd r.head 1)).start := rfl
      omega
    · refine ⟨i, by rw [rollover_n]; exact hi, ?_, ?_⟩
      · rw [(hsame.bk i).1, advance_old r i hih]; exact hs
      · rw [(hsame.bk i).2.2, advance_old r i hih]; exact hk

theorem emit_qinv {r : Ring} {log : Log} (hq : QInv r log) : QInv r.emit.1 log := by
  have hs := (emit_same r).1
  have hd := (emit_same r).2
  have hw : ∀ k, r.emit.1.wins k = r.wins k := fun k => by unfold Ring.wins; rw [hd]
  refine ⟨emit_ginv hq.g, fun k => by rw [hw]; exact hq.sorted k, ?_⟩
  intro k w hwm
  rw [hw] at hwm
  obtain ⟨i, hi, h1, h2⟩ := hq.home k w hwm
  exact ⟨i, by rw [show r.emit.1.n = r.n from hs.len]; exact hi, by rw [(hs.bk i).1]; exact h1, by rw [(hs.bk i).2.2]; exact h2⟩

theorem gstep_qinv {s : Ring × Log} (h : QInv s.1 s.2) (op : Op) : QInv (gstep s op).1 (gstep s op).2 := by
  cases op with
  | add k t c => exact addFlow_qinv h k t c
  | roll sink => exact rollover_qinv h sink
  | emit => exact emit_qinv h

theorem grun_qinv {s : Ring × Log} (h : QInv s.1 s.2) (ops : List Op) : QInv (grun s ops).1 (grun s ops).2 := by
  induction ops generalizing s with
  | nil => exact h
  | cons op ops ih => exact ih (gstep_qinv h op)

theorem newRing_qinv (n : Nat) (interval now : Int) (pushAfter agg : Nat) (hn : 0 < n) (hi : 0 < interval) :
    QInv (newRing n interval now pushAfter agg) [] := by
  have hg := newRing_ginv n interval now pushAfter agg hn hi
  have he : EmptyRing (newRing n interval now pushAfter agg) := by
    rw [newRing_eq]; exact rollN_empty (initRing_empty _ _ _ _ _) n
  have hw : ∀ k, (newRing n interval now pushAfter agg).wins k = [] := by
    intro k; unfold Ring.wins; rw [he.1]; rfl
  refine ⟨hg, fun k => by rw [hw]; exact List.Pairwise.nil, ?_⟩
  intro k w hwm; rw [hw] at hwm; cases hwm


/-! ### a range query is the sum over the retained buckets inside the range -/

def bucketIn (gte lt : Int) (b : Bucket) : Bool := (gte == 0 || decide (b.start ≥ gte)) && (lt == 0 || decide (b.stop ≤ lt))

theorem sum_map_add (L : List Nat) (f g : Nat → Int) :
    (L.map (fun i => f i + g i)).sum = (L.map f).sum + (L.map g).sum := by
  induction L with
  | nil => simp
  | cons x xs ih => simp only [List.map_cons, List.sum_cons, ih]; omega

theorem sum_map_single (L : List Nat) (hnd : L.Nodup) (x0 : Nat) (hx : x0 ∈ L) (c : Int) :
    (L.map (fun i => if i = x0 then c else 0)).sum = c := by
  induction L with
  | nil => cases hx
  | cons y ys ih =>
    rw [List.nodup_cons] at hnd
    simp only [List.map_cons, List.sum_cons]
    simp only [List.mem_cons] at hx
    by_cases hy : y = x0
    · subst hy
      have : (ys.map (fun i => if i = y then c else 0)).sum = 0 := by
        have hz : ys.map (fun i => if i = y then c else 0) = ys.map (fun _ => (0 : Int)) := by
          apply List.map_congr_left
          intro i hi
          have : i ≠ y := fun h => hnd.1 (h ▸ hi)
          simp [this]
        rw [hz]; clear hz ih hx hnd
        induction ys with
        | nil => rfl
        | cons _ _ ih => simp [ih]
      simp [this]
    · have hx' : x0 ∈ ys := by
        rcases hx with h | h
        · exact absurd h.symm hy
        · exact h
      simp [hy, ih hnd.2 hx']

theorem sum_map_zero (L : List Nat) : (L.map (fun _ => (0 : Int))).sum = 0 := by
  induction L with
  | nil => rfl
  | cons _ _ ih => simp [ih]

/-- partition of a key's windows by the ring bucket they belong to -/
theorem total_partition {r : Ring} (hc : Contig r) (ws : List Win)
    (hhome : ∀ w ∈ ws, ∃ i, i < r.n ∧ (r.bucket i).start = w.start) (P : Win → Bool) :
    total (ws.filter P) =
      ((List.range r.n).map (fun i => total (ws.filter (fun w => P w && (w.start == (r.bucket i).start))))).sum := by
  induction ws with
  | nil => simp [total, sum_map_zero]
  | cons w ws ih =>
    have ih' := ih (fun w' hw' => hhome w' (List.mem_cons_of_mem _ hw'))
    obtain ⟨i0, hi0, hs0⟩ := hhome w (List.mem_cons_self ..)
    have hstart : ∀ i, i < r.n → ((w.start == (r.bucket i).start) = true ↔ i = i0) := by
      intro i hi
      simp only [beq_iff_eq]
      constructor
      · intro he
        have hb := contig_stop_le hc i hi
        have hb0 := contig_stop_le hc i0 hi0
        have hI := hc.ipos
        apply contig_unique hc w.start i i0 hi hi0
        · simp only [Bucket.contains, Bool.and_eq_true, decide_eq_true_eq]; omega
        · simp only [Bucket.contains, Bool.and_eq_true, decide_eq_true_eq]; omega
      · intro he; rw [he, hs0]
    have hsplit : ∀ i, i ∈ List.range r.n →
        total ((w :: ws).filter (fun w' => P w' && (w'.start == (r.bucket i).start))) =
          (if i = i0 then (if P w then w.cnt else 0) else 0) +
            total (ws.filter (fun w' => P w' && (w'.start == (r.bucket i).start))) := by
      intro i hi
      have hi' : i < r.n := List.mem_range.1 hi
      by_cases hii : i = i0
      · have hb : (w.start == (r.bucket i).start) = true := (hstart i hi').2 hii
        by_cases hp : P w = true
        · rw [List.filter_cons_of_pos (by simp [hp, hb])]
          simp [total, hii, hp]
        · have hp' : P w = false := by simpa using hp
          rw [List.filter_cons_of_neg (by simp [hp'])]
          simp [hii, hp']
      · have hb : (w.start == (r.bucket i).start) = false := by
          cases hh : (w.start == (r.bucket i).start) with
          | false => rfl
          | true => exact absurd ((hstart i hi').1 hh) hii
        rw [List.filter_cons_of_neg (by simp [hb])]
        simp [hii]
    rw [List.map_congr_left hsplit, sum_map_add, ← ih']
    rw [sum_map_single (List.range r.n) List.nodup_range i0 (List.mem_range.2 hi0)]
    by_cases hp : P w = true
    · rw [List.filter_cons_of_pos hp]; simp [total, hp]
    · have hp' : P w = false := by simpa using hp
      rw [List.filter_cons_of_neg (by simp [hp'])]; simp [hp']

/-- `query_eq_sum_retained`: in every reachable state, every row `List` returns for a range carries the sum,
over the buckets of the ring that lie wholly inside the range (`0` = unbounded, as in the code), of the
accepted flows of that key whose start time falls into the bucket. -/
theorem list_eq_sum_buckets {r : Ring} {log : Log} (hq : QInv r log) (gte lt : Int) (x : Nat × Int × Int × Int)
    (hx : x ∈ r.list gte lt) :
    x.2.1 = ((List.range r.n).map (fun i =>
      if bucketIn gte lt (r.bucket i) then logSum log x.1 (r.bucket i).start (r.bucket i).stop else 0)).sum := by
  rw [list_count r gte lt x hx]
  rw [total_partition hq.g.contig (r.wins x.1)
    (fun w hw => by obtain ⟨i, h1, h2, _⟩ := hq.home x.1 w hw; exact ⟨i, h1, h2⟩) (inRange gte lt)]
  congr 1
  apply List.map_congr_left
  intro i hi
  have hi' : i < r.n := List.mem_range.1 hi
  have hb := (contig_stop_le hq.g.contig i hi').1
  -- inside one bucket `inRange` is constant = `bucketIn`
  have hcongr : (r.wins x.1).filter (fun w => inRange gte lt w && (w.start == (r.bucket i).start)) =
      (r.wins x.1).filter (fun w => bucketIn gte lt (r.bucket i) && (w.start == (r.bucket i).start)) := by
    apply List.filter_congr
    intro w hw
    by_cases hs : w.start = (r.bucket i).start
    · have hI := hq.g.wI x.1 w hw
      have : w.stop = (r.bucket i).stop := by rw [hI, hb, hs]
      simp [inRange, bucketIn, hs, this]
    · have : (w.start == (r.bucket i).start) = false := by simpa using hs
      simp [this]
  rw [hcongr]
  by_cases hin : bucketIn gte lt (r.bucket i) = true
  · simp only [hin, Bool.true_and, if_true]
    exact hq.g.q x.1 i hi'
  · have hin' : bucketIn gte lt (r.bucket i) = false := by simpa using hin
    have hnil : (r.wins x.1).filter (fun w => bucketIn gte lt (r.bucket i) && (w.start == (r.bucket i).start)) = [] := by
      apply List.filter_eq_nil_iff.2
      intro w _; simp [hin']
    rw [hnil]; simp [hin', total]

/-! ### completeness of `List`: every key with a retained accepted flow in range has a row -/

theorem unionKeys_mem (a b : List Nat) (k : Nat) : k ∈ unionKeys a b ↔ k ∈ a ∨ k ∈ b := by
  unfold unionKeys
  induction a generalizing b with
  | nil => simp
  | cons x xs ih =>
    simp only [List.foldl_cons, ih, insertKey_mem, List.mem_cons]
    constructor
    · rintro (h | h | h)
      · exact Or.inl (Or.inr h)
      · exact Or.inl (Or.inl h)
      · exact Or.inr h
    · rintro ((h | h) | h)
      · exact Or.inr (Or.inl h)
      · exact Or.inl h
      · exact Or.inr (Or.inr h)

def bucketSel (gte lt : Int) (b : Bucket) : Bool := (gte == 0 || decide (b.start ≥ gte)) && (lt == 0 || decide (b.start ≤ lt))

theorem flowSet_fold_mem (gte lt : Int) (bs : List Bucket) (acc : List Nat) (k : Nat)
    (h : k ∈ acc ∨ ∃ b ∈ bs, bucketSel gte lt b = true ∧ k ∈ b.keys) :
    k ∈ bs.foldl (fun acc b =>
      if (gte == 0 || decide (b.start ≥ gte)) && (lt == 0 || decide (b.start ≤ lt)) then unionKeys b.keys acc else acc) acc := by
  induction bs generalizing acc with
  | nil =>
    rcases h with h | ⟨b, hb, _⟩
    · exact h
    · cases hb
  | cons x xs ih =>
    simp only [List.foldl_cons]
    apply ih
    rcases h with h | ⟨b, hb, hsel, hk⟩
    · left; split
      · exact (unionKeys_mem _ _ _).2 (Or.inr h)
      · exact h
    · simp only [List.mem_cons] at hb
      rcases hb with rfl | hb
      · left
        have : ((gte == 0 || decide (b.start ≥ gte)) && (lt == 0 || decide (b.start ≤ lt))) = true := hsel
        simp only [this, if_true]
        exact (unionKeys_mem _ _ _).2 (Or.inl hk)
      · right; exact ⟨b, hb, hsel, hk⟩

theorem flowSet_mem (r : Ring) (gte lt : Int) (i k : Nat) (hi : i < r.n)
    (hsel : bucketSel gte lt (r.bucket i) = true) (hk : k ∈ (r.bucket i).keys) : k ∈ r.flowSet gte lt := by
  unfold Ring.flowSet
  apply flowSet_fold_mem
  right
  have hl : i < r.buckets.length := hi
  refine ⟨r.buckets[i], List.getElem_mem hl, ?_, ?_⟩
  · have : r.bucket i = r.buckets[i] := by simp [Ring.bucket, List.getD_eq_getElem?_getD, List.getElem?_eq_getElem hl]
    rw [← this]; exact hsel
  · have : r.bucket i = r.buckets[i] := by simp [Ring.bucket, List.getD_eq_getElem?_getD, List.getElem?_eq_getElem hl]
    rw [← this]; exact hk

theorem list_has_row (r : Ring) (gte lt : Int) (k : Nat) (hf : k ∈ r.flowSet gte lt) (hw : within (r.wins k) gte lt = true) :
    ∃ x ∈ r.list gte lt, x.1 = k := by
  unfold Ring.list
  refine ⟨(k, aggregate (r.wins k) gte lt), ?_, rfl⟩
  rw [List.mem_filterMap]
  refine ⟨k, hf, ?_⟩
  have : within ((lookupDia r.dia k).getD []) gte lt = true := hw
  simp [this, Ring.wins, winsOf]

theorem addWin_keeps (st sp c : Int) (ws : List Win) (w : Win) (h : w ∈ ws) : ∃ w' ∈ addWin st sp c ws, w'.start = w.start := by
  induction ws with
  | nil => cases h
  | cons x xs ih =>
    simp only [addWin]
    simp only [List.mem_cons] at h
    split
    · split
      · rcases h with rfl | h
        · exact ⟨{ w with cnt := w.cnt + c }, List.mem_cons_self .., rfl⟩
        · exact ⟨w, List.mem_cons_of_mem _ h, rfl⟩
      · rcases h with rfl | h
        · exact ⟨w, List.mem_cons_of_mem _ (List.mem_cons_self ..), rfl⟩
        · exact ⟨w, List.mem_cons_of_mem _ (List.mem_cons_of_mem _ h), rfl⟩
    · rcases h with rfl | h
      · exact ⟨w, List.mem_cons_self .., rfl⟩
      · obtain ⟨w', h1, h2⟩ := ih h
        exact ⟨w', List.mem_cons_of_mem _ h1, h2⟩

theorem addWin_new (st sp c : Int) (ws : List Win) : ∃ w' ∈ addWin st sp c ws, w'.start = st := by
  induction ws with
  | nil => exact ⟨_, List.mem_singleton.2 rfl, rfl⟩
  | cons x xs ih =>
    simp only [addWin]
    split
    · split
      · rename_i hx; exact ⟨_, List.mem_cons_self .., hx⟩
      · exact ⟨_, List.mem_cons_self .., rfl⟩
    · obtain ⟨w', h1, h2⟩ := ih
      exact ⟨w', List.mem_cons_of_mem _ h1, h2⟩

theorem dropExpired_keeps (lim : Int) (ws : List Win) (w : Win) (h : w ∈ ws) (hs : w.stop > lim) : w ∈ dropExpired lim ws := by
  induction ws with
  | nil => cases h
  | cons x xs ih =>
    simp only [dropExpired]
    split
    · exact h
    · rename_i hx
      simp only [List.mem_cons] at h
      rcases h with rfl | h
      · exact absurd hs hx
      · exact ih h

/-- every logged (accepted) flow whose bucket is still in the ring is listed in that bucket's key set and has
a window for that bucket -/
def LogHome (r : Ring) (log : Log) : Prop :=
  ∀ e ∈ log, ∀ i, i < r.n → (r.bucket i).contains e.2.1 = true →
    e.1 ∈ (r.bucket i).keys ∧ ∃ w ∈ r.wins e.1, w.start = (r.bucket i).start

structure CInv (r : Ring) (log : Log) : Prop where
  q : QInv r log
  lh : LogHome r log


theorem addFlow_cinv {r : Ring} {log : Log} (hc : CInv r log) (key : Nat) (t cnt : Int) :
    CInv (r.addFlow key t cnt).1 (if (r.addFlow key t cnt).2 then (key, t, cnt) :: log else log) := by
  have hq := addFlow_qinv hc.q key t cnt
  refine ⟨hq, ?_⟩
  cases hf : r.findBucket t with
  | none =>
    have : r.addFlow key t cnt = (r, false) := by simp [Ring.addFlow, hf]
    rw [this]; exact hc.lh
  | some i0 =>
    obtain ⟨hacc, hdia, hlay⟩ := addFlow_accept r key t cnt i0 hf
    obtain ⟨ht1, ht2⟩ := findBucket_sound' r t i0 hf
    obtain ⟨i', hi', hf', hcn⟩ := contig_findBucket hc.q.g.contig t ht2 ht1
    have hii : i0 = i' := by rw [hf] at hf'; exact Option.some.inj hf'
    subst hii
    have hwk : (r.addFlow key t cnt).1.wins key = addWin (r.bucket i0).start (r.bucket i0).stop cnt (r.wins key) := by
      unfold Ring.wins; rw [hdia]; exact setDia_self _ _ _ hc.q.g.ks
    have hwo : ∀ k, k ≠ key → (r.addFlow key t cnt).1.wins k = r.wins k := by
      intro k hk; unfold Ring.wins; rw [hdia]; exact setDia_ne _ _ _ _ hk
    have hcont : ∀ i, ((r.addFlow key t cnt).1.bucket i).contains = (r.bucket i).contains := by
      intro i; funext x; simp only [Bucket.contains, (hlay.bk i).1, (hlay.bk i).2]
    rw [hacc]; simp only [if_true]
    intro e he i hi hce
    rw [hlay.len] at hi
    rw [hcont] at hce
    rw [(hlay.bk i).1]
    simp only [List.mem_cons] at he
    rcases he with rfl | he
    · -- the new flow: its bucket is i0
      have : i = i0 := contig_unique hc.q.g.contig t i i0 hi hi' hce hcn
      subst this
      refine ⟨addFlow_key_self r key t cnt i hf hi, ?_⟩
      show ∃ w ∈ (r.addFlow key t cnt).1.wins key, _
      rw [hwk]; exact addWin_new _ _ _ _
    · obtain ⟨h1, w, hw, hs⟩ := hc.lh e he i hi hce
      refine ⟨addFlow_keys r key t cnt i e.1 h1, ?_⟩
      by_cases hk : e.1 = key
      · rw [hk, hwk]; rw [hk] at hw
        obtain ⟨w', h2, h3⟩ := addWin_keeps (r.bucket i0).start (r.bucket i0).stop cnt _ w hw
        exact ⟨w', h2, h3.trans hs⟩
      · rw [hwo _ hk]; exact ⟨w, hw, hs⟩

theorem rollover_cinv {r : Ring} {log : Log} (hc : CInv r log) (sink : Bool) : CInv (r.rollover sink).1 log := by
  have hq := rollover_qinv hc.q sink
  refine ⟨hq, ?_⟩
  have hg := hc.q.g
  have hspec := expireFold_spec r.advance.boh (r.bucket (r.idxAdd r.head 1)).keys r.dia hg.ks
  have hw' : ∀ k, (r.rollover sink).1.wins k =
      if k ∈ (r.bucket (r.idxAdd r.head 1)).keys then dropExpired r.advance.boh (r.wins k) else r.wins k := by
    intro k; unfold Ring.wins; rw [rollover_dia]; exact hspec.2 k
  have hsame := rollover_same r sink
  have hca := advance_contig hg.contig
  intro e he i hi hce
  rw [rollover_n] at hi
  have hb : (r.rollover sink).1.bucket i = (r.rollover sink).1.bucket i := rfl
  simp only [Bucket.contains, (hsame.bk i).1, (hsame.bk i).2.1] at hce
  rw [(hsame.bk i).1, (hsame.bk i).2.2]
  by_cases hih : r.idxAdd r.head 1 = i
  · exfalso
    subst hih
    rw [advance_new hg.contig] at hce
    simp only [Bool.and_eq_true, decide_eq_true_eq] at hce
    have := hg.llt e he
    omega
  · rw [advance_old r i hih] at hce ⊢
    have hce' : (r.bucket i).contains e.2.1 = true := by simpa [Bucket.contains] using hce
    obtain ⟨h1, w, hw, hs⟩ := hc.lh e he i hi hce'
    refine ⟨h1, w, ?_, hs⟩
    rw [hw']
    split
    · apply dropExpired_keeps _ _ _ hw
      have h2 := hg.wI e.1 w hw
      have h3 := (contig_stop_le hca i (by rw [advance_n]; exact hi)).2.2
      rw [advance_old r i hih] at h3
      have hI := hg.contig.ipos
      omega
    · exact hw

theorem emit_cinv {r : Ring} {log : Log} (hc : CInv r log) : CInv r.emit.1 log := by
  refine ⟨emit_qinv hc.q, ?_⟩
  have hs := (emit_same r).1
  have hd := (emit_same r).2
  intro e he i hi hce
  rw [show r.emit.1.n = r.n from hs.len] at hi
  simp only [Bucket.contains, (hs.bk i).1, (hs.bk i).2.1] at hce
  have hce' : (r.bucket i).contains e.2.1 = true := by simpa [Bucket.contains] using hce
  obtain ⟨h1, w, hw, hs'⟩ := hc.lh e he i hi hce'
  rw [(hs.bk i).1, (hs.bk i).2.2]
  refine ⟨h1, w, ?_, hs'⟩
  unfold Ring.wins; rw [hd]; exact hw

theorem gstep_cinv {s : Ring × Log} (h : CInv s.1 s.2) (op : Op) : CInv (gstep s op).1 (gstep s op).2 := by
  cases op with
  | add k t c => exact addFlow_cinv h k t c
  | roll sink => exact rollover_cinv h sink
  | emit => exact emit_cinv h

theorem grun_cinv {s : Ring × Log} (h : CInv s.1 s.2) (ops : List Op) : CInv (grun s ops).1 (grun s ops).2 := by
  induction ops generalizing s with
  | nil => exact h
  | cons op ops ih => exact ih (gstep_cinv h op)

theorem newRing_cinv (n : Nat) (interval now : Int) (pushAfter agg : Nat) (hn : 0 < n) (hi : 0 < interval) :
    CInv (newRing n interval now pushAfter agg) [] :=
  ⟨newRing_qinv n interval now pushAfter agg hn hi, fun e he => by cases he⟩

/-- `list_complete`: a logged flow whose bucket is in the ring and wholly inside the range gives a row for its key -/
theorem list_complete_of_cinv {r : Ring} {log : Log} (hc : CInv r log) (gte lt : Int) (e : Nat × Int × Int) (he : e ∈ log)
    (i : Nat) (hi : i < r.n) (hce : (r.bucket i).contains e.2.1 = true) (hin : bucketIn gte lt (r.bucket i) = true) :
    ∃ x ∈ r.list gte lt, x.1 = e.1 := by
  obtain ⟨hk, w, hw, hs⟩ := hc.lh e he i hi hce
  have hb := contig_stop_le hc.q.g.contig i hi
  have hI := hc.q.g.contig.ipos
  simp only [bucketIn, Bool.and_eq_true, Bool.or_eq_true, beq_iff_eq, decide_eq_true_eq] at hin
  apply list_has_row r gte lt e.1
  · apply flowSet_mem r gte lt i e.1 hi _ hk
    simp only [bucketSel, Bool.and_eq_true, Bool.or_eq_true, beq_iff_eq, decide_eq_true_eq]
    refine ⟨hin.1, ?_⟩
    rcases hin.2 with h | h
    · exact Or.inl h
    · right; omega
  · unfold within
    rw [List.any_eq_true]
    refine ⟨w, hw, ?_⟩
    simp only [Bool.and_eq_true, Bool.or_eq_true, beq_iff_eq, decide_eq_true_eq]
    rw [hs]
    refine ⟨hin.1, ?_⟩
    rcases hin.2 with h | h
    · exact Or.inl h
    · right; omega


/-! ### history level: no bucket is handed to the sink twice (ghost list of emitted bucket start times) -/

/-- start times of the buckets covered by the collections `cs`, read in ring `r` -/
def sentStarts (r : Ring) (cs : List Coll) : List Int := cs.flatMap (fun c => c.idxs.map (fun i => (r.bucket i).start))

/-- one step of the aggregator together with the ghost list of the start times of all buckets handed to the sink so far -/
def estep (s : Ring × List Int) : Op → Ring × List Int
  | .add k t c => ((s.1.addFlow k t c).1, s.2)
  | .roll false => (s.1.rolled, s.2)
  | .roll true => (s.1.rolled.emit.1, s.2 ++ sentStarts s.1.rolled s.1.rolled.emit.2)
  | .emit => (s.1.emit.1, s.2 ++ sentStarts s.1 s.1.emit.2)

def erun (s : Ring × List Int) (ops : List Op) : Ring × List Int := ops.foldl estep s

theorem estep_ring (s : Ring × List Int) (l : Log) (op : Op) : (estep s op).1 = (gstep (s.1, l) op).1 := by
  cases op with
  | add k t c => rfl
  | roll sink => cases sink with
    | false => rfl
    | true => exact (rollover_true_eq s.1).1.symm
  | emit => rfl

/-- every emitted start time lies before the end of history, and a ring bucket with an emitted start time is pushed -/
structure EInv (r : Ring) (em : List Int) : Prop where
  nodup : em.Nodup
  lt : ∀ s ∈ em, s < r.eoh
  pushed : ∀ s ∈ em, ∀ i, i < r.n → (r.bucket i).start = s → (r.bucket i).pushed = true

theorem contig_start_inj {r : Ring} (hc : Contig r) (i j : Nat) (hi : i < r.n) (hj : j < r.n)
    (h : (r.bucket i).start = (r.bucket j).start) : i = j := by
  have hbi := contig_stop_le hc i hi
  have hbj := contig_stop_le hc j hj
  have hI := hc.ipos
  apply contig_unique hc (r.bucket i).start i j hi hj
  · simp only [Bucket.contains, Bool.and_eq_true, decide_eq_true_eq]; omega
  · simp only [Bucket.contains, Bool.and_eq_true, decide_eq_true_eq]; omega

theorem nodup_map_inj_on {α β : Type} (f : α → β) (l : List α) (hn : l.Nodup)
    (hinj : ∀ a ∈ l, ∀ b ∈ l, f a = f b → a = b) : (l.map f).Nodup := by
  induction l with
  | nil => simp
  | cons x xs ih =>
    rw [List.nodup_cons] at hn
    rw [List.map_cons, List.nodup_cons]
    refine ⟨?_, ih hn.2 (fun a ha b hb => hinj a (List.mem_cons_of_mem _ ha) b (List.mem_cons_of_mem _ hb))⟩
    intro hm
    rw [List.mem_map] at hm
    obtain ⟨y, hy, he⟩ := hm
    have := hinj y (List.mem_cons_of_mem _ hy) x (List.mem_cons_self ..) he
    subst this; exact hn.1 hy

theorem winIdx_nodup (r : Ring) (hh : r.head < r.n) (D m : Nat) (hm : m ≤ D + 1) (hD : D < r.n) : (winIdx r D m).Nodup := by
  unfold winIdx
  apply nodup_map_inj_on _ _ List.nodup_range
  intro a ha b hb he
  rw [List.mem_range] at ha hb
  have := idxSub_inj r r.head (D - a) (D - b) hh (by omega) (by omega) he
  omega

/-- the emission from a ring satisfying the invariants: the indexes of all sent buckets are distinct -/
theorem sent_idxs_nodup (r : Ring) (hh : r.head < r.n) : (r.emit.2.flatMap (·.idxs)).Nodup := by
  have hd := built_disjoint r hh
  have hsub : r.emit.2.Sublist r.built.reverse := by
    unfold Ring.emit; simp only []; exact List.filter_sublist
  have hpw : r.built.reverse.Pairwise (fun a b => ∀ i, i ∈ a.idxs → i ∉ b.idxs) := by
    rw [List.pairwise_reverse]
    have := hd.1
    rw [List.pairwise_map] at this
    exact this.imp (fun h i hb ha => h i ha hb)
  have hnd : ∀ c ∈ r.built.reverse, c.idxs.Nodup := by
    intro c hc
    obtain ⟨D', _, h2, hagg, h3, _, _⟩ := built_unpushed r hh c (List.mem_reverse.1 hc)
    rw [h3]; exact winIdx_nodup r hh D' r.agg (by omega) h2
  have key : ∀ l : List Coll, l.Pairwise (fun a b => ∀ i, i ∈ a.idxs → i ∉ b.idxs) → (∀ c ∈ l, c.idxs.Nodup) →
      (l.flatMap (·.idxs)).Nodup := by
    intro l
    induction l with
    | nil => intro _ _; simp
    | cons c cs ih =>
      intro hp hn
      rw [List.pairwise_cons] at hp
      rw [List.flatMap_cons, List.nodup_append]
      refine ⟨hn c (List.mem_cons_self ..), ih hp.2 (fun c' hc' => hn c' (List.mem_cons_of_mem _ hc')), ?_⟩
      intro a ha b hb hab
      subst hab
      rw [List.mem_flatMap] at hb
      obtain ⟨c', hc', hb'⟩ := hb
      exact hp.1 c' hc' a ha hb'
  exact key _ (hpw.sublist hsub) (fun c hc => hnd c (hsub.subset hc))


theorem sentStarts_eq (r : Ring) (cs : List Coll) :
    sentStarts r cs = (cs.flatMap (·.idxs)).map (fun i => (r.bucket i).start) := by
  unfold sentStarts; rw [List.map_flatMap]

theorem emit_einv {r : Ring} {em : List Int} (hc : Contig r) (hh : HInv r) (he : EInv r em) :
    EInv r.emit.1 (em ++ sentStarts r r.emit.2) := by
  have hs := (emit_same r).1
  have hlen : r.emit.1.n = r.n := hs.len
  have heoh : r.emit.1.eoh = r.eoh := hs.layout.eoh
  -- facts about every sent index
  have hidx : ∀ i ∈ r.emit.2.flatMap (·.idxs), i < r.n ∧ (r.bucket i).pushed = false ∧ (r.emit.1.bucket i).pushed = true := by
    intro i hi
    rw [List.mem_flatMap] at hi
    obtain ⟨c, hcm, hic⟩ := hi
    have hb := emit_sent_built r c hcm
    have h1 := (built_disjoint r hh.hlt).2 c hb i hic
    exact ⟨h1.2, built_all_unpushed r hh.hlt hh.pinv c hb i hic, emit_sent_marked r c hcm i hic h1.2⟩
  rw [sentStarts_eq]
  refine ⟨?_, ?_, ?_⟩
  · rw [List.nodup_append]
    refine ⟨he.nodup, ?_, ?_⟩
    · apply nodup_map_inj_on _ _ (sent_idxs_nodup r hh.hlt)
      intro a ha b hb hab
      exact contig_start_inj hc a b (hidx a ha).1 (hidx b hb).1 hab
    · intro s hs' t ht hst
      subst hst
      rw [List.mem_map] at ht
      obtain ⟨i, hi, rfl⟩ := ht
      have := he.pushed _ hs' i (hidx i hi).1 rfl
      rw [(hidx i hi).2.1] at this; cases this
  · intro s hs'
    rw [heoh]
    rw [List.mem_append] at hs'
    rcases hs' with h | h
    · exact he.lt s h
    · rw [List.mem_map] at h
      obtain ⟨i, hi, rfl⟩ := h
      have hb := contig_stop_le hc i (hidx i hi).1
      have := hc.ipos
      omega
  · intro s hs' j hj hst
    rw [hlen] at hj
    rw [(hs.bk j).1] at hst
    rw [List.mem_append] at hs'
    rcases hs' with h | h
    · have := he.pushed s h j hj hst
      rw [emit_pushed, this]; rfl
    · rw [List.mem_map] at h
      obtain ⟨i, hi, rfl⟩ := h
      have : j = i := contig_start_inj hc j i hj (hidx i hi).1 hst
      subst this
      exact (hidx j hi).2.2

theorem rolled_einv {r : Ring} {em : List Int} (hc : Contig r) (he : EInv r em) : EInv r.rolled em := by
  have hsame : SameTimes r.rolled r.advance := rollover_same r false
  have hfl := rolled_flags r
  have heoh : r.rolled.eoh = r.eoh + r.interval := by rw [hsame.layout.eoh]; exact advance_eoh hc
  have hI := hc.ipos
  refine ⟨he.nodup, ?_, ?_⟩
  · intro s hs; rw [heoh]; have := he.lt s hs; omega
  · intro s hs j hj hst
    rw [show r.rolled.n = r.n from (by rw [hfl.len, advance_n])] at hj
    rw [(hsame.bk j).1] at hst
    rw [hfl.pushed j]
    by_cases hjh : r.idxAdd r.head 1 = j
    · exfalso
      subst hjh
      rw [advance_new hc] at hst
      have := he.lt s hs
      simp only [] at hst
      omega
    · rw [advance_old r j hjh] at hst ⊢
      exact he.pushed s hs j hj hst

theorem addFlow_einv {r : Ring} {em : List Int} (he : EInv r em) (key : Nat) (t cnt : Int) :
    EInv (r.addFlow key t cnt).1 em := by
  have hf := addFlow_flags r key t cnt
  cases hfb : r.findBucket t with
  | none =>
    have : r.addFlow key t cnt = (r, false) := by simp [Ring.addFlow, hfb]
    rw [this]; exact he
  | some i0 =>
    obtain ⟨_, _, hlay⟩ := addFlow_accept r key t cnt i0 hfb
    refine ⟨he.nodup, fun s hs => by rw [hlay.eoh]; exact he.lt s hs, ?_⟩
    intro s hs j hj hst
    rw [hlay.len] at hj
    rw [(hlay.bk j).1] at hst
    rw [hf.pushed j]
    exact he.pushed s hs j hj hst

/-- the invariants carried along a history (with some ghost log of accepted flows) -/
def EState (r : Ring) (em : List Int) : Prop := (∃ log, GInv r log) ∧ HInv r ∧ EInv r em

theorem estep_estate {s : Ring × List Int} (h : EState s.1 s.2) (op : Op) : EState (estep s op).1 (estep s op).2 := by
  obtain ⟨⟨log, hg⟩, hh, he⟩ := h
  have hg' : GInv (gstep (s.1, log) op).1 (gstep (s.1, log) op).2 := gstep_ginv (s := (s.1, log)) hg op
  have hh' : HInv (gstep (s.1, log) op).1 := gstep_hinv (s := (s.1, log)) hh op
  refine ⟨⟨_, by rw [estep_ring s log op]; exact hg'⟩, by rw [estep_ring s log op]; exact hh', ?_⟩
  cases op with
  | add k t c => exact addFlow_einv he k t c
  | roll sink =>
    cases sink with
    | false => exact rolled_einv hg.contig he
    | true =>
      have hgr : GInv s.1.rolled log := rollover_ginv hg false
      exact emit_einv hgr.contig (rolled_hinv hh) (rolled_einv hg.contig he)
  | emit => exact emit_einv hg.contig hh he

theorem erun_estate {s : Ring × List Int} (h : EState s.1 s.2) (ops : List Op) : EState (erun s ops).1 (erun s ops).2 := by
  induction ops generalizing s with
  | nil => exact h
  | cons op ops ih => exact ih (estep_estate h op)

theorem newRing_estate (n : Nat) (interval now : Int) (pushAfter agg : Nat) (hn : 0 < n) (hi : 0 < interval) :
    EState (newRing n interval now pushAfter agg) [] :=
  ⟨⟨[], newRing_ginv n interval now pushAfter agg hn hi⟩, newRing_hinv n interval now pushAfter agg hn hi,
   { nodup := List.nodup_nil, lt := fun s hs => (by cases hs), pushed := fun s hs => (by cases hs) }⟩

/-! ### Statistics: the per-bucket flow lists are the log of accepted flows, bucket by bucket -/

def logOf (log : Log) (b : Bucket) : List (Nat × Int) :=
  (log.filter (fun e => b.contains e.2.1)).map (fun e => (e.1, e.2.2))

/-- every ring slot's flow list is exactly the accepted flows whose start time lies in that bucket (newest first) -/
def FInv (r : Ring) (log : Log) : Prop := ∀ i, i < r.n → r.bflows.getD i [] = logOf log (r.bucket i)

theorem markPushed_bflows (r : Ring) (idxs : List Nat) : (r.markPushed idxs).bflows = r.bflows := rfl

theorem emit_bflows (r : Ring) : r.emit.1.bflows = r.bflows := by
  unfold Ring.emit; simp only []
  generalize (r.built.reverse).filter (fun c => !c.flows.isEmpty) = cs
  induction cs generalizing r with
  | nil => rfl
  | cons c cs ih => simp only [List.foldl_cons]; rw [ih]; rfl

theorem rollover_bflows (r : Ring) (sink : Bool) : (r.rollover sink).1.bflows = r.bflows.set (r.idxAdd r.head 1) [] := by
  unfold Ring.rollover
  simp only []
  split
  · rw [emit_bflows]
  · rfl

theorem getD_set_self {α : Type} (l : List α) (i : Nat) (v d : α) (h : i < l.length) : (l.set i v).getD i d = v := by
  simp [List.getD_eq_getElem?_getD, List.getElem?_set_self h]

theorem getD_set_ne {α : Type} (l : List α) (i j : Nat) (v d : α) (h : i ≠ j) : (l.set i v).getD j d = l.getD j d := by
  simp [List.getD_eq_getElem?_getD, List.getElem?_set_ne h]

structure SInv (r : Ring) (log : Log) : Prop where
  g : GInv r log
  len : r.bflows.length = r.n
  f : FInv r log

theorem addFlow_sinv {r : Ring} {log : Log} (hs : SInv r log) (key : Nat) (t cnt : Int) :
    SInv (r.addFlow key t cnt).1 (if (r.addFlow key t cnt).2 then (key, t, cnt) :: log else log) := by
  have hg := addFlow_ginv hs.g key t cnt
  cases hf : r.findBucket t with
  | none =>
    have : r.addFlow key t cnt = (r, false) := by simp [Ring.addFlow, hf]
    rw [this]; exact hs
  | some i0 =>
    obtain ⟨hacc, _, hlay⟩ := addFlow_accept r key t cnt i0 hf
    obtain ⟨ht1, ht2⟩ := findBucket_sound' r t i0 hf
    obtain ⟨i', hi', hf', hcn⟩ := contig_findBucket hs.g.contig t ht2 ht1
    have hii : i0 = i' := by rw [hf] at hf'; exact Option.some.inj hf'
    subst hii
    have hbf : (r.addFlow key t cnt).1.bflows = r.bflows.set i0 ((key, cnt) :: r.bflows.getD i0 []) := by
      simp only [Ring.addFlow, hf, Ring.setBucket]
    have hcont : ∀ i, ((r.addFlow key t cnt).1.bucket i).contains = (r.bucket i).contains := by
      intro i; funext x; simp only [Bucket.contains, (hlay.bk i).1, (hlay.bk i).2]
    refine ⟨hg, by rw [hbf, List.length_set, hlay.len]; exact hs.len, ?_⟩
    rw [hacc]; simp only [if_true]
    intro i hi
    rw [hlay.len] at hi
    rw [hbf]
    unfold logOf
    rw [hcont]
    by_cases hii : i0 = i
    · subst hii
      rw [getD_set_self _ _ _ _ (by rw [hs.len]; exact hi)]
      rw [List.filter_cons_of_pos (by simpa using hcn)]
      simp only [List.map_cons]
      rw [hs.f i0 hi]; rfl
    · rw [getD_set_ne _ _ _ _ _ hii]
      have hnot : (r.bucket i).contains t = false := by
        cases hc : (r.bucket i).contains t with
        | false => rfl
        | true => exact absurd (contig_unique hs.g.contig t i i0 hi hi' hc hcn).symm hii
      rw [List.filter_cons_of_neg (by simp [hnot])]
      exact hs.f i hi

theorem rollover_sinv {r : Ring} {log : Log} (hs : SInv r log) (sink : Bool) : SInv (r.rollover sink).1 log := by
  have hg := rollover_ginv hs.g sink
  have hsame := rollover_same r sink
  have hc := hs.g.contig
  refine ⟨hg, by rw [rollover_bflows, List.length_set, rollover_n]; exact hs.len, ?_⟩
  intro i hi
  rw [rollover_n] at hi
  rw [rollover_bflows]
  have hcont : ((r.rollover sink).1.bucket i).contains = (r.advance.bucket i).contains := by
    funext x; simp only [Bucket.contains, (hsame.bk i).1, (hsame.bk i).2.1]
  unfold logOf; rw [hcont]
  by_cases hih : r.idxAdd r.head 1 = i
  · subst hih
    rw [getD_set_self _ _ _ _ (by rw [hs.len]; exact hi), advance_new hc]
    symm
    have : log.filter (fun e => ({ start := r.eoh, stop := r.eoh + r.interval, pushed := false, keys := [] } : Bucket).contains e.2.1) = [] := by
      apply List.filter_eq_nil_iff.2
      intro e he
      have := hs.g.llt e he
      simp [Bucket.contains]; intro h1; omega
    rw [this]; rfl
  · rw [getD_set_ne _ _ _ _ _ hih, advance_old r i hih]
    exact hs.f i hi

theorem emit_sinv {r : Ring} {log : Log} (hs : SInv r log) : SInv r.emit.1 log := by
  have hsm := (emit_same r).1
  refine ⟨emit_ginv hs.g, by rw [emit_bflows, show r.emit.1.n = r.n from hsm.len]; exact hs.len, ?_⟩
  intro i hi
  rw [show r.emit.1.n = r.n from hsm.len] at hi
  rw [emit_bflows]
  have hcont : (r.emit.1.bucket i).contains = (r.bucket i).contains := by
    funext x; simp only [Bucket.contains, (hsm.bk i).1, (hsm.bk i).2.1]
  unfold logOf; rw [hcont]; exact hs.f i hi

theorem gstep_sinv {s : Ring × Log} (h : SInv s.1 s.2) (op : Op) : SInv (gstep s op).1 (gstep s op).2 := by
  cases op with
  | add k t c => exact addFlow_sinv h k t c
  | roll sink => exact rollover_sinv h sink
  | emit => exact emit_sinv h

theorem grun_sinv {s : Ring × Log} (h : SInv s.1 s.2) (ops : List Op) : SInv (grun s ops).1 (grun s ops).2 := by
  induction ops generalizing s with
  | nil => exact h
  | cons op ops ih => exact ih (gstep_sinv h op)


theorem rollN_bflows (r : Ring) (m : Nat) (hl : r.bflows.length = r.n) (h : ∀ i, r.bflows.getD i [] = []) :
    (rollN r m).bflows.length = (rollN r m).n ∧ ∀ i, (rollN r m).bflows.getD i [] = [] := by
  induction m generalizing r with
  | zero => exact ⟨hl, h⟩
  | succ m ih =>
    apply ih
    · rw [rollover_bflows, List.length_set, rollover_n]; exact hl
    · intro i
      rw [rollover_bflows]
      by_cases hi : r.idxAdd r.head 1 = i
      · subst hi
        by_cases hlt : r.idxAdd r.head 1 < r.bflows.length
        · exact getD_set_self _ _ _ _ hlt
        · rw [List.set_eq_of_length_le (Nat.le_of_not_lt hlt)]; exact h _
      · rw [getD_set_ne _ _ _ _ _ hi]; exact h i

theorem newRing_sinv (n : Nat) (interval now : Int) (pushAfter agg : Nat) (hn : 0 < n) (hi : 0 < interval) :
    SInv (newRing n interval now pushAfter agg) [] := by
  have hg := newRing_ginv n interval now pushAfter agg hn hi
  have hb : (newRing n interval now pushAfter agg).bflows.length = (newRing n interval now pushAfter agg).n ∧
      ∀ i, (newRing n interval now pushAfter agg).bflows.getD i [] = [] := by
    rw [newRing_eq]
    apply rollN_bflows
    · simp [initRing, Ring.n]
    · intro i
      simp only [initRing, List.getD_eq_getElem?_getD]
      cases hh : (List.replicate n ([] : List (Nat × Int)))[i]? with
      | none => rfl
      | some b => have := List.mem_of_getElem? hh; rw [List.mem_replicate] at this; simp [this.2]
  exact ⟨hg, hb.1, fun i _ => by rw [hb.2 i]; rfl⟩

/-- `statistics_eq_sum_retained`: on a ring satisfying the invariant, `Statistics` over a range is the per-key
sum (`statsOfFlows`) over the LOG of accepted flows, restricted bucket by bucket to the buckets of the range -/
theorem stats_eq_log {r : Ring} {log : Log} (hs : SInv r log) (typ : Nat) (gb : Bool) (gte lt : Int)
    (hidx : ∀ idxs, r.statRange gte lt = some idxs → ∀ i ∈ idxs, i < r.n) :
    r.stats typ gb gte lt =
      (r.statRange gte lt).map (fun idxs => statsOfFlows typ gb (idxs.map (fun i => logOf log (r.bucket i)))) := by
  unfold Ring.stats
  cases hr : r.statRange gte lt with
  | none => rfl
  | some idxs =>
    simp only [Option.map_some]
    congr 2
    apply List.map_congr_left
    intro i hi
    exact hs.f i (hidx idxs hr i hi)

theorem iterIdx_lt (r : Ring) (hn : 0 < r.n) (fuel s e : Nat) (hs : s < r.n) : ∀ i ∈ r.iterIdx fuel s e, i < r.n := by
  induction fuel generalizing s with
  | zero => simp [Ring.iterIdx]
  | succ f ih =>
    rw [Ring.iterIdx]
    split
    · simp
    · intro i hi
      simp only [List.mem_cons] at hi
      rcases hi with rfl | hi
      · exact hs
      · exact ih (r.idxAdd s 1) (idxAdd_lt r _ _ hn) i hi

theorem findBucket_lt {r : Ring} (hc : Contig r) (t : Int) (i : Nat) (h : r.findBucket t = some i) : i < r.n := by
  obtain ⟨ht1, ht2⟩ := findBucket_sound' r t i h
  obtain ⟨i', hi', hf', _⟩ := contig_findBucket hc t ht2 ht1
  rw [h] at hf'; cases hf'; exact hi'

theorem statRange_lt {r : Ring} (hc : Contig r) (gte lt : Int) (idxs : List Nat) (h : r.statRange gte lt = some idxs) :
    ∀ i ∈ idxs, i < r.n := by
  unfold Ring.statRange at h
  simp only [] at h
  split at h
  · rename_i s e hs he
    cases h
    apply iterIdx_lt r hc.npos
    split at hs
    · cases hs; exact idxAdd_lt r _ _ hc.npos
    · exact findBucket_lt hc gte s hs
  · cases h

end CalicoVerif.C32
