import CalicoVerif.Proofs.C06Basic
/-! C06 helper lemmas: Go string order and `ConvertToStringSetInPlace`. -/
namespace CalicoVerif.C06

theorem strLt_irrefl : ∀ a : Str, strLt a a = false
  | [] => rfl
  | c :: cs => by simp [strLt, strLt_irrefl cs]

theorem strLt_asymm : ∀ {a b : Str}, strLt a b = true → strLt b a = false
  | [], [], h => by simp [strLt] at h
  | [], _ :: _, _ => rfl
  | _ :: _, [], h => by simp [strLt] at h
  | a :: as, b :: bs, h => by
    simp only [strLt] at h ⊢
    by_cases h1 : a.toNat < b.toNat
    · have : ¬ b.toNat < a.toNat := by omega
      simp [this, h1]
    · by_cases h2 : b.toNat < a.toNat
      · simp [h1, h2] at h
      · simp only [h1, h2, if_false] at h ⊢
        exact strLt_asymm h

theorem strLt_connected : ∀ {a b : Str}, strLt a b = false → strLt b a = false → a = b
  | [], [], _, _ => rfl
  | [], _ :: _, h, _ => by simp [strLt] at h
  | _ :: _, [], _, h => by simp [strLt] at h
  | a :: as, b :: bs, h1, h2 => by
    simp only [strLt] at h1 h2
    by_cases h3 : a.toNat < b.toNat
    · simp [h3] at h1
    · by_cases h4 : b.toNat < a.toNat
      · simp [h4] at h2
      · simp only [h3, h4, if_false] at h1 h2
        have hab : a = b := Char.toNat_inj.mp (by omega)
        rw [hab, strLt_connected h1 h2]

theorem strLt_trans : ∀ {a b c : Str}, strLt a b = true → strLt b c = true → strLt a c = true
  | [], [], _, h, _ => by simp [strLt] at h
  | [], _ :: _, [], _, h => by simp [strLt] at h
  | [], _ :: _, _ :: _, _, _ => rfl
  | _ :: _, [], _, h, _ => by simp [strLt] at h
  | _ :: _, _ :: _, [], _, h => by simp [strLt] at h
  | a :: as, b :: bs, c :: cs, h1, h2 => by
    simp only [strLt] at h1 h2 ⊢
    by_cases hab : a.toNat < b.toNat
    · by_cases hbc : b.toNat < c.toNat
      · have : a.toNat < c.toNat := by omega
        simp [this]
      · by_cases hcb : c.toNat < b.toNat
        · simp [hbc, hcb] at h2
        · have : a.toNat < c.toNat := by omega
          simp [this]
    · by_cases hba : b.toNat < a.toNat
      · simp [hab, hba] at h1
      · simp only [hab, hba, if_false] at h1
        by_cases hbc : b.toNat < c.toNat
        · have : a.toNat < c.toNat := by omega
          simp [this]
        · by_cases hcb : c.toNat < b.toNat
          · simp [hbc, hcb] at h2
          · simp only [hbc, hcb, if_false] at h2
            have h3 : ¬ a.toNat < c.toNat := by omega
            have h4 : ¬ c.toNat < a.toNat := by omega
            simp only [h3, h4, if_false]
            exact strLt_trans h1 h2

/-! ### sorted input is a fixed point -/

theorem strictSorted_tail {a : Str} {l : List Str} (h : StrictSorted (a :: l)) : StrictSorted l := by
  cases l with
  | nil => trivial
  | cons b rest => exact h.2

theorem insertSorted_of_strictSorted {x : Str} {l : List Str} (h : StrictSorted (x :: l)) :
    insertSorted x l = x :: l := by
  cases l with
  | nil => rfl
  | cons y ys => simp [insertSorted, strLt_asymm h.1]

theorem sortStrs_of_strictSorted : ∀ {l : List Str}, StrictSorted l → sortStrs l = l
  | [], _ => rfl
  | x :: xs, h => by
    rw [sortStrs, sortStrs_of_strictSorted (strictSorted_tail h), insertSorted_of_strictSorted h]

theorem dedupAdjacent_of_strictSorted : ∀ {l : List Str}, StrictSorted l → dedupAdjacent l = l
  | [], _ => rfl
  | [_], _ => rfl
  | x :: y :: rest, h => by
    have hne : x ≠ y := by
      intro e; have := h.1; rw [e, strLt_irrefl] at this; cases this
    rw [dedupAdjacent, if_neg hne, dedupAdjacent_of_strictSorted h.2]

/-- `ConvertToStringSetInPlace` leaves a strictly ascending slice unchanged. -/
theorem convertToStringSet_of_strictSorted {vs : List Str} (h : StrictSorted vs) :
    convertToStringSet vs = vs := by
  unfold convertToStringSet
  split
  · rfl
  · rw [sortStrs_of_strictSorted h, dedupAdjacent_of_strictSorted h]

/-! ### the output is strictly ascending -/

/-- ascending, duplicates allowed (adjacent elements). -/
def WeakSorted : List Str → Prop
  | [] => True
  | [_] => True
  | a :: b :: rest => strLt b a = false ∧ WeakSorted (b :: rest)

theorem weakSorted_tail {a : Str} {l : List Str} (h : WeakSorted (a :: l)) : WeakSorted l := by
  cases l with
  | nil => trivial
  | cons b rest => exact h.2

theorem weakSorted_insertSorted (x : Str) : ∀ {l : List Str}, WeakSorted l → WeakSorted (insertSorted x l)
  | [], _ => trivial
  | [y], _ => by
    simp only [insertSorted]
    by_cases h : strLt y x = true
    · simp only [h, if_true]; exact ⟨strLt_asymm h, trivial⟩
    · simp only [h]; exact ⟨by simpa using h, trivial⟩
  | y :: z :: rest, hl => by
    have ih := weakSorted_insertSorted x (weakSorted_tail hl)
    simp only [insertSorted] at ih ⊢
    by_cases h : strLt y x = true
    · simp only [h, if_true]
      by_cases h2 : strLt z x = true
      · simp only [h2, if_true] at ih ⊢; exact ⟨hl.1, ih⟩
      · simp only [h2] at ih ⊢; exact ⟨strLt_asymm h, ih⟩
    · simp only [h]; exact ⟨by simpa using h, hl⟩

theorem weakSorted_sortStrs : ∀ l : List Str, WeakSorted (sortStrs l)
  | [] => trivial
  | x :: xs => weakSorted_insertSorted x (weakSorted_sortStrs xs)

theorem dedupAdjacent_head (y : Str) : ∀ rest : List Str, ∃ t, dedupAdjacent (y :: rest) = y :: t
  | [] => ⟨[], rfl⟩
  | z :: rest => by
    by_cases h : y = z
    · obtain ⟨t, ht⟩ := dedupAdjacent_head z rest
      exact ⟨t, by rw [dedupAdjacent, if_pos h, ht, h]⟩
    · exact ⟨_, by rw [dedupAdjacent, if_neg h]⟩

theorem strictSorted_dedupAdjacent : ∀ {l : List Str}, WeakSorted l → StrictSorted (dedupAdjacent l)
  | [], _ => trivial
  | [_], _ => trivial
  | x :: y :: rest, h => by
    have ih := strictSorted_dedupAdjacent h.2
    rw [dedupAdjacent]
    by_cases e : x = y
    · rw [if_pos e]; exact ih
    · rw [if_neg e]
      obtain ⟨t, ht⟩ := dedupAdjacent_head y rest
      rw [ht] at ih ⊢
      refine ⟨?_, ih⟩
      cases hxy : strLt x y with
      | true => rfl
      | false => exact absurd (strLt_connected hxy h.1) e

/-- `ConvertToStringSetInPlace` returns a strictly ascending slice. -/
theorem strictSorted_convertToStringSet (vs : List Str) : StrictSorted (convertToStringSet vs) := by
  unfold convertToStringSet
  split
  · match vs with
    | [] => trivial
    | [_] => trivial
    | _ :: _ :: _ => rename_i h; simp at h
  · exact strictSorted_dedupAdjacent (weakSorted_sortStrs vs)

/-! ### it has the same elements -/

theorem mem_insertSorted {x y : Str} : ∀ {l : List Str}, y ∈ insertSorted x l ↔ y = x ∨ y ∈ l
  | [] => by simp [insertSorted]
  | z :: zs => by
    simp only [insertSorted]
    split
    · simp only [List.mem_cons, mem_insertSorted (l := zs)]
      constructor
      · rintro (h | h | h) <;> simp [h]
      · rintro (h | h | h) <;> simp [h]
    · simp

theorem mem_sortStrs {y : Str} : ∀ {l : List Str}, y ∈ sortStrs l ↔ y ∈ l
  | [] => by simp [sortStrs]
  | x :: xs => by simp [sortStrs, mem_insertSorted, mem_sortStrs (l := xs)]

theorem mem_dedupAdjacent {y : Str} : ∀ {l : List Str}, y ∈ dedupAdjacent l ↔ y ∈ l
  | [] => by simp [dedupAdjacent]
  | [_] => by simp [dedupAdjacent]
  | a :: b :: rest => by
    rw [dedupAdjacent]
    by_cases e : a = b
    · rw [if_pos e, mem_dedupAdjacent (l := b :: rest), e]; simp
    · rw [if_neg e, List.mem_cons, mem_dedupAdjacent (l := b :: rest)]; simp

theorem mem_convertToStringSet {x : Str} {vs : List Str} : x ∈ convertToStringSet vs ↔ x ∈ vs := by
  unfold convertToStringSet
  split
  · rfl
  · rw [mem_dedupAdjacent, mem_sortStrs]

/-! ### `StringSet.Contains` is membership on such a slice -/

theorem strictSorted_lt_of_mem {a : Str} : ∀ {l : List Str}, StrictSorted (a :: l) → ∀ x ∈ l, strLt a x = true
  | [], _, _, hx => by cases hx
  | b :: rest, h, x, hx => by
    rcases List.mem_cons.mp hx with rfl | hx
    · exact h.1
    · exact strLt_trans h.1 (strictSorted_lt_of_mem h.2 x hx)

theorem stringSetContains_iff_mem : ∀ {vs : List Str}, StrictSorted vs → ∀ x : Str,
    (stringSetContains vs x = true ↔ x ∈ vs)
  | [], _, x => by simp [stringSetContains]
  | v :: vs, h, x => by
    have ih := stringSetContains_iff_mem (strictSorted_tail h) x
    unfold stringSetContains at ih ⊢
    rw [List.find?_cons]
    cases hvx : strLt v x with
    | true =>
      simp only [Bool.not_true]
      rw [ih, List.mem_cons]
      constructor
      · exact Or.inr
      · rintro (rfl | hm)
        · rw [strLt_irrefl] at hvx; cases hvx
        · exact hm
    | false =>
      simp only [Bool.not_false, decide_eq_true_eq, List.mem_cons]
      constructor
      · intro e; exact Or.inl e.symm
      · rintro (rfl | hm)
        · rfl
        · have := strictSorted_lt_of_mem h x hm
          rw [this] at hvx; cases hvx

instance decStrictSorted : (vs : List Str) → Decidable (StrictSorted vs)
  | [] => isTrue trivial
  | [_] => isTrue trivial
  | a :: b :: rest =>
    match decStrictSorted (b :: rest) with
    | isTrue h => if h' : strLt a b = true then isTrue ⟨h', h⟩ else isFalse (fun hh => h' hh.1)
    | isFalse h => isFalse (fun hh => h hh.2)

example : StrictSorted [['a'], ['b']] := by decide
example : convertToStringSet [['b'], ['a'], ['b']] = [['a'], ['b']] := by decide

end CalicoVerif.C06
