import CalicoVerif.Proofs.C17d
set_option linter.unusedSimpArgs false
namespace CalicoVerif.C17

/-! ### Unique keys -/
theorem keys_filter_nodup {α : Type} (P : String × α → Bool) (m : Map α) (h : m.keys.Nodup) :
    (Map.keys (m.filter P)).Nodup := by
  unfold Map.keys at h ⊢
  exact List.Nodup.sublist (List.Sublist.map _ List.filter_sublist) h

theorem keys_erase_nodup {α : Type} (m : Map α) (k : String) (h : m.keys.Nodup) : (Map.keys (m.erase k)).Nodup :=
  keys_filter_nodup _ m h

theorem not_mem_keys_erase {α : Type} (m : Map α) (k : String) : k ∉ Map.keys (m.erase k) := by
  unfold Map.keys Map.erase
  intro h
  obtain ⟨p, hp, hk⟩ := List.mem_map.1 h
  have := (List.mem_filter.1 hp).2
  simp [hk] at this

theorem keys_set_nodup {α : Type} (m : Map α) (k : String) (v : α) (h : m.keys.Nodup) : (Map.keys (m.set k v)).Nodup := by
  have : Map.keys (m.set k v) = k :: Map.keys (m.erase k) := rfl
  rw [this, List.nodup_cons]
  exact ⟨not_mem_keys_erase m k, keys_erase_nodup m k h⟩

/-! ### What one step of either pass may do -/

/-- `b` results from `a` by one step of the delete or the update pass: the inputs of conflict resolution and
ownership, the kernel's interfaces and the resync flag are unchanged; the kernel and Felix's view are both
unchanged, or both lose the same key, or both get the same route for one key. -/
def Touch (a b : W) : Prop :=
  SameWants b.t a.t ∧ b.kif = a.kif ∧ b.t.fullResync = a.t.fullResync ∧
  ((b.K = a.K ∧ b.t.dp = a.t.dp) ∨ (∃ k, b.K = a.K.erase k ∧ b.t.dp = a.t.dp.erase k) ∨
   (∃ k r, a.t.desired k = some r ∧ b.K = a.K.set k r ∧ b.t.dp = a.t.dp.set k r))

theorem SameWants.rfl' (t : RT) : SameWants t t := ⟨rfl, rfl, rfl, rfl⟩
theorem SameWants.trans' {a b c : RT} (h1 : SameWants a b) (h2 : SameWants b c) : SameWants a c :=
  ⟨h1.1.trans h2.1, h1.2.1.trans h2.2.1, h1.2.2.1.trans h2.2.2.1, h1.2.2.2.trans h2.2.2.2⟩

/-- The part of `Touch` that composes. -/
def Pres (a b : W) : Prop :=
  SameWants b.t a.t ∧ b.kif = a.kif ∧ b.t.fullResync = a.t.fullResync ∧
  (a.K.keys.Nodup → b.K.keys.Nodup) ∧ (ViewExact a → ViewExact b) ∧
  (∀ c, a.t.desired c = none → a.t.dp.get c = none → b.t.dp.get c = none)

theorem Pres.refl (a : W) : Pres a a := ⟨SameWants.rfl' _, rfl, rfl, id, id, fun _ _ h => h⟩
theorem Pres.trans {a b c : W} (h1 : Pres a b) (h2 : Pres b c) : Pres a c :=
  ⟨h2.1.trans' h1.1, h2.2.1.trans h1.2.1, h2.2.2.1.trans h1.2.2.1, fun h => h2.2.2.2.1 (h1.2.2.2.1 h),
   fun h => h2.2.2.2.2.1 (h1.2.2.2.2.1 h),
   fun c hd hv => h2.2.2.2.2.2 c (by rw [desired_congr h1.1 c]; exact hd) (h1.2.2.2.2.2 c hd hv)⟩

theorem Touch.pres {a b : W} (h : Touch a b) : Pres a b := by
  obtain ⟨hs, hk, hf, hc⟩ := h
  refine ⟨hs, hk, hf, ?_, ?_, ?_⟩
  · intro hn
    rcases hc with ⟨e, _⟩ | ⟨k, e, _⟩ | ⟨k, r, _, e, _⟩
    · rw [e]; exact hn
    · rw [e]; exact keys_erase_nodup _ _ hn
    · rw [e]; exact keys_set_nodup _ _ _ hn
  · intro hv
    have ho : ∀ r, b.t.owns r = a.t.owns r := fun r => owns_congr hs r
    rcases hc with ⟨e1, e2⟩ | ⟨k, e1, e2⟩ | ⟨k, r0, _, e1, e2⟩
    · refine ⟨?_, ?_⟩
      · intro c r h; rw [e2] at h; rw [e1]; exact hv.1 c r h
      · intro c r h h'; rw [e1] at h; rw [ho] at h'; rw [e2]; exact hv.2 c r h h'
    · refine ⟨?_, ?_⟩
      · intro c r h
        rw [e2, Map.get_erase] at h
        rw [e1, Map.get_erase]
        by_cases hck : c = k
        · simp [hck] at h
        · simp only [hck, if_false] at h ⊢; exact hv.1 c r h
      · intro c r h h'
        rw [e1, Map.get_erase] at h
        rw [ho] at h'
        rw [e2, Map.get_erase]
        by_cases hck : c = k
        · simp [hck] at h
        · simp only [hck, if_false] at h ⊢; exact hv.2 c r h h'
    · refine ⟨?_, ?_⟩
      · intro c r h
        rw [e2, Map.get_set] at h
        rw [e1, Map.get_set]
        by_cases hck : c = k
        · simp only [hck, if_true] at h ⊢; exact h
        · simp only [hck, if_false] at h ⊢; exact hv.1 c r h
      · intro c r h h'
        rw [e1, Map.get_set] at h
        rw [ho] at h'
        rw [e2, Map.get_set]
        by_cases hck : c = k
        · simp only [hck, if_true] at h ⊢; exact h
        · simp only [hck, if_false] at h ⊢; exact hv.2 c r h h'

  · intro c hd hv
    rcases hc with ⟨_, e2⟩ | ⟨k, _, e2⟩ | ⟨k, r0, hk0, _, e2⟩
    · rw [e2]; exact hv
    · rw [e2, Map.get_erase]; split
      · rfl
      · exact hv
    · rw [e2, Map.get_set]
      have : c ≠ k := by rintro rfl; rw [hd] at hk0; simp at hk0
      simp only [this, if_false]; exact hv

theorem delStep_touch (acc : W × Bool) (k : String) : Touch acc.1 (W.delStep acc k).1 := by
  unfold W.delStep
  split
  · exact ⟨SameWants.rfl' _, rfl, rfl, Or.inl ⟨rfl, rfl⟩⟩
  · exact ⟨SameWants.rfl' _, rfl, rfl, Or.inr (Or.inl ⟨k, rfl, rfl⟩)⟩

theorem updStep_touch (acc : W × Bool) (k : String) : Touch acc.1 (W.updStep acc k).1 := by
  unfold W.updStep
  split
  · exact ⟨SameWants.rfl' _, rfl, rfl, Or.inl ⟨rfl, rfl⟩⟩
  · split
    · dsimp only
      split
      · exact ⟨SameWants.rfl' _, rfl, rfl, Or.inl ⟨rfl, rfl⟩⟩
      · split
        · split
          · exact ⟨SameWants.rfl' _, rfl, rfl, Or.inl ⟨rfl, rfl⟩⟩
          · exact ⟨SameWants.rfl' _, rfl, rfl, Or.inl ⟨rfl, rfl⟩⟩
        · exact ⟨SameWants.rfl' _, rfl, rfl, Or.inl ⟨rfl, rfl⟩⟩
    · rename_i r hr _
      exact ⟨SameWants.rfl' _, rfl, rfl, Or.inr (Or.inr ⟨k, r, hr, rfl, rfl⟩)⟩

theorem foldl_pres (f : W × Bool → String → W × Bool) (hf : ∀ acc k, Pres acc.1 (f acc k).1) :
    ∀ (L : List String) (acc : W × Bool), Pres acc.1 (L.foldl f acc).1 := by
  intro L
  induction L with
  | nil => intro acc; exact Pres.refl _
  | cons k L ih => intro acc; exact (hf acc k).trans (ih _)

theorem deletePass_pres (w : W) : Pres w w.deletePass.1 :=
  foldl_pres W.delStep (fun acc k => (delStep_touch acc k).pres) _ (w, false)

theorem updatePass_pres (w : W) : Pres w w.updatePass.1 :=
  foldl_pres W.updStep (fun acc k => (updStep_touch acc k).pres) _ (w, false)

theorem passes_pres (w : W) : Pres w w.passes.1 := (deletePass_pres w).trans (updatePass_pres _)

/-! ### Which kernel keys the passes can touch -/

theorem delFold_other (c : String) : ∀ (L : List String) (acc : W × Bool), c ∉ L →
    (L.foldl W.delStep acc).1.K.get c = acc.1.K.get c := by
  intro L
  induction L with
  | nil => intro acc _; rfl
  | cons k L ih =>
    intro acc hc
    simp only [List.mem_cons, not_or] at hc
    simp only [List.foldl]
    rw [ih _ hc.2]
    unfold W.delStep
    split
    · rfl
    · show Map.get (acc.1.K.erase k) c = _
      rw [Map.get_erase]; simp [hc.1]

theorem updFold_other (c : String) : ∀ (L : List String) (acc : W × Bool), acc.1.t.desired c = none →
    (L.foldl W.updStep acc).1.K.get c = acc.1.K.get c := by
  intro L
  induction L with
  | nil => intro acc _; rfl
  | cons k L ih =>
    intro acc hc
    simp only [List.foldl]
    have hs := (updStep_touch acc k).1
    rw [ih _ (by rw [desired_congr hs c]; exact hc)]
    unfold W.updStep
    split
    · rfl
    · rename_i r hr
      split
      · dsimp only
        split
        · rfl
        · split
          · split <;> rfl
          · rfl
      · show Map.get (acc.1.K.set k r) c = _
        rw [Map.get_set]
        have : c ≠ k := by rintro rfl; rw [hc] at hr; simp at hr
        simp [this]

/-- The delete pass removes only keys of Felix's view that it does not want; the update pass writes only keys
that Felix wants. -/
theorem passes_other (w : W) (c : String) (hd : w.t.desired c = none) (hv : w.t.dp.get c = none) :
    w.passes.1.K.get c = w.K.get c := by
  unfold W.passes
  dsimp only
  have h1 : w.deletePass.1.K.get c = w.K.get c := by
    unfold W.deletePass
    apply delFold_other c _ (w, false)
    intro hm
    rw [mem_sortS, List.mem_eraseDups] at hm
    have := (List.mem_filter.1 hm).1
    rw [← has_keys] at this
    simp [Map.has, hv] at this
  rw [← h1]
  unfold W.updatePass
  apply updFold_other c _ (w.deletePass.1, false)
  show w.deletePass.1.t.desired c = none
  rw [desired_congr (deletePass_pres w).1 c]; exact hd

end CalicoVerif.C17
