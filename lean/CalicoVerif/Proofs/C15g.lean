import CalicoVerif.Proofs.C15f
set_option linter.unusedSimpArgs false
namespace CalicoVerif.C15

theorem has_readHashes (K : Kernel) (c : String) : (readHashes K).has c = K.has c := by
  simp only [Map.has, readHashes_get]
  cases K.get c <;> rfl

/-- One successful transaction, seen from a Felix-owned chain `c`: if `c` is dirty it ends up holding exactly
the desired rules in order (or is gone when it is not desired); if it is not dirty it is untouched. -/
theorem owned_after {t : T} {K K' : Kernel} {lines newH newFull} (h : t.plan = some (lines, newH, newFull))
    (hr : krestore K lines = some K') (hn : t.dirty.Nodup) (hview : t.dpHashes = readHashes K)
    (c : String) (hne : c ≠ "") (hia : c ∉ t.dirtyIA)
    (hs : ∀ ch rs, t.desiredChain c = some ch → K.get c = some rs → Sound rs ch.rules) :
    (c ∈ t.dirty → K'.get c = (t.desiredChain c).map (fun ch => ch.rules.map DRule.k)) ∧
    (c ∉ t.dirty → K'.get c = K.get c) := by
  obtain ⟨Ks', hp1, hp2⟩ := krestore_proj c lines K K K' rfl hr
  rw [plan_proj h hn c hne hia] at hp1
  rw [← hp2]
  refine ⟨?_, ?_⟩
  · intro hc
    simp only [hc, true_and, if_true] at hp1
    cases hd : t.desiredChain c with
    | none =>
      simp only [hd, Option.isNone_none, Bool.true_or, if_true, List.append_nil, List.singleton_append,
        krestore, kline, Option.bind_some, Map.get_set] at hp1
      simp only [Option.some.injEq] at hp1
      rw [← hp1]; simp [Map.get_erase]
    | some ch =>
      simp only [hd, Option.isNone_some, Bool.false_or, Bool.false_eq_true, if_false, List.append_nil] at hp1
      simp only [Option.map_some]
      rw [hview, has_readHashes, readHashes_get] at hp1
      cases hk : K.get c with
      | some rs =>
        have hh : K.has c = true := by simp [Map.has, hk]
        simp only [hh, Bool.not_true, Bool.false_eq_true, if_false, List.nil_append, hk, Option.map_some,
          Option.getD_some] at hp1
        obtain ⟨K'', h1, h2, _⟩ := diff_converges c (rs.map KRule.hash) ch.rules rs [] K rfl (hs ch rs hd hk)
          (by simpa using hk)
        simp only [List.length_nil, Nat.zero_add, List.nil_append] at h1 h2
        rw [h1] at hp1
        simp only [Option.some.injEq] at hp1
        rw [← hp1]; exact h2
      | none =>
        have hh : K.has c = false := by simp [Map.has, hk]
        simp only [hh, Bool.not_false, if_true, hk, Option.map_none, Option.getD_none, List.singleton_append,
          krestore, kline, Option.bind_some] at hp1
        obtain ⟨K'', h1, h2, _⟩ := diff_appTail c ch.rules.length ch.rules [] (K.set c []) 0 (by simp [Map.get_set])
        rw [h1] at hp1
        simp only [Option.some.injEq] at hp1
        rw [← hp1]; simpa using h2
  · intro hc
    simp only [hc, false_and, if_false, List.nil_append, List.append_nil] at hp1
    split at hp1 <;> (simp only [krestore, Option.some.injEq] at hp1; rw [← hp1])

end CalicoVerif.C15
