import CalicoVerif.Proofs.C15o
set_option linter.unusedSimpArgs false
namespace CalicoVerif.C15

theorem iaUpdOf_key {c : String} {o} {q : String × List String × List FR} (h : iaUpdOf c o = some q) : q.1 = c := by
  unfold iaUpdOf at h
  split at h
  · simp only [Option.some.injEq] at h; rw [← h]
  · simp at h

/-- A successful `applyUpdates` (its cache update) re-establishes the invariant with nothing dirty: every Felix
chain's cached hashes are the desired ones, chains that are not wanted are dropped from the cache. -/
theorem TInv.commit {t : T} (h : TInv t) {lines newH newFull} (hp : t.plan = some (lines, newH, newFull)) :
    TInv (t.commit newH newFull) := by
  refine ⟨?_, List.nodup_nil, fun c _ hm => by simp [T.commit] at hm⟩
  intro c hours _
  have hours' : t.ours c = true := hours
  have hdes : (t.commit newH newFull).desiredChain c = t.desiredChain c := rfl
  rw [hdes, commit_dp]
  unfold T.plan at hp
  dsimp only at hp
  split at hp
  · simp at hp
  · simp only [Option.some.injEq, Prod.mk.injEq] at hp
    obtain ⟨_, hH, _⟩ := hp
    rw [← hH]
    -- entries of the three parts
    have hia : ∀ p ∈ (((sortS t.dirtyIA).map (fun c => (c, t.iaLines c))).filterMap (fun p => iaUpdOf p.1 p.2)).map
        (fun p => (p.1, some p.2.1)), p.1 ≠ c := by
      intro p hp
      obtain ⟨q, hq, rfl⟩ := List.mem_map.1 hp
      obtain ⟨r, hr, hrq⟩ := List.mem_filterMap.1 hq
      obtain ⟨x, hx, rfl⟩ := List.mem_map.1 hr
      have : q.1 = x := iaUpdOf_key hrq
      intro e
      dsimp only at e
      rw [this] at e
      subst e
      exact h.iaForeign x hours' (mem_sortS.1 hx)
    by_cases hcd : c ∈ t.dirty
    · apply commitFold_all c
      · intro p hp hpc
        rcases List.mem_append.1 hp with hp | hp
        · rcases List.mem_append.1 hp with hp | hp
          · obtain ⟨q, hq, rfl⟩ := List.mem_map.1 hp
            obtain ⟨x, hx, hxq⟩ := List.mem_filterMap.1 hq
            cases hd : t.desiredChain x with
            | none => rw [hd] at hxq; simp at hxq
            | some ch =>
              rw [hd] at hxq
              simp only [Option.map_some, Option.some.injEq] at hxq
              subst hxq
              dsimp only at hpc ⊢
              subst hpc
              rw [hd]; rfl
          · exact absurd hpc (hia p hp)
        · obtain ⟨x, hx, rfl⟩ := List.mem_map.1 hp
          dsimp only at hpc ⊢
          subst hpc
          have := (List.mem_filter.1 hx).2
          cases hd : t.desiredChain x with
          | none => rfl
          | some ch => rw [hd] at this; simp at this
      · cases hd : t.desiredChain c with
        | none =>
          refine ⟨(c, none), ?_, rfl⟩
          apply List.mem_append_right
          exact List.mem_map.2 ⟨c, List.mem_filter.2 ⟨mem_sortS.2 hcd, by rw [hd]; rfl⟩, rfl⟩
        | some ch =>
          refine ⟨(c, some (ch.rules.map (·.hash))), ?_, rfl⟩
          apply List.mem_append_left
          apply List.mem_append_left
          exact List.mem_map.2 ⟨(c, ch), List.mem_filterMap.2 ⟨c, mem_sortS.2 hcd, by rw [hd]; rfl⟩, rfl⟩
    · rw [commitFold_other c]
      · exact h.cache c hours' hcd
      · intro p hp
        rcases List.mem_append.1 hp with hp | hp
        · rcases List.mem_append.1 hp with hp | hp
          · obtain ⟨q, hq, rfl⟩ := List.mem_map.1 hp
            obtain ⟨x, hx, hxq⟩ := List.mem_filterMap.1 hq
            cases hd : t.desiredChain x with
            | none => rw [hd] at hxq; simp at hxq
            | some ch =>
              rw [hd] at hxq
              simp only [Option.map_some, Option.some.injEq] at hxq
              subst hxq
              dsimp only
              rintro rfl
              exact hcd (mem_sortS.1 hx)
          · exact hia p hp
        · obtain ⟨x, hx, rfl⟩ := List.mem_map.1 hp
          dsimp only
          rintro rfl
          exact hcd (mem_sortS.1 (List.mem_filter.1 hx).1)

end CalicoVerif.C15
