import CalicoVerif.Model.C43
/-!
C43 — helper lemmas: association lists, the fold of `flush` over a block route's lookup path,
and the routeManager's two maps as a function of the last message per destination.
-/
namespace CalicoVerif.C43

theorem aget_aset {κ α} [DecidableEq κ] (m : List (κ × α)) (k k' : κ) (v : α) :
    aget (aset m k v) k' = if k = k' then some v else aget m k' := by
  induction m with
  | nil =>
    simp only [aset, aget, List.lookup]
    by_cases h : k = k'
    · subst h; simp
    · have : (k' == k) = false := by simp [Ne.symm h]
      simp [this, h]
  | cons p m ih =>
    obtain ⟨k0, v0⟩ := p
    simp only [aset]
    by_cases h0 : k0 = k
    · subst h0
      simp only [beq_self_eq_true, if_true, aget, List.lookup]
      by_cases h : k0 = k'
      · subst h; simp
      · have : (k' == k0) = false := by simp [Ne.symm h]
        simp [this, h]
    · have hb : (k0 == k) = false := by simp [h0]
      simp only [hb, Bool.false_eq_true, if_false, aget, List.lookup]
      by_cases h : k' = k0
      · subst h
        have : ¬ k = k' := fun e => h0 e.symm
        simp [this]
      · have hb' : (k' == k0) = false := by simp [h]
        simp only [hb']
        exact ih

theorem aget_adel {κ α} [DecidableEq κ] (m : List (κ × α)) (k k' : κ) :
    aget (adel m k) k' = if k = k' then none else aget m k' := by
  induction m with
  | nil => simp [adel, aget]
  | cons p m ih =>
    obtain ⟨k0, v0⟩ := p
    simp only [adel, List.filter]
    by_cases h0 : k0 = k
    · subst h0
      simp only [beq_self_eq_true, Bool.not_true]
      have := ih
      simp only [adel] at this
      rw [this]
      by_cases h : k0 = k'
      · simp [h]
      · have hb' : (k' == k0) = false := by simp [Ne.symm h]
        simp [h, aget, List.lookup, hb']
    · have hb : (k0 == k) = false := by simp [h0]
      simp only [hb, Bool.not_false, aget, List.lookup]
      by_cases h : k' = k0
      · subst h
        have : ¬ k = k' := fun e => h0 e.symm
        simp [this]
      · have hb' : (k' == k0) = false := by simp [h]
        simp only [hb']
        have := ih
        simp only [adel, aget] at this
        exact this

/-! ### routeManager: what is stored is a function of the last message per destination -/

/-- the condition under which `OnUpdate` keeps a route in `routesByDest`. -/
def stores (pt : Nat) (r : RouteUpdate) : Bool :=
  (isType r tRemoteWorkload && r.poolType == pt) || isRemoteTunnelRoute r pt || isBorrowedRoute r pt

def storedOf (pt : Nat) (r : RouteUpdate) : Option RouteUpdate := if stores pt r then some r else none
def blockOf (pt : Nat) (r : RouteUpdate) : Option RouteUpdate := if routeIsLocalBlock pt r then some r else none

/-- the manager's two maps agree with the downstream map `sent` (dst ↦ last RouteUpdate). -/
def Agree (m : RM) (sent : List (Cidr × RouteUpdate)) : Prop :=
  ∀ d, aget m.routes d = (aget sent d).bind (storedOf m.pt) ∧
       aget m.localBlocks d = (aget sent d).bind (blockOf m.pt)

theorem aget_del_if {κ α} [DecidableEq κ] (m : List (κ × α)) (d d' : κ) :
    aget (if (aget m d).isSome = true then adel m d else m) d' = (if d = d' then none else aget m d') := by
  by_cases h1 : (aget m d).isSome = true
  · simp only [h1, if_true]; rw [aget_adel]
  · simp only [h1, if_false]
    by_cases h : d = d'
    · subst h
      have : aget m d = none := by simpa using h1
      simp [this]
    · simp [h]

theorem deleteRoute_spec (m : RM) (d d' : Cidr) :
    (m.deleteRoute d).pt = m.pt ∧
    aget (m.deleteRoute d).routes d' = (if d = d' then none else aget m.routes d') ∧
    aget (m.deleteRoute d).localBlocks d' = (if d = d' then none else aget m.localBlocks d') := by
  have r1 := aget_del_if m.routes d d'
  have r2 := aget_del_if m.localBlocks d d'
  unfold RM.deleteRoute
  by_cases h1 : (aget m.routes d).isSome = true <;> by_cases h2 : (aget m.localBlocks d).isSome = true
  all_goals simp only [h1, h2, if_true, if_false, Bool.false_eq_true] at r1 r2 ⊢
  all_goals exact ⟨trivial, r1, r2⟩

theorem onRouteUpdate_spec (m : RM) (r : RouteUpdate) (d' : Cidr) :
    (m.onRouteUpdate r).pt = m.pt ∧
    aget (m.onRouteUpdate r).routes d' = (if r.dst = d' then storedOf m.pt r else aget m.routes d') ∧
    aget (m.onRouteUpdate r).localBlocks d' = (if r.dst = d' then blockOf m.pt r else aget m.localBlocks d') := by
  have hd := deleteRoute_spec m r.dst
  have hpt := (hd d').1
  unfold RM.onRouteUpdate
  simp only []
  generalize hm1 : m.deleteRoute r.dst = m1 at *
  have hs : ((isType r tRemoteWorkload && r.poolType == m1.pt) || isRemoteTunnelRoute r m1.pt
      || isBorrowedRoute r m1.pt) = stores m.pt r := by rw [hpt]; rfl
  rw [hs]
  by_cases hst : stores m.pt r = true
  · simp only [hst, if_true]
    by_cases hlb : routeIsLocalBlock m.pt r = true
    · simp only [hpt, hlb, if_true]
      refine ⟨by first | exact hpt | trivial, ?_, ?_⟩
      · rw [aget_aset]; simp only [storedOf, hst, if_true]
        by_cases h : r.dst = d' <;> simp [h, (hd d').2.1]
      · rw [aget_aset]; simp only [blockOf, hlb, if_true]
        by_cases h : r.dst = d' <;> simp [h, (hd d').2.2]
    · simp only [hpt, hlb, if_false, Bool.false_eq_true]
      have hnone : (aget m1.localBlocks r.dst).isSome = false := by
        have := (hd r.dst).2.2; simp at this; simp [this]
      simp only [hnone, Bool.false_eq_true, if_false]
      refine ⟨by first | exact hpt | trivial, ?_, ?_⟩
      · rw [aget_aset]; simp only [storedOf, hst, if_true]
        by_cases h : r.dst = d' <;> simp [h, (hd d').2.1]
      · simp only [blockOf, hlb, Bool.false_eq_true, if_false]
        by_cases h : r.dst = d' <;> simp [h, (hd d').2.2]
  · simp only [hst, if_false, Bool.false_eq_true]
    by_cases hlb : routeIsLocalBlock m.pt r = true
    · simp only [hpt, hlb, if_true]
      refine ⟨by first | exact hpt | trivial, ?_, ?_⟩
      · simp only [storedOf, hst, Bool.false_eq_true, if_false]
        by_cases h : r.dst = d' <;> simp [h, (hd d').2.1]
      · rw [aget_aset]; simp only [blockOf, hlb, if_true]
        by_cases h : r.dst = d' <;> simp [h, (hd d').2.2]
    · simp only [hpt, hlb, if_false, Bool.false_eq_true]
      have hnone : (aget m1.localBlocks r.dst).isSome = false := by
        have := (hd r.dst).2.2; simp at this; simp [this]
      simp only [hnone, Bool.false_eq_true, if_false]
      refine ⟨by first | exact hpt | trivial, ?_, ?_⟩
      · simp only [storedOf, hst, Bool.false_eq_true, if_false]
        by_cases h : r.dst = d' <;> simp [h, (hd d').2.1]
      · simp only [blockOf, hlb, Bool.false_eq_true, if_false]
        by_cases h : r.dst = d' <;> simp [h, (hd d').2.2]


/-- no host entries and no refs on the proper ancestors of a block route (hosts, workloads and
tunnel addresses are /32s, so they are never proper ancestors). -/
def PlainAncestors (pre : List (Cidr × RouteInfo)) : Prop :=
  ∀ e ∈ pre, e.2.hosts = [] ∧ e.2.refs = []

def poolCross (e : Cidr × RouteInfo) : Bool := match e.2.pool with | some p => p.cross | none => false

/-- some pool on the path allows cross-subnet. -/
def pathCross (path : List (Cidr × RouteInfo)) : Bool := path.any poolCross

def BT (x : Nat) : Prop := x = 0 ∨ x = 1 ∨ x = 4 ∨ x = 5

theorem accStep_plain (me : Nat) (c : Cidr) (a : Acc) (e : Cidr × RouteInfo)
    (hh : e.2.hosts = []) (hr : e.2.refs = []) :
    accStep me c a e = accBlock me c (accPool a e.2) e := by
  simp [accStep, accHost, accRefs, hh, hr]

theorem accPool_fields (a : Acc) (ri : RouteInfo) :
    (accPool a ri).cross = (a.cross || (match ri.pool with | some p => p.cross | none => false)) ∧
    (accPool a ri).types = a.types ∧ (accPool a ri).hasHostRef = a.hasHostRef ∧
    (accPool a ri).hasTunnelRef = a.hasTunnelRef ∧ (accPool a ri).blockTypes = a.blockTypes ∧
    (accPool a ri).blockSeen = a.blockSeen ∧ (accPool a ri).blockNode = a.blockNode ∧
    (accPool a ri).blockMatches = a.blockMatches ∧ (accPool a ri).dstNode = a.dstNode := by
  unfold accPool
  cases ri.pool <;> simp

theorem BT_or (x : Nat) (h : BT x) (b : Bool) : BT (x ||| (if b then tLocalWorkload else tRemoteWorkload)) := by
  rcases h with h | h | h | h <;> subst h <;> cases b <;> simp [BT, tLocalWorkload, tRemoteWorkload]

theorem accBlock_fields (me : Nat) (c : Cidr) (a : Acc) (e : Cidr × RouteInfo) :
    (accBlock me c a e).cross = a.cross ∧ (accBlock me c a e).types = a.types ∧
    (accBlock me c a e).hasHostRef = a.hasHostRef ∧ (accBlock me c a e).hasTunnelRef = a.hasTunnelRef ∧
    (accBlock me c a e).poolType = a.poolType ∧
    (BT a.blockTypes → BT (accBlock me c a e).blockTypes) := by
  unfold accBlock
  cases hb : e.2.block with
  | none => simp
  | some n =>
    simp only []
    split <;> (refine ⟨rfl, rfl, rfl, rfl, rfl, ?_⟩; intro hbt; exact BT_or _ hbt _)

/-- folding over plain ancestors. -/
theorem fold_plain (me : Nat) (c : Cidr) (pre : List (Cidr × RouteInfo)) (hp : PlainAncestors pre) (a : Acc) :
    let r := pre.foldl (accStep me c) a
    r.cross = (a.cross || pathCross pre) ∧ r.types = a.types ∧ r.hasHostRef = a.hasHostRef ∧
    r.hasTunnelRef = a.hasTunnelRef ∧ (BT a.blockTypes → BT r.blockTypes) := by
  induction pre generalizing a with
  | nil => simp [pathCross]
  | cons e pre ih =>
    have he := hp e (List.mem_cons_self)
    have hp' : PlainAncestors pre := fun x hx => hp x (List.mem_cons_of_mem _ hx)
    simp only [List.foldl_cons]
    rw [accStep_plain me c a e he.1 he.2]
    have h1 := accPool_fields a e.2
    have h2 := accBlock_fields me c (accPool a e.2) e
    have := ih hp' (accBlock me c (accPool a e.2) e)
    simp only at this
    obtain ⟨i1, i2, i3, i4, i5⟩ := this
    refine ⟨?_, ?_, ?_, ?_, ?_⟩
    · rw [i1, h2.1, h1.1]; simp [pathCross, poolCross, Bool.or_assoc]
    · rw [i2, h2.2.1, h1.2.1]
    · rw [i3, h2.2.2.1, h1.2.2.1]
    · rw [i4, h2.2.2.2.1, h1.2.2.2.1]
    · intro hbt; apply i5; apply h2.2.2.2.2.2; rw [h1.2.2.2.2.1]; exact hbt


theorem pathCross_append (p q : List (Cidr × RouteInfo)) : pathCross (p ++ q) = (pathCross p || pathCross q) := by
  simp [pathCross]

/-- the accumulator after the block's own entry. -/
theorem last_block (me : Nat) (c : Cidr) (A : Acc) (ri : RouteInfo) (n : Nat)
    (hb : ri.block = some n) (hh : ri.hosts = []) (hr : ri.refs = []) (hn : n ≠ me) :
    let B := accStep me c A (c, ri)
    B.dstNode = some n ∧ B.blockSeen = true ∧ B.blockMatches = true ∧
    B.blockTypes = (A.blockTypes ||| tRemoteWorkload) ∧ B.types = A.types ∧ B.hasHostRef = A.hasHostRef ∧
    B.hasTunnelRef = A.hasTunnelRef ∧ B.cross = (A.cross || poolCross (c, ri)) ∧
    B.localWorkload = A.localWorkload := by
  have hne : (n == me) = false := by simp [hn]
  rw [accStep_plain me c A (c, ri) hh hr]
  have h1 := accPool_fields A ri
  unfold accBlock
  simp only [hb, hne]
  have hl : (accPool A ri).localWorkload = A.localWorkload := by
    unfold accPool; cases ri.pool <;> simp
  split <;> simp_all [poolCross]

theorem BT_or_one (x : Nat) (h : BT x) : (0 ||| (x ||| tRemoteWorkload)) = 1 ∨ (0 ||| (x ||| tRemoteWorkload)) = 5 := by
  rcases h with h | h | h | h <;> subst h <;> simp [tRemoteWorkload]

/-- the RouteUpdate the resolver computes for a block owned by a remote node `n`
(no host and no ref at the block's CIDR or above it). -/
theorem routeOfPath_block (me : Nat) (nodes : List (Nat × NodeInfo)) (c : Cidr)
    (pre : List (Cidr × RouteInfo)) (ri : RouteInfo) (n : Nat)
    (hpre : PlainAncestors pre) (hb : ri.block = some n) (hh : ri.hosts = []) (hr : ri.refs = [])
    (hn : n ≠ me) :
    let r := routeOfPath me nodes c (pre ++ [(c, ri)])
    r.dst = c ∧ r.dstNode = some n ∧ (r.types = 1 ∨ r.types = 5) ∧ r.localWorkload = false ∧
    r.dstNodeIp = (match aget nodes n with | some ni => ni.addrOf c.v6 | none => 0) ∧
    r.sameSubnet = (pathCross (pre ++ [(c, ri)]) && (aget nodes n).isSome && nodeInOurSubnet c.v6 me nodes n) := by
  have hf := fold_plain me c pre hpre {}
  simp only at hf
  obtain ⟨f1, f2, f3, f4, f5⟩ := hf
  have hl := last_block me c (pre.foldl (accStep me c) {}) ri n hb hh hr hn
  simp only at hl
  obtain ⟨l1, l2, l3, l4, l5, l6, l7, l8, l9⟩ := hl
  have hlw : (List.foldl (accStep me c) ({} : Acc) pre).localWorkload = false := by
    clear f1 f2 f3 f4 f5 l1 l2 l3 l4 l5 l6 l7 l8 l9
    suffices ∀ a : Acc, a.localWorkload = false → (List.foldl (accStep me c) a pre).localWorkload = false from this {} rfl
    induction pre with
    | nil => intro a h; exact h
    | cons e pre ih =>
      intro a ha
      have he := hpre e (List.mem_cons_self)
      simp only [List.foldl_cons]
      apply ih (fun x hx => hpre x (List.mem_cons_of_mem _ hx))
      rw [accStep_plain me c a e he.1 he.2]
      unfold accBlock accPool
      cases e.2.pool <;> cases e.2.block <;> simp [ha] <;> split <;> simp [ha]
  have hbt : BT (List.foldl (accStep me c) ({} : Acc) pre).blockTypes := f5 (Or.inl rfl)
  unfold routeOfPath
  simp only [List.foldl_append, List.foldl_cons, List.foldl_nil]
  simp only [l1, l2, l3, l4, l5, l6, l7, l8, l9, f1, f2, f3, f4, hlw, pathCross_append]
  refine ⟨trivial, trivial, ?_, ?_, ?_, ?_⟩
  · have := BT_or_one _ hbt
    simpa using this
  · trivial
  · rfl
  · simp [pathCross, Bool.and_assoc]

/-- the accumulator after a LOCAL block's own entry. -/
theorem last_block_local (me : Nat) (c : Cidr) (A : Acc) (ri : RouteInfo)
    (hb : ri.block = some me) (hh : ri.hosts = []) (hr : ri.refs = []) :
    let B := accStep me c A (c, ri)
    B.blockSeen = true ∧ B.blockMatches = true ∧
    B.blockTypes = (A.blockTypes ||| tLocalWorkload) ∧ B.types = A.types ∧ B.hasHostRef = A.hasHostRef ∧
    B.hasTunnelRef = A.hasTunnelRef ∧ B.localWorkload = A.localWorkload := by
  rw [accStep_plain me c A (c, ri) hh hr]
  have h1 := accPool_fields A ri
  unfold accBlock
  simp only [hb, beq_self_eq_true, if_true]
  have hl : (accPool A ri).localWorkload = A.localWorkload := by
    unfold accPool; cases ri.pool <;> simp
  split <;> simp_all

theorem BT_or_four (x : Nat) (h : BT x) : (0 ||| (x ||| tLocalWorkload)) = 4 ∨ (0 ||| (x ||| tLocalWorkload)) = 5 := by
  rcases h with h | h | h | h <;> subst h <;> simp [tLocalWorkload]

/-- the RouteUpdate the resolver computes for a block owned by the LOCAL node (no host and no ref at
the block's CIDR or above it): a LOCAL_WORKLOAD route that is not flagged as a live workload. -/
theorem routeOfPath_local_block (me : Nat) (nodes : List (Nat × NodeInfo)) (c : Cidr)
    (pre : List (Cidr × RouteInfo)) (ri : RouteInfo)
    (hpre : PlainAncestors pre) (hb : ri.block = some me) (hh : ri.hosts = []) (hr : ri.refs = []) :
    let r := routeOfPath me nodes c (pre ++ [(c, ri)])
    r.dst = c ∧ (r.types = 4 ∨ r.types = 5) ∧ r.localWorkload = false := by
  have hf := fold_plain me c pre hpre {}
  simp only at hf
  obtain ⟨f1, f2, f3, f4, f5⟩ := hf
  have hl := last_block_local me c (pre.foldl (accStep me c) {}) ri hb hh hr
  simp only at hl
  obtain ⟨l2, l3, l4, l5, l6, l7, l9⟩ := hl
  have hlw : (List.foldl (accStep me c) ({} : Acc) pre).localWorkload = false := by
    clear f1 f2 f3 f4 f5 l2 l3 l4 l5 l6 l7 l9
    suffices ∀ a : Acc, a.localWorkload = false → (List.foldl (accStep me c) a pre).localWorkload = false from this {} rfl
    induction pre with
    | nil => intro a h; exact h
    | cons e pre ih =>
      intro a ha
      have he := hpre e (List.mem_cons_self)
      simp only [List.foldl_cons]
      apply ih (fun x hx => hpre x (List.mem_cons_of_mem _ hx))
      rw [accStep_plain me c a e he.1 he.2]
      unfold accBlock accPool
      cases e.2.pool <;> cases e.2.block <;> simp [ha] <;> split <;> simp [ha]
  have hbt : BT (List.foldl (accStep me c) ({} : Acc) pre).blockTypes := f5 (Or.inl rfl)
  unfold routeOfPath
  simp only [List.foldl_append, List.foldl_cons, List.foldl_nil]
  simp only [l2, l3, l4, l5, l6, l7, l9, f2, f3, f4, hlw]
  refine ⟨trivial, ?_, ?_⟩
  · have := BT_or_four _ hbt
    simpa using this
  · trivial

end CalicoVerif.C43
