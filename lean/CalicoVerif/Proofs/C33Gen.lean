import CalicoVerif.Proofs.C33Perm
/-! C33: loop invariant of `Generate` — it never runs out of preferences, fills
every slot and hands out slots round-robin. -/
namespace CalicoVerif.C33

/-- Number of slots backend `i` owns after `t` round-robin assignments among `N` backends. -/
def cnt (N t i : Nat) : Nat := t / N + (if i < t % N then 1 else 0)

theorem divmod_succ {N t : Nat} (hN : 0 < N) :
    (t % N + 1 < N ∧ (t + 1) / N = t / N ∧ (t + 1) % N = t % N + 1) ∨
    (t % N + 1 = N ∧ (t + 1) / N = t / N + 1 ∧ (t + 1) % N = 0) := by
  have hr : t % N < N := Nat.mod_lt _ hN
  have hdm := Nat.div_add_mod t N
  have ht : t + 1 = (t % N + 1) + N * (t / N) := by omega
  by_cases h : t % N + 1 < N
  · left
    refine ⟨h, ?_, ?_⟩
    · rw [ht, Nat.add_mul_div_left _ _ hN, Nat.div_eq_of_lt h]; omega
    · rw [ht, Nat.add_mul_mod_self_left, Nat.mod_eq_of_lt h]
  · right
    have h' : t % N + 1 = N := by omega
    refine ⟨h', ?_, ?_⟩
    · rw [ht, Nat.add_mul_div_left _ _ hN, h', Nat.div_self hN]; omega
    · rw [ht, Nat.add_mul_mod_self_left, h', Nat.mod_self]

theorem cnt_succ {N t i : Nat} (hN : 0 < N) (hi : i < N) :
    cnt N (t + 1) i = cnt N t i + (if i = t % N then 1 else 0) := by
  unfold cnt
  rcases divmod_succ (t := t) hN with ⟨h1, h2, h3⟩ | ⟨h1, h2, h3⟩
  · rw [h2, h3]
    by_cases ha : i < t % N
    · have hb : i < t % N + 1 := by omega
      have hc : ¬ i = t % N := by omega
      simp only [ha, hb, hc, if_true, if_false]
    · by_cases hc : i = t % N
      · have hb : i < t % N + 1 := by omega
        simp only [ha, hb, hc, if_true, if_false]
        subst hc; simp
      · have hb : ¬ i < t % N + 1 := by omega
        simp only [ha, hb, hc, if_false]
  · rw [h2, h3]
    have hb : ¬ i < 0 := by omega
    by_cases ha : i < t % N
    · have hc : ¬ i = t % N := by omega
      simp only [ha, hb, hc, if_true, if_false]
    · have hc : i = t % N := by omega
      simp only [ha, hb, if_false]
      rw [if_pos hc]

theorem cnt_zero {N i : Nat} : cnt N 0 i = 0 := by
  unfold cnt; simp

/-- Shares differ by at most one. -/
theorem cnt_balanced (N t i j : Nat) : cnt N t i ≤ cnt N t j + 1 := by
  unfold cnt
  split <;> split <;> omega

/-! ### scan -/

theorem scan_spec (lut : List (Option Nat)) : ∀ (cs : List Nat) (k c k' : Nat),
    scan lut cs k = some (c, k') →
    ∃ j, k' = k + j ∧ cs[j]? = some c ∧ lut[c]? = some none ∧
      ∀ j', j' < j → ∃ c' b, cs[j']? = some c' ∧ lut[c']? = some (some b) := by
  intro cs
  induction cs with
  | nil => intro k c k' h; simp [scan] at h
  | cons c0 cs ih =>
    intro k c k' h
    unfold scan at h
    cases hl : lut[c0]? with
    | none => simp [hl] at h
    | some v =>
      cases v with
      | none =>
        simp only [hl, Option.some.injEq, Prod.mk.injEq] at h
        obtain ⟨rfl, rfl⟩ := h
        exact ⟨0, by simp, by simp, hl, by intro j' hj'; omega⟩
      | some b =>
        simp only [hl] at h
        obtain ⟨j, hk, hc, hlc, hbefore⟩ := ih (k + 1) c k' h
        refine ⟨j + 1, by omega, by simpa using hc, hlc, ?_⟩
        intro j' hj'
        cases j' with
        | zero => exact ⟨c0, b, by simp, hl⟩
        | succ j'' =>
          obtain ⟨c', b', h1, h2⟩ := hbefore j'' (by omega)
          exact ⟨c', b', by simpa using h1, h2⟩

theorem scan_isSome (lut : List (Option Nat)) : ∀ (cs : List Nat) (k : Nat),
    (∀ c ∈ cs, c < lut.length) → (∃ c ∈ cs, lut[c]? = some none) →
    ∃ r, scan lut cs k = some r := by
  intro cs
  induction cs with
  | nil => intro k _ h; obtain ⟨c, hc, _⟩ := h; simp at hc
  | cons c0 cs ih =>
    intro k hb hex
    unfold scan
    have hc0 : c0 < lut.length := hb c0 List.mem_cons_self
    rw [List.getElem?_eq_getElem hc0]
    cases hv : lut[c0] with
    | none => exact ⟨_, rfl⟩
    | some b =>
      simp only
      apply ih (k + 1) (fun c hc => hb c (List.mem_cons_of_mem _ hc))
      obtain ⟨c, hc, hlc⟩ := hex
      rcases List.mem_cons.1 hc with rfl | hc
      · rw [List.getElem?_eq_getElem hc0, hv] at hlc; simp at hlc
      · exact ⟨c, hc, hlc⟩

theorem exists_empty : ∀ (lut : List (Option Nat)),
    lut.countP (fun o => o.isSome) < lut.length → ∃ e : Nat, lut[e]? = some none := by
  intro lut
  induction lut with
  | nil => intro h; simp at h
  | cons a t ih =>
    intro h
    cases a with
    | none => exact ⟨0, by simp⟩
    | some b =>
      simp only [List.countP_cons, Option.isSome_some, if_true, List.length_cons] at h
      obtain ⟨e, he⟩ := ih (by omega)
      exact ⟨e + 1, by simpa using he⟩

/-! ### the invariant -/

structure Inv (perms : List (List Nat)) (N m t : Nat) (st : GenState) : Prop where
  lenLut : st.lut.length = m
  lenNext : st.next.length = N
  filled : st.lut.countP (fun o => o.isSome) = t
  pref : ∀ (i : Nat) (prefs : List Nat) (nk k : Nat), perms[i]? = some prefs → st.next[i]? = some nk → k < nk →
    ∃ c b, prefs[k]? = some c ∧ st.lut[c]? = some (some b)
  owners : ∀ i : Nat, i < N → st.lut.count (some i) = cnt N t i
  range : ∀ (c b : Nat), st.lut[c]? = some (some b) → b < N

theorem inv_init (perms : List (List Nat)) (N m : Nat) : Inv perms N m 0 (initState N m) := by
  refine ⟨by simp [initState], by simp [initState], ?_, ?_, ?_, ?_⟩
  · simp [initState, List.countP_replicate]
  · intro i prefs nk k _ hn hk
    simp only [initState, List.getElem?_replicate] at hn
    split at hn
    · simp at hn; omega
    · simp at hn
  · intro i _
    simp [initState, List.count_replicate, cnt_zero]
  · intro c b h
    simp only [initState, List.getElem?_replicate] at h
    split at h <;> simp at h

/-- One assignment: if every preference list is a permutation of the slots and a
slot is still free, the inner loop stops inside the list, and the invariant is kept. -/
theorem inv_step {perms : List (List Nat)} {N m t : Nat} {st : GenState}
    (hlen : perms.length = N) (hvalid : ∀ p ∈ perms, ValidPerm m p) (hN : 0 < N)
    (hinv : Inv perms N m t st) (ht : t < m) :
    ∃ st', stepBackend perms st (t % N) = some st' ∧ Inv perms N m (t + 1) st' := by
  have hi : t % N < N := Nat.mod_lt _ hN
  obtain ⟨prefs, hprefs⟩ : ∃ prefs, perms[t % N]? = some prefs :=
    ⟨perms[t % N]'(by omega), List.getElem?_eq_getElem (by omega)⟩
  obtain ⟨nk, hnk⟩ : ∃ nk, st.next[t % N]? = some nk :=
    ⟨st.next[t % N]'(by rw [hinv.lenNext]; exact hi), List.getElem?_eq_getElem (by rw [hinv.lenNext]; exact hi)⟩
  have hvp : ValidPerm m prefs := hvalid prefs (List.mem_of_getElem? hprefs)
  -- an empty slot exists, it is some preference at index ≥ nk
  obtain ⟨e, he⟩ := exists_empty st.lut (by rw [hinv.filled, hinv.lenLut]; exact ht)
  have hem : e < m := by
    have := (List.getElem?_eq_some_iff.1 he).1
    rw [hinv.lenLut] at this; exact this
  have heprefs : e ∈ prefs := hvp.mem hem
  obtain ⟨k0, hk0lt, hk0⟩ := List.getElem_of_mem heprefs
  have hk0ge : nk ≤ k0 := by
    by_cases h : nk ≤ k0
    · exact h
    · exfalso
      obtain ⟨c, b, hc, hb⟩ := hinv.pref (t % N) prefs nk k0 hprefs hnk (by omega)
      rw [List.getElem?_eq_getElem hk0lt, hk0] at hc
      simp only [Option.some.injEq] at hc
      subst hc
      rw [he] at hb; simp at hb
  have hscan : ∃ r, scan st.lut (prefs.drop nk) nk = some r := by
    apply scan_isSome
    · intro c hc
      rw [hinv.lenLut]
      exact hvp.2.2 c (List.mem_of_mem_drop hc)
    · refine ⟨e, ?_, he⟩
      rw [List.mem_iff_getElem?]
      exact ⟨k0 - nk, by rw [List.getElem?_drop]; rw [show nk + (k0 - nk) = k0 by omega, List.getElem?_eq_getElem hk0lt, hk0]⟩
  obtain ⟨⟨c, k'⟩, hsc⟩ := hscan
  obtain ⟨j, hk', hcj, hcempty, hbefore⟩ := scan_spec st.lut _ _ _ _ hsc
  rw [List.getElem?_drop] at hcj
  have hclt : c < st.lut.length := (List.getElem?_eq_some_iff.1 hcempty).1
  refine ⟨{ next := st.next.set (t % N) (k' + 1), lut := st.lut.set c (some (t % N)) }, ?_, ?_⟩
  · unfold stepBackend
    simp only [hprefs, hnk, hsc]
  · have hcget : st.lut[c] = none := by
      have := List.getElem?_eq_getElem hclt
      rw [hcempty] at this
      exact (Option.some.inj this).symm
    -- a filled slot stays filled
    have hstay : ∀ (c' b : Nat), st.lut[c']? = some (some b) →
        ∃ b', (st.lut.set c (some (t % N)))[c']? = some (some b') := by
      intro c' b hb
      by_cases hcc : c = c'
      · subst hcc; rw [hcempty] at hb; simp at hb
      · exact ⟨b, by rw [List.getElem?_set_ne hcc]; exact hb⟩
    refine ⟨by simp [hinv.lenLut], by simp [hinv.lenNext], ?_, ?_, ?_, ?_⟩
    · simp only [List.countP_set hclt, hcget, Option.isSome_none, Option.isSome_some, if_true]
      rw [hinv.filled]; simp
    · intro i prefs' nk' k hp hn hk
      by_cases hii : t % N = i
      · subst hii
        rw [hprefs] at hp
        have hp' : prefs = prefs' := Option.some.inj hp
        subst hp'
        simp only [List.getElem?_set_self (by rw [hinv.lenNext]; exact hi), Option.some.injEq] at hn
        subst hn
        by_cases hk1 : k < nk
        · obtain ⟨c', b, h1, h2⟩ := hinv.pref _ _ _ k hprefs hnk hk1
          obtain ⟨b', hb'⟩ := hstay c' b h2
          exact ⟨c', b', h1, hb'⟩
        · by_cases hk2 : k < nk + j
          · obtain ⟨c', b, h1, h2⟩ := hbefore (k - nk) (by omega)
            rw [List.getElem?_drop, show nk + (k - nk) = k by omega] at h1
            obtain ⟨b', hb'⟩ := hstay c' b h2
            exact ⟨c', b', h1, hb'⟩
          · have : k = nk + j := by omega
            subst this
            exact ⟨c, t % N, hcj, by simp [List.getElem?_set_self hclt]⟩
      · simp only [List.getElem?_set_ne hii] at hn
        obtain ⟨c', b, h1, h2⟩ := hinv.pref i prefs' nk' k hp hn hk
        obtain ⟨b', hb'⟩ := hstay c' b h2
        exact ⟨c', b', h1, hb'⟩
    · intro i hiN
      simp only [List.count_set hclt, hcget]
      rw [hinv.owners i hiN, cnt_succ hN hiN]
      by_cases hii : i = t % N
      · subst hii; simp
      · have : ¬ (t % N = i) := fun h => hii h.symm
        simp [hii, this]
    · intro c' b hb
      rw [List.getElem?_set] at hb
      by_cases hcc : c = c'
      · simp only [hcc, if_true] at hb
        split at hb
        · simp only [Option.some.injEq] at hb; omega
        · simp at hb
      · simp only [hcc, if_false] at hb
        exact hinv.range c' b hb

theorem fill_spec {perms : List (List Nat)} {N m : Nat}
    (hlen : perms.length = N) (hvalid : ∀ p ∈ perms, ValidPerm m p) (hN : 0 < N) :
    ∀ (r t : Nat) (st : GenState), Inv perms N m t st → t + r = m →
      ∃ st', fill perms N r t st = some st' ∧ Inv perms N m m st' := by
  intro r
  induction r with
  | zero =>
    intro t st hinv htr
    have : t = m := by omega
    subst this
    exact ⟨st, rfl, hinv⟩
  | succ r ih =>
    intro t st hinv htr
    obtain ⟨st1, hstep, hinv1⟩ := inv_step hlen hvalid hN hinv (by omega)
    obtain ⟨st', hfill, hinv'⟩ := ih (t + 1) st1 hinv1 (by omega)
    exact ⟨st', by simp only [fill, hstep, hfill], hinv'⟩

/-- `Generate` on valid permutations: terminates inside all bounds, fills every
slot with one of the `N` backends, backend `i` gets `cnt N m i` slots. -/
theorem generate_spec {perms : List (List Nat)} {m : Nat}
    (hvalid : ∀ p ∈ perms, ValidPerm m p) (hN : 0 < perms.length) (hm : 0 < m) :
    ∃ lut, generate perms m = some lut ∧ lut.length = m ∧
      (∀ s, s < m → ∃ b, b < perms.length ∧ lut[s]? = some (some b)) ∧
      (∀ i, i < perms.length → lut.count (some i) = cnt perms.length m i) := by
  obtain ⟨st', hfill, hinv⟩ := fill_spec rfl hvalid hN m 0 (initState perms.length m)
    (inv_init perms perms.length m) (by omega)
  refine ⟨st'.lut, ?_, hinv.lenLut, ?_, hinv.owners⟩
  · unfold generate
    have h1 : ¬ perms.length = 0 := by omega
    have h2 : ¬ m = 0 := by omega
    simp only [h1, h2, if_false, hfill, Option.map_some]
  · intro s hs
    have hall : ∀ a ∈ st'.lut, (fun o : Option Nat => o.isSome) a = true := by
      apply List.countP_eq_length.1
      rw [hinv.filled, hinv.lenLut]
    have hs' : s < st'.lut.length := by rw [hinv.lenLut]; exact hs
    have := hall st'.lut[s] (List.getElem_mem hs')
    cases hv : st'.lut[s] with
    | none => rw [hv] at this; simp at this
    | some b =>
      have hget : st'.lut[s]? = some (some b) := by rw [List.getElem?_eq_getElem hs', hv]
      exact ⟨b, hinv.range s b hget, hget⟩

end CalicoVerif.C33
