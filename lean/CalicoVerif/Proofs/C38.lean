import CalicoVerif.Model.C38
import CalicoVerif.Proofs.C19c
open CalicoVerif.Cas CalicoVerif.C19
namespace CalicoVerif.C38

/-- A write to a handle key never touches blocks. -/
theorem applyWrite_hdl_blk {s s' : St} {c : Call} {h : Nat} (hk : c.key = Key.hdl h)
    (hw : applyWrite s c = some s') : s'.blk = s.blk := by
  unfold applyWrite at hw
  rw [hk] at hw
  split at hw
  all_goals first
    | (cases hw; done)
    | (rename_i heq _ _; cases heq; done)
    | (injection hw with hw; subst hw; rfl)
    | (split at hw <;> first
        | (cases hw; done)
        | (injection hw with hw; subst hw; rfl)
        | (split at hw <;> first
            | (cases hw; done)
            | (injection hw with hw; subst hw; rfl))
        | (dsimp only at hw; split at hw <;> first
            | (cases hw; done)
            | (injection hw with hw; subst hw; rfl)))

theorem call_hdl_blk (s : St) (c : Call) (h : Nat) (hk : c.key = Key.hdl h) : (call s c).blk = s.blk := by
  unfold call
  cases hs : step s (.call c) with
  | none => rfl
  | some s' =>
    simp only [Option.getD_some]
    simp only [step] at hs
    split at hs
    · split at hs
      · split at hs
        · exact applyWrite_hdl_blk hk hs
        · cases hs
      · injection hs with hs; subst hs; rfl
    · injection hs with hs; subst hs; rfl


theorem rmw_relh {g1 g2 : List Nat} {h : Nat} {v : Blk} {res : BRes}
    (hr : rmw g1 (.relh h) g2 v = some res) :
    res.need = none ∧ res.got = [] ∧
    ∀ h', liveCount h' res.v.slots = if h' = h then 0 else liveCount h' v.slots := by
  unfold rmw at hr
  split at hr
  · cases hr
  · rename_i b1 h1
    split at hr
    · cases hr
    · rename_i r1 h2
      split at hr
      · cases hr
      · rename_i b2 h3
        injection hr with hr; subst hr
        simp only [applyBOp] at h2
        split at h2
        · injection h2 with h2; subst h2
          refine ⟨rfl, rfl, ?_⟩
          intro h'
          have a1 := liveCount_gc_eq h' h1
          have a3 := liveCount_gc_eq h' h3
          simp only at a3 ⊢
          rw [a3, liveCount_relhAux, a1]
        · cases h2

/-- Effect of the block write of `releaseByHandle` on the model. -/
theorem call_blk_relh (s : St) (t h b r : Nat) (v : Blk) (g1 g2 : List Nat) (res : BRes)
    (hb : s.blk b = some (r, v)) (hr : rmw g1 (.relh h) g2 v = some res) :
    (∀ b', b' ≠ b → (call s (blockWriteCall t h b r g1 g2 res)).blk b' = s.blk b') ∧
    ((call s (blockWriteCall t h b r g1 g2 res)).blk b = none ∨
      ∃ r', (call s (blockWriteCall t h b r g1 g2 res)).blk b = some (r', res.v)) := by
  obtain ⟨hneed, _, _⟩ := rmw_relh hr
  unfold blockWriteCall
  cases hd : (res.v.empty && res.v.aff.isNone) with
  | true =>
    simp only [if_true]
    simp [call, step, casOutcome, St.curRev, hb, Verb.isWrite, ownOk, applyWrite, hr, hd, hneed, upd]
    intro b' hne; simp [hne]
  | false =>
    simp only [Bool.false_eq_true, if_false]
    simp [call, step, casOutcome, St.curRev, hb, Verb.isWrite, ownOk, applyWrite, hr, hneed, spend, upd]
    intro b' hne; simp [hne]

theorem decHandle_blk (t h b num : Nat) (s1 : St) (fs : List Bool) : (decHandle t h b num s1 fs).1.blk = s1.blk := by
  unfold decHandle
  cases pop fs with
  | mk f3 fs3 =>
  dsimp only
  split
  · rfl
  · split
    · rfl
    · cases pop fs3 with
      | mk f4 fs4 =>
      dsimp only
      split
      · rfl
      · exact call_hdl_blk _ _ h rfl


theorem liveAt_of_blk {s s1 : St} {b : Nat} (h : s1.blk b = s.blk b) (h' : Nat) : liveAt s1 b h' = liveAt s b h' := by
  simp only [liveAt, h]

/-- What `releaseByHandle` on one block does: other blocks untouched, no handle gains live
addresses in the block, and on success the released handle has none left there. -/
theorem relBlock_spec (imm : Bool) (t h b : Nat) (s : St) (fs : List Bool) :
    (∀ b', b' ≠ b → (relBlock imm t h b s fs).1.blk b' = s.blk b') ∧
    (∀ h', liveAt (relBlock imm t h b s fs).1 b h' ≤ liveAt s b h') ∧
    ((relBlock imm t h b s fs).2.2 = false → liveAt (relBlock imm t h b s fs).1 b h = 0) := by
  have triv : (∀ b', b' ≠ b → s.blk b' = s.blk b') ∧ (∀ h', liveAt s b h' ≤ liveAt s b h') :=
    ⟨fun _ _ => rfl, fun _ => Nat.le_refl _⟩
  unfold relBlock
  cases pop fs with
  | mk f1 fs1 =>
  dsimp only
  split
  · exact ⟨triv.1, triv.2, fun hc => by cases hc⟩
  · split
    · rename_i hb
      exact ⟨triv.1, triv.2, fun _ => by simp [liveAt, hb]⟩
    · rename_i r v hb
      split
      · rename_i hz
        exact ⟨triv.1, triv.2, fun _ => by simpa [liveAt, hb] using hz⟩
      · split
        · exact ⟨triv.1, triv.2, fun hc => by cases hc⟩
        · rename_i res hr
          cases pop fs1 with
          | mk f2 fs2 =>
          dsimp only
          split
          · exact ⟨triv.1, triv.2, fun hc => by cases hc⟩
          · obtain ⟨ho, hbb⟩ := call_blk_relh s t h b r v _ _ res hb hr
            have hrel := (rmw_relh hr).2.2
            generalize hg1 : (if imm = true then coolOrds 0 v.slots else []) = g1 at *
            generalize hg2 : (if imm = true then ordsOf h 0 v.slots else []) = g2 at *
            have hd := decHandle_blk t h b (liveCount h v.slots) (call s (blockWriteCall t h b r g1 g2 res)) fs2
            generalize call s (blockWriteCall t h b r g1 g2 res) = s1 at *
            generalize decHandle t h b (liveCount h v.slots) s1 fs2 = d at *
            have hle : ∀ h', liveAt s1 b h' ≤ liveAt s b h' ∧ (h' = h → liveAt s1 b h' = 0) := by
              intro h'
              rcases hbb with hn | ⟨r', hs⟩
              · simp [liveAt, hn]
              · simp only [liveAt, hs, hb, hrel h']
                split <;> simp_all
            have e1 : d.1.blk b = s1.blk b := by rw [hd]
            refine ⟨fun b' hne => ?_, fun h' => ?_, fun _ => ?_⟩
            · rw [hd]; exact ho b' hne
            · rw [liveAt_of_blk e1]; exact (hle h').1
            · rw [liveAt_of_blk e1]; exact (hle h).2 rfl

/-- The loop over the handle's blocks. -/
theorem relBlocks_spec (imm : Bool) (t h : Nat) : ∀ (order : List Nat) (s : St) (fs : List Bool),
    (∀ b, b ∉ order → (relBlocks imm t h order s fs).1.blk b = s.blk b) ∧
    (∀ b h', liveAt (relBlocks imm t h order s fs).1 b h' ≤ liveAt s b h') ∧
    ((relBlocks imm t h order s fs).2.2 = false → ∀ b ∈ order, liveAt (relBlocks imm t h order s fs).1 b h = 0)
  | [], s, fs => by simp [relBlocks]
  | b :: bs, s, fs => by
    have hb := relBlock_spec imm t h b s fs
    unfold relBlocks
    cases hr : relBlock imm t h b s fs with
    | mk s1 rest =>
    cases rest with
    | mk fs1 e =>
    rw [hr] at hb
    simp only at hb
    have hmono : ∀ b' h', liveAt s1 b' h' ≤ liveAt s b' h' := by
      intro b' h'
      by_cases e' : b' = b
      · subst e'; exact hb.2.1 h'
      · rw [liveAt_of_blk (hb.1 b' e')]; exact Nat.le_refl _
    cases e with
    | true =>
      simp only
      refine ⟨fun b' hn => ?_, hmono, fun hc => by cases hc⟩
      exact hb.1 b' (fun e' => hn (e' ▸ List.mem_cons_self ..))
    | false =>
      simp only
      have ih := relBlocks_spec imm t h bs s1 fs1
      refine ⟨fun b' hn => ?_, fun b' h' => Nat.le_trans (ih.2.1 b' h') (hmono b' h'), fun hok b' hm => ?_⟩
      · have h1 : b' ≠ b := fun e' => hn (e' ▸ List.mem_cons_self ..)
        have h2 : b' ∉ bs := fun e' => hn (List.mem_cons_of_mem _ e')
        rw [ih.1 b' h2]; exact hb.1 b' h1
      · by_cases hin : b' ∈ bs
        · exact ih.2.2 hok b' hin
        · have : b' = b := by
            rcases List.mem_cons.1 hm with e' | e'
            · exact e'
            · exact absurd e' hin
          subst this
          have h0 := hb.2.2 rfl
          have := ih.2.1 b' h
          omega



/-- The C19 invariants (every state the programs pass through is a state of a `Cas.run`). -/
def P (s : St) : Prop := Inv s

theorem P_call {s : St} (c : Call) (h : P s) : P (call s c) := by
  unfold call
  cases hs : step s (.call c) with
  | none => exact h
  | some s' => exact inv_step h hs

theorem P_decHandle (t h b num : Nat) (s1 : St) (fs : List Bool) (hP : P s1) : P (decHandle t h b num s1 fs).1 := by
  unfold decHandle
  cases pop fs with
  | mk f3 fs3 =>
  dsimp only
  split
  · exact hP
  · split
    · exact hP
    · cases pop fs3 with
      | mk f4 fs4 =>
      dsimp only
      split
      · exact hP
      · exact P_call _ hP

theorem P_relBlock (imm : Bool) (t h b : Nat) (s : St) (fs : List Bool) (hP : P s) : P (relBlock imm t h b s fs).1 := by
  unfold relBlock
  cases pop fs with
  | mk f1 fs1 =>
  dsimp only
  split
  · exact hP
  · split
    · exact hP
    · split
      · exact hP
      · split
        · exact hP
        · cases pop fs1 with
          | mk f2 fs2 =>
          dsimp only
          split
          · exact hP
          · apply P_decHandle
            exact P_call _ hP

theorem P_relBlocks (imm : Bool) (t h : Nat) : ∀ (order : List Nat) (s : St) (fs : List Bool), P s →
    P (relBlocks imm t h order s fs).1
  | [], s, fs, hP => by simpa [relBlocks] using hP
  | b :: bs, s, fs, hP => by
    have h1 := P_relBlock imm t h b s fs hP
    unfold relBlocks
    cases hr : relBlock imm t h b s fs with
    | mk s1 rest =>
    cases rest with
    | mk fs1 e =>
    rw [hr] at h1
    cases e with
    | true => exact h1
    | false => exact P_relBlocks imm t h bs s1 fs1 h1

theorem P_relByHandleSeq (imm : Bool) (t h : Nat) (order : List Nat) (s : St) (fs : List Bool) (hP : P s) :
    P (relByHandleSeq imm t h order s fs).1 := by
  unfold relByHandleSeq
  cases pop fs with
  | mk f0 fs0 =>
  dsimp only
  split
  · exact hP
  · split
    · exact hP
    · have := P_relBlocks imm t h order s fs0 hP
      cases hr : relBlocks imm t h order s fs0 with
      | mk s1 rest =>
      cases rest with
      | mk fs1 e =>
      rw [hr] at this
      cases e <;> exact this

/-- The visiting order covers every block the handle has a non-zero count for. -/
def Covers (s : St) (h : Nat) (order : List Nat) : Prop := ∀ b, hcount s h b ≠ 0 → b ∈ order

theorem P_ge {s : St} (hP : P s) (h : Nat) (hh : h ≠ 0) (b : Nat) : liveAt s b h ≤ hcount s h b := by
  have := hP.2 h b hh
  omega

/-- One `ReleaseByHandle(h)` that does not fail leaves no address of `h` in any block;
and it never adds live addresses for any handle. -/
theorem relByHandle_spec (imm : Bool) (t h : Nat) (hh : h ≠ 0) (order : List Nat) (s : St) (fs : List Bool)
    (hP : P s) (hc : Covers s h order) :
    (∀ b h', liveAt (relByHandleSeq imm t h order s fs).1 b h' ≤ liveAt s b h') ∧
    ((relByHandleSeq imm t h order s fs).2.2 ≠ RelRes.err →
      ∀ b, liveAt (relByHandleSeq imm t h order s fs).1 b h = 0) := by
  unfold relByHandleSeq
  cases pop fs with
  | mk f0 fs0 =>
  dsimp only
  split
  · exact ⟨fun _ _ => Nat.le_refl _, fun hne => absurd rfl hne⟩
  · split
    · rename_i hn
      refine ⟨fun _ _ => Nat.le_refl _, fun _ b => ?_⟩
      have := P_ge hP h hh b
      simp [hcount, hn] at this
      exact this
    · have sp := relBlocks_spec imm t h order s fs0
      cases hr : relBlocks imm t h order s fs0 with
      | mk s1 rest =>
      cases rest with
      | mk fs1 e =>
      rw [hr] at sp
      simp only at sp
      cases e with
      | true => exact ⟨sp.2.1, fun hne => absurd rfl hne⟩
      | false =>
        refine ⟨sp.2.1, fun _ b => ?_⟩
        by_cases hin : b ∈ order
        · exact sp.2.2 rfl b hin
        · have hz : hcount s h b = 0 := by
            rcases Nat.eq_zero_or_pos (hcount s h b) with z | z
            · exact z
            · exact absurd (hc b (by omega)) hin
          have := P_ge hP h hh b
          rw [liveAt_of_blk (sp.1 b hin)]
          omega



theorem rmw_nonrel {g1 g2 : List Nat} {op : BOp} {v : Blk} {res : BRes} (hw : WF v)
    (hop : (match op with | .release _ _ => false | .relh _ => false | _ => true) = true)
    (hr : rmw g1 op g2 v = some res) (h : Nat) (hh : h ≠ 0) :
    liveCount h v.slots ≤ liveCount h res.v.slots := by
  have hc := rmw_count_eq hw h hh hr
  have hd : res.debits = [] := by
    unfold rmw at hr
    split at hr
    · cases hr
    · split at hr
      · cases hr
      · rename_i r1 h2
        split at hr
        · cases hr
        · injection hr with hr; subst hr
          cases op <;> simp only [applyBOp] at h2 <;> simp at hop
          · split at h2 <;> first | (injection h2 with h2; subst h2; rfl) | cases h2
          · split at h2
            · injection h2 with h2; subst h2; rfl
            · cases h2
          · injection h2 with h2; subst h2; rfl
          · injection h2 with h2; subst h2; rfl
  rw [hd] at hc
  simp only [sumFor, Nat.add_zero] at hc
  omega


theorem live_mono_applyWrite {s s' : St} {c : Call} (h : Nat) (hwf : AllWF s)
    (hcur : c.verb = Verb.create → s.curRev c.key = none)
    (ha : addEv h (.call c) = true)
    (hw : applyWrite s c = some s') : ∀ b h', h' ≠ 0 → liveAt s b h' ≤ liveAt s' b h' := by
  unfold applyWrite at hw
  split at hw
  · -- block create: the block was absent
    rename_i b0 a0 n0 hk hv _
    injection hw with hw; subst hw
    have habs : s.blk b0 = none := by
      have := hcur hv
      rw [hk] at this
      simp only [St.curRev, Option.map_eq_none_iff] at this
      exact this
    intro b h' _
    simp only [liveAt, upd]
    by_cases e : b = b0
    · subst e; simp [habs]
    · simp [e]
  · rename_i b0 g1 op g2 _ _ hp
    split at hw
    · cases hw
    · rename_i rv v hb
      split at hw
      · cases hw
      · rename_i res hr
        split at hw
        · cases hw
        · injection hw with hw; subst hw
          intro b h' hh
          simp only [liveAt, upd]
          by_cases e : b = b0
          · subst e
            simp only [if_true, hb]
            refine rmw_nonrel (hwf _ _ _ hb) ?_ hr h' hh
            simp only [addEv, hp] at ha
            cases op <;> simp_all
          · simp [e]
  · rename_i b0 g1 op g2 _ _ hp
    split at hw
    · cases hw
    · rename_i rv v hb
      split at hw
      · split at hw
        · rename_i v1 hg
          split at hw
          · rename_i hc
            simp only [Bool.and_eq_true] at hc
            injection hw with hw; subst hw
            intro b h' _
            simp only [liveAt, upd]
            by_cases e : b = b0
            · subst e
              have hz : liveCount h' v.slots = 0 := by
                rw [← liveCount_gc_eq h' hg]; exact liveCount_empty hc.1 h'
              simp [hb, hz]
            · simp [e]
          · cases hw
        · cases hw
      · simp [addEv, hp] at ha
  all_goals first
    | (cases hw; done)
    | (injection hw with hw; subst hw; intro b h' _; exact Nat.le_refl _)
    | (split at hw <;> first
        | (cases hw; done)
        | (injection hw with hw; subst hw; intro b h' _; exact Nat.le_refl _)
        | (split at hw <;> first
            | (cases hw; done)
            | (injection hw with hw; subst hw; intro b h' _; exact Nat.le_refl _))
        | (dsimp only at hw; split at hw <;> first
            | (cases hw; done)
            | (injection hw with hw; subst hw; intro b h' _; exact Nat.le_refl _)))

theorem live_mono_step {s s' : St} {e : Ev} (h : Nat) (hwf : AllWF s) (ha : addEv h e = true)
    (hs : step s e = some s') : ∀ b h', h' ≠ 0 → liveAt s b h' ≤ liveAt s' b h' := by
  cases e with
  | tick => simp only [step] at hs; injection hs with hs; subst hs; intro _ _ _; exact Nat.le_refl _
  | «begin» t => simp only [step] at hs; injection hs with hs; subst hs; intro _ _ _; exact Nat.le_refl _
  | endOp t a =>
    simp only [step] at hs
    split at hs
    · injection hs with hs; subst hs; intro _ _ _; exact Nat.le_refl _
    · cases hs
  | call c =>
    simp only [step] at hs
    split at hs
    · rename_i ho
      split at hs
      · split at hs
        · refine live_mono_applyWrite h hwf ?_ ha hs
          intro hv; rw [hv] at ho; exact casOutcome_create_ok ho
        · cases hs
      · injection hs with hs; subst hs; intro _ _ _; exact Nat.le_refl _
    · injection hs with hs; subst hs; intro _ _ _; exact Nat.le_refl _



theorem rmw_got_nil {g1 g2 : List Nat} {op : BOp} {v : Blk} {res : BRes}
    (hop : (match op with | .assign _ _ _ => false | .assignIP _ _ => false | _ => true) = true)
    (h : rmw g1 op g2 v = some res) : res.got = [] := by
  unfold rmw at h
  split at h
  · cases h
  · split at h
    · cases h
    · rename_i r1 h2
      split at h
      · cases h
      · injection h with h; subst h
        cases op <;> simp only [applyBOp] at h2 <;> simp at hop
        · split at h2 <;> first | (injection h2 with h2; subst h2; rfl) | cases h2
        · split at h2 <;> first | (injection h2 with h2; subst h2; rfl) | cases h2
        · injection h2 with h2; subst h2; rfl
        · injection h2 with h2; subst h2; rfl

theorem liveCount_pos {h : Nat} {ss : List Slot} {o : Nat} (hl : ss[o]? = some (Slot.live h)) : 1 ≤ liveCount h ss := by
  unfold liveCount
  exact List.countP_pos_iff.2 ⟨_, List.mem_of_getElem? hl, by simp⟩

/-- A newly recorded address of an ADD for handle `h` is live for `h` in the stored block. -/
theorem got_new_live {s s' : St} {e : Ev} (h : Nat) (hw : AllWF s) (ha : addEv h e = true)
    (hs : step s e = some s') {t b o : Nat} (hin : (b, o) ∈ s'.got t) (hnot : (b, o) ∉ s.got t) :
    1 ≤ liveAt s' b h := by
  cases e with
  | tick => simp only [step] at hs; injection hs with hs; subst hs; exact absurd hin hnot
  | «begin» t' =>
    simp only [step] at hs; injection hs with hs; subst hs
    simp only [upd] at hin
    split at hin
    · cases hin
    · exact absurd hin hnot
  | endOp t' a =>
    simp only [step] at hs
    split at hs
    · injection hs with hs; subst hs; exact absurd hin hnot
    · cases hs
  | call c =>
    simp only [step] at hs
    split at hs
    · split at hs
      · split at hs
        case isFalse => cases hs
        unfold applyWrite at hs
        split at hs
        · injection hs with hs; subst hs; exact absurd hin hnot
        · rename_i b0 g1 op g2 hk hv hp
          split at hs
          · cases hs
          · rename_i rv v hb
            split at hs
            · cases hs
            · rename_i res hr
              split at hs
              · cases hs
              · injection hs with hs; subst hs
                simp only [upd] at hin
                split at hin
                · rename_i et
                  rcases List.mem_append.1 hin with h1 | h1
                  · subst et; exact absurd h1 hnot
                  · obtain ⟨o', ho', heq⟩ := List.mem_map.1 h1
                    injection heq with hb0 ho0
                    subst hb0; subst ho0
                    have hl := rmw_got_live_h (hw _ _ _ hb) hr ho'
                    have hop : opHandle op = h := by
                      simp only [addEv, hp] at ha
                      cases op <;> simp_all [opHandle]
                      all_goals (have hn := rmw_got_nil (by simp) hr; rw [hn] at ho'; cases ho')
                    rw [hop] at hl
                    simp only [liveAt, upd, if_true]
                    exact liveCount_pos hl
                · exact absurd hin hnot
        all_goals first
          | (cases hs; done)
          | (injection hs with hs; subst hs; exact absurd hin hnot)
          | (split at hs <;> first
              | (cases hs; done)
              | (injection hs with hs; subst hs; exact absurd hin hnot)
              | (split at hs <;> first
                  | (cases hs; done)
                  | (injection hs with hs; subst hs; exact absurd hin hnot)
                  | (split at hs <;> first
                    | (cases hs; done)
                    | (injection hs with hs; subst hs; exact absurd hin hnot)
                    | (split at hs <;> first
                      | (cases hs; done)
                      | (injection hs with hs; subst hs; exact absurd hin hnot))))
              | (dsimp only at hs; split at hs <;> first
                  | (cases hs; done)
                  | (injection hs with hs; subst hs; exact absurd hin hnot)))
      · injection hs with hs; subst hs; exact absurd hin hnot
    · injection hs with hs; subst hs; exact absurd hin hnot


theorem allWF_run' {s s' : St} {evs : List Ev} (hw : AllWF s) (h : run s evs = some s') : AllWF s' :=
  allWF_run hw h

theorem live_mono_run (h : Nat) : ∀ (evs : List Ev) (s s' : St), AllWF s → (∀ e ∈ evs, addEv h e = true) →
    run s evs = some s' → ∀ b h', h' ≠ 0 → liveAt s b h' ≤ liveAt s' b h'
  | [], s, s', _, _, hr => by
    simp only [run] at hr; injection hr with hr; subst hr; intro _ _ _; exact Nat.le_refl _
  | e :: es, s, s', hw, ha, hr => by
    simp only [run] at hr
    split at hr
    · rename_i s1 h1
      intro b h' hh
      have m1 := live_mono_step h hw (ha e (List.mem_cons_self ..)) h1 b h' hh
      have m2 := live_mono_run h es s1 s' (allWF_step hw h1) (fun e' he' => ha e' (List.mem_cons_of_mem _ he')) hr b h' hh
      omega
    · cases hr

/-- Every address a (so far successful) ADD for handle `h` has recorded is still live for `h`
at the end of the ADD's events. -/
theorem add_recorded_stays_live (h : Nat) (hh : h ≠ 0) : ∀ (evs : List Ev) (s s' : St), AllWF s →
    (∀ e ∈ evs, addEv h e = true) → run s evs = some s' →
    ∀ t b o, (b, o) ∈ s'.got t → (b, o) ∉ s.got t → 1 ≤ liveAt s' b h
  | [], s, s', _, _, hr => by
    simp only [run] at hr; injection hr with hr; subst hr
    intro t b o hin hnot; exact absurd hin hnot
  | e :: es, s, s', hw, ha, hr => by
    simp only [run] at hr
    split at hr
    · rename_i s1 h1
      intro t b o hin hnot
      have hw1 := allWF_step hw h1
      have ha' : ∀ e' ∈ es, addEv h e' = true := fun e' he' => ha e' (List.mem_cons_of_mem _ he')
      by_cases hin1 : (b, o) ∈ s1.got t
      · have l1 := got_new_live h hw (ha e (List.mem_cons_self ..)) h1 hin1 hnot
        have m := live_mono_run h es s1 s' hw1 ha' hr b h hh
        omega
      · exact add_recorded_stays_live h hh es s1 s' hw1 ha' hr t b o hin hin1
    · cases hr

end CalicoVerif.C38
