import CalicoVerif.Model.C38
import CalicoVerif.Proofs.C19c
open CalicoVerif.Cas CalicoVerif.C19
namespace CalicoVerif.C38

/-- A write to a handle key never touches blocks. -/
theorem applyWrite_hdl_blk {s s' : St} {c : Call} {h : Nat} (hk : c.key = Key.hdl h)
    (hw : applyWrite s c = some s') : s'.blk = s.blk := by
  unfold applyWrite at hw
  rw [hk] at hw
  split at hw
  all_goals first
    | (cases hw; done)
    | (rename_i heq _ _; cases heq; done)
    | (injection hw with hw; subst hw; rfl)
    | (split at hw <;> first
        | (cases hw; done)
        | (injection hw with hw; subst hw; rfl)
        | (split at hw <;> first
            | (cases hw; done)
            | (injection hw with hw; subst hw; rfl))
        | (dsimp only at hw; split at hw <;> first
            | (cases hw; done)
            | (injection hw with hw; subst hw; rfl)))

theorem call_hdl_blk (s : St) (c : Call) (h : Nat) (hk : c.key = Key.hdl h) : (call s c).blk = s.blk := by
  unfold call
  cases hs : step s (.call c) with
  | none => rfl
  | some s' =>
    simp only [Option.getD_some]
    simp only [step] at hs
    split at hs
    · split at hs
      · split at hs
        · exact applyWrite_hdl_blk hk hs
        · cases hs
      · injection hs with hs; subst hs; rfl
    · rw [hk] at hs
      simp only at hs
      injection hs with hs; subst hs; rfl
    · injection hs with hs; subst hs; rfl


theorem rmw_relh {g1 g2 : List Nat} {h : Nat} {v : Blk} {res : BRes}
    (hr : rmw g1 (.relh h) g2 v = some res) :
    res.need = none ∧ res.got = [] ∧
    ∀ h', liveCount h' res.v.slots = if h' = h then 0 else liveCount h' v.slots := by
  unfold rmw at hr
  split at hr
  · cases hr
  · rename_i b1 h1
    split at hr
    · cases hr
    · rename_i r1 h2
      split at hr
      · cases hr
      · rename_i b2 h3
        injection hr with hr; subst hr
        simp only [applyBOp] at h2
        split at h2
        · injection h2 with h2; subst h2
          refine ⟨rfl, rfl, ?_⟩
          intro h'
          have a1 := liveCount_gc_eq h' h1
          have a3 := liveCount_gc_eq h' h3
          simp only at a3 ⊢
          rw [a3, liveCount_relhAux, a1]
        · cases h2

/-- Effect of the block write of `releaseByHandle` on the model. -/
theorem call_blk_relh (s : St) (t h b r : Nat) (v : Blk) (g1 g2 : List Nat) (res : BRes)
    (hb : s.blk b = some (r, v)) (hr : rmw g1 (.relh h) g2 v = some res) :
    (∀ b', b' ≠ b → (call s (blockWriteCall t h b r g1 g2 res)).blk b' = s.blk b') ∧
    ((call s (blockWriteCall t h b r g1 g2 res)).blk b = none ∨
      ∃ r', (call s (blockWriteCall t h b r g1 g2 res)).blk b = some (r', res.v)) := by
  obtain ⟨hneed, _, _⟩ := rmw_relh hr
  unfold blockWriteCall
  cases hd : (res.v.empty && res.v.aff.isNone) with
  | true =>
    simp only [if_true]
    simp [call, step, casOutcome, St.curRev, hb, Verb.isWrite, ownOk, applyWrite, hr, hd, hneed, upd]
    intro b' hne; simp [hne]
  | false =>
    simp only [Bool.false_eq_true, if_false]
    simp [call, step, casOutcome, St.curRev, hb, Verb.isWrite, ownOk, applyWrite, hr, hneed, spend, upd]
    intro b' hne; simp [hne]

theorem decHandle_blk (t h b num : Nat) (s1 : St) (fs : List Bool) : (decHandle t h b num s1 fs).1.blk = s1.blk := by
  unfold decHandle
  cases pop fs with
  | mk f3 fs3 =>
  dsimp only
  split
  · rfl
  · split
    · rfl
    · cases pop fs3 with
      | mk f4 fs4 =>
      dsimp only
      split
      · rfl
      · exact call_hdl_blk _ _ h rfl

end CalicoVerif.C38
