import CalicoVerif.Model.C39
import CalicoVerif.Props.C36
/-!
C39 helper lemmas: the sort order, refinement of the trie loop to the plain-list loop
(`loop = loopSpec`, using the C36 theorems), and the facts about `loopSpec`.
-/
namespace CalicoVerif.C39
open CalicoVerif.C36

/-! ### sort order -/

theorem Pool.le_iff (a b : Pool) : a.le b = true ↔
    a.category < b.category ∨ (a.category = b.category ∧
      (a.created < b.created ∨ (a.created = b.created ∧ a.name ≤ b.name))) := by
  simp [Pool.le]

theorem Pool.le_trans (a b c : Pool) (h1 : a.le b = true) (h2 : b.le c = true) : a.le c = true := by
  rw [Pool.le_iff] at *; omega

theorem Pool.le_total (a b : Pool) : (a.le b || b.le a) = true := by
  rw [Bool.or_eq_true, Pool.le_iff, Pool.le_iff]; omega

theorem sortPools_sorted (ps : List Pool) : (sortPools ps).Pairwise (fun a b => a.le b = true) :=
  List.pairwise_mergeSort Pool.le_trans Pool.le_total ps

theorem mem_sortPools {p : Pool} {ps : List Pool} : p ∈ sortPools ps ↔ p ∈ ps := List.mem_mergeSort

theorem Pool.category_le_of_le {a b : Pool} (h : a.le b = true) : a.category ≤ b.category := by
  rw [Pool.le_iff] at h; omega

/-! ### refinement: tries ↦ list of inserted pools -/

/-- The tries hold exactly the CIDRs of the pools inserted so far. -/
def G (ts : Tries) (S : List Pool) : Prop :=
  ts.t4.Inv 32 ∧ ts.t6.Inv 128 ∧
  ∀ v6 c, (∃ v, (c, v) ∈ (ts.get v6).toList) ↔ ∃ q, q ∈ S ∧ q.cidr = some (v6, c)

theorem G.inv {ts : Tries} {S : List Pool} (h : G ts S) (v6 : Bool) : (ts.get v6).Inv (width v6) := by
  cases v6
  · exact h.1
  · exact h.2.1

theorem G_nil : G ⟨.nil, .nil⟩ [] := by
  refine ⟨trivial, trivial, fun v6 c => ?_⟩
  cases v6 <;> simp [Tries.get, Node.toList]

theorem trieOverlap_eq {ts : Tries} {S : List Pool} (h : G ts S) {p : Pool} {v6 : Bool} {c : Pfx}
    (hp : p.cidr = some (v6, c)) (hc : c.WF (width v6)) :
    trieOverlap (width v6) (ts.get v6) c = S.any (fun q => overlapP q p) := by
  unfold trieOverlap
  rw [overlap_eq_spec (h.inv v6) hc, Bool.eq_iff_iff]
  simp only [SMap.overlaps, List.any_eq_true]
  constructor
  · rintro ⟨⟨c', v⟩, hm, ho⟩
    obtain ⟨q, hq, hqc⟩ := (h.2.2 v6 c').1 ⟨v, hm⟩
    exact ⟨q, hq, by simp [overlapP, hqc, hp, ho]⟩
  · rintro ⟨q, hq, ho⟩
    unfold overlapP at ho
    rw [hp] at ho
    cases hqc : q.cidr with
    | none => rw [hqc] at ho; cases ho
    | some fc =>
      obtain ⟨f, c'⟩ := fc
      rw [hqc] at ho
      simp only [Bool.and_eq_true, beq_iff_eq] at ho
      obtain ⟨hf, ho⟩ := ho
      subst hf
      obtain ⟨v, hm⟩ := (h.2.2 f c').2 ⟨q, hq, hqc⟩
      exact ⟨(c', v), hm, ho⟩

theorem G_update {ts : Tries} {S : List Pool} (h : G ts S) {p : Pool} {v6 : Bool} {c : Pfx}
    (hp : p.cidr = some (v6, c)) (hc : c.WF (width v6)) :
    G (ts.set v6 ((ts.get v6).update (width v6) c p.name)) (p :: S) := by
  have hi := h.inv v6
  have hm : ∀ c', (∃ v, (c', v) ∈ ((ts.get v6).update (width v6) c p.name).toList) ↔
      (c' = c ∨ ∃ v, (c', v) ∈ (ts.get v6).toList) := by
    intro c'
    constructor
    · rintro ⟨v, hv⟩
      rcases (mem_update hc p.name hi).1 hv with ⟨e, _⟩ | ⟨_, hv'⟩
      · exact Or.inl e
      · exact Or.inr ⟨v, hv'⟩
    · rintro (e | ⟨v, hv⟩)
      · exact ⟨p.name, (mem_update hc p.name hi).2 (Or.inl ⟨e, rfl⟩)⟩
      · by_cases e : c' = c
        · exact ⟨p.name, (mem_update hc p.name hi).2 (Or.inl ⟨e, rfl⟩)⟩
        · exact ⟨v, (mem_update hc p.name hi).2 (Or.inr ⟨e, hv⟩)⟩
  have key : ∀ f c', (∃ q, q ∈ p :: S ∧ q.cidr = some (f, c')) ↔
      ((f = v6 ∧ c' = c) ∨ ∃ q, q ∈ S ∧ q.cidr = some (f, c')) := by
    intro f c'
    constructor
    · rintro ⟨q, hq, hqc⟩
      rcases List.mem_cons.1 hq with e | hq
      · subst e; rw [hp] at hqc; cases hqc; exact Or.inl ⟨rfl, rfl⟩
      · exact Or.inr ⟨q, hq, hqc⟩
    · rintro (⟨e1, e2⟩ | ⟨q, hq, hqc⟩)
      · subst e1; subst e2; exact ⟨p, List.mem_cons_self .., hp⟩
      · exact ⟨q, List.mem_cons_of_mem _ hq, hqc⟩
  cases v6 with
  | false =>
    refine ⟨update_inv hc p.name h.1, h.2.1, fun f c' => ?_⟩
    rw [key]
    cases f with
    | false =>
      show (∃ v, (c', v) ∈ ((ts.get false).update (width false) c p.name).toList) ↔ _
      rw [hm, h.2.2 false c']; simp
    | true =>
      show (∃ v, (c', v) ∈ (ts.get true).toList) ↔ _
      rw [h.2.2 true c']; simp
  | true =>
    refine ⟨h.1, update_inv hc p.name h.2.1, fun f c' => ?_⟩
    rw [key]
    cases f with
    | false =>
      show (∃ v, (c', v) ∈ (ts.get false).toList) ↔ _
      rw [h.2.2 false c']; simp
    | true =>
      show (∃ v, (c', v) ∈ ((ts.get true).update (width true) c p.name).toList) ↔ _
      rw [hm, h.2.2 true c']; simp

/-- The trie loop of `reconcileConditions` computes what the plain-list loop computes. -/
theorem loop_eq_spec : ∀ (ps : List Pool) (ts : Tries) (S : List Pool), G ts S → (∀ p ∈ ps, p.WF) →
    loop ts ps = loopSpec S ps
  | [], _, _, _, _ => rfl
  | p :: ps, ts, S, h, hw => by
    have hws : ∀ q ∈ ps, q.WF := fun q hq => hw q (List.mem_cons_of_mem _ hq)
    have hwp := hw p (List.mem_cons_self ..)
    unfold loop loopSpec
    cases hc : p.cidr with
    | none => simp only; rw [loop_eq_spec ps ts S h hws]
    | some fc =>
      obtain ⟨v6, c⟩ := fc
      have hcw : c.WF (width v6) := by unfold Pool.WF at hwp; rw [hc] at hwp; exact hwp
      simp only
      rw [trieOverlap_eq h hc hcw]
      split
      · rw [loop_eq_spec ps ts S h hws]
      · split
        · rw [loop_eq_spec ps _ (p :: S) (G_update h hc hcw) hws]
        · split
          · rw [loop_eq_spec ps ts S h hws]
          · rw [loop_eq_spec ps _ (p :: S) (G_update h hc hcw) hws]

theorem verdicts_eq_spec {pools : List Pool} (hw : ∀ p ∈ pools, p.WF) :
    verdicts pools = loopSpec [] (sortPools pools) :=
  loop_eq_spec _ _ _ G_nil (fun p hp => hw p (mem_sortPools.1 hp))

/-! ### facts about the plain-list loop -/

theorem loopSpec_map_fst : ∀ (ps : List Pool) (S : List Pool), (loopSpec S ps).map (·.1) = ps
  | [], _ => rfl
  | p :: ps, S => by
    unfold loopSpec
    split
    · simp [loopSpec_map_fst ps S]
    · split
      · simp [loopSpec_map_fst ps S]
      · split
        · simp [loopSpec_map_fst ps (p :: S)]
        · split
          · simp [loopSpec_map_fst ps S]
          · simp [loopSpec_map_fst ps (p :: S)]

/-- What each verdict says about the pool it was given to. -/
theorem loopSpec_verdict : ∀ (ps : List Pool) (S : List Pool) (pv : Pool × Verdict), pv ∈ loopSpec S ps →
    (pv.2 = .skipped ↔ pv.1.cidr = none) ∧
    (pv.2 = .disabled ↔ pv.1.cidr ≠ none ∧ pv.1.disabled = true) ∧
    (pv.2 = .terminating ↔ pv.1.cidr ≠ none ∧ pv.1.disabled = false ∧ pv.1.deleting = true) ∧
    ((pv.2 = .active ∨ pv.2 = .overlap) ↔ pv.1.cidr ≠ none ∧ pv.1.disabled = false ∧ pv.1.deleting = false)
  | [], _, _, h => by simp [loopSpec] at h
  | p :: ps, S, pv, h => by
    unfold loopSpec at h
    split at h
    · rename_i hc
      rcases List.mem_cons.1 h with e | h
      · subst e; simp [hc]
      · exact loopSpec_verdict ps S pv h
    · rename_i fc hc
      split at h
      · rename_i hd
        rcases List.mem_cons.1 h with e | h
        · subst e; simp [hc, hd]
        · exact loopSpec_verdict ps S pv h
      · rename_i hd
        split at h
        · rename_i hdel
          rcases List.mem_cons.1 h with e | h
          · subst e; simp [hc, hd, hdel]
          · exact loopSpec_verdict ps _ pv h
        · rename_i hdel
          split at h
          · rcases List.mem_cons.1 h with e | h
            · subst e; simp [hc, hd, hdel]
            · exact loopSpec_verdict ps S pv h
          · rcases List.mem_cons.1 h with e | h
            · subst e; simp [hc, hd, hdel]
            · exact loopSpec_verdict ps _ pv h

/-- A pool judged active overlaps nothing inserted before it. -/
theorem loopSpec_active_clear : ∀ (ps : List Pool) (S : List Pool) (pv : Pool × Verdict), pv ∈ loopSpec S ps →
    pv.2 = .active → ∀ q ∈ S, overlapP q pv.1 = false
  | [], _, _, h, _ => by simp [loopSpec] at h
  | p :: ps, S, pv, h, ha => by
    have sub : ∀ q ∈ S, q ∈ p :: S := fun q hq => List.mem_cons_of_mem _ hq
    unfold loopSpec at h
    split at h
    · rcases List.mem_cons.1 h with e | h
      · subst e; cases ha
      · exact loopSpec_active_clear ps S pv h ha
    · split at h
      · rcases List.mem_cons.1 h with e | h
        · subst e; cases ha
        · exact loopSpec_active_clear ps S pv h ha
      · split at h
        · rcases List.mem_cons.1 h with e | h
          · subst e; cases ha
          · exact fun q hq => loopSpec_active_clear ps _ pv h ha q (sub q hq)
        · split at h
          · rcases List.mem_cons.1 h with e | h
            · subst e; cases ha
            · exact loopSpec_active_clear ps S pv h ha
          · rename_i hno
            rcases List.mem_cons.1 h with e | h
            · subst e
              intro q hq
              cases hqo : overlapP q p with
              | false => rfl
              | true => exact absurd (List.any_eq_true.2 ⟨q, hq, hqo⟩) hno
            · exact fun q hq => loopSpec_active_clear ps _ pv h ha q (sub q hq)

/-- Anything inserted (active or terminating) is disjoint from every LATER active pool. -/
theorem loopSpec_pairwise : ∀ (ps : List Pool) (S : List Pool),
    (loopSpec S ps).Pairwise (fun a b => (a.2 = .active ∨ a.2 = .terminating) → b.2 = .active → overlapP a.1 b.1 = false)
  | [], _ => by simp [loopSpec]
  | p :: ps, S => by
    unfold loopSpec
    split
    · refine List.pairwise_cons.2 ⟨fun b _ h => ?_, loopSpec_pairwise ps S⟩
      rcases h with h | h <;> cases h
    · split
      · refine List.pairwise_cons.2 ⟨fun b _ h => ?_, loopSpec_pairwise ps S⟩
        rcases h with h | h <;> cases h
      · split
        · refine List.pairwise_cons.2 ⟨fun b hb _ hba => ?_, loopSpec_pairwise ps _⟩
          exact loopSpec_active_clear ps _ b hb hba p (List.mem_cons_self ..)
        · split
          · refine List.pairwise_cons.2 ⟨fun b _ h => ?_, loopSpec_pairwise ps S⟩
            rcases h with h | h <;> cases h
          · refine List.pairwise_cons.2 ⟨fun b hb _ hba => ?_, loopSpec_pairwise ps _⟩
            exact loopSpec_active_clear ps _ b hb hba p (List.mem_cons_self ..)

/-- A pool judged overlapping overlaps something inserted earlier — which sorts before it. -/
theorem loopSpec_overlap_witness : ∀ (ps : List Pool) (S : List Pool),
    ps.Pairwise (fun a b => a.le b = true) → (∀ s ∈ S, ∀ x ∈ ps, s.le x = true) →
    ∀ pv ∈ loopSpec S ps, pv.2 = .overlap →
      ∃ q, overlapP q pv.1 = true ∧ q.le pv.1 = true ∧
        (q ∈ S ∨ (q, Verdict.active) ∈ loopSpec S ps ∨ (q, Verdict.terminating) ∈ loopSpec S ps)
  | [], _, _, _, _, h, _ => by simp [loopSpec] at h
  | p :: ps, S, hs, hS, pv, h, ho => by
    have hs' := (List.pairwise_cons.1 hs)
    have hS1 : ∀ s ∈ S, ∀ x ∈ ps, s.le x = true := fun s hs x hx => hS s hs x (List.mem_cons_of_mem _ hx)
    have hS2 : ∀ s ∈ p :: S, ∀ x ∈ ps, s.le x = true := by
      intro s hs x hx
      rcases List.mem_cons.1 hs with e | hs
      · subst e; exact hs'.1 x hx
      · exact hS1 s hs x hx
    -- lift a witness found in the tail
    have lift0 : ∀ {out : List (Pool × Verdict)} {v : Verdict}, pv ∈ out →
        (∃ q, overlapP q pv.1 = true ∧ q.le pv.1 = true ∧
          (q ∈ S ∨ (q, Verdict.active) ∈ out ∨ (q, Verdict.terminating) ∈ out)) →
        ∃ q, overlapP q pv.1 = true ∧ q.le pv.1 = true ∧
          (q ∈ S ∨ (q, Verdict.active) ∈ (p, v) :: out ∨ (q, Verdict.terminating) ∈ (p, v) :: out) := by
      rintro out v _ ⟨q, h1, h2, h3⟩
      refine ⟨q, h1, h2, ?_⟩
      rcases h3 with h3 | h3 | h3
      · exact Or.inl h3
      · exact Or.inr (Or.inl (List.mem_cons_of_mem _ h3))
      · exact Or.inr (Or.inr (List.mem_cons_of_mem _ h3))
    have lift1 : ∀ {out : List (Pool × Verdict)} {v : Verdict}, (v = .active ∨ v = .terminating) → pv ∈ out →
        (∃ q, overlapP q pv.1 = true ∧ q.le pv.1 = true ∧
          (q ∈ p :: S ∨ (q, Verdict.active) ∈ out ∨ (q, Verdict.terminating) ∈ out)) →
        ∃ q, overlapP q pv.1 = true ∧ q.le pv.1 = true ∧
          (q ∈ S ∨ (q, Verdict.active) ∈ (p, v) :: out ∨ (q, Verdict.terminating) ∈ (p, v) :: out) := by
      rintro out v hv _ ⟨q, h1, h2, h3⟩
      refine ⟨q, h1, h2, ?_⟩
      rcases h3 with h3 | h3 | h3
      · rcases List.mem_cons.1 h3 with e | h3
        · subst e
          rcases hv with hv | hv
          · subst hv; exact Or.inr (Or.inl (List.mem_cons_self ..))
          · subst hv; exact Or.inr (Or.inr (List.mem_cons_self ..))
        · exact Or.inl h3
      · exact Or.inr (Or.inl (List.mem_cons_of_mem _ h3))
      · exact Or.inr (Or.inr (List.mem_cons_of_mem _ h3))
    unfold loopSpec at h ⊢
    split at h
    · rcases List.mem_cons.1 h with e | h
      · subst e; cases ho
      · exact lift0 h (loopSpec_overlap_witness ps S hs'.2 hS1 pv h ho)
    · rename_i fc hc
      split at h
      · rename_i hd
        simp only [if_pos hd]
        rcases List.mem_cons.1 h with e | h
        · subst e; cases ho
        · exact lift0 h (loopSpec_overlap_witness ps S hs'.2 hS1 pv h ho)
      · rename_i hd
        simp only [if_neg hd]
        split at h
        · rename_i hdel
          simp only [if_pos hdel]
          rcases List.mem_cons.1 h with e | h
          · subst e; cases ho
          · exact lift1 (Or.inr rfl) h (loopSpec_overlap_witness ps _ hs'.2 hS2 pv h ho)
        · rename_i hdel
          simp only [if_neg hdel]
          split at h
          · rename_i hany
            simp only [if_pos hany]
            rcases List.mem_cons.1 h with e | h
            · subst e
              obtain ⟨q, hq, hqo⟩ := List.any_eq_true.1 hany
              exact ⟨q, hqo, hS q hq p (List.mem_cons_self ..), Or.inl hq⟩
            · exact lift0 h (loopSpec_overlap_witness ps S hs'.2 hS1 pv h ho)
          · rename_i hany
            simp only [if_neg hany]
            rcases List.mem_cons.1 h with e | h
            · subst e; cases ho
            · exact lift1 (Or.inl rfl) h (loopSpec_overlap_witness ps _ hs'.2 hS2 pv h ho)

end CalicoVerif.C39
