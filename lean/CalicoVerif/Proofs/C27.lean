import CalicoVerif.Model.C27
/-! C27 — helper lemmas about `step`, `resolve`. -/
namespace CalicoVerif.C27

/-- A key is *admissible* for a known parameter in a source unless it is a datastore value of a
local-only parameter (`metadata.Local && !source.Local()`). -/
def admissible (m : Meta) (s : Src) : Bool := !(m.local_ && !s.isLocal)

/-- The key `(s, k, v)` makes `resolve` return early with `Err` set. -/
def fatalKey (c : Ctx) (t : Src × KV) : Prop :=
  ∃ m, c.known (c.lower t.2.1) = some m ∧ admissible m t.1 = true ∧ valOf c m t.2.2 = none

theorem step_none_iff (c : Ctx) (s : St) (t : Src × KV) :
    step c s t = none ↔ fatalKey c t := by
  simp only [step, fatalKey, admissible]
  cases hk : c.known (c.lower t.2.1) with
  | none => simp only []; split <;> simp
  | some m =>
    simp only [Option.some.injEq, exists_eq_left']
    by_cases hl : (m.local_ && !t.1.isLocal) = true
    · simp [hl]
    · simp only [hl, Bool.false_eq_true, if_false]
      cases hv : valOf c m t.2.2 with
      | none => simp
      | some v => simp only []; split <;> simp

theorem foldlM_step_none_iff (c : Ctx) (ts : List (Src × KV)) (s : St) :
    ts.foldlM (step c) s = none ↔ ∃ t ∈ ts, fatalKey c t := by
  induction ts generalizing s with
  | nil => simp
  | cons t ts ih =>
    simp only [List.foldlM_cons, List.mem_cons, exists_eq_or_imp]
    cases h : step c s t with
    | none =>
      have := (step_none_iff c s t).1 h
      simp [this]
    | some s' =>
      have hnf : ¬ fatalKey c t := fun hf => by
        have := (step_none_iff c s t).2 hf; rw [h] at this; cases this
      simp only [hnf, false_or]
      exact ih s'

theorem mem_flat {srcs : Sources} {t : Src × KV} : t ∈ flat srcs ↔ t.2 ∈ srcs t.1 := by
  unfold flat descending
  obtain ⟨s, kv⟩ := t
  cases s <;> simp

end CalicoVerif.C27

namespace CalicoVerif.C27

/-! ### Specification vocabulary -/

/-- `kv` is a key for the parameter with lower-case name `l`. -/
def keyFor (c : Ctx) (l : String) (kv : KV) : Bool := c.lower kv.1 == l

/-- No two keys of one source have the same lower-case name. -/
def DistinctLower (c : Ctx) (srcs : Sources) : Prop :=
  ∀ s, (srcs s).Pairwise (fun a b => c.lower a.1 ≠ c.lower b.1)

/-- The key of source `s` that can decide parameter `l` (none if the source has no key for it, or
the parameter is local-only and the source is a datastore source). -/
def decidingIn (c : Ctx) (srcs : Sources) (l : String) (m : Meta) (s : Src) : Option (Src × KV) :=
  if admissible m s then ((srcs s).find? (keyFor c l)).map (fun kv => (s, kv)) else none

/-- The deciding key of parameter `l`: the one in the highest-priority source that sets it. -/
def deciding (c : Ctx) (srcs : Sources) (l : String) (m : Meta) : Option (Src × KV) :=
  descending.findSome? (decidingIn c srcs l m)

/-! ### Projection of the loop state on one parameter -/

def proj (l : String) (st : St) : Option Val × Nat := (st.fields.lookup l, st.cur l)

/-- `step` as seen by parameter `l` (a fatal value is never seen: `step` fails first). -/
def pstep (c : Ctx) (l : String) (m : Meta) (p : Option Val × Nat) (t : Src × KV) : Option Val × Nat :=
  if keyFor c l t.2 && admissible m t.1 then
    if t.1.prio < p.2 then p else (some ((valOf c m t.2.2).getD .dflt), t.1.prio)
  else p

theorem lookup_cons_ne {β : Type} {l l' : String} (h : l' ≠ l) (x : β) (xs : List (String × β)) :
    List.lookup l ((l', x) :: xs) = List.lookup l xs := by
  have : (l == l') = false := by simpa using fun e => h e.symm
  simp [List.lookup, this]

theorem lookup_cons_self {β : Type} (l : String) (x : β) (xs : List (String × β)) :
    List.lookup l ((l, x) :: xs) = some x := by
  simp [List.lookup]

theorem step_proj (c : Ctx) (l : String) (m : Meta) (hk : c.known l = some m)
    (st st' : St) (t : Src × KV) (h : step c st t = some st') :
    proj l st' = pstep c l m (proj l st) t := by
  simp only [step] at h
  by_cases hl : c.lower t.2.1 = l
  · -- a key for `l`
    subst hl
    simp only [hk] at h
    simp only [pstep, keyFor, beq_self_eq_true, Bool.true_and, admissible]
    by_cases ha : (m.local_ && !t.1.isLocal) = true
    · simp only [ha, if_true, Option.some.injEq] at h
      subst h
      simp [ha]
    · simp only [ha, Bool.false_eq_true, if_false] at h
      have ha' : (!(m.local_ && !t.1.isLocal)) = true := by
        cases hb : (m.local_ && !t.1.isLocal) <;> simp_all
      simp only [ha', if_true]
      cases hv : valOf c m t.2.2 with
      | none => simp [hv] at h
      | some v =>
        simp only [hv] at h
        by_cases hp : t.1.prio < st.cur (c.lower t.2.1)
        · simp only [hp, if_true, Option.some.injEq] at h
          subst h
          simp [proj, hp]
        · simp only [hp, if_false, Option.some.injEq] at h
          subst h
          simp only [St.cur] at hp
          simp [proj, St.cur, hp]
  · -- a key for another name: neither `fields[l]` nor `nameToSource[l]` is touched
    have hk' : keyFor c l t.2 = false := by simpa [keyFor] using hl
    simp only [pstep, hk', Bool.false_and, Bool.false_eq_true, if_false]
    cases hkn : c.known (c.lower t.2.1) with
    | none =>
      simp only [hkn] at h
      split at h
      · simp only [Option.some.injEq] at h; subst h
        simp [proj, St.cur, lookup_cons_ne hl]
      · simp only [Option.some.injEq] at h; subst h; rfl
    | some m' =>
      simp only [hkn] at h
      split at h
      · simp only [Option.some.injEq] at h; subst h; rfl
      · cases hv : valOf c m' t.2.2 with
        | none => simp [hv] at h
        | some v =>
          simp only [hv] at h
          split at h
          · simp only [Option.some.injEq] at h; subst h; rfl
          · simp only [Option.some.injEq] at h; subst h
            simp [proj, St.cur, lookup_cons_ne hl]

theorem foldlM_step_proj (c : Ctx) (l : String) (m : Meta) (hk : c.known l = some m)
    (ts : List (Src × KV)) (st st' : St) (h : ts.foldlM (step c) st = some st') :
    proj l st' = ts.foldl (pstep c l m) (proj l st) := by
  induction ts generalizing st with
  | nil => simp only [List.foldlM_nil, pure, Option.some.injEq] at h; subst h; rfl
  | cons t ts ih =>
    simp only [List.foldlM_cons] at h
    cases h1 : step c st t with
    | none => rw [h1] at h; cases h
    | some st1 =>
      rw [h1] at h
      have h' : ts.foldlM (step c) st1 = some st' := h
      simp only [List.foldl_cons]
      rw [ih st1 h', step_proj c l m hk st st1 t h1]

/-! ### Folding `pstep` over one source, then over the sources in descending order -/

def srcFold (c : Ctx) (l : String) (m : Meta) (srcs : Sources) (p : Option Val × Nat) (s : Src) :
    Option Val × Nat :=
  (srcs s).foldl (fun p kv => pstep c l m p (s, kv)) p

theorem foldl_flat (c : Ctx) (l : String) (m : Meta) (srcs : Sources) (ss : List Src)
    (p : Option Val × Nat) :
    (ss.flatMap (fun s => (srcs s).map (fun kv => (s, kv)))).foldl (pstep c l m) p
      = ss.foldl (srcFold c l m srcs) p := by
  induction ss generalizing p with
  | nil => rfl
  | cons s ss ih =>
    simp only [List.flatMap_cons, List.foldl_append, List.foldl_cons, List.foldl_map]
    exact ih _

theorem keysFold_no_match (c : Ctx) (l : String) (m : Meta) (s : Src) (xs : List KV)
    (h : ∀ kv ∈ xs, keyFor c l kv = false) (p : Option Val × Nat) :
    xs.foldl (fun p kv => pstep c l m p (s, kv)) p = p := by
  induction xs generalizing p with
  | nil => rfl
  | cons x xs ih =>
    simp only [List.foldl_cons]
    have hx : keyFor c l x = false := h x (by simp)
    have : pstep c l m p (s, x) = p := by simp [pstep, hx]
    rw [this]
    exact ih (fun kv hkv => h kv (by simp [hkv])) p

theorem keysFold_not_admissible (c : Ctx) (l : String) (m : Meta) (s : Src) (xs : List KV)
    (h : admissible m s = false) (p : Option Val × Nat) :
    xs.foldl (fun p kv => pstep c l m p (s, kv)) p = p := by
  induction xs generalizing p with
  | nil => rfl
  | cons x xs ih =>
    simp only [List.foldl_cons]
    have : pstep c l m p (s, x) = p := by simp [pstep, h]
    rw [this]; exact ih p

theorem keysFold_distinct (c : Ctx) (l : String) (m : Meta) (s : Src) (xs : List KV)
    (hd : xs.Pairwise (fun a b => c.lower a.1 ≠ c.lower b.1)) (p : Option Val × Nat) :
    xs.foldl (fun p kv => pstep c l m p (s, kv)) p =
      match xs.find? (keyFor c l) with
      | none => p
      | some kv => pstep c l m p (s, kv) := by
  induction xs generalizing p with
  | nil => rfl
  | cons x xs ih =>
    rw [List.pairwise_cons] at hd
    simp only [List.foldl_cons]
    by_cases hx : keyFor c l x = true
    · simp only [List.find?_cons, hx]
      apply keysFold_no_match
      intro kv hkv
      have hne := hd.1 kv hkv
      have hxl : c.lower x.1 = l := by simpa [keyFor] using hx
      simp only [keyFor, beq_eq_false_iff_ne, ne_eq]
      intro e; exact hne (hxl.trans e.symm)
    · have hx' : keyFor c l x = false := by simpa using hx
      have : pstep c l m p (s, x) = p := by simp [pstep, hx']
      rw [this, ih hd.2 p]
      simp [hx']

theorem srcFold_eq (c : Ctx) (l : String) (m : Meta) (srcs : Sources) (hd : DistinctLower c srcs)
    (p : Option Val × Nat) (s : Src) :
    srcFold c l m srcs p s =
      match decidingIn c srcs l m s with
      | none => p
      | some t => pstep c l m p t := by
  unfold srcFold decidingIn
  by_cases ha : admissible m s = true
  · simp only [ha, if_true]
    rw [keysFold_distinct c l m s (srcs s) (hd s) p]
    cases (srcs s).find? (keyFor c l) <;> rfl
  · have ha' : admissible m s = false := by simpa using ha
    simp only [ha', Bool.false_eq_true, if_false]
    exact keysFold_not_admissible c l m s (srcs s) ha' p

theorem decidingIn_some {c : Ctx} {srcs : Sources} {l : String} {m : Meta} {s : Src} {t : Src × KV}
    (h : decidingIn c srcs l m s = some t) :
    t.1 = s ∧ t.2 ∈ srcs s ∧ keyFor c l t.2 = true ∧ admissible m s = true := by
  unfold decidingIn at h
  by_cases ha : admissible m s = true
  · simp only [ha, if_true, Option.map_eq_some_iff] at h
    obtain ⟨kv, hf, rfl⟩ := h
    exact ⟨rfl, List.mem_of_find?_eq_some hf, List.find?_some hf, ha⟩
  · have ha' : admissible m s = false := by simpa using ha
    simp [ha'] at h

/-- Once a higher source has set the parameter, lower sources change nothing. -/
theorem sourcesFold_skip (c : Ctx) (l : String) (m : Meta) (srcs : Sources) (hd : DistinctLower c srcs)
    (ss : List Src) (p : Option Val × Nat) (h : ∀ s ∈ ss, s.prio < p.2) :
    ss.foldl (srcFold c l m srcs) p = p := by
  induction ss with
  | nil => rfl
  | cons s ss ih =>
    simp only [List.foldl_cons]
    have hs : srcFold c l m srcs p s = p := by
      rw [srcFold_eq c l m srcs hd]
      cases hdi : decidingIn c srcs l m s with
      | none => rfl
      | some t =>
        have h1 := (decidingIn_some hdi).1
        have : t.1.prio < p.2 := by rw [h1]; exact h s (by simp)
        simp only [pstep]
        split
        · simp
        · rfl
    rw [hs]
    exact ih (fun s' hs' => h s' (by simp [hs']))

theorem sourcesFold_eq (c : Ctx) (l : String) (m : Meta) (srcs : Sources) (hd : DistinctLower c srcs)
    (ss : List Src) (hs : ss.Pairwise (fun a b => b.prio < a.prio)) :
    ss.foldl (srcFold c l m srcs) (none, 0) =
      match ss.findSome? (decidingIn c srcs l m) with
      | none => (none, 0)
      | some t => (some ((valOf c m t.2.2).getD .dflt), t.1.prio) := by
  induction ss with
  | nil => rfl
  | cons s ss ih =>
    rw [List.pairwise_cons] at hs
    simp only [List.foldl_cons, List.findSome?_cons]
    rw [srcFold_eq c l m srcs hd]
    cases hdi : decidingIn c srcs l m s with
    | none => simp only []; exact ih hs.2
    | some t =>
      obtain ⟨h1, _, h3, h4⟩ := decidingIn_some hdi
      have hp : pstep c l m (none, 0) t = (some ((valOf c m t.2.2).getD .dflt), t.1.prio) := by
        simp [pstep, h3, h1, h4]
      simp only [hp]
      apply sourcesFold_skip c l m srcs hd
      intro s' hs'
      simp only [h1]
      exact hs.1 s' hs'

theorem descending_sorted : descending.Pairwise (fun a b => b.prio < a.prio) := by
  decide

/-- The loop state, seen by one known parameter, after a successful `resolve`. -/
theorem resolve_proj (c : Ctx) (srcs : Sources) (hd : DistinctLower c srcs) (st : St)
    (h : resolve c srcs = some st) (l : String) (m : Meta) (hk : c.known l = some m) :
    proj l st =
      match deciding c srcs l m with
      | none => (none, 0)
      | some t => (some ((valOf c m t.2.2).getD .dflt), t.1.prio) := by
  unfold resolve at h
  rw [foldlM_step_proj c l m hk _ _ _ h]
  have : proj l St.empty = (none, 0) := rfl
  rw [this]
  unfold flat
  rw [foldl_flat]
  exact sourcesFold_eq c l m srcs hd descending descending_sorted

end CalicoVerif.C27

namespace CalicoVerif.C27

/-! ### `find?` on lists with distinct lower-case keys; permutations; pruning -/

theorem find?_keyFor_iff (c : Ctx) (l : String) (xs : List KV)
    (hd : xs.Pairwise (fun a b => c.lower a.1 ≠ c.lower b.1)) (a : KV) :
    xs.find? (keyFor c l) = some a ↔ a ∈ xs ∧ keyFor c l a = true := by
  constructor
  · intro h; exact ⟨List.mem_of_find?_eq_some h, List.find?_some h⟩
  · rintro ⟨hm, hp⟩
    induction xs with
    | nil => cases hm
    | cons x xs ih =>
      rw [List.pairwise_cons] at hd
      by_cases hx : keyFor c l x = true
      · simp only [List.find?_cons, hx]
        rcases List.mem_cons.1 hm with rfl | hm'
        · rfl
        · exfalso
          have h1 : c.lower x.1 = l := by simpa [keyFor] using hx
          have h2 : c.lower a.1 = l := by simpa [keyFor] using hp
          exact hd.1 a hm' (h1.trans h2.symm)
      · have hx' : keyFor c l x = false := by simpa using hx
        simp only [List.find?_cons, hx']
        rcases List.mem_cons.1 hm with rfl | hm'
        · rw [hp] at hx'; cases hx'
        · exact ih hd.2 hm'

theorem pairwise_perm {c : Ctx} {xs ys : List KV} (hp : xs.Perm ys)
    (hd : xs.Pairwise (fun a b => c.lower a.1 ≠ c.lower b.1)) :
    ys.Pairwise (fun a b => c.lower a.1 ≠ c.lower b.1) :=
  (hp.pairwise_iff (fun h => Ne.symm h)).1 hd

theorem find?_keyFor_perm (c : Ctx) (l : String) {xs ys : List KV} (hp : xs.Perm ys)
    (hd : xs.Pairwise (fun a b => c.lower a.1 ≠ c.lower b.1)) :
    xs.find? (keyFor c l) = ys.find? (keyFor c l) := by
  have hd' := pairwise_perm hp hd
  cases hx : xs.find? (keyFor c l) with
  | none =>
    symm
    rw [List.find?_eq_none] at hx ⊢
    intro a ha; exact hx a (hp.mem_iff.2 ha)
  | some a =>
    symm
    have := (find?_keyFor_iff c l xs hd a).1 hx
    exact (find?_keyFor_iff c l ys hd' a).2 ⟨hp.mem_iff.1 this.1, this.2⟩

theorem mem_descending (s : Src) : s ∈ descending := by cases s <;> simp [descending]

theorem findSome?_sorted {β : Type} (f : Src → Option β) (ss : List Src)
    (hs : ss.Pairwise (fun a b => b.prio < a.prio)) (t : β) :
    ss.findSome? f = some t ↔
      ∃ s ∈ ss, f s = some t ∧ ∀ s' ∈ ss, s.prio < s'.prio → f s' = none := by
  induction ss with
  | nil => simp
  | cons a ss ih =>
    rw [List.pairwise_cons] at hs
    simp only [List.findSome?_cons]
    cases hfa : f a with
    | some t' =>
      simp only [Option.some.injEq]
      constructor
      · rintro rfl
        refine ⟨a, by simp, hfa, ?_⟩
        intro s' hs' hlt
        rcases List.mem_cons.1 hs' with rfl | hm
        · exact absurd hlt (Nat.lt_irrefl _)
        · exact absurd (hs.1 s' hm) (by omega)
      · rintro ⟨s, hs', hfs, hall⟩
        rcases List.mem_cons.1 hs' with rfl | hm
        · rw [hfa] at hfs; exact Option.some.inj hfs
        · have := hall a (by simp) (hs.1 s hm)
          rw [hfa] at this; cases this
    | none =>
      simp only []
      rw [ih hs.2]
      constructor
      · rintro ⟨s, hm, hfs, hall⟩
        refine ⟨s, by simp [hm], hfs, ?_⟩
        intro s' hs' hlt
        rcases List.mem_cons.1 hs' with rfl | hm'
        · exact hfa
        · exact hall s' hm' hlt
      · rintro ⟨s, hs', hfs, hall⟩
        rcases List.mem_cons.1 hs' with rfl | hm
        · rw [hfa] at hfs; cases hfs
        · exact ⟨s, hm, hfs, fun s' hm' hlt => hall s' (by simp [hm']) hlt⟩

theorem deciding_eq_some_iff (c : Ctx) (srcs : Sources) (l : String) (m : Meta) (t : Src × KV) :
    deciding c srcs l m = some t ↔
      decidingIn c srcs l m t.1 = some t ∧ ∀ s, t.1.prio < s.prio → decidingIn c srcs l m s = none := by
  unfold deciding
  rw [findSome?_sorted _ _ descending_sorted]
  constructor
  · rintro ⟨s, _, hfs, hall⟩
    have := (decidingIn_some hfs).1
    subst this
    exact ⟨hfs, fun s' h => hall s' (mem_descending s') h⟩
  · rintro ⟨h1, h2⟩
    exact ⟨t.1, mem_descending _, h1, fun s' _ h => h2 s' h⟩

theorem deciding_eq_none_iff (c : Ctx) (srcs : Sources) (l : String) (m : Meta) :
    deciding c srcs l m = none ↔ ∀ s, decidingIn c srcs l m s = none := by
  unfold deciding
  rw [List.findSome?_eq_none_iff]
  exact ⟨fun h s => h s (mem_descending s), fun h s _ => h s⟩

/-- The deciding key of a successful `resolve` is never a fatal one. -/
theorem deciding_not_fatal (c : Ctx) (srcs : Sources) (h : resolve c srcs ≠ none)
    (l : String) (m : Meta) (hk : c.known l = some m) (t : Src × KV)
    (ht : deciding c srcs l m = some t) : ∃ v, valOf c m t.2.2 = some v := by
  have hin := ((deciding_eq_some_iff c srcs l m t).1 ht).1
  obtain ⟨_, h2, h3, h4⟩ := decidingIn_some hin
  cases hv : valOf c m t.2.2 with
  | some v => exact ⟨v, rfl⟩
  | none =>
    exfalso
    apply h
    unfold resolve
    rw [foldlM_step_none_iff]
    refine ⟨t, mem_flat.2 h2, m, ?_, ?_, hv⟩
    · have : c.lower t.2.1 = l := by simpa [keyFor] using h3
      rw [this]; exact hk
    · exact h4

/-! ### Results compared on what the property observes -/

/-- Same `Err` outcome and, if resolved, the same value in every known parameter's field. -/
def SameResult (c : Ctx) (r r' : Option St) : Prop :=
  match r, r' with
  | none, none => True
  | some st, some st' => ∀ l m, c.known l = some m → st.fields.lookup l = st'.fields.lookup l
  | _, _ => False

/-- A key is *shadowed*: it belongs to a known parameter whose deciding key sits in a
higher-priority source (and it is not a datastore value of a local-only parameter). -/
def shadowed (c : Ctx) (srcs : Sources) (s : Src) (kv : KV) : Bool :=
  match c.known (c.lower kv.1) with
  | none => false
  | some m =>
    match deciding c srcs (c.lower kv.1) m with
    | none => false
    | some t => decide (s.prio < t.1.prio) && admissible m s

def pruneShadowed (c : Ctx) (srcs : Sources) : Sources :=
  fun s => (srcs s).filter (fun kv => !shadowed c srcs s kv)

/-- A datastore value of a local-only parameter. -/
def nonLocalOfLocal (c : Ctx) (s : Src) (kv : KV) : Bool :=
  match c.known (c.lower kv.1) with
  | none => false
  | some m => !admissible m s

def dropNonLocal (c : Ctx) (srcs : Sources) : Sources :=
  fun s => (srcs s).filter (fun kv => !nonLocalOfLocal c s kv)

theorem distinctLower_filter {c : Ctx} {srcs : Sources} (hd : DistinctLower c srcs)
    (q : Src → KV → Bool) : DistinctLower c (fun s => (srcs s).filter (q s)) :=
  fun s => (hd s).filter _

theorem decidingIn_filter_none {c : Ctx} {srcs : Sources} {l : String} {m : Meta} {s : Src}
    (q : Src → KV → Bool) (h : decidingIn c srcs l m s = none) :
    decidingIn c (fun s => (srcs s).filter (q s)) l m s = none := by
  unfold decidingIn at h ⊢
  by_cases ha : admissible m s = true
  · simp only [ha, if_true, Option.map_eq_none_iff, List.find?_eq_none] at h ⊢
    intro x hx; exact h x (List.mem_filter.1 hx).1
  · have ha' : admissible m s = false := by simpa using ha
    simp [ha']

theorem deciding_prune (c : Ctx) (srcs : Sources) (hd : DistinctLower c srcs) (l : String) (m : Meta)
    (hk : c.known l = some m) :
    deciding c (pruneShadowed c srcs) l m = deciding c srcs l m := by
  cases hdec : deciding c srcs l m with
  | none =>
    rw [deciding_eq_none_iff] at hdec ⊢
    intro s; exact decidingIn_filter_none _ (hdec s)
  | some t =>
    rw [deciding_eq_some_iff] at hdec ⊢
    refine ⟨?_, fun s hs => decidingIn_filter_none _ (hdec.2 s hs)⟩
    obtain ⟨h1, h2, h3, h4⟩ := decidingIn_some hdec.1
    have hdec' : deciding c srcs l m = some t := (deciding_eq_some_iff c srcs l m t).2 hdec
    unfold decidingIn pruneShadowed
    simp only [h4, if_true]
    have hl : c.lower t.2.1 = l := by simpa [keyFor] using h3
    have hns : shadowed c srcs t.1 t.2 = false := by
      simp [shadowed, hl, hk, hdec']
    have hmem : t.2 ∈ (srcs t.1).filter (fun kv => !shadowed c srcs t.1 kv) := by
      rw [List.mem_filter]; exact ⟨h2, by simp [hns]⟩
    rw [(find?_keyFor_iff c l _ ((hd t.1).filter _) t.2).2 ⟨hmem, h3⟩]
    rfl

theorem foldlM_filter_ident (c : Ctx) (q : Src × KV → Bool)
    (hq : ∀ st t, q t = false → step c st t = some st) (ts : List (Src × KV)) (st : St) :
    (ts.filter q).foldlM (step c) st = ts.foldlM (step c) st := by
  induction ts generalizing st with
  | nil => rfl
  | cons t ts ih =>
    by_cases h : q t = true
    · simp only [List.filter_cons, h, if_true, List.foldlM_cons]
      cases step c st t with
      | none => rfl
      | some st1 => exact ih st1
    · have h' : q t = false := by simpa using h
      simp only [List.filter_cons, h', Bool.false_eq_true, if_false, List.foldlM_cons, hq st t h']
      exact ih st

theorem flat_filter (srcs : Sources) (q : Src → KV → Bool) :
    flat (fun s => (srcs s).filter (q s)) = (flat srcs).filter (fun t => q t.1 t.2) := by
  simp [flat, descending, List.filter_append, List.filter_map, Function.comp_def]

theorem step_nonLocal (c : Ctx) (st : St) (t : Src × KV) (h : (!nonLocalOfLocal c t.1 t.2) = false) :
    step c st t = some st := by
  simp only [nonLocalOfLocal, admissible] at h
  simp only [step]
  cases hk : c.known (c.lower t.2.1) with
  | none => simp [hk] at h
  | some m =>
    simp only [hk] at h
    have : (m.local_ && !t.1.isLocal) = true := by
      cases hb : (m.local_ && !t.1.isLocal) <;> simp_all
    simp [this]

end CalicoVerif.C27
