import CalicoVerif.Model.C27
/-! C27 — specification vocabulary and helper lemmas about `step`, `resolve`
(model of the repaired code: shadowed keys are skipped before parsing; keys are visited sorted). -/
namespace CalicoVerif.C27

/-- A key is *admissible* for a known parameter in a source unless it is a datastore value of a
local-only parameter (`metadata.Local && !source.Local()`). -/
def admissible (m : Meta) (s : Src) : Bool := !(m.local_ && !s.isLocal)

/-- `kv` is a key for the parameter with lower-case name `l`. -/
def keyFor (c : Ctx) (l : String) (kv : KV) : Bool := c.lower kv.1 == l

/-- The order used to sort raw key names is a total order (Go's string `<=` is). -/
structure OrderOK (c : Ctx) : Prop where
  total : ∀ a b, (c.keyLe a b || c.keyLe b a) = true
  trans : ∀ a b d, c.keyLe a b = true → c.keyLe b d = true → c.keyLe a d = true
  antisymm : ∀ a b, c.keyLe a b = true → c.keyLe b a = true → a = b

/-- Each source is a Go map: every exact key occurs once. -/
def KeysNodup (srcs : Sources) : Prop := ∀ s, (srcs s).Pairwise (fun a b => a.1 ≠ b.1)

/-! ### sorting -/

theorem sortKeys_perm (c : Ctx) (xs : List KV) : (sortKeys c xs).Perm xs := List.mergeSort_perm _ _

theorem mem_sortKeys {c : Ctx} {xs : List KV} {a : KV} : a ∈ sortKeys c xs ↔ a ∈ xs :=
  (sortKeys_perm c xs).mem_iff

theorem sortKeys_sorted (c : Ctx) (h : OrderOK c) (xs : List KV) :
    (sortKeys c xs).Pairwise (fun a b => c.keyLe a.1 b.1 = true) := by
  unfold sortKeys
  apply List.pairwise_mergeSort
  · intro a b d hab hbd; exact h.trans _ _ _ hab hbd
  · intro a b; exact h.total a.1 b.1

theorem eq_of_key_eq {xs : List KV} (hn : xs.Pairwise (fun a b => a.1 ≠ b.1)) {a b : KV}
    (ha : a ∈ xs) (hb : b ∈ xs) (h : a.1 = b.1) : a = b := by
  induction xs with
  | nil => cases ha
  | cons x xs ih =>
    rw [List.pairwise_cons] at hn
    rcases List.mem_cons.1 ha with rfl | ha' <;> rcases List.mem_cons.1 hb with rfl | hb'
    · rfl
    · exact absurd h (hn.1 b hb')
    · exact absurd h.symm (hn.1 a ha')
    · exact ih hn.2 ha' hb'

/-- Sorting forgets the order the keys were listed in. -/
theorem sortKeys_eq_of_perm (c : Ctx) (h : OrderOK c) {xs ys : List KV} (hp : xs.Perm ys)
    (hn : xs.Pairwise (fun a b => a.1 ≠ b.1)) : sortKeys c xs = sortKeys c ys := by
  apply List.Perm.eq_of_pairwise (le := fun a b => c.keyLe a.1 b.1 = true)
  · intro a b ha hb hab hba
    have h1 := h.antisymm _ _ hab hba
    exact eq_of_key_eq hn (mem_sortKeys.1 ha) (hp.mem_iff.2 (mem_sortKeys.1 hb)) h1
  · exact sortKeys_sorted c h xs
  · exact sortKeys_sorted c h ys
  · exact ((sortKeys_perm c xs).trans hp).trans (sortKeys_perm c ys).symm

theorem sortKeys_filter (c : Ctx) (h : OrderOK c) (xs : List KV) (q : KV → Bool)
    (hn : xs.Pairwise (fun a b => a.1 ≠ b.1)) :
    sortKeys c (xs.filter q) = (sortKeys c xs).filter q := by
  apply List.Perm.eq_of_pairwise (le := fun a b => c.keyLe a.1 b.1 = true)
  · intro a b ha hb hab hba
    have h1 := h.antisymm _ _ hab hba
    have ha' : a ∈ xs := (List.mem_filter.1 (mem_sortKeys.1 ha)).1
    have hb' : b ∈ xs := mem_sortKeys.1 (List.mem_filter.1 hb).1
    exact eq_of_key_eq hn ha' hb' h1
  · exact sortKeys_sorted c h _
  · exact (sortKeys_sorted c h xs).filter _
  · exact (sortKeys_perm c _).trans ((sortKeys_perm c xs).symm.filter q)

theorem mem_flat {c : Ctx} {srcs : Sources} {t : Src × KV} : t ∈ flat c srcs ↔ t.2 ∈ srcs t.1 := by
  unfold flat descending
  obtain ⟨s, kv⟩ := t
  cases s <;> simp [mem_sortKeys]

theorem descending_sorted : descending.Pairwise (fun a b => b.prio < a.prio) := by decide

theorem mem_descending (s : Src) : s ∈ descending := by cases s <;> simp [descending]

theorem flatMap_sorted (f : Src → List KV) (ss : List Src)
    (hs : ss.Pairwise (fun a b => b.prio < a.prio)) :
    (ss.flatMap (fun s => (f s).map (fun kv => (s, kv)))).Pairwise
      (fun a b => b.1.prio ≤ a.1.prio) := by
  induction ss with
  | nil => simp
  | cons s ss ih =>
    rw [List.pairwise_cons] at hs
    simp only [List.flatMap_cons, List.pairwise_append]
    refine ⟨?_, ih hs.2, ?_⟩
    · rw [List.pairwise_map]
      exact List.pairwise_of_forall (fun _ _ => Nat.le_refl _)
    · intro a ha b hb
      obtain ⟨kv, _, rfl⟩ := List.mem_map.1 ha
      obtain ⟨s', hs', hb'⟩ := List.mem_flatMap.1 hb
      obtain ⟨kv', _, rfl⟩ := List.mem_map.1 hb'
      exact Nat.le_of_lt (hs.1 s' hs')

/-- `resolve` walks the keys source by source, highest priority first. -/
theorem flat_sorted (c : Ctx) (srcs : Sources) :
    (flat c srcs).Pairwise (fun a b => b.1.prio ≤ a.1.prio) :=
  flatMap_sorted _ _ descending_sorted

end CalicoVerif.C27

namespace CalicoVerif.C27

/-! ### one step, seen by one parameter -/

def proj (l : String) (st : St) : Option Val × Nat := (st.fields.lookup l, st.cur l)

/-- `step` as seen by parameter `l` when it succeeds. -/
def pstep (c : Ctx) (l : String) (m : Meta) (p : Option Val × Nat) (t : Src × KV) : Option Val × Nat :=
  if keyFor c l t.2 && admissible m t.1 then
    if t.1.prio < p.2 then p else (some ((valOf c m t.2.2).getD .dflt), t.1.prio)
  else p

theorem lookup_cons_ne {β : Type} {l l' : String} (h : l' ≠ l) (x : β) (xs : List (String × β)) :
    List.lookup l ((l', x) :: xs) = List.lookup l xs := by
  have : (l == l') = false := by simpa using fun e => h e.symm
  simp [List.lookup, this]

theorem lookup_cons_self {β : Type} (l : String) (x : β) (xs : List (String × β)) :
    List.lookup l ((l, x) :: xs) = some x := by
  simp [List.lookup]

/-- The key is parsed (not skipped) and its value is fatal. -/
def fatalAt (c : Ctx) (st : St) (t : Src × KV) : Prop :=
  ∃ m, c.known (c.lower t.2.1) = some m ∧ admissible m t.1 = true ∧
    ¬ t.1.prio < st.cur (c.lower t.2.1) ∧ valOf c m t.2.2 = none

theorem step_none_iff (c : Ctx) (st : St) (t : Src × KV) : step c st t = none ↔ fatalAt c st t := by
  simp only [step, fatalAt, admissible]
  cases hk : c.known (c.lower t.2.1) with
  | none => simp only []; split <;> simp
  | some m =>
    simp only [Option.some.injEq, exists_eq_left']
    by_cases hl : (m.local_ && !t.1.isLocal) = true
    · simp [hl]
    · simp only [hl, Bool.false_eq_true, if_false]
      by_cases hp : t.1.prio < st.cur (c.lower t.2.1)
      · simp [hp]
      · simp only [hp, if_false]
        cases hv : valOf c m t.2.2 with
        | none => simp
        | some v => simp

theorem step_proj (c : Ctx) (l : String) (m : Meta) (hk : c.known l = some m)
    (st st' : St) (t : Src × KV) (h : step c st t = some st') :
    proj l st' = pstep c l m (proj l st) t := by
  simp only [step] at h
  by_cases hl : c.lower t.2.1 = l
  · subst hl
    simp only [hk] at h
    simp only [pstep, keyFor, beq_self_eq_true, Bool.true_and, admissible]
    by_cases ha : (m.local_ && !t.1.isLocal) = true
    · simp only [ha, if_true, Option.some.injEq] at h
      subst h
      simp [ha]
    · simp only [ha, Bool.false_eq_true, if_false] at h
      have ha' : (!(m.local_ && !t.1.isLocal)) = true := by
        cases hb : (m.local_ && !t.1.isLocal) <;> simp_all
      simp only [ha', if_true]
      by_cases hp : t.1.prio < st.cur (c.lower t.2.1)
      · simp only [hp, if_true, Option.some.injEq] at h
        subst h
        simp [proj, hp]
      · simp only [hp, if_false] at h
        cases hv : valOf c m t.2.2 with
        | none => simp [hv] at h
        | some v =>
          simp only [hv, Option.some.injEq] at h
          subst h
          simp only [St.cur] at hp
          simp [proj, St.cur, hp]
  · have hk' : keyFor c l t.2 = false := by simpa [keyFor] using hl
    simp only [pstep, hk', Bool.false_and, Bool.false_eq_true, if_false]
    cases hkn : c.known (c.lower t.2.1) with
    | none =>
      simp only [hkn] at h
      split at h
      · simp only [Option.some.injEq] at h; subst h
        simp [proj, St.cur, lookup_cons_ne hl]
      · simp only [Option.some.injEq] at h; subst h; rfl
    | some m' =>
      simp only [hkn] at h
      split at h
      · simp only [Option.some.injEq] at h; subst h; rfl
      · split at h
        · simp only [Option.some.injEq] at h; subst h; rfl
        · cases hv : valOf c m' t.2.2 with
          | none => simp [hv] at h
          | some v =>
            simp only [hv, Option.some.injEq] at h; subst h
            simp [proj, St.cur, lookup_cons_ne hl]

theorem foldlM_step_proj (c : Ctx) (l : String) (m : Meta) (hk : c.known l = some m)
    (ts : List (Src × KV)) (st st' : St) (h : ts.foldlM (step c) st = some st') :
    proj l st' = ts.foldl (pstep c l m) (proj l st) := by
  induction ts generalizing st with
  | nil => simp only [List.foldlM_nil, pure, Option.some.injEq] at h; subst h; rfl
  | cons t ts ih =>
    simp only [List.foldlM_cons] at h
    cases h1 : step c st t with
    | none => rw [h1] at h; cases h
    | some st1 =>
      rw [h1] at h
      have h' : ts.foldlM (step c) st1 = some st' := h
      simp only [List.foldl_cons]
      rw [ih st1 h', step_proj c l m hk st st1 t h1]

/-! ### the last key for `l` of a (sorted) key list wins -/

/-- The last key for `l` in list order. -/
def lastMatch (c : Ctx) (l : String) : List KV → Option KV
  | [] => none
  | x :: xs =>
    match lastMatch c l xs with
    | some y => some y
    | none => if keyFor c l x then some x else none

theorem lastMatch_some {c : Ctx} {l : String} {xs : List KV} {kv : KV}
    (h : lastMatch c l xs = some kv) : kv ∈ xs ∧ keyFor c l kv = true := by
  induction xs with
  | nil => simp [lastMatch] at h
  | cons x xs ih =>
    simp only [lastMatch] at h
    cases hl : lastMatch c l xs with
    | some y =>
      simp only [hl, Option.some.injEq] at h; subst h
      exact ⟨List.mem_cons_of_mem _ (ih hl).1, (ih hl).2⟩
    | none =>
      simp only [hl] at h
      by_cases hx : keyFor c l x = true
      · simp only [hx, if_true, Option.some.injEq] at h; subst h; exact ⟨by simp, hx⟩
      · simp [hx] at h

theorem lastMatch_none {c : Ctx} {l : String} {xs : List KV} :
    lastMatch c l xs = none ↔ ∀ x ∈ xs, keyFor c l x = false := by
  induction xs with
  | nil => simp [lastMatch]
  | cons x xs ih =>
    simp only [lastMatch, List.mem_cons, forall_eq_or_imp]
    cases hl : lastMatch c l xs with
    | some y =>
      simp only [reduceCtorEq, false_iff, not_and]
      intro _ hall
      have := (lastMatch_some hl)
      rw [hall y this.1] at this; exact absurd this.2 (by simp)
    | none =>
      have := ih.1 hl
      by_cases hx : keyFor c l x = true
      · simp [hx]
      · have hx' : keyFor c l x = false := by simpa using hx
        simp only [hx', Bool.false_eq_true, if_false, true_and, true_iff]
        exact this

/-- In a sorted list the last key for `l` is the greatest one. -/
theorem lastMatch_max {c : Ctx} (ho : OrderOK c) {l : String} {xs : List KV} {kv : KV}
    (hs : xs.Pairwise (fun a b => c.keyLe a.1 b.1 = true)) (h : lastMatch c l xs = some kv) :
    ∀ x ∈ xs, keyFor c l x = true → c.keyLe x.1 kv.1 = true := by
  induction xs with
  | nil => simp [lastMatch] at h
  | cons x xs ih =>
    rw [List.pairwise_cons] at hs
    simp only [lastMatch] at h
    intro y hy hky
    cases hl : lastMatch c l xs with
    | some z =>
      simp only [hl, Option.some.injEq] at h; subst h
      rcases List.mem_cons.1 hy with rfl | hy'
      · exact hs.1 z (lastMatch_some hl).1
      · exact ih hs.2 hl y hy' hky
    | none =>
      simp only [hl] at h
      by_cases hx : keyFor c l x = true
      · simp only [hx, if_true, Option.some.injEq] at h; subst h
        rcases List.mem_cons.1 hy with rfl | hy'
        · have := ho.total y.1 y.1; simpa using this
        · have := lastMatch_none.1 hl y hy'; rw [this] at hky; cases hky
      · simp [hx] at h

/-- Folding one source's keys. -/
theorem keysFold_eq (c : Ctx) (l : String) (m : Meta) (s : Src) (xs : List KV) (p : Option Val × Nat) :
    xs.foldl (fun p kv => pstep c l m p (s, kv)) p =
      if admissible m s = true ∧ ¬ s.prio < p.2 then
        match lastMatch c l xs with
        | none => p
        | some kv => (some ((valOf c m kv.2).getD .dflt), s.prio)
      else p := by
  induction xs generalizing p with
  | nil => simp [lastMatch]
  | cons x xs ih =>
    simp only [List.foldl_cons]
    rw [ih]
    by_cases hc : admissible m s = true ∧ ¬ s.prio < p.2
    · obtain ⟨ha, hp⟩ := hc
      by_cases hx : keyFor c l x = true
      · have h1 : pstep c l m p (s, x) = (some ((valOf c m x.2).getD .dflt), s.prio) := by
          simp [pstep, hx, ha, hp]
        simp only [h1, ha, true_and, Nat.lt_irrefl, not_false_eq_true, if_true, hp, lastMatch]
        cases lastMatch c l xs <;> simp [hx]
      · have hx' : keyFor c l x = false := by simpa using hx
        have h1 : pstep c l m p (s, x) = p := by simp [pstep, hx']
        simp only [h1, ha, hp, true_and, not_false_eq_true, if_true, lastMatch]
        cases lastMatch c l xs <;> simp [hx']
    · have h1 : pstep c l m p (s, x) = p := by
        simp only [pstep]
        split
        · rename_i hk
          simp only [Bool.and_eq_true] at hk
          have : s.prio < p.2 := by
            by_cases hp : s.prio < p.2
            · exact hp
            · exact absurd ⟨hk.2, hp⟩ hc
          simp [this]
        · rfl
      simp only [h1, hc, if_false]

def srcFold (c : Ctx) (l : String) (m : Meta) (srcs : Sources) (p : Option Val × Nat) (s : Src) :
    Option Val × Nat :=
  (sortKeys c (srcs s)).foldl (fun p kv => pstep c l m p (s, kv)) p

theorem foldl_flat (c : Ctx) (l : String) (m : Meta) (srcs : Sources) (ss : List Src)
    (p : Option Val × Nat) :
    (ss.flatMap (fun s => (sortKeys c (srcs s)).map (fun kv => (s, kv)))).foldl (pstep c l m) p
      = ss.foldl (srcFold c l m srcs) p := by
  induction ss generalizing p with
  | nil => rfl
  | cons s ss ih =>
    simp only [List.flatMap_cons, List.foldl_append, List.foldl_cons, List.foldl_map]
    exact ih _

/-- The key of source `s` that decides parameter `l` if `s` is the highest source that sets it:
the last key for `l` in sorted order. -/
def winnerIn (c : Ctx) (srcs : Sources) (l : String) (m : Meta) (s : Src) : Option (Src × KV) :=
  if admissible m s then (lastMatch c l (sortKeys c (srcs s))).map (fun kv => (s, kv)) else none

/-- The deciding key of parameter `l`. -/
def winner (c : Ctx) (srcs : Sources) (l : String) (m : Meta) : Option (Src × KV) :=
  descending.findSome? (winnerIn c srcs l m)

theorem winnerIn_fst {c : Ctx} {srcs : Sources} {l : String} {m : Meta} {s : Src} {t : Src × KV}
    (h : winnerIn c srcs l m s = some t) : t.1 = s ∧ admissible m s = true := by
  unfold winnerIn at h
  by_cases ha : admissible m s = true
  · simp only [ha, if_true, Option.map_eq_some_iff] at h
    obtain ⟨kv, _, rfl⟩ := h; exact ⟨rfl, ha⟩
  · simp [ha] at h

theorem srcFold_eq (c : Ctx) (l : String) (m : Meta) (srcs : Sources) (p : Option Val × Nat) (s : Src) :
    srcFold c l m srcs p s =
      if s.prio < p.2 then p else
      match winnerIn c srcs l m s with
      | none => p
      | some t => (some ((valOf c m t.2.2).getD .dflt), t.1.prio) := by
  unfold srcFold winnerIn
  rw [keysFold_eq]
  by_cases hp : s.prio < p.2
  · simp [hp]
  · by_cases ha : admissible m s = true
    · simp only [ha, hp, not_false_eq_true, and_self, if_true, if_false]
      cases lastMatch c l (sortKeys c (srcs s)) <;> rfl
    · simp [ha, hp]

theorem sourcesFold_skip (c : Ctx) (l : String) (m : Meta) (srcs : Sources)
    (ss : List Src) (p : Option Val × Nat) (h : ∀ s ∈ ss, s.prio < p.2) :
    ss.foldl (srcFold c l m srcs) p = p := by
  induction ss with
  | nil => rfl
  | cons s ss ih =>
    simp only [List.foldl_cons]
    have hs : srcFold c l m srcs p s = p := by
      rw [srcFold_eq]; simp [h s (by simp)]
    rw [hs]
    exact ih (fun s' hs' => h s' (by simp [hs']))

theorem sourcesFold_eq (c : Ctx) (l : String) (m : Meta) (srcs : Sources)
    (ss : List Src) (hs : ss.Pairwise (fun a b => b.prio < a.prio)) :
    ss.foldl (srcFold c l m srcs) (none, 0) =
      match ss.findSome? (winnerIn c srcs l m) with
      | none => (none, 0)
      | some t => (some ((valOf c m t.2.2).getD .dflt), t.1.prio) := by
  induction ss with
  | nil => rfl
  | cons s ss ih =>
    rw [List.pairwise_cons] at hs
    simp only [List.foldl_cons, List.findSome?_cons]
    rw [srcFold_eq]
    simp only [Nat.not_lt_zero, if_false]
    cases hw : winnerIn c srcs l m s with
    | none => simp only []; exact ih hs.2
    | some t =>
      simp only []
      apply sourcesFold_skip
      intro s' hs'
      simp only [(winnerIn_fst hw).1]
      exact hs.1 s' hs'

/-- The loop state, seen by one known parameter, after a successful `resolve`. -/
theorem resolve_proj (c : Ctx) (srcs : Sources) (st : St)
    (h : resolve c srcs = some st) (l : String) (m : Meta) (hk : c.known l = some m) :
    proj l st =
      match winner c srcs l m with
      | none => (none, 0)
      | some t => (some ((valOf c m t.2.2).getD .dflt), t.1.prio) := by
  unfold resolve at h
  rw [foldlM_step_proj c l m hk _ _ _ h]
  have : proj l St.empty = (none, 0) := rfl
  rw [this]
  unfold flat
  rw [foldl_flat]
  exact sourcesFold_eq c l m srcs descending descending_sorted

end CalicoVerif.C27

namespace CalicoVerif.C27

/-! ### when does `resolve` fail: `nameToSource[l]` along the walk -/

theorem pstep_snd_ge (c : Ctx) (l : String) (m : Meta) (p : Option Val × Nat) (t : Src × KV) :
    p.2 ≤ (pstep c l m p t).2 := by
  unfold pstep
  split
  · split
    · exact Nat.le_refl _
    · simp only; omega
  · exact Nat.le_refl _

theorem foldl_pstep_ge (c : Ctx) (l : String) (m : Meta) (ts : List (Src × KV)) (p : Option Val × Nat) :
    p.2 ≤ (ts.foldl (pstep c l m) p).2 := by
  induction ts generalizing p with
  | nil => exact Nat.le_refl _
  | cons t ts ih => exact Nat.le_trans (pstep_snd_ge c l m p t) (ih _)

theorem foldl_pstep_ge_mem (c : Ctx) (l : String) (m : Meta) (ts : List (Src × KV)) (p : Option Val × Nat)
    (x : Src × KV) (hx : x ∈ ts) (hk : keyFor c l x.2 = true) (ha : admissible m x.1 = true) :
    x.1.prio ≤ (ts.foldl (pstep c l m) p).2 := by
  induction ts generalizing p with
  | nil => cases hx
  | cons t ts ih =>
    simp only [List.foldl_cons]
    rcases List.mem_cons.1 hx with rfl | hx'
    · have : x.1.prio ≤ (pstep c l m p x).2 := by
        simp only [pstep, hk, ha, Bool.and_self, if_true]
        split
        · omega
        · exact Nat.le_refl _
      exact Nat.le_trans this (foldl_pstep_ge c l m ts _)
    · exact ih _ hx'

theorem foldl_pstep_snd_cases (c : Ctx) (l : String) (m : Meta) (ts : List (Src × KV)) (p : Option Val × Nat) :
    (ts.foldl (pstep c l m) p).2 = p.2 ∨
    ∃ x ∈ ts, keyFor c l x.2 = true ∧ admissible m x.1 = true ∧ (ts.foldl (pstep c l m) p).2 = x.1.prio := by
  induction ts generalizing p with
  | nil => exact Or.inl rfl
  | cons t ts ih =>
    simp only [List.foldl_cons]
    rcases ih (pstep c l m p t) with h | ⟨x, hx, h1, h2, h3⟩
    · rw [h]
      unfold pstep
      split
      · rename_i hc
        simp only [Bool.and_eq_true] at hc
        split
        · exact Or.inl rfl
        · right
          exact ⟨t, by simp, hc.1, hc.2, rfl⟩
      · exact Or.inl rfl
    · exact Or.inr ⟨x, by simp [hx], h1, h2, h3⟩

theorem foldlM_none_split {σ α : Type} (f : σ → α → Option σ) (ts : List α) (s : σ)
    (h : ts.foldlM f s = none) :
    ∃ pre t post st, ts = pre ++ t :: post ∧ pre.foldlM f s = some st ∧ f st t = none := by
  induction ts generalizing s with
  | nil => simp [List.foldlM_nil, pure] at h
  | cons t ts ih =>
    simp only [List.foldlM_cons] at h
    cases h1 : f s t with
    | none => exact ⟨[], t, ts, s, rfl, rfl, h1⟩
    | some s1 =>
      rw [h1] at h
      obtain ⟨pre, t', post, st, e, hp, hf⟩ := ih s1 h
      refine ⟨t :: pre, t', post, st, by simp [e], ?_, hf⟩
      simp only [List.foldlM_cons, h1]
      exact hp

theorem foldlM_append_none {σ α : Type} (f : σ → α → Option σ) (pre : List α) (t : α) (post : List α)
    (s st : σ) (hp : pre.foldlM f s = some st) (hf : f st t = none) :
    (pre ++ t :: post).foldlM f s = none := by
  rw [List.foldlM_append, hp]
  simp only [Option.bind_eq_bind, Option.bind_some, List.foldlM_cons, hf, Option.bind_none]

theorem foldlM_prefix_none {σ α : Type} (f : σ → α → Option σ) (pre rest : List α) (s : σ)
    (hp : pre.foldlM f s = none) : (pre ++ rest).foldlM f s = none := by
  rw [List.foldlM_append, hp]; rfl

/-! ### sort-free specification -/

/-- Source `s` holds an admissible key for parameter `l`. -/
def HasKey (c : Ctx) (srcs : Sources) (l : String) (m : Meta) (s : Src) : Prop :=
  admissible m s = true ∧ ∃ kv ∈ srcs s, keyFor c l kv = true

/-- `s` is the highest-priority source that sets parameter `l`. -/
def Top (c : Ctx) (srcs : Sources) (l : String) (m : Meta) (s : Src) : Prop :=
  HasKey c srcs l m s ∧ ∀ s', s.prio < s'.prio → ¬ HasKey c srcs l m s'

/-- Some parameter has a fatal value among the keys of ITS deciding source. -/
def FatalTop (c : Ctx) (srcs : Sources) : Prop :=
  ∃ l m s kv, c.known l = some m ∧ Top c srcs l m s ∧ kv ∈ srcs s ∧ keyFor c l kv = true ∧
    valOf c m kv.2 = none

/-- `t` is the deciding key of `l`: in the deciding source, and the greatest spelling there. -/
def IsWinner (c : Ctx) (srcs : Sources) (l : String) (m : Meta) (t : Src × KV) : Prop :=
  Top c srcs l m t.1 ∧ t.2 ∈ srcs t.1 ∧ keyFor c l t.2 = true ∧
    ∀ kv' ∈ srcs t.1, keyFor c l kv' = true → c.keyLe kv'.1 t.2.1 = true

theorem resolve_none_iff (c : Ctx) (srcs : Sources) : resolve c srcs = none ↔ FatalTop c srcs := by
  constructor
  · intro h
    obtain ⟨pre, t, post, st, e, hp, hf⟩ := foldlM_none_split (step c) _ _ h
    obtain ⟨m, hk, ha, hnp, hv⟩ := (step_none_iff c st t).1 hf
    have hmem : t ∈ flat c srcs := by rw [e]; simp
    have hcur : st.cur (c.lower t.2.1) = (pre.foldl (pstep c (c.lower t.2.1) m) (none, 0)).2 := by
      have := foldlM_step_proj c _ m hk pre St.empty st hp
      have h2 := congrArg Prod.snd this
      exact h2
    refine ⟨c.lower t.2.1, m, t.1, t.2, hk, ⟨⟨ha, t.2, mem_flat.1 hmem, by simp [keyFor]⟩, ?_⟩,
      mem_flat.1 hmem, by simp [keyFor], hv⟩
    intro s' hlt ⟨ha', kv', hkv', hk'⟩
    have hx : (s', kv') ∈ flat c srcs := mem_flat.2 hkv'
    have hsorted := flat_sorted c srcs
    rw [e] at hx hsorted
    have hpre : (s', kv') ∈ pre := by
      rcases List.mem_append.1 hx with h1 | h1
      · exact h1
      · exfalso
        have h2 := (List.pairwise_append.1 hsorted).2.1
        rw [List.pairwise_cons] at h2
        rcases List.mem_cons.1 h1 with h3 | h3
        · rw [← h3] at hlt; exact Nat.lt_irrefl _ hlt
        · have := h2.1 _ h3; simp only at this; omega
    have := foldl_pstep_ge_mem c (c.lower t.2.1) m pre (none, 0) (s', kv') hpre hk' ha'
    rw [← hcur] at this
    simp only at this
    omega
  · rintro ⟨l, m, s, kv, hk, ⟨hhas, htop⟩, hmem, hkf, hv⟩
    have hl : c.lower kv.1 = l := by simpa [keyFor] using hkf
    have hin : (s, kv) ∈ flat c srcs := mem_flat.2 hmem
    obtain ⟨pre, post, e⟩ := List.append_of_mem hin
    unfold resolve
    rw [e]
    cases hp : pre.foldlM (step c) St.empty with
    | none => exact foldlM_prefix_none _ _ _ _ hp
    | some st =>
      apply foldlM_append_none _ _ _ _ _ _ hp
      rw [step_none_iff]
      refine ⟨m, by simp only; rw [hl]; exact hk, hhas.1, ?_, hv⟩
      simp only [hl]
      have hcur : st.cur l = (pre.foldl (pstep c l m) (none, 0)).2 := by
        have := foldlM_step_proj c l m hk pre St.empty st hp
        have h2 := congrArg Prod.snd this
        exact h2
      rw [hcur]
      rcases foldl_pstep_snd_cases c l m pre (none, 0) with h0 | ⟨x, hx, hkx, hax, hxe⟩
      · rw [h0]; exact Nat.not_lt_zero _
      · rw [hxe]
        intro hlt
        have hxin : x ∈ flat c srcs := by rw [e]; simp [hx]
        exact htop x.1 hlt ⟨hax, x.2, mem_flat.1 hxin, hkx⟩

theorem findSome?_sorted {β : Type} (f : Src → Option β) (ss : List Src)
    (hs : ss.Pairwise (fun a b => b.prio < a.prio)) (t : β) :
    ss.findSome? f = some t ↔
      ∃ s ∈ ss, f s = some t ∧ ∀ s' ∈ ss, s.prio < s'.prio → f s' = none := by
  induction ss with
  | nil => simp
  | cons a ss ih =>
    rw [List.pairwise_cons] at hs
    simp only [List.findSome?_cons]
    cases hfa : f a with
    | some t' =>
      simp only [Option.some.injEq]
      constructor
      · rintro rfl
        refine ⟨a, by simp, hfa, ?_⟩
        intro s' hs' hlt
        rcases List.mem_cons.1 hs' with rfl | hm
        · exact absurd hlt (Nat.lt_irrefl _)
        · exact absurd (hs.1 s' hm) (by omega)
      · rintro ⟨s, hs', hfs, hall⟩
        rcases List.mem_cons.1 hs' with rfl | hm
        · rw [hfa] at hfs; exact Option.some.inj hfs
        · have := hall a (by simp) (hs.1 s hm)
          rw [hfa] at this; cases this
    | none =>
      simp only []
      rw [ih hs.2]
      constructor
      · rintro ⟨s, hm, hfs, hall⟩
        refine ⟨s, by simp [hm], hfs, ?_⟩
        intro s' hs' hlt
        rcases List.mem_cons.1 hs' with rfl | hm'
        · exact hfa
        · exact hall s' hm' hlt
      · rintro ⟨s, hs', hfs, hall⟩
        rcases List.mem_cons.1 hs' with rfl | hm
        · rw [hfa] at hfs; cases hfs
        · exact ⟨s, hm, hfs, fun s' hm' hlt => hall s' (by simp [hm']) hlt⟩

theorem winnerIn_none_iff {c : Ctx} {srcs : Sources} {l : String} {m : Meta} {s : Src} :
    winnerIn c srcs l m s = none ↔ ¬ HasKey c srcs l m s := by
  unfold winnerIn HasKey
  by_cases ha : admissible m s = true
  · simp only [ha, if_true, Option.map_eq_none_iff, lastMatch_none, true_and, not_exists, not_and]
    constructor
    · intro h kv hkv; rw [h kv (mem_sortKeys.2 hkv)]; simp
    · intro h kv hkv
      have := h kv (mem_sortKeys.1 hkv)
      simpa using this
  · simp [ha]

theorem winner_isWinner (c : Ctx) (ho : OrderOK c) (srcs : Sources) (l : String) (m : Meta)
    (t : Src × KV) (h : winner c srcs l m = some t) : IsWinner c srcs l m t := by
  unfold winner at h
  obtain ⟨s, _, hw, hall⟩ := (findSome?_sorted _ _ descending_sorted t).1 h
  obtain ⟨h1, ha⟩ := winnerIn_fst hw
  subst h1
  have hl : lastMatch c l (sortKeys c (srcs t.1)) = some t.2 := by
    unfold winnerIn at hw
    simp only [ha, if_true, Option.map_eq_some_iff] at hw
    obtain ⟨kv, hkv, e⟩ := hw
    rw [← e]; exact hkv
  have hm := lastMatch_some hl
  refine ⟨⟨⟨ha, t.2, mem_sortKeys.1 hm.1, hm.2⟩, ?_⟩, mem_sortKeys.1 hm.1, hm.2, ?_⟩
  · intro s' hlt
    exact winnerIn_none_iff.1 (hall s' (mem_descending s') hlt)
  · intro kv' hkv' hk'
    exact lastMatch_max ho (sortKeys_sorted c ho _) hl kv' (mem_sortKeys.2 hkv') hk'

theorem winner_none_iff (c : Ctx) (srcs : Sources) (l : String) (m : Meta) :
    winner c srcs l m = none ↔ ∀ s, ¬ HasKey c srcs l m s := by
  unfold winner
  rw [List.findSome?_eq_none_iff]
  constructor
  · intro h s; exact winnerIn_none_iff.1 (h s (mem_descending s))
  · intro h s _; exact winnerIn_none_iff.2 (h s)

theorem isWinner_unique (c : Ctx) (ho : OrderOK c) (srcs : Sources) (hn : KeysNodup srcs)
    (l : String) (m : Meta) (t t' : Src × KV)
    (h : IsWinner c srcs l m t) (h' : IsWinner c srcs l m t') : t = t' := by
  obtain ⟨⟨hk, htop⟩, hmem, hkf, hmax⟩ := h
  obtain ⟨⟨hk', htop'⟩, hmem', hkf', hmax'⟩ := h'
  have hs : t.1 = t'.1 := by
    have h1 : ¬ t.1.prio < t'.1.prio := fun hlt => htop _ hlt hk'
    have h2 : ¬ t'.1.prio < t.1.prio := fun hlt => htop' _ hlt hk
    have : t.1.prio = t'.1.prio := by omega
    revert this
    cases t.1 <;> cases t'.1 <;> simp [Src.prio]
  obtain ⟨s, kv⟩ := t
  obtain ⟨s', kv'⟩ := t'
  simp only at hs
  subst hs
  have h1 := hmax kv' hmem' hkf'
  have h2 := hmax' kv hmem hkf
  have hkeq : kv.1 = kv'.1 := ho.antisymm _ _ h2 h1
  have : kv = kv' := eq_of_key_eq (hn s) hmem hmem' hkeq
  rw [this]

/-- `winner` is the unique deciding key. -/
theorem winner_eq_some_iff (c : Ctx) (ho : OrderOK c) (srcs : Sources) (hn : KeysNodup srcs)
    (l : String) (m : Meta) (t : Src × KV) :
    winner c srcs l m = some t ↔ IsWinner c srcs l m t := by
  constructor
  · exact winner_isWinner c ho srcs l m t
  · intro h
    cases hw : winner c srcs l m with
    | none => exact absurd h.1.1 ((winner_none_iff c srcs l m).1 hw t.1)
    | some t' =>
      rw [isWinner_unique c ho srcs hn l m t' t (winner_isWinner c ho srcs l m t' hw) h]

end CalicoVerif.C27

namespace CalicoVerif.C27

/-! ### results compared on what the property observes; pruning shadowed keys -/

/-- Same `Err` outcome and, if resolved, the same value in every known parameter's field. -/
def SameResult (c : Ctx) (r r' : Option St) : Prop :=
  match r, r' with
  | none, none => True
  | some st, some st' => ∀ l m, c.known l = some m → st.fields.lookup l = st'.fields.lookup l
  | _, _ => False

def hasKeyB (c : Ctx) (srcs : Sources) (l : String) (m : Meta) (s : Src) : Bool :=
  admissible m s && (srcs s).any (keyFor c l)

theorem hasKeyB_iff {c : Ctx} {srcs : Sources} {l : String} {m : Meta} {s : Src} :
    hasKeyB c srcs l m s = true ↔ HasKey c srcs l m s := by
  simp [hasKeyB, HasKey, List.any_eq_true]

/-- A key is *shadowed*: it is an admissible key of a known parameter that a higher-priority source
also sets. -/
def shadowed (c : Ctx) (srcs : Sources) (s : Src) (kv : KV) : Bool :=
  match c.known (c.lower kv.1) with
  | none => false
  | some m =>
    admissible m s &&
      descending.any (fun s' => decide (s.prio < s'.prio) && hasKeyB c srcs (c.lower kv.1) m s')

def pruneShadowed (c : Ctx) (srcs : Sources) : Sources :=
  fun s => (srcs s).filter (fun kv => !shadowed c srcs s kv)

theorem shadowed_iff {c : Ctx} {srcs : Sources} {s : Src} {kv : KV} {l : String} {m : Meta}
    (hk : c.known l = some m) (hl : c.lower kv.1 = l) :
    shadowed c srcs s kv = true ↔
      admissible m s = true ∧ ∃ s', s.prio < s'.prio ∧ HasKey c srcs l m s' := by
  unfold shadowed
  rw [hl, hk]
  simp only [Bool.and_eq_true, List.any_eq_true, decide_eq_true_eq, hasKeyB_iff]
  constructor
  · rintro ⟨ha, s', _, hlt, hh⟩; exact ⟨ha, s', hlt, hh⟩
  · rintro ⟨ha, s', hlt, hh⟩; exact ⟨ha, s', mem_descending s', hlt, hh⟩

theorem hasKey_prune {c : Ctx} {srcs : Sources} {l : String} {m : Meta} (hk : c.known l = some m) (s : Src) :
    HasKey c (pruneShadowed c srcs) l m s ↔ Top c srcs l m s := by
  constructor
  · rintro ⟨ha, kv, hkv, hkf⟩
    have hl : c.lower kv.1 = l := by simpa [keyFor] using hkf
    obtain ⟨hmem, hns⟩ := List.mem_filter.1 hkv
    refine ⟨⟨ha, kv, hmem, hkf⟩, ?_⟩
    intro s' hlt hh
    have : shadowed c srcs s kv = true := (shadowed_iff hk hl).2 ⟨ha, s', hlt, hh⟩
    rw [this] at hns; cases hns
  · rintro ⟨⟨ha, kv, hmem, hkf⟩, htop⟩
    have hl : c.lower kv.1 = l := by simpa [keyFor] using hkf
    refine ⟨ha, kv, List.mem_filter.2 ⟨hmem, ?_⟩, hkf⟩
    cases hs : shadowed c srcs s kv with
    | false => rfl
    | true =>
      obtain ⟨_, s', hlt, hh⟩ := (shadowed_iff hk hl).1 hs
      exact absurd hh (htop s' hlt)

theorem top_prune {c : Ctx} {srcs : Sources} {l : String} {m : Meta} (hk : c.known l = some m) (s : Src) :
    Top c (pruneShadowed c srcs) l m s ↔ Top c srcs l m s := by
  constructor
  · intro h; exact (hasKey_prune hk s).1 h.1
  · intro h
    refine ⟨(hasKey_prune hk s).2 h, ?_⟩
    intro s' hlt hh
    exact h.2 s' hlt ((hasKey_prune hk s').1 hh).1

/-- The keys for `l` in its deciding source are never pruned. -/
theorem mem_prune_top {c : Ctx} {srcs : Sources} {l : String} {m : Meta} (hk : c.known l = some m)
    {s : Src} (ht : Top c srcs l m s) (kv : KV) (hkf : keyFor c l kv = true) :
    kv ∈ pruneShadowed c srcs s ↔ kv ∈ srcs s := by
  have hl : c.lower kv.1 = l := by simpa [keyFor] using hkf
  constructor
  · intro h; exact (List.mem_filter.1 h).1
  · intro h
    refine List.mem_filter.2 ⟨h, ?_⟩
    cases hs : shadowed c srcs s kv with
    | false => rfl
    | true =>
      obtain ⟨_, s', hlt, hh⟩ := (shadowed_iff hk hl).1 hs
      exact absurd hh (ht.2 s' hlt)

theorem fatalTop_prune (c : Ctx) (srcs : Sources) :
    FatalTop c (pruneShadowed c srcs) ↔ FatalTop c srcs := by
  constructor
  · rintro ⟨l, m, s, kv, hk, ht, hmem, hkf, hv⟩
    have ht' := (top_prune hk s).1 ht
    exact ⟨l, m, s, kv, hk, ht', (mem_prune_top hk ht' kv hkf).1 hmem, hkf, hv⟩
  · rintro ⟨l, m, s, kv, hk, ht, hmem, hkf, hv⟩
    exact ⟨l, m, s, kv, hk, (top_prune hk s).2 ht, (mem_prune_top hk ht kv hkf).2 hmem, hkf, hv⟩

theorem isWinner_prune (c : Ctx) (srcs : Sources) (l : String) (m : Meta) (hk : c.known l = some m)
    (t : Src × KV) : IsWinner c (pruneShadowed c srcs) l m t ↔ IsWinner c srcs l m t := by
  constructor
  · rintro ⟨ht, hmem, hkf, hmax⟩
    have ht' := (top_prune hk t.1).1 ht
    refine ⟨ht', (mem_prune_top hk ht' t.2 hkf).1 hmem, hkf, ?_⟩
    intro kv' hkv' hk'
    exact hmax kv' ((mem_prune_top hk ht' kv' hk').2 hkv') hk'
  · rintro ⟨ht, hmem, hkf, hmax⟩
    refine ⟨(top_prune hk t.1).2 ht, (mem_prune_top hk ht t.2 hkf).2 hmem, hkf, ?_⟩
    intro kv' hkv' hk'
    exact hmax kv' ((mem_prune_top hk ht kv' hk').1 hkv') hk'

theorem keysNodup_filter {srcs : Sources} (hn : KeysNodup srcs) (q : Src → KV → Bool) :
    KeysNodup (fun s => (srcs s).filter (q s)) := fun s => (hn s).filter _

/-! ### datastore values of local-only parameters -/

def nonLocalOfLocal (c : Ctx) (s : Src) (kv : KV) : Bool :=
  match c.known (c.lower kv.1) with
  | none => false
  | some m => !admissible m s

def dropNonLocal (c : Ctx) (srcs : Sources) : Sources :=
  fun s => (srcs s).filter (fun kv => !nonLocalOfLocal c s kv)

theorem foldlM_filter_ident (c : Ctx) (q : Src × KV → Bool)
    (hq : ∀ st t, q t = false → step c st t = some st) (ts : List (Src × KV)) (st : St) :
    (ts.filter q).foldlM (step c) st = ts.foldlM (step c) st := by
  induction ts generalizing st with
  | nil => rfl
  | cons t ts ih =>
    by_cases h : q t = true
    · simp only [List.filter_cons, h, if_true, List.foldlM_cons]
      cases step c st t with
      | none => rfl
      | some st1 => exact ih st1
    · have h' : q t = false := by simpa using h
      simp only [List.filter_cons, h', Bool.false_eq_true, if_false, List.foldlM_cons, hq st t h']
      exact ih st

theorem flat_filter (c : Ctx) (ho : OrderOK c) (srcs : Sources) (hn : KeysNodup srcs) (q : Src → KV → Bool) :
    flat c (fun s => (srcs s).filter (q s)) = (flat c srcs).filter (fun t => q t.1 t.2) := by
  simp only [flat, descending, List.flatMap_cons, List.flatMap_nil, List.append_nil, List.filter_append,
    List.filter_map, Function.comp_def]
  rw [sortKeys_filter c ho _ _ (hn .override), sortKeys_filter c ho _ _ (hn .env),
    sortKeys_filter c ho _ _ (hn .file), sortKeys_filter c ho _ _ (hn .host),
    sortKeys_filter c ho _ _ (hn .selector), sortKeys_filter c ho _ _ (hn .global)]

theorem step_nonLocal (c : Ctx) (st : St) (t : Src × KV) (h : (!nonLocalOfLocal c t.1 t.2) = false) :
    step c st t = some st := by
  simp only [nonLocalOfLocal, admissible] at h
  simp only [step]
  cases hk : c.known (c.lower t.2.1) with
  | none => simp [hk] at h
  | some m =>
    simp only [hk] at h
    have : (m.local_ && !t.1.isLocal) = true := by
      cases hb : (m.local_ && !t.1.isLocal) <;> simp_all
    simp [this]

end CalicoVerif.C27

namespace CalicoVerif.C27

/-- `resolve` on key lists that are already sorted (used to evaluate concrete examples: `mergeSort`
is defined by well-founded recursion and does not reduce by `decide`). -/
def resolveSorted (c : Ctx) (srcs : Sources) : Option St :=
  (descending.flatMap (fun s => (srcs s).map (fun kv => (s, kv)))).foldlM (step c) St.empty

theorem resolve_eq_resolveSorted (c : Ctx) (srcs : Sources)
    (h : ∀ s, (srcs s).Pairwise (fun a b => c.keyLe a.1 b.1 = true)) :
    resolve c srcs = resolveSorted c srcs := by
  unfold resolve resolveSorted flat
  congr 2
  funext s
  unfold sortKeys
  rw [List.mergeSort_of_pairwise (h s)]

end CalicoVerif.C27

namespace CalicoVerif.C27

theorem foldl_stepP (c : Ctx) (ts : List (Src × KV)) (st : St) :
    ts.foldlM (step c) st =
      if (ts.foldl (stepP c) (st, false)).2 then none else some (ts.foldl (stepP c) (st, false)).1 := by
  induction ts generalizing st with
  | nil => simp
  | cons t ts ih =>
    simp only [List.foldlM_cons, List.foldl_cons]
    cases h : step c st t with
    | none =>
      have hs : stepP c (st, false) t = (st, true) := by simp [stepP, h]
      have hfix : ∀ us : List (Src × KV), us.foldl (stepP c) (st, true) = (st, true) := by
        intro us; induction us with
        | nil => rfl
        | cons u us ihu => simp only [List.foldl_cons, stepP, if_true]; exact ihu
      simp only [hs, hfix, if_true]; rfl
    | some s1 =>
      have hs : stepP c (st, false) t = (s1, false) := by simp [stepP, h]
      simp only [hs]
      exact ih s1

end CalicoVerif.C27
