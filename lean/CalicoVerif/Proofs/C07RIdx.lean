import CalicoVerif.Proofs.C07Restr
/-! C07 helper lemmas: the structural model of `LabelRestrictionIndex` (nested maps
with clean-up) refines its specification `RIdx.candidates`. -/
namespace CalicoVerif.C07
open CalicoVerif.C06

/-! ### id sets -/

theorem mem_addId {id x : Nat} {ids : List Nat} : x ∈ addId id ids ↔ x = id ∨ x ∈ ids := by
  unfold addId
  by_cases h : ids.contains id = true
  · simp only [h, if_true]
    constructor
    · exact Or.inr
    · rintro (rfl | h')
      · simpa using h
      · exact h'
  · have h' : id ∉ ids := by simpa using h
    simp [h']

theorem mem_filter_ne {id x : Nat} {ids : List Nat} : x ∈ ids.filter (· ≠ id) ↔ x ∈ ids ∧ x ≠ id := by
  simp

/-! ### one sub-index -/

def SubIdx.ids (s : SubIdx) (v : Str) : List Nat := (lookup v s.specific).getD []

theorem SubIdx.eq_default_of_isEmpty {s : SubIdx} (h : s.isEmpty = true) : s = {} := by
  obtain ⟨sp, w⟩ := s
  simp only [SubIdx.isEmpty, Bool.and_eq_true, List.isEmpty_iff] at h
  obtain ⟨rfl, rfl⟩ := h
  rfl

theorem ids_add (s : SubIdx) (v : Str) (id : Nat) (v' : Str) (x : Nat) :
    x ∈ (s.add v id).ids v' ↔ (v' = v ∧ x = id) ∨ x ∈ s.ids v' := by
  unfold SubIdx.add SubIdx.ids
  simp only [lookup_insert]
  by_cases h : v = v'
  · subst h
    simp [mem_addId]
  · have h' : ¬ v' = v := fun e => h e.symm
    simp [h, h']

theorem wildcard_add (s : SubIdx) (v : Str) (id : Nat) : (s.add v id).wildcard = s.wildcard := rfl

theorem ids_remove (s : SubIdx) (v : Str) (id : Nat) (v' : Str) (x : Nat) :
    x ∈ (s.remove v id).ids v' ↔ x ∈ s.ids v' ∧ ¬ (v' = v ∧ x = id) := by
  unfold SubIdx.remove SubIdx.ids
  cases hl : lookup v s.specific with
  | none =>
    simp only []
    constructor
    · intro hx
      refine ⟨hx, ?_⟩
      rintro ⟨rfl, _⟩
      simp [hl] at hx
    · exact And.left
  | some ids =>
    simp only []
    by_cases he : (ids.filter (· ≠ id)).isEmpty = true
    · rw [if_pos he]
      simp only [lookup_erase]
      by_cases h : v' = v
      · subst h
        simp only [if_true, Option.getD_none, List.not_mem_nil, hl, Option.getD_some, true_and, false_iff,
          not_and]
        intro hx hne
        have : x ∉ ids.filter (· ≠ id) := by
          rw [List.isEmpty_iff.mp he]; simp
        exact this (mem_filter_ne.mpr ⟨hx, hne⟩)
      · simp [h]
    · rw [if_neg he]
      simp only [lookup_insert]
      by_cases h : v = v'
      · subst h
        simp [hl]
      · have h' : ¬ v' = v := fun e => h e.symm
        simp [h, h']

theorem wildcard_remove (s : SubIdx) (v : Str) (id : Nat) : (s.remove v id).wildcard = s.wildcard := by
  unfold SubIdx.remove
  split
  · rfl
  · split <;> rfl

theorem ids_foldl_add (id : Nat) (v' : Str) (x : Nat) : ∀ (vs : List Str) (s : SubIdx),
    x ∈ (vs.foldl (fun sub v => sub.add v id) s).ids v' ↔ (v' ∈ vs ∧ x = id) ∨ x ∈ s.ids v'
  | [], s => by simp
  | v :: vs, s => by
    simp only [List.foldl_cons]
    rw [ids_foldl_add id v' x vs, ids_add]
    simp only [List.mem_cons]
    constructor
    · rintro (⟨h1, h2⟩ | ⟨h1, h2⟩ | h)
      · exact Or.inl ⟨Or.inr h1, h2⟩
      · exact Or.inl ⟨Or.inl h1, h2⟩
      · exact Or.inr h
    · rintro (⟨h1 | h1, h2⟩ | h)
      · exact Or.inr (Or.inl ⟨h1, h2⟩)
      · exact Or.inl ⟨h1, h2⟩
      · exact Or.inr (Or.inr h)

theorem wildcard_foldl_add (id : Nat) : ∀ (vs : List Str) (s : SubIdx),
    (vs.foldl (fun sub v => sub.add v id) s).wildcard = s.wildcard
  | [], _ => rfl
  | v :: vs, s => by simp only [List.foldl_cons]; rw [wildcard_foldl_add id vs]; rfl

theorem ids_foldl_remove (id : Nat) (v' : Str) (x : Nat) : ∀ (vs : List Str) (s : SubIdx),
    x ∈ (vs.foldl (fun sub v => sub.remove v id) s).ids v' ↔ x ∈ s.ids v' ∧ ¬ (v' ∈ vs ∧ x = id)
  | [], s => by simp
  | v :: vs, s => by
    simp only [List.foldl_cons]
    rw [ids_foldl_remove id v' x vs, ids_remove]
    simp only [List.mem_cons]
    constructor
    · rintro ⟨⟨h1, h2⟩, h3⟩
      refine ⟨h1, ?_⟩
      rintro ⟨h4 | h4, h5⟩
      · exact h2 ⟨h4, h5⟩
      · exact h3 ⟨h4, h5⟩
    · rintro ⟨h1, h2⟩
      exact ⟨⟨h1, fun h => h2 ⟨Or.inl h.1, h.2⟩⟩, fun h => h2 ⟨Or.inr h.1, h.2⟩⟩

theorem wildcard_foldl_remove (id : Nat) : ∀ (vs : List Str) (s : SubIdx),
    (vs.foldl (fun sub v => sub.remove v id) s).wildcard = s.wildcard
  | [], _ => rfl
  | v :: vs, s => by simp only [List.foldl_cons]; rw [wildcard_foldl_remove id vs, wildcard_remove]

/-! ### the label map -/

theorem getSub_putSub (st : RIdxS) (l : Str) (sub : SubIdx) (l' : Str) :
    (st.putSub l sub).getSub l' = if l = l' then sub else st.getSub l' := by
  unfold RIdxS.putSub RIdxS.getSub
  by_cases he : sub.isEmpty = true
  · rw [if_pos he]
    simp only [lookup_erase]
    by_cases h : l = l'
    · subst h
      simp [SubIdx.eq_default_of_isEmpty he]
    · have h' : ¬ l' = l := fun e => h e.symm
      simp [h, h']
  · rw [if_neg he]
    simp only [lookup_insert]
    by_cases h : l = l'
    · simp [h]
    · simp [h]

theorem sels_putSub (st : RIdxS) (l : Str) (sub : SubIdx) : (st.putSub l sub).sels = st.sels := by
  unfold RIdxS.putSub; split <;> rfl

theorem unopt_putSub (st : RIdxS) (l : Str) (sub : SubIdx) : (st.putSub l sub).unopt = st.unopt := by
  unfold RIdxS.putSub; split <;> rfl

def RIdxS.specIds (st : RIdxS) (l v : Str) : List Nat := (st.getSub l).ids v
def RIdxS.wildIds (st : RIdxS) (l : Str) : List Nat := (st.getSub l).wildcard

/-- where a selector is filed. -/
def inSpec (n : Node) (l v : Str) : Prop := ∃ vs, filing n = .values l vs ∧ v ∈ vs
def inWild (n : Node) (l : Str) : Prop := filing n = .wildcard l
def inUnopt (n : Node) : Prop := filing n = .unoptimized

/-! ### un-filing -/

theorem sels_unfile (st : RIdxS) (id : Nat) (n : Node) : (st.unfile id n).sels = st.sels := by
  unfold RIdxS.unfile
  split <;> simp [sels_putSub]

theorem specIds_unfile (st : RIdxS) (id : Nat) (n : Node) (l v : Str) (x : Nat) :
    x ∈ (st.unfile id n).specIds l v ↔ x ∈ st.specIds l v ∧ ¬ (x = id ∧ inSpec n l v) := by
  unfold RIdxS.unfile inSpec RIdxS.specIds
  cases hf : filing n with
  | impossible => simp
  | unoptimized => simp [RIdxS.getSub]
  | wildcard l0 =>
    simp only [getSub_putSub]
    by_cases h : l0 = l
    · subst h; simp [SubIdx.removeWildcard, SubIdx.ids]
    · simp [h]
  | values l0 vs =>
    simp only [getSub_putSub]
    by_cases h : l0 = l
    · subst h
      simp only [if_true, ids_foldl_remove, Filing.values.injEq, true_and, exists_eq_left']
      constructor
      · rintro ⟨h1, h2⟩; exact ⟨h1, fun h3 => h2 ⟨h3.2, h3.1⟩⟩
      · rintro ⟨h1, h2⟩; exact ⟨h1, fun h3 => h2 ⟨h3.2, h3.1⟩⟩
    · simp [h]

theorem wildIds_unfile (st : RIdxS) (id : Nat) (n : Node) (l : Str) (x : Nat) :
    x ∈ (st.unfile id n).wildIds l ↔ x ∈ st.wildIds l ∧ ¬ (x = id ∧ inWild n l) := by
  unfold RIdxS.unfile inWild RIdxS.wildIds
  cases hf : filing n with
  | impossible => simp
  | unoptimized => simp [RIdxS.getSub]
  | wildcard l0 =>
    simp only [getSub_putSub]
    by_cases h : l0 = l
    · subst h
      simp only [if_true, SubIdx.removeWildcard, mem_filter_ne, ne_eq, and_true]
    · simp [h]
  | values l0 vs =>
    simp only [getSub_putSub]
    by_cases h : l0 = l
    · subst h; simp [wildcard_foldl_remove]
    · simp [h]

theorem unopt_unfile (st : RIdxS) (id : Nat) (n : Node) (x : Nat) :
    x ∈ (st.unfile id n).unopt ↔ x ∈ st.unopt ∧ ¬ (x = id ∧ inUnopt n) := by
  unfold RIdxS.unfile inUnopt
  cases hf : filing n with
  | impossible => simp
  | unoptimized => simp
  | wildcard l0 => simp [unopt_putSub]
  | values l0 vs => simp [unopt_putSub]

/-! ### filing -/

/-- the filing half of `AddSelector`. -/
def RIdxS.file (st : RIdxS) (id : Nat) (n : Node) : RIdxS :=
  match filing n with
  | .impossible => st
  | .values l vs => st.putSub l (vs.foldl (fun sub v => sub.add v id) (st.getSub l))
  | .wildcard l => st.putSub l ((st.getSub l).addWildcard id)
  | .unoptimized => { st with unopt := addId id st.unopt }

theorem addSelector_eq (st : RIdxS) (id : Nat) (n : Node) :
    st.addSelector id n =
      RIdxS.file { st.deleteSelector id with sels := insert id n (st.deleteSelector id).sels } id n := by
  unfold RIdxS.addSelector RIdxS.file
  simp only []
  cases filing n <;> rfl

theorem sels_file (st : RIdxS) (id : Nat) (n : Node) : (st.file id n).sels = st.sels := by
  unfold RIdxS.file
  split <;> simp [sels_putSub]

theorem specIds_file (st : RIdxS) (id : Nat) (n : Node) (l v : Str) (x : Nat) :
    x ∈ (st.file id n).specIds l v ↔ (x = id ∧ inSpec n l v) ∨ x ∈ st.specIds l v := by
  unfold RIdxS.file inSpec RIdxS.specIds
  cases hf : filing n with
  | impossible => simp
  | unoptimized => simp [RIdxS.getSub]
  | wildcard l0 =>
    simp only [getSub_putSub]
    by_cases h : l0 = l
    · subst h; simp [SubIdx.addWildcard, SubIdx.ids]
    · simp [h]
  | values l0 vs =>
    simp only [getSub_putSub]
    by_cases h : l0 = l
    · subst h
      simp only [if_true, ids_foldl_add, Filing.values.injEq, true_and, exists_eq_left']
      constructor
      · rintro (⟨h1, h2⟩ | h1)
        · exact Or.inl ⟨h2, h1⟩
        · exact Or.inr h1
      · rintro (⟨h1, h2⟩ | h1)
        · exact Or.inl ⟨h2, h1⟩
        · exact Or.inr h1
    · simp [h]

theorem wildIds_file (st : RIdxS) (id : Nat) (n : Node) (l : Str) (x : Nat) :
    x ∈ (st.file id n).wildIds l ↔ (x = id ∧ inWild n l) ∨ x ∈ st.wildIds l := by
  unfold RIdxS.file inWild RIdxS.wildIds
  cases hf : filing n with
  | impossible => simp
  | unoptimized => simp [RIdxS.getSub]
  | wildcard l0 =>
    simp only [getSub_putSub]
    by_cases h : l0 = l
    · subst h
      simp only [if_true, SubIdx.addWildcard, mem_addId, and_true]
    · simp [h]
  | values l0 vs =>
    simp only [getSub_putSub]
    by_cases h : l0 = l
    · subst h; simp [wildcard_foldl_add]
    · simp [h]

theorem unopt_file (st : RIdxS) (id : Nat) (n : Node) (x : Nat) :
    x ∈ (st.file id n).unopt ↔ (x = id ∧ inUnopt n) ∨ x ∈ st.unopt := by
  unfold RIdxS.file inUnopt
  cases hf : filing n with
  | impossible => simp
  | unoptimized => simp [mem_addId]
  | wildcard l0 => simp [unopt_putSub]
  | values l0 vs => simp [unopt_putSub]

/-! ### the representation invariant -/

/-- Every id sits exactly in the places its selector's filing says. -/
structure RInv (st : RIdxS) : Prop where
  selsNodup : KeysNodup st.sels
  spec : ∀ x l v, x ∈ st.specIds l v ↔ ∃ n, lookup x st.sels = some n ∧ inSpec n l v
  wild : ∀ x l, x ∈ st.wildIds l ↔ ∃ n, lookup x st.sels = some n ∧ inWild n l
  unopt : ∀ x, x ∈ st.unopt ↔ ∃ n, lookup x st.sels = some n ∧ inUnopt n

theorem rinv_empty : RInv {} := by
  refine ⟨by simp [KeysNodup], ?_, ?_, ?_⟩ <;>
    simp [RIdxS.specIds, RIdxS.wildIds, RIdxS.getSub, SubIdx.ids, lookup]

/-- generic step for deletion: "old members except `id`" is "members w.r.t. `erase id`". -/
theorem erase_step {sels : List (Nat × Node)} {id : Nat} {n : Node} (hl : lookup id sels = some n)
    (P : Node → Prop) (x : Nat) :
    ((∃ m, lookup x sels = some m ∧ P m) ∧ ¬ (x = id ∧ P n)) ↔
      ∃ m, lookup x (erase id sels) = some m ∧ P m := by
  simp only [lookup_erase]
  by_cases hx : x = id
  · subst hx
    simp only [hl, Option.some.injEq, exists_eq_left', true_and, if_true, reduceCtorEq, false_and,
      exists_false, iff_false, not_and, Classical.not_not]
    exact fun h => h
  · simp [hx]

theorem deleteSelector_rinv {st : RIdxS} (h : RInv st) (id : Nat) : RInv (st.deleteSelector id) := by
  unfold RIdxS.deleteSelector
  cases hl : lookup id st.sels with
  | none => exact h
  | some n =>
    simp only []
    refine ⟨?_, ?_, ?_, ?_⟩
    · simp only [sels_unfile]; exact keysNodup_erase id h.selsNodup
    · intro x l v
      have := specIds_unfile st id n l v x
      simp only [RIdxS.specIds, RIdxS.getSub] at this ⊢
      rw [this, sels_unfile]
      have hs := h.spec x l v
      simp only [RIdxS.specIds, RIdxS.getSub] at hs
      rw [hs]
      exact erase_step hl (fun m => inSpec m l v) x
    · intro x l
      have := wildIds_unfile st id n l x
      simp only [RIdxS.wildIds, RIdxS.getSub] at this ⊢
      rw [this, sels_unfile]
      have hs := h.wild x l
      simp only [RIdxS.wildIds, RIdxS.getSub] at hs
      rw [hs]
      exact erase_step hl (fun m => inWild m l) x
    · intro x
      simp only []
      rw [unopt_unfile, sels_unfile, h.unopt x]
      exact erase_step hl (fun m => inUnopt m) x

theorem lookup_deleteSelector (st : RIdxS) (id : Nat) : lookup id (st.deleteSelector id).sels = none := by
  unfold RIdxS.deleteSelector
  cases hl : lookup id st.sels with
  | none => simpa using hl
  | some n => simp [lookup_erase]

/-- generic step for insertion. -/
theorem insert_step {sels : List (Nat × Node)} {id : Nat} (n : Node) (hl : lookup id sels = none)
    (P : Node → Prop) (x : Nat) :
    ((x = id ∧ P n) ∨ ∃ m, lookup x sels = some m ∧ P m) ↔
      ∃ m, lookup x (insert id n sels) = some m ∧ P m := by
  simp only [lookup_insert]
  by_cases hx : x = id
  · subst hx
    simp [hl]
  · have hx' : ¬ id = x := fun e => hx e.symm
    simp [hx, hx']

theorem addSelector_rinv {st : RIdxS} (h : RInv st) (id : Nat) (n : Node) : RInv (st.addSelector id n) := by
  rw [addSelector_eq]
  have h0 := deleteSelector_rinv h id
  have hl := lookup_deleteSelector st id
  generalize st.deleteSelector id = st0 at h0 hl
  refine ⟨?_, ?_, ?_, ?_⟩
  · rw [sels_file]; exact keysNodup_insert id n h0.selsNodup
  · intro x l v
    rw [specIds_file, sels_file]
    have hs := h0.spec x l v
    simp only [RIdxS.specIds, RIdxS.getSub] at hs ⊢
    rw [hs]
    exact insert_step n hl (fun m => inSpec m l v) x
  · intro x l
    rw [wildIds_file, sels_file]
    have hs := h0.wild x l
    simp only [RIdxS.wildIds, RIdxS.getSub] at hs ⊢
    rw [hs]
    exact insert_step n hl (fun m => inWild m l) x
  · intro x
    rw [unopt_file, sels_file, h0.unopt x]
    exact insert_step n hl (fun m => inUnopt m) x

/-! ### refinement: the emitted ids are the specified candidates -/

theorem lookup_of_mem_keysNodup {α β} [DecidableEq α] {k : α} {v : β} : ∀ {l : List (α × β)}, KeysNodup l →
    (k, v) ∈ l → lookup k l = some v
  | [], _, h => by cases h
  | (a, b) :: rest, hn, h => by
    unfold KeysNodup at hn
    simp only [List.map_cons, List.nodup_cons] at hn
    rcases List.mem_cons.mp h with e | h
    · cases e; simp [lookup]
    · have hak : ¬ a = k := by
        rintro rfl
        exact hn.1 (List.mem_map.mpr ⟨(a, v), h, rfl⟩)
      simp only [lookup, hak, if_false]
      exact lookup_of_mem_keysNodup hn.2 h

theorem mem_potentialMatches (st : RIdxS) (kvs : List (Str × Str)) (x : Nat) :
    x ∈ st.potentialMatches kvs ↔
      (∃ kv ∈ kvs, x ∈ st.wildIds kv.1 ∨ x ∈ st.specIds kv.1 kv.2) ∨ x ∈ st.unopt := by
  unfold RIdxS.potentialMatches RIdxS.wildIds RIdxS.specIds RIdxS.getSub SubIdx.ids
  simp only [List.mem_append, List.mem_flatMap]
  apply or_congr _ Iff.rfl
  apply exists_congr
  intro kv
  apply and_congr Iff.rfl
  cases lookup kv.1 st.byLabel with
  | none => simp [lookup]
  | some sub => simp

theorem isCandidate_iff (n : Node) (kvs : List (Str × Str)) :
    isCandidate n kvs = true ↔
      inUnopt n ∨ (∃ kv ∈ kvs, inWild n kv.1) ∨ (∃ kv ∈ kvs, inSpec n kv.1 kv.2) := by
  unfold isCandidate inUnopt inWild inSpec
  cases filing n with
  | unoptimized => simp
  | impossible => simp
  | values l vs =>
    simp only [List.any_eq_true, Bool.and_eq_true, decide_eq_true_eq, List.contains_iff_mem, reduceCtorEq,
      false_or, Filing.values.injEq, exists_false, and_false]
    constructor
    · rintro ⟨kv, hm, h1, h2⟩
      exact ⟨kv, hm, vs, ⟨h1.symm, rfl⟩, h2⟩
    · rintro ⟨kv, hm, vs', ⟨h1, h2⟩, h3⟩
      subst h2
      exact ⟨kv, hm, h1.symm, h3⟩
  | wildcard l =>
    simp only [List.any_eq_true, decide_eq_true_eq, reduceCtorEq, false_or, Filing.wildcard.injEq,
      exists_false, and_false, or_false]
    constructor
    · rintro ⟨kv, hm, h1⟩; exact Or.inl ⟨kv, hm, h1.symm⟩
    · rintro (⟨kv, hm, h1⟩ | ⟨kv, _, vs, hf, _⟩)
      · exact ⟨kv, hm, h1.symm⟩
      · exact hf.elim

/-- MAIN (refinement): in every state satisfying the representation invariant, the ids
`AllPotentialMatches` emits are exactly the specified candidates of the stored selectors. -/
theorem potentialMatches_eq_candidates {st : RIdxS} (h : RInv st) (kvs : List (Str × Str)) (x : Nat) :
    x ∈ st.potentialMatches kvs ↔ x ∈ RIdx.candidates st.sels kvs := by
  rw [mem_potentialMatches]
  unfold RIdx.candidates
  simp only [List.mem_map, List.mem_filter]
  constructor
  · rintro (⟨kv, hm, hw | hs⟩ | hu)
    · obtain ⟨n, hl, hn⟩ := (h.wild x kv.1).mp hw
      exact ⟨(x, n), ⟨mem_of_lookup hl, (isCandidate_iff n kvs).mpr (Or.inr (Or.inl ⟨kv, hm, hn⟩))⟩, rfl⟩
    · obtain ⟨n, hl, hn⟩ := (h.spec x kv.1 kv.2).mp hs
      exact ⟨(x, n), ⟨mem_of_lookup hl, (isCandidate_iff n kvs).mpr (Or.inr (Or.inr ⟨kv, hm, hn⟩))⟩, rfl⟩
    · obtain ⟨n, hl, hn⟩ := (h.unopt x).mp hu
      exact ⟨(x, n), ⟨mem_of_lookup hl, (isCandidate_iff n kvs).mpr (Or.inl hn)⟩, rfl⟩
  · rintro ⟨⟨x', n⟩, ⟨hm, hc⟩, rfl⟩
    have hl := lookup_of_mem_keysNodup h.selsNodup hm
    rcases (isCandidate_iff n kvs).mp hc with hu | ⟨kv, hkv, hw⟩ | ⟨kv, hkv, hs⟩
    · exact Or.inr ((h.unopt x').mpr ⟨n, hl, hu⟩)
    · exact Or.inl ⟨kv, hkv, Or.inl ((h.wild x' kv.1).mpr ⟨n, hl, hw⟩)⟩
    · exact Or.inl ⟨kv, hkv, Or.inr ((h.spec x' kv.1 kv.2).mpr ⟨n, hl, hs⟩)⟩

end CalicoVerif.C07
