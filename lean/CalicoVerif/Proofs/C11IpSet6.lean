import CalicoVerif.Proofs.C11IpSet
/-!
C11 — the IP-set lookup fragment for IPv6: the 32-byte LPM key (prefix 224, big-endian set id,
16 address bytes copied by two 64-bit moves, port, protocol, pad) is on the stack byte for byte.
-/
namespace CalicoVerif.C11

/-- The stack after `setUpIPSetKey` (IPv6) wrote the key at index `kk`. -/
def keyStack6 (s : Nat → Option Byte) (kk : Nat) (a0 a1 p q lo hi : Nat) : Nat → Option Byte :=
  writeStack (writeStack (writeStack (writeStack (writeStack (writeStack (writeStack (writeStack s (kk + 31) (toLE 0 1))
    kk (toLE 224 4)) (kk + 12) (toLE a0 8)) (kk + 20) (toLE a1 8)) (kk + 28) (toLE p 2)) (kk + 30) (toLE q 1))
    (kk + 4) (toLE lo 4)) (kk + 8) (toLE hi 4)

theorem readStack_keyStack6 (s : Nat → Option Byte) (kk a0 a1 p q lo hi : Nat) (hk : kk = 476 ∨ kk = 444) :
    readStack (keyStack6 s kk a0 a1 p q lo hi) kk 32 =
      some (toLE 224 4 ++ toLE lo 4 ++ toLE hi 4 ++ toLE a0 8 ++ toLE a1 8 ++ toLE p 2 ++ toLE q 1 ++ toLE 0 1) := by
  rcases hk with rfl | rfl <;> simp [readStack, keyStack6, writeStack, toLE]

theorem ipsetLookup_key6 (env : Env) (m : Mach) (s : Nat → Option Byte) (kk a0 a1 p q lo hi : Nat)
    (hv6 : env.c.v6 = true) (hst : m.stack = keyStack6 s kk a0 a1 p q lo hi) (hk : kk = 476 ∨ kk = 444) :
    ipsetLookup env m kk = some (env.member
      (rev64bv (BitVec.ofNat 64 (lo % 4294967296 + 4294967296 * (hi % 4294967296)))).toNat
      [BitVec.ofNat 32 a0, BitVec.ofNat 32 (a0 / 256 / 256 / 256 / 256),
       BitVec.ofNat 32 a1, BitVec.ofNat 32 (a1 / 256 / 256 / 256 / 256)] (BitVec.ofNat 16 p) (BitVec.ofNat 8 q)) := by
  unfold ipsetLookup
  simp only [hv6, hst, if_true]
  rw [readStack_keyStack6 s kk a0 a1 p q lo hi hk]
  have h32 : ∀ x : Nat, BitVec.ofNat 32 (x % 4294967296) = BitVec.ofNat 32 x := by
    intro x; apply BitVec.eq_of_toNat_eq; simp
  have h16 : BitVec.ofNat 16 (p % 65536) = BitVec.ofNat 16 p := by apply BitVec.eq_of_toNat_eq; simp
  simp [toLE, leNat4, leNat2, leNat8, List.range, List.range.loop, h32, h16]
  decide

theorem step_call_ipset6 (env : Env) (m : Mach) (kk : Nat) (b : Bool) (hv6 : env.c.v6 = true)
    (hfd : mapHandle env.c.ipSetMapFD ≠ mapHandle env.c.stateMapFD)
    (h1 : m.reg 1 = some (mapHandle env.c.ipSetMapFD))
    (h2 : m.reg 2 = some (stackW + BitVec.ofInt 64 ((kk : Int) - 512))) (hk : kk + 32 ≤ 512)
    (hl : ipsetLookup env m kk = some b) (nxt : Option Insn) :
    step env ⟨opCall, 0, 0, 0, helperMapLookupElem⟩ nxt m =
      .next ((m.clobber).setReg 0 (if b then BitVec.ofNat 64 ipsetValPtr else 0)) := by
  have hr := region_stack kk 32 hk
  simp [step, opCall, opLoadImm64, opJumpA, opExit, helperCall, helperMapLookupElem, h1, h2, hfd, hv6, hr, hl]


/-! ### Instruction pairs "value into R1, R1 onto the stack" -/

def StOp (op n : Nat) : Prop :=
  (op = opStoreReg8 ∧ n = 1) ∨ (op = opStoreReg16 ∧ n = 2) ∨ (op = opStoreReg32 ∧ n = 4) ∨ (op = opStoreReg64 ∧ n = 8)
def LdOp (op n : Nat) : Prop :=
  (op = opLoadReg8 ∧ n = 1) ∨ (op = opLoadReg16 ∧ n = 2) ∨ (op = opLoadReg32 ∧ n = 4) ∨ (op = opLoadReg64 ∧ n = 8)

theorem pair_imm64 (env : Env) (st : List Byte) (imm : Int) (op k n : Nat) (hop : StOp op n) (hk : k + n ≤ 512)
    (rest : List Ev) (m : Mach) (hI : Inv st m) :
    ∃ m', Inv st m' ∧ m'.stack = writeStack m.stack k (toLE (sext32 imm).toNat n) ∧
      lrun env (movImm64 R1 imm :: .ins ⟨op, 10, 1, ((k : Nat) : Int) - 512, 0⟩ :: rest) m = lrun env rest m' := by
  have rl : 1 < m.regs.length := by rw [hI.regsLen]; omega
  have hI1 := hI.setReg 1 (sext32 imm) (by omega) (by omega) (by omega)
  have e2 := step_stx_stack (env := env) hI1 op 1 k n 0 (x := sext32 imm) (hop := hop) (hk := hk)
    (hv := reg_setReg_eq rl)
  refine ⟨_, hI1.setStack (writeStack (m.setReg 1 (sext32 imm)).stack k (toLE (sext32 imm).toNat n)), rfl, ?_⟩
  simp only [movImm64, mk, R1]
  refine (lrun_ins_next (step_movImm64 env m 1 0 imm _ (by omega))).trans ?_
  exact lrun_ins_next (e2 _)

theorem pair_imm32 (env : Env) (st : List Byte) (imm : Int) (op k n : Nat) (hop : StOp op n) (hk : k + n ≤ 512)
    (rest : List Ev) (m : Mach) (hI : Inv st m) :
    ∃ m', Inv st m' ∧ m'.stack = writeStack m.stack k (toLE (((sext32 imm).setWidth 32).setWidth 64).toNat n) ∧
      lrun env (movImm32 R1 imm :: .ins ⟨op, 10, 1, ((k : Nat) : Int) - 512, 0⟩ :: rest) m = lrun env rest m' := by
  have rl : 1 < m.regs.length := by rw [hI.regsLen]; omega
  have hI1 := hI.setReg 1 (((sext32 imm).setWidth 32).setWidth 64) (by omega) (by omega) (by omega)
  have e2 := step_stx_stack (env := env) hI1 op 1 k n 0 (x := ((sext32 imm).setWidth 32).setWidth 64) (hop := hop)
    (hk := hk) (hv := reg_setReg_eq rl)
  refine ⟨_, hI1.setStack (writeStack (m.setReg 1 (((sext32 imm).setWidth 32).setWidth 64)).stack k
    (toLE (((sext32 imm).setWidth 32).setWidth 64).toNat n)), rfl, ?_⟩
  simp only [movImm32, mk, R1]
  refine (lrun_ins_next (step_movImm32 env m 1 0 imm _ (by omega))).trans ?_
  exact lrun_ins_next (e2 _)

theorem pair_field (env : Env) (st : List Byte) (lop off ln : Nat) (hlop : LdOp lop ln) (hoff : off + ln ≤ 512)
    (hstab : ∀ j, off ≤ j → j < off + ln → Stable j)
    (op k n : Nat) (hop : StOp op n) (hk : k + n ≤ 512)
    (rest : List Ev) (m : Mach) (hI : Inv st m) :
    ∃ m', Inv st m' ∧ m'.stack = writeStack m.stack k (toLE (BitVec.ofNat 64 (fieldN st off ln)).toNat n) ∧
      lrun env (.ins ⟨lop, 1, 9, ((off : Nat) : Int), 0⟩ :: .ins ⟨op, 10, 1, ((k : Nat) : Int) - 512, 0⟩ :: rest) m =
        lrun env rest m' := by
  have rl : 1 < m.regs.length := by rw [hI.regsLen]; omega
  have e1 := step_ldx_state (env := env) hI lop 1 off ln 0 (bs := (st.drop off).take ln)
    (hop := hlop) (hd := by omega) (hk := hoff) (hb := getBytes_full hI.stLen off ln hoff) (hstab := hstab)
  have hI1 := hI.setReg 1 (BitVec.ofNat 64 (fieldN st off ln)) (by omega) (by omega) (by omega)
  have e2 := step_stx_stack (env := env) hI1 op 1 k n 0 (x := BitVec.ofNat 64 (fieldN st off ln)) (hop := hop)
    (hk := hk) (hv := reg_setReg_eq rl)
  refine ⟨_, hI1.setStack (writeStack (m.setReg 1 (BitVec.ofNat 64 (fieldN st off ln))).stack k
    (toLE (BitVec.ofNat 64 (fieldN st off ln)).toNat n)), rfl, ?_⟩
  refine (lrun_ins_next (e1 _)).trans ?_
  exact lrun_ins_next (e2 _)

/-- The 16 instructions of `setUpIPSetKey` for IPv6. -/
def keyEvs6 (lo hi : Int) (kk ipo pto : Nat) : List Ev :=
  [movImm64 R1 0, .ins ⟨opStoreReg8, 10, 1, ((kk + 31 : Nat) : Int) - 512, 0⟩,
   movImm64 R1 224, .ins ⟨opStoreReg32, 10, 1, ((kk : Nat) : Int) - 512, 0⟩,
   .ins ⟨opLoadReg64, 1, 9, ((ipo : Nat) : Int), 0⟩, .ins ⟨opStoreReg64, 10, 1, ((kk + 12 : Nat) : Int) - 512, 0⟩,
   .ins ⟨opLoadReg64, 1, 9, ((ipo + 8 : Nat) : Int), 0⟩, .ins ⟨opStoreReg64, 10, 1, ((kk + 20 : Nat) : Int) - 512, 0⟩,
   .ins ⟨opLoadReg16, 1, 9, ((pto : Nat) : Int), 0⟩, .ins ⟨opStoreReg16, 10, 1, ((kk + 28 : Nat) : Int) - 512, 0⟩,
   .ins ⟨opLoadReg8, 1, 9, ((104 : Nat) : Int), 0⟩, .ins ⟨opStoreReg8, 10, 1, ((kk + 30 : Nat) : Int) - 512, 0⟩,
   movImm32 R1 lo, .ins ⟨opStoreReg32, 10, 1, ((kk + 4 : Nat) : Int) - 512, 0⟩,
   movImm32 R1 hi, .ins ⟨opStoreReg32, 10, 1, ((kk + 8 : Nat) : Int) - 512, 0⟩]

theorem lrun_keyEvs6 (env : Env) (st : List Byte) (lo hi : Int) (kk ipo pto : Nat) (rest : List Ev) (m : Mach)
    (hI : Inv st m)
    (hk : kk = 476 ∨ kk = 444) (hipo : ipo + 16 ≤ 512) (hpto : pto + 2 ≤ 512)
    (hsi : ∀ j, ipo ≤ j → j < ipo + 16 → Stable j) (hsp : ∀ j, pto ≤ j → j < pto + 2 → Stable j) :
    ∃ m', Inv st m' ∧
      m'.stack = keyStack6 m.stack kk (BitVec.ofNat 64 (fieldN st ipo 8)).toNat (BitVec.ofNat 64 (fieldN st (ipo + 8) 8)).toNat
        (BitVec.ofNat 64 (fieldN st pto 2)).toNat (BitVec.ofNat 64 (fieldN st 104 1)).toNat
        (((sext32 lo).setWidth 32).setWidth 64).toNat (((sext32 hi).setWidth 32).setWidth 64).toNat ∧
      lrun env (keyEvs6 lo hi kk ipo pto ++ rest) m = lrun env rest m' := by
  have hkk : kk + 32 ≤ 512 := by rcases hk with rfl | rfl <;> omega
  simp only [keyEvs6, List.cons_append, List.nil_append]
  obtain ⟨m1, hI1, s1, e1⟩ := pair_imm64 env st 0 opStoreReg8 (kk + 31) 1 (Or.inl ⟨rfl, rfl⟩) (by omega) _ m hI
  rw [e1]
  obtain ⟨m2, hI2, s2, e2⟩ := pair_imm64 env st 224 opStoreReg32 kk 4 (Or.inr (Or.inr (Or.inl ⟨rfl, rfl⟩))) (by omega) _ m1 hI1
  rw [e2]
  obtain ⟨m3, hI3, s3, e3⟩ := pair_field env st opLoadReg64 ipo 8 (Or.inr (Or.inr (Or.inr ⟨rfl, rfl⟩))) (by omega)
    (fun j h1 h2 => hsi j h1 (by omega)) opStoreReg64 (kk + 12) 8 (Or.inr (Or.inr (Or.inr ⟨rfl, rfl⟩))) (by omega) _ m2 hI2
  rw [e3]
  obtain ⟨m4, hI4, s4, e4⟩ := pair_field env st opLoadReg64 (ipo + 8) 8 (Or.inr (Or.inr (Or.inr ⟨rfl, rfl⟩))) (by omega)
    (fun j h1 h2 => hsi j (by omega) (by omega)) opStoreReg64 (kk + 20) 8 (Or.inr (Or.inr (Or.inr ⟨rfl, rfl⟩))) (by omega) _ m3 hI3
  rw [e4]
  obtain ⟨m5, hI5, s5, e5⟩ := pair_field env st opLoadReg16 pto 2 (Or.inr (Or.inl ⟨rfl, rfl⟩)) hpto hsp
    opStoreReg16 (kk + 28) 2 (Or.inr (Or.inl ⟨rfl, rfl⟩)) (by omega) _ m4 hI4
  rw [e5]
  obtain ⟨m6, hI6, s6, e6⟩ := pair_field env st opLoadReg8 104 1 (Or.inl ⟨rfl, rfl⟩) (by omega)
    (by intro j h1 h2; unfold Stable; omega) opStoreReg8 (kk + 30) 1 (Or.inl ⟨rfl, rfl⟩) (by omega) _ m5 hI5
  rw [e6]
  obtain ⟨m7, hI7, s7, e7⟩ := pair_imm32 env st lo opStoreReg32 (kk + 4) 4 (Or.inr (Or.inr (Or.inl ⟨rfl, rfl⟩))) (by omega) _ m6 hI6
  rw [e7]
  obtain ⟨m8, hI8, s8, e8⟩ := pair_imm32 env st hi opStoreReg32 (kk + 8) 4 (Or.inr (Or.inr (Or.inl ⟨rfl, rfl⟩))) (by omega) rest m7 hI7
  rw [e8]
  refine ⟨m8, hI8, ?_, rfl⟩
  rw [s8, s7, s6, s5, s4, s3, s2, s1]
  rfl


/-- `ipSetLookup` (IPv6) with every offset explicit. -/
def lookupEvs6 (c : Cfg) (lo hi : Int) (kk ipo pto : Nat) : List Ev :=
  keyEvs6 lo hi kk ipo pto ++ loadMapFD R1 c.ipSetMapFD ++
  [mov64 R2 R10, .ins ⟨opAddImm64, 2, 0, 0, ((kk : Nat) : Int) - 512⟩, call helperMapLookupElem]

theorem lrun_lookupEvs6 (env : Env) (st : List Byte) (lo hi : Int) (kk ipo pto : Nat) (rest : List Ev) (m : Mach)
    (hI : Inv st m) (hv6 : env.c.v6 = true)
    (hfd : mapHandle env.c.ipSetMapFD ≠ mapHandle env.c.stateMapFD)
    (hk : kk = 476 ∨ kk = 444) (hipo : ipo + 16 ≤ 512) (hpto : pto + 2 ≤ 512)
    (hsi : ∀ j, ipo ≤ j → j < ipo + 16 → Stable j) (hsp : ∀ j, pto ≤ j → j < pto + 2 → Stable j) :
    ∃ m', Inv st m' ∧
      m'.reg 0 = some (if env.member
          (rev64bv (BitVec.ofNat 64 ((((sext32 lo).setWidth 32).setWidth 64).toNat % 4294967296 +
            4294967296 * ((((sext32 hi).setWidth 32).setWidth 64).toNat % 4294967296)))).toNat
          [BitVec.ofNat 32 (BitVec.ofNat 64 (fieldN st ipo 8)).toNat,
           BitVec.ofNat 32 ((BitVec.ofNat 64 (fieldN st ipo 8)).toNat / 256 / 256 / 256 / 256),
           BitVec.ofNat 32 (BitVec.ofNat 64 (fieldN st (ipo + 8) 8)).toNat,
           BitVec.ofNat 32 ((BitVec.ofNat 64 (fieldN st (ipo + 8) 8)).toNat / 256 / 256 / 256 / 256)]
          (BitVec.ofNat 16 (BitVec.ofNat 64 (fieldN st pto 2)).toNat)
          (BitVec.ofNat 8 (BitVec.ofNat 64 (fieldN st 104 1)).toNat)
        then BitVec.ofNat 64 ipsetValPtr else 0) ∧
      lrun env (lookupEvs6 env.c lo hi kk ipo pto ++ rest) m = lrun env rest m' := by
  have hkk : kk + 32 ≤ 512 := by rcases hk with rfl | rfl <;> omega
  obtain ⟨m1, hI1, hs1, e1⟩ := lrun_keyEvs6 env st lo hi kk ipo pto
    (loadMapFD R1 env.c.ipSetMapFD ++ [mov64 R2 R10, .ins ⟨opAddImm64, 2, 0, 0, ((kk : Nat) : Int) - 512⟩,
      call helperMapLookupElem] ++ rest) m hI hk hipo hpto hsi hsp
  have rl : ∀ {mm : Mach}, Inv st mm → ∀ r, r < 11 → r < mm.regs.length := fun h r hr => by rw [h.regsLen]; exact hr
  have hI2 := hI1.setReg 1 (mapHandle env.c.ipSetMapFD) (by omega) (by omega) (by omega)
  have hI3 := hI2.setReg 2 stackW (by omega) (by omega) (by omega)
  have hI4 := hI3.setReg 2 (stackW + sext32 (((kk : Nat) : Int) - 512)) (by omega) (by omega) (by omega)
  have h1 : ((((m1.setReg 1 (mapHandle env.c.ipSetMapFD)).setReg 2 stackW).setReg 2
      (stackW + sext32 (((kk : Nat) : Int) - 512))).reg 1) = some (mapHandle env.c.ipSetMapFD) := by
    rw [reg_setReg_ne (by omega), reg_setReg_ne (by omega)]
    exact reg_setReg_eq (rl hI1 1 (by omega))
  have h2 : ((((m1.setReg 1 (mapHandle env.c.ipSetMapFD)).setReg 2 stackW).setReg 2
      (stackW + sext32 (((kk : Nat) : Int) - 512))).reg 2) = some (stackW + BitVec.ofInt 64 (((kk : Nat) : Int) - 512)) :=
    reg_setReg_eq (rl hI3 2 (by omega))
  have hl := ipsetLookup_key6 env (((m1.setReg 1 (mapHandle env.c.ipSetMapFD)).setReg 2 stackW).setReg 2
      (stackW + sext32 (((kk : Nat) : Int) - 512))) m.stack kk _ _ _ _ _ _ hv6 hs1 hk
  generalize env.member _ _ _ _ = B at hl ⊢
  have ec := step_call_ipset6 env _ kk B hv6 hfd h1 h2 hkk hl
  have hrun : lrun env (lookupEvs6 env.c lo hi kk ipo pto ++ rest) m = lrun env rest
      (((((m1.setReg 1 (mapHandle env.c.ipSetMapFD)).setReg 2 stackW).setReg 2
        (stackW + sext32 (((kk : Nat) : Int) - 512))).clobber).setReg 0 (if B then BitVec.ofNat 64 ipsetValPtr else 0)) := by
    unfold lookupEvs6
    simp only [List.append_assoc] at e1 ⊢
    rw [e1]
    refine (lrun_loadMapFD env m1 1 _ _ (by omega)).trans ?_
    simp only [mov64, call, mk, R2, R10, List.cons_append, List.nil_append]
    refine (lrun_ins_next (step_mov64 env _ 2 10 0 0 _ stackW (by omega) hI2.r10)).trans ?_
    refine (lrun_ins_next (step_addImm64 env _ 2 0 _ _ stackW (by omega) (reg_setReg_eq (rl hI2 2 (by omega))))).trans ?_
    exact lrun_ins_next (ec _)
  exact ⟨_, (hI4.clobber).setReg 0 _ (by omega) (by omega) (by omega),
    reg_setReg_eq (by simp [Mach.clobber, Mach.setReg, hI1.regsLen]), hrun⟩

theorem ipSetLookup_eq6 (c : Cfg) (id : Nat) (leg : Leg) (hv6 : c.v6 = true) :
    ipSetLookup c id leg =
      lookupEvs6 c (toInt32 (rev64 id)) (toInt32 (rev64 id / 4294967296)) leg.kk leg.ipo leg.pto := by
  unfold ipSetLookup lookupEvs6 keyEvs6
  simp only [hv6, if_true, Bool.not_true, Bool.false_eq_true, if_false]
  cases leg <;> rfl

/-! ### Splitting a 64-bit little-endian field into its two 32-bit words -/

theorem leNat_append (a b : List Byte) : leNat (a ++ b) = leNat a + 256 ^ a.length * leNat b := by
  induction a with
  | nil => simp [leNat]
  | cons x xs ih => simp only [List.cons_append, leNat, ih, List.length_cons]; rw [Nat.pow_succ, Nat.mul_add, Nat.add_assoc, ← Nat.mul_assoc, Nat.mul_comm 256 (256 ^ xs.length)]

theorem field8_split (st : List Byte) (off : Nat) (h : off + 8 ≤ st.length) :
    fieldN st off 8 = fieldN st off 4 + 4294967296 * fieldN st (off + 4) 4 := by
  unfold fieldN
  have e : (st.drop off).take 8 = (st.drop off).take 4 ++ ((st.drop off).drop 4).take 4 := by
    rw [show (8 : Nat) = 4 + 4 from rfl, List.take_add]
  rw [e, leNat_append, List.drop_drop]
  have hl : ((st.drop off).take 4).length = 4 := by simp; omega
  rw [hl, show (256 : Nat) ^ 4 = 4294967296 from by decide]

theorem field4_lt (st : List Byte) (off : Nat) : fieldN st off 4 < 4294967296 := by
  unfold fieldN
  have := leNat_lt ((st.drop off).take 4)
  have hl : ((st.drop off).take 4).length ≤ 4 := by simp
  have : 256 ^ ((st.drop off).take 4).length ≤ 256 ^ 4 := Nat.pow_le_pow_right (by omega) hl
  omega

theorem word_lo (st : List Byte) (off : Nat) (h : off + 8 ≤ st.length) :
    BitVec.ofNat 32 (BitVec.ofNat 64 (fieldN st off 8)).toNat = BitVec.ofNat 32 (fieldN st off 4) := by
  have h1 := field4_lt st off
  have h2 := field4_lt st (off + 4)
  apply BitVec.eq_of_toNat_eq
  simp only [BitVec.toNat_ofNat, field8_split st off h]
  omega

theorem word_hi (st : List Byte) (off : Nat) (h : off + 8 ≤ st.length) :
    BitVec.ofNat 32 ((BitVec.ofNat 64 (fieldN st off 8)).toNat / 256 / 256 / 256 / 256) =
      BitVec.ofNat 32 (fieldN st (off + 4) 4) := by
  have h1 := field4_lt st off
  have h2 := field4_lt st (off + 4)
  apply BitVec.eq_of_toNat_eq
  simp only [BitVec.toNat_ofNat, field8_split st off h]
  omega

/-- **IP-set lookup (IPv6).** -/
theorem lrun_ipSetLookup6 (env : Env) (st : List Byte) (id : Nat) (leg : Leg) (rest : List Ev) (m : Mach)
    (hI : Inv st m) (hv6 : env.c.v6 = true)
    (hfd : mapHandle env.c.ipSetMapFD ≠ mapHandle env.c.stateMapFD) (hid : id < 2 ^ 64) :
    ∃ m', Inv st m' ∧
      m'.reg 0 = some (if memRef env (pktOfD st) leg id then BitVec.ofNat 64 ipsetValPtr else 0) ∧
      lrun env (ipSetLookup env.c id leg ++ rest) m = lrun env rest m' := by
  have hlen := hI.stLen
  rw [ipSetLookup_eq6 env.c id leg hv6]
  obtain ⟨m', hI', hr, he⟩ := lrun_lookupEvs6 env st (toInt32 (rev64 id)) (toInt32 (rev64 id / 4294967296))
    leg.kk leg.ipo leg.pto rest m hI hv6 hfd (by cases leg <;> simp [Leg.kk])
    (by cases leg <;> simp [Leg.ipo]) (by cases leg <;> simp [Leg.pto])
    (by cases leg <;> (intro j h1 h2; simp only [Leg.ipo] at h1 h2; unfold Stable; omega))
    (by cases leg <;> (intro j h1 h2; simp only [Leg.pto] at h1 h2; unfold Stable; omega))
  refine ⟨m', hI', ?_, he⟩
  have hb : leg.ipo + 16 ≤ st.length := by rw [hlen]; cases leg <;> simp [Leg.ipo]
  rw [hr, key_id id hid, ofNat_toNat64 16 _ (by omega), ofNat_toNat64 8 _ (by omega),
    word_lo st leg.ipo (by omega), word_hi st leg.ipo (by omega), word_lo st (leg.ipo + 8) (by omega),
    word_hi st (leg.ipo + 8) (by omega)]
  have : memRef env (pktOfD st) leg id = env.member id
      [BitVec.ofNat 32 (fieldN st leg.ipo 4), BitVec.ofNat 32 (fieldN st (leg.ipo + 4) 4),
       BitVec.ofNat 32 (fieldN st (leg.ipo + 8) 4), BitVec.ofNat 32 (fieldN st (leg.ipo + 8 + 4) 4)]
      (BitVec.ofNat 16 (fieldN st leg.pto 2)) (BitVec.ofNat 8 (fieldN st 104 1)) := by
    unfold memRef keyAddr
    simp only [hv6, if_true]
    cases leg <;> rfl
  rw [this]

/-- The lookup, for either IP version. -/
theorem lrun_ipSetLookup' (env : Env) (st : List Byte) (id : Nat) (leg : Leg) (rest : List Ev) (m : Mach)
    (hI : Inv st m) (hfd : mapHandle env.c.ipSetMapFD ≠ mapHandle env.c.stateMapFD) (hid : id < 2 ^ 64) :
    ∃ m', Inv st m' ∧
      m'.reg 0 = some (if memRef env (pktOfD st) leg id then BitVec.ofNat 64 ipsetValPtr else 0) ∧
      lrun env (ipSetLookup env.c id leg ++ rest) m = lrun env rest m' := by
  cases hv : env.c.v6
  · exact lrun_ipSetLookup env st id leg rest m hI hI.stLen hv hfd hid
  · exact lrun_ipSetLookup6 env st id leg rest m hI hv hfd hid

theorem labelsOf_lookup' (c : Cfg) (id : Nat) (leg : Leg) : labelsOf (ipSetLookup c id leg) = [] := by
  cases hv : c.v6
  · rw [ipSetLookup_eq c id leg hv]
    simp [lookupEvs, keyEvs, loadMapFD, labelsOf, movImm64, movImm32, mov64, call, mk]
  · rw [ipSetLookup_eq6 c id leg hv]
    simp [lookupEvs6, keyEvs6, loadMapFD, labelsOf, movImm64, movImm32, mov64, call, mk]

end CalicoVerif.C11
