import CalicoVerif.Proofs.C16za
set_option linter.unusedSimpArgs false
namespace CalicoVerif.C16

/-- The API-level state is untouched (whatever happens to `fullResyncRequired`). -/
structure Keep (w w' : W) : Prop where
  cfg : w'.cfg = w.cfg
  allMeta : w'.F.allMeta = w.F.allMeta
  desired : w'.F.desired = w.F.desired
  filter : w'.F.filter = w.F.filter
  tracked : ∀ n des, w.F.allMeta.has n = true → Tracked w.F n des → Tracked w'.F n des

theorem Keep.refl (w : W) : Keep w w := ⟨rfl, rfl, rfl, rfl, fun _ _ _ h => h⟩
theorem Keep.trans {a b c : W} (h1 : Keep a b) (h2 : Keep b c) : Keep a c :=
  ⟨h2.cfg.trans h1.cfg, h2.allMeta.trans h1.allMeta, h2.desired.trans h1.desired, h2.filter.trans h1.filter,
   fun n des ha ht => h2.tracked n des (by rw [h1.allMeta]; exact ha) (h1.tracked n des ha ht)⟩
theorem WPres.keep {w w' : W} (h : WPres w w') : Keep w w' :=
  ⟨h.cfg, h.pres.1.1, h.pres.1.2.1, h.pres.1.2.2.1, h.pres.2⟩

theorem DesOK.keep {w w' : W} (h : DesOK w.cfg w.F) (hk : Keep w w') : DesOK w.cfg w'.F := by
  refine ⟨?_, ?_, ?_, ?_, ?_, ?_, ?_⟩
  · intro n hn; rw [hk.desired] at hn; exact h.notTemp n hn
  · intro n hn; rw [hk.desired] at hn; exact h.owned n hn
  · intro n hn; rw [hk.desired] at hn; rw [hk.allMeta]; exact h.inAll n hn
  · intro n hn
    rw [hk.allMeta] at hn
    obtain ⟨t, htr, _⟩ := tracked_of_has (h.tracked n hn)
    obtain ⟨t', ht', _⟩ := hk.tracked n t.des hn htr
    exact Map.has_of_get ht'
  · intro n hn; rw [hk.desired] at hn; rw [needed_congr hk.filter]; exact h.needed n hn
  · intro n hn; rw [hk.allMeta] at hn; exact h.allOwned n hn
  · intro n hn; rw [hk.allMeta] at hn; exact h.allNotTemp n hn

/-- The invariant of the whole history: well-formed desired state, and only owned names in the
dataplane view and in the resync queue. -/
def Inv (c : Cfg) (F : Felix) : Prop := DesOK c F ∧ QD c F

theorem TD.QD {w w' : W} (h : TD w w') (hq : QD w.cfg w.F) : QD w.cfg w'.F :=
  ⟨fun b hb => hq.dp b (h.dpSub b hb), fun x hx => hq.qMust x (h.qSub.1 x hx), fun x hx => hq.qBg x (h.qSub.2 x hx)⟩

theorem applyLoop_inv : ∀ (fuel att : Nat) (rerr : Bool) (w : W), CfgOK w.cfg → Inv w.cfg w.F →
    Keep w (W.applyLoop fuel att rerr w).1 ∧ Inv w.cfg (W.applyLoop fuel att rerr w).1.F := by
  intro fuel
  induction fuel with
  | zero => intro att rerr w _ h; unfold W.applyLoop; exact ⟨Keep.refl w, h⟩
  | succ fuel ih =>
    intro att rerr w hc hinv
    unfold W.applyLoop
    dsimp only
    -- the resync (or not)
    have hr : Keep w (if (w.F.fullReq || w.F.bgReq || decide (w.F.qLen > 0)) = true then w.tryResync else (w, rerr)).1 ∧
        QD w.cfg (if (w.F.fullReq || w.F.bgReq || decide (w.F.qLen > 0)) = true then w.tryResync else (w, rerr)).1.F := by
      split
      · exact ⟨(tryResync_wpres w).keep, tryResync_QD w hinv.2⟩
      · exact ⟨Keep.refl w, hinv.2⟩
    generalize (if (w.F.fullReq || w.F.bgReq || decide (w.F.qLen > 0)) = true then w.tryResync else (w, rerr)) = r1 at hr
    obtain ⟨w1, rerr1⟩ := r1
    dsimp only at hr ⊢
    obtain ⟨hk1, hq1⟩ := hr
    have carry : ∀ {b : W}, Keep w b → QD w.cfg b.F → CfgOK b.cfg ∧ Inv b.cfg b.F := by
      intro b hk hq
      exact ⟨hk.cfg ▸ hc, by rw [hk.cfg]; exact ⟨hinv.1.keep hk, hq⟩⟩
    have back : ∀ {b c : W}, Keep w b → Keep b c ∧ Inv b.cfg c.F → Keep w c ∧ Inv w.cfg c.F := by
      intro b c hk h
      exact ⟨Keep.trans hk h.1, by rw [← hk.cfg]; exact h.2⟩
    split
    · have hk1' : Keep w ({ w1 with sleeps := w1.sleeps + 1 } : W) := ⟨hk1.cfg, hk1.allMeta, hk1.desired, hk1.filter, hk1.tracked⟩
      obtain ⟨c1, i1⟩ := carry hk1' hq1
      exact back hk1' (ih _ _ _ c1 i1)
    · have htd := tryTempDeletions_TD w1
      generalize w1.tryTempDeletions = w2 at htd ⊢
      have hk2 : Keep w w2 := Keep.trans hk1 htd.wpres.keep
      have hq2 : QD w.cfg w2.F := by
        have := htd.QD (by rw [hk1.cfg]; exact hq1)
        rw [hk1.cfg] at this; exact this
      obtain ⟨c2, i2⟩ := carry hk2 hq2
      have hwp3 := tryUpdates_wpres w2 w2.F.dirtyForUpdate
      have hq3 := tryUpdates_QD w2 c2 i2.1.owned i2.2
      generalize w2.tryUpdates w2.F.dirtyForUpdate = r3 at hwp3 hq3 ⊢
      obtain ⟨w3, uerr⟩ := r3
      dsimp only at hwp3 hq3 ⊢
      have hk3 : Keep w w3 := Keep.trans hk2 hwp3.keep
      have hq3' : QD w.cfg w3.F := by rw [← hk2.cfg]; exact hq3
      split
      · exact ⟨hk3, hinv.1.keep hk3, hq3'⟩
      · have h4 : Keep w (if (uerr && !decide (att < 5)) = true then ({ w3 with F := { w3.F with fullReq := true } } : W) else w3) ∧
            QD w.cfg (if (uerr && !decide (att < 5)) = true then ({ w3 with F := { w3.F with fullReq := true } } : W) else w3).F := by
          split
          · exact ⟨⟨hk3.cfg, hk3.allMeta, hk3.desired, hk3.filter, hk3.tracked⟩, ⟨hq3'.dp, hq3'.qMust, hq3'.qBg⟩⟩
          · exact ⟨hk3, hq3'⟩
        generalize (if (uerr && !decide (att < 5)) = true then ({ w3 with F := { w3.F with fullReq := true } } : W) else w3) = w4 at h4 ⊢
        obtain ⟨hk4, hq4⟩ := h4
        split
        · have hk4' : Keep w ({ w4 with sleeps := w4.sleeps + 1 } : W) := ⟨hk4.cfg, hk4.allMeta, hk4.desired, hk4.filter, hk4.tracked⟩
          obtain ⟨c4, i4⟩ := carry hk4' hq4
          exact back hk4' (ih _ _ _ c4 i4)
        · have hk5 : Keep w ({ w4 with F := { w4.F with fullReq := false } } : W) :=
            ⟨hk4.cfg, hk4.allMeta, hk4.desired, hk4.filter, hk4.tracked⟩
          exact ⟨hk5, hinv.1.keep hk5, ⟨hq4.dp, hq4.qMust, hq4.qBg⟩⟩

theorem applyUpdates_inv (w : W) (hc : CfgOK w.cfg) (hinv : Inv w.cfg w.F) :
    Keep w w.applyUpdates.1 ∧ Inv w.cfg w.applyUpdates.1.F := by
  unfold W.applyUpdates
  have h := applyLoop_inv 10 0 false w hc hinv
  generalize W.applyLoop 10 0 false w = r at h
  obtain ⟨w1, ok⟩ := r
  dsimp only at h ⊢
  split
  · exact h
  · exact ⟨⟨h.1.cfg, h.1.allMeta, h.1.desired, h.1.filter, h.1.tracked⟩, h.2.1, ⟨h.2.2.dp, h.2.2.qMust, h.2.2.qBg⟩⟩

theorem applyDeletions_inv (w : W) (hinv : Inv w.cfg w.F) :
    Keep w w.applyDeletions.1 ∧ Inv w.cfg w.applyDeletions.1.F := by
  have had := applyDeletions_AD w
  have hk : Keep w w.applyDeletions.1 := ⟨had.cfg, had.pres.1.1, had.pres.1.2.1, had.pres.1.2.2.1, had.pres.2⟩
  exact ⟨hk, hinv.1.keep hk, ⟨fun b hb => hinv.2.dp b (had.dpSub b hb), fun x hx => hinv.2.qMust x (had.qSub.1 x hx),
    fun x hx => hinv.2.qBg x (had.qSub.2 x hx)⟩⟩

end CalicoVerif.C16
