import CalicoVerif.Proofs.C01Idx
/-! C01 helper (about the C04 model): what each index operation does to the index's TABLES — the endpoint
data modulo the match cache (`epsView`), the parent labels (`parentLabels`) and the IP-set definitions modulo
the reference counts (`setView`).  These are the tables C04's `memberSpec` reads. -/
namespace CalicoVerif.C04
namespace C01Ext

variable {Sel : Type} [DecidableEq Sel]

def stripE (e : EpData) : EpData := { e with cached := [] }
def epsView (st : Idx Sel) (id : String) : Option EpData := (alGet id st.eps).map stripE
def triple (d : IpSetData Sel) : Sel × Nat × String := (d.sel, d.proto, d.port)
def setView (st : Idx Sel) (s : String) : Option (Sel × Nat × String) := (alGet s st.ipsets).map triple

/-- endpoint table and parent labels untouched, IP-set definitions untouched (reference counts may change) -/
structure TF (st st' : Idx Sel) : Prop where
  eps : st'.eps = st.eps
  parents : st'.parents = st.parents
  sets : ∀ s, setView st' s = setView st s

theorem TF.rfl' (st : Idx Sel) : TF st st := ⟨rfl, rfl, fun _ => rfl⟩
theorem TF.trans {a b c : Idx Sel} (h1 : TF a b) (h2 : TF b c) : TF a c :=
  ⟨h2.eps.trans h1.eps, h2.parents.trans h1.parents, fun s => (h2.sets s).trans (h1.sets s)⟩

theorem tf_foldl {α : Type} (f : Idx Sel → α → Idx Sel) (hf : ∀ st a, TF st (f st a)) :
    ∀ (l : List α) (st : Idx Sel), TF st (l.foldl f st)
  | [], st => TF.rfl' st
  | a :: l, st => (hf st a).trans (tf_foldl f hf l (f st a))

theorem tf_of_eq {st st' : Idx Sel} (h1 : st'.eps = st.eps) (h2 : st'.parents = st.parents) (h3 : st'.ipsets = st.ipsets) :
    TF st st' := ⟨h1, h2, fun s => by unfold setView; rw [h3]⟩

/-- changing only reference counts leaves the definitions alone -/
theorem setView_alMod (st : Idx Sel) (s : String) (f : IpSetData Sel → IpSetData Sel) (hf : ∀ d, triple (f d) = triple d)
    (k : String) : (alGet k (alMod s f st.ipsets)).map triple = setView st k := by
  unfold setView
  rw [alGet_alMod]
  by_cases hk : k = s
  · subst hk
    simp only [if_true]
    cases alGet k st.ipsets with
    | none => rfl
    | some d => simp [hf]
  · simp only [hk, if_false]

theorem tf_refcMod {st st1 : Idx Sel} (h : TF st st1) (s : String) (f : IpSetData Sel → IpSetData Sel)
    (hf : ∀ d, triple (f d) = triple d) : TF st { st1 with ipsets := alMod s f st1.ipsets } :=
  ⟨h.eps, h.parents, fun k => by
    show (alGet k (alMod s f st1.ipsets)).map triple = _
    rw [setView_alMod st1 s f hf k]; exact h.sets k⟩

theorem onMemberAdded_tf (s : String) (m : Member) (st : Idx Sel) : TF st (onMemberAdded s m st) :=
  tf_of_eq (onMemberAdded_frame s m st).1 (onMemberAdded_frame s m st).2.1 (onMemberAdded_frame s m st).2.2.1

theorem onMemberRemoved_tf (s : String) (m : Member) (st : Idx Sel) : TF st (onMemberRemoved s m st) :=
  tf_of_eq (onMemberRemoved_frame s m st).1 (onMemberRemoved_frame s m st).2.1 (onMemberRemoved_frame s m st).2.2.1

theorem incref_tf (s : String) (m : Member) (st : Idx Sel) : TF st (incref s m st) := by
  unfold incref
  cases alGet s st.ipsets with
  | none => exact tf_of_eq rfl rfl rfl
  | some d =>
    simp only
    split
    · exact tf_refcMod (onMemberAdded_tf s m st) s _ (fun _ => rfl)
    · exact tf_refcMod (TF.rfl' st) s _ (fun _ => rfl)

theorem decref_tf (s : String) (m : Member) (st : Idx Sel) : TF st (decref s m st) := by
  unfold decref
  cases alGet s st.ipsets with
  | none => exact tf_of_eq rfl rfl rfl
  | some d =>
    simp only
    split
    · refine ⟨rfl, rfl, fun k => ?_⟩
      unfold setView
      simp only []
      rw [alGet_alMod]
      by_cases hk : k = s
      · subst hk; simp only [if_true]; cases alGet k st.ipsets <;> rfl
      · simp only [hk, if_false]
    · split
      · exact tf_refcMod (onMemberRemoved_tf s m st) s _ (fun _ => rfl)
      · exact tf_refcMod (TF.rfl' st) s _ (fun _ => rfl)

theorem increfAll_tf (s : String) (ms : List Member) (st : Idx Sel) : TF st (increfAll s ms st) :=
  tf_foldl _ (fun st m => incref_tf s m st) ms st

theorem decrefAll_tf (s : String) (ms : List Member) (st : Idx Sel) : TF st (decrefAll s ms st) :=
  tf_foldl _ (fun st m => decref_tf s m st) ms st

theorem decrefOld_tf (old : List (String × List Member)) (st : Idx Sel) : TF st (decrefOld old st) :=
  tf_foldl (fun st (p : String × List Member) => decrefAll p.1 p.2 st) (fun st p => decrefAll_tf p.1 p.2 st) old st

variable (matchSel : Sel → Labels → Bool)

theorem scanOne_tf (s : String) (p : Idx Sel × EpData) :
    TF p.1 (scanOne matchSel s p).1 ∧ stripE (scanOne matchSel s p).2 = stripE p.2 := by
  unfold scanOne
  cases alGet s p.1.ipsets with
  | none => exact ⟨TF.rfl' _, rfl⟩
  | some d =>
    simp only
    split
    · exact ⟨increfAll_tf s _ p.1, rfl⟩
    · exact ⟨TF.rfl' _, rfl⟩

theorem scanFold_tf : ∀ (ks : List String) (p : Idx Sel × EpData),
    TF p.1 (ks.foldl (fun p s => scanOne matchSel s p) p).1 ∧
    stripE (ks.foldl (fun p s => scanOne matchSel s p) p).2 = stripE p.2
  | [], p => ⟨TF.rfl' _, rfl⟩
  | s :: ks, p => by
    obtain ⟨h1, h2⟩ := scanOne_tf matchSel s p
    obtain ⟨i1, i2⟩ := scanFold_tf ks (scanOne matchSel s p)
    exact ⟨h1.trans i1, i2.trans h2⟩

theorem scanEp_tf (e : EpData) (old : List (String × List Member)) (st : Idx Sel) :
    TF st (scanEp matchSel e old st).1 ∧ stripE (scanEp matchSel e old st).2 = stripE e := by
  unfold scanEp
  simp only []
  obtain ⟨h1, h2⟩ := scanFold_tf matchSel (st.ipsets.map (·.1)) (st, { e with cached := [] })
  exact ⟨h1.trans (decrefOld_tf old _), h2⟩

theorem epEquals_strip {a b : EpData} (h : epEquals a b = true) : stripE a = stripE b := by
  unfold epEquals at h
  simp only [Bool.and_eq_true, beq_iff_eq] at h
  obtain ⟨⟨⟨h1, h2⟩, h3⟩, h4⟩ := h
  obtain ⟨l1, n1, p1, q1, c1⟩ := a
  obtain ⟨l2, n2, p2, q2, c2⟩ := b
  simp only [] at h1 h2 h3 h4
  simp only [stripE, h1, h2, h3, h4]

/-- `UpdateEndpointOrSet` (after de-duplication of the profile ids) -/
theorem updateEndpointCore_tables (id : String) (labels : Labels) (nets : List Cidr) (ports : List Port)
    (parents : List String) (st : Idx Sel) :
    (∀ k, epsView (updateEndpointCore matchSel id labels nets ports parents st) k =
      if k = id then some { labels := labels, nets := nets, ports := ports, parents := parents, cached := [] }
      else epsView st k) ∧
    (updateEndpointCore matchSel id labels nets ports parents st).parents = st.parents ∧
    (∀ s, setView (updateEndpointCore matchSel id labels nets ports parents st) s = setView st s) := by
  unfold updateEndpointCore
  simp only []
  cases hold : alGet id st.eps with
  | none =>
    simp only []
    obtain ⟨h1, h2⟩ := scanEp_tf matchSel
      { labels := labels, nets := nets, ports := ports, parents := parents, cached := [] } [] st
    refine ⟨fun k => ?_, h1.parents, h1.sets⟩
    show (alGet k (alSet id _ _)).map stripE = _
    rw [alGet_alSet, h1.eps]
    by_cases hk : k = id
    · simp only [hk, if_true, Option.map_some, h2]; rfl
    · simp only [hk, if_false]; rfl
  | some old =>
    simp only []
    split
    · rename_i heq
      refine ⟨fun k => ?_, rfl, fun _ => rfl⟩
      by_cases hk : k = id
      · subst hk
        simp only [if_true]
        unfold epsView
        rw [hold]
        simp only [Option.map_some, epEquals_strip heq]
        rfl
      · simp only [hk, if_false]
    · have h0 : TF st (if recalcPanics old st = true then { st with panicked := true } else st) := by
        split
        · exact tf_of_eq rfl rfl rfl
        · exact TF.rfl' st
      generalize (if recalcPanics old st = true then { st with panicked := true } else st) = st0 at h0 ⊢
      obtain ⟨h1, h2⟩ := scanEp_tf matchSel
        { labels := labels, nets := nets, ports := ports, parents := parents, cached := [] }
        (recalc old st0) { st0 with eps := alErase id st0.eps }
      have key : ∀ k, (alGet k (alSet id
          (scanEp matchSel { labels := labels, nets := nets, ports := ports, parents := parents, cached := [] }
            (recalc old st0) { st0 with eps := alErase id st0.eps }).2
          (scanEp matchSel { labels := labels, nets := nets, ports := ports, parents := parents, cached := [] }
            (recalc old st0) { st0 with eps := alErase id st0.eps }).1.eps)).map stripE =
          if k = id then some { labels := labels, nets := nets, ports := ports, parents := parents, cached := [] }
          else epsView st k := by
        intro k
        rw [alGet_alSet, h1.eps]
        by_cases hk : k = id
        · simp only [hk, if_true, Option.map_some, h2]; rfl
        · simp only [hk, if_false]
          show (alGet k (alErase id st0.eps)).map stripE = _
          rw [alGet_alErase, h0.eps]
          simp only [hk, if_false]; rfl
      have hp : (scanEp matchSel { labels := labels, nets := nets, ports := ports, parents := parents, cached := [] }
            (recalc old st0) { st0 with eps := alErase id st0.eps }).1.parents = st.parents :=
        h1.parents.trans h0.parents
      have hs : ∀ s, setView (scanEp matchSel { labels := labels, nets := nets, ports := ports, parents := parents, cached := [] }
            (recalc old st0) { st0 with eps := alErase id st0.eps }).1 s = setView st s :=
        fun s => (h1.sets s).trans (h0.sets s)
      split
      · exact ⟨key, hp, hs⟩
      · exact ⟨key, hp, hs⟩

/-- `DeleteEndpoint` -/
theorem deleteEndpoint_tables (id : String) (st : Idx Sel) :
    (∀ k, epsView (deleteEndpoint id st) k = if k = id then none else epsView st k) ∧
    (deleteEndpoint id st).parents = st.parents ∧ (∀ s, setView (deleteEndpoint id st) s = setView st s) := by
  unfold deleteEndpoint
  cases hold : alGet id st.eps with
  | none =>
    refine ⟨fun k => ?_, rfl, fun _ => rfl⟩
    by_cases hk : k = id
    · subst hk; simp only [if_true]; unfold epsView; rw [hold]; rfl
    · simp only [hk, if_false]
  | some old =>
    simp only []
    have h0 : TF st (if recalcPanics old st = true then { st with panicked := true } else st) := by
      split
      · exact tf_of_eq rfl rfl rfl
      · exact TF.rfl' st
    generalize (if recalcPanics old st = true then { st with panicked := true } else st) = st0 at h0 ⊢
    have h1 := h0.trans (decrefOld_tf (recalc old st0) st0)
    have key : ∀ k, (alGet k (alErase id (decrefOld (recalc old st0) st0).eps)).map stripE =
        if k = id then none else epsView st k := by
      intro k
      rw [alGet_alErase, h1.eps]
      by_cases hk : k = id
      · simp [hk]
      · simp only [hk, if_false]; rfl
    split
    · exact ⟨key, h1.parents, h1.sets⟩
    · exact ⟨key, h1.parents, h1.sets⟩

theorem rescanEp_tables (id : String) (st : Idx Sel) :
    (∀ k, epsView (rescanEp matchSel id st) k = epsView st k) ∧ (rescanEp matchSel id st).parents = st.parents ∧
    (∀ s, setView (rescanEp matchSel id st) s = setView st s) := by
  unfold rescanEp
  cases he : alGet id st.eps with
  | none => exact ⟨fun _ => rfl, rfl, fun _ => rfl⟩
  | some e =>
    simp only []
    have h0 : TF st (if recalcPanics e st = true then { st with panicked := true } else st) := by
      split
      · exact tf_of_eq rfl rfl rfl
      · exact TF.rfl' st
    generalize (if recalcPanics e st = true then { st with panicked := true } else st) = st0 at h0 ⊢
    obtain ⟨h1, h2⟩ := scanEp_tf matchSel e (recalc e st0) st0
    have h3 := h0.trans h1
    refine ⟨fun k => ?_, h3.parents, h3.sets⟩
    show (alGet k (alMod id (fun _ => (scanEp matchSel e (recalc e st0) st0).2)
      (scanEp matchSel e (recalc e st0) st0).1.eps)).map stripE = (alGet k st.eps).map stripE
    rw [alGet_alMod, h3.eps]
    by_cases hk : k = id
    · subst hk
      simp only [if_true]
      rw [he]
      simp only [Option.map_some, h2]
    · simp only [hk, if_false]

/-- `UpdateParentLabels` / `DeleteParentLabels` -/
theorem updateParentLabels_tables (pid : String) (labels : Labels) (st : Idx Sel) :
    (∀ k, epsView (updateParentLabels matchSel pid labels st) k = epsView st k) ∧
    (∀ p, parentLabels (updateParentLabels matchSel pid labels st) p = if p = pid then labels else parentLabels st p) ∧
    (∀ s, setView (updateParentLabels matchSel pid labels st) s = setView st s) := by
  unfold updateParentLabels
  split
  · rename_i hsame
    refine ⟨fun _ => rfl, fun p => ?_, fun _ => rfl⟩
    by_cases hp : p = pid
    · subst hp; simp only [if_true]; exact hsame
    · simp only [hp, if_false]
  · simp only []
    have key : ∀ (ids : List String) (st1 : Idx Sel),
        (∀ k, epsView (ids.foldl (fun st id => rescanEp matchSel id st) st1) k = epsView st1 k) ∧
        (ids.foldl (fun st id => rescanEp matchSel id st) st1).parents = st1.parents ∧
        (∀ s, setView (ids.foldl (fun st id => rescanEp matchSel id st) st1) s = setView st1 s) := by
      intro ids
      induction ids with
      | nil => intro st1; exact ⟨fun _ => rfl, rfl, fun _ => rfl⟩
      | cons a t ih =>
        intro st1
        simp only [List.foldl_cons]
        obtain ⟨r1, r2, r3⟩ := rescanEp_tables matchSel a st1
        obtain ⟨i1, i2, i3⟩ := ih (rescanEp matchSel a st1)
        exact ⟨fun k => (i1 k).trans (r1 k), i2.trans r2, fun s => (i3 s).trans (r3 s)⟩
    obtain ⟨k1, k2, k3⟩ := key ((st.eps.filter (fun p => pid ∈ p.2.parents)).map (·.1))
      { st with parents := alSet pid labels st.parents }
    refine ⟨fun k => (k1 k).trans rfl, fun p => ?_, fun s => (k3 s).trans rfl⟩
    unfold parentLabels
    rw [k2]
    show (alGet p (alSet pid labels st.parents)).getD [] = _
    rw [alGet_alSet]
    by_cases hp : p = pid
    · simp [hp]
    · simp only [hp, if_false]

theorem alGet_map_val {κ β : Type} [DecidableEq κ] (f : β → β) (l : List (κ × β)) (k : κ) :
    alGet k (l.map (fun p => (p.1, f p.2))) = (alGet k l).map f := by
  induction l with
  | nil => rfl
  | cons p t ih =>
    obtain ⟨a, b⟩ := p
    simp only [List.map_cons, alGet]
    by_cases h : a = k
    · simp [h]
    · simp only [h, if_false]; exact ih

theorem deleteIPSetCore_tables (s : String) (st : Idx Sel) :
    (∀ k, epsView (deleteIPSetCore s st) k = epsView st k) ∧ (deleteIPSetCore s st).parents = st.parents ∧
    (∀ k, setView (deleteIPSetCore s st) k = if k = s then none else setView st k) := by
  unfold deleteIPSetCore
  cases hs : alGet s st.ipsets with
  | none =>
    refine ⟨fun _ => rfl, rfl, fun k => ?_⟩
    by_cases hk : k = s
    · subst hk; simp only [if_true]; unfold setView; rw [hs]; rfl
    · simp only [hk, if_false]
  | some d =>
    refine ⟨fun k => ?_, rfl, fun k => ?_⟩
    · have h := alGet_map_val (fun e : EpData => { e with cached := e.cached.filter (fun x => x ≠ s) }) st.eps k
      refine Eq.trans (congrArg (Option.map stripE) h) ?_
      unfold epsView
      cases alGet k st.eps <;> rfl
    · show (alGet k (alErase s st.ipsets)).map triple = _
      rw [alGet_alErase]
      by_cases hk : k = s
      · simp [hk]
      · simp only [hk, if_false]; rfl

theorem addIPSetScanOne_tables (s : String) (sel : Sel) (id : String) (st : Idx Sel) :
    (∀ k, epsView (addIPSetScanOne matchSel s sel id st) k = epsView st k) ∧
    (addIPSetScanOne matchSel s sel id st).parents = st.parents ∧
    (∀ k, setView (addIPSetScanOne matchSel s sel id st) k = setView st k) := by
  unfold addIPSetScanOne
  split
  · split
    · simp only []
      split
      · exact ⟨fun _ => rfl, rfl, fun _ => rfl⟩
      · refine ⟨fun k => ?_, (increfAll_tf s _ _).parents, fun k => (increfAll_tf s _ _).sets k⟩
        unfold epsView
        rw [(increfAll_tf s _ _).eps]
        simp only []
        rw [alGet_alMod]
        by_cases hk : k = id
        · subst hk
          simp only [if_true]
          cases alGet k st.eps <;> rfl
        · simp only [hk, if_false]
    · exact ⟨fun _ => rfl, rfl, fun _ => rfl⟩
  · exact ⟨fun _ => rfl, rfl, fun _ => rfl⟩

theorem addIPSet_tables (s : String) (sel : Sel) (proto : Nat) (port : String) (st : Idx Sel) :
    (∀ k, epsView (addIPSet matchSel s sel proto port st) k = epsView st k) ∧
    (addIPSet matchSel s sel proto port st).parents = st.parents ∧
    (∀ k, setView (addIPSet matchSel s sel proto port st) k = if k = s then some (sel, proto, port) else setView st k) := by
  unfold addIPSet
  simp only []
  have key : ∀ (ids : List String) (st1 : Idx Sel),
      (∀ k, epsView (ids.foldl (fun st id => addIPSetScanOne matchSel s sel id st) st1) k = epsView st1 k) ∧
      (ids.foldl (fun st id => addIPSetScanOne matchSel s sel id st) st1).parents = st1.parents ∧
      (∀ k, setView (ids.foldl (fun st id => addIPSetScanOne matchSel s sel id st) st1) k = setView st1 k) := by
    intro ids
    induction ids with
    | nil => intro st1; exact ⟨fun _ => rfl, rfl, fun _ => rfl⟩
    | cons a t ih =>
      intro st1
      simp only [List.foldl_cons]
      obtain ⟨r1, r2, r3⟩ := addIPSetScanOne_tables matchSel s sel a st1
      obtain ⟨i1, i2, i3⟩ := ih (addIPSetScanOne matchSel s sel a st1)
      exact ⟨fun k => (i1 k).trans (r1 k), i2.trans r2, fun k => (i3 k).trans (r3 k)⟩
  obtain ⟨k1, k2, k3⟩ := key (st.eps.map (·.1))
    { st with ipsets := alSet s { sel := sel, proto := proto, port := port, refc := [] } st.ipsets }
  refine ⟨fun k => (k1 k).trans rfl, k2, fun k => ?_⟩
  rw [k3 k]
  show (alGet k (alSet s _ st.ipsets)).map triple = _
  rw [alGet_alSet]
  by_cases hk : k = s
  · simp [hk, triple]
  · simp only [hk, if_false]; rfl

theorem forceRemove_tf (s : String) (m : Member) (st : Idx Sel) : TF st (forceRemove s m st) := by
  unfold forceRemove
  simp only []
  exact tf_refcMod (onMemberRemoved_tf s m st) s _ (fun _ => rfl)

/-- `UpdateIPSet` -/
theorem updateIPSet_tables (s : String) (sel : Sel) (proto : Nat) (port : String) (st : Idx Sel) :
    (∀ k, epsView (updateIPSet matchSel s sel proto port st) k = epsView st k) ∧
    (updateIPSet matchSel s sel proto port st).parents = st.parents ∧
    (∀ k, setView (updateIPSet matchSel s sel proto port st) k =
      if k = s then some (sel, proto, port) else setView st k) := by
  unfold updateIPSet
  cases hs : alGet s st.ipsets with
  | none => exact addIPSet_tables matchSel s sel proto port st
  | some d =>
    simp only []
    split
    · rename_i hsame
      refine ⟨fun _ => rfl, rfl, fun k => ?_⟩
      by_cases hk : k = s
      · subst hk
        simp only [if_true]
        unfold setView
        rw [hs]
        simp only [Option.map_some, triple, hsame.1, hsame.2.1, hsame.2.2]
      · simp only [hk, if_false]
    · have h1 := tf_foldl (fun st m => forceRemove s m st) (fun st m => forceRemove_tf s m st) (d.refc.map (·.1)) st
      obtain ⟨d1, d2, d3⟩ := deleteIPSetCore_tables s ((d.refc.map (·.1)).foldl (fun st m => forceRemove s m st) st)
      obtain ⟨a1, a2, a3⟩ := addIPSet_tables matchSel s sel proto port
        (deleteIPSetCore s ((d.refc.map (·.1)).foldl (fun st m => forceRemove s m st) st))
      refine ⟨fun k => ?_, a2.trans (d2.trans h1.parents), fun k => ?_⟩
      · rw [a1 k, d1 k]; unfold epsView; rw [h1.eps]
      · rw [a3 k]
        by_cases hk : k = s
        · simp only [hk, if_true]
        · simp only [hk, if_false]
          rw [d3 k]
          simp only [hk, if_false]
          exact h1.sets k

/-- `DeleteIPSet` -/
theorem deleteIPSet_tables (s : String) (st : Idx Sel) :
    (∀ k, epsView (deleteIPSet s st) k = epsView st k) ∧ (deleteIPSet s st).parents = st.parents ∧
    (∀ k, setView (deleteIPSet s st) k = if k = s then none else setView st k) := by
  obtain ⟨h1, h2, h3⟩ := deleteIPSetCore_tables s st
  exact ⟨fun k => (h1 k), h2, fun k => (h3 k)⟩

end C01Ext
end CalicoVerif.C04
