import CalicoVerif.Model.C15
namespace CalicoVerif.C15

namespace Map
variable {α : Type}
theorem get_erase (m : Map α) (k k' : String) :
    (m.erase k).get k' = if k' = k then none else m.get k' := by
  induction m with
  | nil => simp [erase, get, List.lookup]
  | cons p m ih =>
    obtain ⟨a, b⟩ := p
    simp only [erase, get] at ih ⊢
    by_cases h : a = k
    · subst h
      simp only [List.filter, bne_self_eq_false]
      rw [ih]
      by_cases h2 : k' = a
      · simp [h2]
      · have h3 : (k' == a) = false := by simp [h2]
        simp [h2, List.lookup, h3]
    · have : (a != k) = true := by simp [h]
      simp only [List.filter, this, List.lookup]
      by_cases h2 : k' = a
      · subst h2; simp [h]
      · have : (k' == a) = false := by simp [h2]
        simp only [this]; exact ih

theorem get_set (m : Map α) (k k' : String) (v : α) :
    (m.set k v).get k' = if k' = k then some v else m.get k' := by
  simp only [set, get, List.lookup]
  by_cases h : k' = k
  · subst h; simp
  · have : (k' == k) = false := by simp [h]
    simp only [this, h, if_false]
    have := get_erase m k k'
    simp only [get, h, if_false] at this
    exact this
end Map

/-- The rules of other software in a chain, in order. -/
def foreignSub (rs : List KRule) : List KRule := rs.filter KRule.isForeign

/-- Lines Felix writes into chains it shares: insert/append of a rule carrying Felix's hash, and
delete-by-value of a rule that is Felix's (hash comment or old-style insert). -/
def RLine.tagged : RLine → Bool
  | .insert _ r => !r.isForeign
  | .append _ r => !r.isForeign
  | .delVal _ r => !r.isForeign
  | _ => false

theorem filter_ne_foreign (rs : List KRule) (r : KRule) (hr : r.isForeign = false) :
    foreignSub (rs.filter (· != r)) = foreignSub rs := by
  unfold foreignSub
  rw [List.filter_filter]
  congr 1
  funext x
  by_cases hx : x.isForeign = true
  · have : x ≠ r := by rintro rfl; rw [hr] at hx; exact absurd hx (by simp)
    simp [hx, this]
  · simp [hx]

/-- **unowned_unchanged, one line**: a tagged line leaves the foreign rules of every chain
exactly as they were, in the same order (and creates/deletes no chain). -/
theorem kline_tagged_foreign {K K' : Kernel} {l : RLine} (ht : l.tagged = true)
    (h : kline K l = some K') (x : String) :
    (K'.get x).map foreignSub = (K.get x).map foreignSub := by
  cases l with
  | insert c r =>
    simp only [RLine.tagged, Bool.not_eq_true'] at ht
    simp only [kline, Option.map_eq_some_iff] at h
    obtain ⟨rs, hrs, rfl⟩ := h
    rw [Map.get_set]
    by_cases hx : x = c
    · subst hx; simp [hrs, foreignSub, List.filter, ht]
    · simp [hx]
  | append c r =>
    simp only [RLine.tagged, Bool.not_eq_true'] at ht
    simp only [kline, Option.map_eq_some_iff] at h
    obtain ⟨rs, hrs, rfl⟩ := h
    rw [Map.get_set]
    by_cases hx : x = c
    · subst hx; simp [hrs, foreignSub, List.filter_append, List.filter, ht]
    · simp [hx]
  | delVal c r =>
    simp only [RLine.tagged, Bool.not_eq_true'] at ht
    simp only [kline] at h
    split at h
    · rename_i rs hrs
      split at h
      · simp only [Option.some.injEq] at h; subst h
        rw [Map.get_set]
        by_cases hx : x = c
        · subst hx; simp [hrs, filter_ne_foreign rs r ht]
        · simp [hx]
      · simp at h
    · simp at h
  | fwd c => simp [RLine.tagged] at ht
  | replace c n r => simp [RLine.tagged] at ht
  | delIdx c n => simp [RLine.tagged] at ht
  | delChain c => simp [RLine.tagged] at ht
  | bad t => simp [RLine.tagged] at ht

/-- A line only touches the chain it names. -/
theorem kline_other {K K' : Kernel} {l : RLine} (h : kline K l = some K') (x : String)
    (hx : x ≠ l.chain) : K'.get x = K.get x := by
  cases l with
  | fwd c => simp only [kline, Option.some.injEq] at h; subst h; simp [Map.get_set, RLine.chain] at hx ⊢; simp [hx]
  | insert c r =>
    simp only [kline, Option.map_eq_some_iff] at h
    obtain ⟨rs, _, rfl⟩ := h
    simp only [RLine.chain] at hx; simp [Map.get_set, hx]
  | append c r =>
    simp only [kline, Option.map_eq_some_iff] at h
    obtain ⟨rs, _, rfl⟩ := h
    simp only [RLine.chain] at hx; simp [Map.get_set, hx]
  | replace c n r =>
    simp only [kline] at h
    split at h
    · split at h
      · simp only [Option.some.injEq] at h; subst h; simp only [RLine.chain] at hx; simp [Map.get_set, hx]
      · simp at h
    · simp at h
  | delIdx c n =>
    simp only [kline] at h
    split at h
    · split at h
      · simp only [Option.some.injEq] at h; subst h; simp only [RLine.chain] at hx; simp [Map.get_set, hx]
      · simp at h
    · simp at h
  | delVal c r =>
    simp only [kline] at h
    split at h
    · split at h
      · simp only [Option.some.injEq] at h; subst h; simp only [RLine.chain] at hx; simp [Map.get_set, hx]
      · simp at h
    · simp at h
  | delChain c =>
    simp only [kline] at h
    split at h
    · simp only [Option.some.injEq] at h; subst h; simp only [RLine.chain] at hx; simp [Map.get_erase, hx]
    · simp at h
  | bad t => simp [kline] at h

/-- **unowned_unchanged, one atomic transaction**: for a chain `x` such that every line naming `x`
is tagged (Felix only hooks it), the foreign rules of `x` are unchanged and in the same order,
and `x` is neither created nor deleted. -/
theorem krestore_foreign (x : String) : ∀ (ls : List RLine) (K K' : Kernel),
    (∀ l ∈ ls, l.chain = x → l.tagged = true) → krestore K ls = some K' →
    (K'.get x).map foreignSub = (K.get x).map foreignSub := by
  intro ls
  induction ls with
  | nil => intro K K' _ h; simp only [krestore, Option.some.injEq] at h; subst h; rfl
  | cons l ls ih =>
    intro K K' ht h
    simp only [krestore, Option.bind_eq_some_iff] at h
    obtain ⟨K1, h1, h2⟩ := h
    rw [ih K1 K' (fun l' hl' => ht l' (List.mem_cons_of_mem _ hl')) h2]
    by_cases hc : l.chain = x
    · exact kline_tagged_foreign (ht l List.mem_cons_self hc) h1 x
    · rw [kline_other h1 x (fun e => hc e.symm)]

/-- Chains not named by any line of the transaction are bit-for-bit unchanged. -/
theorem krestore_other (x : String) : ∀ (ls : List RLine) (K K' : Kernel),
    (∀ l ∈ ls, l.chain ≠ x) → krestore K ls = some K' → K'.get x = K.get x := by
  intro ls
  induction ls with
  | nil => intro K K' _ h; simp only [krestore, Option.some.injEq] at h; subst h; rfl
  | cons l ls ih =>
    intro K K' ht h
    simp only [krestore, Option.bind_eq_some_iff] at h
    obtain ⟨K1, h1, h2⟩ := h
    rw [ih K1 K' (fun l' hl' => ht l' (List.mem_cons_of_mem _ hl')) h2]
    exact kline_other h1 x (fun e => ht l List.mem_cons_self e.symm)

/-- **no_rewrite_if_equal**: a chain whose dataplane hashes already equal the desired hashes
produces no line at all (so its rules and counters are not touched). -/
theorem diffLines_nil_of_eq (c : String) (n : Nat) : ∀ (rs : List DRule) (i : Nat),
    diffLines c n i (rs.map (·.hash)) rs = [] := by
  intro rs
  induction rs with
  | nil => intro i; simp [diffLines]
  | cons r rs ih => intro i; simp [diffLines, ih]

end CalicoVerif.C15
