import CalicoVerif.Proofs.C15t
set_option linter.unusedSimpArgs false
namespace CalicoVerif.C15

/-- The reference graph of the chains Felix was given goes strictly down a rank (so it is acyclic and its depth is
bounded by the largest rank). -/
def Ranked (rk : String → Nat) (t : T) : Prop :=
  ∀ c ch, t.chains.get c = some ch → ∀ x ∈ refsOf ch.rules, rk x < rk c

theorem incref_chains : ∀ (f : Nat) (t : T) (n : String), (T.incref f t n).chains = t.chains := by
  intro f
  induction f with
  | zero => intro t n; rfl
  | succ f ih =>
    intro t n
    unfold T.incref
    dsimp only
    split
    · cases hch : t.chains.get n with
      | none => rfl
      | some ch =>
        dsimp only
        have : ∀ (L : List String) (t' : T), (L.foldl (fun t x => T.incref f t x) t').chains = t'.chains := by
          intro L
          induction L with
          | nil => intro t'; rfl
          | cons x L ihL => intro t'; simp only [List.foldl]; rw [ihL, ih]
        rw [this]
    · rfl

theorem decref_chains : ∀ (f : Nat) (t : T) (n : String), (T.decref f t n).chains = t.chains := by
  intro f
  induction f with
  | zero => intro t n; rfl
  | succ f ih =>
    intro t n
    unfold T.decref
    split
    · cases hch : t.chains.get n with
      | none => rfl
      | some ch =>
        dsimp only
        have : ∀ (L : List String) (t' : T), (L.foldl (fun t x => T.decref f t x) t').chains = t'.chains := by
          intro L
          induction L with
          | nil => intro t'; rfl
          | cons x L ihL => intro t'; simp only [List.foldl]; rw [ihL, ih]
        exact this _ _
    · rfl

theorem fold_congr_ranked (rk : String → Nat) (g1 g2 : T → String → T) (bound : Nat)
    (hch : ∀ t x, (g1 t x).chains = t.chains)
    (heq : ∀ t x, Ranked rk t → rk x < bound → g1 t x = g2 t x) :
    ∀ (L : List String) (t : T), Ranked rk t → (∀ x ∈ L, rk x < bound) → L.foldl g1 t = L.foldl g2 t := by
  intro L
  induction L with
  | nil => intro t _ _; rfl
  | cons x L ih =>
    intro t hr hL
    simp only [List.foldl]
    rw [← heq t x hr (hL x List.mem_cons_self)]
    exact ih _ (by intro c ch hc; rw [hch] at hc; exact hr c ch hc) (fun y hy => hL y (List.mem_cons_of_mem _ hy))

/-- **Fuel sufficiency, incref**: with a ranked reference graph, one more unit of fuel changes nothing once the fuel
exceeds the rank of the chain. -/
theorem incref_fuel (rk : String → Nat) : ∀ (f : Nat) (t : T) (n : String), Ranked rk t → rk n < f →
    T.incref f t n = T.incref (f + 1) t n := by
  intro f
  induction f with
  | zero => intro t n _ h; exact absurd h (Nat.not_lt_zero _)
  | succ f ih =>
    intro t n hr hn
    rw [T.incref, T.incref]
    dsimp only
    split
    · cases hch : t.chains.get n with
      | none => rfl
      | some ch =>
        dsimp only
        apply fold_congr_ranked rk _ _ f (fun t x => incref_chains f t x) (fun t x hr' hx => ih t x hr' hx)
        · intro c ch' hc; exact hr c ch' hc
        · intro x hx
          have := hr n ch hch x hx
          omega
    · rfl

theorem decref_fuel (rk : String → Nat) : ∀ (f : Nat) (t : T) (n : String), Ranked rk t → rk n < f →
    T.decref f t n = T.decref (f + 1) t n := by
  intro f
  induction f with
  | zero => intro t n _ h; exact absurd h (Nat.not_lt_zero _)
  | succ f ih =>
    intro t n hr hn
    rw [T.decref, T.decref]
    split
    · cases hch : t.chains.get n with
      | none => rfl
      | some ch =>
        dsimp only
        have := fold_congr_ranked rk (fun t x => T.decref f t x) (fun t x => T.decref (f + 1) t x) f
          (fun t x => decref_chains f t x) (fun t x hr' hx => ih t x hr' hx) (refsOf ch.rules) t hr
          (fun x hx => by have := hr n ch hch x hx; omega)
        rw [this]
    · rfl

/-- More fuel than the model's 64 never changes a cascade that starts at a chain of rank below 64. -/
theorem incref_fuel_enough (rk : String → Nat) (t : T) (n : String) (hr : Ranked rk t) (hn : rk n < fuel) :
    ∀ k, T.incref (fuel + k) t n = T.incref fuel t n := by
  intro k
  induction k with
  | zero => rfl
  | succ k ih => rw [← ih]; exact (incref_fuel rk (fuel + k) t n hr (by omega)).symm

theorem decref_fuel_enough (rk : String → Nat) (t : T) (n : String) (hr : Ranked rk t) (hn : rk n < fuel) :
    ∀ k, T.decref (fuel + k) t n = T.decref fuel t n := by
  intro k
  induction k with
  | zero => rfl
  | succ k ih => rw [← ih]; exact (decref_fuel rk (fuel + k) t n hr (by omega)).symm

end CalicoVerif.C15
