import CalicoVerif.Proofs.C01Mem
/-! C01 helper: pure "latest value per key" pass-through nodes (`DataplanePassthru` for IP pools / Kubernetes
services, and any node of that shape).

 * `passthru_node_history_independent`: the table such a node has declared after ANY history is "last write
   per key wins, a delete removes" — a function of the last update per key only;
 * inside the composed graph no other node ever makes a pass-through call (`NoGen` tower), so the declared
   pass-through objects are exactly the datastore's table (`GenInv`). -/
namespace CalicoVerif.C01
open CalicoVerif C02

/-! ### the generic lemma -/

/-- the last update written for key `k` (`none` = never written; `some none` = last write was a delete) -/
def lastWrite {κ β : Type} [DecidableEq κ] : List (κ × Option β) → κ → Option (Option β)
  | [], _ => none
  | (k', v) :: t, k => match lastWrite t k with
    | some w => some w
    | none => if k' = k then some v else none

theorem mget_foldl_setOrDel {κ β : Type} [DecidableEq κ] (k : κ) : ∀ (h : List (κ × Option β)) (m : List (κ × β)),
    mget (h.foldl (fun m u => setOrDel u.1 u.2 m) m) k = match lastWrite h k with
      | some w => w
      | none => mget m k
  | [], m => rfl
  | (k', v) :: t, m => by
    simp only [List.foldl_cons, lastWrite]
    rw [mget_foldl_setOrDel k t]
    cases lastWrite t k with
    | some w => rfl
    | none =>
      simp only []
      rw [mget_setOrDel]
      by_cases hk : k' = k
      · have : k = k' := hk.symm
        simp [hk]
      · have : ¬ k = k' := fun e => hk e.symm
        simp [hk, this]

/-- PASS-THROUGH NODE, generic: for every history of updates `(key, some value | none)` the table kept by
"set on update, delete on remove" holds, per key, exactly the last value written (nothing if the last write
was a delete or the key was never written).  In particular two histories with the same last write per key
give the same table: the node's output is a function of the current datastore contents only. -/
theorem passthru_node_history_independent {κ β : Type} [DecidableEq κ] (h : List (κ × Option β)) (k : κ) :
    mget (h.foldl (fun m u => setOrDel u.1 u.2 m) []) k = (lastWrite h k).getD none := by
  rw [mget_foldl_setOrDel]
  cases lastWrite h k <;> rfl

theorem passthru_node_same_last_write {κ β : Type} [DecidableEq κ] (h h' : List (κ × Option β))
    (hl : ∀ k, lastWrite h k = lastWrite h' k) (k : κ) :
    mget (h.foldl (fun m u => setOrDel u.1 u.2 m) []) k = mget (h'.foldl (fun m u => setOrDel u.1 u.2 m) []) k := by
  rw [passthru_node_history_independent, passthru_node_history_independent, hl k]

/-! ### nobody else makes pass-through calls -/

def isGen : Call → Bool
  | .genUpdate _ _ _ => true
  | .genRemove _ _ => true
  | _ => false

theorem upAll_nogen : ∀ (cs : List Call) (u : DP), (∀ c ∈ cs, isGen c = false) → (upAll u cs).gen = u.gen
  | [], _, _ => rfl
  | c :: cs, u, h => by
    have hc := h c (List.mem_cons_self ..)
    have ih := upAll_nogen cs (upApply u c) (fun x hx => h x (List.mem_cons_of_mem _ hx))
    have h1 : (upApply u c).gen = u.gen := by
      cases c with
      | genUpdate _ _ _ => simp [isGen] at hc
      | genRemove _ _ => simp [isGen] at hc
      | memberAdded id m => simp only [upApply]; split <;> rfl
      | memberRemoved id m => simp only [upApply]; split <;> rfl
      | endpointUpdate k v => cases v <;> rfl
      | _ => rfl
    show (upAll (upApply u c) cs).gen = _
    rw [ih, h1]

/-- `g'` extends `g`'s call log by calls that are not pass-through calls -/
def NoGen (g g' : Graph) : Prop := ∃ cs, g'.calls = g.calls ++ cs ∧ ∀ c ∈ cs, isGen c = false

theorem NoGen.of_eq {g g' : Graph} (h : g'.calls = g.calls) : NoGen g g' := ⟨[], by simp [h], by simp⟩
theorem NoGen.rfl' (g : Graph) : NoGen g g := NoGen.of_eq rfl
theorem NoGen.trans {a b c : Graph} (h1 : NoGen a b) (h2 : NoGen b c) : NoGen a c := by
  obtain ⟨c1, q1, n1⟩ := h1
  obtain ⟨c2, q2, n2⟩ := h2
  refine ⟨c1 ++ c2, by rw [q2, q1, List.append_assoc], ?_⟩
  intro x hx
  rcases List.mem_append.mp hx with h | h
  · exact n1 x h
  · exact n2 x h
theorem NoGen.pre {a b c : Graph} (h2 : NoGen b c) (h1 : NoGen a b) : NoGen a c := h1.trans h2

theorem noGen_decl {g g' : Graph} (h : NoGen g g') : (decl g').gen = (decl g).gen := by
  obtain ⟨cs, q, n⟩ := h
  rw [decl_calls q]
  exact upAll_nogen cs _ n

theorem noGen_foldl {α : Type} (f : Graph → α → Graph) (hf : ∀ g a, NoGen g (f g a)) :
    ∀ (l : List α) (g : Graph), NoGen g (l.foldl f g)
  | [], g => NoGen.rfl' g
  | a :: l, g => (hf g a).trans (noGen_foldl f hf l (f g a))

theorem noGen_emit (g : Graph) (cs : List Call) (h : ∀ c ∈ cs, isGen c = false) : NoGen g (g.emit cs) :=
  ⟨cs, (emit_fields g cs).2, h⟩

theorem noGen_idxOp (g : Graph) (op : C04.Op Str) : NoGen g (g.idxOp op) := by
  refine ⟨_, (idxOp_fields g op).2, ?_⟩
  intro c hc
  obtain ⟨e, _, he⟩ := List.mem_filterMap.mp hc
  cases e <;> simp [idxCall] at he <;> (subst he; rfl)

theorem noGen_onRsEvent (g : Graph) (e : RsEvent) : NoGen g (g.onRsEvent e) := by
  cases e with
  | ipsetActive uid d =>
    exact (noGen_emit _ _ (by intro c hc; simp at hc; subst hc; rfl)).trans (noGen_idxOp _ _)
  | ipsetInactive uid =>
    exact (noGen_idxOp _ _).trans (noGen_emit _ _ (by intro c hc; simp at hc; subst hc; rfl))

theorem noGen_rsUpdate (H : IdFn) (g : Graph) (key : RulesId) (r : Option RulesIn) : NoGen g (g.rsUpdate H key r) := by
  rw [rsUpdate_eq]
  exact NoGen.pre (noGen_foldl Graph.onRsEvent noGen_onRsEvent _ _) (NoGen.of_eq rfl)

theorem noGen_scanRules (H : IdFn) (g : Graph) (key : RulesId) (r : Option RulesIn) : NoGen g (g.scanRules H key r) :=
  (noGen_rsUpdate H g key r).trans
    (noGen_emit _ _ (by intro c hc; simp at hc; subst hc; cases key <;> cases r <;> rfl))

theorem noGen_profEvents (H : IdFn) (g : Graph) (evs : List (C05.Event RulesIn)) : NoGen g (g.profEvents H evs) := by
  unfold Graph.profEvents
  apply noGen_foldl
  intro g e
  cases e with
  | active p r => cases r <;> exact noGen_scanRules H g _ _
  | inactive p => exact noGen_scanRules H g _ _

theorem noGen_arcProfStep (H : IdFn) (g : Graph) (u : C05.Upd RulesIn) : NoGen g (g.arcProfStep H u) := by
  unfold Graph.arcProfStep
  exact NoGen.pre (noGen_profEvents H _ _) (NoGen.of_eq rfl)

theorem noGen_sendPolicyUpdate (H : IdFn) (g : Graph) (n : Nat) : NoGen g (g.sendPolicyUpdate H n) := by
  unfold Graph.sendPolicyUpdate
  split
  · split
    · exact noGen_scanRules H g _ _
    · exact NoGen.of_eq rfl
  · exact noGen_scanRules H g _ _

theorem noGen_onMatchEvent (H : IdFn) (g : Graph) (e : C07.Event) : NoGen g (g.onMatchEvent H e) := by
  cases e with
  | started sel item =>
    simp only [Graph.onMatchEvent]
    refine NoGen.trans ?_ (NoGen.of_eq rfl)
    split
    · exact NoGen.pre (noGen_sendPolicyUpdate H _ _) (NoGen.of_eq rfl)
    · exact NoGen.of_eq rfl
  | stopped sel item =>
    simp only [Graph.onMatchEvent]
    refine NoGen.trans ?_ (NoGen.of_eq rfl)
    split
    · exact NoGen.pre (noGen_sendPolicyUpdate H _ _) (NoGen.of_eq rfl)
    · exact NoGen.of_eq rfl

theorem noGen_lblStep (H : IdFn) (g : Graph) (r : C07.Idx × List C07.Event) : NoGen g (g.lblStep H r) := by
  unfold Graph.lblStep
  exact NoGen.pre (noGen_foldl _ (noGen_onMatchEvent H) _ _) (NoGen.of_eq rfl)

theorem noGen_arcEndpoint (H : IdFn) (g : Graph) (nid : Nat) (key : EpKey) (v : Option EpVal) :
    NoGen g (g.arcEndpoint H nid key v) := by
  unfold Graph.arcEndpoint
  simp only []
  refine (noGen_arcProfStep H g (.endpoint (epKeyStr key) (v.map (·.profiles)))).trans ?_
  cases v <;> exact noGen_lblStep H _ _

theorem noGen_idxEndpoint (g : Graph) (key : EpKey) (v : Option EpVal) : NoGen g (g.idxEndpoint key v) := by
  unfold Graph.idxEndpoint; cases v <;> exact noGen_idxOp _ _

theorem noGen_idxNetset (g : Graph) (name : String) (v : Option NetSetVal) : NoGen g (g.idxNetset name v) := by
  unfold Graph.idxNetset; cases v <;> exact noGen_idxOp _ _

theorem noGen_profLabels (H : IdFn) (g : Graph) (pid : String) (v : Option C04.Labels) : NoGen g (g.profLabels H pid v) := by
  unfold Graph.profLabels
  cases v <;> exact (noGen_lblStep H _ _).trans (noGen_idxOp _ _)

theorem noGen_arcPolicyChanged (H : IdFn) (g : Graph) (nid : Nat) (pv : PolVal) : NoGen g (g.arcPolicyChanged H nid pv) := by
  unfold Graph.arcPolicyChanged
  simp only []
  have inner : ∀ g1 : Graph, NoGen g1 (match C06.parse pv.sel with
      | .error _ => { g1 with panicked := true }
      | .ok sel =>
        if (g1.lblStep H (C07.updateSelector g1.lbl nid sel)).polActive nid then
          (g1.lblStep H (C07.updateSelector g1.lbl nid sel)).sendPolicyUpdate H nid
        else g1.lblStep H (C07.updateSelector g1.lbl nid sel)) := by
    intro g1
    split
    · exact NoGen.of_eq rfl
    · rename_i sel _
      refine (noGen_lblStep H g1 (C07.updateSelector g1.lbl nid sel)).trans ?_
      split
      · exact noGen_sendPolicyUpdate H _ _
      · exact NoGen.rfl' _
  have h0 : NoGen g { g with allPolicies := C02.mset nid pv g.allPolicies } := NoGen.of_eq rfl
  exact h0.trans (inner _)

theorem noGen_arcPolicy (H : IdFn) (g : Graph) (nid : Nat) (v : Option PolVal) : NoGen g (g.arcPolicy H nid v) := by
  unfold Graph.arcPolicy
  cases v with
  | none =>
    simp only []
    have h0 : NoGen g { g with allPolicies := C02.mdel nid g.allPolicies } := NoGen.of_eq rfl
    exact h0.trans (noGen_lblStep H _ _)
  | some pv =>
    simp only []
    split
    · exact NoGen.rfl' g
    · exact noGen_arcPolicyChanged H g nid pv

theorem flush_calls_noGen {r r' : C03.Resolver} {calls : List Call} (h : r.flush = some (r', calls)) :
    ∀ c ∈ calls, isGen c = false := by
  unfold C03.Resolver.flush at h
  split at h
  · cases h; simp
  · simp only [] at h
    split at h
    · cases h
    · cases h
      intro c hc
      obtain ⟨e, _, rfl⟩ := List.mem_map.mp hc
      unfold C03.Resolver.sendEndpointUpdate
      split <;> rfl

theorem noGen_flush (g : Graph) : NoGen g g.flush.1 := by
  rw [flush_eq]
  refine NoGen.trans (b := g.flushResolver) ?_ (NoGen.of_eq rfl)
  unfold Graph.flushResolver
  split
  · rename_i r calls hf
    exact NoGen.pre (noGen_emit _ _ (flush_calls_noGen hf)) (NoGen.of_eq (g' := { g with res := r }) rfl)
  · exact NoGen.of_eq rfl

/-! ### the declared pass-through objects are the datastore's table -/

def GenInv (g : Graph) (ds : DS) : Prop := ∀ c k, (decl g).gen c k = mget ds.gen (c, k)

theorem genInv_noGen {g g' : Graph} {ds ds' : DS} (hi : GenInv g ds) (h : NoGen g g') (hd : ds'.gen = ds.gen) :
    GenInv g' ds' := by
  intro c k; rw [noGen_decl h, hd]; exact hi c k

theorem genInv_step (H : IdFn) {g : Graph} {ds : DS} (hi : GenInv g ds) (u : Upd) : GenInv (g.step H u) (ds.apply u) := by
  cases u with
  | endpoint nid key isLocal v =>
    refine genInv_noGen hi ?_ rfl
    simp only [Graph.step]
    refine NoGen.pre (noGen_idxEndpoint _ key v) ?_
    refine NoGen.pre (b := { g with epKeys := C02.mset nid key g.epKeys }) ?_ (NoGen.of_eq rfl)
    split
    · exact (noGen_arcEndpoint H _ nid key v).trans (NoGen.of_eq rfl)
    · exact NoGen.rfl' _
  | netset name v => exact genInv_noGen hi (noGen_idxNetset g name v) rfl
  | profLabels pid v => exact genInv_noGen hi (noGen_profLabels H g pid v) rfl
  | profRules pid v => exact genInv_noGen hi (noGen_arcProfStep H g _) rfl
  | tier name v => exact genInv_noGen hi (NoGen.of_eq rfl) rfl
  | policy nid key v =>
    refine genInv_noGen hi ?_ rfl
    simp only [Graph.step]
    exact NoGen.pre ((noGen_arcPolicy H _ nid v).trans (NoGen.of_eq rfl))
      (NoGen.of_eq (g' := { g with polKeys := C02.mset nid key g.polKeys }) rfl)
  | passthru c key v =>
    intro c' k'
    simp only [Graph.step, DS.apply]
    rw [decl_calls (emit_fields g [passthruCall c key v]).2, mget_setOrDel]
    cases v with
    | none =>
      simp only [passthruCall, upAll, List.foldl_cons, List.foldl_nil, upApply, fupd]
      by_cases hc : c' = c
      · subst hc
        by_cases hk : k' = key
        · simp [hk, fupd]
        · simp [hk, fupd]; exact hi c' k'
      · simp [hc]; exact hi c' k'
    | some t =>
      simp only [passthruCall, upAll, List.foldl_cons, List.foldl_nil, upApply, fupd]
      by_cases hc : c' = c
      · subst hc
        by_cases hk : k' = key
        · simp [hk, fupd]
        · simp [hk, fupd]; exact hi c' k'
      · simp [hc]; exact hi c' k'
  | other => exact hi

theorem genInv_run (H : IdFn) : ∀ (h : List HStep) {g : Graph} {ds : DS}, GenInv g ds →
    GenInv (run H g h).1 (h.foldl (fun ds st => match st with
      | .upd u => ds.apply u
      | _ => ds) ds)
  | [], _, _, hi => hi
  | .upd u :: t, g, ds, hi => by simp only [run, List.foldl_cons]; exact genInv_run H t (genInv_step H hi u)
  | .inSync :: t, g, ds, hi => by
    simp only [run, List.foldl_cons]; exact genInv_run H t (genInv_noGen hi (NoGen.of_eq rfl) rfl)
  | .flush :: t, g, ds, hi => by
    simp only [run, List.foldl_cons]; exact genInv_run H t (genInv_noGen hi (noGen_flush g) rfl)

theorem genInv_new (s : Bool) : GenInv (Graph.new s) {} := by
  intro c k; simp [decl, upAll, Graph.new, mget]

/-- the pass-through updates of a history, per (category, key) -/
def genWrites : List HStep → List ((GenCat × String) × Option String)
  | [] => []
  | .upd (.passthru c k v) :: t => ((c, k), v) :: genWrites t
  | _ :: t => genWrites t

theorem lastState_gen (h : List HStep) : ∀ ds : DS,
    (h.foldl (fun ds st => match st with
      | .upd u => ds.apply u
      | _ => ds) ds).gen = (genWrites h).foldl (fun m u => setOrDel u.1 u.2 m) ds.gen := by
  induction h with
  | nil => intro ds; rfl
  | cons st t ih =>
    intro ds
    simp only [List.foldl_cons]
    rw [ih]
    cases st with
    | upd u => cases u <;> rfl
    | inSync => rfl
    | flush => rfl

end CalicoVerif.C01
