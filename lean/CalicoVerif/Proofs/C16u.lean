import CalicoVerif.Proofs.C16t
set_option linter.unusedSimpArgs false
namespace CalicoVerif.C16

/-! ### Queues and the view's key set through the resync steps -/

theorem onMissing_queues (F : Felix) (m : String) :
    (F.onMissing m).qMust = sErase F.qMust m ∧ (F.onMissing m).qBg = sErase F.qBg m := by
  unfold Felix.onMissing
  dsimp only
  have : ∀ G : Felix, (G.updateDirtiness m).qMust = G.qMust ∧ (G.updateDirtiness m).qBg = G.qBg := by
    intro G
    obtain ⟨d, hd, _⟩ := updateDirtiness_eq G m
    rw [hd]; exact ⟨rfl, rfl⟩
  simp only [Felix.qRemove]
  split
  · exact ⟨by rw [(this _).1], by rw [(this _).2]⟩
  · split
    · exact ⟨by rw [(this _).1], by rw [(this _).2]⟩
    · exact ⟨by rw [(this _).1], by rw [(this _).2]⟩

theorem applyList_queues (c : Cfg) (F : Felix) (m : String) (lr : LR) :
    (∀ x ∈ (F.applyList c m lr).1.qMust, x ∈ F.qMust) ∧ (∀ x ∈ (F.applyList c m lr).1.qBg, x ∈ F.qBg) := by
  cases lr with
  | notFound =>
    simp only [Felix.applyList]
    obtain ⟨h1, h2⟩ := onMissing_queues F m
    rw [h1, h2]
    exact ⟨fun x hx => (mem_sErase_iff.1 hx).1, fun x hx => (mem_sErase_iff.1 hx).1⟩
  | failNoOutput => exact ⟨fun _ h => h, fun _ h => h⟩
  | listed mt ms failed =>
    simp only [Felix.applyList]
    split
    · exact ⟨fun _ h => h, fun _ h => h⟩
    · obtain ⟨d, hd, _⟩ := updateDirtiness_eq
        ({ F with members := F.members.set m { F.tracker m with dp := ms.eraseDups } } : Felix) m
      rw [hd]; exact ⟨fun _ h => h, fun _ h => h⟩

theorem qAdd_must_mem (F : Felix) (m x : String) : x ∈ (F.qAdd m true).qMust ↔ x ∈ F.qMust ∨ x = m := by
  unfold Felix.qAdd
  split
  · rename_i h
    have hm : m ∈ F.qMust := by simpa using h
    constructor
    · exact Or.inl
    · rintro (h | rfl); exact h; exact hm
  · split
    · simp
    · simp

theorem qAdd_bg_sub (F : Felix) (m x : String) (h : x ∈ (F.qAdd m true).qBg) : x ∈ F.qBg := by
  unfold Felix.qAdd at h
  split at h
  · exact h
  · split at h
    · simp only [if_true] at h; exact (mem_sErase_iff.1 h).1
    · simp only [if_true] at h; exact h

theorem applyList_dp_has (c : Cfg) (F : Felix) (m b : String) (lr : LR)
    (h : (F.applyList c m lr).1.dp.has b = true) : F.dp.has b = true ∨ b = m := by
  by_cases hb : b = m
  · exact Or.inr hb
  · left
    have := applyList_SN c F hb lr
    simp only [SN, Prod.mk.injEq] at this
    simp only [Map.has] at h ⊢
    rw [← this.1]; exact h

theorem applyList_dp_self (c : Cfg) (K : Kernel) (F : Felix) (m : String) (lr : LR) (hspec : LRSpec K m lr)
    (hk : K.has m = true) : (F.applyList c m lr).1.dp.has m = true := by
  cases lr with
  | notFound => simp only [LRSpec] at hspec; simp [Map.has, hspec] at hk
  | failNoOutput => simp [Felix.applyList, Map.has_set]
  | listed mt ms failed => simp [Felix.applyList, Map.has_set]

/-- Everything the drain does to names other than the processed ones, and to the view's key set. -/
structure DrainAcc (K : Kernel) (L : List String) (F F' : Felix) : Prop where
  dpNew : ∀ b, F'.dp.has b = true → F.dp.has b = true ∨ b ∈ L
  dpCov : ∀ b, K.has b = true → (F.dp.has b = true ∨ b ∈ L) → F'.dp.has b = true
  qMust : ∀ x ∈ F'.qMust, x ∈ F.qMust ∨ x ∈ L
  qBg : ∀ x ∈ F'.qBg, x ∈ F.qBg

theorem drain_fold_acc {K : Kernel} {c : Cfg} {F0 : Felix} : ∀ (L : List String) (acc : W × Bool),
    DEnv K c F0 acc.1 → DrainAcc K L acc.1.F (L.foldl W.drainStep acc).1.F := by
  intro L
  induction L with
  | nil =>
    intro acc _
    exact ⟨fun _ h => Or.inl h, fun b _ h => by rcases h with h | h; exact h; simp at h,
      fun _ h => Or.inl h, fun _ h => h⟩
  | cons m L ih =>
    intro acc henv
    simp only [List.foldl]
    have henv' := drainStep_env acc m henv
    have post := ih (W.drainStep acc m) henv'
    obtain ⟨lr, hspec, hK, hc, hF, _⟩ := drainStep_desc acc m
    have hspec' : LRSpec K m lr := by rw [← henv.K]; exact hspec
    -- facts about the single step
    have sdp : ∀ b, (W.drainStep acc m).1.F.dp.has b = true → acc.1.F.dp.has b = true ∨ b = m := by
      intro b hb
      rcases hF with hF | hF
      · rw [hF] at hb; exact applyList_dp_has _ _ _ _ _ hb
      · rw [hF] at hb
        have hs := qAdd_SN (acc.1.F.applyList acc.1.cfg m lr).1 m true b
        simp only [SN, Prod.mk.injEq] at hs
        simp only [Map.has] at hb
        rw [hs.1] at hb
        exact applyList_dp_has _ _ _ _ _ hb
    have sdpget : ∀ b, (W.drainStep acc m).1.F.dp.get b = (acc.1.F.applyList acc.1.cfg m lr).1.dp.get b := by
      intro b
      rcases hF with hF | hF
      · rw [hF]
      · rw [hF]
        have hs := qAdd_SN (acc.1.F.applyList acc.1.cfg m lr).1 m true b
        simp only [SN, Prod.mk.injEq] at hs
        exact hs.1
    refine ⟨?_, ?_, ?_, ?_⟩
    · intro b hb
      rcases post.dpNew b hb with h | h
      · rcases sdp b h with h' | h'
        · exact Or.inl h'
        · exact Or.inr (h' ▸ List.mem_cons_self)
      · exact Or.inr (List.mem_cons_of_mem _ h)
    · intro b hk hb
      apply post.dpCov b hk
      by_cases hbm : b = m
      · left
        subst hbm
        simp only [Map.has, sdpget]
        exact applyList_dp_self _ K _ _ _ hspec' hk
      · rcases hb with hb | hb
        · left
          have hs := applyList_SN acc.1.cfg acc.1.F hbm lr
          simp only [SN, Prod.mk.injEq] at hs
          simp only [Map.has, sdpget, hs.1]; exact hb
        · rcases List.mem_cons.1 hb with rfl | hb
          · exact absurd rfl hbm
          · exact Or.inr hb
    · intro x hx
      rcases post.qMust x hx with h | h
      · rcases hF with hF | hF
        · rw [hF] at h; exact Or.inl ((applyList_queues _ _ _ _).1 x h)
        · rw [hF, qAdd_must_mem] at h
          rcases h with h | rfl
          · exact Or.inl ((applyList_queues _ _ _ _).1 x h)
          · exact Or.inr List.mem_cons_self
      · exact Or.inr (List.mem_cons_of_mem _ h)
    · intro x hx
      have h := post.qBg x hx
      rcases hF with hF | hF
      · rw [hF] at h; exact (applyList_queues _ _ _ _).2 x h
      · rw [hF] at h; exact (applyList_queues _ _ _ _).2 x (qAdd_bg_sub _ _ _ h)

end CalicoVerif.C16
