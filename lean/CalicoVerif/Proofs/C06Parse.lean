import CalicoVerif.Proofs.C06StringSet
/-! C06 helper lemmas: the parser on the token stream of a canonical text. -/
namespace CalicoVerif.C06

/-- body of `parseOperation` after the `!` loop. -/
def opCore (fuel : Nat) (toks : List Token) : PResult :=
  match toks with
  | .has l :: rem => .ok (.has l, rem)
  | .all :: rem => .ok (.all, rem)
  | .global :: rem => .ok (.global, rem)
  | .label l :: rest => parseLabelOp l rest
  | .lParen :: rest =>
    match parseOrWith (parseOperation fuel) fuel rest with
    | .error e => .error e
    | .ok (n, rem) =>
      match rem with
      | .rParen :: rem' => .ok (n, rem')
      | _ => .error .expectedRParen
  | _ => .error .unexpectedToken

/-- `parseOperation` started with `negated = b`. -/
def opFrom (fuel : Nat) (b : Bool) (tokens : List Token) : PResult :=
  match opCore fuel (stripNots tokens b).2 with
  | .error e => .error e
  | .ok (n, rem) => .ok (wrapNot (stripNots tokens b).1 n, rem)

theorem parseOperation_succ (fuel : Nat) (t : Token) (ts : List Token) :
    parseOperation (fuel + 1) (t :: ts) = opFrom fuel false (t :: ts) := by
  rw [parseOperation, opFrom]
  rfl

theorem opFrom_not (fuel : Nat) (b : Bool) (ts : List Token) :
    opFrom fuel b (.not :: ts) = opFrom fuel (!b) ts := by
  simp [opFrom, stripNots]

theorem toks_ne_nil (t : Node) : toks t ≠ [] := by
  cases t <;> simp only [toks] <;> (try split) <;> simp

theorem toks_length_pos (t : Node) : 0 < (toks t).length :=
  List.length_pos_iff.mpr (toks_ne_nil t)

/-- For a node that is not a negation the `!` loop stops immediately. -/
theorem stripNots_toks {t : Node} (h : t.isNot = false) (rest : List Token) (b : Bool) :
    stripNots (toks t ++ rest) b = (b, toks t ++ rest) := by
  cases t <;> simp_all [toks, stripNots, Node.isNot]

theorem parseSetValues_tail (v : Str) (rest : List Token) : ∀ vs : List Str,
    parseSetValues (.str v :: (setTailToks vs ++ .rBrace :: rest)) = (v :: vs, .rBrace :: rest)
  | [] => by simp [setTailToks, parseSetValues]
  | w :: ws => by
    simp only [setTailToks, List.cons_append, parseSetValues]
    rw [parseSetValues_tail w rest ws]

theorem parseSetValues_setToks (vs : List Str) (rest : List Token) :
    parseSetValues (setToks vs ++ .rBrace :: rest) = (vs, .rBrace :: rest) := by
  cases vs with
  | nil => simp [setToks, parseSetValues]
  | cons v vs => simpa [setToks] using parseSetValues_tail v rest vs

/-! ### the `&&` / `||` loops on joined operands -/

section loops
variable (op : List Token → PResult)

theorem andRest_stop (fuel : Nat) {rest : List Token} (h : ∀ r, rest ≠ .and :: r) :
    andRest op fuel rest = .ok ([], rest) := by
  unfold andRest
  split
  · exact absurd rfl (h _)
  · exact absurd rfl (h _)
  · rfl

theorem orRest_stop (fuelAnd fuel : Nat) {rest : List Token} (h : ∀ r, rest ≠ .or :: r) :
    orRest op fuelAnd fuel rest = .ok ([], rest) := by
  unfold orRest
  split
  · exact absurd rfl (h _)
  · exact absurd rfl (h _)
  · rfl

theorem andRest_toks {rest : List Token} (hrest : ∀ r, rest ≠ .and :: r) :
    ∀ (ns : List Node) (fuel : Nat), ns.length ≤ fuel →
      (∀ n ∈ ns, ∀ r, op (toks n ++ r) = .ok (n, r)) →
      andRest op fuel (tailToks .and ns ++ rest) = .ok (ns, rest)
  | [], fuel, _, _ => by simpa [tailToks] using andRest_stop op fuel hrest
  | n :: ns, 0, h, _ => by simp at h
  | n :: ns, fuel + 1, h, hop => by
    have ih := andRest_toks hrest ns fuel (by simpa using h) (fun m hm => hop m (List.mem_cons_of_mem _ hm))
    simp only [tailToks, List.cons_append, List.append_assoc, andRest]
    rw [hop n (List.mem_cons_self ..)]
    simp only [ih, List.map_cons]

theorem parseAndWith_single (fuel : Nat) (n : Node) {rest : List Token} (hrest : ∀ r, rest ≠ .and :: r)
    (hop : ∀ r, op (toks n ++ r) = .ok (n, r)) :
    parseAndWith op fuel (toks n ++ rest) = .ok (n, rest) := by
  simp [parseAndWith, hop, andRest_stop op fuel hrest, mkAnd]

theorem orRest_toks {rest : List Token} (hrest : ∀ r, rest ≠ .or :: r) (hrest' : ∀ r, rest ≠ .and :: r)
    (fuelAnd : Nat) :
    ∀ (ns : List Node) (fuel : Nat), ns.length ≤ fuel →
      (∀ n ∈ ns, ∀ r, op (toks n ++ r) = .ok (n, r)) →
      orRest op fuelAnd fuel (tailToks .or ns ++ rest) = .ok (ns, rest)
  | [], fuel, _, _ => by simpa [tailToks] using orRest_stop op fuelAnd fuel hrest
  | n :: ns, 0, h, _ => by simp at h
  | n :: ns, fuel + 1, h, hop => by
    have ih := orRest_toks hrest hrest' fuelAnd ns fuel (by simpa using h)
      (fun m hm => hop m (List.mem_cons_of_mem _ hm))
    have hnext : ∀ r, tailToks .or ns ++ rest ≠ .and :: r := by
      cases ns with
      | nil => simpa [tailToks] using hrest'
      | cons m ms => simp [tailToks]
    simp only [tailToks, List.cons_append, List.append_assoc, orRest]
    rw [parseAndWith_single op fuelAnd n hnext (hop n (List.mem_cons_self ..))]
    simp only [ih, List.map_cons]

/-- An `&&` group between parentheses. -/
theorem parseOrWith_andGroup (fuel : Nat) (ns : List Node) (rest : List Token)
    (hlen : 2 ≤ ns.length) (hfuel : ns.length ≤ fuel)
    (hop : ∀ n ∈ ns, ∀ r, op (toks n ++ r) = .ok (n, r)) :
    parseOrWith op fuel (joinToks .and ns ++ .rParen :: rest) =
      .ok (.and (ns), .rParen :: rest) := by
  match ns, hlen with
  | n :: m :: ms, _ =>
    have hr : ∀ r, Token.rParen :: rest ≠ .and :: r := by simp
    have h2 := andRest_toks op hr (m :: ms) fuel (by simp at hfuel ⊢; omega)
      (fun k hk => hop k (List.mem_cons_of_mem _ hk))
    simp only [parseOrWith, parseAndWith, joinToks, List.append_assoc]
    rw [hop n (List.mem_cons_self ..)]
    simp only [h2]
    rw [orRest_stop op fuel fuel (by simp)]
    simp [mkOr, mkAnd]

/-- An `||` group between parentheses. -/
theorem parseOrWith_orGroup (fuel : Nat) (ns : List Node) (rest : List Token)
    (hlen : 2 ≤ ns.length) (hfuel : ns.length ≤ fuel)
    (hop : ∀ n ∈ ns, ∀ r, op (toks n ++ r) = .ok (n, r)) :
    parseOrWith op fuel (joinToks .or ns ++ .rParen :: rest) =
      .ok (.or (ns), .rParen :: rest) := by
  match ns, hlen with
  | n :: m :: ms, _ =>
    have h2 := orRest_toks op (rest := .rParen :: rest) (by simp) (by simp) fuel (m :: ms) fuel
      (by simp at hfuel ⊢; omega) (fun k hk => hop k (List.mem_cons_of_mem _ hk))
    have hnext : ∀ r, tailToks .or (m :: ms) ++ .rParen :: rest ≠ .and :: r := by simp [tailToks]
    simp only [parseOrWith, joinToks, List.append_assoc]
    rw [parseAndWith_single op fuel n hnext (hop n (List.mem_cons_self ..))]
    simp only [h2]
    simp [mkOr]

end loops

theorem length_le_joinToks (sep : Token) : ∀ ns : List Node, ns.length ≤ (joinToks sep ns).length := by
  have tail : ∀ ns : List Node, ns.length ≤ (tailToks sep ns).length := by
    intro ns
    induction ns with
    | nil => simp [tailToks]
    | cons n ns ih => simp only [tailToks, List.length_cons, List.length_append]; omega
  intro ns
  cases ns with
  | nil => simp [joinToks]
  | cons n ns =>
    have := tail ns
    have := toks_length_pos n
    simp only [joinToks, List.length_cons, List.length_append]; omega

theorem toks_length_le_joinToks (sep : Token) : ∀ (ns : List Node) (n : Node), n ∈ ns →
    (toks n).length ≤ (joinToks sep ns).length := by
  have tail : ∀ (ns : List Node) (n : Node), n ∈ ns → (toks n).length ≤ (tailToks sep ns).length := by
    intro ns
    induction ns with
    | nil => intro n h; cases h
    | cons m ms ih =>
      intro n h
      simp only [tailToks, List.length_cons, List.length_append]
      rcases List.mem_cons.mp h with rfl | h
      · omega
      · have := ih n h; omega
  intro ns n h
  cases ns with
  | nil => cases h
  | cons m ms =>
    simp only [joinToks, List.length_append]
    rcases List.mem_cons.mp h with rfl | h
    · omega
    · have := tail ms n h; omega

/-- For a node that is not a negation, `parseOperation` started with `negated = b`
wraps what the body of the operation returns. -/
theorem opFrom_nonNot {t : Node} (h : t.isNot = false) (fuel : Nat) (rest : List Token) (b : Bool) :
    opFrom fuel b (toks t ++ rest) =
      match opCore fuel (toks t ++ rest) with
      | .error e => .error e
      | .ok (n, rem) => .ok (wrapNot b n, rem) := by
  unfold opFrom
  rw [stripNots_toks h]

theorem opFrom_true_of_false {t : Node} (h : t.isNot = false) {fuel : Nat} {rest : List Token} {n : Node}
    {rem : List Token} (hf : opFrom fuel false (toks t ++ rest) = .ok (n, rem)) :
    opFrom fuel true (toks t ++ rest) = .ok (.not n, rem) := by
  rw [opFrom_nonNot h] at hf ⊢
  cases hc : opCore fuel (toks t ++ rest) with
  | error e => rw [hc] at hf; cases hf
  | ok p =>
    obtain ⟨m, r⟩ := p
    rw [hc] at hf
    simp only [wrapNot, Bool.false_eq_true, if_false, Except.ok.injEq, Prod.mk.injEq] at hf
    simp [wrapNot, hf.1, hf.2]

theorem parseOperation_of_opFrom {t : Node} {fuel : Nat} (hpos : 0 < fuel) (r : List Token) :
    parseOperation fuel (toks t ++ r) = opFrom (fuel - 1) false (toks t ++ r) := by
  obtain ⟨f', rfl⟩ : ∃ f', fuel = f' + 1 := ⟨fuel - 1, by omega⟩
  obtain ⟨t0, ts, hts⟩ : ∃ t0 ts, toks t ++ r = t0 :: ts := by
    cases htn : toks t with
    | nil => exact absurd htn (toks_ne_nil t)
    | cons t0 ts => exact ⟨t0, ts ++ r, rfl⟩
  rw [hts, parseOperation_succ]
  rfl

/-- KEY LEMMA: `parseOperation` on the tokens of a well-formed node followed by
anything returns exactly the node and leaves exactly what followed. -/
theorem opFrom_toks : ∀ t, WF t → ∀ (fuel : Nat) (rest : List Token),
    (toks t).length ≤ fuel + 1 → opFrom fuel false (toks t ++ rest) = .ok (t, rest) := by
  intro t
  induction t using Node.ind with
  | not n ih =>
    intro h fuel rest hf
    rw [WF] at h
    by_cases hn : n.isNot = true
    · -- `!( <negation> )`
      simp only [toks, hn, if_true, List.cons_append, List.append_assoc, List.length_cons,
        List.length_append, List.length_nil] at hf ⊢
      rw [opFrom_not]
      have hpos := toks_length_pos n
      have hop : ∀ r, parseOperation fuel (toks n ++ r) = .ok (n, r) := by
        intro r
        rw [parseOperation_of_opFrom (by omega)]
        exact ih h (fuel - 1) r (by omega)
      have hgrp : parseOrWith (parseOperation fuel) fuel (toks n ++ .rParen :: rest) = .ok (n, .rParen :: rest) := by
        unfold parseOrWith
        rw [parseAndWith_single _ _ n (by simp) hop]
        simp only []
        rw [orRest_stop _ _ _ (by simp)]
        simp [mkOr]
      simp [opFrom, stripNots, opCore, hgrp, wrapNot]
    · have hn' : n.isNot = false := by simpa using hn
      simp only [toks, hn', Bool.false_eq_true, if_false, List.cons_append, List.length_cons] at hf ⊢
      rw [opFrom_not]
      exact opFrom_true_of_false hn' (ih h fuel rest (by omega))
  | and ns ih =>
    intro h fuel rest hf
    simp only [WF, wfList_iff] at h
    simp only [toks, List.length_cons, List.length_append, List.length_nil] at hf
    have hlen := length_le_joinToks .and ns
    have hop : ∀ n ∈ ns, ∀ r, parseOperation fuel (toks n ++ r) = .ok (n, r) := by
      intro n hn r
      have hl := toks_length_le_joinToks .and ns n hn
      have hpos := toks_length_pos n
      rw [parseOperation_of_opFrom (by omega)]
      exact ih n hn (h.2 n hn) (fuel - 1) r (by omega)
    have hgrp := parseOrWith_andGroup (parseOperation fuel) fuel ns rest h.1 (by omega) hop
    have hs := stripNots_toks (t := .and ns) rfl rest false
    simp only [toks, List.cons_append, List.append_assoc, List.nil_append] at hs
    simp only [opFrom, toks, List.cons_append, List.append_assoc, List.nil_append, hs, opCore, hgrp, wrapNot,
      Bool.false_eq_true, if_false]
  | or ns ih =>
    intro h fuel rest hf
    simp only [WF, wfList_iff] at h
    simp only [toks, List.length_cons, List.length_append, List.length_nil] at hf
    have hlen := length_le_joinToks .or ns
    have hop : ∀ n ∈ ns, ∀ r, parseOperation fuel (toks n ++ r) = .ok (n, r) := by
      intro n hn r
      have hl := toks_length_le_joinToks .or ns n hn
      have hpos := toks_length_pos n
      rw [parseOperation_of_opFrom (by omega)]
      exact ih n hn (h.2 n hn) (fuel - 1) r (by omega)
    have hgrp := parseOrWith_orGroup (parseOperation fuel) fuel ns rest h.1 (by omega) hop
    have hs := stripNots_toks (t := .or ns) rfl rest false
    simp only [toks, List.cons_append, List.append_assoc, List.nil_append] at hs
    simp only [opFrom, toks, List.cons_append, List.append_assoc, List.nil_append, hs, opCore, hgrp, wrapNot,
      Bool.false_eq_true, if_false]
  | inSet l vs =>
    intro h fuel rest _
    have hs := stripNots_toks (t := .inSet l vs) rfl rest false
    simp only [toks, List.cons_append, List.append_assoc, List.nil_append] at hs
    simp only [opFrom, toks, List.cons_append, List.append_assoc, List.nil_append, hs, opCore,
      parseLabelOp, parseSetValues_setToks, convertToStringSet_of_strictSorted h.2.2, wrapNot,
      Bool.false_eq_true, if_false]
  | notInSet l vs =>
    intro h fuel rest _
    have hs := stripNots_toks (t := .notInSet l vs) rfl rest false
    simp only [toks, List.cons_append, List.append_assoc, List.nil_append] at hs
    simp only [opFrom, toks, List.cons_append, List.append_assoc, List.nil_append, hs, opCore,
      parseLabelOp, parseSetValues_setToks, convertToStringSet_of_strictSorted h.2.2, wrapNot,
      Bool.false_eq_true, if_false]
  | _ =>
    intro h fuel rest _
    simp [opFrom, toks, stripNots, opCore, parseLabelOp, wrapNot]

/-- The parser on `tokens(text) ++ [EOF]`. -/
theorem parseOrExpression_toks (t : Node) (h : WF t) :
    parseOrExpression (toks t ++ [Token.eof]).length (toks t ++ [Token.eof]) = .ok (t, [Token.eof]) := by
  have hpos := toks_length_pos t
  have hop : ∀ r, parseOperation (toks t ++ [Token.eof]).length (toks t ++ r) = .ok (t, r) := by
    intro r
    rw [parseOperation_of_opFrom (by simp)]
    exact opFrom_toks t h _ r (by simp)
  unfold parseOrExpression parseOrWith
  rw [parseAndWith_single _ _ t (by simp) hop]
  simp only []
  rw [orRest_stop _ _ _ (by simp)]
  simp [mkOr]

end CalicoVerif.C06
