import CalicoVerif.Proofs.C16e
namespace CalicoVerif.C16

theorem pickOrder_same (w : W) (dirty : List String) :
    (w.pickOrder dirty).2.F = w.F ∧ (w.pickOrder dirty).2.K = w.K ∧ (w.pickOrder dirty).2.cfg = w.cfg := by
  unfold W.pickOrder
  split
  · exact ⟨rfl, rfl, rfl⟩
  · split <;> exact ⟨rfl, rfl, rfl⟩

theorem runRestore_KD (w : W) (rp : RPlan) (order : List String) : KD w (w.runRestore rp order).1 := by
  unfold W.runRestore
  split
  · exact ⟨rfl, rfl, fun _ _ h => h⟩
  · rename_i F1 lines hwa
    have hd := writeAll_desired _ _ _ _ hwa
    have hmono : ∀ n, w.K.has n = true → (krun w.K (linesToRun rp lines)).1.has n = true :=
      fun n hn => krun_has_mono _ _ hn
    dsimp only
    split
    · exact ⟨hd, rfl, fun n _ hk => hmono n hk⟩
    · refine ⟨?_, rfl, fun n _ hk => hmono n hk⟩
      dsimp only
      rw [qAddAll_desired, hd]

theorem tryUpdates_KD (w : W) (dirty : List String) : KD w (w.tryUpdates dirty).1 := by
  unfold W.tryUpdates
  split
  · exact KD.refl w
  · dsimp only
    split
    · exact ⟨rfl, rfl, fun _ _ h => h⟩
    · have h1 := pickOrder_same { w with plan := { w.plan with restores := (popRPlan w.plan.restores).2 } } dirty
      have h2 := runRestore_KD
        (W.pickOrder { w with plan := { w.plan with restores := (popRPlan w.plan.restores).2 } } dirty).2
        (popRPlan w.plan.restores).1
        (W.pickOrder { w with plan := { w.plan with restores := (popRPlan w.plan.restores).2 } } dirty).1
      refine KD.trans ?_ h2
      exact ⟨by rw [h1.1], h1.2.2, fun n _ hk => by rw [h1.2.1]; exact hk⟩

/-- **never_destroy_desired (ApplyUpdates, whole retry loop)**. -/
theorem applyLoop_KD : ∀ (fuel att : Nat) (rerr : Bool) (w : W), KD w (W.applyLoop fuel att rerr w).1 := by
  intro fuel
  induction fuel with
  | zero => intro att rerr w; unfold W.applyLoop; exact KD.refl w
  | succ fuel ih =>
    intro att rerr w
    unfold W.applyLoop
    dsimp only
    have hr : KD w (if (w.F.fullReq || w.F.bgReq || decide (w.F.qLen > 0)) = true then w.tryResync else (w, rerr)).1 := by
      split
      · exact (tryResync_frame w).toKD
      · exact KD.refl w
    generalize (if (w.F.fullReq || w.F.bgReq || decide (w.F.qLen > 0)) = true then w.tryResync else (w, rerr)) = r1 at hr
    obtain ⟨w1, rerr1⟩ := r1
    dsimp only at hr ⊢
    split
    · exact KD.trans hr (KD.trans (b := { w1 with sleeps := w1.sleeps + 1 }) ⟨rfl, rfl, fun _ _ h => h⟩ (ih _ _ _))
    · have h2 := tryTempDeletions_KD w1
      have h3 := tryUpdates_KD w1.tryTempDeletions w1.tryTempDeletions.F.dirtyForUpdate
      generalize w1.tryTempDeletions.tryUpdates w1.tryTempDeletions.F.dirtyForUpdate = r3 at h3
      obtain ⟨w3, uerr⟩ := r3
      dsimp only at h3 ⊢
      have h13 := KD.trans hr (KD.trans h2 h3)
      split
      · exact h13
      · have h4 : KD w3 (if (uerr && !decide (att < 5)) = true then { w3 with F := { w3.F with fullReq := true } } else w3) := by
          split
          · exact ⟨rfl, rfl, fun _ _ h => h⟩
          · exact KD.refl _
        generalize (if (uerr && !decide (att < 5)) = true then ({ w3 with F := { w3.F with fullReq := true } } : W) else w3) = w4 at h4
        split
        · exact KD.trans h13 (KD.trans h4 (KD.trans (b := { w4 with sleeps := w4.sleeps + 1 }) ⟨rfl, rfl, fun _ _ h => h⟩ (ih _ _ _)))
        · exact KD.trans h13 (KD.trans h4 ⟨rfl, rfl, fun _ _ h => h⟩)

theorem applyUpdates_KD (w : W) : KD w w.applyUpdates.1 := by
  unfold W.applyUpdates
  have h := applyLoop_KD 10 0 false w
  generalize W.applyLoop 10 0 false w = r at h
  obtain ⟨w1, ok⟩ := r
  dsimp only at h ⊢
  split
  · exact h
  · exact KD.trans h ⟨rfl, rfl, fun _ _ h => h⟩

end CalicoVerif.C16
