import CalicoVerif.Proofs.C25Inv
/-!
C25 — preservation of the invariant by restart, status and pull; the invariant
holds after every run.
-/
namespace CalicoVerif.C25

/-! ### restart -/

theorem Inv.restart {s : Sys} (h : Inv s) : Inv (s.step .restart) := by
  refine ⟨?_, ?_, ?_, ?_, ?_, ?_, ?_, ?_, ?_⟩
  · exact h.live_iff
  · intro k hk
    have hnl : k ∉ s.buf.live := hk s.buf.live rfl
    have : ¬ (s.down k).isSome = true := fun e => hnl ((h.live_iff k).mpr e)
    have hd : s.down k = none := by simpa using this
    simp [Sys.step, onRestart, ups, effU, hd]
  · intro n hn k hk
    have : n = s.buf.live := by
      simp only [Sys.step, onRestart, Option.some.injEq] at hn
      exact hn.symm
    subst this
    exact ⟨by simp [Sys.step, onRestart, ups], hk, rfl⟩
  · intro hi; simp [Sys.step] at hi
  · simp [Sys.step, onRestart, ups]
  · intro x hx; simp [Sys.step, onRestart, ups] at hx
  · intro _ x hx; simp [Sys.step, onRestart, ups] at hx
  · exact h.logT
  · exact h.logD

/-! ### status -/

theorem ups_dropLast_st (p : List Item) (x s : Nat) (h : p.getLast? = some (Item.st x)) :
    ups (p.dropLast ++ [Item.st s]) = ups p := by
  have hne : p ≠ [] := by intro c; simp [c] at h
  have h2 := List.dropLast_concat_getLast hne
  have h3 : p.getLast hne = Item.st x := by
    have := List.getLast?_eq_some_getLast hne
    rw [this] at h
    exact Option.some.inj h
  rw [h3] at h2
  conv => rhs; rw [← h2]
  simp [ups]

theorem pushStatus_ups (b : Buf) (s : Nat) : ups (pushStatus b s).pending = ups b.pending := by
  unfold pushStatus
  split
  · rfl
  · simp only
    split
    · rename_i x hx
      exact ups_dropLast_st _ _ _ hx
    · simp [ups]

theorem pushStatus_live (b : Buf) (s : Nat) : (pushStatus b s).live = b.live := by
  unfold pushStatus; split
  · rfl
  · simp only; split <;> rfl

theorem pushStatus_notSeen (b : Buf) (s : Nat) : (pushStatus b s).notSeen = b.notSeen := by
  unfold pushStatus; split
  · rfl
  · simp only; split <;> rfl

/-- The synthesised-deletion loop of `onInSyncAfterReconnection`. -/
def synthLoop (b : Buf) (keys : List Key) : Buf := keys.foldl (fun b k => queueUpdate b (synthDel k)) b

theorem synthLoop_live (b : Buf) (keys : List Key) : (synthLoop b keys).live = b.live := by
  induction keys generalizing b with
  | nil => rfl
  | cons k ks ih => simp only [synthLoop, List.foldl_cons] at ih ⊢; rw [ih, queueUpdate_live]

theorem synthLoop_eff (b : Buf) (keys : List Key) (k : Key) (a : Option V)
    (hl : k ∈ keys → (k ∈ b.live ↔ a.isSome = true)) :
    effU k a (ups (synthLoop b keys).pending) = if k ∈ keys then none else effU k a (ups b.pending) := by
  induction keys generalizing b with
  | nil => simp [synthLoop]
  | cons x ks ih =>
    simp only [synthLoop, List.foldl_cons] at ih ⊢
    by_cases hk : k ∈ ks
    · rw [ih _ (fun _ => by rw [queueUpdate_live]; exact hl (List.mem_cons_of_mem _ hk))]
      simp [hk]
    · rw [ih _ (fun m => absurd m hk)]
      simp only [hk, if_false]
      rw [effU_queueUpdate b (synthDel x) k a
        (fun e => by
          have : (synthDel x).key = x := rfl
          rw [this] at e ⊢
          subst e
          exact hl (List.mem_cons_self ..))]
      have hx : (synthDel x).key = x := rfl
      by_cases e : k = x
      · simp [e, Upd.entry, synthDel]
      · simp [e, hx, hk]

theorem synthLoop_nodup (b : Buf) (keys : List Key) (h : ((ups b.pending).map (·.key)).Nodup) :
    ((ups (synthLoop b keys).pending).map (·.key)).Nodup := by
  induction keys generalizing b with
  | nil => exact h
  | cons k ks ih => simp only [synthLoop, List.foldl_cons] at ih ⊢; exact ih _ (nodup_queueUpdate b _ h)

theorem synthLoop_mem (b : Buf) (keys : List Key) (x : Upd) (hx : x ∈ ups (synthLoop b keys).pending) :
    x ∈ ups b.pending ∨ ∃ k ∈ keys, x = synthDel k := by
  induction keys generalizing b with
  | nil => exact Or.inl hx
  | cons k ks ih =>
    simp only [synthLoop, List.foldl_cons] at ih hx
    rcases ih _ hx with h1 | ⟨k', hk', e⟩
    · rcases mem_ups_queueUpdate b (synthDel k) x h1 with ⟨h2, _⟩ | ⟨e, _⟩
      · exact Or.inl h2
      · right
        refine ⟨k, List.mem_cons_self .., ?_⟩
        rw [e]; rfl
    · exact Or.inr ⟨k', List.mem_cons_of_mem _ hk', e⟩

theorem Inv.status {s : Sys} (h : Inv s) (st : Nat) (order : List Key) :
    Inv (s.step (.status st order)) := by
  -- the buffer after the resync handling, before `pushStatus`
  let b1 : Buf := if st == inSync then
      match s.buf.notSeen with
      | some n => onInSyncAfterReconnection s.buf (synthOrder n order)
      | none => s.buf
    else s.buf
  have hbuf : (s.step (.status st order)).buf = pushStatus b1 st := rfl
  -- facts about b1
  have key : b1.live = s.buf.live ∧
      (∀ k, effU k (s.down k) (ups b1.pending) =
        if (∃ n, s.buf.notSeen = some n ∧ k ∈ n) ∧ st = inSync then none
        else effU k (s.down k) (ups s.buf.pending)) ∧
      ((ups b1.pending).map (·.key)).Nodup ∧
      (∀ x ∈ ups b1.pending, x ∈ ups s.buf.pending ∨ ∃ n, s.buf.notSeen = some n ∧ ∃ k ∈ n, x = synthDel k) ∧
      b1.notSeen = (if st = inSync then none else s.buf.notSeen) := by
    by_cases hst : st = inSync
    · cases hn : s.buf.notSeen with
      | none =>
        have : b1 = s.buf := by simp [b1, hst, hn]
        rw [this]
        refine ⟨rfl, ?_, h.nodup, fun x hx => Or.inl hx, by simp [hst, hn]⟩
        intro k; simp
      | some n =>
        have hb : b1 = { synthLoop s.buf (synthOrder n order) with notSeen := none } := by
          simp [b1, hst, hn, onInSyncAfterReconnection, synthLoop]
        have hperm : ∀ k, k ∈ synthOrder n order ↔ k ∈ n := by
          intro k
          unfold synthOrder
          split
          · rename_i hp; exact (List.isPerm_iff.mp hp).mem_iff
          · exact Iff.rfl
        rw [hb]
        refine ⟨synthLoop_live _ _, ?_, synthLoop_nodup _ _ h.nodup, ?_, by simp [hst]⟩
        · intro k
          show effU k (s.down k) (ups (synthLoop s.buf (synthOrder n order)).pending) = _
          rw [synthLoop_eff _ _ _ _ (fun _ => h.live_iff k)]
          simp [hperm, hst]
        · intro x hx
          rcases synthLoop_mem _ _ x hx with h1 | ⟨k, hk, e⟩
          · exact Or.inl h1
          · exact Or.inr ⟨n, rfl, k, (hperm k).mp hk, e⟩
    · have : b1 = s.buf := by
        have : (st == inSync) = false := by simpa using hst
        simp [b1, this]
      rw [this]
      refine ⟨rfl, ?_, h.nodup, fun x hx => Or.inl hx, by simp [hst]⟩
      intro k; simp [hst]
  obtain ⟨k1, k2, k3, k4, k5⟩ := key
  have hlive : (s.step (.status st order)).buf.live = s.buf.live := by rw [hbuf, pushStatus_live, k1]
  have hups : ups (s.step (.status st order)).buf.pending = ups b1.pending := by rw [hbuf, pushStatus_ups]
  have hns : (s.step (.status st order)).buf.notSeen = if st = inSync then none else s.buf.notSeen := by
    rw [hbuf, pushStatus_notSeen, k5]
  have hdown : (s.step (.status st order)).down = s.down := rfl
  have hview : (s.step (.status st order)).view = s.view := rfl
  refine ⟨?_, ?_, ?_, ?_, ?_, ?_, ?_, h.logT, h.logD⟩
  · intro k; rw [hlive, hdown]; exact h.live_iff k
  · intro k hk
    rw [hups, hdown, hview, k2]
    by_cases hst : st = inSync
    · by_cases hkn : ∃ n, s.buf.notSeen = some n ∧ k ∈ n
      · obtain ⟨n, hn, hkn'⟩ := hkn
        have := (h.ns n hn k hkn').2.2
        simp only [hst, and_true]
        rw [if_pos ⟨n, hn, hkn'⟩, this]
      · simp only [hkn, false_and, if_false]
        exact h.eff k (fun n hn hk' => hkn ⟨n, hn, hk'⟩)
    · simp only [hst, and_false, if_false]
      apply h.eff k
      intro n hn
      exact hk n (by rw [hns]; simp [hst, hn])
  · intro n hn k hk
    by_cases hst : st = inSync
    · rw [hns] at hn; simp [hst] at hn
    · rw [hns] at hn
      simp only [hst, if_false] at hn
      have hb : b1 = s.buf := by
        have : (st == inSync) = false := by simpa using hst
        simp [b1, this]
      rw [hups, hlive, hview, hb]
      exact h.ns n hn k hk
  · intro hi
    rw [hns]
    by_cases hst : st = inSync
    · simp [hst]
    · simp only [hst, if_false]
      apply h.insync
      simp only [Sys.step, Bool.or_eq_true, beq_iff_eq] at hi
      rcases hi with hi | hi
      · exact hi
      · exact absurd hi hst
  · rw [hups]; exact k3
  · intro x hx hv
    rw [hups] at hx
    rw [hlive]
    rcases k4 x hx with h1 | ⟨n, _, k, _, e⟩
    · exact h.typed x h1 hv
    · subst e; simp [synthDel] at hv
  · intro hw x hx hv
    rw [hups] at hx
    rw [hlive]
    rcases k4 x hx with h1 | ⟨n, hn, k, hk, e⟩
    · exact h.dels hw x h1 hv
    · subst e
      exact (h.ns n hn k hk).2.1

/-! ### pull -/

theorem deliver_down (down : View) (log : List (Upd × Bool)) (batch : List Item) (k : Key) :
    (deliver down log batch).1 k = effU k (down k) (ups batch) := by
  induction batch generalizing down log with
  | nil => rfl
  | cons i r ih =>
    cases i with
    | st s => simpa [deliver, ups] using ih down log
    | up u =>
      simp only [deliver, ups, List.filterMap_cons, effU, List.foldl_cons]
      rw [ih]
      simp [applyUpd, effU, ups]

theorem pullLive_mem (k : Key) (batch : List Item) (live : List Key) (a : Option V)
    (h : k ∈ live ↔ a.isSome = true) :
    k ∈ batch.foldl pullLive live ↔ (effU k a (ups batch)).isSome = true := by
  induction batch generalizing live a with
  | nil => simpa [ups, effU] using h
  | cons i r ih =>
    cases i with
    | st s => simpa [pullLive, ups] using ih live a h
    | up u =>
      simp only [List.foldl_cons, ups, List.filterMap_cons, effU]
      apply ih
      cases hv : u.val with
      | none =>
        simp only [pullLive, hv, mem_setDiscard, Upd.entry, Option.map_none]
        by_cases e : u.key = k
        · simp [e]
        · have : k ≠ u.key := fun x => e x.symm
          simp [e, this, h]
      | some v =>
        simp only [pullLive, hv, mem_setAdd, Upd.entry, Option.map_some]
        by_cases e : u.key = k
        · simp [e]
        · have : k ≠ u.key := fun x => e x.symm
          simp [e, this, h]

theorem deliver_log (down : View) (log : List (Upd × Bool)) (batch : List Item)
    (hnd : ((ups batch).map (·.key)).Nodup) :
    ∀ e ∈ (deliver down log batch).2, e ∈ log ∨ (e.1 ∈ ups batch ∧ e.2 = (down e.1.key).isSome) := by
  induction batch generalizing down log with
  | nil => intro e he; exact Or.inl he
  | cons i r ih =>
    cases i with
    | st s =>
      intro e he
      simpa [ups] using ih down log (by simpa [ups] using hnd) e he
    | up u =>
      intro e he
      simp only [ups, List.filterMap_cons, List.map_cons, List.nodup_cons] at hnd
      rcases ih (applyUpd down u) (log ++ [(u, (down u.key).isSome)]) hnd.2 e he with h1 | ⟨h1, h2⟩
      · rcases List.mem_append.mp h1 with h1 | h1
        · exact Or.inl h1
        · simp only [List.mem_singleton] at h1
          subst h1
          right; simp [ups]
      · right
        refine ⟨by simp only [ups, List.filterMap_cons, List.mem_cons]; exact Or.inr h1, ?_⟩
        have : u.key ≠ e.1.key := by
          intro c
          exact hnd.1 (List.mem_map.mpr ⟨e.1, h1, c.symm⟩)
        simp [h2, applyUpd, this]

theorem Inv.pull {s : Sys} (h : Inv s) (n : Nat) : Inv (s.step (.pull n)) := by
  have hsplit : ups s.buf.pending = ups (s.buf.pending.take n) ++ ups (s.buf.pending.drop n) :=
    ups_take_drop _ _
  have hnd := h.nodup
  rw [hsplit, List.map_append, List.nodup_append] at hnd
  obtain ⟨ndT, ndD, disj⟩ := hnd
  have hpend : (s.step (.pull n)).buf.pending = s.buf.pending.drop n := rfl
  have hlive : (s.step (.pull n)).buf.live = (s.buf.pending.take n).foldl pullLive s.buf.live := rfl
  have hns : (s.step (.pull n)).buf.notSeen = s.buf.notSeen := rfl
  have hview : (s.step (.pull n)).view = s.view := rfl
  have hdown : ∀ k, (s.step (.pull n)).down k = effU k (s.down k) (ups (s.buf.pending.take n)) :=
    fun k => deliver_down _ _ _ k
  have hlog : (s.step (.pull n)).log = (deliver s.down s.log (s.buf.pending.take n)).2 := rfl
  have hliveiff : ∀ k, k ∈ (s.step (.pull n)).buf.live ↔ ((s.step (.pull n)).down k).isSome = true := by
    intro k; rw [hlive, hdown]; exact pullLive_mem k _ _ _ (h.live_iff k)
  -- a key not in the pulled batch keeps its downstream entry and its liveness
  have hother : ∀ k, (∀ x ∈ ups (s.buf.pending.take n), x.key ≠ k) →
      (k ∈ (s.step (.pull n)).buf.live ↔ k ∈ s.buf.live) := by
    intro k hk
    rw [hliveiff, hdown, effU_not_mem _ _ _ hk]
    exact (h.live_iff k).symm
  have hdropkey : ∀ x ∈ ups (s.buf.pending.drop n), ∀ y ∈ ups (s.buf.pending.take n), y.key ≠ x.key := by
    intro x hx y hy e
    exact disj y.key (List.mem_map.mpr ⟨y, hy, rfl⟩) x.key (List.mem_map.mpr ⟨x, hx, rfl⟩) e
  have hmemD : ∀ x ∈ ups (s.buf.pending.drop n), x ∈ ups s.buf.pending := by
    intro x hx; rw [hsplit]; exact List.mem_append.mpr (Or.inr hx)
  have hmemT : ∀ x ∈ ups (s.buf.pending.take n), x ∈ ups s.buf.pending := by
    intro x hx; rw [hsplit]; exact List.mem_append.mpr (Or.inl hx)
  refine ⟨hliveiff, ?_, ?_, ?_, ?_, ?_, ?_, ?_, ?_⟩
  · intro k hk
    rw [hpend, hdown, hview, ← effU_append, ← hsplit]
    exact h.eff k hk
  · intro m hm k hk
    obtain ⟨h1, h2, h3⟩ := h.ns m hm k hk
    refine ⟨fun x hx => h1 x (hmemD x (by rw [← hpend]; exact hx)), ?_, h3⟩
    exact (hother k (fun x hx => h1 x (hmemT x hx))).mpr h2
  · exact h.insync
  · rw [hpend]; exact ndD
  · intro x hx hv
    rw [hpend] at hx
    have := h.typed x (hmemD x hx) hv
    rw [this]
    have hiff := hother x.key (hdropkey x hx)
    by_cases hl : x.key ∈ s.buf.live
    · simp [hl, hiff.mpr hl]
    · have : x.key ∉ (s.step (.pull n)).buf.live := fun c => hl (hiff.mp c)
      simp [hl, this]
  · intro hw x hx hv
    rw [hpend] at hx
    exact (hother x.key (hdropkey x hx)).mpr (h.dels hw x (hmemD x hx) hv)
  · intro e he hv
    rw [hlog] at he
    rcases deliver_log _ _ _ ndT e he with h1 | ⟨h1, h2⟩
    · exact h.logT e h1 hv
    · rw [h.typed e.1 (hmemT _ h1) hv, h2]
      by_cases hl : e.1.key ∈ s.buf.live
      · simp [hl, (h.live_iff _).mp hl]
      · have : ¬ (s.down e.1.key).isSome = true := fun c => hl ((h.live_iff _).mpr c)
        simp [hl, this]
  · intro hw e he hv
    rw [hlog] at he
    rcases deliver_log _ _ _ ndT e he with h1 | ⟨h1, h2⟩
    · exact h.logD hw e h1 hv
    · rw [h2]
      exact (h.live_iff _).mp (h.dels hw e.1 (hmemT _ h1) hv)

/-! ### every reachable state satisfies the invariant -/

theorem Inv.step {s : Sys} (h : Inv s) (op : Op) : Inv (s.step op) := by
  cases op with
  | upd us => exact h.upds us
  | status st order => exact h.status st order
  | restart => exact h.restart
  | pull n => exact h.pull n

theorem Inv.run {s : Sys} (h : Inv s) (ops : List Op) : Inv (s.run ops) := by
  induction ops generalizing s with
  | nil => exact h
  | cons op ops ih => exact ih (h.step op)

end CalicoVerif.C25
