import CalicoVerif.Model.C01
/-! C01 helper: the generic composition lemma for delta-emitting nodes. -/
namespace CalicoVerif.C01

/-- A calc-graph node: it consumes one input at a time and emits a list of outputs (deltas). -/
structure Node (σ ι ο : Type) where
  init : σ
  step : σ → ι → σ × List ο

variable {σ σ₁ σ₂ ι μ ο α β γ : Type}

/-- Run a node on a list of inputs, collecting all outputs in order. -/
def Node.runFrom (n : Node σ ι ο) : σ → List ι → σ × List ο
  | s, [] => (s, [])
  | s, i :: is =>
    let (s1, o1) := n.step s i
    let (s2, o2) := n.runFrom s1 is
    (s2, o1 ++ o2)

def Node.run (n : Node σ ι ο) (is : List ι) : σ × List ο := n.runFrom n.init is

/-- `n` refines the spec `F`: after ANY input history, accumulating (`accO` from `o0`) everything
the node has emitted gives `F` of the accumulated (`accI` from `i0`) inputs — the node's output
"depends only on the current state of its inputs". -/
def Refines (n : Node σ ι ο) (accI : β → ι → β) (i0 : β) (accO : α → ο → α) (o0 : α) (F : β → α) : Prop :=
  ∀ is : List ι, (n.run is).2.foldl accO o0 = F (is.foldl accI i0)

/-- Feed every output of `n₁` into `n₂`. -/
def Node.comp (n₁ : Node σ₁ ι μ) (n₂ : Node σ₂ μ ο) : Node (σ₁ × σ₂) ι ο where
  init := (n₁.init, n₂.init)
  step := fun s i =>
    let (s1, ms) := n₁.step s.1 i
    let (s2, os) := n₂.runFrom s.2 ms
    ((s1, s2), os)

theorem Node.runFrom_append (n : Node σ ι ο) (s : σ) (a b : List ι) :
    n.runFrom s (a ++ b) = ((n.runFrom (n.runFrom s a).1 b).1, (n.runFrom s a).2 ++ (n.runFrom (n.runFrom s a).1 b).2) := by
  induction a generalizing s with
  | nil => simp [Node.runFrom]
  | cons i is ih =>
    simp only [List.cons_append, Node.runFrom]
    rw [ih]
    simp [List.append_assoc]

theorem Node.comp_runFrom (n₁ : Node σ₁ ι μ) (n₂ : Node σ₂ μ ο) (s1 : σ₁) (s2 : σ₂) (is : List ι) :
    ((n₁.comp n₂).runFrom (s1, s2) is).2 = (n₂.runFrom s2 (n₁.runFrom s1 is).2).2 ∧
    ((n₁.comp n₂).runFrom (s1, s2) is).1 = ((n₁.runFrom s1 is).1, (n₂.runFrom s2 (n₁.runFrom s1 is).2).1) := by
  induction is generalizing s1 s2 with
  | nil => simp [Node.runFrom]
  | cons i is ih =>
    simp only [Node.runFrom, Node.comp]
    have := ih (n₁.step s1 i).1 (n₂.runFrom s2 (n₁.step s1 i).2).1
    simp only [Node.comp] at this
    rw [this.1, this.2, Node.runFrom_append]
    simp

end CalicoVerif.C01
