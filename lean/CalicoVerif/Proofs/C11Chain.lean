import CalicoVerif.Proofs.C11Long
/-!
C11 — programs split into a CHAIN (`maybeSplitProgram`), generic part.

* `lrun_append_nofault`: events after a terminated run do not matter.
* `chainK`: label-level semantics of "the rest of the chain" (policy-jump tail calls continue in a
  later block with fresh registers and stack).
* `cont`: the builder's split fold, continued from a state `s` over the remaining builder events,
  as (remaining events of the current block, later blocks); `expand_cont` ties it to `expand` when no
  block reaches the trampoline stride.
-/
namespace CalicoVerif.C11

/-! ### A run that ended does not look at what follows -/

theorem seek_append_some {l : Label} {a r : List Ev} (b : List Ev) (h : seek l a = some r) :
    seek l (a ++ b) = some (r ++ b) := by
  induction a with
  | nil => simp [seek] at h
  | cons e es ih =>
    cases e with
    | label l' =>
      simp only [seek] at h
      simp only [List.cons_append, seek]
      split at h
      · rename_i hl; cases h; simp [hl]
      · rename_i hl; simp only [hl, if_false]; exact ih h
    | ins i => simp only [seek] at h; simp only [List.cons_append, seek]; exact ih h
    | jmp i l' => simp only [seek] at h; simp only [List.cons_append, seek]; exact ih h

theorem step_none_irrel (env : Env) (i : Insn) (m : Mach) (nxt : Option Insn)
    (h : step env i none m ≠ .fault) : step env i nxt m = step env i none m := by
  by_cases hop : i.op = opLoadImm64
  · exfalso; apply h; unfold step; simp [hop]
  · unfold step; simp only [if_neg hop]

theorem lrun_append_nofault (env : Env) (tl : List Ev) :
    ∀ (n : Nat) (a : List Ev) (m : Mach), a.length ≤ n → (lrun env a m).isFault = false →
      lrun env (a ++ tl) m = lrun env a m := by
  intro n
  induction n using Nat.strongRecOn with
  | _ n ih =>
    intro a m hn hnf
    cases a with
    | nil => simp [lrun, Outcome.isFault] at hnf
    | cons e r =>
      have hr : r.length < n := by simp only [List.length_cons] at hn; omega
      cases e with
      | label l =>
        rw [List.cons_append, lrun_label, lrun_label]
        rw [lrun_label] at hnf
        exact ih r.length hr r m (Nat.le_refl _) hnf
      | ins i =>
        rw [List.cons_append, lrun_ins_eq, lrun_ins_eq]
        rw [lrun_ins_eq] at hnf
        cases r with
        | nil =>
          -- last instruction of `a`: it must end the run
          have hnx : nextIns ([] : List Ev) = none := rfl
          rw [hnx] at hnf ⊢
          cases hs : step env i none m with
          | next m' => rw [hs] at hnf; simp [lrun, Outcome.isFault] at hnf
          | next2 m' => obtain ⟨_, j, hj, _⟩ := step_next2 hs; cases hj
          | taken _ => rw [hs] at hnf; simp [Outcome.isFault] at hnf
          | «exit» r0 m' =>
            have : step env i (nextIns ([] ++ tl)) m = .exit r0 m' := by
              rw [step_none_irrel env i m _ (by rw [hs]; simp), hs]
            rw [this]
          | tail fd idx m' =>
            have : step env i (nextIns ([] ++ tl)) m = .tail fd idx m' := by
              rw [step_none_irrel env i m _ (by rw [hs]; simp), hs]
            rw [this]
          | fault => rw [hs] at hnf; simp [Outcome.isFault] at hnf
        | cons e2 r2 =>
          have hnx : nextIns ((e2 :: r2) ++ tl) = nextIns (e2 :: r2) := by cases e2 <;> rfl
          rw [hnx]
          cases hs : step env i (nextIns (e2 :: r2)) m with
          | next m' =>
            rw [hs] at hnf
            exact ih _ hr (e2 :: r2) m' (Nat.le_refl _) hnf
          | next2 m' =>
            rw [hs] at hnf
            simp only [List.drop_one, List.tail_cons, List.cons_append] at hnf ⊢
            have hr2 : r2.length < n := by simp only [List.length_cons] at hr; omega
            exact ih _ hr2 r2 m' (Nat.le_refl _) hnf
          | taken _ => rfl
          | «exit» _ _ => rfl
          | tail _ _ _ => rfl
          | fault => rfl
      | jmp i l =>
        rw [List.cons_append, lrun_jmp_eq, lrun_jmp_eq]
        rw [lrun_jmp_eq] at hnf
        split
        · rfl
        · rename_i hj
          simp only [hj, if_false] at hnf
          cases hs : step env i none m with
          | next m' => rw [hs] at hnf; exact ih _ hr r m' (Nat.le_refl _) hnf
          | taken m' =>
            rw [hs] at hnf
            simp only [goto] at hnf ⊢
            cases hk : seek l r with
            | none => rw [hk] at hnf; simp [Outcome.isFault] at hnf
            | some r' =>
              rw [hk] at hnf
              rw [seek_append_some tl hk]
              have hr' : r'.length < n := by have := seek_length hk; omega
              exact ih _ hr' r' m' (Nat.le_refl _) hnf
          | next2 _ => rfl
          | «exit» _ _ => rfl
          | tail _ _ _ => rfl
          | fault => rfl

theorem goto_append_nofault (env : Env) (l : Label) (a tl : List Ev) (m : Mach)
    (hnf : (goto env l a m).isFault = false) : goto env l (a ++ tl) m = goto env l a m := by
  unfold goto at hnf ⊢
  cases hk : seek l a with
  | none => rw [hk] at hnf; simp [Outcome.isFault] at hnf
  | some r =>
    rw [hk] at hnf
    rw [seek_append_some tl hk]
    exact lrun_append_nofault env tl r.length r m (Nat.le_refl _) hnf


/-! ### The split fold without trampolines -/

def rawAll (b : BlockSt) (es : List Ev) : BlockSt := es.foldl BlockSt.raw b

theorem rawAll_append (b : BlockSt) (a c : List Ev) : rawAll b (a ++ c) = rawAll (rawAll b a) c := by
  simp [rawAll, List.foldl_append]

theorem rawAll_out (b : BlockSt) (es : List Ev) : (rawAll b es).out = es.reverse ++ b.out := foldl_raw_out es b

theorem raw_trampEnabled (b : BlockSt) (e : Ev) : (b.raw e).trampEnabled = b.trampEnabled := by
  cases e <;> simp only [BlockSt.raw] <;> (try split) <;> rfl

theorem raw_len_out (b : BlockSt) (e : Ev) (h : b.len ≤ b.out.length) : (b.raw e).len ≤ (b.raw e).out.length := by
  have h1 := raw_len b e
  rw [raw_out]; simp only [List.length_cons]; omega

theorem add_disabled (stride : Nat) (b : BlockSt) (e : Ev) (h : b.trampEnabled = false) : b.add stride e = b.raw e := by
  unfold BlockSt.add
  cases evOp e with
  | none => rfl
  | some op => simp [h]

theorem addAll_disabled (stride : Nat) : ∀ (es : List Ev) (b : BlockSt), b.trampEnabled = false →
    es.foldl (BlockSt.add stride) b = rawAll b es := by
  intro es
  induction es with
  | nil => intro b _; rfl
  | cons e es ih =>
    intro b h
    rw [List.foldl_cons, add_disabled stride b e h, ih _ (by rw [raw_trampEnabled]; exact h)]
    rfl

theorem addAll_short (stride : Nat) : ∀ (es : List Ev) (b : BlockSt), b.lastTrampAddr = 0 → b.len ≤ b.out.length →
    b.out.length + es.length ≤ stride → es.foldl (BlockSt.add stride) b = rawAll b es := by
  intro es
  induction es with
  | nil => intro b _ _ _; rfl
  | cons e es ih =>
    intro b h0 hl hs
    simp only [List.length_cons] at hs
    rw [List.foldl_cons, add_eq_raw stride b e (by omega)]
    exact ih _ (by rw [raw_lastTramp]; exact h0) (raw_len_out b e hl) (by rw [raw_out]; simp only [List.length_cons]; omega)

theorem rawAll_trampEnabled (b : BlockSt) (es : List Ev) : (rawAll b es).trampEnabled = b.trampEnabled := by
  induction es generalizing b with
  | nil => rfl
  | cons e es ih => simp only [rawAll, List.foldl_cons] at ih ⊢; rw [ih, raw_trampEnabled]

theorem rawAll_lastTramp (b : BlockSt) (es : List Ev) : (rawAll b es).lastTrampAddr = b.lastTrampAddr := by
  induction es generalizing b with
  | nil => rfl
  | cons e es ih => simp only [rawAll, List.foldl_cons] at ih ⊢; rw [ih, raw_lastTramp]

theorem rawAll_len_out (b : BlockSt) (es : List Ev) (h : b.len ≤ b.out.length) :
    (rawAll b es).len ≤ (rawAll b es).out.length := by
  induction es generalizing b with
  | nil => exact h
  | cons e es ih => simp only [rawAll, List.foldl_cons] at ih ⊢; exact ih _ (raw_len_out b e h)

/-- `mov r0, 0; goto next-program` and the copy of the footer that ends a split-off program. -/
def glueHead (c : Cfg) (xdp : Bool) : List Ev := [movImm64 R0 0, jump .nextProgram] ++ footerEvs c xdp

/-- The unresolved jump targets at a split (sorted), for which landing pads are written. -/
def splitTargets (c : Cfg) (xdp : Bool) (s : SplitSt) : List Label :=
  (sortLabels (rawAll { s.cur with trampEnabled := false } (glueHead c xdp)).fix).filter (· != .nextProgram)

def splitIdx (c : Cfg) (s : SplitSt) : Int := c.policyMapIndex + ((s.done.length + 1 : Nat) : Int) * c.policyMapStride

/-- The `next-program` block: stash R0 in `pol_rc`, tail-call the next program. -/
def npBlock (c : Cfg) (xdp : Bool) (idx : Int) : List Ev :=
  [.label .nextProgram, store32 R9 R0 stateOffPolResult, mov64 R1 R6] ++ loadMapFD R2 c.policyJumpMapFD ++
    [movImm64 R3 idx, call helperTailCall] ++ exitTargetEvs xdp

def glueTail (c : Cfg) (xdp : Bool) (s : SplitSt) : List Ev :=
  landingPads (splitTargets c xdp s) 0 ++ npBlock c xdp (splitIdx c s)

def glueEvs (c : Cfg) (xdp : Bool) (s : SplitSt) : List Ev := glueHead c xdp ++ glueTail c xdp s

/-- What a split-off continuation program starts with. -/
def preEvs (c : Cfg) (T : List Label) (R : List Ev) : List Ev :=
  headerEvs c ++ [load32 R0 R9 stateOffPolResult, movImm32 R1 0, store32 R9 R1 stateOffPolResult] ++
    trampolineJumps T 0 ++ R

/-- The state after a split (trampolines ignored). -/
def splitState (c : Cfg) (xdp : Bool) (s : SplitSt) (R : List Ev) : SplitSt :=
  { done := (rawAll { s.cur with trampEnabled := false } (glueEvs c xdp s)).out.reverse :: s.done,
    cur := rawAll {} (preEvs c (splitTargets c xdp s) R) }

def willSplit (c : Cfg) (s : SplitSt) : Bool := !(decide (s.cur.numJumps < c.maxJumps)) && !(c.policyMapStride == 0)

/-- The split fold continued from `s`: (remaining events of the current block, later blocks). -/
def cont (c : Cfg) (xdp : Bool) : List BEv → SplitSt → List Ev × List (List Ev)
  | [], _ => ([], [])
  | .ev e :: S, s => (e :: (cont c xdp S { s with cur := s.cur.raw e }).1, (cont c xdp S { s with cur := s.cur.raw e }).2)
  | .maybeSplit R :: S, s =>
    if willSplit c s then
      (glueEvs c xdp s,
        (preEvs c (splitTargets c xdp s) R ++ (cont c xdp S (splitState c xdp s R)).1) ::
          (cont c xdp S (splitState c xdp s R)).2)
    else cont c xdp S s

theorem maybeSplit_eq (c : Cfg) (xdp : Bool) (s : SplitSt) (R : List Ev)
    (hpre : (preEvs c (splitTargets c xdp s) R).length ≤ c.trampolineStride) :
    s.maybeSplit c xdp R = if willSplit c s then splitState c xdp s R else s := by
  unfold SplitSt.maybeSplit willSplit
  by_cases h1 : s.cur.numJumps < c.maxJumps
  · simp [h1]
  · by_cases h2 : c.policyMapStride = 0
    · simp [h1, h2]
    · simp only [h1, h2, if_false, beq_iff_eq, decide_false, Bool.not_false, Bool.and_self, if_true]
      simp only [SplitSt.addAll]
      have h1 : List.foldl (BlockSt.add c.trampolineStride) ({ s.cur with trampEnabled := false } : BlockSt)
          ([movImm64 R0 0, jump Label.nextProgram] ++ footerEvs c xdp) =
          rawAll { s.cur with trampEnabled := false } ([movImm64 R0 0, jump Label.nextProgram] ++ footerEvs c xdp) :=
        addAll_disabled _ _ _ rfl
      simp only [h1]
      rw [addAll_disabled _ _ _ (by rw [rawAll_trampEnabled])]
      rw [addAll_short c.trampolineStride _ ({} : BlockSt) rfl (Nat.le_refl _) (by simpa [preEvs, splitTargets, glueHead] using hpre)]
      have hb : (c.policyMapStride == 0) = false := by simpa using h2
      simp only [hb, Bool.not_false, Bool.and_self, if_true, splitState, glueEvs, glueHead, glueTail, splitTargets, splitIdx, npBlock, preEvs, rawAll_append,
        List.append_assoc]


/-- No block of the split build exceeds the trampoline stride (so no trampoline is written). -/
def ShortBlocks (c : Cfg) (xdp : Bool) (S : List BEv) (s : SplitSt) : Prop :=
  s.cur.out.length + (cont c xdp S s).1.length ≤ c.trampolineStride ∧
  ∀ b ∈ (cont c xdp S s).2, b.length ≤ c.trampolineStride

theorem foldl_cont (c : Cfg) (xdp : Bool) :
    ∀ (S : List BEv) (s : SplitSt), s.cur.lastTrampAddr = 0 → s.cur.len ≤ s.cur.out.length → ShortBlocks c xdp S s →
      ((S.foldl (SplitSt.step c xdp) s).cur.out.reverse :: (S.foldl (SplitSt.step c xdp) s).done).reverse =
        s.done.reverse ++ ((s.cur.out.reverse ++ (cont c xdp S s).1) :: (cont c xdp S s).2) := by
  intro S
  induction S with
  | nil => intro s _ _ _; simp [cont]
  | cons b S ih =>
    intro s h0 hl hs
    cases b with
    | ev e =>
      obtain ⟨hs1, hs2⟩ := hs
      simp only [cont, List.length_cons] at hs1 hs2
      simp only [List.foldl_cons, SplitSt.step]
      rw [add_eq_raw c.trampolineStride s.cur e (by omega)]
      have := ih { s with cur := s.cur.raw e } (by simpa [raw_lastTramp] using h0) (raw_len_out s.cur e hl)
        ⟨by simp only [raw_out, List.length_cons]; omega, hs2⟩
      rw [this]
      simp [cont, raw_out]
    | maybeSplit R =>
      simp only [List.foldl_cons, SplitSt.step]
      by_cases hw : willSplit c s = true
      · obtain ⟨hs1, hs2⟩ := hs
        simp only [cont, hw, if_true] at hs1 hs2
        have hb := hs2 _ List.mem_cons_self
        simp only [List.length_append] at hb
        rw [maybeSplit_eq c xdp s R (by omega), if_pos hw]
        have := ih (splitState c xdp s R) (by simp [splitState, rawAll_lastTramp])
          (by simp only [splitState]; exact rawAll_len_out _ _ (Nat.le_refl _))
          ⟨by have e : (splitState c xdp s R).cur.out.length = (preEvs c (splitTargets c xdp s) R).length := by
                simp [splitState, rawAll_out]
              rw [e]; exact hb,
           fun b hb' => hs2 b (List.mem_cons_of_mem _ hb')⟩
        rw [this]
        simp [cont, hw, splitState, rawAll_out]
      · have hw' : willSplit c s = false := by simpa using hw
        obtain ⟨hs1, hs2⟩ := hs
        simp only [cont, hw', Bool.false_eq_true, if_false] at hs1 hs2
        have hno : s.maybeSplit c xdp R = s := by
          unfold SplitSt.maybeSplit
          unfold willSplit at hw'
          by_cases h1 : s.cur.numJumps < c.maxJumps
          · simp [h1]
          · by_cases h2 : c.policyMapStride = 0
            · simp [h1, h2]
            · simp [h1, h2] at hw'
        rw [hno]
        have := ih s h0 hl ⟨hs1, hs2⟩
        rw [this]
        simp [cont, hw']

/-- **The blocks `expand` produces**, when no block reaches the trampoline stride. -/
theorem expand_cont (c : Cfg) (xdp : Bool) (bevs : List BEv) (hs : ShortBlocks c xdp bevs {}) :
    expand c xdp bevs = (cont c xdp bevs {}).1 :: (cont c xdp bevs {}).2 := by
  unfold expand
  have := foldl_cont c xdp bevs {} rfl (Nat.le_refl _) hs
  simpa using this


/-! ### Bookkeeping facts: reachability flag, in-use targets, unresolved targets -/

def BlockSt.reach (b : BlockSt) : Bool := reachable b.last b.pend b.use

def Ev.uncond : Ev → Bool
  | .ins i => i.op == opJumpA || i.op == opExit
  | .jmp i _ => i.op == opJumpA || i.op == opExit
  | .label _ => false

def Ev.isLabel : Ev → Bool
  | .label _ => true
  | _ => false

/-- Label-free, and no `JumpA`/`Exit` except possibly as the very last event: fed to a block whose next
instruction is reachable, every event is emitted. -/
def Live : List Ev → Bool
  | [] => true
  | [e] => !e.isLabel
  | e :: r => !e.isLabel && !e.uncond && Live r

/-- Control may fall out of the end (the last event is not `JumpA`/`Exit`). -/
def MayFall (B : List Ev) : Bool :=
  match B.getLast? with
  | none => true
  | some e => !e.uncond

theorem raw_reach (b : BlockSt) (e : Ev) (hr : b.reach = true) (hl : e.isLabel = false) (hu : e.uncond = false) :
    (b.raw e).reach = true := by
  unfold BlockSt.reach at hr ⊢
  cases e with
  | label l => simp [Ev.isLabel] at hl
  | ins i =>
    simp only [BlockSt.raw]
    rw [if_pos hr]
    simp only [Ev.uncond] at hu
    simp [reachable, stops, hu]
  | jmp i l =>
    simp only [BlockSt.raw]
    rw [if_pos hr]
    simp only [Ev.uncond] at hu
    simp [reachable, stops, hu]

theorem raw_use_mono (b : BlockSt) (e : Ev) (l : Label) (h : l ∈ b.use) : l ∈ (b.raw e).use := by
  cases e with
  | label l' => exact h
  | ins i => simp only [BlockSt.raw]; split <;> exact h
  | jmp i l' => simp only [BlockSt.raw]; split; exact List.mem_cons_of_mem _ h; exact h

theorem raw_fix_mono (b : BlockSt) (e : Ev) (l : Label) (he : e ≠ .label l) (h : l ∈ b.fix) : l ∈ (b.raw e).fix := by
  cases e with
  | label l' =>
    simp only [BlockSt.raw, List.mem_filter, bne_iff_ne, ne_eq]
    exact ⟨h, fun e' => he (by rw [e'])⟩
  | ins i => simp only [BlockSt.raw]; split <;> exact h
  | jmp i l' =>
    simp only [BlockSt.raw]
    split
    · simp only
      split
      · exact h
      · exact List.mem_cons_of_mem _ h
    · exact h

theorem raw_jmp_fix (b : BlockSt) (i : Insn) (l : Label) (hr : b.reach = true) :
    l ∈ (b.raw (.jmp i l)).fix ∧ l ∈ (b.raw (.jmp i l)).use := by
  unfold BlockSt.reach at hr
  simp only [BlockSt.raw]
  rw [if_pos hr]
  refine ⟨?_, List.mem_cons_self⟩
  by_cases hc : b.fix.contains l = true
  · simp only [hc, if_true]; exact List.contains_iff_mem.1 hc
  · simp only [hc]; exact List.mem_cons_self

theorem rawAll_use_mono (B : List Ev) : ∀ (b : BlockSt) (l : Label), l ∈ b.use → l ∈ (rawAll b B).use := by
  induction B with
  | nil => intro b l h; exact h
  | cons e r ih => intro b l h; exact ih _ l (raw_use_mono b e l h)

theorem rawAll_fix_mono (B : List Ev) (l : Label) (hB : l ∉ labelsOf B) :
    ∀ b : BlockSt, l ∈ b.fix → l ∈ (rawAll b B).fix := by
  induction B with
  | nil => intro b h; exact h
  | cons e r ih =>
    intro b h
    have he : e ≠ .label l := by intro e'; subst e'; simp [labelsOf] at hB
    have hr : l ∉ labelsOf r := by
      intro hm; apply hB; cases e <;> simp [labelsOf, hm]
    exact ih hr _ (raw_fix_mono b e l he h)

theorem labelsOf_of_live : ∀ B : List Ev, Live B = true → labelsOf B = [] := by
  intro B
  induction B with
  | nil => intro _; rfl
  | cons e r ih =>
    intro h
    cases r with
    | nil => cases e <;> simp_all [Live, Ev.isLabel, labelsOf]
    | cons e2 r2 =>
      simp only [Live, Bool.and_eq_true, Bool.not_eq_true'] at h
      have := ih h.2
      cases e <;> simp_all [Ev.isLabel, labelsOf]

/-- Feeding a live fragment to a block whose next instruction is reachable. -/
theorem rawAll_live : ∀ (B : List Ev) (b : BlockSt), b.reach = true → Live B = true →
    (MayFall B = true → (rawAll b B).reach = true) ∧
    (∀ i l, Ev.jmp i l ∈ B → l ∈ (rawAll b B).fix ∧ l ∈ (rawAll b B).use) := by
  intro B
  induction B with
  | nil => intro b hr _; exact ⟨fun _ => hr, by intro i l h; cases h⟩
  | cons e r ih =>
    intro b hr hl
    cases r with
    | nil =>
      simp only [Live, Bool.not_eq_true'] at hl
      refine ⟨?_, ?_⟩
      · intro hm
        simp only [MayFall, List.getLast?_singleton, Bool.not_eq_true'] at hm
        exact raw_reach b e hr hl hm
      · intro i l hm
        simp only [List.mem_singleton] at hm
        subst hm
        exact raw_jmp_fix b i l hr
    | cons e2 r2 =>
      simp only [Live, Bool.and_eq_true, Bool.not_eq_true'] at hl
      obtain ⟨⟨hl1, hl2⟩, hl3⟩ := hl
      have hr' := raw_reach b e hr hl1 hl2
      obtain ⟨h1, h2⟩ := ih (b.raw e) hr' hl3
      refine ⟨?_, ?_⟩
      · intro hm
        apply h1
        simpa [MayFall] using hm
      · intro i l hm
        rcases List.mem_cons.1 hm with rfl | hm
        · obtain ⟨a, c⟩ := raw_jmp_fix b i l hr
          have hlab : l ∉ labelsOf (e2 :: r2) := by rw [labelsOf_of_live _ hl3]; simp
          exact ⟨rawAll_fix_mono (e2 :: r2) l hlab (b.raw (.jmp i l)) a, rawAll_use_mono (e2 :: r2) (b.raw (.jmp i l)) l c⟩
        · exact h2 i l hm


/-! ### Chain semantics and the simulation statement -/

/-- The rest of the chain: a policy-jump tail call to slot `base + j` continues in the `j`-th later
block with fresh registers and stack (and the same state); every other outcome is final. -/
def chainK (env : Env) : List (List Ev) → Nat → Outcome → Outcome
  | [], _, o =>
    match o with
    | .tail fd idx m =>
      if fd = env.c.policyJumpMapFD ∧ fd ≠ env.c.staticJumpMapFD then .fault else .tail fd idx m
    | o => o
  | b :: bs, base, o =>
    match o with
    | .tail fd idx m =>
      if fd = env.c.policyJumpMapFD ∧ fd ≠ env.c.staticJumpMapFD then
        match slotToProg env.c idx with
        | some k' =>
          if k' = base then chainK env bs (base + 1) (lrun env b (Mach.init m.st))
          else if base < k' then chainK env bs (base + 1) (.tail fd idx m)
          else .fault
        | none => .fault
      else .tail fd idx m
    | o => o

/-- A final outcome: an exit, or a tail call through the static jump map. -/
def Outcome.final (env : Env) : Outcome → Prop
  | .exit _ _ => True
  | .tail fd _ _ => fd = env.c.staticJumpMapFD
  | .fault => False

theorem chainK_final (env : Env) (bs : List (List Ev)) (base : Nat) (o : Outcome) (h : o.final env) :
    chainK env bs base o = o := by
  cases bs <;> cases o <;> simp_all [chainK, Outcome.final]

theorem final_nofault {env : Env} {o : Outcome} (h : o.final env) : o.isFault = false := by
  cases o <;> simp_all [Outcome.final, Outcome.isFault]

def agreesV (env : Env) (xdp : Bool) (V : Verdict) (o : Outcome) : Prop :=
  ∃ ob, o.obs = some ob ∧ (expectedObs env xdp V).agrees ob = true

/-- The verdict a footer label stands for. -/
def vOf : Label → Option Verdict
  | .allow => some .allow
  | .deny => some .deny
  | .xdpPass => some .xdpPass
  | _ => none

/-- Both runs end as ONE verdict demands (the one the label names, if it is a footer label). -/
def Both (env : Env) (xdp : Bool) (l : Option Label) (oC oF : Outcome) : Prop :=
  ∃ V, (∀ l' V', l = some l' → vOf l' = some V' → V = V') ∧ (V = .xdpPass → xdp = true) ∧
    agreesV env xdp V oC ∧ agreesV env xdp V oF

theorem Both.weaken {env : Env} {xdp : Bool} {l : Option Label} {oC oF : Outcome} (h : Both env xdp l oC oF) :
    Both env xdp none oC oF := by
  obtain ⟨V, _, hx, h2, h3⟩ := h
  exact ⟨V, (by intro l' V' h; cases h), hx, h2, h3⟩

/-- What code after a split point may rely on besides `Inv`: nothing, or R1 = the leg's port. -/
inductive Carry
  | none
  | port (leg : Leg)
deriving DecidableEq

def InvC (st : List Byte) (c : Carry) (m : Mach) : Prop :=
  Inv st m ∧ ∀ leg, c = .port leg → m.reg 1 = some (BitVec.ofNat 64 (fieldN st leg.pto 2))

theorem InvC.inv {st : List Byte} {c : Carry} {m : Mach} (h : InvC st c m) : Inv st m := h.1
theorem InvC.none {st : List Byte} {m : Mach} (h : Inv st m) : InvC st .none m := ⟨h, by intro leg e; cases e⟩
theorem InvC.drop {st : List Byte} {c : Carry} {m : Mach} (h : InvC st c m) : InvC st .none m := InvC.none h.1

/-- `Decides` with a carry: needs `pre`, establishes `post` when control falls through. -/
def DecidesC (env : Env) (st : List Byte) (pre post : Carry) (B : List Ev) (t : Option Label) : Prop :=
  ∀ rest m, InvC st pre m → ∃ m', Inv st m' ∧ (t = none → InvC st post m') ∧
    lrun env (B ++ rest) m = match t with
      | some l => goto env l rest m'
      | none => lrun env rest m'

theorem Decides.toC {env : Env} {st : List Byte} {B : List Ev} {t : Option Label} (h : Decides env st B t) (pre : Carry) :
    DecidesC env st pre .none B t := by
  intro rest m hI
  obtain ⟨m', hI', e⟩ := h rest m hI.1
  exact ⟨m', hI', fun _ => InvC.none hI', e⟩

/-- The simulation statement at a builder position: `S` = the remaining builder events (to the end of the
program), `s` = the split fold's state there. -/
def GoodAt (env : Env) (st : List Byte) (xdp : Bool) (nmax : Nat) (c : Carry) (S : List BEv) (s : SplitSt) : Prop :=
  s.cur.reach = true → s.done.length + (cont env.c xdp S s).2.length ≤ nmax → ShortBlocks env.c xdp S s →
  ∀ mC mF, InvC st c mC → InvC st c mF →
    Both env xdp none
      (chainK env (cont env.c xdp S s).2 (s.done.length + 1) (lrun env (cont env.c xdp S s).1 mC))
      (lrun env (flat S) mF)

/-- ... and for control arriving by a jump to `l` that is still unresolved in the current block. -/
def GoodL (env : Env) (st : List Byte) (xdp : Bool) (nmax : Nat) (S : List BEv) (s : SplitSt) (l : Label) : Prop :=
  l ∈ s.cur.fix → l ∈ s.cur.use → s.done.length + (cont env.c xdp S s).2.length ≤ nmax → ShortBlocks env.c xdp S s →
  ∀ mC mF, Inv st mC → Inv st mF →
    Both env xdp (some l)
      (chainK env (cont env.c xdp S s).2 (s.done.length + 1) (goto env l (cont env.c xdp S s).1 mC))
      (goto env l (flat S) mF)

/-- The backward invariant: good at the start for carry `c`, good at every exposed label, and the
unsplit program reaches the footer verdict an exposed footer label names. -/
structure GA (env : Env) (st : List Byte) (xdp : Bool) (nmax : Nat) (E : List Label) (c : Carry) (S : List BEv) : Prop where
  start : ∀ s : SplitSt, GoodAt env st xdp nmax c S s
  lab : ∀ s : SplitSt, ∀ l ∈ E, GoodL env st xdp nmax S s l
  foot : ∀ l ∈ E, ∀ V, vOf l = some V → ∀ mF, Inv st mF → agreesV env xdp V (goto env l (flat S) mF)

theorem GA.mono {env : Env} {st : List Byte} {xdp : Bool} {nmax : Nat} {E E' : List Label} {c : Carry} {S : List BEv}
    (h : GA env st xdp nmax E c S) (hsub : ∀ l ∈ E', l ∈ E) : GA env st xdp nmax E' c S :=
  ⟨h.start, fun s l hl => h.lab s l (hsub l hl), fun l hl => h.foot l (hsub l hl)⟩

theorem cont_evs (c : Cfg) (xdp : Bool) (S : List BEv) :
    ∀ (B : List Ev) (s : SplitSt),
      cont c xdp (B.map BEv.ev ++ S) s =
        (B ++ (cont c xdp S { s with cur := rawAll s.cur B }).1, (cont c xdp S { s with cur := rawAll s.cur B }).2) := by
  intro B
  induction B with
  | nil => intro s; rfl
  | cons e r ih =>
    intro s
    simp only [List.map_cons, List.cons_append, cont, ih]
    rfl

theorem flat_evs (B : List Ev) (S : List BEv) : flat (B.map BEv.ev ++ S) = B ++ flat S := by
  rw [flat_append, flat_map_ev]


/-! ### Prepending a fragment / a label -/

theorem Both.retag {env : Env} {xdp : Bool} {l : Label} {oC oF : Outcome} (h : Both env xdp none oC oF)
    (hv : vOf l = none) : Both env xdp (some l) oC oF := by
  obtain ⟨V, _, hx, h2, h3⟩ := h
  refine ⟨V, ?_, hx, h2, h3⟩
  intro l' V' e hv'
  cases e
  rw [hv] at hv'; cases hv'

theorem ShortBlocks.evs {c : Cfg} {xdp : Bool} {S : List BEv} {B : List Ev} {s : SplitSt}
    (h : ShortBlocks c xdp (B.map BEv.ev ++ S) s) : ShortBlocks c xdp S { s with cur := rawAll s.cur B } := by
  obtain ⟨h1, h2⟩ := h
  rw [cont_evs] at h1 h2
  refine ⟨?_, h2⟩
  simp only [rawAll_out, List.length_append, List.length_reverse] at h1 ⊢
  omega

/-- Prepend a label-free fragment with a `DecidesC` lemma. -/
theorem GA.piece {env : Env} {st : List Byte} {xdp : Bool} {nmax : Nat} {E : List Label} {pre post : Carry}
    {S : List BEv} (B : List Ev) (t : Option Label)
    (hd : DecidesC env st pre post B t) (hlive : Live B = true) (hfall : t = none → MayFall B = true)
    (htgt : ∀ l, t = some l → (∃ i, Ev.jmp i l ∈ B) ∧ l ∈ E)
    (h : GA env st xdp nmax E post S) : GA env st xdp nmax E pre (B.map BEv.ev ++ S) := by
  have hlab := labelsOf_of_live B hlive
  refine ⟨?_, ?_, ?_⟩
  · intro s hreach hn hsb mC mF hC hF
    have hsb' := hsb.evs
    rw [cont_evs] at hn ⊢
    rw [flat_evs]
    simp only at hn ⊢
    obtain ⟨mC', hIC, hcC, eC⟩ := hd (cont env.c xdp S { s with cur := rawAll s.cur B }).1 mC hC
    obtain ⟨mF', hIF, hcF, eF⟩ := hd (flat S) mF hF
    rw [eC, eF]
    obtain ⟨hl1, hl2⟩ := rawAll_live B s.cur hreach hlive
    cases t with
    | none =>
      exact h.start { s with cur := rawAll s.cur B } (hl1 (hfall rfl)) hn hsb' mC' mF' (hcC rfl) (hcF rfl)
    | some l =>
      obtain ⟨⟨i, hi⟩, hE⟩ := htgt l rfl
      obtain ⟨hf, hu⟩ := hl2 i l hi
      exact (h.lab { s with cur := rawAll s.cur B } l hE hf hu hn hsb' mC' mF' hIC hIF).weaken
  · intro s l hl hfix huse hn hsb mC mF hC hF
    have hsb' := hsb.evs
    rw [cont_evs] at hn ⊢
    rw [flat_evs]
    simp only at hn ⊢
    rw [goto_append _ mC (by rw [hlab]; simp), goto_append _ mF (by rw [hlab]; simp)]
    exact h.lab { s with cur := rawAll s.cur B } l hl
      (rawAll_fix_mono B l (by rw [hlab]; simp) s.cur hfix) (rawAll_use_mono B s.cur l huse) hn hsb' mC mF hC hF
  · intro l hl V hV mF hF
    rw [flat_evs, goto_append _ mF (by rw [hlab]; simp)]
    exact h.foot l hl V hV mF hF

/-- Prepend the definition of a (non-footer) label: it becomes exposed. -/
theorem GA.label {env : Env} {st : List Byte} {xdp : Bool} {nmax : Nat} {E : List Label} {c : Carry}
    {S : List BEv} (l : Label) (hv : vOf l = none)
    (h : GA env st xdp nmax E .none S) : GA env st xdp nmax (l :: E) c (BEv.ev (.label l) :: S) := by
  have hcont : ∀ s, cont env.c xdp (BEv.ev (.label l) :: S) s =
      (Ev.label l :: (cont env.c xdp S { s with cur := s.cur.raw (.label l) }).1,
        (cont env.c xdp S { s with cur := s.cur.raw (.label l) }).2) := fun _ => rfl
  have hsb' : ∀ s, ShortBlocks env.c xdp (BEv.ev (.label l) :: S) s →
      ShortBlocks env.c xdp S { s with cur := s.cur.raw (.label l) } := fun s hsb =>
    ShortBlocks.evs (B := [.label l]) hsb
  refine ⟨?_, ?_, ?_⟩
  · intro s hreach hn hsb mC mF hC hF
    rw [hcont] at hn ⊢
    simp only [flat] at hn ⊢
    rw [lrun_label, lrun_label]
    exact h.start { s with cur := s.cur.raw (.label l) } (reachable_cons l hreach) hn (hsb' s hsb) mC mF hC.drop hF.drop
  · intro s l' hl' hfix huse hn hsb mC mF hC hF
    rw [hcont] at hn ⊢
    simp only [flat] at hn ⊢
    by_cases hll : l = l'
    · subst hll
      rw [goto_label_self, goto_label_self]
      exact (h.start { s with cur := s.cur.raw (.label l) } (reachable_label huse) hn (hsb' s hsb) mC mF (InvC.none hC)
        (InvC.none hF)).retag hv
    · rw [goto_cons_label_ne env _ mC hll, goto_cons_label_ne env _ mF hll]
      have hE : l' ∈ E := by
        rcases List.mem_cons.1 hl' with e | e
        · exact absurd e.symm hll
        · exact e
      exact h.lab { s with cur := s.cur.raw (.label l) } l' hE
        (raw_fix_mono s.cur (.label l) l' (by intro e; cases e; exact hll rfl) hfix)
        (raw_use_mono s.cur (.label l) l' huse) hn (hsb' s hsb) mC mF hC hF
  · intro l' hl' V hV mF hF
    have hll : l ≠ l' := by intro e; subst e; rw [hv] at hV; cases hV
    have hE : l' ∈ E := by
      rcases List.mem_cons.1 hl' with e | e
      · exact absurd e.symm hll
      · exact e
    simp only [flat]
    rw [goto_cons_label_ne env _ mF hll]
    exact h.foot l' hE V hV mF hF

end CalicoVerif.C11
