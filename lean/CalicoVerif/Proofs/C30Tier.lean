import CalicoVerif.Proofs.C30IPPort
/-! Helper lemmas for C30, part 6: rule lists, policy sets, the tier. -/
namespace CalicoVerif.C30

theorem rule_sem (s : IPSets) (hs : s.wf) (hipp : s.ipportOK) (r : Rule) (inbound : Bool)
    (hsup : r.supportedIn inbound) (n : Nat) (hn : 0 < n) (pid : String) (p : Pkt) :
    (∀ h ∈ hr s pid r inbound n, h.action = ruleAction r ∧ h.inbound = inbound) ∧
    (hr s pid r inbound n).any (·.matches p) = r.matches s p := by
  rcases hsup.ipport with h | ⟨hin, ⟨id, hid⟩, h1, h2, h4, h5, h6⟩
  · exact rule_sem_general s hs r inbound hsup.base h n hn pid p
  · subst hin
    exact rule_sem_ipport s hipp r hsup.base id hid h1 h2 h4 h5 h6 n hn pid p

theorem firstAction_hr (s : IPSets) (hs : s.wf) (hipp : s.ipportOK) (r : Rule) (inbound : Bool)
    (hsup : r.supportedIn inbound) (n : Nat) (hn : 0 < n) (pid : String) (p : Pkt) :
    firstAction (hr s pid r inbound n) p = if r.matches s p then some (ruleAction r) else none := by
  obtain ⟨hf, hm⟩ := rule_sem s hs hipp r inbound hsup n hn pid p
  unfold firstAction
  cases hfind : (hr s pid r inbound n).find? (·.matches p) with
  | none =>
    have : (hr s pid r inbound n).any (·.matches p) = false := by
      rw [Bool.eq_false_iff]
      intro hany
      obtain ⟨x, hx, hxm⟩ := List.any_eq_true.1 hany
      have := List.find?_eq_none.1 hfind x hx
      simp [hxm] at this
    rw [← hm, this]; simp
  | some h =>
    have hmem := List.mem_of_find?_eq_some hfind
    have hmat := List.find?_some hfind
    have : (hr s pid r inbound n).any (·.matches p) = true := List.any_eq_true.2 ⟨h, hmem, hmat⟩
    rw [← hm, this]
    simp [(hf h hmem).1]

theorem protoRules_eq (s : IPSets) (pid : String) (rs : List Rule) (inbound : Bool) (n : Nat) :
    protoRulesToHnsRules s pid rs inbound n = rs.flatMap (fun r => hr s pid r inbound n) := rfl

theorem firstAction_rules (s : IPSets) (hs : s.wf) (hipp : s.ipportOK) (inbound : Bool) (n : Nat) (hn : 0 < n)
    (pid : String) (p : Pkt) (rs : List Rule) (hsup : ∀ r ∈ rs, r.supportedIn inbound) :
    firstAction (rs.flatMap (fun r => hr s pid r inbound n)) p = (rs.find? (·.matches s p)).map ruleAction := by
  induction rs with
  | nil => rfl
  | cons r rest ih =>
    rw [List.flatMap_cons, firstAction_append, firstAction_hr s hs hipp r inbound (hsup r (by simp)) n hn pid p,
      ih (fun x hx => hsup x (by simp [hx])), List.find?_cons]
    cases r.matches s p <;> simp

theorem inbound_rules (s : IPSets) (hs : s.wf) (hipp : s.ipportOK) (inbound : Bool) (n : Nat) (hn : 0 < n)
    (pid : String) (rs : List Rule) (hsup : ∀ r ∈ rs, r.supportedIn inbound) :
    ∀ h ∈ rs.flatMap (fun r => hr s pid r inbound n), h.inbound = inbound := by
  intro h hh
  obtain ⟨r, hr', hmem⟩ := List.mem_flatMap.1 hh
  exact ((rule_sem s hs hipp r inbound (hsup r hr') n hn pid ⟨0, 0, 0, 0, 0⟩).1 h hmem).2

def rulesOf (d : Bool) (ps : PolicySet) : List Rule := if d then ps.inRules else ps.outRules

structure PolicySet.supported (ps : PolicySet) : Prop where
  inb : ∀ r ∈ ps.inRules, r.supportedIn true
  outb : ∀ r ∈ ps.outRules, r.supportedIn false

theorem filter_eq_self' {α : Type} (l : List α) (f : α → Bool) (h : ∀ x ∈ l, f x = true) : l.filter f = l :=
  List.filter_eq_self.2 h

theorem filter_eq_nil' {α : Type} (l : List α) (f : α → Bool) (h : ∀ x ∈ l, f x = false) : l.filter f = [] := by
  apply List.filter_eq_nil_iff.2
  intro x hx; simp [h x hx]

theorem members_filter (s : IPSets) (hs : s.wf) (hipp : s.ipportOK) (n : Nat) (hn : 0 < n) (id : String)
    (ps : PolicySet) (hsup : ps.supported) (d : Bool) :
    (ps.members s id n).filter (fun m => m.inbound == d) = (rulesOf d ps).flatMap (fun r => hr s id r d n) := by
  have hI := inbound_rules s hs hipp true n hn id ps.inRules hsup.inb
  have hO := inbound_rules s hs hipp false n hn id ps.outRules hsup.outb
  unfold PolicySet.members
  rw [List.filter_append, protoRules_eq, protoRules_eq]
  cases d
  · rw [filter_eq_nil' _ _ (fun x hx => by simp [hI x hx]), filter_eq_self' _ _ (fun x hx => by simp [hO x hx])]
    simp [rulesOf]
  · rw [filter_eq_self' _ _ (fun x hx => by simp [hI x hx]), filter_eq_nil' _ _ (fun x hx => by simp [hO x hx])]
    simp [rulesOf]

/-- First matching gathered HNS rule = first matching proto rule of the tier. -/
theorem firstAction_gather (s : IPSets) (hs : s.wf) (hipp : s.ipportOK) (n : Nat) (hn : 0 < n) (d : Bool) (p : Pkt)
    (sets : List (String × PolicySet)) (hsup : ∀ x ∈ sets, x.2.supported) :
    firstAction (gatherMembers d (sets.map fun x => some (x.2.members s x.1 n))) p =
      (((sets.map (·.2)).flatMap (rulesOf d)).find? (·.matches s p)).map ruleAction := by
  induction sets with
  | nil => rfl
  | cons x rest ih =>
    have hx := hsup x (by simp)
    simp only [List.map_cons, gatherMembers, List.flatMap_cons]
    rw [firstAction_append, members_filter s hs hipp n hn x.1 x.2 hx d, List.find?_append,
      ih (fun y hy => hsup y (by simp [hy]))]
    have hr' : ∀ r ∈ rulesOf d x.2, r.supportedIn d := by
      intro r hr
      cases d
      · exact hx.outb r (by simpa [rulesOf] using hr)
      · exact hx.inb r (by simpa [rulesOf] using hr)
    rw [firstAction_rules s hs hipp d n hn x.1 p _ hr']
    cases List.find? (fun r => r.matches s p) (rulesOf d x.2) <;> simp

theorem tierVerdict_eq (s : IPSets) (sets : List PolicySet) (d eot : Bool) (p : Pkt) :
    tierVerdict s sets d eot p =
      (((sets.flatMap (rulesOf d)).find? (·.matches s p)).map ruleAction).getD (if eot then .block else .pass) := by
  unfold tierVerdict rulesOf
  dsimp only
  cases List.find? (fun r => r.matches s p) (List.flatMap (fun ps => if d = true then ps.inRules else ps.outRules) sets) <;> rfl


theorem lookup_mem {β : Type} (k : String) (v : β) (l : List (String × β)) (h : List.lookup k l = some v) :
    (k, v) ∈ l := by
  induction l with
  | nil => simp at h
  | cons e rest ih =>
    rcases e with ⟨k', v'⟩
    simp only [List.lookup_cons] at h
    split at h
    · rename_i heq
      simp only [Option.some.injEq] at h
      have : k = k' := by simpa using heq
      subst this; subst h; simp
    · exact List.mem_cons_of_mem _ (ih h)

/-- Checking the IP set cache entry by entry. -/
theorem IPSets.wf_of_entries (s : IPSets) (h : ∀ e ∈ s.addrs, e.2 ≠ [] ∧ ∀ a ∈ e.2, a.v6 = false) : s.wf :=
  ⟨fun id m hg => (h (id, m) (lookup_mem id m _ hg)).1, fun id m hg => (h (id, m) (lookup_mem id m _ hg)).2⟩

theorem IPSets.ipportOK_of_entries (s : IPSets)
    (h : ∀ e ∈ s.ipports, ∀ x ∈ e.2, protocolNameToNumber x.proto ≠ 256) : s.ipportOK :=
  fun id m hg => h (id, m) (lookup_mem id m _ hg)

end CalicoVerif.C30
