import CalicoVerif.Proofs.C11ChainTop
/-!
C11 — `Assemble` succeeds for every program of a SPLIT build.

`Block.Assemble` fails iff a jump target is still unresolved (a key left in `fixUps`) or an offset
exceeds int16.  The bookkeeping `BlockSt.fix` is the set of unresolved targets of the REACHABLE jumps
(unreachable instructions are dropped by the block).  We show: when the builder's event list is
closed (`compile_closed`), every program the split fold produces ends with `fix = []` — at a split
each still unresolved target gets a landing pad, `next-program` is defined by the glue, and the
continuation program's dispatch jumps are resolved later or get landing pads again — and a program
with `fix = []` of at most 32767 events assembles.
-/
namespace CalicoVerif.C11

/-- An unresolved target stays unresolved until it is labelled. -/
theorem fix_persist : ∀ (evs : List Ev) (b : BlockSt) (l : Label), l ∈ b.fix →
    l ∈ labelsOf evs ∨ l ∈ (rawAll b evs).fix := by
  intro evs
  induction evs with
  | nil => intro b l h; exact Or.inr h
  | cons e es ih =>
    intro b l h
    have hstep : rawAll b (e :: es) = rawAll (b.raw e) es := rfl
    rw [hstep]
    cases e with
    | label l' =>
      by_cases hl : l = l'
      · left; simp [labelsOf, hl]
      · have : l ∈ (b.raw (.label l')).fix := by
          simp only [BlockSt.raw, List.mem_filter, bne_iff_ne, ne_eq]; exact ⟨h, hl⟩
        rcases ih _ l this with h' | h'
        · left; simp [labelsOf, h']
        · exact Or.inr h'
    | ins i =>
      have : l ∈ (b.raw (.ins i)).fix := by
        simp only [BlockSt.raw]; split <;> exact h
      rcases ih _ l this with h' | h'
      · left; simpa [labelsOf] using h'
      · exact Or.inr h'
    | jmp i l' =>
      have : l ∈ (b.raw (.jmp i l')).fix := by
        simp only [BlockSt.raw]
        split
        · simp only
          split
          · exact h
          · exact List.mem_cons_of_mem _ h
        · exact h
      rcases ih _ l this with h' | h'
      · left; simpa [labelsOf] using h'
      · exact Or.inr h'

/-- What is unresolved after a CLOSED fragment was unresolved before it and is not labelled in it
(or is one of the labels the context promises: `ext`). -/
theorem fix_closed : ∀ (evs : List Ev) (b : BlockSt) (ext : List Label), closedIn ext evs = true →
    ∀ l ∈ (rawAll b evs).fix, (l ∈ b.fix ∧ l ∉ labelsOf evs) ∨ l ∈ ext := by
  intro evs
  induction evs with
  | nil => intro b ext _ l h; exact Or.inl ⟨h, by simp [labelsOf]⟩
  | cons e es ih =>
    intro b ext hc l h
    have hstep : rawAll b (e :: es) = rawAll (b.raw e) es := rfl
    rw [hstep] at h
    cases e with
    | label l' =>
      simp only [closedIn] at hc
      rcases ih _ ext hc l h with ⟨h1, h2⟩ | h1
      · have := raw_fix_label b l' l h1
        left; exact ⟨this.1, by simp only [labelsOf, List.mem_cons, not_or]; exact ⟨this.2, h2⟩⟩
      · exact Or.inr h1
    | ins i =>
      simp only [closedIn] at hc
      rcases ih _ ext hc l h with ⟨h1, h2⟩ | h1
      · rcases raw_fix b _ l h1 with h3 | ⟨_, h3⟩
        · left; exact ⟨h3, by simpa [labelsOf] using h2⟩
        · cases h3
      · exact Or.inr h1
    | jmp i l' =>
      simp only [closedIn, Bool.and_eq_true, Bool.or_eq_true] at hc
      rcases ih _ ext hc.2 l h with ⟨h1, h2⟩ | h1
      · rcases raw_fix b _ l h1 with h3 | ⟨_, h3⟩
        · left; exact ⟨h3, by simpa [labelsOf] using h2⟩
        · have : l' = l := by injection h3
          subst this
          rcases hc.1 with h4 | h4
          · exact absurd (by simpa using h4) h2
          · right; simpa using h4
      · exact Or.inr h1

/-- **A block whose fix-ups are all resolved assembles** (at most 32767 events). -/
theorem asm_of_fix : ∀ (evs : List Ev) (b : BlockSt), (rawAll b evs).fix = [] → evs.length ≤ 32767 →
    (asmGo evs b.last b.pend b.use).isSome = true := by
  intro evs
  induction evs with
  | nil => intro _ _ _; rfl
  | cons e es ih =>
    intro b hf hlen
    have hstep : rawAll b (e :: es) = rawAll (b.raw e) es := rfl
    rw [hstep] at hf
    have hlen' : es.length ≤ 32767 := by simp only [List.length_cons] at hlen; omega
    cases e with
    | label l =>
      simp only [asmGo]
      exact ih _ hf hlen'
    | ins j =>
      simp only [asmGo]
      have := ih _ hf hlen'
      by_cases hr : reachable b.last b.pend b.use = true
      · simp only [BlockSt.raw, hr, if_true] at this
        simp only [hr, if_true]
        cases h : asmGo es (some j) [] b.use with
        | none => rw [h] at this; cases this
        | some p => rfl
      · simp only [BlockSt.raw, hr, Bool.false_eq_true, if_false] at this
        simp only [hr, Bool.false_eq_true, if_false]
        exact this
    | jmp j l =>
      simp only [asmGo]
      have := ih _ hf hlen'
      by_cases hr : reachable b.last b.pend b.use = true
      · have hl : l ∈ labelsOf es := by
          rcases fix_persist es _ l (raw_jmp_fix b j l hr).1 with h | h
          · exact h
          · rw [hf] at h; cases h
        simp only [BlockSt.raw, hr, if_true] at this
        simp only [hr, if_true]
        obtain ⟨d, hd, hle⟩ := dist_some es (some j) [] (l :: b.use) (by simpa using hl)
        rw [hd]
        have hnb : ¬ d > maxInt16 := by simp only [maxInt16, List.length_cons] at *; omega
        simp only [if_neg hnb]
        cases h : asmGo es (some j) [] (l :: b.use) with
        | none => rw [h] at this; cases this
        | some p => rfl
      · simp only [BlockSt.raw, hr, Bool.false_eq_true, if_false] at this
        simp only [hr, Bool.false_eq_true, if_false]
        exact this

theorem assemble_of_fix (evs : List Ev) (hf : (rawAll {} evs).fix = []) (hlen : evs.length ≤ 32767) :
    ∃ p, assemble evs = some p := by
  have h := asm_of_fix evs {} hf hlen
  unfold assemble
  cases h' : asmGo evs none [] [] with
  | none => rw [h'] at h; cases h
  | some p => exact ⟨p, rfl⟩

/-! ### Closedness of the split glue and of a continuation program's prefix -/

def Ev.notJmp : Ev → Bool
  | .jmp _ _ => false
  | _ => true

/-- Every `maybeSplitProgram` call site's reload sequence is jump-free. -/
def mOK : BEv → Bool
  | .ev _ => true
  | .maybeSplit R => R.all Ev.notJmp

theorem cl_noJmp (ext : List Label) : ∀ R : List Ev, R.all Ev.notJmp = true → CL ext R := by
  intro R
  induction R with
  | nil => intro _; rfl
  | cons e r ih =>
    intro h
    simp only [List.all_cons, Bool.and_eq_true] at h
    cases e with
    | jmp i l => simp [Ev.notJmp] at h
    | ins i => simpa only [CL, closedIn] using ih h.2
    | label l => simpa only [CL, closedIn] using ih h.2

theorem cl_landingPads (ext : List Label) (hnp : Label.nextProgram ∈ ext) :
    ∀ (T : List Label) (j : Nat), CL ext (landingPads T j) := by
  intro T
  induction T with
  | nil => intro j; rfl
  | cons t ts ih =>
    intro j
    cases ts with
    | nil => simp [landingPads, CL, closedIn, movImm64, mk]
    | cons t2 ts2 =>
      have := ih (j + 1)
      simp only [landingPads, CL, List.cons_append, List.nil_append] at this ⊢
      simp only [closedIn, movImm64, mk, jump, mkJ, Bool.and_eq_true, Bool.or_eq_true]
      exact ⟨Or.inr (List.contains_iff_mem.2 hnp), this⟩

theorem cl_trampolineJumps (ext : List Label) :
    ∀ (T : List Label) (j : Nat), (∀ t ∈ T, t ∈ ext) → CL ext (trampolineJumps T j) := by
  intro T
  induction T with
  | nil => intro j _; rfl
  | cons t ts ih =>
    intro j h
    have := ih (j + 1) (fun t' ht' => h t' (List.mem_cons_of_mem _ ht'))
    simp only [trampolineJumps, CL, closedIn, jumpEqImm64, mkJ, Bool.and_eq_true, Bool.or_eq_true]
    exact ⟨Or.inr (List.contains_iff_mem.2 (h t List.mem_cons_self)), this⟩

theorem cl_npBlock (ext : List Label) (c : Cfg) (xdp : Bool) (idx : Int) : CL ext (npBlock c xdp idx) := by
  simp [npBlock, CL, closedIn, loadMapFD, store32, mov64, movImm64, call, exitTargetEvs, exitI, mk]

theorem labelsOf_npBlock (c : Cfg) (xdp : Bool) (idx : Int) : labelsOf (npBlock c xdp idx) = [.nextProgram, .exit] := by
  simp [npBlock, labelsOf, labelsOf_append, loadMapFD, store32, mov64, movImm64, call, exitTargetEvs, exitI, mk]

theorem cl_glueHead (ext : List Label) (c : Cfg) (xdp : Bool) (hnp : Label.nextProgram ∈ ext) : CL ext (glueHead c xdp) := by
  have h1 : CL ext [movImm64 R0 0, jump .nextProgram] := by
    simp only [CL, closedIn, movImm64, mk, jump, mkJ, Bool.and_eq_true, Bool.or_eq_true]
    exact ⟨Or.inr (List.contains_iff_mem.2 hnp), trivial⟩
  exact h1.append ((cl_footer c xdp).mono (fun _ h => by cases h))

theorem cl_glueEvs (c : Cfg) (xdp : Bool) (s : SplitSt) : CL [] (glueEvs c xdp s) := by
  unfold glueEvs glueTail
  refine CL.append' (cl_glueHead _ c xdp ?_) (CL.append' (cl_landingPads _ ?_ _ _) (cl_npBlock _ c xdp _))
  · simp [labelsOf_append, labelsOf_npBlock]
  · simp [labelsOf_npBlock]

theorem cl_preEvs (ext : List Label) (c : Cfg) (T : List Label) (R : List Ev) (hx : Label.exit ∈ ext)
    (hT : ∀ t ∈ T, t ∈ ext) (hR : R.all Ev.notJmp = true) : CL ext (preEvs c T R) := by
  unfold preEvs
  have h1 : CL ext (headerEvs c) := by
    simp [CL, closedIn, labelsOf, headerEvs, loadMapFD, mov64, movImm64, storeStack32, addImm64, call, jumpEqImm64, mk, mkJ]
    exact hx
  have h2 : CL ext [load32 R0 R9 stateOffPolResult, movImm32 R1 0, store32 R9 R1 stateOffPolResult] := by
    simp [CL, closedIn, load32, movImm32, store32, mk]
  exact ((h1.append h2).append (cl_trampolineJumps ext T 0 hT)).append (cl_noJmp ext R hR)

/-- The targets of the landing pads were unresolved before the split. -/
theorem splitTargets_sub (c : Cfg) (xdp : Bool) (s : SplitSt) : ∀ t ∈ splitTargets c xdp s, t ∈ s.cur.fix := by
  intro t ht
  simp only [splitTargets, List.mem_filter, mem_sortLabels, bne_iff_ne, ne_eq] at ht
  rcases fix_closed (glueHead c xdp) { s.cur with trampEnabled := false } [.nextProgram]
      (cl_glueHead _ c xdp List.mem_cons_self) t ht.1 with ⟨h, _⟩ | h
  · exact h
  · simp only [List.mem_singleton] at h; exact absurd h ht.2

/-- After the glue nothing is unresolved. -/
theorem glue_fix (c : Cfg) (xdp : Bool) (s : SplitSt) : (rawAll s.cur (glueEvs c xdp s)).fix = [] := by
  rw [List.eq_nil_iff_forall_not_mem]
  intro l hl
  rcases fix_closed _ s.cur [] (cl_glueEvs c xdp s) l hl with ⟨h1, h2⟩ | h
  · apply h2
    simp only [glueEvs, glueTail, labelsOf_append, labelsOf_landingPads, labelsOf_npBlock, List.mem_append]
    rcases fix_persist (glueHead c xdp) { s.cur with trampEnabled := false } l h1 with h | h
    · exact Or.inl h
    · right
      by_cases hnp : l = .nextProgram
      · right; simp [hnp]
      · left
        simp only [splitTargets, List.mem_filter, mem_sortLabels, bne_iff_ne, ne_eq]
        exact ⟨h, hnp⟩
  · cases h

/-! ### Every program of the split fold ends with no unresolved target -/

theorem cont_fix (c : Cfg) (xdp : Bool) (F : List Ev) (hF : Label.exit ∈ labelsOf F) :
    ∀ (S : List BEv) (s : SplitSt), S.all mOK = true → CL [] (flat S ++ F) →
      (∀ l ∈ s.cur.fix, l ∈ labelsOf (flat S ++ F)) →
      (rawAll s.cur (cont c xdp (S ++ F.map BEv.ev) s).1).fix = [] ∧
        ∀ p ∈ (cont c xdp (S ++ F.map BEv.ev) s).2, (rawAll {} p).fix = [] := by
  intro S
  induction S with
  | nil =>
    intro s _ hc hinv
    have := cont_evs c xdp [] F s
    simp only [List.append_nil, cont] at this
    simp only [List.nil_append, this]
    refine ⟨?_, fun p hp => by cases hp⟩
    rw [List.eq_nil_iff_forall_not_mem]
    intro l hl
    rcases fix_closed F s.cur [] hc l hl with ⟨h1, h2⟩ | h
    · exact h2 (hinv l h1)
    · cases h
  | cons b S ih =>
    intro s hm hc hinv
    simp only [List.all_cons, Bool.and_eq_true] at hm
    cases b with
    | ev e =>
      simp only [List.cons_append, cont]
      have hstep : ∀ X, rawAll s.cur (e :: X) = rawAll (s.cur.raw e) X := fun _ => rfl
      rw [hstep]
      have hc' : CL [] (flat S ++ F) := by
        simp only [flat, List.cons_append] at hc
        cases e with
        | label l => simpa only [CL, closedIn] using hc
        | ins i => simpa only [CL, closedIn] using hc
        | jmp i l =>
          simp only [CL, closedIn, Bool.and_eq_true] at hc
          exact hc.2
      refine ih { s with cur := s.cur.raw e } hm.2 hc' ?_
      intro l hl
      simp only [flat, List.cons_append] at hinv hc
      cases e with
      | label l' =>
        have := raw_fix_label s.cur l' l hl
        have h2 := hinv l this.1
        simp only [labelsOf, List.mem_cons] at h2
        rcases h2 with h2 | h2
        · exact absurd h2 this.2
        · exact h2
      | ins i =>
        rcases raw_fix s.cur _ l hl with h | ⟨_, h⟩
        · simpa [labelsOf] using hinv l h
        · cases h
      | jmp i l' =>
        rcases raw_fix s.cur _ l hl with h | ⟨_, h⟩
        · simpa [labelsOf] using hinv l h
        · have : l' = l := by injection h
          subst this
          simp only [CL, closedIn, Bool.and_eq_true, Bool.or_eq_true, List.contains_nil, Bool.false_eq_true, or_false] at hc
          exact List.contains_iff_mem.1 hc.1
    | maybeSplit R =>
      simp only [List.cons_append, cont]
      simp only [flat] at hc hinv
      by_cases hw : willSplit c s = true
      · simp only [hw, if_true]
        have hcur : (splitState c xdp s R).cur = rawAll {} (preEvs c (splitTargets c xdp s) R) := by
          simp only [splitState]
        have hinv2 : ∀ l ∈ (splitState c xdp s R).cur.fix, l ∈ labelsOf (flat S ++ F) := by
          intro l hl
          rw [hcur] at hl
          have hT : ∀ t ∈ splitTargets c xdp s, t ∈ labelsOf (flat S ++ F) :=
            fun t ht => hinv t (splitTargets_sub c xdp s t ht)
          have hx : Label.exit ∈ labelsOf (flat S ++ F) := by
            rw [labelsOf_append]; exact List.mem_append_right _ hF
          rcases fix_closed _ {} _ (cl_preEvs (labelsOf (flat S ++ F)) c (splitTargets c xdp s) R hx hT hm.1) l hl with ⟨h, _⟩ | h
          · cases h
          · exact h
        have := ih (splitState c xdp s R) hm.2 hc hinv2
        refine ⟨glue_fix c xdp s, ?_⟩
        intro p hp
        simp only [List.mem_cons] at hp
        rcases hp with rfl | hp
        · rw [rawAll_append, ← hcur]
          exact this.1
        · exact this.2 p hp
      · simp only [hw, Bool.false_eq_true, if_false]
        exact ih s hm.2 hc hinv

/-! ### The builder's call sites reload without jumps -/

abbrev MK (S : List BEv) : Prop := S.all mOK = true

theorem MK.append {a b : List BEv} (ha : MK a) (hb : MK b) : MK (a ++ b) := by
  unfold MK at *; rw [List.all_append, ha, hb]; rfl

@[simp] theorem all_evs (B : List Ev) : (B.map BEv.ev).all mOK = true := by
  induction B with
  | nil => rfl
  | cons e r ih => simp only [List.map_cons, List.all_cons, ih, mOK, Bool.and_self]

theorem MK.evs (B : List Ev) : MK (B.map BEv.ev) := all_evs B

theorem mk_cidrLoop (v6 : Bool) (leg : Leg) (rid : Nat) (P : Label) :
    ∀ (nets : List Net) (idx : Nat), MK (cidrLoop v6 leg rid P nets idx) := by
  intro nets
  induction nets with
  | nil => intro _; rfl
  | cons n ns ih =>
    intro idx
    have := ih (idx + 1)
    simp only [MK, cidrLoop, List.all_cons, List.all_append, all_evs, mOK, List.all_nil, Bool.true_and] at this ⊢
    exact this

theorem mk_cidrs (v6 : Bool) (rid part : Nat) (neg : Bool) (leg : Leg) (nets : List Net) :
    MK (cidrsMatch v6 rid part neg leg nets).1 := by
  unfold cidrsMatch
  split
  · exact mk_cidrLoop _ _ _ _ _ _
  · exact (mk_cidrLoop _ _ _ _ _ _).append rfl

theorem mk_portLoop (rid : Nat) (leg : Leg) (P : Label) :
    ∀ (ports : List PortRange) (part : Nat), MK (portLoop rid leg P ports part).1 := by
  intro ports
  induction ports with
  | nil => intro _; rfl
  | cons pr rs ih =>
    intro part
    rw [portLoop_consB]
    exact (MK.evs _).append (MK.append (by simp [MK, mOK, Ev.notJmp, load16, mk]) (ih _))

theorem mk_ports (c : Cfg) (rid part : Nat) (neg : Bool) (leg : Leg) (ports : List PortRange) (named : List Nat) :
    MK (portsMatch c rid part neg leg ports named).1 := by
  have hn : ∀ P : Label, MK (named.flatMap (fun id =>
      BEv.maybeSplit [] :: (ipSetLookup c id leg ++ [jumpNEImm64 R0 0 P]).map BEv.ev)) := by
    intro P
    induction named with
    | nil => rfl
    | cons id ids ih =>
      simp only [List.flatMap_cons]
      exact MK.append (by simp only [MK, List.all_cons, all_evs, mOK, List.all_nil, Bool.and_self]) ih
  unfold portsMatch
  have hl := mk_portLoop rid leg (if neg then Label.ruleNoMatch rid else Label.rulePart rid part) ports
    (if neg then part else part + 1)
  have h1 : MK (BEv.ev (load16 R1 R9 leg.portOff) ::
      (portLoop rid leg (if neg then Label.ruleNoMatch rid else Label.rulePart rid part) ports
        (if neg then part else part + 1)).1) := by
    simp only [MK, List.all_cons, mOK, Bool.true_and]; exact hl
  refine MK.append (MK.append h1 (hn _)) ?_
  split <;> rfl

theorem mk_rmP (c : Cfg) (rid : Nat) (r : Rule) (leg : Leg) :
    MK (rmP2 c rid r).1 ∧ MK (rmP3 c rid r).1 ∧ MK (rmP4 c rid r leg).1 ∧ MK (rmP5 c rid r leg).1 ∧
    MK (rmP9 c rid r leg).1 ∧ MK (rmP10 c rid r leg).1 ∧ MK (rmP11 c rid r leg).1 ∧ MK (rmP12 c rid r leg).1 := by
  refine ⟨?_, ?_, ?_, ?_, ?_, ?_, ?_, ?_⟩
  · unfold rmP2; split
    · rfl
    · exact mk_cidrs _ _ _ _ _ _
  · unfold rmP3; split
    · rfl
    · exact mk_cidrs _ _ _ _ _ _
  · unfold rmP4; split
    · rfl
    · exact mk_cidrs _ _ _ _ _ _
  · unfold rmP5; split
    · rfl
    · exact mk_cidrs _ _ _ _ _ _
  · unfold rmP9; split
    · rfl
    · exact mk_ports _ _ _ _ _ _ _
  · unfold rmP10; split
    · rfl
    · exact mk_ports _ _ _ _ _ _ _
  · unfold rmP11; split
    · rfl
    · exact mk_ports _ _ _ _ _ _ _
  · unfold rmP12; split
    · rfl
    · exact mk_ports _ _ _ _ _ _ _

theorem mk_ruleMatches (c : Cfg) (rid : Nat) (r : Rule) (leg : Leg) : MK (ruleMatches c rid r leg) := by
  obtain ⟨h2, h3, h4, h5, h9, h10, h11, h12⟩ := mk_rmP c rid r leg
  rw [ruleMatches_eq]
  exact ((((((((((((MK.evs _).append h2).append h3).append h4).append h5).append (MK.evs _)).append (MK.evs _)).append
    (MK.evs _)).append h9).append h10).append h11).append h12).append (MK.evs _)

theorem mk_writeRule (c : Cfg) (rid : Nat) (r : Rule) (a : Label) (leg : Leg) : MK (writeRule c rid r a leg).1 := by
  unfold writeRule
  split
  · rfl
  · rename_i fr _
    have := (mk_ruleMatches c rid fr leg).append (MK.evs (endOfRule c rid r.matchID a))
    simp only [MK, List.all_cons, mOK, List.all_nil, Bool.true_and] at this ⊢
    exact this

theorem mk_policyRules (c : Cfg) (lab : String → Label) (leg : Leg) :
    ∀ (rs : List Rule) (rid : Nat), MK (writePolicyRules c lab leg rs rid).1 := by
  intro rs
  induction rs with
  | nil => intro _; rfl
  | cons r rs ih =>
    intro rid
    simp only [writePolicyRules]
    exact (mk_writeRule c rid r _ leg).append (ih _)

theorem mk_policies (c : Cfg) (lab : String → Label) (leg : Leg) :
    ∀ (ps : List Policy) (rid : Nat), MK (writePolicies c lab leg ps rid).1 := by
  intro ps
  induction ps with
  | nil => intro _; rfl
  | cons pol ps ih =>
    intro rid
    simp only [writePolicies]
    exact (mk_policyRules c lab leg pol.rules rid).append (ih _)

theorem mk_tiers (c : Cfg) (leg : Leg) (al : Label) :
    ∀ (ts : List Tier) (rid tid : Nat), MK (writeTiers c leg al ts rid tid).1 := by
  intro ts
  induction ts with
  | nil => intro _ _; rfl
  | cons t ts ih =>
    intro rid tid
    simp only [writeTiers]
    exact (((mk_policies c _ leg t.policies rid).append (mk_writeRule c _ _ _ leg)).append rfl).append (ih _ _)

theorem mk_profiles (c : Cfg) (al : Label) (ps : List Policy) (noMatchID rid : Nat) :
    MK (writeProfiles c al ps noMatchID rid).1 := by
  simp only [writeProfiles]
  exact (mk_policies c _ _ ps rid).append (mk_writeRule c _ _ _ _)

theorem mk_host (c : Cfg) (r : Rules) : MK (hostPart c r).1 := by
  have t := mk_tiers c
  have p := mk_profiles c
  unfold MK at t p ⊢
  cases h1 : r.forXDP <;> cases h2 : r.suppressNormalHostPolicy <;>
    simp [hostPart, h1, h2, List.all_append, mOK, t, p]

theorem mk_workload (c : Cfg) (r : Rules) (rid tid : Nat) : MK (workloadPart c r rid tid) := by
  have t := mk_tiers c
  have p := mk_profiles c
  unfold MK at t p ⊢
  unfold workloadPart
  split
  · rfl
  · simp [List.all_append, t, p]

/-! ### `Builder.Instructions` succeeds on split builds -/

theorem mapM_assemble_some : ∀ l : List (List Ev), (∀ p ∈ l, ∃ q, assemble p = some q) →
    ∃ qs, l.mapM assemble = some qs := by
  intro l
  induction l with
  | nil => intro _; exact ⟨[], rfl⟩
  | cons p ps ih =>
    intro h
    obtain ⟨q, hq⟩ := h p List.mem_cons_self
    obtain ⟨qs, hqs⟩ := ih (fun p' hp' => h p' (List.mem_cons_of_mem _ hp'))
    exact ⟨q :: qs, by simp [List.mapM_cons, hq, hqs]⟩

/-- **`Builder.Instructions` neither panics nor fails to assemble on a SPLIT build** whose programs all
stay below the trampoline stride: every program of the chain assembles. -/
theorem instructions_total_split (c : Cfg) (r : Rules) (hb : Buildable r)
    (hsb : ShortBlocks c r.forXDP (compile c r) {}) (hstride : c.trampolineStride ≤ 32767) :
    ∃ progs, instructions c r = some (some progs) := by
  have hexp := expand_cont c r.forXDP (compile c r) hsb
  have hshape : compile c r =
      ((headerEvs c).map BEv.ev ++ ((hostPart c r).1 ++ workloadPart c r (hostPart c r).2.1 (hostPart c r).2.2)) ++
        (footerEvs c r.forXDP).map BEv.ev := by
    rw [compile_bodyB, bodyB]; simp only [List.append_assoc]
  have hmk : MK ((headerEvs c).map BEv.ev ++ ((hostPart c r).1 ++ workloadPart c r (hostPart c r).2.1 (hostPart c r).2.2)) :=
    (MK.evs _).append ((mk_host c r).append (mk_workload c r _ _))
  have hcl : CL [] (flat ((headerEvs c).map BEv.ev ++ ((hostPart c r).1 ++
      workloadPart c r (hostPart c r).2.1 (hostPart c r).2.2)) ++ footerEvs c r.forXDP) := by
    have := compile_closed c r hb
    rw [hshape, flat_append, flat_map_ev] at this
    exact this
  have hexit : Label.exit ∈ labelsOf (footerEvs c r.forXDP) := by
    rw [labelsOf_footer]; simp [footerLabels]
  have hfix := cont_fix c r.forXDP (footerEvs c r.forXDP) hexit _ {} hmk hcl (by intro l h; cases h)
  rw [← hshape] at hfix
  obtain ⟨h1, h2⟩ := hsb
  have hall : ∀ p ∈ (cont c r.forXDP (compile c r) {}).1 :: (cont c r.forXDP (compile c r) {}).2,
      ∃ q, assemble p = some q := by
    intro p hp
    simp only [List.mem_cons] at hp
    rcases hp with rfl | hp
    · refine assemble_of_fix _ hfix.1 ?_
      have : (cont c r.forXDP (compile c r) {}).1.length ≤ c.trampolineStride := by simpa using h1
      omega
    · exact assemble_of_fix _ (hfix.2 p hp) (by have := h2 p hp; omega)
  obtain ⟨qs, hqs⟩ := mapM_assemble_some _ hall
  refine ⟨qs, ?_⟩
  unfold instructions
  rw [noPanic_of c r hb, hexp]
  simp [hqs]

/-- **Split builds, without a build hypothesis**: the chain of programs EXISTS and, run as a chain, ends as
the reference verdict demands. -/
theorem polprog_chain_built (env : Env) (st : List Byte) (r : Rules) (hok : ProgOK env st r) (hb : Buildable r)
    (nmax : Nat) (he : ChainEnv env nmax) (hsb : ShortBlocks env.c r.forXDP (compile env.c r) {})
    (hnb : (cont env.c r.forXDP (compile env.c r) {}).2.length ≤ nmax) (hstride : env.c.trampolineStride ≤ 32767) :
    ∃ progs, instructions env.c r = some (some progs) ∧
      ∃ o, (runChain env progs 0 st).obs = some o ∧
        (expectedObs env r.forXDP (verdict env r (pktOfD st))).agrees o = true := by
  obtain ⟨progs, hi⟩ := instructions_total_split env.c r hb hsb hstride
  exact ⟨progs, hi, polprog_chain env st r hok nmax he hsb hnb progs hi⟩

end CalicoVerif.C11
