import CalicoVerif.Proofs.C33Prime
/-! C33: `permutation` yields a bijection of `[0,m)` when `m` is prime. -/
namespace CalicoVerif.C33

/-- A preference list is a permutation of the slots `0..m-1`. -/
def ValidPerm (m : Nat) (p : List Nat) : Prop :=
  p.length = m ∧ p.Nodup ∧ ∀ x ∈ p, x < m

theorem coprime_of_prime {m s : Nat} (hm : IsPrime m) (h1 : 1 ≤ s) (h2 : s < m) : Nat.Coprime m s := by
  have hg : Nat.gcd m s ∣ m := Nat.gcd_dvd_left m s
  rcases hm.2 _ hg with h | h
  · exact h
  · exfalso
    have : Nat.gcd m s ∣ s := Nat.gcd_dvd_right m s
    have := Nat.le_of_dvd (by omega) this
    omega

theorem permOf_inj {m o s : Nat} (hm : IsPrime m) (h1 : 1 ≤ s) (h2 : s < m)
    {j k : Nat} (hj : j < m) (hk : k < m) (hjk : j < k) :
    (o + j * s) % m ≠ (o + k * s) % m := by
  intro heq
  -- m ∣ (o + k s) - (o + j s) = (k - j) s
  have hd : m ∣ (o + k * s) - (o + j * s) :=
    Nat.dvd_of_mod_eq_zero (Nat.sub_mod_eq_zero_of_mod_eq heq.symm)
  have hsub : (o + k * s) - (o + j * s) = (k - j) * s := by
    rw [Nat.sub_mul]; omega
  rw [hsub] at hd
  have hc := coprime_of_prime hm h1 h2
  have : m ∣ k - j := Nat.Coprime.dvd_of_dvd_mul_right hc hd
  have := Nat.le_of_dvd (by omega) this
  omega

/-- Euclid's lemma at work: for a prime table size, `offset + j*skip mod m` visits every slot once. -/
theorem permOf_valid {m o s : Nat} (hm : IsPrime m) (h1 : 1 ≤ s) (h2 : s < m) :
    ValidPerm m (permOf m o s) := by
  have hm0 : 0 < m := by have := hm.1; omega
  refine ⟨by simp [permOf], ?_, ?_⟩
  · unfold permOf
    rw [List.nodup_iff_pairwise_ne, List.pairwise_map]
    refine List.Pairwise.imp_of_mem ?_ (List.pairwise_lt_range (n := m))
    intro a b ha hb hab
    exact permOf_inj hm h1 h2 (List.mem_range.1 ha) (List.mem_range.1 hb) hab
  · intro x hx
    simp only [permOf, List.mem_map] at hx
    obtain ⟨j, -, rfl⟩ := hx
    exact Nat.mod_lt _ hm0

/-- Pigeonhole: a duplicate-free list of `m` numbers below `m` contains every number below `m`. -/
theorem nodup_bounded : ∀ (m : Nat) (l : List Nat), l.Nodup → (∀ x ∈ l, x < m) →
    l.length ≤ m ∧ (l.length = m → ∀ x, x < m → x ∈ l) := by
  intro m
  induction m with
  | zero =>
    intro l _ hb
    cases l with
    | nil => simp
    | cons a t => exact absurd (hb a List.mem_cons_self) (by omega)
  | succ m ih =>
    intro l hnd hb
    have hnd' : (l.erase m).Nodup := hnd.erase m
    have hb' : ∀ x ∈ l.erase m, x < m := by
      intro x hx
      have := (hnd.mem_erase_iff).1 hx
      have := hb x this.2
      omega
    have ih' := ih (l.erase m) hnd' hb'
    by_cases hmem : m ∈ l
    · have hlen : (l.erase m).length = l.length - 1 := List.length_erase_of_mem hmem
      have hpos : 0 < l.length := List.length_pos_of_mem hmem
      refine ⟨by omega, ?_⟩
      intro hl x hx
      by_cases hxm : x = m
      · subst hxm; exact hmem
      · have := ih'.2 (by omega) x (by omega)
        exact ((hnd.mem_erase_iff).1 this).2
    · have hlen : l.erase m = l := List.erase_of_not_mem hmem
      rw [hlen] at ih'
      refine ⟨by omega, ?_⟩
      intro hl
      omega

theorem ValidPerm.mem {m : Nat} {p : List Nat} (h : ValidPerm m p) {x : Nat} (hx : x < m) : x ∈ p :=
  (nodup_bounded m p h.2.1 h.2.2).2 h.1 x hx

end CalicoVerif.C33
