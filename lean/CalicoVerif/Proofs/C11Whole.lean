import CalicoVerif.Proofs.C11Step3
import CalicoVerif.Proofs.C11Prog
import CalicoVerif.Proofs.C11Asm
import CalicoVerif.Proofs.C11Split
/-!
C11 — whole program (IPv4, not split): header, policy part, footer.
-/
namespace CalicoVerif.C11

/-- The header establishes the builder's invariant (state lookup succeeds). -/
theorem lrun_header (env : Env) (st : List Byte) (hlen : st.length = 512) (hs : env.stateOK = true) (rest : List Ev) :
    ∃ m, Inv st m ∧ lrun env (headerEvs env.c ++ rest) (Mach.init st) = lrun env rest m := by
  have e1 := fun nxt => step_mov64 env (Mach.init st) 6 1 0 0 nxt ctxW (by omega) rfl
  have e2 := fun nxt => step_movImm64 env ((Mach.init st).setReg 6 ctxW) 1 0 0 nxt (by omega)
  have e3 := fun nxt => step_stx_stack' (env := env) (m := ((Mach.init st).setReg 6 ctxW).setReg 1 (sext32 0))
    (h10 := rfl) opStoreReg32 1 508 4 0 nxt (sext32 0) (Or.inr (Or.inr (Or.inl ⟨rfl, rfl⟩))) (by omega) rfl
  refine ⟨(((((({ (((Mach.init st).setReg 6 ctxW).setReg 1 (sext32 0)) with
      stack := writeStack (fun _ => none) 508 (toLE 0 4) } : Mach).setReg 2 stackW).setReg 2
      (stackW + sext32 (-4))).setReg 1 (mapHandle env.c.stateMapFD)).clobber).setReg 0 stateW).setReg 9 stateW, ?_, ?_⟩
  · exact { r6 := rfl, r9 := rfl, r10 := rfl, regsLen := rfl, stEq := rfl, stLen := hlen }
  · simp only [headerEvs, mov64, movImm64, storeStack32, addImm64, call, jumpEqImm64, mk, mkJ, R0, R1, R2, R6, R9, R10,
      offStateKey, List.cons_append, List.nil_append, List.append_assoc]
    rw [lrun_label]
    refine (lrun_ins_next (e1 _)).trans ?_
    refine (lrun_ins_next (e2 _)).trans ?_
    refine (lrun_ins_next (e3 _)).trans ?_
    refine (lrun_ins_next (step_mov64 env _ 2 10 0 0 _ stackW (by omega) rfl)).trans ?_
    refine (lrun_ins_next (step_addImm64 env _ 2 0 (-4) _ stackW (by omega) rfl)).trans ?_
    refine (lrun_loadMapFD env _ 1 _ _ (by omega)).trans ?_
    refine (lrun_ins_next (step_call_state env _ _ rfl rfl rfl hs)).trans ?_
    have hj := step_jcond64 (env := env) (m := (((((({ (((Mach.init st).setReg 6 ctxW).setReg 1 (sext32 0)) with
      stack := writeStack (fun _ => none) 508 (toLE 0 4) } : Mach).setReg 2 stackW).setReg 2
      (stackW + sext32 (-4))).setReg 1 (mapHandle env.c.stateMapFD)).clobber).setReg 0 stateW))
      opJumpEqImm64 0 0 0 none stateW (Or.inl rfl) rfl
    have hc : cond (opJumpEqImm64 / 16) stateW (sext32 0) = some false := by decide
    rw [hc] at hj
    refine (lrun_jmp_next (by decide) hj).trans ?_
    refine (lrun_ins_next (step_mov64 env _ 9 0 0 0 _ stateW (by omega) rfl)).trans ?_
    rw [lrun_label]

end CalicoVerif.C11
