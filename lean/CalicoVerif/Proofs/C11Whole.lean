import CalicoVerif.Proofs.C11Step3
import CalicoVerif.Proofs.C11Prog
import CalicoVerif.Proofs.C11Asm
import CalicoVerif.Proofs.C11Split
/-!
C11 — whole program (IPv4, not split): header, policy part, footer.
-/
namespace CalicoVerif.C11

/-- The header establishes the builder's invariant (state lookup succeeds). -/
theorem lrun_header (env : Env) (st : List Byte) (hlen : st.length = 512) (hs : env.stateOK = true) (rest : List Ev) :
    ∃ m, Inv st m ∧ lrun env (headerEvs env.c ++ rest) (Mach.init st) = lrun env rest m := by
  have e1 := fun nxt => step_mov64 env (Mach.init st) 6 1 0 0 nxt ctxW (by omega) rfl
  have e2 := fun nxt => step_movImm64 env ((Mach.init st).setReg 6 ctxW) 1 0 0 nxt (by omega)
  have e3 := fun nxt => step_stx_stack' (env := env) (m := ((Mach.init st).setReg 6 ctxW).setReg 1 (sext32 0))
    (h10 := rfl) opStoreReg32 1 508 4 0 nxt (sext32 0) (Or.inr (Or.inr (Or.inl ⟨rfl, rfl⟩))) (by omega) rfl
  refine ⟨(((((({ (((Mach.init st).setReg 6 ctxW).setReg 1 (sext32 0)) with
      stack := writeStack (fun _ => none) 508 (toLE 0 4) } : Mach).setReg 2 stackW).setReg 2
      (stackW + sext32 (-4))).setReg 1 (mapHandle env.c.stateMapFD)).clobber).setReg 0 stateW).setReg 9 stateW, ?_, ?_⟩
  · exact { r6 := rfl, r9 := rfl, r10 := rfl, regsLen := rfl, sim := StSim.refl st hlen, stLen := hlen }
  · simp only [headerEvs, mov64, movImm64, storeStack32, addImm64, call, jumpEqImm64, mk, mkJ, R0, R1, R2, R6, R9, R10,
      offStateKey, List.cons_append, List.nil_append, List.append_assoc]
    rw [lrun_label]
    refine (lrun_ins_next (e1 _)).trans ?_
    refine (lrun_ins_next (e2 _)).trans ?_
    refine (lrun_ins_next (e3 _)).trans ?_
    refine (lrun_ins_next (step_mov64 env _ 2 10 0 0 _ stackW (by omega) rfl)).trans ?_
    refine (lrun_ins_next (step_addImm64 env _ 2 0 (-4) _ stackW (by omega) rfl)).trans ?_
    refine (lrun_loadMapFD env _ 1 _ _ (by omega)).trans ?_
    refine (lrun_ins_next (step_call_state env _ _ rfl rfl rfl hs)).trans ?_
    have hj := step_jcond64 (env := env) (m := (((((({ (((Mach.init st).setReg 6 ctxW).setReg 1 (sext32 0)) with
      stack := writeStack (fun _ => none) 508 (toLE 0 4) } : Mach).setReg 2 stackW).setReg 2
      (stackW + sext32 (-4))).setReg 1 (mapHandle env.c.stateMapFD)).clobber).setReg 0 stateW))
      opJumpEqImm64 0 0 0 none stateW (Or.inl rfl) rfl
    have hc : cond (opJumpEqImm64 / 16) stateW (sext32 0) = some false := by decide
    rw [hc] at hj
    refine (lrun_jmp_next (by decide) hj).trans ?_
    refine (lrun_ins_next (step_mov64 env _ 9 0 0 0 _ stateW (by omega) rfl)).trans ?_
    rw [lrun_label]

/-! ### Footer -/

theorem toLE_length (v n : Nat) : (toLE v n).length = n := by
  induction n generalizing v with
  | zero => rfl
  | succ n ih => simp [toLE, ih]

theorem getBytes_writeAt_same {α : Type} (l : List α) (off : Nat) (bs : List α) (h : off + bs.length ≤ l.length) :
    getBytes (writeAt l off bs) off bs.length = some bs := by
  unfold getBytes writeAt
  have hlen : (l.take off ++ bs ++ l.drop (off + bs.length)).length = l.length := by
    simp only [List.length_append, List.length_take, List.length_drop]; omega
  rw [if_pos (by rw [hlen]; exact h)]
  congr 1
  have h1 : (l.take off).length = off := by simp [List.length_take]; omega
  rw [List.append_assoc, List.drop_left' h1, List.take_left' rfl]

theorem leNat_toLE4 (x : Nat) : leNat (toLE x 4) = x % 4294967296 := by
  simp only [toLE, leNat, BitVec.toNat_ofNat]; omega

theorem rc_after_store (st : List Byte) (x : Nat) (hlen : st.length = 512) :
    (getBytes (writeAt st 92 (toLE x 4)) 92 4).map leNat = some (x % 4294967296) := by
  have := getBytes_writeAt_same st 92 (toLE x 4) (by rw [toLE_length]; omega)
  rw [toLE_length] at this
  rw [this, Option.map_some, leNat_toLE4]

theorem writeAt_length {α : Type} (l : List α) (off : Nat) (bs : List α) (h : off + bs.length ≤ l.length) :
    (writeAt l off bs).length = l.length := by
  unfold writeAt
  simp only [List.length_append, List.length_take, List.length_drop]; omega

/-- "Store the verdict, tail-call through the static jump map" (both footer blocks). -/
def verdictBlock (c : Cfg) (v : Int) (jmp : Int) (cb : Int) : List Ev :=
  [movImm32 R1 v, store32 R9 R1 stateOffPolResult, mov64 R1 R6] ++ loadMapFD R2 c.staticJumpMapFD ++
  [if c.useJmps then movImm32 R3 jmp else load32 R3 R6 cb, call helperTailCall]

/-- The jump index the block uses. -/
def blockIdx (env : Env) (jmp : Int) (cb0 : Bool) : Word :=
  if env.c.useJmps then ((sext32 jmp).setWidth 32).setWidth 64
  else (if cb0 then env.cb0 else env.cb1).setWidth 64

def vWord (v : Int) : Word := ((sext32 v).setWidth 32).setWidth 64

theorem lrun_verdictBlock (env : Env) (m : Mach) (v jmp : Int) (cb0 : Bool) (rest : List Ev)
    (h6 : m.reg 6 = some ctxW) (h9 : m.reg 9 = some stateW) (hl : m.regs.length = 11) :
    ∃ m2 : Mach, m2.st = writeAt m.st 92 (toLE (vWord v).toNat 4) ∧ m2.reg 9 = some stateW ∧ m2.regs.length = 11 ∧
      lrun env (verdictBlock env.c v jmp (if cb0 then skbCb0 else skbCb1) ++ rest) m =
        if env.tailOK then
          Outcome.tail env.c.staticJumpMapFD (((blockIdx env jmp cb0).setWidth 32).setWidth 64)
            (((({ (m.setReg 1 (vWord v)) with st := writeAt m.st 92 (toLE (vWord v).toNat 4) } : Mach).setReg 1 ctxW).setReg 2
              (mapHandle env.c.staticJumpMapFD)).setReg 3 (blockIdx env jmp cb0))
        else lrun env rest m2 := by
  have r1 : (m.setReg 1 (vWord v)).reg 1 = some (vWord v) := reg_setReg_eq (by omega)
  have r9 : (m.setReg 1 (vWord v)).reg 9 = some stateW := by rw [reg_setReg_ne (by omega)]; exact h9
  have e2 := fun nxt => step_stx32_state (env := env) r9 1 92 0 nxt (vWord v) (by omega) r1
  -- machine after the store and the three register moves
  have hm5 : ∀ M : Mach, M = ((({ (m.setReg 1 (vWord v)) with st := writeAt m.st 92 (toLE (vWord v).toNat 4) } : Mach).setReg 1 ctxW).setReg 2
      (mapHandle env.c.staticJumpMapFD)).setReg 3 (blockIdx env jmp cb0) →
      M.reg 1 = some ctxW ∧ M.reg 2 = some (mapHandle env.c.staticJumpMapFD) ∧ M.reg 3 = some (blockIdx env jmp cb0) ∧
      M.reg 9 = some stateW ∧ M.regs.length = 11 := by
    intro M hM
    subst hM
    have l1 : (m.setReg 1 (vWord v)).regs.length = 11 := by simp [Mach.setReg, hl]
    refine ⟨?_, ?_, ?_, ?_, ?_⟩
    · rw [reg_setReg_ne (by omega), reg_setReg_ne (by omega)]
      exact reg_setReg_eq (by simp [Mach.setReg, hl])
    · rw [reg_setReg_ne (by omega)]
      exact reg_setReg_eq (by simp [Mach.setReg, hl])
    · exact reg_setReg_eq (by simp [Mach.setReg, hl])
    · rw [reg_setReg_ne (by omega), reg_setReg_ne (by omega), reg_setReg_ne (by omega)]
      exact r9
    · simp [Mach.setReg, hl]
  obtain ⟨q1, q2, q3, q9, ql⟩ := hm5 _ rfl
  have et := fun nxt => step_tail_static env _ (blockIdx env jmp cb0) nxt q1 q2 q3
  refine ⟨(((((({ (m.setReg 1 (vWord v)) with st := writeAt m.st 92 (toLE (vWord v).toNat 4) } : Mach).setReg 1 ctxW).setReg 2
      (mapHandle env.c.staticJumpMapFD)).setReg 3 (blockIdx env jmp cb0)).clobber).setReg 0 (BitVec.ofInt 64 (-2))),
    rfl, ?_, ?_, ?_⟩
  · rw [reg_setReg_ne (by omega), reg_clobber _ 9 (Or.inr (by omega))]; exact q9
  · simp [Mach.setReg, Mach.clobber, hl]
  · have h6' : (({ (m.setReg 1 (vWord v)) with st := writeAt m.st 92 (toLE (vWord v).toNat 4) } : Mach)).reg 6 = some ctxW := by
      show (m.setReg 1 (vWord v)).reg 6 = some ctxW
      rw [reg_setReg_ne (by omega)]; exact h6
    have h6'' : ((({ (m.setReg 1 (vWord v)) with st := writeAt m.st 92 (toLE (vWord v).toNat 4) } : Mach).setReg 1 ctxW).setReg 2
        (mapHandle env.c.staticJumpMapFD)).reg 6 = some ctxW := by
      rw [reg_setReg_ne (by omega), reg_setReg_ne (by omega)]; exact h6'
    simp only [verdictBlock, movImm32, store32, mov64, call, mk, R1, R2, R3, R6, R9, stateOffPolResult, stateEventHdrSize,
      List.cons_append, List.nil_append, List.append_assoc]
    refine (lrun_ins_next (step_movImm32 env m 1 0 v _ (by omega))).trans ?_
    refine (lrun_ins_next (e2 _)).trans ?_
    refine (lrun_ins_next (step_mov64 env _ 1 6 0 0 _ ctxW (by omega) h6')).trans ?_
    refine (lrun_loadMapFD env _ 2 _ _ (by omega)).trans ?_
    have hidx : lrun env (((if env.c.useJmps = true then Ev.ins ⟨opMovImm32, 3, 0, 0, jmp⟩
          else load32 3 6 (if cb0 = true then skbCb0 else skbCb1)) ::
        Ev.ins ⟨opCall, 0, 0, 0, helperTailCall⟩ :: rest))
        ((({ (m.setReg 1 (vWord v)) with st := writeAt m.st 92 (toLE (vWord v).toNat 4) } : Mach).setReg 1 ctxW).setReg 2
          (mapHandle env.c.staticJumpMapFD)) =
        lrun env (Ev.ins ⟨opCall, 0, 0, 0, helperTailCall⟩ :: rest)
          (((({ (m.setReg 1 (vWord v)) with st := writeAt m.st 92 (toLE (vWord v).toNat 4) } : Mach).setReg 1 ctxW).setReg 2
          (mapHandle env.c.staticJumpMapFD)).setReg 3 (blockIdx env jmp cb0)) := by
      unfold blockIdx
      by_cases hu : env.c.useJmps = true
      · simp only [hu, if_true]
        exact lrun_ins_next (step_movImm32 env _ 3 0 jmp _ (by omega))
      · simp only [hu, Bool.false_eq_true, if_false, load32, mk]
        cases cb0 with
        | true =>
          simp only [if_true, skbCb0]
          exact lrun_ins_next (step_ld_cb (env := env) h6'' 3 48 0 _ (by omega) (Or.inl rfl))
        | false =>
          simp only [Bool.false_eq_true, if_false, skbCb1]
          exact lrun_ins_next (step_ld_cb (env := env) h6'' 3 52 0 _ (by omega) (Or.inr rfl))
    refine hidx.trans ?_
    by_cases ht : env.tailOK = true
    · simp only [ht, if_true]
      have := et (nextIns rest)
      rw [ht] at this
      exact lrun_ins_tail this
    · have ht' : env.tailOK = false := by simpa using ht
      simp only [ht', Bool.false_eq_true, if_false]
      have := et (nextIns rest)
      rw [ht'] at this
      exact lrun_ins_next this

theorem footerEvs_eq (c : Cfg) (xdp : Bool) :
    footerEvs c xdp = .label .deny :: (verdictBlock c policyDeny c.denyJmp skbCb1 ++
      (exitTargetEvs xdp ++ ((if xdp then [.label .xdpPass, movImm64 R0 2, exitI] else []) ++
        (.label .allow :: (verdictBlock c policyAllow c.allowJmp skbCb0 ++
          [movImm32 R1 policyTailCallFailed, store32 R9 R1 stateOffPolResult, movImm64 R0 (if xdp then 1 else 2), exitI]))))) := by
  simp [footerEvs, verdictBlock]

theorem idx_jmp (j : Int) :
    ((((((sext32 j).setWidth 32).setWidth 64 : Word).setWidth 32).setWidth 64 : Word)).toNat = (BitVec.ofInt 32 j).toNat := by
  unfold sext32
  simp only [BitVec.toNat_setWidth, BitVec.toNat_ofInt]
  omega

theorem idx_cb (cb : BitVec 32) : ((((cb.setWidth 64 : Word).setWidth 32).setWidth 64 : Word)).toNat = cb.toNat := by
  have := cb.isLt
  simp only [BitVec.toNat_setWidth]
  omega

/-- Continuing at `exit`-style code: set R0, exit. -/
theorem lrun_set_exit (env : Env) (m : Mach) (x : Int) (r : List Ev) (hl : m.regs.length = 11) :
    lrun env (movImm64 R0 x :: exitI :: r) m = .exit (sext32 x) (m.setReg 0 (sext32 x)) := by
  unfold movImm64 mk R0
  refine (lrun_ins_next (step_movImm64 env m 0 0 x _ (by omega))).trans ?_
  exact lrun_exit (reg_setReg_eq (by omega))

theorem blockIdx_toNat (env : Env) (j : Int) (cb0 : Bool) :
    (((blockIdx env j cb0).setWidth 32).setWidth 64).toNat =
      if env.c.useJmps then (BitVec.ofInt 32 j).toNat else (if cb0 then env.cb0 else env.cb1).toNat := by
  unfold blockIdx
  by_cases hu : env.c.useJmps = true
  · simp only [hu, if_true]; exact idx_jmp j
  · simp only [hu, Bool.false_eq_true, if_false]; exact idx_cb _

theorem st_setReg (m : Mach) (r : Nat) (v : Word) : (m.setReg r v).st = m.st := rfl

theorem footer_deny (env : Env) (st : List Byte) (m : Mach) (xdp : Bool) (hI : Inv st m) :
    ∃ o, (goto env .deny (footerEvs env.c xdp) m).obs = some o ∧ (expectedObs env xdp .deny).agrees o = true := by
  rw [footerEvs_eq, goto_label_self]
  obtain ⟨m2, hst, _, hl2, hrun⟩ := lrun_verdictBlock env m policyDeny env.c.denyJmp false
    (exitTargetEvs xdp ++ ((if xdp then [.label .xdpPass, movImm64 R0 2, exitI] else []) ++
        (.label .allow :: (verdictBlock env.c policyAllow env.c.allowJmp skbCb0 ++
          [movImm32 R1 policyTailCallFailed, store32 R9 R1 stateOffPolResult, movImm64 R0 (if xdp then 1 else 2), exitI]))))
    hI.r6 hI.r9 hI.regsLen
  simp only [Bool.false_eq_true, if_false] at hrun
  have hrc : (getBytes (writeAt m.st 92 (toLE (vWord policyDeny).toNat 4)) 92 4).map leNat = some 2 := by
    rw [rc_after_store m.st _ hI.sim.len]
    rfl
  by_cases ht : env.tailOK = true
  · rw [ht] at hrun
    simp only [if_true] at hrun
    rw [hrun]
    refine ⟨_, rfl, ?_⟩
    simp only [Outcome.obs, expectedObs, ht, if_true, Obs.agrees, st_setReg, hrc, blockIdx_toNat]
    simp
  · have ht' : env.tailOK = false := by simpa using ht
    rw [ht'] at hrun
    simp only [Bool.false_eq_true, if_false] at hrun
    rw [hrun]
    simp only [exitTargetEvs, List.cons_append, List.nil_append]
    rw [lrun_label, lrun_set_exit env m2 _ _ hl2]
    refine ⟨_, rfl, ?_⟩
    simp only [Outcome.obs, expectedObs, ht', Bool.false_eq_true, if_false, Obs.agrees, st_setReg, hst, hrc]
    cases xdp <;> simp [sext32]

theorem labelsOf_verdictBlock (c : Cfg) (v jmp cb : Int) : labelsOf (verdictBlock c v jmp cb) = [] := by
  unfold verdictBlock
  by_cases hu : c.useJmps = true <;>
    simp [hu, labelsOf, loadMapFD, movImm32, store32, mov64, load32, call, mk]

theorem goto_allow_footer (env : Env) (xdp : Bool) (m : Mach) :
    goto env .allow (footerEvs env.c xdp) m =
      lrun env (verdictBlock env.c policyAllow env.c.allowJmp skbCb0 ++
        [movImm32 R1 policyTailCallFailed, store32 R9 R1 stateOffPolResult, movImm64 R0 (if xdp then 1 else 2), exitI]) m := by
  rw [footerEvs_eq, goto_cons_label_ne env _ m (by simp),
    goto_append _ m (by rw [labelsOf_verdictBlock]; simp),
    goto_append _ m (by simp [exitTargetEvs, labelsOf, movImm64, exitI, mk]),
    goto_append _ m (by cases xdp <;> simp [labelsOf, movImm64, exitI, mk]),
    goto_label_self]

theorem footer_allow (env : Env) (st : List Byte) (m : Mach) (xdp : Bool) (hI : Inv st m) :
    ∃ o, (goto env .allow (footerEvs env.c xdp) m).obs = some o ∧ (expectedObs env xdp .allow).agrees o = true := by
  rw [goto_allow_footer]
  obtain ⟨m2, hst, h9, hl2, hrun⟩ := lrun_verdictBlock env m policyAllow env.c.allowJmp true
    [movImm32 R1 policyTailCallFailed, store32 R9 R1 stateOffPolResult, movImm64 R0 (if xdp then 1 else 2), exitI]
    hI.r6 hI.r9 hI.regsLen
  simp only [if_true] at hrun
  have hlen : m.st.length = 512 := hI.sim.len
  have hrc : (getBytes (writeAt m.st 92 (toLE (vWord policyAllow).toNat 4)) 92 4).map leNat = some 1 := by
    rw [rc_after_store m.st _ hlen]
    rfl
  by_cases ht : env.tailOK = true
  · rw [ht] at hrun
    simp only [if_true] at hrun
    rw [hrun]
    refine ⟨_, rfl, ?_⟩
    simp only [Outcome.obs, expectedObs, ht, if_true, Obs.agrees, st_setReg, hrc, blockIdx_toNat]
    simp
  · have ht' : env.tailOK = false := by simpa using ht
    rw [ht'] at hrun
    simp only [Bool.false_eq_true, if_false] at hrun
    rw [hrun]
    -- tail call failed: record PolicyTailCallFailed and drop
    have r1 : (m2.setReg 1 (vWord policyTailCallFailed)).reg 1 = some (vWord policyTailCallFailed) :=
      reg_setReg_eq (by omega)
    have r9 : (m2.setReg 1 (vWord policyTailCallFailed)).reg 9 = some stateW := by
      rw [reg_setReg_ne (by omega)]; exact h9
    have hfin : lrun env [movImm32 R1 policyTailCallFailed, store32 R9 R1 stateOffPolResult,
        movImm64 R0 (if xdp then 1 else 2), exitI] m2 =
        .exit (sext32 (if xdp then 1 else 2))
          (({ (m2.setReg 1 (vWord policyTailCallFailed)) with
            st := writeAt m2.st 92 (toLE (vWord policyTailCallFailed).toNat 4) } : Mach).setReg 0
              (sext32 (if xdp then 1 else 2))) := by
      simp only [movImm32, store32, mk, R1, R9, stateOffPolResult, stateEventHdrSize]
      refine (lrun_ins_next (step_movImm32 env m2 1 0 _ _ (by omega))).trans ?_
      refine (lrun_ins_next (step_stx32_state (env := env) r9 1 92 0 _ _ (by omega) r1)).trans ?_
      exact lrun_set_exit env _ _ _ (by simp [Mach.setReg, hl2])
    rw [hfin]
    refine ⟨_, rfl, ?_⟩
    have hrc2 : (getBytes (writeAt m2.st 92 (toLE (vWord policyTailCallFailed).toNat 4)) 92 4).map leNat = some 10 := by
      rw [rc_after_store m2.st _ (by rw [hst, writeAt_length _ _ _ (by rw [toLE_length]; omega)]; exact hlen)]
      rfl
    simp only [Outcome.obs, expectedObs, ht', Bool.false_eq_true, if_false, Obs.agrees, st_setReg, hrc2]
    cases xdp <;> simp [sext32]

theorem footer_xdp (env : Env) (st : List Byte) (m : Mach) (hI : Inv st m) :
    ∃ o, (goto env .xdpPass (footerEvs env.c true) m).obs = some o ∧ (expectedObs env true .xdpPass).agrees o = true := by
  rw [footerEvs_eq, goto_cons_label_ne env _ m (by simp),
    goto_append _ m (by rw [labelsOf_verdictBlock]; simp),
    goto_append _ m (by simp [exitTargetEvs, labelsOf, movImm64, exitI, mk])]
  simp only [if_true, List.cons_append, List.nil_append]
  rw [goto_label_self, lrun_set_exit env m 2 _ hI.regsLen]
  refine ⟨_, rfl, ?_⟩
  simp [Outcome.obs, expectedObs, Obs.agrees, sext32]

/-! ### Whole program -/

theorem hostTarget_verdict (env : Env) (r : Rules) (p : Pkt) :
    (hostTarget env r p).or (some (vlabel (workloadVerdict env r p))) = some (vlabel (verdict env r p)) := by
  unfold hostTarget verdict
  cases r.forXDP <;> cases r.suppressNormalHostPolicy <;> simp only [Bool.false_eq_true, if_false, if_true]
  all_goals (
    try (cases evalTiers env p .destPreNAT r.hostNormalTiers <;> simp [vlabel]))
  all_goals (
    cases evalTiers env p .destPreNAT r.hostPreDnatTiers <;> simp [vlabel] <;>
    cases toOrFromHost p <;> simp [vlabel] <;>
    (try (cases evalTiers env p .dest r.hostForwardTiers <;> simp [vlabel])) <;>
    (try (cases evalTiers env p .dest r.hostNormalTiers <;> simp [vlabel])) <;>
    (try (cases evalProfiles true env p r.hostProfiles <;> simp [vlabel])))

theorem hostTarget_notBody (env : Env) (r : Rules) (p : Pkt) (l : Label) (h : hostTarget env r p = some l) :
    l.isBody = false := by
  unfold hostTarget at h
  repeat' split at h
  all_goals first | (cases h; rfl) | cases h

theorem decides_body (env : Env) (st : List Byte) (r : Rules) (hok : ProgOK env st r) (rid tid : Nat) :
    Decides env st (flat (hostPart env.c r).1 ++ flat (workloadPart env.c r rid tid))
      (some (vlabel (verdict env r (pktOfD st)))) := by
  obtain ⟨dH, _⟩ := decides_host env st r hok
  obtain ⟨dW, lW⟩ := decides_workload env st r hok rid tid
  have := Decides.seq dH dW (fun l hl => not_mem_of_body lW (hostTarget_notBody env r _ l hl))
  exact this.congr (hostTarget_verdict env r (pktOfD st))

theorem flat_compile (c : Cfg) (r : Rules) :
    flat (compile c r) = headerEvs c ++ ((flat (hostPart c r).1 ++
      flat (workloadPart c r (hostPart c r).2.1 (hostPart c r).2.2)) ++ footerEvs c r.forXDP) := by
  unfold compile
  cases hostPart c r with
  | mk h rt => cases rt with
    | mk a b => simp [flat_append, flat_map_ev]

theorem verdict_xdpPass (env : Env) (r : Rules) (p : Pkt) (h : verdict env r p = .xdpPass) : r.forXDP = true := by
  by_cases hx : r.forXDP = true
  · exact hx
  · exfalso
    have hx' : r.forXDP = false := by simpa using hx
    have hw : workloadVerdict env r p ≠ .xdpPass := by
      unfold workloadVerdict
      repeat' split
      all_goals simp
    unfold verdict at h
    simp only [hx', Bool.false_eq_true, if_false] at h
    repeat' split at h
    all_goals first | exact hw h | cases h

/-- **Label-level whole-program theorem** (IPv4, unsplit, state lookup succeeds). -/
theorem lrun_program (env : Env) (st : List Byte) (r : Rules) (hok : ProgOK env st r) (hs : env.stateOK = true) :
    ∃ o, (lrun env (flat (compile env.c r)) (Mach.init st)).obs = some o ∧
      (expectedObs env r.forXDP (verdict env r (pktOfD st))).agrees o = true := by
  rw [flat_compile]
  obtain ⟨m0, hI0, e0⟩ := lrun_header env st hok.ctx.len hs
    ((flat (hostPart env.c r).1 ++ flat (workloadPart env.c r (hostPart env.c r).2.1 (hostPart env.c r).2.2)) ++
      footerEvs env.c r.forXDP)
  rw [e0]
  obtain ⟨m1, hI1, e1⟩ := decides_body env st r hok _ _ (footerEvs env.c r.forXDP) m0 hI0
  rw [e1]
  cases hv : verdict env r (pktOfD st) with
  | allow => exact footer_allow env st m1 r.forXDP hI1
  | deny => exact footer_deny env st m1 r.forXDP hI1
  | xdpPass =>
    have hx := verdict_xdpPass env r _ hv
    rw [hx]
    exact footer_xdp env st m1 hI1

end CalicoVerif.C11
