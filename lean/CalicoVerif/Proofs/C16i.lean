import CalicoVerif.Proofs.C16h
namespace CalicoVerif.C16

theorem get_erase_other {K : Kernel} {a x : String} (h : x ≠ a) : (K.erase a).get x = K.get x := by
  simp [Map.get_erase, h]

theorem destroy_FU (w : W) (a : String) (ha : w.cfg.owns a = true) :
    FU w (w.destroy a).1 ∧ (w.destroy a).1.F = w.F := by
  unfold W.destroy
  refine ⟨⟨rfl, rfl, ?_⟩, rfl⟩
  intro x hx
  dsimp only
  split
  · have : x ≠ a := by rintro rfl; rw [ha] at hx; exact absurd hx (by simp)
    exact get_erase_other this
  · rfl

theorem tryTempDeletions_go_FU : ∀ (fuel : Nat) (cands : List String) (w : W),
    (∀ c ∈ cands, w.cfg.owns c = true) → FU w (W.tryTempDeletions.go fuel cands w) := by
  intro fuel
  induction fuel with
  | zero => intro cands w _; unfold W.tryTempDeletions.go; exact FU.refl w
  | succ fuel ih =>
    intro cands w hc
    unfold W.tryTempDeletions.go
    cases cands with
    | nil => exact FU.refl w
    | cons c cs =>
      dsimp only
      have hp := popHintD_same w
      generalize popHintD w = r at hp
      obtain ⟨w1, h⟩ := r
      dsimp only at hp ⊢
      have k01 : FU w w1 := ⟨by rw [hp.1], hp.2.2, fun x _ => by rw [hp.2.1]⟩
      split
      · exact FU.trans k01 ⟨rfl, rfl, fun _ _ => rfl⟩
      · rename_i n hpick
        have hmem := pickHint_mem hpick
        have hown : w1.cfg.owns n = true := by rw [hp.2.2]; exact hc n hmem
        have hd := destroy_FU w1 n hown
        generalize w1.destroy n = r2 at hd
        obtain ⟨w2, ok⟩ := r2
        dsimp only at hd ⊢
        split
        · exact FU.trans k01 (FU.trans hd.1 ⟨rfl, rfl, fun _ _ => rfl⟩)
        · refine FU.trans k01 (FU.trans hd.1 (ih _ w2 ?_))
          intro c' hc'
          rw [hd.1.2.1, hp.2.2]
          exact hc c' (mem_sErase hc')

theorem tryTempDeletions_FU (w : W) (hc : CfgOK w.cfg) : FU w w.tryTempDeletions := by
  unfold W.tryTempDeletions
  apply tryTempDeletions_go_FU
  intro c hcm
  have := (List.mem_filter.1 hcm).2
  simp only [Bool.and_eq_true] at this
  exact hc.tempOwned c this.1

theorem applyDeletions_go_FU : ∀ (fuel : Nat) (cands : List String) (w : W),
    (∀ c ∈ cands, w.cfg.owns c = true) → FU w (W.applyDeletions.go fuel cands w).1 := by
  intro fuel
  induction fuel with
  | zero => intro cands w _; unfold W.applyDeletions.go; exact FU.refl w
  | succ fuel ih =>
    intro cands w hc
    unfold W.applyDeletions.go
    cases cands with
    | nil => exact FU.refl w
    | cons c cs =>
      dsimp only
      have hp := popHintD_same w
      generalize popHintD w = r at hp
      obtain ⟨w1, h⟩ := r
      dsimp only at hp ⊢
      have k01 : FU w w1 := ⟨by rw [hp.1], hp.2.2, fun x _ => by rw [hp.2.1]⟩
      split
      · exact FU.trans k01 ⟨rfl, rfl, fun _ _ => rfl⟩
      · rename_i n hpick
        have hmem := pickHint_mem hpick
        have hown : w1.cfg.owns n = true := by rw [hp.2.2]; exact hc n hmem
        have hd := destroy_FU w1 n hown
        generalize w1.destroy n = r2 at hd
        obtain ⟨w2, ok⟩ := r2
        dsimp only at hd ⊢
        split
        · exact FU.trans k01 (FU.trans hd.1 ⟨by simp, rfl, fun _ _ => rfl⟩)
        · refine FU.trans k01 (FU.trans hd.1 (FU.trans (b := { w2 with F := w2.F.markDeleteFailed n })
            ⟨rfl, rfl, fun _ _ => rfl⟩ (ih _ _ ?_)))
          intro c' hc'
          show w2.cfg.owns c' = true
          rw [hd.1.2.1, hp.2.2]
          exact hc c' (mem_sErase hc')

/-- **foreign_untouched (ApplyDeletions)**, given that Felix's view of the dataplane only
contains names it owns (an invariant: names enter the view only through the `OwnsIPSet`
filter of the listing or as main/temporary names written by Felix itself). -/
theorem applyDeletions_FU (w : W) (hP : ∀ n ∈ w.F.dp.keys, w.cfg.owns n = true) : FU w w.applyDeletions.1 := by
  unfold W.applyDeletions
  dsimp only
  have h := applyDeletions_go_FU
    (w.F.pendingDeletions.filter (fun n => !((w.F.dp.get n).getD Meta.zero).deleteFailed)).length
    (w.F.pendingDeletions.filter (fun n => !((w.F.dp.get n).getD Meta.zero).deleteFailed)) w
    (fun c hc => by
      have := (List.mem_filter.1 hc).1
      unfold Felix.pendingDeletions at this
      rw [List.mem_eraseDups] at this
      exact hP c (List.mem_filter.1 this).1)
  generalize W.applyDeletions.go _ _ w = r at h
  obtain ⟨w1, nd⟩ := r
  dsimp only at h ⊢
  split
  · exact h
  · split <;> exact h

/-- **foreign_untouched (ApplyUpdates, whole retry loop)**: for every failure plan, every order
hint and every start state. -/
theorem applyLoop_FU : ∀ (fuel att : Nat) (rerr : Bool) (w : W), CfgOK w.cfg →
    (∀ n, w.F.desired.has n = true → w.cfg.owns n = true) → FU w (W.applyLoop fuel att rerr w).1 := by
  intro fuel
  induction fuel with
  | zero => intro att rerr w _ _; unfold W.applyLoop; exact FU.refl w
  | succ fuel ih =>
    intro att rerr w hc hD
    unfold W.applyLoop
    dsimp only
    have hr : FU w (if (w.F.fullReq || w.F.bgReq || decide (w.F.qLen > 0)) = true then w.tryResync else (w, rerr)).1 := by
      split
      · exact (tryResync_frame w).toFU
      · exact FU.refl w
    generalize (if (w.F.fullReq || w.F.bgReq || decide (w.F.qLen > 0)) = true then w.tryResync else (w, rerr)) = r1 at hr
    obtain ⟨w1, rerr1⟩ := r1
    dsimp only at hr ⊢
    -- the hypotheses travel along FU
    have carry : ∀ {a b : W}, FU a b → CfgOK a.cfg → (∀ n, a.F.desired.has n = true → a.cfg.owns n = true) →
        CfgOK b.cfg ∧ (∀ n, b.F.desired.has n = true → b.cfg.owns n = true) := by
      intro a b h h1 h2
      exact ⟨h.2.1 ▸ h1, fun n hn => by rw [h.2.1]; exact h2 n (h.1 ▸ hn)⟩
    have c1 := carry hr hc hD
    split
    · have c1' : CfgOK ({ w1 with sleeps := w1.sleeps + 1 } : W).cfg ∧
          (∀ n, ({ w1 with sleeps := w1.sleeps + 1 } : W).F.desired.has n = true →
            ({ w1 with sleeps := w1.sleeps + 1 } : W).cfg.owns n = true) := c1
      exact FU.trans hr (FU.trans (b := { w1 with sleeps := w1.sleeps + 1 }) ⟨rfl, rfl, fun _ _ => rfl⟩
        (ih _ _ _ c1'.1 c1'.2))
    · have h2 := tryTempDeletions_FU w1 c1.1
      have c2 := carry h2 c1.1 c1.2
      have h3 := tryUpdates_FU w1.tryTempDeletions c2.1 c2.2
      generalize w1.tryTempDeletions.tryUpdates w1.tryTempDeletions.F.dirtyForUpdate = r3 at h3
      obtain ⟨w3, uerr⟩ := r3
      dsimp only at h3 ⊢
      have h13 := FU.trans hr (FU.trans h2 h3)
      split
      · exact h13
      · have h4 : FU w3 (if (uerr && !decide (att < 5)) = true then { w3 with F := { w3.F with fullReq := true } } else w3) := by
          split
          · exact ⟨rfl, rfl, fun _ _ => rfl⟩
          · exact FU.refl _
        generalize (if (uerr && !decide (att < 5)) = true then ({ w3 with F := { w3.F with fullReq := true } } : W) else w3) = w4 at h4
        have h14 := FU.trans h13 h4
        have c4 := carry h14 hc hD
        split
        · have c4' : CfgOK ({ w4 with sleeps := w4.sleeps + 1 } : W).cfg ∧
              (∀ n, ({ w4 with sleeps := w4.sleeps + 1 } : W).F.desired.has n = true →
                ({ w4 with sleeps := w4.sleeps + 1 } : W).cfg.owns n = true) := c4
          exact FU.trans h14 (FU.trans (b := { w4 with sleeps := w4.sleeps + 1 }) ⟨rfl, rfl, fun _ _ => rfl⟩
            (ih _ _ _ c4'.1 c4'.2))
        · exact FU.trans h14 ⟨rfl, rfl, fun _ _ => rfl⟩

theorem applyUpdates_FU (w : W) (hc : CfgOK w.cfg)
    (hD : ∀ n, w.F.desired.has n = true → w.cfg.owns n = true) : FU w w.applyUpdates.1 := by
  unfold W.applyUpdates
  have h := applyLoop_FU 10 0 false w hc hD
  generalize W.applyLoop 10 0 false w = r at h
  obtain ⟨w1, ok⟩ := r
  dsimp only at h ⊢
  split
  · exact h
  · exact FU.trans h ⟨rfl, rfl, fun _ _ => rfl⟩

end CalicoVerif.C16
