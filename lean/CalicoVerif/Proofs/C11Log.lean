import CalicoVerif.Proofs.C11Step3
import CalicoVerif.Proofs.C11Guard
import Mathlib.Tactic.IntervalCases
/-!
C11 — the state-writing fragments of `writeEndOfRule`: the `log` action (sets
`FlagLogPacket` in `state->flags`) and `writeRecordRuleID` (flow-log rule-hit
recording).  Both keep the builder's invariant: they write only outside the
packet fields and leave the host bits of the flags alone.
-/
namespace CalicoVerif.C11

theorem writeAt_getElem?_lt {α : Type} (l : List α) (off : Nat) (bs : List α) (j : Nat) (hj : j < off)
    (h : off + bs.length ≤ l.length) : (writeAt l off bs)[j]? = l[j]? := by
  unfold writeAt
  rw [List.append_assoc, List.getElem?_append_left (by simp [List.length_take]; omega), List.getElem?_take]
  simp [hj]

theorem writeAt_len {α : Type} (l : List α) (off : Nat) (bs : List α) (h : off + bs.length ≤ l.length) :
    (writeAt l off bs).length = l.length := by
  unfold writeAt
  simp only [List.length_append, List.length_take, List.length_drop]; omega

theorem toLE_len (v n : Nat) : (toLE v n).length = n := by
  induction n generalizing v with
  | zero => rfl
  | succ n ih => simp [toLE, ih]

/-- bytes before a write are unchanged, so are fields lying entirely before it -/
theorem fieldN_writeAt_before (l : List Byte) (off : Nat) (bs : List Byte) (k n : Nat) (hk : k + n ≤ off)
    (h : off + bs.length ≤ l.length) : fieldN (writeAt l off bs) k n = fieldN l k n := by
  unfold fieldN
  congr 1
  apply List.ext_getElem?
  intro i
  simp only [List.getElem?_take, List.getElem?_drop]
  by_cases hi : i < n
  · simp only [hi, if_true]
    exact writeAt_getElem?_lt l off bs (k + i) (by omega) h
  · simp only [hi, if_false]

theorem writeAt_getElem?_ge {α : Type} (l : List α) (off : Nat) (bs : List α) (j : Nat) (hj : off + bs.length ≤ j)
    (h : off + bs.length ≤ l.length) : (writeAt l off bs)[j]? = l[j]? := by
  unfold writeAt
  have h1 : (l.take off ++ bs).length = off + bs.length := by simp [List.length_take]; omega
  rw [List.getElem?_append_right (by rw [h1]; exact hj), h1, List.getElem?_drop]
  congr 1; omega

/-- fields lying entirely after a write are unchanged -/
theorem fieldN_writeAt_after (l : List Byte) (off : Nat) (bs : List Byte) (k n : Nat) (hk : off + bs.length ≤ k)
    (h : off + bs.length ≤ l.length) : fieldN (writeAt l off bs) k n = fieldN l k n := by
  unfold fieldN
  congr 1
  apply List.ext_getElem?
  intro i
  simp only [List.getElem?_take, List.getElem?_drop]
  by_cases hi : i < n
  · simp only [hi, if_true]
    exact writeAt_getElem?_ge l off bs (k + i) (by omega) h
  · simp only [hi, if_false]

/-- reading back exactly what was written -/
theorem fieldN_writeAt_same (l : List Byte) (off : Nat) (bs : List Byte) (h : off + bs.length ≤ l.length) :
    fieldN (writeAt l off bs) off bs.length = leNat bs := by
  unfold fieldN writeAt
  have h1 : (l.take off).length = off := by simp [List.length_take]; omega
  rw [List.append_assoc, List.drop_left' h1, List.take_left' rfl]

/-- A write that touches no packet field and keeps the host bits of the flags keeps `StSim`. -/
theorem StSim.write {st st' : List Byte} (h : StSim st st') (off : Nat) (bs : List Byte)
    (hr : 105 ≤ off ∧ off + bs.length ≤ 368 ∨ off + bs.length ≤ 8 ∨ 72 ≤ off ∧ off + bs.length ≤ 96)
    : StSim st (writeAt st' off bs) := by
  have hle : off + bs.length ≤ st'.length := by rw [h.len]; omega
  refine ⟨by rw [writeAt_len _ _ _ hle]; exact h.len, ?_, ?_⟩
  · intro j hj
    rw [← h.same j hj]
    unfold Stable at hj
    by_cases hlt : j < off
    · exact writeAt_getElem?_lt st' off bs j hlt hle
    · exact writeAt_getElem?_ge st' off bs j (by omega) hle
  · rw [fieldN_writeAt_after st' off bs 368 8 (by omega) hle]
    exact h.flags

theorem leNat_toLE8 (x : Nat) : leNat (toLE x 8) = x % 18446744073709551616 := by
  simp only [toLE, leNat, BitVec.toNat_ofNat]; omega

/-- Rewriting the flags word with the host bits unchanged keeps `StSim`. -/
theorem StSim.writeFlags {st st' : List Byte} (h : StSim st st') (v : Word)
    (hv : v &&& 12#64 = BitVec.ofNat 64 (fieldN st' 368 8) &&& 12#64) :
    StSim st (writeAt st' 368 (toLE v.toNat 8)) := by
  have hle : 368 + (toLE v.toNat 8).length ≤ st'.length := by rw [h.len, toLE_len]; omega
  refine ⟨by rw [writeAt_len _ _ _ hle]; exact h.len, ?_, ?_⟩
  · intro j hj
    rw [← h.same j hj]
    unfold Stable at hj
    exact writeAt_getElem?_lt st' 368 _ j (by omega) hle
  · have := fieldN_writeAt_same st' 368 (toLE v.toNat 8) hle
    rw [toLE_len] at this
    rw [this, leNat_toLE8]
    have hv' : BitVec.ofNat 64 (v.toNat % 18446744073709551616) = v := by
      apply BitVec.eq_of_toNat_eq
      have := v.isLt
      simp only [BitVec.toNat_ofNat]
      omega
    rw [hv', hv]
    exact h.flags

/-! ### more step lemmas -/

theorem step_orImm64 (env : Env) (m : Mach) (d : Nat) (off imm : Int) (nxt : Option Insn) (v : Word)
    (hd : d < 10) (hv : m.reg d = some v) :
    step env ⟨opOrImm64, d, 0, off, imm⟩ nxt m = .next (m.setReg d (v ||| sext32 imm)) := by
  have hd' : ¬ d ≥ 10 := by omega
  simp [step, opOrImm64, opLoadImm64, hd', alu, hv]

theorem step_shlImm64 (env : Env) (m : Mach) (d : Nat) (off imm : Int) (nxt : Option Insn) (v : Word)
    (hd : d < 10) (hv : m.reg d = some v) :
    step env ⟨opShiftLImm64, d, 0, off, imm⟩ nxt m = .next (m.setReg d (v <<< ((sext32 imm).toNat % 64))) := by
  have hd' : ¬ d ≥ 10 := by omega
  simp [step, opShiftLImm64, opLoadImm64, hd', alu, hv]

theorem step_add64 (env : Env) (m : Mach) (d s : Nat) (off imm : Int) (nxt : Option Insn) (a b : Word)
    (hd : d < 10) (ha : m.reg d = some a) (hb : m.reg s = some b) :
    step env ⟨opAdd64, d, s, off, imm⟩ nxt m = .next (m.setReg d (a + b)) := by
  have hd' : ¬ d ≥ 10 := by omega
  simp [step, opAdd64, opLoadImm64, hd', alu, ha, hb]

/-- `LoadImm64` of a plain 64-bit immediate. -/
theorem lrun_loadImm64 (env : Env) (m : Mach) (d : Nat) (v : Nat) (r : List Ev) (hd : d < 10) :
    lrun env (loadImm64 d v ++ r) m =
      lrun env r (m.setReg d (imm32 (toInt32 (v / 4294967296)) ++ imm32 (toInt32 v) : BitVec 64)) := by
  unfold loadImm64 mk
  refine lrun_ins_next2 ?_
  simp [step, opLoadImm64, opLoadImm64Pt2, hd]

/-- STX of 1/4/8 bytes to the state through any register holding a state address. -/
theorem step_stx_state_at {env : Env} {m : Mach} (op d v : Nat) (off imm : Int) (k n : Nat) (nxt : Option Insn)
    (p x : Word) (hop : (op = opStoreReg8 ∧ n = 1) ∨ (op = opStoreReg32 ∧ n = 4) ∨ (op = opStoreReg64 ∧ n = 8))
    (hp : m.reg d = some p) (hx : m.reg v = some x)
    (ha : p + BitVec.ofInt 64 off = stateW + BitVec.ofNat 64 k) (hk : k + n ≤ 512) :
    step env ⟨op, d, v, off, imm⟩ nxt m = .next { m with st := writeAt m.st k (toLE x.toNat n) } := by
  have hr := region_state k n hk
  rcases hop with ⟨rfl, rfl⟩ | ⟨rfl, rfl⟩ | ⟨rfl, rfl⟩ <;>
    simp [step, opStoreReg8, opStoreReg16, opStoreReg32, opStoreReg64, opLoadImm64, hp, hx, Mach.store, ha, hr]

theorem or1024_and12 (v : BitVec 64) : (v ||| 1024#64) &&& 12#64 = v &&& 12#64 := by
  ext i hi
  simp only [BitVec.getElem_and, BitVec.getElem_or]
  interval_cases i <;> simp

/-- The instructions of a `log` rule's action. -/
def logEvs : List Ev :=
  [load64 R1 R9 stateOffFlags, orImm64 R1 flagLogPacket, store64 R9 R1 stateOffFlags]

theorem Inv.setSt {st : List Byte} {m : Mach} (h : Inv st m) (s' : List Byte) (hs : StSim st s') :
    Inv st { m with st := s' } :=
  { r6 := h.r6, r9 := h.r9, r10 := h.r10, regsLen := h.regsLen, sim := hs, stLen := h.stLen }

/-- The `log` action: sets bit 10 of the flags, falls through, keeps the invariant. -/
theorem decides_log (env : Env) (st : List Byte) : Decides env st logEvs none := by
  intro rest m hI
  have rl : ∀ {mm : Mach}, Inv st mm → 1 < mm.regs.length := fun h => by rw [h.regsLen]; omega
  have e1 := fun nxt => step_ldx_state_raw (env := env) hI.r9 hI.sim.len opLoadReg64 1 368 8 0 nxt
    (Or.inr (Or.inr (Or.inr ⟨rfl, rfl⟩))) (by omega) (by omega)
  have hI1 := hI.setReg 1 (BitVec.ofNat 64 (fieldN m.st 368 8)) (by omega) (by omega) (by omega)
  have e2 := fun nxt => step_orImm64 env (m.setReg 1 (BitVec.ofNat 64 (fieldN m.st 368 8))) 1 0 1024 nxt _ (by omega)
    (reg_setReg_eq (rl hI))
  have hI2 := hI1.setReg 1 (BitVec.ofNat 64 (fieldN m.st 368 8) ||| sext32 1024) (by omega) (by omega) (by omega)
  have e3 := fun nxt => step_stx_state_at (env := env)
    (m := (m.setReg 1 (BitVec.ofNat 64 (fieldN m.st 368 8))).setReg 1 (BitVec.ofNat 64 (fieldN m.st 368 8) ||| sext32 1024))
    opStoreReg64 9 1 368 0 368 8 nxt stateW (BitVec.ofNat 64 (fieldN m.st 368 8) ||| sext32 1024)
    (Or.inr (Or.inr ⟨rfl, rfl⟩)) hI2.r9 (reg_setReg_eq (rl hI1)) rfl (by omega)
  have h1024 : sext32 1024 = 1024#64 := by decide
  have hsim : StSim st (writeAt m.st 368 (toLE (BitVec.ofNat 64 (fieldN m.st 368 8) ||| sext32 1024).toNat 8)) := by
    apply hI.sim.writeFlags
    rw [h1024, or1024_and12]
  refine ⟨_, hI2.setSt _ hsim, ?_⟩
  simp only [logEvs, load64, orImm64, store64, mk, R1, R9, stateOffFlags, stateEventHdrSize, flagLogPacket,
    List.cons_append, List.nil_append]
  refine (lrun_ins_next (e1 _)).trans ?_
  refine (lrun_ins_next (e2 _)).trans ?_
  exact lrun_ins_next (e3 _)

theorem cond_ge_nat {x k : Nat} (hx : x < 2 ^ 64) (hk : k < 2 ^ 64) :
    cond 3 (BitVec.ofNat 64 x) (sext32 (k : Int)) = some (decide (k ≤ x)) := by
  rw [sext32_nat]
  simp only [cond, BitVec.ule, BitVec.toNat_ofNat, Nat.mod_eq_of_lt hx, Nat.mod_eq_of_lt hk]

theorem labelsOf_record (id : Nat) (skip : Label) : labelsOf (recordRuleID id skip) = [] := by
  simp [recordRuleID, loadImm64, labelsOf, load8, jumpGEImm64, mov64, addImm64, store8, shiftLImm64, add64, store64, mk, mkJ]

theorem shl3 (h : Nat) (hh : h < 32) : BitVec.ofNat 64 h <<< 3 = BitVec.ofNat 64 (h * 8) := by
  apply BitVec.eq_of_toNat_eq
  simp only [BitVec.toNat_shiftLeft, BitVec.toNat_ofNat, Nat.shiftLeft_eq]
  have e1 : h % 2 ^ 64 = h := Nat.mod_eq_of_lt (by omega)
  rw [e1]

/-- The address computed for the rule-id slot. -/
theorem record_addr (h : Nat) (hh : h < 32) :
    ((BitVec.ofNat 64 h <<< ((sext32 3).toNat % 64)) + sext32 112 + stateW) + BitVec.ofInt 64 0 =
      stateW + BitVec.ofNat 64 (h * 8 + 112) := by
  have s3 : (sext32 3).toNat % 64 = 3 := by decide
  have s112 : sext32 112 = BitVec.ofNat 64 112 := by decide
  have s0 : BitVec.ofInt 64 0 = 0#64 := by decide
  rw [s3, s112, s0, shl3 h hh, BitVec.add_zero, ← BitVec.ofNat_add, BitVec.add_comm]

/-- `writeRecordRuleID`: either the hit table is full and control jumps to `skip`, or the rule id
is recorded and control falls through; the invariant holds either way. -/
theorem lrun_record (env : Env) (st : List Byte) (id : Nat) (skip : Label) (rest : List Ev) (m : Mach)
    (hI : Inv st m) :
    ∃ m', Inv st m' ∧
      (lrun env (recordRuleID id skip ++ rest) m = lrun env rest m' ∨
       lrun env (recordRuleID id skip ++ rest) m = goto env skip rest m') := by
  have rl : ∀ {mm : Mach}, Inv st mm → ∀ r, r < 11 → r < mm.regs.length := fun h r hr => by rw [h.regsLen]; exact hr
  have hh : fieldN m.st 108 1 < 256 := by have := fieldN_lt m.st 108 1; omega
  have e1 := fun nxt => step_ldx_state_raw (env := env) hI.r9 hI.sim.len opLoadReg8 1 108 1 0 nxt
    (Or.inl ⟨rfl, rfl⟩) (by omega) (by omega)
  have hI1 := hI.setReg 1 (BitVec.ofNat 64 (fieldN m.st 108 1)) (by omega) (by omega) (by omega)
  have r1 : (m.setReg 1 (BitVec.ofNat 64 (fieldN m.st 108 1))).reg 1 = some (BitVec.ofNat 64 (fieldN m.st 108 1)) :=
    reg_setReg_eq (rl hI 1 (by omega))
  have ej := step_jcond64 (env := env) (m := m.setReg 1 (BitVec.ofNat 64 (fieldN m.st 108 1))) opJumpGEImm64 1 0 32 none _
    (Or.inr (Or.inr (Or.inl rfl))) r1
  have hc : cond (opJumpGEImm64 / 16) (BitVec.ofNat 64 (fieldN m.st 108 1)) (sext32 32) =
      some (decide (32 ≤ fieldN m.st 108 1)) := by
    have := cond_ge_nat (x := fieldN m.st 108 1) (k := 32) (by omega) (by omega)
    simpa [opJumpGEImm64] using this
  have hshape : recordRuleID id skip ++ rest =
      load8 R1 R9 stateOffRulesHit :: jumpGEImm64 R1 maxRuleIDs skip ::
        ([mov64 R2 R1, addImm64 R2 1, store8 R9 R2 stateOffRulesHit, shiftLImm64 R1 3, addImm64 R1 stateOffRuleIDs] ++
          (loadImm64 R2 id ++ ([add64 R1 R9, store64 R1 R2 0] ++ rest))) := by
    simp [recordRuleID]
  rw [hshape]
  simp only [load8, jumpGEImm64, mk, mkJ, R1, R9, stateOffRulesHit, stateEventHdrSize, maxRuleIDs]
  by_cases hfull : 32 ≤ fieldN m.st 108 1
  · -- table full: jump to the skip label
    refine ⟨_, hI1, Or.inr ?_⟩
    refine (lrun_ins_next (e1 _)).trans ?_
    have : (decide (32 ≤ fieldN m.st 108 1)) = true := by simpa using hfull
    rw [hc, this] at ej
    refine (lrun_jmp_taken (by decide) ej).trans ?_
    rw [goto_append _ _ (by simp [labelsOf, mov64, addImm64, store8, shiftLImm64, mk]),
      goto_append _ _ (by simp [labelsOf, loadImm64, mk]),
      goto_append _ _ (by simp [labelsOf, add64, store64, mk])]
  · have hlt : fieldN m.st 108 1 < 32 := by omega
    have : (decide (32 ≤ fieldN m.st 108 1)) = false := by simpa using hfull
    rw [hc, this] at ej
    -- the chain of machines
    have hI2 := hI1.setReg 2 (BitVec.ofNat 64 (fieldN m.st 108 1)) (by omega) (by omega) (by omega)
    have hI3 := hI2.setReg 2 (BitVec.ofNat 64 (fieldN m.st 108 1) + sext32 1) (by omega) (by omega) (by omega)
    have hs4 : StSim st (writeAt m.st 108 (toLE (BitVec.ofNat 64 (fieldN m.st 108 1) + sext32 1).toNat 1)) :=
      hI.sim.write 108 _ (Or.inl ⟨by omega, by rw [toLE_len]; omega⟩)
    have hI4 := hI3.setSt _ hs4
    have hI5 := hI4.setReg 1 (BitVec.ofNat 64 (fieldN m.st 108 1) <<< ((sext32 3).toNat % 64)) (by omega) (by omega) (by omega)
    have hI6 := hI5.setReg 1 (BitVec.ofNat 64 (fieldN m.st 108 1) <<< ((sext32 3).toNat % 64) + sext32 112)
      (by omega) (by omega) (by omega)
    have hI7 := hI6.setReg 2 (imm32 (toInt32 (id / 4294967296)) ++ imm32 (toInt32 id) : BitVec 64) (by omega) (by omega) (by omega)
    have hI8 := hI7.setReg 1 (BitVec.ofNat 64 (fieldN m.st 108 1) <<< ((sext32 3).toNat % 64) + sext32 112 + stateW)
      (by omega) (by omega) (by omega)
    have hs9 : StSim st (writeAt (writeAt m.st 108 (toLE (BitVec.ofNat 64 (fieldN m.st 108 1) + sext32 1).toNat 1))
        (fieldN m.st 108 1 * 8 + 112) (toLE (imm32 (toInt32 (id / 4294967296)) ++ imm32 (toInt32 id) : BitVec 64).toNat 8)) :=
      hs4.write _ _ (Or.inl ⟨by omega, by rw [toLE_len]; omega⟩)
    have hI9 := hI8.setSt _ hs9
    refine ⟨_, hI9, Or.inl ?_⟩
    simp only [mov64, addImm64, store8, shiftLImm64, add64, store64, mk, R1, R2, R9, stateOffRuleIDs, stateOffRulesHit,
      stateEventHdrSize, List.cons_append, List.nil_append]
    refine (lrun_ins_next (e1 _)).trans ?_
    refine (lrun_jmp_next (by decide) ej).trans ?_
    refine (lrun_ins_next (step_mov64 env _ 2 1 0 0 _ _ (by omega) r1)).trans ?_
    refine (lrun_ins_next (step_addImm64 env _ 2 0 1 _ _ (by omega) (reg_setReg_eq (rl hI1 2 (by omega))))).trans ?_
    refine (lrun_ins_next (step_stx_state_at (env := env) opStoreReg8 9 2 108 0 108 1 _ stateW _
      (Or.inl ⟨rfl, rfl⟩) hI3.r9 (reg_setReg_eq (rl hI2 2 (by omega))) rfl (by omega))).trans ?_
    have r1' : ({ ((m.setReg 1 (BitVec.ofNat 64 (fieldN m.st 108 1))).setReg 2 (BitVec.ofNat 64 (fieldN m.st 108 1))).setReg 2
        (BitVec.ofNat 64 (fieldN m.st 108 1) + sext32 1) with
        st := writeAt m.st 108 (toLE (BitVec.ofNat 64 (fieldN m.st 108 1) + sext32 1).toNat 1) } : Mach).reg 1 =
        some (BitVec.ofNat 64 (fieldN m.st 108 1)) := by
      show (((m.setReg 1 (BitVec.ofNat 64 (fieldN m.st 108 1))).setReg 2 (BitVec.ofNat 64 (fieldN m.st 108 1))).setReg 2
        (BitVec.ofNat 64 (fieldN m.st 108 1) + sext32 1)).reg 1 = _
      rw [reg_setReg_ne (by omega), reg_setReg_ne (by omega)]; exact r1
    refine (lrun_ins_next (step_shlImm64 env _ 1 0 3 _ _ (by omega) r1')).trans ?_
    refine (lrun_ins_next (step_addImm64 env _ 1 0 112 _ _ (by omega) (reg_setReg_eq (rl hI4 1 (by omega))))).trans ?_
    refine (lrun_loadImm64 env _ 2 id _ (by omega)).trans ?_
    have r1'' := (reg_setReg_ne (m := ((({ ((m.setReg 1 (BitVec.ofNat 64 (fieldN m.st 108 1))).setReg 2
        (BitVec.ofNat 64 (fieldN m.st 108 1))).setReg 2 (BitVec.ofNat 64 (fieldN m.st 108 1) + sext32 1) with
        st := writeAt m.st 108 (toLE (BitVec.ofNat 64 (fieldN m.st 108 1) + sext32 1).toNat 1) } : Mach).setReg 1
        (BitVec.ofNat 64 (fieldN m.st 108 1) <<< ((sext32 3).toNat % 64))).setReg 1
        (BitVec.ofNat 64 (fieldN m.st 108 1) <<< ((sext32 3).toNat % 64) + sext32 112)))
        (r := 2) (r' := 1) (v := (imm32 (toInt32 (id / 4294967296)) ++ imm32 (toInt32 id) : BitVec 64)) (by omega)).trans
        (reg_setReg_eq (rl hI5 1 (by omega)))
    refine (lrun_ins_next (step_add64 env _ 1 9 0 0 _ _ stateW (by omega) r1'' hI7.r9)).trans ?_
    exact lrun_ins_next (step_stx_state_at (env := env) opStoreReg64 1 2 0 0 (fieldN m.st 108 1 * 8 + 112) 8 _ _ _
      (Or.inr (Or.inr ⟨rfl, rfl⟩)) (reg_setReg_eq (rl hI7 1 (by omega)))
      ((reg_setReg_ne (by omega)).trans (reg_setReg_eq (rl hI6 2 (by omega))))
      (record_addr _ hlt) (by omega))

end CalicoVerif.C11
