import CalicoVerif.Proofs.C06Tokenize
import CalicoVerif.Proofs.C06Parse
/-! C06 helper lemmas: tokenizer on a whole canonical text, then `parse ∘ text`. -/
namespace CalicoVerif.C06

theorem ws_nil : ∀ x ∈ ([] : Str), isWs x = true := by simp
theorem ws_sp : ∀ x ∈ ([' '] : Str), isWs x = true := by simp [isWs]

theorem quoteFor_props (v : Str) : isWs (quoteFor v) = false ∧ identifierChar (quoteFor v) = false := by
  unfold quoteFor; split <;> exact ⟨by decide, by decide⟩

/-- The first character of a well-formed node's text is not `=`. -/
theorem text_head_ne_eq : ∀ t, WF t → ∀ (rest r : Str), t.text ++ rest ≠ '=' :: r := by
  have lab : ∀ {l : Str}, ValidLabel l → ∀ (rest r : Str), l ++ rest ≠ '=' :: r := by
    intro l hl rest r h
    obtain ⟨hne, -, hall⟩ := hl
    cases l with
    | nil => exact hne rfl
    | cons c cs =>
      simp only [List.cons_append, List.cons.injEq] at h
      have := hall c (List.mem_cons_self ..)
      rw [h.1] at this
      revert this; decide
  intro t
  cases t <;> intro h rest r <;>
    simp only [WF] at h <;>
    simp only [Node.text, List.append_assoc, kwHasP, txtAll, txtGlobal, List.cons_append, ne_eq,
      List.cons.injEq, not_and] <;> (try split) <;>
    (try simp only [List.cons_append, ne_eq, List.cons.injEq, not_and]) <;>
    first
      | exact lab h.1 _ r
      | (intro e; exact absurd e (by decide))

/-! the value list of a set literal -/

theorem tkz_quotedTail : ∀ (vs : List Str), (∀ v ∈ vs, QuoteSafe v) → ∀ rest : Str,
    tkz false (quotedTail vs ++ '}' :: rest) = prep (setTailToks vs ++ [.rBrace]) (tkz false rest)
  | [], _, rest => by
    simpa [quotedTail, setTailToks] using tkz_rBrace ws_nil false rest
  | v :: vs, h, rest => by
    have ih := tkz_quotedTail vs (fun w hw => h w (List.mem_cons_of_mem _ hw)) rest
    simp only [quotedTail, setTailToks, List.append_assoc, List.cons_append, List.nil_append]
    rw [show (',' :: ' ' :: (quoted v ++ (quotedTail vs ++ '}' :: rest))) =
        [] ++ ',' :: (' ' :: (quoted v ++ (quotedTail vs ++ '}' :: rest))) from rfl,
      tkz_comma ws_nil,
      show (' ' :: (quoted v ++ (quotedTail vs ++ '}' :: rest))) =
        [' '] ++ quoted v ++ (quotedTail vs ++ '}' :: rest) from rfl,
      tkz_quoted ws_sp false (h v (List.mem_cons_self ..)), ih]
    simp [prep_prep]

theorem tkz_quotedList (vs : List Str) (h : ∀ v ∈ vs, QuoteSafe v) (rest : Str) :
    tkz false (quotedList vs ++ '}' :: rest) = prep (setToks vs ++ [.rBrace]) (tkz false rest) := by
  cases vs with
  | nil => simpa [quotedList, setToks] using tkz_rBrace ws_nil false rest
  | cons v vs =>
    simp only [quotedList, setToks, List.append_assoc, List.cons_append]
    rw [show quoted v ++ (quotedTail vs ++ '}' :: rest) = [] ++ quoted v ++ (quotedTail vs ++ '}' :: rest) from rfl,
      tkz_quoted ws_nil false (h v (List.mem_cons_self ..)),
      tkz_quotedTail vs (fun w hw => h w (List.mem_cons_of_mem _ hw))]
    simp [prep_prep]

/-! label ++ operator ++ literal -/

section leaf
variable {pre : Str} (hpre : ∀ x ∈ pre, isWs x = true) {l v : Str} (hl : ValidLabel l) (hv : QuoteSafe v)
  (rest : Str)
include hpre hl hv

theorem tkz_text_eq : tkz false (pre ++ (Node.eq l v).text ++ rest) =
    prep (toks (.eq l v)) (tkz false rest) := by
  simp only [Node.text, opEq, toks, List.append_assoc, List.cons_append, List.nil_append]
  rw [← List.append_assoc, tkz_label hpre hl,
    show (' ' :: '=' :: '=' :: ' ' :: (quoted v ++ rest)) = [' '] ++ '=' :: '=' :: (' ' :: (quoted v ++ rest)) from rfl,
    tkz_eqeq ws_sp,
    show (' ' :: (quoted v ++ rest)) = [' '] ++ quoted v ++ rest from rfl,
    tkz_quoted ws_sp false hv]
  simp [prep_prep]

theorem tkz_text_ne : tkz false (pre ++ (Node.ne l v).text ++ rest) =
    prep (toks (.ne l v)) (tkz false rest) := by
  simp only [Node.text, opNe, toks, List.append_assoc, List.cons_append, List.nil_append]
  rw [← List.append_assoc, tkz_label hpre hl,
    show (' ' :: '!' :: '=' :: ' ' :: (quoted v ++ rest)) = [' '] ++ '!' :: '=' :: (' ' :: (quoted v ++ rest)) from rfl,
    tkz_ne ws_sp,
    show (' ' :: (quoted v ++ rest)) = [' '] ++ quoted v ++ rest from rfl,
    tkz_quoted ws_sp false hv]
  simp [prep_prep]

theorem tkz_text_contains : tkz false (pre ++ (Node.contains l v).text ++ rest) =
    prep (toks (.contains l v)) (tkz false rest) := by
  simp only [Node.text, opContains, toks, List.append_assoc, List.cons_append, List.nil_append]
  rw [← List.append_assoc, tkz_label hpre hl,
    show (' ' :: 'c' :: 'o' :: 'n' :: 't' :: 'a' :: 'i' :: 'n' :: 's' :: ' ' :: (quoted v ++ rest)) =
      [' '] ++ 'c' :: 'o' :: 'n' :: 't' :: 'a' :: 'i' :: 'n' :: 's' :: ' ' :: (quoted v ++ rest) from rfl,
    tkz_contains ws_sp,
    show (' ' :: (quoted v ++ rest)) = [' '] ++ quoted v ++ rest from rfl,
    tkz_quoted ws_sp false hv]
  simp [prep_prep]

theorem tkz_text_startsWith : tkz false (pre ++ (Node.startsWith l v).text ++ rest) =
    prep (toks (.startsWith l v)) (tkz false rest) := by
  obtain ⟨hq1, hq2⟩ := quoteFor_props v
  simp only [Node.text, opStartsWith, toks, List.append_assoc, List.cons_append, List.nil_append]
  rw [← List.append_assoc, tkz_label hpre hl]
  have : quoted v ++ rest = quoteFor v :: (v ++ [quoteFor v] ++ rest) := by simp [quoted]
  rw [this,
    show (' ' :: 's' :: 't' :: 'a' :: 'r' :: 't' :: 's' :: ' ' :: 'w' :: 'i' :: 't' :: 'h' :: ' ' ::
        quoteFor v :: (v ++ [quoteFor v] ++ rest)) =
      [' '] ++ 's' :: 't' :: 'a' :: 'r' :: 't' :: 's' :: ' ' :: 'w' :: 'i' :: 't' :: 'h' :: ' ' ::
        quoteFor v :: (v ++ [quoteFor v] ++ rest) from rfl,
    tkz_startsWith ws_sp hq1 hq2, ← this,
    show quoted v ++ rest = [] ++ quoted v ++ rest from rfl,
    tkz_quoted ws_nil false hv]
  simp [prep_prep]

theorem tkz_text_endsWith : tkz false (pre ++ (Node.endsWith l v).text ++ rest) =
    prep (toks (.endsWith l v)) (tkz false rest) := by
  obtain ⟨hq1, hq2⟩ := quoteFor_props v
  simp only [Node.text, opEndsWith, toks, List.append_assoc, List.cons_append, List.nil_append]
  rw [← List.append_assoc, tkz_label hpre hl]
  have : quoted v ++ rest = quoteFor v :: (v ++ [quoteFor v] ++ rest) := by simp [quoted]
  rw [this,
    show (' ' :: 'e' :: 'n' :: 'd' :: 's' :: ' ' :: 'w' :: 'i' :: 't' :: 'h' :: ' ' ::
        quoteFor v :: (v ++ [quoteFor v] ++ rest)) =
      [' '] ++ 'e' :: 'n' :: 'd' :: 's' :: ' ' :: 'w' :: 'i' :: 't' :: 'h' :: ' ' ::
        quoteFor v :: (v ++ [quoteFor v] ++ rest) from rfl,
    tkz_endsWith ws_sp hq1 hq2, ← this,
    show quoted v ++ rest = [] ++ quoted v ++ rest from rfl,
    tkz_quoted ws_nil false hv]
  simp [prep_prep]

end leaf

section sets
variable {pre : Str} (hpre : ∀ x ∈ pre, isWs x = true) {l : Str} {vs : List Str} (hl : ValidLabel l)
  (hvs : ∀ v ∈ vs, QuoteSafe v) (rest : Str)
include hpre hl hvs

theorem tkz_text_inSet : tkz false (pre ++ (Node.inSet l vs).text ++ rest) =
    prep (toks (.inSet l vs)) (tkz false rest) := by
  simp only [Node.text, opIn, toks, List.append_assoc, List.cons_append, List.nil_append]
  rw [← List.append_assoc, tkz_label hpre hl,
    show (' ' :: 'i' :: 'n' :: ' ' :: '{' :: (quotedList vs ++ '}' :: rest)) =
      [' '] ++ 'i' :: 'n' :: ' ' :: '{' :: (quotedList vs ++ '}' :: rest) from rfl,
    tkz_in ws_sp,
    show (' ' :: '{' :: (quotedList vs ++ '}' :: rest)) = [' '] ++ '{' :: (quotedList vs ++ '}' :: rest) from rfl,
    tkz_lBrace ws_sp, tkz_quotedList vs hvs]
  simp [prep_prep]

theorem tkz_text_notInSet : tkz false (pre ++ (Node.notInSet l vs).text ++ rest) =
    prep (toks (.notInSet l vs)) (tkz false rest) := by
  simp only [Node.text, opNotIn, toks, List.append_assoc, List.cons_append, List.nil_append]
  rw [← List.append_assoc, tkz_label hpre hl,
    show (' ' :: 'n' :: 'o' :: 't' :: ' ' :: 'i' :: 'n' :: ' ' :: '{' :: (quotedList vs ++ '}' :: rest)) =
      [' '] ++ 'n' :: 'o' :: 't' :: ' ' :: 'i' :: 'n' :: ' ' :: '{' :: (quotedList vs ++ '}' :: rest) from rfl,
    tkz_notIn ws_sp,
    show ('{' :: (quotedList vs ++ '}' :: rest)) = [] ++ '{' :: (quotedList vs ++ '}' :: rest) from rfl,
    tkz_lBrace ws_nil, tkz_quotedList vs hvs]
  simp [prep_prep]

end sets

/-! joined operands -/

theorem tkz_textTail_and (ns : List Node)
    (ih : ∀ n ∈ ns, ∀ (pre rest : Str), (∀ x ∈ pre, isWs x = true) →
      tkz false (pre ++ n.text ++ rest) = prep (toks n) (tkz false rest)) (rest : Str) :
    tkz false (Node.textTail sepAnd ns ++ rest) = prep (tailToks .and ns) (tkz false rest) := by
  induction ns with
  | nil => simp [Node.textTail, tailToks]
  | cons n ns ihl =>
    simp only [Node.textTail, sepAnd, tailToks, List.append_assoc, List.cons_append, List.nil_append]
    rw [show (' ' :: '&' :: '&' :: ' ' :: (n.text ++ (Node.textTail [' ', '&', '&', ' '] ns ++ rest))) =
        [' '] ++ '&' :: '&' :: (' ' :: (n.text ++ (Node.textTail [' ', '&', '&', ' '] ns ++ rest))) from rfl,
      tkz_andand ws_sp,
      show (' ' :: (n.text ++ (Node.textTail [' ', '&', '&', ' '] ns ++ rest))) =
        [' '] ++ n.text ++ (Node.textTail [' ', '&', '&', ' '] ns ++ rest) from rfl,
      ih n (List.mem_cons_self ..) _ _ ws_sp]
    have := ihl (fun m hm => ih m (List.mem_cons_of_mem _ hm))
    simp only [sepAnd] at this
    rw [this]
    simp [prep_prep]

theorem tkz_textTail_or (ns : List Node)
    (ih : ∀ n ∈ ns, ∀ (pre rest : Str), (∀ x ∈ pre, isWs x = true) →
      tkz false (pre ++ n.text ++ rest) = prep (toks n) (tkz false rest)) (rest : Str) :
    tkz false (Node.textTail sepOr ns ++ rest) = prep (tailToks .or ns) (tkz false rest) := by
  induction ns with
  | nil => simp [Node.textTail, tailToks]
  | cons n ns ihl =>
    simp only [Node.textTail, sepOr, tailToks, List.append_assoc, List.cons_append, List.nil_append]
    rw [show (' ' :: '|' :: '|' :: ' ' :: (n.text ++ (Node.textTail [' ', '|', '|', ' '] ns ++ rest))) =
        [' '] ++ '|' :: '|' :: (' ' :: (n.text ++ (Node.textTail [' ', '|', '|', ' '] ns ++ rest))) from rfl,
      tkz_oror ws_sp,
      show (' ' :: (n.text ++ (Node.textTail [' ', '|', '|', ' '] ns ++ rest))) =
        [' '] ++ n.text ++ (Node.textTail [' ', '|', '|', ' '] ns ++ rest) from rfl,
      ih n (List.mem_cons_self ..) _ _ ws_sp]
    have := ihl (fun m hm => ih m (List.mem_cons_of_mem _ hm))
    simp only [sepOr] at this
    rw [this]
    simp [prep_prep]

/-- KEY LEMMA: the tokenizer on (blanks ++) the canonical text of a well-formed
node, followed by anything, yields the node's tokens and carries on with what
follows in the "last token was not a label" state. -/
theorem tkz_text : ∀ t, WF t → ∀ (pre rest : Str), (∀ x ∈ pre, isWs x = true) →
    tkz false (pre ++ t.text ++ rest) = prep (toks t) (tkz false rest) := by
  intro t
  induction t using Node.ind with
  | eq l v => intro h pre rest hpre; exact tkz_text_eq hpre h.1 h.2 rest
  | ne l v => intro h pre rest hpre; exact tkz_text_ne hpre h.1 h.2 rest
  | contains l v => intro h pre rest hpre; exact tkz_text_contains hpre h.1 h.2 rest
  | startsWith l v => intro h pre rest hpre; exact tkz_text_startsWith hpre h.1 h.2 rest
  | endsWith l v => intro h pre rest hpre; exact tkz_text_endsWith hpre h.1 h.2 rest
  | inSet l vs => intro h pre rest hpre; exact tkz_text_inSet hpre h.1 h.2.1 rest
  | notInSet l vs => intro h pre rest hpre; exact tkz_text_notInSet hpre h.1 h.2.1 rest
  | has l =>
    intro h pre rest hpre
    simp only [Node.text, toks, List.append_assoc, List.cons_append, List.nil_append]
    have := tkz_has hpre h rest
    simpa only [List.append_assoc, List.cons_append, List.nil_append] using this
  | all =>
    intro _ pre rest hpre
    simpa only [Node.text, toks] using tkz_all hpre rest
  | global =>
    intro _ pre rest hpre
    simpa only [Node.text, toks] using tkz_global hpre rest
  | not n ih =>
    intro h pre rest hpre
    rw [WF] at h
    by_cases hn : n.isNot = true
    · simp only [Node.text, toks, hn, if_true, List.append_assoc, List.cons_append, List.nil_append]
      rw [tkz_not hpre false (by simp),
        show ('(' :: (n.text ++ ')' :: rest)) = [] ++ '(' :: (n.text ++ ')' :: rest) from rfl,
        tkz_lParen ws_nil]
      have := ih h [] (')' :: rest) ws_nil
      simp only [List.nil_append] at this
      rw [this, show (')' :: rest) = [] ++ ')' :: rest from rfl, tkz_rParen ws_nil]
      simp [prep_prep]
    · simp only [Node.text, toks, hn, Bool.false_eq_true, if_false, List.append_assoc, List.cons_append]
      rw [tkz_not hpre false (text_head_ne_eq n h rest)]
      have := ih h [] rest ws_nil
      simp only [List.nil_append] at this
      rw [this, prep_prep]; rfl
  | and ns ih =>
    intro h pre rest hpre
    simp only [WF, wfList_iff] at h
    have ih' : ∀ n ∈ ns, ∀ (pre rest : Str), (∀ x ∈ pre, isWs x = true) →
        tkz false (pre ++ n.text ++ rest) = prep (toks n) (tkz false rest) :=
      fun n hn => ih n hn (h.2 n hn)
    match ns, h.1, ih' with
    | n :: ns, _, ih' =>
      simp only [Node.text, Node.textJoin, toks, joinToks, List.append_assoc, List.cons_append,
        List.nil_append]
      rw [tkz_lParen hpre]
      have h1 := ih' n (List.mem_cons_self ..) [] (Node.textTail sepAnd ns ++ ')' :: rest) ws_nil
      simp only [List.nil_append, List.append_assoc] at h1
      rw [h1, tkz_textTail_and ns (fun m hm => ih' m (List.mem_cons_of_mem _ hm)),
        show (')' :: rest) = [] ++ ')' :: rest from rfl, tkz_rParen ws_nil]
      simp [prep_prep]
  | or ns ih =>
    intro h pre rest hpre
    simp only [WF, wfList_iff] at h
    have ih' : ∀ n ∈ ns, ∀ (pre rest : Str), (∀ x ∈ pre, isWs x = true) →
        tkz false (pre ++ n.text ++ rest) = prep (toks n) (tkz false rest) :=
      fun n hn => ih n hn (h.2 n hn)
    match ns, h.1, ih' with
    | n :: ns, _, ih' =>
      simp only [Node.text, Node.textJoin, toks, joinToks, List.append_assoc, List.cons_append,
        List.nil_append]
      rw [tkz_lParen hpre]
      have h1 := ih' n (List.mem_cons_self ..) [] (Node.textTail sepOr ns ++ ')' :: rest) ws_nil
      simp only [List.nil_append, List.append_assoc] at h1
      rw [h1, tkz_textTail_or ns (fun m hm => ih' m (List.mem_cons_of_mem _ hm)),
        show (')' :: rest) = [] ++ ')' :: rest from rfl, tkz_rParen ws_nil]
      simp [prep_prep]

/-- `Tokenize(String())`. -/
theorem tokenize_text (t : Node) (h : WF t) : tokenize t.text = .ok (toks t ++ [.eof]) := by
  have := tkz_text t h [] [] ws_nil
  simp only [List.nil_append, List.append_nil] at this
  unfold tokenize
  unfold tkz at this
  rw [this]
  rfl

/-- MAIN: the canonical text of a well-formed node parses back to the node. -/
theorem parse_text (t : Node) (h : WF t) : parse t.text = .ok t := by
  unfold parse
  rw [tokenize_text t h]
  simp only []
  have hne : ∀ r, toks t ++ [Token.eof] ≠ Token.eof :: r := by
    cases t <;> simp only [toks] <;> (try split) <;> simp
  split
  · rename_i r heq; exact absurd heq (hne r)
  · rw [parseOrExpression_toks t h]
    simp

end CalicoVerif.C06
