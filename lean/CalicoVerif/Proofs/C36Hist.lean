import CalicoVerif.Proofs.C36Desc
/-!
C36 helper lemmas, part 5: the plain association-list map and the refinement
of histories (`foldl` of `Update`/`Delete`) to it.
-/
namespace CalicoVerif.C36
variable {W : Nat} {α : Type}
open Node

/-! ### the spec map -/

theorem SMap.find_erase (m : SMap α) (p q : Pfx) :
    (m.erase p).find q = if q = p then none else m.find q := by
  induction m with
  | nil => simp [SMap.erase, SMap.find]
  | cons e m ih =>
    unfold SMap.erase SMap.find at *
    by_cases h1 : e.1 = p
    · by_cases h2 : q = p
      · simp_all
      · have : ¬ e.1 = q := fun h => h2 (h ▸ h1)
        simp_all
    · by_cases h3 : e.1 = q
      · have : ¬ q = p := fun h => h1 (h ▸ h3)
        simp_all
      · simp_all

theorem SMap.find_insert (m : SMap α) (p q : Pfx) (v : α) :
    (m.insert p v).find q = if q = p then some v else m.find q := by
  by_cases h : q = p
  · subst h; simp [SMap.insert, SMap.find]
  · have h' : ¬ p = q := fun e => h e.symm
    have := SMap.find_erase m p q
    unfold SMap.insert SMap.find at *
    simp_all

/-! ### histories -/

theorem foldl_refines (ops : List (Op α)) : ∀ (t : Node α) (m : SMap α), (∀ o ∈ ops, Op.WF W o) → t.Inv W →
    (∀ q w, (q, w) ∈ t.toList ↔ m.find q = some w) →
    (ops.foldl (applyOp W) t).Inv W ∧
      ∀ q w, (q, w) ∈ (ops.foldl (applyOp W) t).toList ↔ (ops.foldl specApply m).find q = some w := by
  induction ops with
  | nil => intro t m _ hi hr; exact ⟨hi, hr⟩
  | cons o ops ih =>
    intro t m hw hi hr
    have hwo : Op.WF W o := hw o (List.mem_cons_self ..)
    have hws : ∀ o' ∈ ops, Op.WF W o' := fun o' h => hw o' (List.mem_cons_of_mem _ h)
    simp only [List.foldl_cons]
    cases o with
    | upd p v =>
      refine ih _ _ hws (update_inv hwo v hi) (fun q w => ?_)
      show (q, w) ∈ (t.update W p v).toList ↔ (m.insert p v).find q = some w
      rw [mem_update hwo v hi, SMap.find_insert, hr]
      by_cases h : q = p
      · simp [h]; exact eq_comm
      · simp [h]
    | del p =>
      have := delete_spec hwo hi
      refine ih _ _ hws this.1 (fun q w => ?_)
      show (q, w) ∈ (t.delete W p).toList ↔ (m.erase p).find q = some w
      rw [this.2, SMap.find_erase, hr]
      by_cases h : q = p
      · simp [h]
      · simp [h]

end CalicoVerif.C36
