import CalicoVerif.Proofs.C36Desc
/-!
C36 helper lemmas, part 5: the plain association-list map and the refinement
of histories (`foldl` of `Update`/`Delete`) to it.
-/
namespace CalicoVerif.C36
variable {W : Nat} {α : Type}
open Node

/-! ### the spec map -/

theorem SMap.find_erase (m : SMap α) (p q : Pfx) :
    (m.erase p).find q = if q = p then none else m.find q := by
  induction m with
  | nil => simp [SMap.erase, SMap.find]
  | cons e m ih =>
    unfold SMap.erase SMap.find at *
    by_cases h1 : e.1 = p
    · by_cases h2 : q = p
      · simp_all
      · have : ¬ e.1 = q := fun h => h2 (h ▸ h1)
        simp_all
    · by_cases h3 : e.1 = q
      · have : ¬ q = p := fun h => h1 (h ▸ h3)
        simp_all
      · simp_all

theorem SMap.find_insert (m : SMap α) (p q : Pfx) (v : α) :
    (m.insert p v).find q = if q = p then some v else m.find q := by
  by_cases h : q = p
  · subst h; simp [SMap.insert, SMap.find]
  · have h' : ¬ p = q := fun e => h e.symm
    have := SMap.find_erase m p q
    unfold SMap.insert SMap.find at *
    simp_all

/-! ### histories -/

theorem foldl_refines (ops : List (Op α)) : ∀ (t : Node α) (m : SMap α), (∀ o ∈ ops, Op.WF W o) → t.Inv W →
    (∀ q w, (q, w) ∈ t.toList ↔ m.find q = some w) →
    (ops.foldl (applyOp W) t).Inv W ∧
      ∀ q w, (q, w) ∈ (ops.foldl (applyOp W) t).toList ↔ (ops.foldl specApply m).find q = some w := by
  induction ops with
  | nil => intro t m _ hi hr; exact ⟨hi, hr⟩
  | cons o ops ih =>
    intro t m hw hi hr
    have hwo : Op.WF W o := hw o (List.mem_cons_self ..)
    have hws : ∀ o' ∈ ops, Op.WF W o' := fun o' h => hw o' (List.mem_cons_of_mem _ h)
    simp only [List.foldl_cons]
    cases o with
    | upd p v =>
      refine ih _ _ hws (update_inv hwo v hi) (fun q w => ?_)
      show (q, w) ∈ (t.update W p v).toList ↔ (m.insert p v).find q = some w
      rw [mem_update hwo v hi, SMap.find_insert, hr]
      by_cases h : q = p
      · simp [h]; exact eq_comm
      · simp [h]
    | del p =>
      have := delete_spec hwo hi
      refine ih _ _ hws this.1 (fun q w => ?_)
      show (q, w) ∈ (t.delete W p).toList ↔ (m.erase p).find q = some w
      rw [this.2, SMap.find_erase, hr]
      by_cases h : q = p
      · simp [h]
      · simp [h]

/-- Keys of a spec map are distinct. -/
def SMap.KeysNodup (m : SMap α) : Prop := m.Pairwise (fun a b => a.1 ≠ b.1)

theorem SMap.keysNodup_erase {m : SMap α} (h : m.KeysNodup) (p : Pfx) : (m.erase p).KeysNodup :=
  List.Pairwise.filter _ h

theorem SMap.keysNodup_insert {m : SMap α} (h : m.KeysNodup) (p : Pfx) (v : α) : (m.insert p v).KeysNodup := by
  unfold SMap.insert SMap.KeysNodup
  refine List.pairwise_cons.2 ⟨fun e he => ?_, SMap.keysNodup_erase h p⟩
  have := (List.mem_filter.1 he).2
  simp only [ne_eq, decide_not, Bool.not_eq_true', decide_eq_false_iff_not] at this
  exact fun e' => this e'.symm

theorem specRun_keysNodup (ops : List (Op α)) : (specRun ops).KeysNodup := by
  unfold specRun
  suffices h : ∀ (m : SMap α), m.KeysNodup → (ops.foldl specApply m).KeysNodup from h [] List.Pairwise.nil
  induction ops with
  | nil => intro m h; exact h
  | cons o ops ih =>
    intro m h
    simp only [List.foldl_cons]
    cases o with
    | upd p v => exact ih _ (SMap.keysNodup_insert h p v)
    | del p => exact ih _ (SMap.keysNodup_erase h p)

theorem SMap.find_iff_mem : ∀ {m : SMap α}, m.KeysNodup → ∀ {q : Pfx} {w : α}, (m.find q = some w ↔ (q, w) ∈ m)
  | [], _, q, w => by simp [SMap.find]
  | e :: m, h, q, w => by
    have h' := List.pairwise_cons.1 h
    have ih := SMap.find_iff_mem h'.2 (q := q) (w := w)
    unfold SMap.find at ih ⊢
    by_cases he : e.1 = q
    · simp only [List.find?_cons, he, decide_true, Option.map_some, Option.some.injEq, List.mem_cons]
      constructor
      · intro hw; left; rw [← he, ← hw]
      · rintro (e1 | hm)
        · rw [← e1]
        · exact absurd (he ▸ rfl) (h'.1 (q, w) hm)
    · simp only [List.find?_cons, he, decide_false, List.mem_cons]
      rw [ih]
      constructor
      · exact Or.inr
      · rintro (e1 | hm)
        · exact absurd (by rw [← e1]) he
        · exact hm

theorem any_congr_mem {β : Type} {l1 l2 : List β} (f : β → Bool) (h : ∀ x, x ∈ l1 ↔ x ∈ l2) :
    l1.any f = l2.any f := by
  rw [Bool.eq_iff_iff, List.any_eq_true, List.any_eq_true]
  exact ⟨fun ⟨x, hx, hf⟩ => ⟨x, (h x).1 hx, hf⟩, fun ⟨x, hx, hf⟩ => ⟨x, (h x).2 hx, hf⟩⟩

theorem all_congr_mem {β : Type} {l1 l2 : List β} (f : β → Bool) (h : ∀ x, x ∈ l1 ↔ x ∈ l2) :
    l1.all f = l2.all f := by
  rw [Bool.eq_iff_iff, List.all_eq_true, List.all_eq_true]
  exact ⟨fun H x hx => H x ((h x).2 hx), fun H x hx => H x ((h x).1 hx)⟩


theorem closest_congr_mem {l1 l2 : SMap α} (h : ∀ x, x ∈ l1 ↔ x ∈ l2) (q p : Pfx) :
    p ∈ SMap.closest W l1 q ↔ p ∈ SMap.closest W l2 q := by
  unfold SMap.closest
  simp only [List.mem_map, List.mem_filter]
  constructor
  · rintro ⟨e, ⟨he, hc⟩, rfl⟩
    refine ⟨e, ⟨(h e).1 he, ?_⟩, rfl⟩
    rw [← any_congr_mem _ h]; exact hc
  · rintro ⟨e, ⟨he, hc⟩, rfl⟩
    refine ⟨e, ⟨(h e).2 he, ?_⟩, rfl⟩
    rw [any_congr_mem _ h]; exact hc

end CalicoVerif.C36
