import CalicoVerif.Proofs.C31Spec
/-! C31 — helper lemmas. -/
namespace CalicoVerif.C31

/-! ### association lists -/

theorem AMap.get_del_eq {α : Type} (m : AMap α) (k : Nat) : (m.del k).get k = none := by
  induction m with
  | nil => rfl
  | cons kv r ih =>
    obtain ⟨k', v⟩ := kv
    by_cases h : k' = k <;> simp [AMap.del, AMap.get, h, ih]

theorem AMap.get_del_ne {α : Type} (m : AMap α) {k k' : Nat} (h : k' ≠ k) : (m.del k).get k' = m.get k' := by
  induction m with
  | nil => rfl
  | cons kv r ih =>
    obtain ⟨k'', v⟩ := kv
    simp only [AMap.del]
    split
    · next h1 =>
      have : ¬ k'' = k' := by omega
      simp only [AMap.get, this, if_false]; exact ih
    · simp only [AMap.get]; split <;> simp_all

theorem AMap.get_set_eq {α : Type} (m : AMap α) (k : Nat) (v : α) : (m.set k v).get k = some v := by
  simp [AMap.set, AMap.get]

theorem AMap.get_set_ne {α : Type} (m : AMap α) {k k' : Nat} (v : α) (h : k' ≠ k) :
    (m.set k v).get k' = m.get k' := by
  have : ¬ k = k' := fun e => h e.symm
  simp [AMap.set, AMap.get, this, AMap.get_del_ne m h]

theorem AMap.get_set {α : Type} (m : AMap α) (k k' : Nat) (v : α) :
    (m.set k v).get k' = if k' = k then some v else m.get k' := by
  by_cases h : k' = k
  · subst h; simp [AMap.get_set_eq]
  · simp [h, AMap.get_set_ne m v h]

theorem AMap.get_del {α : Type} (m : AMap α) (k k' : Nat) :
    (m.del k).get k' = if k' = k then none else m.get k' := by
  by_cases h : k' = k
  · subst h; simp [AMap.get_del_eq]
  · simp [h, AMap.get_del_ne m h]

theorem AMap.mem_of_get {α : Type} {m : AMap α} {k : Nat} {v : α} (h : m.get k = some v) : (k, v) ∈ m := by
  induction m with
  | nil => simp [AMap.get] at h
  | cons kv r ih =>
    obtain ⟨k', v'⟩ := kv
    by_cases h1 : k' = k
    · simp [AMap.get, h1] at h; subst h1; subst h; simp
    · simp [AMap.get, h1] at h; exact List.mem_cons_of_mem _ (ih h)

theorem AMap.mem_del {α : Type} {m : AMap α} {k : Nat} {kv : Nat × α} (h : kv ∈ m.del k) : kv ∈ m ∧ kv.1 ≠ k := by
  induction m with
  | nil => simp [AMap.del] at h
  | cons kv' r ih =>
    obtain ⟨k', v'⟩ := kv'
    by_cases h1 : k' = k
    · simp [AMap.del, h1] at h
      exact ⟨List.mem_cons_of_mem _ (ih h).1, (ih h).2⟩
    · simp only [AMap.del, h1, if_false, List.mem_cons] at h
      rcases h with h | h
      · subst h; exact ⟨by simp, h1⟩
      · exact ⟨List.mem_cons_of_mem _ (ih h).1, (ih h).2⟩

theorem AMap.mem_del_of {α : Type} {m : AMap α} {k : Nat} {kv : Nat × α} (h : kv ∈ m) (hk : kv.1 ≠ k) : kv ∈ m.del k := by
  induction m with
  | nil => simp at h
  | cons kv' r ih =>
    obtain ⟨k', v'⟩ := kv'
    rcases List.mem_cons.1 h with h | h
    · subst h
      have : ¬ k' = k := hk
      simp [AMap.del, this]
    · by_cases h1 : k' = k
      · simp [AMap.del, h1]; exact ih h
      · simp only [AMap.del, h1, if_false]; exact List.mem_cons_of_mem _ (ih h)

/-- keys are pairwise distinct -/
def AMap.NodupKeys {α : Type} (m : AMap α) : Prop := (m.map (·.1)).Nodup

theorem AMap.get_of_mem {α : Type} {m : AMap α} (hn : m.NodupKeys) {k : Nat} {v : α} (h : (k, v) ∈ m) :
    m.get k = some v := by
  induction m with
  | nil => simp at h
  | cons kv r ih =>
    obtain ⟨k', v'⟩ := kv
    simp only [AMap.NodupKeys, List.map_cons, List.nodup_cons, List.mem_map, not_exists, not_and] at hn
    rcases List.mem_cons.1 h with h | h
    · cases h; simp [AMap.get]
    · have : k' ≠ k := fun e => hn.1 (k, v) h e.symm
      simp only [AMap.get, this, if_false]
      exact ih hn.2 h

theorem AMap.nodupKeys_del {α : Type} {m : AMap α} (hn : m.NodupKeys) (k : Nat) : (m.del k).NodupKeys := by
  induction m with
  | nil => simpa [AMap.del] using hn
  | cons kv r ih =>
    obtain ⟨k', v'⟩ := kv
    simp only [AMap.NodupKeys, List.map_cons, List.nodup_cons, List.mem_map, not_exists, not_and] at hn
    by_cases h1 : k' = k
    · simp only [AMap.del, h1, if_true]; exact ih hn.2
    · simp only [AMap.del, h1, if_false, AMap.NodupKeys, List.map_cons, List.nodup_cons, List.mem_map, not_exists, not_and]
      exact ⟨fun x hx => hn.1 x (AMap.mem_del hx).1, ih hn.2⟩

theorem AMap.nodupKeys_set {α : Type} {m : AMap α} (hn : m.NodupKeys) (k : Nat) (v : α) : (m.set k v).NodupKeys := by
  simp only [AMap.set, AMap.NodupKeys, List.map_cons, List.nodup_cons, List.mem_map, not_exists, not_and]
  exact ⟨fun x hx e => (AMap.mem_del hx).2 e, AMap.nodupKeys_del hn k⟩

/-! ### list sets -/

theorem mem_dedup (xs : List Nat) (x : Nat) : x ∈ dedup xs ↔ x ∈ xs := by
  induction xs with
  | nil => simp [dedup]
  | cons y ys ih =>
    simp only [dedup, List.contains_iff_mem]
    split
    · next h => rw [ih]; constructor
                · exact List.mem_cons_of_mem _
                · intro h'; rcases List.mem_cons.1 h' with rfl | h'
                  · exact h
                  · exact h'
    · simp only [List.mem_cons, ih]

theorem nodup_dedup (xs : List Nat) : (dedup xs).Nodup := by
  induction xs with
  | nil => simp [dedup]
  | cons y ys ih =>
    simp only [dedup, List.contains_iff_mem]
    split
    · exact ih
    · next h => exact List.nodup_cons.2 ⟨by rw [mem_dedup]; exact h, ih⟩

theorem mem_sins (s : List Nat) (x y : Nat) : y ∈ sins s x ↔ y = x ∨ y ∈ s := by
  simp only [sins, List.contains_iff_mem]
  split
  · next h => constructor
              · exact Or.inr
              · rintro (rfl | h')
                · exact h
                · exact h'
  · simp

/-! ### channels -/

def chans (eps : AMap EpInfo) : List Nat := eps.filterMap (fun kv => kv.2.output)

theorem mem_chans {eps : AMap EpInfo} {c : Nat} : c ∈ chans eps ↔ ∃ kv ∈ eps, kv.2.output = some c := by
  simp [chans, List.mem_filterMap]

theorem AMap.del_sublist {α : Type} (m : AMap α) (k : Nat) : (m.del k).Sublist m := by
  induction m with
  | nil => exact List.Sublist.slnil
  | cons kv r ih =>
    obtain ⟨k', v⟩ := kv
    simp only [AMap.del]
    split
    · exact List.Sublist.cons _ ih
    · exact List.Sublist.cons_cons _ ih

theorem chans_del_nodup {eps : AMap EpInfo} (h : (chans eps).Nodup) (w : Nat) : (chans (eps.del w)).Nodup :=
  List.Nodup.sublist (List.Sublist.filterMap _ (AMap.del_sublist eps w)) h

theorem chans_set (eps : AMap EpInfo) (w : Nat) (ei : EpInfo) :
    chans (eps.set w ei) = (match ei.output with | some c => [c] | none => []) ++ chans (eps.del w) := by
  cases h : ei.output <;> simp [chans, AMap.set, List.filterMap_cons, h]

theorem chans_inj {eps : AMap EpInfo} (hc : (chans eps).Nodup) {kv1 kv2 : Nat × EpInfo} {c : Nat}
    (h1 : kv1 ∈ eps) (h2 : kv2 ∈ eps) (o1 : kv1.2.output = some c) (o2 : kv2.2.output = some c)
    (hk : eps.NodupKeys) : kv1 = kv2 := by
  induction eps with
  | nil => simp at h1
  | cons kv r ih =>
    simp only [AMap.NodupKeys, List.map_cons, List.nodup_cons, List.mem_map, not_exists, not_and] at hk
    have hcr : (chans r).Nodup :=
      List.Nodup.sublist (List.Sublist.filterMap _ (List.sublist_cons_self kv r)) hc
    rcases List.mem_cons.1 h1 with e1 | m1 <;> rcases List.mem_cons.1 h2 with e2 | m2
    · rw [e1, e2]
    · exfalso
      subst e1
      have : c ∈ chans r := mem_chans.2 ⟨kv2, m2, o2⟩
      simp [chans, List.filterMap_cons, o1] at hc
      exact hc.1 _ _ m2 o2
    · exfalso
      subst e2
      simp [chans, List.filterMap_cons, o2] at hc
      exact hc.1 _ _ m1 o1
    · exact ih hcr m1 m2 hk.2

end CalicoVerif.C31
