import CalicoVerif.Proofs.C43Inv4
/-!
C43 — the resolver's trie content (pool and block fields) and node table are functions of the
datastore state, whatever the history (for non-overlapping blocks).
-/
namespace CalicoVerif.C43

local macro "triv" : tactic => `(tactic| first | rfl | trivial)

/-! ### association lists built by `aset` have unique keys -/

theorem aset_keys {κ α} [BEq κ] [LawfulBEq κ] (m : List (κ × α)) (k : κ) (v : α) :
    (aset m k v).map Prod.fst = if k ∈ m.map Prod.fst then m.map Prod.fst else m.map Prod.fst ++ [k] := by
  induction m with
  | nil => simp [aset]
  | cons p m ih =>
    obtain ⟨k0, v0⟩ := p
    simp only [aset]
    by_cases h0 : (k0 == k) = true
    · have e : k0 = k := by simpa using h0
      subst e
      simp
    · have hb : (k0 == k) = false := by simpa using h0
      have hne : k0 ≠ k := by intro e; subst e; simp at hb
      simp only [hb, Bool.false_eq_true, if_false, List.map_cons, ih, List.mem_cons]
      by_cases hm : k ∈ m.map Prod.fst
      · simp [hm]
      · simp [hm, Ne.symm hne]

theorem aset_nodup {κ α} [BEq κ] [LawfulBEq κ] (m : List (κ × α)) (k : κ) (v : α)
    (h : (m.map Prod.fst).Nodup) : ((aset m k v).map Prod.fst).Nodup := by
  rw [aset_keys]
  split
  · exact h
  · rename_i hk
    exact List.nodup_append.2 ⟨h, by simp, by
      intro a ha b hb
      simp at hb; subst hb
      intro e; subst e; exact hk ha⟩

theorem mem_aget_of_nodup {κ α} [BEq κ] [LawfulBEq κ] (m : List (κ × α)) (k : κ) (v : α)
    (hn : (m.map Prod.fst).Nodup) (h : (k, v) ∈ m) : aget m k = some v := by
  induction m with
  | nil => simp at h
  | cons p m ih =>
    obtain ⟨k0, v0⟩ := p
    simp only [List.map_cons, List.nodup_cons] at hn
    rcases List.mem_cons.1 h with e | e
    · cases e; simp [aget, List.lookup]
    · have hne : k ≠ k0 := by
        intro e'; subst e'
        exact hn.1 (List.mem_map.2 ⟨(k, v), e, rfl⟩)
      have hb : (k == k0) = false := by simp [hne]
      simp only [aget, List.lookup, hb]
      exact ih hn.2 e

theorem routesFromBlock_nodup (c : Cidr) (aff : Option Nat) (allocs : List (Nat × Option Nat)) :
    ((routesFromBlock c aff allocs).map Prod.fst).Nodup := by
  unfold routesFromBlock
  simp only []
  have hfold : ∀ (m : List (Cidr × Nat)), (m.map Prod.fst).Nodup →
      ((allocs.foldl (fun (m : List (Cidr × Nat)) a =>
        match a.2 with
        | none => m
        | some h => if aff == some h then m else aset m (Cidr.hostOf c.v6 (c.addr + a.1)) h) m).map Prod.fst).Nodup := by
    induction allocs with
    | nil => intro m hm; exact hm
    | cons a as ih =>
      intro m hm
      simp only [List.foldl_cons]
      apply ih
      cases a.2 with
      | none => exact hm
      | some h =>
        simp only []
        split
        · exact hm
        · exact aset_nodup _ _ _ hm
  have h0 := hfold [] (by simp)
  cases aff with
  | none => exact h0
  | some h => exact aset_nodup _ _ _ h0

theorem routesFromBlock_mem (c : Cidr) (aff : Option Nat) (allocs : List (Nat × Option Nat)) (k : Cidr) (n : Nat) :
    (k, n) ∈ routesFromBlock c aff allocs ↔ aget (routesFromBlock c aff allocs) k = some n :=
  ⟨mem_aget_of_nodup _ _ _ (routesFromBlock_nodup c aff allocs), aget_some_mem _ _ _⟩

/-! ### the datastore -/

structure DS where
  nodes : Nat → Option NodeInfo
  pools : Cidr → Option Pool
  blocks : Cidr → Option (Option Nat × List (Nat × Option Nat))

def DS.empty : DS := ⟨fun _ => none, fun _ => none, fun _ => none⟩

/-- the datastore after one more update (last writer wins per key). -/
def DS.apply (d : DS) : Op → DS
  | .node n i => { d with nodes := fun m => if n = m then i else d.nodes m }
  | .pool c p => { d with pools := fun k => if c = k then p else d.pools k }
  | .block c aff al => { d with blocks := fun k => if c = k then some (aff, al) else d.blocks k }
  | .blockDel c => { d with blocks := fun k => if c = k then none else d.blocks k }
  | .wep _ _ _ => d

def dsOf (ops : List Op) : DS := ops.foldl DS.apply DS.empty

/-- the node that block `b` routes `k` to (block-via-host route or a borrowed address). -/
def DS.routeAt (d : DS) (b k : Cidr) : Option Nat :=
  match d.blocks b with
  | some v => aget (routesFromBlock b v.1 v.2) k
  | none => none

/-- IPAM blocks never overlap: no CIDR is routed by two blocks. -/
def DS.Disj (d : DS) : Prop :=
  ∀ b b' k n m, b ≠ b' → d.routeAt b k = some n → d.routeAt b' k = some m → False

/-- the resolver's state is the canonical image of the datastore. -/
structure Canon (s : St) (d : DS) : Prop where
  nodes : ∀ m, aget s.nodes m = d.nodes m
  pools : ∀ k, aget s.pools k = d.pools k
  poolv : ∀ k, (s.view k).pool = d.pools k
  c1 : ∀ b n k, (n, k) ∈ (aget s.blockRoutes b).getD [] ↔ d.routeAt b k = some n
  c2 : ∀ k n, (s.view k).block = some n ↔ ∃ b, d.routeAt b k = some n


/-! ### what each handler does to the canonical parts of the state -/

theorem onNodeUpdate_quiet (s : St) (n0 : Nat) (new : Option NodeInfo) :
    Quiet s (s.onNodeUpdate n0 new) ∧
    (∀ m, aget (s.onNodeUpdate n0 new).nodes m = if n0 = m then new else aget s.nodes m) := by
  unfold St.onNodeUpdate
  simp only []
  by_cases hsame : new = aget s.nodes n0
  · simp only [hsame, if_true]
    refine ⟨Quiet.refl s, fun m => ?_⟩
    by_cases h : n0 = m
    · subst h; simp
    · simp [h]
  simp only [hsame, if_false]
  generalize hold : aget s.nodes n0 = old at hsame ⊢
  obtain ⟨q1, hn1, _⟩ := nodeVisit_quiet s n0 old new
  generalize s.nodeVisit n0 old new = s1 at q1 hn1 ⊢
  obtain ⟨q2, hn2⟩ := nodeRefs_quiet s1 n0 old new
  generalize s1.nodeRefs n0 old new = s2 at q2 hn2 ⊢
  have hold2 : old = aget s2.nodes n0 := by rw [hn2, hn1, hold]
  obtain ⟨q3, hn3⟩ := nodeHosts_quiet s2 n0 old new hold2
  generalize s2.nodeHosts n0 old new = s3 at q3 hn3 ⊢
  obtain ⟨q4, hn4, _⟩ := markAll_quiet s3 n0
  refine ⟨((q1.trans q2).trans q3).trans q4, fun m => ?_⟩
  rw [hn4, hn3 m, hn2, hn1]

theorem onPoolUpdate_facts (s : St) (c : Cidr) (p : Option Pool)
    (hpv : (s.view c).pool = aget s.pools c) :
    let s' := s.onPoolUpdate c p
    s'.nodes = s.nodes ∧ s'.blockRoutes = s.blockRoutes ∧
    (∀ k, (s'.view k).block = (s.view k).block) ∧
    (∀ k, aget s'.pools k = if c = k then p else aget s.pools k) ∧
    (∀ k, (s'.view k).pool = if c = k then p else (s.view k).pool) := by
  unfold St.onPoolUpdate
  cases p with
  | some p =>
    simp only []
    have hE := Edit.updatePool c p
    refine ⟨hE.nodes _, hE.br _, fun k => ?_, fun k => ?_, fun k => ?_⟩
    · rw [hE.view _ k]
      by_cases h : c = k
      · subst h; simp only [if_true]; exact congrArg RouteInfo.block (view_congr s _ rfl c)
      · simp only [h, if_false]; exact congrArg RouteInfo.block (view_congr s _ rfl k)
    · rw [hE.pools _]; show aget (aset s.pools c p) k = _; rw [aget_aset]
    · rw [hE.view _ k]
      by_cases h : c = k
      · simp [h]
      · simp only [h, if_false]; exact congrArg RouteInfo.pool (view_congr s _ rfl k)
  | none =>
    simp only []
    cases hp : aget s.pools c with
    | none =>
      simp only []
      refine ⟨by triv, by triv, fun _ => by triv, fun k => ?_, fun k => ?_⟩
      · by_cases h : c = k
        · subst h; simp [hp]
        · simp [h]
      · by_cases h : c = k
        · subst h; simp only [if_true]; rw [hpv, hp]
        · simp [h]
    | some _ =>
      simp only []
      have hE := Edit.removePool c
      refine ⟨hE.nodes _, hE.br _, fun k => ?_, fun k => ?_, fun k => ?_⟩
      · rw [hE.view _ k]
        by_cases h : c = k
        · subst h; simp only [if_true]; exact congrArg RouteInfo.block (view_congr s _ rfl c)
        · simp only [h, if_false]; exact congrArg RouteInfo.block (view_congr s _ rfl k)
      · rw [hE.pools _]; show aget (adel s.pools c) k = _; rw [aget_adel]
      · rw [hE.view _ k]
        by_cases h : c = k
        · simp [h]
        · simp only [h, if_false]; exact congrArg RouteInfo.pool (view_congr s _ rfl k)

/-- the canonical parts a block handler stage leaves alone, and what it does to the block field. -/
structure BlkStage (s s' : St) (f : Cidr → Option Nat → Option Nat) : Prop where
  nodes : s'.nodes = s.nodes
  pools : s'.pools = s.pools
  br : s'.blockRoutes = s.blockRoutes
  poolv : ∀ k, (s'.view k).pool = (s.view k).pool
  block : ∀ k, (s'.view k).block = f k (s.view k).block

theorem delBody_stage (s : St) (r : Nat × Cidr) :
    BlkStage s ({ s.removeBlockRoute r.2 with nodeRoutes := nrRemove (s.removeBlockRoute r.2).nodeRoutes r })
      (fun k b => if r.2 = k then none else b) := by
  have hE := Edit.removeBlockRoute r.2
  have hv : ∀ k, ({ s.removeBlockRoute r.2 with nodeRoutes := nrRemove (s.removeBlockRoute r.2).nodeRoutes r } : St).view k
      = if r.2 = k then { s.view r.2 with block := none } else s.view k :=
    fun k => (view_congr (s.removeBlockRoute r.2) _ rfl k).trans (hE.view s k)
  refine ⟨hE.nodes s, hE.pools s, hE.br s, fun k => ?_, fun k => ?_⟩
  · rw [hv]; by_cases h : r.2 = k
    · simp [h]
    · simp [h]
  · rw [hv]; by_cases h : r.2 = k
    · simp [h]
    · simp [h]

theorem addBody_stage (s : St) (r : Nat × Cidr) :
    BlkStage s ({ s.updateBlockRoute r.2 r.1 with nodeRoutes := nrAdd (s.updateBlockRoute r.2 r.1).nodeRoutes r })
      (fun k b => if r.2 = k then some r.1 else b) := by
  have hE := Edit.updateBlockRoute r.2 r.1
  have hv : ∀ k, ({ s.updateBlockRoute r.2 r.1 with nodeRoutes := nrAdd (s.updateBlockRoute r.2 r.1).nodeRoutes r } : St).view k
      = if r.2 = k then { s.view r.2 with block := some r.1 } else s.view k :=
    fun k => (view_congr (s.updateBlockRoute r.2 r.1) _ rfl k).trans (hE.view s k)
  refine ⟨hE.nodes s, hE.pools s, hE.br s, fun k => ?_, fun k => ?_⟩
  · rw [hv]; by_cases h : r.2 = k
    · simp [h]
    · simp [h]
  · rw [hv]; by_cases h : r.2 = k
    · simp [h]
    · simp [h]

/-- a run of delete steps clears the block field at exactly their destinations. -/
theorem delFold_stage (body : St → Nat × Cidr → St)
    (hb : ∀ s r, BlkStage s (body s r) (fun k b => if r.2 = k then none else b)) (D : List (Nat × Cidr)) (s : St) :
    BlkStage s (D.foldl body s) (fun k b => if k ∈ D.map Prod.snd then none else b) := by
  induction D generalizing s with
  | nil => exact ⟨rfl, rfl, rfl, fun _ => rfl, fun k => by simp⟩
  | cons r D ih =>
    have h1 := hb s r
    have h2 := ih (body s r)
    simp only [List.foldl_cons]
    refine ⟨h2.nodes.trans h1.nodes, h2.pools.trans h1.pools, h2.br.trans h1.br,
      fun k => (h2.poolv k).trans (h1.poolv k), fun k => ?_⟩
    rw [h2.block k, h1.block k]
    by_cases hk : r.2 = k
    · simp [hk]
    · have hk' : ¬ k = r.2 := fun e => hk e.symm
      simp only [hk, if_false, List.map_cons, List.mem_cons, hk', false_or]

/-- a run of add steps: untouched destinations keep their block, the others get the node of one of
the added routes. -/
theorem addFold_block (body : St → Nat × Cidr → St)
    (hb : ∀ s r, BlkStage s (body s r) (fun k b => if r.2 = k then some r.1 else b)) (A : List (Nat × Cidr)) (s : St) :
    (A.foldl body s).nodes = s.nodes ∧ (A.foldl body s).pools = s.pools ∧
    (A.foldl body s).blockRoutes = s.blockRoutes ∧
    (∀ k, ((A.foldl body s).view k).pool = (s.view k).pool) ∧
    (∀ k, (k ∉ A.map Prod.snd → ((A.foldl body s).view k).block = (s.view k).block) ∧
          (k ∈ A.map Prod.snd → ∃ n, (n, k) ∈ A ∧ ((A.foldl body s).view k).block = some n)) := by
  induction A generalizing s with
  | nil => exact ⟨rfl, rfl, rfl, fun _ => rfl, fun k => ⟨fun _ => rfl, fun h => by simp at h⟩⟩
  | cons r A ih =>
    have h1 := hb s r
    obtain ⟨i1, i2, i3, i4, i5⟩ := ih (body s r)
    simp only [List.foldl_cons]
    refine ⟨i1.trans h1.nodes, i2.trans h1.pools, i3.trans h1.br, fun k => (i4 k).trans (h1.poolv k), fun k => ?_⟩
    obtain ⟨j1, j2⟩ := i5 k
    constructor
    · intro hk
      have hk1 : r.2 ≠ k := by intro e; exact hk (by simp [e])
      have hk2 : k ∉ A.map Prod.snd := by intro e; exact hk (by simp only [List.map_cons, List.mem_cons]; exact Or.inr e)
      rw [j1 hk2, h1.block k]; simp [hk1]
    · intro hk
      by_cases hkA : k ∈ A.map Prod.snd
      · obtain ⟨n, hn, hbn⟩ := j2 hkA
        exact ⟨n, List.mem_cons_of_mem _ hn, hbn⟩
      · have hrk : r.2 = k := by
          simp only [List.map_cons, List.mem_cons] at hk
          rcases hk with e | e
          · exact e.symm
          · exact absurd e hkA
        refine ⟨r.1, by rw [← hrk]; exact List.mem_cons_self, ?_⟩
        rw [j1 hkA, h1.block k]; simp [hrk]


theorem mem_snd {L : List (Nat × Cidr)} {k : Cidr} : k ∈ L.map Prod.snd ↔ ∃ n, (n, k) ∈ L := by
  constructor
  · intro h
    obtain ⟨r, hr, rfl⟩ := List.mem_map.1 h
    exact ⟨r.1, hr⟩
  · rintro ⟨n, hn⟩
    exact List.mem_map.2 ⟨(n, k), hn, rfl⟩

/-! ### `Canon` is preserved -/

theorem routeAt_node (d : DS) (n : Nat) (i : Option NodeInfo) (b k : Cidr) :
    (d.apply (.node n i)).routeAt b k = d.routeAt b k := rfl

theorem routeAt_pool (d : DS) (c : Cidr) (p : Option Pool) (b k : Cidr) :
    (d.apply (.pool c p)).routeAt b k = d.routeAt b k := rfl

theorem canon_node (s : St) (d : DS) (n : Nat) (i : Option NodeInfo) (h : Canon s d) :
    Canon (s.onNodeUpdate n i) (d.apply (.node n i)) := by
  obtain ⟨Q, hn⟩ := onNodeUpdate_quiet s n i
  refine ⟨fun m => ?_, fun k => ?_, fun k => ?_, fun b n' k => ?_, fun k n' => ?_⟩
  · rw [hn m]; show _ = if n = m then i else d.nodes m
    by_cases e : n = m
    · simp [e]
    · simp only [e, if_false]; exact h.nodes m
  · rw [Q.pools]; exact h.pools k
  · rw [(Q.pb k).1]; exact h.poolv k
  · rw [Q.br]; exact h.c1 b n' k
  · rw [(Q.pb k).2]; exact h.c2 k n'

theorem canon_pool (s : St) (d : DS) (c : Cidr) (p : Option Pool) (h : Canon s d) :
    Canon (s.onPoolUpdate c p) (d.apply (.pool c p)) := by
  obtain ⟨f1, f2, f3, f4, f5⟩ := onPoolUpdate_facts s c p ((h.poolv c).trans (h.pools c).symm)
  refine ⟨fun m => ?_, fun k => ?_, fun k => ?_, fun b n' k => ?_, fun k n' => ?_⟩
  · rw [f1]; exact h.nodes m
  · rw [f4 k]; show _ = if c = k then p else d.pools k
    by_cases e : c = k
    · simp [e]
    · simp only [e, if_false]; exact h.pools k
  · rw [f5 k]; show _ = if c = k then p else d.pools k
    by_cases e : c = k
    · simp [e]
    · simp only [e, if_false]; exact h.poolv k
  · rw [f2]; exact h.c1 b n' k
  · rw [f3 k]; exact h.c2 k n'

theorem routeAt_block_self (d : DS) (b : Cidr) (aff : Option Nat) (al : List (Nat × Option Nat)) (k : Cidr) :
    (d.apply (.block b aff al)).routeAt b k = aget (routesFromBlock b aff al) k := by
  simp [DS.apply, DS.routeAt]

theorem routeAt_block_other (d : DS) (b b0 : Cidr) (aff : Option Nat) (al : List (Nat × Option Nat)) (k : Cidr)
    (hne : b ≠ b0) : (d.apply (.block b aff al)).routeAt b0 k = d.routeAt b0 k := by
  simp [DS.apply, DS.routeAt, hne]

theorem canon_block (s : St) (d : DS) (b : Cidr) (aff : Option Nat) (al : List (Nat × Option Nat))
    (h : Canon s d) (hd : d.Disj) (hd' : (d.apply (.block b aff al)).Disj) :
    Canon (s.onBlockUpdate b aff al) (d.apply (.block b aff al)) := by
  unfold St.onBlockUpdate
  simp only []
  generalize hnew : routesFromBlock b aff al = new
  generalize hcached : (aget s.blockRoutes b).getD [] = cached
  generalize hD : cached.filter (fun r => !(aget new r.2 == some r.1)) = D
  generalize hkept : cached.filter (fun r => aget new r.2 == some r.1) = kept
  generalize hA : (new.map (fun r => (r.2, r.1))).filter (fun r => !kept.contains r) = A
  -- membership characterisations
  have mcached : ∀ n k, (n, k) ∈ cached ↔ d.routeAt b k = some n := by
    intro n k; rw [← hcached]; exact h.c1 b n k
  have mkept : ∀ n k, (n, k) ∈ kept ↔ (n, k) ∈ cached ∧ aget new k = some n := by
    intro n k; rw [← hkept]; simp [List.mem_filter]
  have mD : ∀ n k, (n, k) ∈ D ↔ (n, k) ∈ cached ∧ aget new k ≠ some n := by
    intro n k; rw [← hD]; simp [List.mem_filter]
  have mA : ∀ n k, (n, k) ∈ A ↔ aget new k = some n ∧ (n, k) ∉ kept := by
    intro n k
    rw [← hA, List.mem_filter]
    have : (n, k) ∈ new.map (fun r => (r.2, r.1)) ↔ (k, n) ∈ new := by
      constructor
      · intro hm; obtain ⟨x, hx, e⟩ := List.mem_map.1 hm
        cases x; simp at e; obtain ⟨rfl, rfl⟩ := e; exact hx
      · intro hm; exact List.mem_map.2 ⟨(k, n), hm, rfl⟩
    rw [this, ← hnew, routesFromBlock_mem]
    simp
  -- the three stages
  have st0 : ∀ k, ({ s with blockRoutes := aset s.blockRoutes b (kept ++ A) } : St).view k = s.view k :=
    fun k => view_congr s _ rfl k
  have stD := delFold_stage (fun (s : St) r => ({ s.removeBlockRoute r.2 with
      nodeRoutes := nrRemove (s.removeBlockRoute r.2).nodeRoutes r } : St)) (fun s r => delBody_stage s r) D
      ({ s with blockRoutes := aset s.blockRoutes b (kept ++ A) } : St)
  generalize hs1 : D.foldl (fun (s : St) r => ({ s.removeBlockRoute r.2 with
      nodeRoutes := nrRemove (s.removeBlockRoute r.2).nodeRoutes r } : St))
      ({ s with blockRoutes := aset s.blockRoutes b (kept ++ A) } : St) = s1 at stD
  obtain ⟨a1, a2, a3, a4, a5⟩ := addFold_block (fun (s : St) r => ({ s.updateBlockRoute r.2 r.1 with
      nodeRoutes := nrAdd (s.updateBlockRoute r.2 r.1).nodeRoutes r } : St)) (fun s r => addBody_stage s r) A s1
  show Canon (A.foldl (fun (s : St) r => ({ s.updateBlockRoute r.2 r.1 with
      nodeRoutes := nrAdd (s.updateBlockRoute r.2 r.1).nodeRoutes r } : St)) s1) _
  generalize A.foldl (fun (s : St) r => ({ s.updateBlockRoute r.2 r.1 with
      nodeRoutes := nrAdd (s.updateBlockRoute r.2 r.1).nodeRoutes r } : St)) s1 = s2 at a1 a2 a3 a4 a5
  have hbr : s2.blockRoutes = aset s.blockRoutes b (kept ++ A) := a3.trans stD.br
  have hblock1 : ∀ k, (s1.view k).block = if k ∈ D.map Prod.snd then none else (s.view k).block := by
    intro k; rw [stD.block k, st0 k]
  refine ⟨fun m => ?_, fun k => ?_, fun k => ?_, fun b0 n k => ?_, fun k n => ?_⟩
  · rw [a1, stD.nodes]; exact h.nodes m
  · rw [a2, stD.pools]; exact h.pools k
  · rw [a4 k, stD.poolv k, st0 k]; exact h.poolv k
  · -- c1
    rw [hbr, aget_aset]
    by_cases hb0 : b = b0
    · subst hb0
      simp only [if_true, Option.getD_some]
      rw [routeAt_block_self, hnew, List.mem_append, mkept, mA]
      constructor
      · rintro (⟨_, h2⟩ | ⟨h2, _⟩) <;> exact h2
      · intro h2
        by_cases hc : (n, k) ∈ cached
        · exact Or.inl ⟨hc, h2⟩
        · exact Or.inr ⟨h2, fun hk => hc ((mkept n k).1 hk).1⟩
    · simp only [hb0, if_false]
      rw [routeAt_block_other d b b0 aff al k hb0]
      exact h.c1 b0 n k
  · -- c2
    obtain ⟨j1, j2⟩ := a5 k
    by_cases hkA : k ∈ A.map Prod.snd
    · obtain ⟨n', hn', hbn⟩ := j2 hkA
      have hnew' : aget new k = some n' := ((mA n' k).1 hn').1
      rw [hbn]
      constructor
      · intro e; cases e
        exact ⟨b, by rw [routeAt_block_self, hnew]; exact hnew'⟩
      · rintro ⟨b0, hb0⟩
        by_cases e : b = b0
        · subst e
          rw [routeAt_block_self, hnew, hnew'] at hb0
          exact hb0
        · exfalso
          exact hd' b b0 k n' n e (by rw [routeAt_block_self, hnew]; exact hnew') hb0
    · rw [j1 hkA, hblock1 k]
      by_cases hkD : k ∈ D.map Prod.snd
      · simp only [hkD, if_true]
        constructor
        · intro e; cases e
        · rintro ⟨b0, hb0⟩
          exfalso
          obtain ⟨m, hm⟩ := mem_snd.1 hkD
          obtain ⟨hmc, hmn⟩ := (mD m k).1 hm
          by_cases e : b = b0
          · subst e
            rw [routeAt_block_self, hnew] at hb0
            -- (n,k) must be kept (it is not in A), hence cached, but so is (m,k) with m ≠ n
            have hnk : (n, k) ∈ kept := by
              by_cases hk : (n, k) ∈ kept
              · exact hk
              · exact absurd (mem_snd.2 ⟨n, (mA n k).2 ⟨hb0, hk⟩⟩) hkA
            have hnc := ((mkept n k).1 hnk).1
            have e1 := (mcached n k).1 hnc
            have e2 := (mcached m k).1 hmc
            rw [e1] at e2
            cases e2
            exact hmn hb0
          · rw [routeAt_block_other d b b0 aff al k e] at hb0
            exact hd b b0 k m n e ((mcached m k).1 hmc) hb0
      · simp only [hkD, if_false]
        rw [h.c2 k n]
        constructor
        · rintro ⟨b0, hb0⟩
          by_cases e : b = b0
          · subst e
            have hc := (mcached n k).2 hb0
            have hnn : aget new k = some n := by
              by_cases hx : aget new k = some n
              · exact hx
              · exact absurd (mem_snd.2 ⟨n, (mD n k).2 ⟨hc, hx⟩⟩) hkD
            exact ⟨b, by rw [routeAt_block_self, hnew]; exact hnn⟩
          · exact ⟨b0, by rw [routeAt_block_other d b b0 aff al k e]; exact hb0⟩
        · rintro ⟨b0, hb0⟩
          by_cases e : b = b0
          · subst e
            rw [routeAt_block_self, hnew] at hb0
            have hnk : (n, k) ∈ kept := by
              by_cases hk : (n, k) ∈ kept
              · exact hk
              · exact absurd (mem_snd.2 ⟨n, (mA n k).2 ⟨hb0, hk⟩⟩) hkA
            exact ⟨b, (mcached n k).1 ((mkept n k).1 hnk).1⟩
          · rw [routeAt_block_other d b b0 aff al k e] at hb0
            exact ⟨b0, hb0⟩


theorem routeAt_blockDel_self (d : DS) (b k : Cidr) : (d.apply (.blockDel b)).routeAt b k = none := by
  simp [DS.apply, DS.routeAt]

theorem routeAt_blockDel_other (d : DS) (b b0 k : Cidr) (hne : b ≠ b0) :
    (d.apply (.blockDel b)).routeAt b0 k = d.routeAt b0 k := by
  simp [DS.apply, DS.routeAt, hne]

theorem removeBlockRoute_stage (s : St) (r : Nat × Cidr) :
    BlkStage s (s.removeBlockRoute r.2) (fun k b => if r.2 = k then none else b) := by
  have hE := Edit.removeBlockRoute r.2
  refine ⟨hE.nodes s, hE.pools s, hE.br s, fun k => ?_, fun k => ?_⟩
  · rw [hE.view s k]; by_cases h : r.2 = k
    · simp [h]
    · simp [h]
  · rw [hE.view s k]; by_cases h : r.2 = k
    · simp [h]
    · simp [h]

theorem canon_blockDel (s : St) (d : DS) (b : Cidr) (h : Canon s d) (hd : d.Disj) :
    Canon (s.onBlockDelete b) (d.apply (.blockDel b)) := by
  unfold St.onBlockDelete
  simp only []
  generalize hcached : (aget s.blockRoutes b).getD [] = cached
  have mcached : ∀ n k, (n, k) ∈ cached ↔ d.routeAt b k = some n := by
    intro n k; rw [← hcached]; exact h.c1 b n k
  have st := delFold_stage (fun (s : St) r => s.removeBlockRoute r.2) (fun s r => removeBlockRoute_stage s r) cached s
  generalize cached.foldl (fun (s : St) r => s.removeBlockRoute r.2) s = s1 at st
  have hv : ∀ k, ({ s1 with blockRoutes := adel s1.blockRoutes b } : St).view k = s1.view k :=
    fun k => view_congr s1 _ rfl k
  refine ⟨fun m => ?_, fun k => ?_, fun k => ?_, fun b0 n k => ?_, fun k n => ?_⟩
  · show aget s1.nodes m = _; rw [st.nodes]; exact h.nodes m
  · show aget s1.pools k = _; rw [st.pools]; exact h.pools k
  · rw [hv, st.poolv k]; exact h.poolv k
  · show (n, k) ∈ (aget (adel s1.blockRoutes b) b0).getD [] ↔ _
    rw [aget_adel, st.br]
    by_cases e : b = b0
    · subst e; simp [routeAt_blockDel_self]
    · simp only [e, if_false]; rw [routeAt_blockDel_other d b b0 k e]; exact h.c1 b0 n k
  · rw [hv, st.block k]
    by_cases hk : k ∈ cached.map Prod.snd
    · simp only [hk, if_true]
      constructor
      · intro e; cases e
      · rintro ⟨b0, hb0⟩
        exfalso
        obtain ⟨m, hm⟩ := mem_snd.1 hk
        by_cases e : b = b0
        · subst e; rw [routeAt_blockDel_self] at hb0; cases hb0
        · rw [routeAt_blockDel_other d b b0 k e] at hb0
          exact hd b b0 k m n e ((mcached m k).1 hm) hb0
    · simp only [hk, if_false]
      rw [h.c2 k n]
      constructor
      · rintro ⟨b0, hb0⟩
        by_cases e : b = b0
        · subst e; exact absurd (mem_snd.2 ⟨n, (mcached n k).2 hb0⟩) hk
        · exact ⟨b0, by rw [routeAt_blockDel_other d b b0 k e]; exact hb0⟩
      · rintro ⟨b0, hb0⟩
        by_cases e : b = b0
        · subst e; rw [routeAt_blockDel_self] at hb0; cases hb0
        · rw [routeAt_blockDel_other d b b0 k e] at hb0; exact ⟨b0, hb0⟩

/-! ### `flush` touches none of the canonical parts -/

theorem flushOne_rest (s : St) (c : Cidr) :
    (s.flushOne c).1.pools = s.pools ∧ (s.flushOne c).1.blockRoutes = s.blockRoutes := by
  unfold St.flushOne
  cases aget s.trie c with
  | none => exact ⟨rfl, rfl⟩
  | some last =>
    simp only []
    have f := fun b => updateCIDR_facts s c (fun ri => { ri with wasSent := b })
    split
    · exact ⟨(f false).2.2.2.2.1, (f false).2.2.2.1⟩
    · split
      · exact ⟨rfl, rfl⟩
      · exact ⟨(f true).2.2.2.2.1, (f true).2.2.2.1⟩

theorem flushList_rest (cs : List Cidr) (s : St) :
    (flushList s cs).1.pools = s.pools ∧ (flushList s cs).1.blockRoutes = s.blockRoutes := by
  induction cs generalizing s with
  | nil => exact ⟨rfl, rfl⟩
  | cons c cs ih =>
    simp only [flushList]
    obtain ⟨h1, h2⟩ := flushOne_rest s c
    obtain ⟨i1, i2⟩ := ih (s.flushOne c).1
    exact ⟨i1.trans h1, i2.trans h2⟩

theorem canon_flush (s : St) (d : DS) (h : Canon s d) : Canon (s.flush).1 d := by
  unfold St.flush
  simp only []
  obtain ⟨g1, g2, _, _, _⟩ := flushList_facts (s.dirty.foldr insertCidr []) s
  obtain ⟨r1, r2⟩ := flushList_rest (s.dirty.foldr insertCidr []) s
  have hv : ∀ k, ({ (flushList s (s.dirty.foldr insertCidr [])).1 with dirty := [] } : St).view k = s.view k :=
    fun k => (view_congr (flushList s (s.dirty.foldr insertCidr [])).1 _ rfl k).trans (g1 k)
  refine ⟨fun m => ?_, fun k => ?_, fun k => ?_, fun b n k => ?_, fun k n => ?_⟩
  · show aget (flushList s _).1.nodes m = _; rw [g2]; exact h.nodes m
  · show aget (flushList s _).1.pools k = _; rw [r1]; exact h.pools k
  · rw [hv]; exact h.poolv k
  · show (n, k) ∈ (aget (flushList s _).1.blockRoutes b).getD [] ↔ _; rw [r2]; exact h.c1 b n k
  · rw [hv]; exact h.c2 k n

/-- blocks never overlap, at any point of the history. -/
def DisjAlong : DS → List Op → Prop
  | _, [] => True
  | d, op :: ops => (d.apply op).Disj ∧ DisjAlong (d.apply op) ops

theorem canon_step (s : St) (d : DS) (op : Op) (hok : op.ok) (h : Canon s d) (hd : d.Disj)
    (hd' : (d.apply op).Disj) : Canon (s.step op).1 (d.apply op) := by
  unfold St.step
  apply canon_flush
  cases op with
  | node n i => exact canon_node s d n i h
  | pool c p => exact canon_pool s d c p h
  | block c aff al => exact canon_block s d c aff al h hd hd'
  | blockDel c => exact canon_blockDel s d c h hd
  | wep _ _ _ => exact absurd hok (by simp [Op.ok])

theorem canon_run (ops : List Op) (s : St) (sent : List (Cidr × RouteUpdate)) (d : DS)
    (hok : ∀ op ∈ ops, op.ok) (h : Canon s d) (hd : d.Disj) (hda : DisjAlong d ops) :
    Canon (St.run s sent ops).1 (ops.foldl DS.apply d) := by
  induction ops generalizing s sent d with
  | nil => exact h
  | cons op ops ih =>
    simp only [St.run, List.foldl_cons]
    exact ih _ _ _ (fun o ho => hok o (List.mem_cons_of_mem _ ho))
      (canon_step s d op (hok op List.mem_cons_self) h hd hda.1) hda.1 hda.2

theorem canon_init (me : Nat) : Canon { me := me } DS.empty := by
  refine ⟨fun m => rfl, fun k => rfl, fun k => rfl, fun b n k => ?_, fun k n => ?_⟩
  · simp [aget, DS.routeAt, DS.empty]
  · simp [St.view, St.get, aget, strip, DS.routeAt, DS.empty]

theorem disj_empty : DS.empty.Disj := by
  intro b b' k n m _ h; simp [DS.routeAt, DS.empty] at h


/-! ### the local node name never changes -/

theorem foldl_me {α} (body : St → α → St) (h : ∀ s x, (body s x).me = s.me) (xs : List α) (s : St) :
    (xs.foldl body s).me = s.me := by
  induction xs generalizing s with
  | nil => rfl
  | cons x xs ih => simp only [List.foldl_cons]; rw [ih, h]

theorem apply_me (s : St) (op : Op) (hok : op.ok) : (s.apply op).me = s.me := by
  cases op with
  | node n i => exact (onNodeUpdate_quiet s n i).1.step.me
  | pool c p =>
    unfold St.apply St.onPoolUpdate
    cases p with
    | some p => exact ((Edit.updatePool c p).step _).me
    | none =>
      simp only []
      cases aget s.pools c with
      | none => rfl
      | some _ => exact ((Edit.removePool c).step _).me
  | block c aff al =>
    unfold St.apply St.onBlockUpdate
    simp only []
    refine (foldl_me _ ?_ _ _).trans (foldl_me _ ?_ _ _)
    · intro s r; exact ((Edit.updateBlockRoute r.2 r.1).step s).me
    · intro s r; exact ((Edit.removeBlockRoute r.2).step s).me
  | blockDel c =>
    unfold St.apply St.onBlockDelete
    simp only []
    refine foldl_me _ ?_ _ _
    intro s r; exact ((Edit.removeBlockRoute r.2).step s).me
  | wep h i ips => exact absurd hok (by simp [Op.ok])

theorem step_me (s : St) (op : Op) (hok : op.ok) : (s.step op).1.me = s.me := by
  unfold St.step St.flush
  simp only []
  rw [(flushList_facts _ _).2.2.1, apply_me s op hok]

theorem run_me (ops : List Op) (s : St) (sent : List (Cidr × RouteUpdate)) (hok : ∀ op ∈ ops, op.ok) :
    (St.run s sent ops).1.me = s.me := by
  induction ops generalizing s sent with
  | nil => rfl
  | cons op ops ih =>
    simp only [St.run]
    rw [ih _ _ (fun o ho => hok o (List.mem_cons_of_mem _ ho)), step_me s op (hok op List.mem_cons_self)]

end CalicoVerif.C43
