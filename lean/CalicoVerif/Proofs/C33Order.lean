import CalicoVerif.Model.C33
/-! C33: the table does not depend on the order (or multiplicity) in which backends were learned. -/
namespace CalicoVerif.C33

theorem bytesLe_total : ∀ (a b : List Nat), (bytesLe a b || bytesLe b a) = true
  | [], _ => by simp [bytesLe]
  | _ :: _, [] => by simp [bytesLe]
  | x :: xs, y :: ys => by
    have ih := bytesLe_total xs ys
    simp only [bytesLe]
    by_cases h1 : x < y
    · simp [h1]
    · by_cases h2 : y < x
      · simp [h1, h2]
      · simpa [h1, h2] using ih

theorem bytesLe_antisymm : ∀ (a b : List Nat), bytesLe a b = true → bytesLe b a = true → a = b
  | [], [], _, _ => rfl
  | [], _ :: _, _, h => by simp [bytesLe] at h
  | _ :: _, [], h, _ => by simp [bytesLe] at h
  | x :: xs, y :: ys, h1, h2 => by
    simp only [bytesLe] at h1 h2
    by_cases hxy : x < y
    · have : ¬ y < x := by omega
      simp [hxy, this] at h2
    · by_cases hyx : y < x
      · simp [hxy, hyx] at h1
      · simp only [hxy, hyx, if_false] at h1 h2
        have : x = y := by omega
        subst this
        rw [bytesLe_antisymm xs ys h1 h2]

theorem bytesLe_trans : ∀ (a b c : List Nat), bytesLe a b = true → bytesLe b c = true → bytesLe a c = true
  | [], _, _, _, _ => by simp [bytesLe]
  | _ :: _, [], _, h, _ => by simp [bytesLe] at h
  | _ :: _, _ :: _, [], _, h => by simp [bytesLe] at h
  | x :: xs, y :: ys, z :: zs, h1, h2 => by
    simp only [bytesLe] at h1 h2 ⊢
    by_cases hxy : x < y
    · by_cases hyz : y < z
      · have : x < z := by omega
        simp [this]
      · by_cases hzy : z < y
        · simp [hyz, hzy] at h2
        · have : x < z := by omega
          simp [this]
    · by_cases hyx : y < x
      · simp [hxy, hyx] at h1
      · simp only [hxy, hyx, if_false] at h1
        have hxy' : x = y := by omega
        subst hxy'
        by_cases hxz : x < z
        · simp [hxz]
        · by_cases hzx : z < x
          · simp [hxz, hzx] at h2
          · simp only [hxz, hzx, if_false] at h2 ⊢
            exact bytesLe_trans xs ys zs h1 h2

/-- What `AddBackend`* computes: no panic iff no arriving name panics; the stored
names are duplicate free and are exactly the arriving names whose permutation is ok. -/
theorem addBackends_spec (perm : List Nat → Res (List Nat)) :
    ∀ (ns acc : List (List Nat)), acc.Nodup → (∀ x ∈ acc, ∃ p, perm x = .ok p) →
      ((addBackends perm acc ns = none ↔ ∃ n ∈ ns, perm n = .panic) ∧
       (∀ r, addBackends perm acc ns = some r →
          r.Nodup ∧ ∀ x, x ∈ r ↔ (x ∈ acc ∨ (x ∈ ns ∧ ∃ p, perm x = .ok p)))) := by
  intro ns
  induction ns with
  | nil =>
    intro acc hnd _
    refine ⟨by simp [addBackends], ?_⟩
    intro r hr
    simp only [addBackends, Option.some.injEq] at hr
    subst hr
    exact ⟨hnd, by simp⟩
  | cons n ns ih =>
    intro acc hnd hok
    unfold addBackends
    by_cases hc : acc.contains n = true
    · have hmem : n ∈ acc := by simpa using hc
      obtain ⟨p, hp⟩ := hok n hmem
      rw [if_pos hc]
      obtain ⟨ih1, ih2⟩ := ih acc hnd hok
      refine ⟨?_, ?_⟩
      · rw [ih1]
        constructor
        · rintro ⟨x, hx, hpx⟩; exact ⟨x, List.mem_cons_of_mem _ hx, hpx⟩
        · rintro ⟨x, hx, hpx⟩
          rcases List.mem_cons.1 hx with rfl | hx
          · rw [hp] at hpx; cases hpx
          · exact ⟨x, hx, hpx⟩
      · intro r hr
        obtain ⟨h1, h2⟩ := ih2 r hr
        refine ⟨h1, ?_⟩
        intro x
        rw [h2 x]
        constructor
        · rintro (h | ⟨h, hp'⟩)
          · exact Or.inl h
          · exact Or.inr ⟨List.mem_cons_of_mem _ h, hp'⟩
        · rintro (h | ⟨h, hp'⟩)
          · exact Or.inl h
          · rcases List.mem_cons.1 h with rfl | h
            · exact Or.inl hmem
            · exact Or.inr ⟨h, hp'⟩
    · have hnm : n ∉ acc := by simpa using hc
      rw [if_neg hc]
      cases hp : perm n with
      | panic =>
        simp only
        refine ⟨?_, by intro r hr; cases hr⟩
        simp only [true_iff]
        exact ⟨n, List.mem_cons_self, hp⟩
      | err =>
        simp only
        obtain ⟨ih1, ih2⟩ := ih acc hnd hok
        refine ⟨?_, ?_⟩
        · rw [ih1]
          constructor
          · rintro ⟨x, hx, hpx⟩; exact ⟨x, List.mem_cons_of_mem _ hx, hpx⟩
          · rintro ⟨x, hx, hpx⟩
            rcases List.mem_cons.1 hx with rfl | hx
            · rw [hp] at hpx; cases hpx
            · exact ⟨x, hx, hpx⟩
        · intro r hr
          obtain ⟨h1, h2⟩ := ih2 r hr
          refine ⟨h1, ?_⟩
          intro x
          rw [h2 x]
          constructor
          · rintro (h | ⟨h, hp'⟩)
            · exact Or.inl h
            · exact Or.inr ⟨List.mem_cons_of_mem _ h, hp'⟩
          · rintro (h | ⟨h, hp'⟩)
            · exact Or.inl h
            · rcases List.mem_cons.1 h with rfl | h
              · obtain ⟨q, hq⟩ := hp'; rw [hp] at hq; cases hq
              · exact Or.inr ⟨h, hp'⟩
      | ok p =>
        simp only
        have hnd' : (acc ++ [n]).Nodup := by
          rw [List.nodup_append]
          refine ⟨hnd, by simp, ?_⟩
          intro a ha b hb
          simp only [List.mem_singleton] at hb
          subst hb
          rintro rfl
          exact hnm ha
        have hok' : ∀ x ∈ acc ++ [n], ∃ p, perm x = .ok p := by
          intro x hx
          rcases List.mem_append.1 hx with h | h
          · exact hok x h
          · simp only [List.mem_singleton] at h; subst h; exact ⟨p, hp⟩
        obtain ⟨ih1, ih2⟩ := ih (acc ++ [n]) hnd' hok'
        refine ⟨?_, ?_⟩
        · rw [ih1]
          constructor
          · rintro ⟨x, hx, hpx⟩; exact ⟨x, List.mem_cons_of_mem _ hx, hpx⟩
          · rintro ⟨x, hx, hpx⟩
            rcases List.mem_cons.1 hx with rfl | hx
            · rw [hp] at hpx; cases hpx
            · exact ⟨x, hx, hpx⟩
        · intro r hr
          obtain ⟨h1, h2⟩ := ih2 r hr
          refine ⟨h1, ?_⟩
          intro x
          rw [h2 x]
          simp only [List.mem_append, List.mem_cons, List.not_mem_nil, or_false]
          constructor
          · rintro ((h | h) | ⟨h, hp'⟩)
            · exact Or.inl h
            · exact Or.inr ⟨Or.inl h, by subst h; exact ⟨p, hp⟩⟩
            · exact Or.inr ⟨Or.inr h, hp'⟩
          · rintro (h | ⟨h | h, hp'⟩)
            · exact Or.inl (Or.inl h)
            · exact Or.inl (Or.inr h)
            · exact Or.inr ⟨h, hp'⟩

/-- Same set of arriving names ⇒ same sorted backend list (or both panic). -/
theorem sorted_backends_eq (perm : List Nat → Res (List Nat)) {a b : List (List Nat)}
    (hab : ∀ x, x ∈ a ↔ x ∈ b) :
    (addBackends perm [] a).map sortNames = (addBackends perm [] b).map sortNames := by
  obtain ⟨a1, a2⟩ := addBackends_spec perm a [] List.nodup_nil (by simp)
  obtain ⟨b1, b2⟩ := addBackends_spec perm b [] List.nodup_nil (by simp)
  cases ha : addBackends perm [] a with
  | none =>
    obtain ⟨n, hn, hp⟩ := a1.1 ha
    have : addBackends perm [] b = none := b1.2 ⟨n, (hab n).1 hn, hp⟩
    rw [this]
  | some ra =>
    cases hb : addBackends perm [] b with
    | none =>
      obtain ⟨n, hn, hp⟩ := b1.1 hb
      have : addBackends perm [] a = none := a1.2 ⟨n, (hab n).2 hn, hp⟩
      rw [this] at ha; cases ha
    | some rb =>
      obtain ⟨nda, ma⟩ := a2 ra ha
      obtain ⟨ndb, mb⟩ := b2 rb hb
      have hperm : ra.Perm rb := by
        rw [List.perm_ext_iff_of_nodup nda ndb]
        intro x
        rw [ma x, mb x]
        simp only [List.not_mem_nil, false_or, hab x]
      simp only [Option.map_some, Option.some.injEq, sortNames]
      apply List.Perm.eq_of_pairwise (le := fun x y => bytesLe x y = true)
      · intro x y _ _ h1 h2; exact bytesLe_antisymm x y h1 h2
      · exact List.pairwise_mergeSort bytesLe_trans bytesLe_total ra
      · exact List.pairwise_mergeSort bytesLe_trans bytesLe_total rb
      · exact ((List.mergeSort_perm ra _).trans hperm).trans (List.mergeSort_perm rb _).symm

end CalicoVerif.C33
