import CalicoVerif.Proofs.C11ChainGlue
/-!
C11 — the simulation step at a `maybeSplitProgram` call site.
-/
namespace CalicoVerif.C11

/-- What the chain theorem assumes about the environment and the configuration: the state lookup and
the policy-jump tail calls succeed, the policy-jump slots `policyMapIndex + k*stride` are well-formed
for the `nmax + 1` programs, the two jump maps are distinct. -/
structure ChainEnv (env : Env) (nmax : Nat) : Prop where
  stateOK : env.stateOK = true
  polTailOK : env.polTailOK = true
  idx0 : 0 ≤ env.c.policyMapIndex
  stride : 0 < env.c.policyMapStride
  bound : env.c.policyMapIndex + ((nmax : Int) + 1) * env.c.policyMapStride < 4294967296
  fdne : env.c.policyJumpMapFD ≠ env.c.staticJumpMapFD
  hne : mapHandle env.c.policyJumpMapFD ≠ mapHandle env.c.staticJumpMapFD
  tstride : env.c.trampolineStride < 4294967296

theorem fieldN_pol (stx : List Byte) (w : Nat) (hw : w < 4294967296) (hlen : stx.length = 512) :
    fieldN (writeAt stx 92 (toLE w 4)) 92 4 = w := by
  have := fieldN_writeAt_same stx 92 (toLE w 4) (by rw [toLE_length]; omega)
  rw [toLE_length] at this
  rw [this, leNat_toLE4]
  omega

/-- From the `next-program` block of one program into the next one, up to its dispatch. -/
theorem chain_switch (env : Env) (st : List Byte) (xdp : Bool) (nmax : Nat) (he : ChainEnv env nmax)
    (s : SplitSt) (hk : s.done.length + 1 ≤ nmax) (T : List Label) (R r1 : List Ev) (r2 : List (List Ev)) (tl : List Ev)
    (m : Mach) (hI : Inv st m) (w : Nat) (hw : w < 4294967296) (h0 : m.reg 0 = some (BitVec.ofNat 64 w)) :
    ∃ m2, Inv st m2 ∧ m2.reg 0 = some (BitVec.ofNat 64 w) ∧
      chainK env ((preEvs env.c T R ++ r1) :: r2) (s.done.length + 1)
          (lrun env (npBody env.c xdp (splitIdx env.c s) ++ tl) m) =
        chainK env r2 (s.done.length + 1 + 1) (lrun env (trampolineJumps T 0 ++ (R ++ r1)) m2) := by
  obtain ⟨m', hst', e1⟩ := lrun_npBody env st xdp (splitIdx env.c s) tl m (BitVec.ofNat 64 w) he.hne he.polTailOK hI h0
  have hwn : (BitVec.ofNat 64 w).toNat = w := by simp only [BitVec.toNat_ofNat]; omega
  rw [hwn] at hst'
  have hslot : slotToProg env.c (((sext32 (splitIdx env.c s)).setWidth 32).setWidth 64) = some (s.done.length + 1) := by
    unfold splitIdx
    apply slot_of_split env.c s.done.length he.idx0 he.stride
    have h1 : ((s.done.length : Int) + 1) * env.c.policyMapStride ≤ ((nmax : Int) + 1) * env.c.policyMapStride :=
      Int.mul_le_mul_of_nonneg_right (by omega) (by have := he.stride; omega)
    have := he.bound
    omega
  rw [e1]
  simp only [chainK, he.fdne, ne_eq, not_false_eq_true, and_self, if_true, hslot]
  -- the next program
  have hsim1 : StSim st m'.st := by
    rw [hst']; exact hI.sim.write 92 _ (Or.inr (Or.inr ⟨by omega, by rw [toLE_length]⟩))
  have epre : preEvs env.c T R ++ r1 = headerEvs env.c ++
      ([load32 R0 R9 stateOffPolResult, movImm32 R1 0, store32 R9 R1 stateOffPolResult] ++
        (trampolineJumps T 0 ++ (R ++ r1))) := by
    simp [preEvs, List.append_assoc]
  rw [epre]
  obtain ⟨m0, hI0, hst0, e2⟩ := lrun_header' env st m'.st hsim1 hI.stLen he.stateOK
    ([load32 R0 R9 stateOffPolResult, movImm32 R1 0, store32 R9 R1 stateOffPolResult] ++
        (trampolineJumps T 0 ++ (R ++ r1)))
  rw [e2]
  have rl : ∀ {mm : Mach}, Inv st mm → ∀ r, r < 11 → r < mm.regs.length := fun h r hr => by rw [h.regsLen]; exact hr
  have hlen0 : m0.st.length = 512 := hI0.sim.len
  have ea := fun nxt => step_ldx_state_raw (env := env) hI0.r9 hlen0 opLoadReg32 0 92 4 0 nxt
    (Or.inr (Or.inr (Or.inl ⟨rfl, rfl⟩))) (by omega) (by omega)
  have hf : fieldN m0.st 92 4 = w := by
    rw [hst0, hst']; exact fieldN_pol m.st w hw hI.sim.len
  rw [hf] at ea
  have hI1 := hI0.setReg 0 (BitVec.ofNat 64 w) (by omega) (by omega) (by omega)
  have hI2 := hI1.setReg 1 (((sext32 0).setWidth 32).setWidth 64) (by omega) (by omega) (by omega)
  have r1v : ((m0.setReg 0 (BitVec.ofNat 64 w)).setReg 1 (((sext32 0).setWidth 32).setWidth 64)).reg 1 = some _ :=
    reg_setReg_eq (rl hI1 1 (by omega))
  have ec := fun nxt => step_stx32_state (env := env) hI2.r9 1 92 0 nxt _ (by omega) r1v
  have hI3 := hI2.setSt (writeAt ((m0.setReg 0 (BitVec.ofNat 64 w)).setReg 1 (((sext32 0).setWidth 32).setWidth 64)).st 92
      (toLE ((((sext32 0).setWidth 32).setWidth 64 : Word)).toNat 4))
    (hI2.sim.write 92 _ (Or.inr (Or.inr ⟨by omega, by rw [toLE_length]⟩)))
  refine ⟨_, hI3, ?_, ?_⟩
  · show ({ ((m0.setReg 0 (BitVec.ofNat 64 w)).setReg 1 (((sext32 0).setWidth 32).setWidth 64)) with
        st := _ } : Mach).reg 0 = _
    have : ((m0.setReg 0 (BitVec.ofNat 64 w)).setReg 1 (((sext32 0).setWidth 32).setWidth 64)).reg 0 =
        some (BitVec.ofNat 64 w) := by
      rw [reg_setReg_ne (by omega)]; exact reg_setReg_eq (rl hI0 0 (by omega))
    exact this
  · congr 1
    simp only [load32, movImm32, store32, mk, R0, R1, R9, stateOffPolResult, stateEventHdrSize, List.cons_append,
      List.nil_append]
    refine (lrun_ins_next (ea _)).trans ?_
    refine (lrun_ins_next (step_movImm32 env _ 1 0 0 _ (by omega))).trans ?_
    exact lrun_ins_next (ec _)


theorem flat_marker (R : List Ev) (S : List BEv) : flat (BEv.maybeSplit R :: S) = flat S := rfl

theorem cont_marker_split (c : Cfg) (xdp : Bool) (R : List Ev) (S : List BEv) (s : SplitSt) (hw : willSplit c s = true) :
    cont c xdp (BEv.maybeSplit R :: S) s =
      (glueEvs c xdp s, (preEvs c (splitTargets c xdp s) R ++ (cont c xdp S (splitState c xdp s R)).1) ::
        (cont c xdp S (splitState c xdp s R)).2) := by
  simp [cont, hw]

theorem cont_marker_nosplit (c : Cfg) (xdp : Bool) (R : List Ev) (S : List BEv) (s : SplitSt) (hw : willSplit c s = false) :
    cont c xdp (BEv.maybeSplit R :: S) s = cont c xdp S s := by
  simp [cont, hw]

theorem splitState_done (c : Cfg) (xdp : Bool) (s : SplitSt) (R : List Ev) :
    (splitState c xdp s R).done.length = s.done.length + 1 := by simp [splitState]

theorem splitState_cur (c : Cfg) (xdp : Bool) (s : SplitSt) (R : List Ev) :
    (splitState c xdp s R).cur = rawAll {} (preEvs c (splitTargets c xdp s) R) := by
  simp only [splitState]

theorem not_footer_of_vOf {xdp : Bool} {l : Label} (hv : vOf l = none) (he : l ≠ .exit) : l ∉ footerLabels xdp := by
  cases xdp <;> cases l <;> simp_all [footerLabels, vOf]

/-- The glue after `mov r0, 0; goto next-program`, seen from a jump. -/
theorem glueEvs_goto (env : Env) (xdp : Bool) (s : SplitSt) (l : Label) (m : Mach) :
    goto env l (glueEvs env.c xdp s) m = goto env l (footerEvs env.c xdp ++ glueTail env.c xdp s) m := by
  unfold glueEvs glueHead movImm64 mk jump mkJ
  simp only [List.cons_append, List.nil_append, List.append_assoc]
  rw [goto_cons_ins, goto_cons_jmp]

/-- Falling into the glue: `mov r0, 0; goto next-program`. -/
theorem glueEvs_fall (env : Env) (xdp : Bool) (s : SplitSt) (m : Mach) (hl : m.regs.length = 11) :
    lrun env (glueEvs env.c xdp s) m =
      lrun env (npBody env.c xdp (splitIdx env.c s) ++ []) (m.setReg 0 (BitVec.ofNat 64 0)) := by
  obtain ⟨hnp, _⟩ := splitTargets_props env.c xdp s
  have e0 : glueEvs env.c xdp s = Ev.ins ⟨opMovImm64, 0, 0, 0, 0⟩ :: jump .nextProgram ::
      (footerEvs env.c xdp ++ (landingPads (splitTargets env.c xdp s) 0 ++
        (Ev.label .nextProgram :: npBody env.c xdp (splitIdx env.c s)))) := by
    simp [glueEvs, glueHead, glueTail, npBlock_eq, movImm64, mk, R0]
  rw [e0, List.append_nil]
  refine (lrun_ins_next (step_movImm64 env m 0 0 0 _ (by omega))).trans ?_
  rw [show sext32 0 = BitVec.ofNat 64 0 from sext32_nat 0]
  rw [lrun_jump, goto_append _ _ (by rw [labelsOf_footer]; cases xdp <;> simp [footerLabels]),
    goto_append _ _ (by rw [labelsOf_landingPads]; exact hnp), goto_label_self]

/-- Jumping to a target that is not resolved in this program: its landing pad. -/
theorem glueEvs_land (env : Env) (xdp : Bool) (s : SplitSt) (l : Label) (m : Mach) (hl : m.regs.length = 11)
    (hlf : l ∉ footerLabels xdp) (hlT : l ∈ splitTargets env.c xdp s) :
    goto env l (glueEvs env.c xdp s) m =
      lrun env (npBody env.c xdp (splitIdx env.c s) ++ [])
        (m.setReg 0 (BitVec.ofNat 64 (0 + (splitTargets env.c xdp s).idxOf l + 1))) := by
  obtain ⟨hnp, _⟩ := splitTargets_props env.c xdp s
  rw [glueEvs_goto, goto_append _ _ (by rw [labelsOf_footer]; exact hlf)]
  unfold glueTail
  rw [npBlock_eq, List.append_nil, goto_pad env _ _ 0 l m hlT hnp hl, sext32_nat]

/-- **The simulation step at a `maybeSplitProgram` call site** with reload instructions `R`. -/
theorem GA.marker {env : Env} {st : List Byte} {xdp : Bool} {nmax : Nat} {E : List Label} {c c' : Carry}
    {S : List BEv} (he : ChainEnv env nmax) (R : List Ev)
    (hR : DecidesC env st .none c' R none) (hRl : Live R = true) (hRf : MayFall R = true)
    (hc : c' = .none ∨ c = c')
    (hEx : Label.xdpPass ∈ E → xdp = true) (hEe : Label.exit ∉ E) (hEn : Label.nextProgram ∉ E)
    (h : GA env st xdp nmax E c' S) : GA env st xdp nmax E c (BEv.maybeSplit R :: S) := by
  have hcv : ∀ m, InvC st c m → InvC st c' m := by
    intro m hm
    rcases hc with e | e
    · rw [e]; exact hm.drop
    · rw [← e]; exact hm
  have hRlab : labelsOf R = [] := labelsOf_of_live R hRl
  -- facts shared by the split cases
  have hsplit : ∀ s : SplitSt, willSplit env.c s = true →
      s.done.length + (cont env.c xdp (BEv.maybeSplit R :: S) s).2.length ≤ nmax →
      ShortBlocks env.c xdp (BEv.maybeSplit R :: S) s →
      (splitState env.c xdp s R).done.length + (cont env.c xdp S (splitState env.c xdp s R)).2.length ≤ nmax ∧
      ShortBlocks env.c xdp S (splitState env.c xdp s R) ∧ s.done.length + 1 ≤ nmax ∧
      (splitTargets env.c xdp s).length < 4294967296 := by
    intro s hw hn hsb
    rw [cont_marker_split _ _ _ _ _ hw] at hn
    obtain ⟨hs1, hs2⟩ := hsb
    rw [cont_marker_split _ _ _ _ _ hw] at hs1 hs2
    simp only [List.length_cons] at hn
    have hb := hs2 _ List.mem_cons_self
    simp only [List.length_append] at hb
    refine ⟨by rw [splitState_done]; omega, ⟨?_, fun b hb' => hs2 b (List.mem_cons_of_mem _ hb')⟩, by omega, ?_⟩
    · have e : (splitState env.c xdp s R).cur.out.length = (preEvs env.c (splitTargets env.c xdp s) R).length := by
        simp [splitState, rawAll_out]
      rw [e]; exact hb
    · have h1 := length_landingPads (splitTargets env.c xdp s) 0
      have h2 : (landingPads (splitTargets env.c xdp s) 0).length ≤ (glueEvs env.c xdp s).length := by
        simp only [glueEvs, glueTail, List.length_append]; omega
      have := he.tstride
      simp only at hs1
      omega
  refine ⟨?_, ?_, ?_⟩
  · -- falling into the call site
    intro s hreach hn hsb mC mF hC hF
    rw [flat_marker]
    by_cases hw : willSplit env.c s = true
    · obtain ⟨hn', hsb', hk, hT⟩ := hsplit s hw hn hsb
      rw [cont_marker_split _ _ _ _ _ hw]
      simp only
      obtain ⟨hnp, hnf⟩ := splitTargets_props env.c xdp s
      -- mov r0, 0; goto next-program
      have hI1 := hC.inv.setReg 0 (BitVec.ofNat 64 0) (by omega) (by omega) (by omega)
      rw [glueEvs_fall env xdp s mC hC.inv.regsLen]
      have hr0 : (mC.setReg 0 (BitVec.ofNat 64 0)).reg 0 = some (BitVec.ofNat 64 0) :=
        reg_setReg_eq (by rw [hC.inv.regsLen]; omega)
      obtain ⟨m2, hI2, h02, e2⟩ := chain_switch env st xdp nmax he s hk (splitTargets env.c xdp s) R
        (cont env.c xdp S (splitState env.c xdp s R)).1 (cont env.c xdp S (splitState env.c xdp s R)).2 []
        (mC.setReg 0 (BitVec.ofNat 64 0)) hI1 0 (by omega) hr0
      rw [e2, dispatch_zero env _ m2 h02 _ 0 (by omega)]
      obtain ⟨m3, hI3, hc3, e3⟩ := hR (cont env.c xdp S (splitState env.c xdp s R)).1 m2 (InvC.none hI2)
      rw [e3]
      have hreach4 : (splitState env.c xdp s R).cur.reach = true := by
        rw [splitState_cur]; exact (pre_state env.c (splitTargets env.c xdp s) R hRl hRf).1
      have := h.start (splitState env.c xdp s R) hreach4 hn' hsb' m3 mF (hc3 rfl) (hcv mF hF)
      rw [splitState_done] at this
      exact this
    · have hw' : willSplit env.c s = false := by simpa using hw
      rw [cont_marker_nosplit _ _ _ _ _ hw'] at hn ⊢
      have hsb' : ShortBlocks env.c xdp S s := by
        unfold ShortBlocks at hsb ⊢; rw [cont_marker_nosplit _ _ _ _ _ hw'] at hsb; exact hsb
      exact h.start s hreach hn hsb' mC mF (hcv mC hC) (hcv mF hF)
  · -- arriving by a jump
    intro s l hl hfix huse hn hsb mC mF hC hF
    rw [flat_marker]
    by_cases hw : willSplit env.c s = true
    · obtain ⟨hn', hsb', hk, hT⟩ := hsplit s hw hn hsb
      rw [cont_marker_split _ _ _ _ _ hw]
      simp only
      obtain ⟨hnp, hnf⟩ := splitTargets_props env.c xdp s
      rw [glueEvs_goto]
      cases hv : vOf l with
      | some V =>
        -- a footer label: the local copy of the footer decides
        obtain ⟨hfin, hag⟩ := footer_out env st xdp l V hv (fun e => hEx (e ▸ hl)) (glueTail env.c xdp s) mC hC
        rw [chainK_final env _ _ _ hfin]
        refine ⟨V, ?_, ?_, hag, h.foot l hl V hv mF hF⟩
        · intro l' V' e hv'
          cases e
          rw [hv] at hv'; cases hv'; rfl
        · intro e
          subst e
          have : l = .xdpPass := by cases l <;> simp [vOf] at hv <;> rfl
          exact hEx (this ▸ hl)
      | none =>
        have hle : l ≠ .exit := fun e => hEe (e ▸ hl)
        have hln : l ≠ .nextProgram := fun e => hEn (e ▸ hl)
        have hlf : l ∉ footerLabels xdp := not_footer_of_vOf hv hle
        have hlT : l ∈ splitTargets env.c xdp s := mem_splitTargets env.c xdp s l hfix hlf hln
        have hidx := List.idxOf_lt_length_of_mem hlT
        rw [← glueEvs_goto, glueEvs_land env xdp s l mC hC.regsLen hlf hlT]
        have hI1 := hC.setReg 0 (BitVec.ofNat 64 (0 + (splitTargets env.c xdp s).idxOf l + 1))
          (by omega) (by omega) (by omega)
        have hr0 : (mC.setReg 0 (BitVec.ofNat 64 (0 + (splitTargets env.c xdp s).idxOf l + 1))).reg 0 =
            some (BitVec.ofNat 64 (0 + (splitTargets env.c xdp s).idxOf l + 1)) :=
          reg_setReg_eq (by rw [hC.regsLen]; omega)
        obtain ⟨m2, hI2, h02, e2⟩ := chain_switch env st xdp nmax he s hk (splitTargets env.c xdp s) R
          (cont env.c xdp S (splitState env.c xdp s R)).1 (cont env.c xdp S (splitState env.c xdp s R)).2 []
          (mC.setReg 0 (BitVec.ofNat 64 (0 + (splitTargets env.c xdp s).idxOf l + 1))) hI1
          (0 + (splitTargets env.c xdp s).idxOf l + 1) (by omega) hr0
        rw [e2, dispatch_hit env _ m2 l _ 0 hlT (by omega) h02, goto_append _ _ (by rw [hRlab]; simp)]
        have hp4 : l ∈ (splitState env.c xdp s R).cur.fix ∧ l ∈ (splitState env.c xdp s R).cur.use := by
          rw [splitState_cur]; exact (pre_state env.c (splitTargets env.c xdp s) R hRl hRf).2 l hlT
        have := h.lab (splitState env.c xdp s R) l hl hp4.1 hp4.2 hn' hsb' m2 mF hI2 hF
        rw [splitState_done] at this
        exact this
    · have hw' : willSplit env.c s = false := by simpa using hw
      rw [cont_marker_nosplit _ _ _ _ _ hw'] at hn ⊢
      have hsb' : ShortBlocks env.c xdp S s := by
        unfold ShortBlocks at hsb ⊢; rw [cont_marker_nosplit _ _ _ _ _ hw'] at hsb; exact hsb
      exact h.lab s l hl hfix huse hn hsb' mC mF hC hF
  · intro l hl V hV mF hF
    rw [flat_marker]
    exact h.foot l hl V hV mF hF

end CalicoVerif.C11
