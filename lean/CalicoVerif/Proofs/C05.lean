import CalicoVerif.Model.C05
/-! Helper lemmas for C05. -/
namespace CalicoVerif.C05

section AL
variable {κ β : Type} [DecidableEq κ]

@[simp] theorem alGet_nil (k : κ) : alGet k ([] : List (κ × β)) = none := rfl

theorem alGet_cons (k k' : κ) (v : β) (l : List (κ × β)) :
    alGet k ((k', v) :: l) = if k' = k then some v else alGet k l := rfl

theorem alGet_alErase (k k' : κ) (l : List (κ × β)) :
    alGet k' (alErase k l) = if k' = k then none else alGet k' l := by
  induction l with
  | nil => simp [alErase]
  | cons p l ih =>
    obtain ⟨a, b⟩ := p
    unfold alErase at ih ⊢
    by_cases h : a = k
    · subst h
      simp only [List.filter_cons, ne_eq, not_true_eq_false, decide_false, Bool.false_eq_true, if_false, ih, alGet_cons]
      by_cases h' : k' = a <;> simp [h']
      intro h''; exact absurd h''.symm h'
    · simp only [List.filter_cons, ne_eq, h, not_false_eq_true, decide_true, if_true, alGet_cons, ih]
      by_cases h' : k' = k
      · subst h'; simp [h]
      · simp [h']

theorem alGet_alSet (k k' : κ) (v : β) (l : List (κ × β)) :
    alGet k' (alSet k v l) = if k' = k then some v else alGet k' l := by
  unfold alSet
  rw [alGet_cons, alGet_alErase]
  by_cases h : k' = k
  · subst h; simp
  · have : ¬ k = k' := fun e => h e.symm
    simp [h, this]

end AL

set_option linter.unusedSectionVars false
section
variable {R : Type} [DecidableEq R]

/-- **View invariant**: the rule scanner holds exactly the active profiles, each with its real
rules if the profile is known and with the deny stand-in otherwise. -/
def ViewInv (st : Arc R) : Prop :=
  ∀ p, alGet p (view st.out) = if isActive st p then some (outOf st p) else none

theorem view_append (es : List (Event R)) (e : Event R) : view (es ++ [e]) = applyEvent (view es) e := by
  simp [view, List.foldl_append]

theorem isActive_iff (st : Arc R) (p : String) : isActive st p = true ↔ ∃ ep, (p, ep) ∈ st.refs := by
  unfold isActive
  simp only [List.any_eq_true, beq_iff_eq]
  constructor
  · rintro ⟨x, hx, rfl⟩; exact ⟨x.2, hx⟩
  · rintro ⟨ep, h⟩; exact ⟨_, h, rfl⟩

/-- `sendProfileUpdate p (allProfileRules[p])` re-establishes the invariant at `p` whatever the
view held for `p` before, and leaves every other profile alone. -/
theorem sendProfileUpdate_view {st : Arc R} {p : String}
    (h : ∀ q, q ≠ p → alGet q (view st.out) = if isActive st q then some (outOf st q) else none) :
    ViewInv (sendProfileUpdate p (alGet p st.profiles) st) := by
  intro q
  unfold sendProfileUpdate
  by_cases ha : isActive st p = true
  · simp only [ha, if_true]
    cases hr : alGet p st.profiles with
    | none =>
      simp only [view_append, applyEvent, alGet_alSet]
      by_cases hq : q = p
      · subst hq
        have : isActive { st with out := st.out ++ [Event.active q OutRules.dummyDrop] } q = true := ha
        simp [this, outOf, hr]
      · simp only [hq, if_false]
        exact h q hq
    | some r =>
      simp only [view_append, applyEvent, alGet_alSet]
      by_cases hq : q = p
      · subst hq
        have : isActive { st with out := st.out ++ [Event.active q (OutRules.real r)] } q = true := ha
        simp [this, outOf, hr]
      · simp only [hq, if_false]
        exact h q hq
  · simp only [ha, Bool.false_eq_true, if_false]
    simp only [view_append, applyEvent, alGet_alErase]
    by_cases hq : q = p
    · subst hq
      have ha' : isActive st q = false := by simpa using ha
      have : isActive { st with out := st.out ++ [Event.inactive q] } q = false := ha'
      simp [this]
    · simp only [hq, if_false]
      exact h q hq

theorem viewInv_of_same {st st' : Arc R} (h : ViewInv st) (ho : st'.out = st.out)
    (hp : st'.profiles = st.profiles) (ha : ∀ q, isActive st' q = isActive st q) : ViewInv st' := by
  intro q
  rw [ho, ha, h q]
  unfold outOf
  rw [hp]

theorem isActive_putRef (st : Arc R) (p ep q : String) :
    isActive (putRef p ep st) q = true ↔ (isActive st q = true ∨ q = p) := by
  unfold putRef
  by_cases hm : (p, ep) ∈ st.refs
  · simp only [hm, if_true]
    constructor
    · exact Or.inl
    · rintro (h | rfl)
      · exact h
      · exact (isActive_iff st q).2 ⟨ep, hm⟩
  · simp only [hm, if_false]
    rw [isActive_iff, isActive_iff]
    simp only [List.mem_append, List.mem_singleton, Prod.mk.injEq]
    constructor
    · rintro ⟨e, h | ⟨h, _⟩⟩
      · exact Or.inl ⟨e, h⟩
      · exact Or.inr h
    · rintro (⟨e, h⟩ | rfl)
      · exact ⟨e, Or.inl h⟩
      · exact ⟨ep, Or.inr ⟨rfl, rfl⟩⟩

theorem isActive_discardRef_ne (st : Arc R) (p ep q : String) (hq : q ≠ p) :
    isActive (discardRef p ep st) q = isActive st q := by
  have : ∀ b c : Bool, (b = true ↔ c = true) → b = c := by
    intro b c h; cases b <;> cases c <;> simp_all
  apply this
  rw [isActive_iff, isActive_iff]
  unfold discardRef
  simp only [List.mem_filter, decide_eq_true_eq, ne_eq, Prod.mk.injEq, not_and]
  constructor
  · rintro ⟨e, h, _⟩; exact ⟨e, h⟩
  · rintro ⟨e, h⟩; exact ⟨e, h, fun h' => absurd h' hq⟩

theorem isActive_discardRef_sub (st : Arc R) (p ep q : String) (h : isActive (discardRef p ep st) q = true) :
    isActive st q = true := by
  rw [isActive_iff] at h ⊢
  obtain ⟨e, he⟩ := h
  exact ⟨e, (List.mem_filter.1 he).1⟩

theorem bool_eq_of_iff {b c : Bool} (h : b = true ↔ c = true) : b = c := by
  cases b <;> cases c <;> simp_all

theorem putRef_out (st : Arc R) (p ep : String) : (putRef p ep st).out = st.out := by
  unfold putRef; split <;> rfl

theorem putRef_profiles (st : Arc R) (p ep : String) : (putRef p ep st).profiles = st.profiles := by
  unfold putRef; split <;> rfl

theorem outOf_congr {st st' : Arc R} (h : st'.profiles = st.profiles) (q : String) : outOf st' q = outOf st q := by
  unfold outOf; rw [h]

theorem addOne_view {st : Arc R} (ep id : String) (h : ViewInv st) : ViewInv (addOne ep st id) := by
  unfold addOne
  by_cases ha : isActive st id = true
  · simp only [ha, if_true]
    refine viewInv_of_same (st' := putRef id ep st) h (putRef_out ..) (putRef_profiles ..) ?_
    intro q
    apply bool_eq_of_iff
    rw [isActive_putRef]
    constructor
    · rintro (h' | rfl)
      · exact h'
      · exact ha
    · exact Or.inl
  · simp only [ha, Bool.false_eq_true, if_false]
    apply sendProfileUpdate_view
    intro q hq
    have : isActive (putRef id ep st) q = isActive st q := by
      apply bool_eq_of_iff
      rw [isActive_putRef]
      constructor
      · rintro (h' | h')
        · exact h'
        · exact absurd h' hq
      · exact Or.inl
    rw [this, putRef_out, outOf_congr (putRef_profiles st id ep)]
    exact h q

theorem removeOne_view {st : Arc R} (ep id : String) (h : ViewInv st) : ViewInv (removeOne ep st id) := by
  unfold removeOne
  by_cases ha : isActive (discardRef id ep st) id = true
  · simp only [ha, if_true]
    refine viewInv_of_same (st' := discardRef id ep st) h rfl rfl ?_
    intro q
    by_cases hq : q = id
    · subst hq; rw [ha, isActive_discardRef_sub st q ep q ha]
    · exact isActive_discardRef_ne st id ep q hq
  · simp only [ha, Bool.false_eq_true, if_false]
    apply sendProfileUpdate_view
    intro q hq
    rw [isActive_discardRef_ne st id ep q hq]
    exact h q

theorem foldl_view {α : Type} (f : Arc R → α → Arc R) (hf : ∀ st a, ViewInv st → ViewInv (f st a))
    (l : List α) (st : Arc R) (h : ViewInv st) : ViewInv (l.foldl f st) := by
  induction l generalizing st with
  | nil => exact h
  | cons a l ih => exact ih _ (hf st a h)

theorem updateEndpointProfileIDs_view {st : Arc R} (ep : String) (ids : List String) (h : ViewInv st) :
    ViewInv (updateEndpointProfileIDs ep ids st) := by
  unfold updateEndpointProfileIDs
  apply foldl_view _ (fun st a => removeOne_view ep a)
  apply foldl_view _ (fun st a => addOne_view ep a)
  exact viewInv_of_same h rfl rfl (fun _ => rfl)

theorem updateProfileRules_view {st : Arc R} (p : String) (v : Option R) (h : ViewInv st) :
    ViewInv (updateProfileRules p v st) := by
  unfold updateProfileRules
  cases v with
  | some r =>
    simp only
    split
    · exact h
    · split
      · rename_i hact
        have hg : alGet p ({ st with profiles := alSet p r st.profiles } : Arc R).profiles = some r := by
          simp [alGet_alSet]
        rw [← hg]
        apply sendProfileUpdate_view
        intro q hq
        have := h q
        simp only [outOf, alGet_alSet, hq, if_false] at this ⊢
        exact this
      · rename_i hact
        intro q
        have := h q
        by_cases hq : q = p
        · subst hq
          have hna' : isActive ({ st with profiles := alSet q r st.profiles } : Arc R) q = false := by
            simpa using hact
          have hna : isActive st q = false := hna'
          rw [hna'] ; rw [hna] at this; simpa using this
        · simp only [outOf, alGet_alSet, hq, if_false] at this ⊢
          exact this
  | none =>
    simp only
    split
    · rename_i hact
      have hg : alGet p ({ st with profiles := alErase p st.profiles } : Arc R).profiles = none := by
        simp [alGet_alErase]
      rw [← hg]
      apply sendProfileUpdate_view
      intro q hq
      have := h q
      simp only [outOf, alGet_alErase, hq, if_false] at this ⊢
      exact this
    · rename_i hact
      intro q
      have := h q
      by_cases hq : q = p
      · subst hq
        have hna' : isActive ({ st with profiles := alErase q st.profiles } : Arc R) q = false := by
          simpa using hact
        have hna : isActive st q = false := hna'
        rw [hna']; rw [hna] at this; simpa using this
      · simp only [outOf, alGet_alErase, hq, if_false] at this ⊢
        exact this

theorem step_view {st : Arc R} (u : Upd R) (h : ViewInv st) : ViewInv (step st u) := by
  cases u with
  | endpoint ep ids =>
    cases ids with
    | some ids => exact updateEndpointProfileIDs_view ep ids h
    | none => exact updateEndpointProfileIDs_view ep [] h
  | profileRules p r => exact updateProfileRules_view p r h

theorem run_view {st : Arc R} (us : List (Upd R)) (h : ViewInv st) : ViewInv (run st us) :=
  foldl_view step (fun st a => step_view a) us st h

theorem viewInv_new : ViewInv (Arc.new R) := by
  intro p; simp [Arc.new, view, isActive]

/-! ### the reference multidict mirrors the endpoints' profile lists -/

def diffStep (acc : List String × List String) (id : String) : List String × List String :=
  if id ∈ acc.1 then (acc.1.filter (fun x => x ≠ id), acc.2)
  else (acc.1, if id ∈ acc.2 then acc.2 else acc.2 ++ [id])

theorem diffIDs_eq (old new : List String) : diffIDs old new = new.foldl diffStep (old.eraseDups, []) := rfl

theorem diff_removed (l : List String) (acc : List String × List String) (p : String) :
    p ∈ (l.foldl diffStep acc).1 ↔ p ∈ acc.1 ∧ p ∉ l := by
  induction l generalizing acc with
  | nil => simp
  | cons a l ih =>
    rw [List.foldl_cons, ih]
    unfold diffStep
    by_cases h : a ∈ acc.1
    · simp only [h, if_true, List.mem_filter, decide_eq_true_eq, List.mem_cons, not_or]
      constructor
      · rintro ⟨⟨h1, h2⟩, h3⟩; exact ⟨h1, h2, h3⟩
      · rintro ⟨h1, h2, h3⟩; exact ⟨⟨h1, h2⟩, h3⟩
    · simp only [h, if_false, List.mem_cons, not_or]
      constructor
      · rintro ⟨h1, h3⟩; exact ⟨h1, fun e => h (e ▸ h1), h3⟩
      · rintro ⟨h1, _, h3⟩; exact ⟨h1, h3⟩

theorem diff_added_sub (l : List String) (acc : List String × List String) (p : String)
    (h : p ∈ (l.foldl diffStep acc).2) : p ∈ acc.2 ∨ p ∈ l := by
  induction l generalizing acc with
  | nil => exact Or.inl h
  | cons a l ih =>
    rw [List.foldl_cons] at h
    rcases ih _ h with h' | h'
    · unfold diffStep at h'
      by_cases ha : a ∈ acc.1
      · simp only [ha, if_true] at h'; exact Or.inl h'
      · simp only [ha, if_false] at h'
        by_cases hb : a ∈ acc.2
        · simp only [hb, if_true] at h'; exact Or.inl h'
        · simp only [hb, if_false, List.mem_append, List.mem_singleton] at h'
          rcases h' with h' | rfl
          · exact Or.inl h'
          · exact Or.inr (List.mem_cons_self ..)
    · exact Or.inr (List.mem_cons_of_mem _ h')

theorem diff_added_sup (l : List String) (acc : List String × List String) (p : String)
    (h : p ∈ acc.2 ∨ (p ∈ l ∧ p ∉ acc.1)) : p ∈ (l.foldl diffStep acc).2 := by
  induction l generalizing acc with
  | nil =>
    rcases h with h | ⟨h, _⟩
    · exact h
    · cases h
  | cons a l ih =>
    rw [List.foldl_cons]
    apply ih
    unfold diffStep
    by_cases ha : a ∈ acc.1
    · simp only [ha, if_true, List.mem_filter, decide_eq_true_eq, not_and, Classical.not_not]
      rcases h with h | ⟨h, hn⟩
      · exact Or.inl h
      · rcases List.mem_cons.1 h with rfl | h
        · exact absurd ha hn
        · exact Or.inr ⟨h, fun h' => absurd h' hn⟩
    · simp only [ha, if_false]
      by_cases hb : a ∈ acc.2
      · simp only [hb, if_true]
        rcases h with h | ⟨h, hn⟩
        · exact Or.inl h
        · rcases List.mem_cons.1 h with rfl | h
          · exact Or.inl hb
          · exact Or.inr ⟨h, hn⟩
      · simp only [hb, if_false, List.mem_append, List.mem_singleton]
        rcases h with h | ⟨h, hn⟩
        · exact Or.inl (Or.inl h)
        · rcases List.mem_cons.1 h with rfl | h
          · exact Or.inl (Or.inr rfl)
          · exact Or.inr ⟨h, hn⟩

/-- `profileIDToEndpointKeys` holds (p, ep) exactly when endpoint `ep` currently lists `p`. -/
def RefInv (st : Arc R) : Prop :=
  ∀ p ep, (p, ep) ∈ st.refs ↔ ∃ ids, alGet ep st.epProfiles = some ids ∧ p ∈ ids

theorem sendProfileUpdate_frame (p : String) (r : Option R) (st : Arc R) :
    (sendProfileUpdate p r st).refs = st.refs ∧ (sendProfileUpdate p r st).epProfiles = st.epProfiles ∧
    (sendProfileUpdate p r st).profiles = st.profiles := by
  unfold sendProfileUpdate
  split
  · cases r <;> exact ⟨rfl, rfl, rfl⟩
  · exact ⟨rfl, rfl, rfl⟩

theorem addOne_frame (ep id : String) (st : Arc R) :
    (∀ x, x ∈ (addOne ep st id).refs ↔ x ∈ st.refs ∨ x = (id, ep)) ∧
    (addOne ep st id).epProfiles = st.epProfiles ∧ (addOne ep st id).profiles = st.profiles := by
  have hput : (∀ x, x ∈ (putRef id ep st).refs ↔ x ∈ st.refs ∨ x = (id, ep)) ∧
      (putRef id ep st).epProfiles = st.epProfiles ∧ (putRef id ep st).profiles = st.profiles := by
    unfold putRef
    by_cases hm : (id, ep) ∈ st.refs
    · rw [if_pos hm]
      refine ⟨fun x => ⟨Or.inl, ?_⟩, rfl, rfl⟩
      rintro (h | rfl); exact h; exact hm
    · rw [if_neg hm]
      refine ⟨fun x => ?_, rfl, rfl⟩
      simp
  unfold addOne
  simp only
  split
  · exact hput
  · obtain ⟨f1, f2, f3⟩ := sendProfileUpdate_frame id (alGet id (putRef id ep st).profiles) (putRef id ep st)
    refine ⟨fun x => ?_, f2.trans hput.2.1, f3.trans hput.2.2⟩
    rw [f1]; exact hput.1 x

theorem removeOne_frame (ep id : String) (st : Arc R) :
    (∀ x, x ∈ (removeOne ep st id).refs ↔ x ∈ st.refs ∧ x ≠ (id, ep)) ∧
    (removeOne ep st id).epProfiles = st.epProfiles ∧ (removeOne ep st id).profiles = st.profiles := by
  have hd : (∀ x, x ∈ (discardRef id ep st).refs ↔ x ∈ st.refs ∧ x ≠ (id, ep)) := by
    intro x; unfold discardRef; simp
  unfold removeOne
  simp only
  split
  · exact ⟨hd, rfl, rfl⟩
  · obtain ⟨f1, f2, f3⟩ := sendProfileUpdate_frame id (alGet id (discardRef id ep st).profiles) (discardRef id ep st)
    refine ⟨fun x => ?_, f2, f3⟩
    rw [f1]; exact hd x

theorem foldl_addOne_frame (ep : String) (l : List String) (st : Arc R) :
    (∀ x, x ∈ (l.foldl (addOne ep) st).refs ↔ x ∈ st.refs ∨ (x.2 = ep ∧ x.1 ∈ l)) ∧
    (l.foldl (addOne ep) st).epProfiles = st.epProfiles := by
  induction l generalizing st with
  | nil => simp
  | cons a l ih =>
    rw [List.foldl_cons]
    obtain ⟨h1, h2⟩ := ih (addOne ep st a)
    obtain ⟨g1, g2, _⟩ := addOne_frame ep a st
    refine ⟨fun x => ?_, h2.trans g2⟩
    rw [h1, g1]
    simp only [List.mem_cons]
    constructor
    · rintro ((h | rfl) | ⟨h, h'⟩)
      · exact Or.inl h
      · exact Or.inr ⟨rfl, Or.inl rfl⟩
      · exact Or.inr ⟨h, Or.inr h'⟩
    · rintro (h | ⟨h, rfl | h'⟩)
      · exact Or.inl (Or.inl h)
      · exact Or.inl (Or.inr (by cases x; simp_all))
      · exact Or.inr ⟨h, h'⟩

theorem foldl_removeOne_frame (ep : String) (l : List String) (st : Arc R) :
    (∀ x, x ∈ (l.foldl (removeOne ep) st).refs ↔ x ∈ st.refs ∧ ¬ (x.2 = ep ∧ x.1 ∈ l)) ∧
    (l.foldl (removeOne ep) st).epProfiles = st.epProfiles := by
  induction l generalizing st with
  | nil => simp
  | cons a l ih =>
    rw [List.foldl_cons]
    obtain ⟨h1, h2⟩ := ih (removeOne ep st a)
    obtain ⟨g1, g2, _⟩ := removeOne_frame ep a st
    refine ⟨fun x => ?_, h2.trans g2⟩
    rw [h1, g1]
    simp only [List.mem_cons, not_and, not_or]
    constructor
    · rintro ⟨⟨h, hne⟩, h'⟩
      refine ⟨h, fun he => ⟨?_, h' he⟩⟩
      rintro rfl
      exact hne (by cases x; simp_all)
    · rintro ⟨h, h'⟩
      refine ⟨⟨h, ?_⟩, fun he => (h' he).2⟩
      rintro rfl
      exact (h' rfl).1 rfl

theorem updateEndpointProfileIDs_ref {st : Arc R} (ep : String) (ids : List String) (h : RefInv st) :
    RefInv (updateEndpointProfileIDs ep ids st) := by
  intro p e
  unfold updateEndpointProfileIDs
  simp only
  obtain ⟨r1, r2⟩ := foldl_removeOne_frame (R := R) ep
    (diffIDs ((alGet ep st.epProfiles).getD []) ids).1
    ((diffIDs ((alGet ep st.epProfiles).getD []) ids).2.foldl (addOne ep)
      { st with epProfiles := if ids.isEmpty then alErase ep st.epProfiles else alSet ep ids st.epProfiles })
  obtain ⟨a1, a2⟩ := foldl_addOne_frame (R := R) ep (diffIDs ((alGet ep st.epProfiles).getD []) ids).2
    { st with epProfiles := if ids.isEmpty then alErase ep st.epProfiles else alSet ep ids st.epProfiles }
  rw [r1, a1, r2, a2]
  simp only
  have hold : ∀ q, q ∈ (alGet ep st.epProfiles).getD [] ↔ (q, ep) ∈ st.refs := by
    intro q
    rw [h q ep]
    cases alGet ep st.epProfiles with
    | none => simp
    | some l => simp
  have hrem : ∀ q, q ∈ (diffIDs ((alGet ep st.epProfiles).getD []) ids).1 ↔ (q, ep) ∈ st.refs ∧ q ∉ ids := by
    intro q
    rw [diffIDs_eq, diff_removed]
    simp only [List.mem_eraseDups, hold]
  by_cases he : e = ep
  · subst he
    have hget : (∃ l, alGet e (if ids.isEmpty then alErase e st.epProfiles else alSet e ids st.epProfiles) = some l ∧ p ∈ l) ↔ p ∈ ids := by
      by_cases hemp : ids.isEmpty
      · simp only [hemp, if_true, alGet_alErase]
        have : ids = [] := List.isEmpty_iff.1 hemp
        simp [this]
      · simp only [hemp, Bool.false_eq_true, if_false, alGet_alSet]
        simp
    rw [hget, hrem]
    simp only [true_and]
    constructor
    · rintro ⟨h1 | h1, h2⟩
      · exact Classical.byContradiction (fun hn => h2 ⟨h1, hn⟩)
      · rw [diffIDs_eq] at h1
        rcases diff_added_sub _ _ _ h1 with h1 | h1
        · cases h1
        · exact h1
    · intro hp
      refine ⟨?_, fun h2 => h2.2 hp⟩
      by_cases hr : (p, e) ∈ st.refs
      · exact Or.inl hr
      · right
        rw [diffIDs_eq]
        apply diff_added_sup
        right
        refine ⟨hp, ?_⟩
        simp only [List.mem_eraseDups, hold]
        exact hr
  · have hne : ¬ ((p, e).2 = ep) := he
    simp only [he, false_and, or_false, not_false_eq_true, and_true]
    rw [h p e]
    by_cases hemp : ids.isEmpty
    · simp only [hemp, if_true, alGet_alErase, he, if_false]
    · simp only [hemp, Bool.false_eq_true, if_false, alGet_alSet, he]

theorem updateProfileRules_ref {st : Arc R} (p : String) (v : Option R) (h : RefInv st) :
    RefInv (updateProfileRules p v st) := by
  have key : (updateProfileRules p v st).refs = st.refs ∧ (updateProfileRules p v st).epProfiles = st.epProfiles := by
    unfold updateProfileRules
    cases v with
    | some r =>
      simp only
      split
      · exact ⟨rfl, rfl⟩
      · split
        · obtain ⟨f1, f2, _⟩ := sendProfileUpdate_frame p (some r) ({ st with profiles := alSet p r st.profiles } : Arc R)
          exact ⟨f1, f2⟩
        · exact ⟨rfl, rfl⟩
    | none =>
      simp only
      split
      · obtain ⟨f1, f2, _⟩ := sendProfileUpdate_frame p none ({ st with profiles := alErase p st.profiles } : Arc R)
        exact ⟨f1, f2⟩
      · exact ⟨rfl, rfl⟩
  intro q e
  rw [key.1, key.2]
  exact h q e

theorem run_ref {st : Arc R} (us : List (Upd R)) (h : RefInv st) : RefInv (run st us) := by
  unfold run
  induction us generalizing st with
  | nil => exact h
  | cons u us ih =>
    rw [List.foldl_cons]
    apply ih
    cases u with
    | endpoint ep ids =>
      cases ids with
      | some ids => exact updateEndpointProfileIDs_ref ep ids h
      | none => exact updateEndpointProfileIDs_ref ep [] h
    | profileRules p r => exact updateProfileRules_ref p r h

theorem refInv_new : RefInv (Arc.new R) := by
  intro p ep; simp [Arc.new]

end
end CalicoVerif.C05
