import CalicoVerif.Model.C05
/-! Helper lemmas for C05. -/
namespace CalicoVerif.C05

section AL
variable {κ β : Type} [DecidableEq κ]

@[simp] theorem alGet_nil (k : κ) : alGet k ([] : List (κ × β)) = none := rfl

theorem alGet_cons (k k' : κ) (v : β) (l : List (κ × β)) :
    alGet k ((k', v) :: l) = if k' = k then some v else alGet k l := rfl

theorem alGet_alErase (k k' : κ) (l : List (κ × β)) :
    alGet k' (alErase k l) = if k' = k then none else alGet k' l := by
  induction l with
  | nil => simp [alErase]
  | cons p l ih =>
    obtain ⟨a, b⟩ := p
    unfold alErase at ih ⊢
    by_cases h : a = k
    · subst h
      simp only [List.filter_cons, ne_eq, not_true_eq_false, decide_false, Bool.false_eq_true, if_false, ih, alGet_cons]
      by_cases h' : k' = a <;> simp [h']
      intro h''; exact absurd h''.symm h'
    · simp only [List.filter_cons, ne_eq, h, not_false_eq_true, decide_true, if_true, alGet_cons, ih]
      by_cases h' : k' = k
      · subst h'; simp [h]
      · simp [h']

theorem alGet_alSet (k k' : κ) (v : β) (l : List (κ × β)) :
    alGet k' (alSet k v l) = if k' = k then some v else alGet k' l := by
  unfold alSet
  rw [alGet_cons, alGet_alErase]
  by_cases h : k' = k
  · subst h; simp
  · have : ¬ k = k' := fun e => h e.symm
    simp [h, this]

end AL

set_option linter.unusedSectionVars false
section
variable {R : Type} [DecidableEq R]

/-- what the rule scanner must hold for an active profile -/
def outOf (st : Arc R) (p : String) : OutRules R :=
  match alGet p st.profiles with
  | some r => .real r
  | none => .dummyDrop

/-- **View invariant**: the rule scanner holds exactly the active profiles, each with its real
rules if the profile is known and with the deny stand-in otherwise. -/
def ViewInv (st : Arc R) : Prop :=
  ∀ p, alGet p (view st.out) = if isActive st p then some (outOf st p) else none

theorem view_append (es : List (Event R)) (e : Event R) : view (es ++ [e]) = applyEvent (view es) e := by
  simp [view, List.foldl_append]

theorem isActive_iff (st : Arc R) (p : String) : isActive st p = true ↔ ∃ ep, (p, ep) ∈ st.refs := by
  unfold isActive
  simp only [List.any_eq_true, beq_iff_eq]
  constructor
  · rintro ⟨x, hx, rfl⟩; exact ⟨x.2, hx⟩
  · rintro ⟨ep, h⟩; exact ⟨_, h, rfl⟩

/-- `sendProfileUpdate p (allProfileRules[p])` re-establishes the invariant at `p` whatever the
view held for `p` before, and leaves every other profile alone. -/
theorem sendProfileUpdate_view {st : Arc R} {p : String}
    (h : ∀ q, q ≠ p → alGet q (view st.out) = if isActive st q then some (outOf st q) else none) :
    ViewInv (sendProfileUpdate p (alGet p st.profiles) st) := by
  intro q
  unfold sendProfileUpdate
  by_cases ha : isActive st p = true
  · simp only [ha, if_true]
    cases hr : alGet p st.profiles with
    | none =>
      simp only [view_append, applyEvent, alGet_alSet]
      by_cases hq : q = p
      · subst hq
        have : isActive { st with out := st.out ++ [Event.active q OutRules.dummyDrop] } q = true := ha
        simp [this, outOf, hr]
      · simp only [hq, if_false]
        exact h q hq
    | some r =>
      simp only [view_append, applyEvent, alGet_alSet]
      by_cases hq : q = p
      · subst hq
        have : isActive { st with out := st.out ++ [Event.active q (OutRules.real r)] } q = true := ha
        simp [this, outOf, hr]
      · simp only [hq, if_false]
        exact h q hq
  · simp only [ha, Bool.false_eq_true, if_false]
    simp only [view_append, applyEvent, alGet_alErase]
    by_cases hq : q = p
    · subst hq
      have ha' : isActive st q = false := by simpa using ha
      have : isActive { st with out := st.out ++ [Event.inactive q] } q = false := ha'
      simp [this]
    · simp only [hq, if_false]
      exact h q hq

theorem viewInv_of_same {st st' : Arc R} (h : ViewInv st) (ho : st'.out = st.out)
    (hp : st'.profiles = st.profiles) (ha : ∀ q, isActive st' q = isActive st q) : ViewInv st' := by
  intro q
  rw [ho, ha, h q]
  unfold outOf
  rw [hp]

theorem isActive_putRef (st : Arc R) (p ep q : String) :
    isActive (putRef p ep st) q = true ↔ (isActive st q = true ∨ q = p) := by
  unfold putRef
  by_cases hm : (p, ep) ∈ st.refs
  · simp only [hm, if_true]
    constructor
    · exact Or.inl
    · rintro (h | rfl)
      · exact h
      · exact (isActive_iff st q).2 ⟨ep, hm⟩
  · simp only [hm, if_false]
    rw [isActive_iff, isActive_iff]
    simp only [List.mem_append, List.mem_singleton, Prod.mk.injEq]
    constructor
    · rintro ⟨e, h | ⟨h, _⟩⟩
      · exact Or.inl ⟨e, h⟩
      · exact Or.inr h
    · rintro (⟨e, h⟩ | rfl)
      · exact ⟨e, Or.inl h⟩
      · exact ⟨ep, Or.inr ⟨rfl, rfl⟩⟩

theorem isActive_discardRef_ne (st : Arc R) (p ep q : String) (hq : q ≠ p) :
    isActive (discardRef p ep st) q = isActive st q := by
  have : ∀ b c : Bool, (b = true ↔ c = true) → b = c := by
    intro b c h; cases b <;> cases c <;> simp_all
  apply this
  rw [isActive_iff, isActive_iff]
  unfold discardRef
  simp only [List.mem_filter, decide_eq_true_eq, ne_eq, Prod.mk.injEq, not_and]
  constructor
  · rintro ⟨e, h, _⟩; exact ⟨e, h⟩
  · rintro ⟨e, h⟩; exact ⟨e, h, fun h' => absurd h' hq⟩

theorem isActive_discardRef_sub (st : Arc R) (p ep q : String) (h : isActive (discardRef p ep st) q = true) :
    isActive st q = true := by
  rw [isActive_iff] at h ⊢
  obtain ⟨e, he⟩ := h
  exact ⟨e, (List.mem_filter.1 he).1⟩

theorem bool_eq_of_iff {b c : Bool} (h : b = true ↔ c = true) : b = c := by
  cases b <;> cases c <;> simp_all

theorem addOne_view {st : Arc R} (ep id : String) (h : ViewInv st) : ViewInv (addOne ep st id) := by
  unfold addOne
  by_cases ha : isActive st id = true
  · simp only [ha, if_true]
    apply viewInv_of_same h rfl rfl
    intro q
    apply bool_eq_of_iff
    rw [isActive_putRef]
    constructor
    · rintro (h' | rfl)
      · exact h'
      · exact ha
    · exact Or.inl
  · simp only [ha, Bool.false_eq_true, if_false]
    apply sendProfileUpdate_view
    intro q hq
    have : isActive (putRef id ep st) q = isActive st q := by
      apply bool_eq_of_iff
      rw [isActive_putRef]
      constructor
      · rintro (h' | h')
        · exact h'
        · exact absurd h' hq
      · exact Or.inl
    rw [this]
    exact h q

theorem removeOne_view {st : Arc R} (ep id : String) (h : ViewInv st) : ViewInv (removeOne ep st id) := by
  unfold removeOne
  by_cases ha : isActive (discardRef id ep st) id = true
  · simp only [ha, if_true]
    apply viewInv_of_same h rfl rfl
    intro q
    by_cases hq : q = id
    · subst hq; rw [ha, isActive_discardRef_sub st q ep q ha]
    · exact isActive_discardRef_ne st id ep q hq
  · simp only [ha, Bool.false_eq_true, if_false]
    apply sendProfileUpdate_view
    intro q hq
    rw [isActive_discardRef_ne st id ep q hq]
    exact h q

theorem foldl_view {α : Type} (f : Arc R → α → Arc R) (hf : ∀ st a, ViewInv st → ViewInv (f st a))
    (l : List α) (st : Arc R) (h : ViewInv st) : ViewInv (l.foldl f st) := by
  induction l generalizing st with
  | nil => exact h
  | cons a l ih => exact ih _ (hf st a h)

theorem updateEndpointProfileIDs_view {st : Arc R} (ep : String) (ids : List String) (h : ViewInv st) :
    ViewInv (updateEndpointProfileIDs ep ids st) := by
  unfold updateEndpointProfileIDs
  apply foldl_view _ (fun st a => removeOne_view ep a)
  apply foldl_view _ (fun st a => addOne_view ep a)
  exact viewInv_of_same h rfl rfl (fun _ => rfl)

theorem updateProfileRules_view {st : Arc R} (p : String) (v : Option R) (h : ViewInv st) :
    ViewInv (updateProfileRules p v st) := by
  unfold updateProfileRules
  cases v with
  | some r =>
    simp only
    split
    · exact h
    · split
      · rename_i hact
        have hg : alGet p ({ st with profiles := alSet p r st.profiles } : Arc R).profiles = some r := by
          simp [alGet_alSet]
        rw [← hg]
        apply sendProfileUpdate_view
        intro q hq
        have := h q
        simp only [outOf, alGet_alSet, hq, if_false] at this ⊢
        exact this
      · rename_i hact
        intro q
        have := h q
        by_cases hq : q = p
        · subst hq
          have hna : isActive st q = false := by simpa using hact
          have hna' : isActive ({ st with profiles := alSet q r st.profiles } : Arc R) q = false := hna
          rw [hna'] ; rw [hna] at this; simpa using this
        · simp only [outOf, alGet_alSet, hq, if_false] at this ⊢
          exact this
  | none =>
    simp only
    split
    · rename_i hact
      have hg : alGet p ({ st with profiles := alErase p st.profiles } : Arc R).profiles = none := by
        simp [alGet_alErase]
      rw [← hg]
      apply sendProfileUpdate_view
      intro q hq
      have := h q
      simp only [outOf, alGet_alErase, hq, if_false] at this ⊢
      exact this
    · rename_i hact
      intro q
      have := h q
      by_cases hq : q = p
      · subst hq
        have hna : isActive st q = false := by simpa using hact
        have hna' : isActive ({ st with profiles := alErase q st.profiles } : Arc R) q = false := hna
        rw [hna']; rw [hna] at this; simpa using this
      · simp only [outOf, alGet_alErase, hq, if_false] at this ⊢
        exact this

theorem step_view {st : Arc R} (u : Upd R) (h : ViewInv st) : ViewInv (step st u) := by
  cases u with
  | endpoint ep ids =>
    cases ids with
    | some ids => exact updateEndpointProfileIDs_view ep ids h
    | none => exact updateEndpointProfileIDs_view ep [] h
  | profileRules p r => exact updateProfileRules_view p r h

theorem run_view {st : Arc R} (us : List (Upd R)) (h : ViewInv st) : ViewInv (run st us) :=
  foldl_view step (fun st a => step_view a) us st h

theorem viewInv_new : ViewInv (Arc.new R) := by
  intro p; simp [Arc.new, view, isActive]

end
end CalicoVerif.C05
