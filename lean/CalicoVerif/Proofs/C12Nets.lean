import CalicoVerif.Proofs.C12
import CalicoVerif.Proofs.C11Bits
/-!
C12 — the checker model with literal CIDR criteria (`matchSrcNet` / `matchDstNet`) computes the
reference decision: fragment = protocol / not-protocol and IPv4 source / not-source / destination /
not-destination CIDR lists.
-/
namespace CalicoVerif.C12
open CalicoVerif.C11

/-- A rule of the L3/L4 fragment: protocol criteria and IPv4 CIDR lists only. -/
structure NetsL4 (r : Rule) : Prop where
  shape : r = { action := r.action, matchID := r.matchID, protocol := r.protocol, notProtocol := r.notProtocol,
                srcNet := r.srcNet, notSrcNet := r.notSrcNet, dstNet := r.dstNet, notDstNet := r.notDstNet }
  v4 : ∀ n ∈ r.srcNet ++ r.notSrcNet ++ r.dstNet ++ r.notDstNet, n.v6 = false

def isZeroNet (n : Net) : Bool := n.addr == 0 && n.pfx == 0

/-- The fold of `filterNets` on a list of IPv4 CIDRs, for an IPv4 program. -/
theorem filterNets_fold (negated : Bool) :
    ∀ (l : List Net) (xs : List Net) (fa : Bool), (∀ n ∈ l, n.v6 = false) →
      l.foldl (fun (acc : List Net × Bool × Bool) n =>
        if acc.2.2 then acc
        else if n.v6 != false then acc
        else if negated && n.addr == 0 && n.pfx == 0 then ([], true, true)
        else (acc.1 ++ [n], false, false)) (xs, fa, false) =
      if negated && l.any isZeroNet then ([], true, true)
      else (xs ++ l, (if l.isEmpty then fa else false), false) := by
  intro l
  induction l with
  | nil => intro xs fa _; simp
  | cons n ns ih =>
    intro xs fa h
    have hn : n.v6 = false := h n List.mem_cons_self
    have hns : ∀ m ∈ ns, m.v6 = false := fun m hm => h m (List.mem_cons_of_mem _ hm)
    simp only [List.foldl_cons, hn, bne_self_eq_false, Bool.false_eq_true, if_false]
    by_cases hz : (negated && n.addr == 0 && n.pfx == 0) = true
    · simp only [hz, if_true]
      have hz' : negated = true ∧ isZeroNet n = true := by
        simp only [Bool.and_eq_true] at hz
        exact ⟨hz.1.1, by simp [isZeroNet, hz.1.2, hz.2]⟩
      -- once aborted the state does not change
      have habort : ∀ l' : List Net, l'.foldl (fun (acc : List Net × Bool × Bool) n =>
          if acc.2.2 then acc
          else if n.v6 != false then acc
          else if negated && n.addr == 0 && n.pfx == 0 then ([], true, true)
          else (acc.1 ++ [n], false, false)) (([] : List Net), true, true) = ([], true, true) := by
        intro l'
        induction l' with
        | nil => rfl
        | cons m ms ihm => simp only [List.foldl_cons, if_true]; exact ihm
      rw [habort]
      simp [hz'.1, hz'.2]
    · have hz' : (negated && n.addr == 0 && n.pfx == 0) = false := by simpa using hz
      simp only [hz', Bool.false_eq_true, if_false]
      rw [ih (xs ++ [n]) false hns]
      have hzn : (negated && isZeroNet n) = false := by
        simp only [isZeroNet]
        cases negated <;> simp_all
      by_cases hany : (negated && ns.any isZeroNet) = true
      · have : (negated && (n :: ns).any isZeroNet) = true := by
          simp only [Bool.and_eq_true] at hany ⊢
          exact ⟨hany.1, by simp [List.any_cons, hany.2]⟩
        rw [if_pos hany, if_pos this]
      · have hany' : (negated && ns.any isZeroNet) = false := by simpa using hany
        have : (negated && (n :: ns).any isZeroNet) = false := by
          cases negated
          · rfl
          · simp only [Bool.true_and] at hzn hany' ⊢
            simp [List.any_cons, hzn, hany']
        simp only [hany', this, Bool.false_eq_true, if_false]
        simp

theorem filterNets_v4 (nets : List Net) (negated : Bool) (h : ∀ n ∈ nets, n.v6 = false) :
    filterNets nets false negated =
      if negated && nets.any isZeroNet then ([], true) else (nets, false) := by
  unfold filterNets
  by_cases he : nets.isEmpty = true
  · have : nets = [] := by simpa using he
    subst this
    simp
  · have he' : nets.isEmpty = false := by simpa using he
    simp only [he', Bool.false_eq_true, if_false]
    have := filterNets_fold negated nets [] true h
    simp only [List.nil_append, he', Bool.false_eq_true, if_false] at this
    rw [this]
    by_cases hz : (negated && nets.any isZeroNet) = true
    · simp [hz]
    · have hz' : (negated && nets.any isZeroNet) = false := by simpa using hz
      simp [hz']

theorem cidrHas4_zero (a : Nat) (n : Net) (hv : n.v6 = false) (hz : isZeroNet n = true) : cidrHas4 a n = true := by
  simp only [isZeroNet, Bool.and_eq_true, beq_iff_eq] at hz
  simp [cidrHas4, hv, hz.1, hz.2, mask32bv]

theorem cidrHas4_ref (a : Nat) (w : List (BitVec 32)) (hw : w.headD 0 = rev32bv (BitVec.ofNat 32 a)) (n : Net)
    (hv : n.v6 = false) : netContains false w n = cidrHas4 a n := by
  simp only [netContains, Bool.false_eq_true, if_false, netContains4, hw, rev32bv_rev32bv, cidrHas4, hv, Bool.not_false,
    Bool.true_and]


/-- `FilterRuleToIPVersion` (IPv4 program) on a rule of the fragment: the rule is dropped exactly when a
negated list holds 0.0.0.0/0, otherwise it is unchanged. -/
theorem filterRule_netsL4 (r : Rule) (h : NetsL4 r) :
    filterRule false r =
      if r.notSrcNet.any isZeroNet || r.notDstNet.any isZeroNet then none else some r := by
  have hv := h.v4
  simp only [List.mem_append] at hv
  have e1 := filterNets_v4 r.srcNet false (fun n hn => hv n (by simp [hn]))
  have e2 := filterNets_v4 r.notSrcNet true (fun n hn => hv n (by simp [hn]))
  have e3 := filterNets_v4 r.dstNet false (fun n hn => hv n (by simp [hn]))
  have e4 := filterNets_v4 r.notDstNet true (fun n hn => hv n (by simp [hn]))
  simp only [Bool.false_and, Bool.false_eq_true, if_false, Bool.true_and] at e1 e2 e3 e4
  have hip : r.ipVersion = 0 := by rw [h.shape]
  unfold filterRule
  simp only [hip, bne_self_eq_false, Bool.false_and, Bool.false_eq_true, if_false, e1, e2, e3, e4]
  by_cases z1 : r.notSrcNet.any isZeroNet = true
  · simp [z1]
  · have z1' : r.notSrcNet.any isZeroNet = false := by simpa using z1
    by_cases z2 : r.notDstNet.any isZeroNet = true
    · simp [z1', z2]
    · have z2' : r.notDstNet.any isZeroNet = false := by simpa using z2
      simp [z1', z2']
      cases r
      simp only at hip
      subst hip
      rfl

/-- How the flow's numeric addresses sit in the packet state (network byte order, loaded little-endian). -/
structure FlowAddrs (p : Pkt) (src dst : Nat) : Prop where
  s : p.src.headD 0 = rev32bv (BitVec.ofNat 32 src)
  d : p.postDst.headD 0 = rev32bv (BitVec.ofNat 32 dst)

theorem any_congr_mem {α : Type} (l : List α) (f g : α → Bool) (h : ∀ x ∈ l, f x = g x) : l.any f = l.any g := by
  induction l with
  | nil => rfl
  | cons x xs ih =>
    simp only [List.any_cons, h x List.mem_cons_self, ih (fun y hy => h y (List.mem_cons_of_mem _ hy))]

/-- **The checker's match (nets + protocol) = the reference match** on the fragment. -/
theorem matchRuleN_ref (env : Env) (hv4 : env.c.v6 = false) (p : Pkt) (n : Nat) (hn : 1 ≤ n) (hp : p.proto.toNat = n)
    (src dst : Nat) (hf : FlowAddrs p src dst) (r : Rule) (h : NetsL4 r) :
    matchRuleN r (n : Int) src dst =
      (match filterRule env.c.v6 r with
       | none => false
       | some fr => ruleMatch env p .dest fr) := by
  have hv := h.v4
  simp only [List.mem_append] at hv
  rw [hv4, filterRule_netsL4 r h]
  have cS : ∀ l : List Net, (∀ x ∈ l, x.v6 = false) → l.any (netContains false p.src) = l.any (cidrHas4 src) :=
    fun l hl => any_congr_mem l _ _ (fun x hx => cidrHas4_ref src p.src hf.s x (hl x hx))
  have cD : ∀ l : List Net, (∀ x ∈ l, x.v6 = false) → l.any (netContains false p.postDst) = l.any (cidrHas4 dst) :=
    fun l hl => any_congr_mem l _ _ (fun x hx => cidrHas4_ref dst p.postDst hf.d x (hl x hx))
  by_cases z : (r.notSrcNet.any isZeroNet || r.notDstNet.any isZeroNet) = true
  · rw [if_pos z]
    -- a negated 0.0.0.0/0 contains every address: the checker does not match either
    simp only [Bool.or_eq_true, List.any_eq_true] at z
    unfold matchRuleN matchNotNetC
    rcases z with ⟨x, hx, hz⟩ | ⟨x, hx, hz⟩
    · have : r.notSrcNet.any (cidrHas4 src) = true :=
        List.any_eq_true.2 ⟨x, hx, cidrHas4_zero src x (hv x (by simp [hx])) hz⟩
      simp [this]
    · have : r.notDstNet.any (cidrHas4 dst) = true :=
        List.any_eq_true.2 ⟨x, hx, cidrHas4_zero dst x (hv x (by simp [hx])) hz⟩
      simp [this]
  · rw [if_neg z]
    simp only
    have hn255 : n ≤ 255 := by have := p.proto.isLt; omega
    have hr : ¬ ((n : Int) > 255 ∨ (n : Int) < 1) := by omega
    have hall : ∀ (l : List Net) (f : Net → Bool), l.all (fun x => !f x) = !l.any f := by
      intro l f
      induction l with
      | nil => rfl
      | cons x xs ih => simp only [List.all_cons, List.any_cons, ih, Bool.not_or]
    unfold matchRuleN matchNetC matchNotNetC matchL4Protocol
    rw [h.shape]
    simp only [hr, if_false, ruleMatch, hv4, icmpIs, Pkt.addr, hall,
      cS r.srcNet (fun x hx => hv x (by simp [hx])), cS r.notSrcNet (fun x hx => hv x (by simp [hx])),
      cD r.dstNet (fun x hx => hv x (by simp [hx])), cD r.notDstNet (fun x hx => hv x (by simp [hx]))]
    cases hp1 : r.protocol <;> cases hp2 : r.notProtocol <;>
      simp [checkProto_some p n hn hp, checkProto_none, Bool.and_assoc, Bool.and_comm, Bool.and_left_comm]

/-- Rules of the fragment with an API action. -/
def RulesNetsL4 (rs : List Rule) : Prop := ∀ r ∈ rs, NetsL4 r ∧ actOf r.action ≠ .invalid

/-- `checkRules` (with CIDRs) computes the reference `evalRules` decision. -/
theorem checkRulesN_ref (env : Env) (hv4 : env.c.v6 = false) (p : Pkt) (n : Nat) (hn : 1 ≤ n) (hp : p.proto.toNat = n)
    (src dst : Nat) (hf : FlowAddrs p src dst) :
    ∀ rs : List Rule, RulesNetsL4 rs → checkRulesN (n : Int) src dst rs = some (decToCAct (evalRules env p .dest rs)) := by
  intro rs
  induction rs with
  | nil => intro _; rfl
  | cons r rs ih =>
    intro h
    have ih' := ih (fun r' hr' => h r' (List.mem_cons_of_mem _ hr'))
    obtain ⟨hpo, ha⟩ := h r (List.mem_cons_self)
    have hm := matchRuleN_ref env hv4 p n hn hp src dst hf r hpo
    simp only [checkRulesN, evalRules, hm]
    cases hfr : filterRule env.c.v6 r with
    | none => simp only [Bool.false_eq_true, if_false]; exact ih'
    | some fr =>
      simp only
      by_cases hx : ruleMatch env p .dest fr = true
      · simp only [hx, if_true]
        unfold actOf at ha ⊢
        unfold actionFromString
        simp only at ha ⊢
        generalize asciiLower r.action = s at *
        by_cases h1 : s = "allow" <;> by_cases h2 : s = "deny" <;> by_cases h3 : s = "log" <;>
          by_cases h4 : s = "pass" <;> by_cases h5 : s = "next-tier" <;> simp_all [decToCAct]
      · simp only [hx, Bool.false_eq_true, if_false]; exact ih'

def PoliciesNetsL4 (ps : List Policy) : Prop := ∀ pol ∈ ps, RulesNetsL4 pol.rules

theorem checkPoliciesN_ref (env : Env) (hv4 : env.c.v6 = false) (p : Pkt) (n : Nat) (hn : 1 ≤ n) (hp : p.proto.toNat = n)
    (src dst : Nat) (hf : FlowAddrs p src dst) :
    ∀ ps : List Policy, PoliciesNetsL4 ps →
      checkPoliciesN (n : Int) src dst ps = decToTierRes (evalPolicies env p .dest ps) := by
  intro ps
  induction ps with
  | nil => intro _; rfl
  | cons pol ps ih =>
    intro h
    have ih' := ih (fun q hq => h q (List.mem_cons_of_mem _ hq))
    have h1 := checkRulesN_ref env hv4 p n hn hp src dst hf pol.rules (h pol (List.mem_cons_self))
    simp only [checkPoliciesN, evalPolicies, h1]
    cases evalRules env p .dest pol.rules <;> simp [decToCAct, decToTierRes, ih']

theorem checkProfilesN_ref (env : Env) (hv4 : env.c.v6 = false) (p : Pkt) (n : Nat) (hn : 1 ≤ n) (hp : p.proto.toNat = n)
    (src dst : Nat) (hf : FlowAddrs p src dst) :
    ∀ ps : List Policy, PoliciesNetsL4 ps →
      checkProfilesN (n : Int) src dst ps = some (evalProfiles true env p ps == .allow) := by
  intro ps
  induction ps with
  | nil => intro _; rfl
  | cons pr ps ih =>
    intro h
    have ih' := ih (fun q hq => h q (List.mem_cons_of_mem _ hq))
    have h1 := checkRulesN_ref env hv4 p n hn hp src dst hf pr.rules (h pr (List.mem_cons_self))
    simp only [checkProfilesN, evalProfiles, h1]
    cases evalRules env p .dest pr.rules <;> simp [decToCAct, ih']

def TiersNetsL4 (ts : List Tier) : Prop := ∀ t ∈ ts, t.policies ≠ [] ∧ PoliciesNetsL4 t.policies

/-- `checkTiers` (with CIDRs) computes the reference workload verdict. -/
theorem checkTiersN_ref (env : Env) (hv4 : env.c.v6 = false) (p : Pkt) (n : Nat) (hn : 1 ≤ n) (hp : p.proto.toNat = n)
    (src dst : Nat) (hf : FlowAddrs p src dst) (profiles : List Policy) (hpr : PoliciesNetsL4 profiles) :
    ∀ ts : List Tier, TiersNetsL4 ts →
      checkTiersN (n : Int) src dst profiles ts = some ((match evalTiers env p .dest ts with
        | .allow => Verdict.allow
        | .deny => .deny
        | _ => (match evalProfiles true env p profiles with | .allow => .allow | _ => .deny)) == .allow) := by
  intro ts
  induction ts with
  | nil =>
    intro _
    simp only [checkTiersN, evalTiers, checkProfilesN_ref env hv4 p n hn hp src dst hf profiles hpr]
    cases evalProfiles true env p profiles <;> rfl
  | cons t ts ih =>
    intro h
    have ih' := ih (fun q hq => h q (List.mem_cons_of_mem _ hq))
    obtain ⟨hne, hpol⟩ := h t (List.mem_cons_self)
    have he : t.policies.isEmpty = false := by
      cases hq : t.policies with
      | nil => exact absurd hq hne
      | cons _ _ => rfl
    have h1 := checkPoliciesN_ref env hv4 p n hn hp src dst hf t.policies hpol
    simp only [checkTiersN, evalTiers, he, Bool.false_eq_true, if_false, h1]
    cases evalPolicies env p .dest t.policies <;> simp only [decToTierRes]
    · rfl
    · rfl
    · exact ih'
    · cases t.endAction <;> first | exact ih' | rfl

end CalicoVerif.C12
