import CalicoVerif.Proofs.C06StringSet
/-! C06 helper lemmas: everything the parser returns is well-formed (`WF`). -/
namespace CalicoVerif.C06

/-- What the tokenizer guarantees about token payloads. -/
def TokWF : Token → Prop
  | .label l => ValidLabel l
  | .has l => ValidLabel l
  | .str v => QuoteSafe v
  | _ => True

def TokensWF (toks : List Token) : Prop := ∀ t ∈ toks, TokWF t

theorem TokensWF.tail {t : Token} {ts : List Token} (h : TokensWF (t :: ts)) : TokensWF ts :=
  fun x hx => h x (List.mem_cons_of_mem _ hx)

theorem TokensWF.head {t : Token} {ts : List Token} (h : TokensWF (t :: ts)) : TokWF t :=
  h t (List.mem_cons_self ..)

/-! ### tokenizer -/

theorem mem_takeWhile_imp' {p : Char → Bool} {c : Char} : ∀ {l : Str}, c ∈ l.takeWhile p → p c = true
  | [], h => by cases h
  | d :: ds, h => by
    rw [List.takeWhile] at h
    split at h
    · rename_i hd
      rcases List.mem_cons.mp h with rfl | h
      · exact hd
      · exact mem_takeWhile_imp' h
    · cases h

theorem cutIdentifier_valid {s ident r : Str} (h : cutIdentifier s = .ok (ident, r)) : ValidLabel ident := by
  simp only [cutIdentifier] at h
  split at h
  · cases h
  · split at h
    · cases h
    · rename_i h1 h2
      injection h with h; injection h with h3 h4
      subst h3
      refine ⟨?_, by omega, ?_⟩
      · intro e; rw [e] at h2; exact h2 rfl
      · intro c hc; exact mem_takeWhile_imp' hc

theorem cutQuoted_safe {q : Char} {s v r : Str} (h : cutQuoted q s = .ok (v, r)) : q ∉ v := by
  unfold cutQuoted at h
  split at h
  · cases h
  · injection h with h; injection h with h3 h4
    subst h3
    intro hm
    have := mem_takeWhile_imp' hm
    simp at this

theorem nextOperator_wf {s r : Str} {tok : Token} (h : nextOperator s = .ok (tok, r)) : TokWF tok := by
  unfold nextOperator at h
  repeat' split at h
  all_goals (cases h <;> simp [TokWF])

theorem nextWord_wf {s r : Str} {tok : Token} (h : nextWord s = .ok (tok, r)) : TokWF tok := by
  unfold nextWord at h
  split at h
  · split at h
    · cases h
    · rename_i hci
      split at h
      · injection h with h; injection h with h1 h2; subst h1
        exact cutIdentifier_valid hci
      · cases h
  · split at h
    · split at h
      · injection h with h; injection h with h1 h2; subst h1; trivial
      · cases h
    · split at h
      · split at h
        · injection h with h; injection h with h1 h2; subst h1; trivial
        · cases h
      · split at h
        · rename_i hci
          injection h with h; injection h with h1 h2; subst h1
          exact cutIdentifier_valid hci
        · cases h

theorem nextToken_wf {l : Bool} {c : Char} {cs r : Str} {tok : Token}
    (h : nextToken l c cs = .ok (tok, r)) : TokWF tok := by
  unfold nextToken at h
  by_cases h1 : c = '('
  · rw [if_pos h1] at h; cases h; simp [TokWF]
  rw [if_neg h1] at h
  by_cases h2 : c = ')'
  · rw [if_pos h2] at h; cases h; simp [TokWF]
  rw [if_neg h2] at h
  by_cases h3 : c = '"'
  · rw [if_pos h3] at h
    cases hq : cutQuoted '"' cs with
    | error e => rw [hq] at h; cases h
    | ok p =>
      obtain ⟨v, r'⟩ := p
      rw [hq] at h
      cases h
      intro hd; exact absurd hd (cutQuoted_safe hq)
  rw [if_neg h3] at h
  by_cases h4 : c = '\''
  · rw [if_pos h4] at h
    cases hq : cutQuoted '\'' cs with
    | error e => rw [hq] at h; cases h
    | ok p =>
      obtain ⟨v, r'⟩ := p
      rw [hq] at h
      cases h
      intro _; exact cutQuoted_safe hq
  rw [if_neg h4] at h
  by_cases h5 : c = '{'
  · rw [if_pos h5] at h; cases h; simp [TokWF]
  rw [if_neg h5] at h
  by_cases h6 : c = '}'
  · rw [if_pos h6] at h; cases h; simp [TokWF]
  rw [if_neg h6] at h
  by_cases h7 : c = ','
  · rw [if_pos h7] at h; cases h; simp [TokWF]
  rw [if_neg h7] at h
  by_cases h8 : c = '='
  · rw [if_pos h8] at h
    split at h
    · cases h; simp [TokWF]
    · cases h
  rw [if_neg h8] at h
  by_cases h9 : c = '!'
  · rw [if_pos h9] at h
    split at h <;> (cases h; simp [TokWF])
  rw [if_neg h9] at h
  by_cases h10 : c = '&'
  · rw [if_pos h10] at h
    split at h
    · cases h; simp [TokWF]
    · cases h
  rw [if_neg h10] at h
  by_cases h11 : c = '|'
  · rw [if_pos h11] at h
    split at h
    · cases h; simp [TokWF]
    · cases h
  rw [if_neg h11] at h
  cases l with
  | true => exact nextOperator_wf h
  | false => exact nextWord_wf h

theorem tokenizeFrom_wf : ∀ (fuel : Nat) (l : Bool) (s : Str) (toks : List Token),
    tokenizeFrom fuel l s = .ok toks → TokensWF toks
  | 0, _, _, _, h => by simp [tokenizeFrom] at h
  | fuel + 1, l, s, toks, h => by
    rw [tokenizeFrom] at h
    split at h
    · injection h with h; subst h
      intro t ht; simp at ht; subst ht; trivial
    · split at h
      · cases h
      · rename_i tok rest hnt
        split at h
        · cases h
        · split at h
          · cases h
          · rename_i toks' hrec
            injection h with h; subst h
            intro t ht
            rcases List.mem_cons.mp ht with rfl | ht
            · exact nextToken_wf hnt
            · exact tokenizeFrom_wf fuel _ _ _ hrec t ht

theorem tokenize_wf {s : Str} {toks : List Token} (h : tokenize s = .ok toks) : TokensWF toks :=
  tokenizeFrom_wf _ _ _ _ h

/-! ### parser -/

theorem wf_wrapNot (b : Bool) (n : Node) : WF (wrapNot b n) ↔ WF n := by
  cases b <;> simp [wrapNot, WF]

theorem stripNots_wf : ∀ (toks : List Token) (b : Bool), TokensWF toks → TokensWF (stripNots toks b).2
  | [], _, h => by simpa [stripNots] using h
  | t :: ts, b, h => by
    cases t <;> simp only [stripNots] <;> first | exact h | exact stripNots_wf ts _ h.tail

theorem parseSetValues_wf : ∀ (toks : List Token), TokensWF toks →
    (∀ v ∈ (parseSetValues toks).1, QuoteSafe v) ∧ TokensWF (parseSetValues toks).2
  | [], h => by simp [parseSetValues]; exact h
  | [t], h => by
    cases t <;> simp [parseSetValues] <;> first | exact h | skip
    exact ⟨h.head, fun _ hx => (by cases hx)⟩
  | t :: u :: ts, h => by
    cases t with
    | str v =>
      cases u with
      | comma =>
        have ih := parseSetValues_wf ts h.tail.tail
        simp only [parseSetValues]
        refine ⟨?_, ih.2⟩
        intro w hw
        rcases List.mem_cons.mp hw with rfl | hw
        · exact h.head
        · exact ih.1 w hw
      | _ =>
        simp only [parseSetValues]
        exact ⟨fun w hw => by simp at hw; subst hw; exact h.head, h.tail⟩
    | _ => simp only [parseSetValues]; exact ⟨fun _ hx => (by cases hx), h⟩

theorem parseLabelOp_wf {l : Str} (hl : ValidLabel l) {rest : List Token} (h : TokensWF rest)
    {n : Node} {rem : List Token} (hp : parseLabelOp l rest = .ok (n, rem)) : WF n ∧ TokensWF rem := by
  unfold parseLabelOp at hp
  split at hp
  · cases hp
  · cases hp
  · rename_i op t2 rem0
    have hrem0 : TokensWF rem0 := h.tail.tail
    have ht2 : TokWF t2 := h.tail.head
    have hset := parseSetValues_wf rem0 hrem0
    have strCase : ∀ (mk : Str → Str → Node), (∀ v, QuoteSafe v → WF (mk l v)) →
        (match t2 with | .str v => (Except.ok (mk l v, rem0) : PResult) | _ => .error .expectedString) = .ok (n, rem) →
        WF n ∧ TokensWF rem := by
      intro mk hmk hp
      split at hp
      · injection hp with hp; injection hp with h1 h2; subst h1 h2
        exact ⟨hmk _ ht2, hrem0⟩
      · cases hp
    have setCase : ∀ (mk : Str → List Str → Node),
        (∀ vs, (∀ v ∈ vs, QuoteSafe v) → StrictSorted vs → WF (mk l vs)) →
        (match t2 with
          | .lBrace =>
            (match (parseSetValues rem0).2 with
            | .rBrace :: rem'' => (Except.ok (mk l (convertToStringSet (parseSetValues rem0).1), rem'') : PResult)
            | _ => .error .expectedRBrace)
          | _ => .error .expectedSetLit) = .ok (n, rem) →
        WF n ∧ TokensWF rem := by
      intro mk hmk hp
      split at hp
      · split at hp
        · rename_i rem'' heq
          injection hp with hp; injection hp with h1 h2; subst h1 h2
          refine ⟨hmk _ ?_ (strictSorted_convertToStringSet _), ?_⟩
          · intro v hv; exact hset.1 v (mem_convertToStringSet.mp hv)
          · have := hset.2; rw [heq] at this; exact this.tail
        · cases hp
      · cases hp
    cases op <;> simp only [] at hp <;> try (cases hp; done)
    · exact strCase .eq (fun v hv => by rw [WF]; exact ⟨hl, hv⟩) hp
    · exact strCase .ne (fun v hv => by rw [WF]; exact ⟨hl, hv⟩) hp
    · exact setCase .inSet (fun vs h1 h2 => by rw [WF]; exact ⟨hl, h1, h2⟩) hp
    · exact setCase .notInSet (fun vs h1 h2 => by rw [WF]; exact ⟨hl, h1, h2⟩) hp
    · exact strCase .contains (fun v hv => by rw [WF]; exact ⟨hl, hv⟩) hp
    · exact strCase .startsWith (fun v hv => by rw [WF]; exact ⟨hl, hv⟩) hp
    · exact strCase .endsWith (fun v hv => by rw [WF]; exact ⟨hl, hv⟩) hp

/-- What the loops need to know about the operation parser. -/
def OpWF (op : List Token → PResult) : Prop :=
  ∀ toks n rem, TokensWF toks → op toks = .ok (n, rem) → WF n ∧ TokensWF rem

theorem wf_mkAnd {n : Node} {ns : List Node} (hn : WF n) (hns : ∀ m ∈ ns, WF m) : WF (mkAnd (n :: ns)) := by
  cases ns with
  | nil => simpa [mkAnd] using hn
  | cons m ms =>
    simp only [mkAnd, WF, wfList_iff]
    exact ⟨by simp, fun x hx => by
      rcases List.mem_cons.mp hx with rfl | hx
      · exact hn
      · exact hns x hx⟩

theorem wf_mkOr {n : Node} {ns : List Node} (hn : WF n) (hns : ∀ m ∈ ns, WF m) : WF (mkOr (n :: ns)) := by
  cases ns with
  | nil => simpa [mkOr] using hn
  | cons m ms =>
    simp only [mkOr, WF, wfList_iff]
    exact ⟨by simp, fun x hx => by
      rcases List.mem_cons.mp hx with rfl | hx
      · exact hn
      · exact hns x hx⟩

theorem andRest_wf {op : List Token → PResult} (hop : OpWF op) : ∀ (fuel : Nat) (toks : List Token)
    (ns : List Node) (rem : List Token), TokensWF toks → andRest op fuel toks = .ok (ns, rem) →
    (∀ m ∈ ns, WF m) ∧ TokensWF rem := by
  intro fuel
  induction fuel with
  | zero =>
    intro toks ns rem htoks h
    unfold andRest at h
    split at h
    · rename_i heq; cases heq
    · cases h
    · injection h with h; injection h with h1 h2; subst h1 h2
      exact ⟨fun _ hm => (by cases hm), htoks⟩
  | succ fuel ih =>
    intro toks ns rem htoks h
    unfold andRest at h
    split at h
    · rename_i f rem0 heq
      split at h
      · cases h
      · rename_i n rem' hopr
        split at h
        · cases h
        · rename_i ns' rem'' hrec
          injection h with h; injection h with h1 h2; subst h1 h2
          have h1 := hop _ _ _ htoks.tail hopr
          have hf : f = fuel := by omega
          subst hf
          have h2 := ih _ _ _ h1.2 hrec
          refine ⟨fun m hm => ?_, h2.2⟩
          rcases List.mem_cons.mp hm with rfl | hm
          · exact h1.1
          · exact h2.1 m hm
    · rename_i heq; cases heq
    · injection h with h; injection h with h1 h2; subst h1 h2
      exact ⟨fun _ hm => (by cases hm), htoks⟩

theorem parseAndWith_wf {op : List Token → PResult} (hop : OpWF op) (fuel : Nat) : OpWF (parseAndWith op fuel) := by
  intro toks n rem htoks h
  unfold parseAndWith at h
  split at h
  · cases h
  · rename_i n0 rem0 hopr
    split at h
    · cases h
    · rename_i ns rem' hrest
      injection h with h; injection h with h1 h2; subst h1 h2
      have h1 := hop _ _ _ htoks hopr
      have h2 := andRest_wf hop _ _ _ _ h1.2 hrest
      exact ⟨wf_mkAnd h1.1 h2.1, h2.2⟩

theorem orRest_wf {op : List Token → PResult} (hop : OpWF op) (fuelAnd : Nat) : ∀ (fuel : Nat) (toks : List Token)
    (ns : List Node) (rem : List Token), TokensWF toks → orRest op fuelAnd fuel toks = .ok (ns, rem) →
    (∀ m ∈ ns, WF m) ∧ TokensWF rem := by
  intro fuel
  induction fuel with
  | zero =>
    intro toks ns rem htoks h
    unfold orRest at h
    split at h
    · rename_i heq; cases heq
    · cases h
    · injection h with h; injection h with h1 h2; subst h1 h2
      exact ⟨fun _ hm => (by cases hm), htoks⟩
  | succ fuel ih =>
    intro toks ns rem htoks h
    unfold orRest at h
    split at h
    · rename_i f rem0 heq
      split at h
      · cases h
      · rename_i n rem' hopr
        split at h
        · cases h
        · rename_i ns' rem'' hrec
          injection h with h; injection h with h1 h2; subst h1 h2
          have h1 := parseAndWith_wf hop fuelAnd _ _ _ htoks.tail hopr
          have hf : f = fuel := by omega
          subst hf
          have h2 := ih _ _ _ h1.2 hrec
          refine ⟨fun m hm => ?_, h2.2⟩
          rcases List.mem_cons.mp hm with rfl | hm
          · exact h1.1
          · exact h2.1 m hm
    · rename_i heq; cases heq
    · injection h with h; injection h with h1 h2; subst h1 h2
      exact ⟨fun _ hm => (by cases hm), htoks⟩

theorem parseOrWith_wf {op : List Token → PResult} (hop : OpWF op) (fuel : Nat) : OpWF (parseOrWith op fuel) := by
  intro toks n rem htoks h
  unfold parseOrWith at h
  split at h
  · cases h
  · rename_i n0 rem0 hopr
    split at h
    · cases h
    · rename_i ns rem' hrest
      injection h with h; injection h with h1 h2; subst h1 h2
      have h1 := parseAndWith_wf hop fuel _ _ _ htoks hopr
      have h2 := orRest_wf hop fuel _ _ _ _ h1.2 hrest
      exact ⟨wf_mkOr h1.1 h2.1, h2.2⟩

theorem parseOperation_wf : ∀ fuel : Nat, OpWF (parseOperation fuel) := by
  intro fuel
  induction fuel with
  | zero =>
    intro toks n rem _ h
    cases toks <;> simp [parseOperation] at h
  | succ fuel ih =>
    intro toks n rem htoks h
    cases toks with
    | nil => simp [parseOperation] at h
    | cons t ts =>
      rw [parseOperation] at h
      have hs := stripNots_wf (t :: ts) false htoks
      generalize stripNots (t :: ts) false = sn at h hs
      obtain ⟨negated, toks'⟩ := sn
      simp only [] at h hs
      split at h
      · cases h
      · rename_i n0 rem0 hr
        injection h with h; injection h with h1 h2; subst h1 h2
        rw [show (if negated = true then n0.not else n0) = wrapNot negated n0 from rfl, wf_wrapNot]
        split at hr
        · injection hr with hr; injection hr with h1 h2; subst h1 h2
          exact ⟨hs.head, hs.tail⟩
        · injection hr with hr; injection hr with h1 h2; subst h1 h2
          exact ⟨trivial, hs.tail⟩
        · injection hr with hr; injection hr with h1 h2; subst h1 h2
          exact ⟨trivial, hs.tail⟩
        · exact parseLabelOp_wf hs.head hs.tail hr
        · split at hr
          · cases hr
          · rename_i n1 rem1 hor
            have h1 := parseOrWith_wf ih fuel _ _ _ hs.tail hor
            split at hr
            · injection hr with hr; injection hr with h3 h4; subst h3 h4
              exact ⟨h1.1, h1.2.tail⟩
            · cases hr
        · cases hr

/-- MAIN: every tree the parser returns is well-formed. -/
theorem parse_wf_aux {s : Str} {t : Node} (h : parse s = .ok t) : WF t := by
  unfold parse at h
  split at h
  · cases h
  · rename_i tokens htok
    split at h
    · injection h with h; subst h; trivial
    · split at h
      · cases h
      · rename_i n rem hp
        split at h
        · cases h
        · injection h with h; subst h
          exact (parseOrWith_wf (parseOperation_wf _) _ _ _ _ (tokenize_wf htok) hp).1

end CalicoVerif.C06
