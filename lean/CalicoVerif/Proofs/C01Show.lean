import CalicoVerif.Model.C01
/-! C01 helper: the member strings handed to the EventSequencer determine the member (`showMember` is
injective): decimal rendering is injective and contains no '/'. -/
namespace CalicoVerif.C01
open CalicoVerif

def valLE : List Nat → Nat
  | [] => 0
  | d :: t => d + 10 * valLE t

theorem valLE_digitsLE : ∀ (f n : Nat), n < f → valLE (digitsLE f n) = n
  | 0, _, h => by omega
  | f + 1, n, h => by
    simp only [digitsLE]
    by_cases h0 : n / 10 = 0
    · simp only [h0, if_true, valLE]
      omega
    · simp only [h0, if_false, valLE]
      have : n / 10 < f := by omega
      rw [valLE_digitsLE f (n / 10) this]
      omega

theorem digitsLE_lt : ∀ (f n : Nat), ∀ d ∈ digitsLE f n, d < 10
  | 0, _, d, h => by cases h
  | f + 1, n, d, h => by
    simp only [digitsLE, List.mem_cons] at h
    rcases h with h | h
    · omega
    · by_cases h0 : n / 10 = 0
      · simp [h0] at h
      · simp only [h0, if_false] at h
        exact digitsLE_lt f (n / 10) d h

theorem digitChar_inj {a b : Nat} (ha : a < 10) (hb : b < 10) (h : digitChar a = digitChar b) : a = b := by
  have key : ∀ a : Fin 10, ∀ b : Fin 10, Char.ofNat (48 + a.val) = Char.ofNat (48 + b.val) → a = b := by decide
  have := key ⟨a, ha⟩ ⟨b, hb⟩ h
  exact congrArg Fin.val this

theorem digitChar_ne_slash {a : Nat} (ha : a < 10) : digitChar a ≠ '/' := by
  have key : ∀ a : Fin 10, Char.ofNat (48 + a.val) ≠ '/' := by decide
  exact key ⟨a, ha⟩

theorem map_digitChar_inj : ∀ {l1 l2 : List Nat}, (∀ d ∈ l1, d < 10) → (∀ d ∈ l2, d < 10) →
    l1.map digitChar = l2.map digitChar → l1 = l2
  | [], [], _, _, _ => rfl
  | [], _ :: _, _, _, h => by cases h
  | _ :: _, [], _, _, h => by cases h
  | a :: t1, b :: t2, h1, h2, h => by
    simp only [List.map_cons, List.cons.injEq] at h
    have e := digitChar_inj (h1 a (List.mem_cons_self ..)) (h2 b (List.mem_cons_self ..)) h.1
    rw [e, map_digitChar_inj (fun d hd => h1 d (List.mem_cons_of_mem _ hd)) (fun d hd => h2 d (List.mem_cons_of_mem _ hd)) h.2]

theorem showNatL_inj {a b : Nat} (h : showNatL a = showNatL b) : a = b := by
  unfold showNatL at h
  have h1 : ∀ d ∈ (digitsLE (a + 1) a).reverse, d < 10 := fun d hd => digitsLE_lt _ _ d (List.mem_reverse.mp hd)
  have h2 : ∀ d ∈ (digitsLE (b + 1) b).reverse, d < 10 := fun d hd => digitsLE_lt _ _ d (List.mem_reverse.mp hd)
  have e := map_digitChar_inj h1 h2 h
  have e2 : digitsLE (a + 1) a = digitsLE (b + 1) b := List.reverse_inj.mp e
  have := congrArg valLE e2
  rw [valLE_digitsLE _ _ (Nat.lt_succ_self a), valLE_digitsLE _ _ (Nat.lt_succ_self b)] at this
  exact this

theorem slash_not_mem_showNatL (n : Nat) : '/' ∉ showNatL n := by
  unfold showNatL
  intro h
  obtain ⟨d, hd, he⟩ := List.mem_map.mp h
  exact digitChar_ne_slash (digitsLE_lt _ _ d (List.mem_reverse.mp hd)) he

/-- splitting at the first separator is unambiguous -/
theorem append_sep_inj {α : Type} {x : α} : ∀ {l1 l2 r1 r2 : List α}, x ∉ l1 → x ∉ l2 →
    l1 ++ x :: r1 = l2 ++ x :: r2 → l1 = l2 ∧ r1 = r2
  | [], [], _, _, _, _, h => by simp only [List.nil_append, List.cons.injEq, true_and] at h; exact ⟨rfl, h⟩
  | [], b :: t2, _, _, _, h2, h => by
    simp only [List.nil_append, List.cons_append, List.cons.injEq] at h
    exact absurd (by rw [h.1]; exact List.mem_cons_self ..) h2
  | a :: t1, [], _, _, h1, _, h => by
    simp only [List.nil_append, List.cons_append, List.cons.injEq] at h
    exact absurd (by rw [← h.1]; exact List.mem_cons_self ..) h1
  | a :: t1, b :: t2, r1, r2, h1, h2, h => by
    simp only [List.cons_append, List.cons.injEq] at h
    obtain ⟨e1, e2⟩ := append_sep_inj (fun hx => h1 (List.mem_cons_of_mem _ hx)) (fun hx => h2 (List.mem_cons_of_mem _ hx)) h.2
    exact ⟨by rw [h.1, e1], e2⟩

theorem showNat_sep_inj {a b : Nat} {r1 r2 : List Char} (h : showNatL a ++ '/' :: r1 = showNatL b ++ '/' :: r2) :
    a = b ∧ r1 = r2 := by
  obtain ⟨e1, e2⟩ := append_sep_inj (slash_not_mem_showNatL a) (slash_not_mem_showNatL b) h
  exact ⟨showNatL_inj e1, e2⟩

theorem famChar_inj {a b : Bool} (h : (if a then '6' else '4') = (if b then '6' else '4')) : a = b := by
  cases a <;> cases b <;> simp at h <;> rfl

theorem showMemberL_inj {m1 m2 : C04.Member} (h : showMemberL m1 = showMemberL m2) : m1 = m2 := by
  cases m1 with
  | cidr c1 =>
    cases m2 with
    | cidr c2 =>
      simp only [showMemberL, showCidrL, List.cons.injEq, true_and] at h
      obtain ⟨hv, hrest⟩ := h
      obtain ⟨ha, hl⟩ := showNat_sep_inj hrest
      have hl' := showNatL_inj hl
      obtain ⟨v1, a1, l1⟩ := c1
      obtain ⟨v2, a2, l2⟩ := c2
      simp only [] at hv ha hl'
      rw [famChar_inj hv, ha, hl']
    | ipp v a po pr =>
      simp only [showMemberL, List.cons.injEq] at h
      exact absurd h.1 (by decide)
  | ipp v1 a1 po1 pr1 =>
    cases m2 with
    | cidr c2 =>
      simp only [showMemberL, List.cons.injEq] at h
      exact absurd h.1 (by decide)
    | ipp v2 a2 po2 pr2 =>
      simp only [showMemberL, List.cons.injEq, true_and] at h
      obtain ⟨hv, hrest⟩ := h
      obtain ⟨ha, hrest2⟩ := showNat_sep_inj hrest
      obtain ⟨hpr, hpo⟩ := showNat_sep_inj hrest2
      rw [famChar_inj hv, ha, hpr, showNatL_inj hpo]

/-- the member string determines the member -/
theorem showMember_inj {m1 m2 : C04.Member} (h : showMember m1 = showMember m2) : m1 = m2 :=
  showMemberL_inj (String.ofList_inj.mp h)

end CalicoVerif.C01
