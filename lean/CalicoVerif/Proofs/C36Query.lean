import CalicoVerif.Proofs.C36Trie
/-!
C36 helper lemmas, part 4: the read-only queries against the stored prefixes.
-/
namespace CalicoVerif.C36
variable {W : Nat} {α : Type}
open Node

/-- If something stored on side `j` of `c` covers `q`, the walk for `q` goes to side `j`. -/
theorem side_of_covers {c x q : Pfx} {j : Nat} (hc : c.WF W) (hq : q.WF W)
    (hu : x.WF W ∧ Under W c j x) (h : x.covers W q = true) : nthBit W q.addr (c.len + 1) = j :=
  (hu.2.covers_of_covers hc hu.1 hq h).1

/-- If `q` covers something on side `j` of `c` and `q` is strictly below `c`, the walk goes to side `j`. -/
theorem side_of_covered {c x q : Pfx} {j : Nat} (hq : q.WF W)
    (hu : x.WF W ∧ Under W c j x) (h : q.covers W x = true) (hl : c.len < q.len) :
    nthBit W q.addr (c.len + 1) = j := by
  have := covers_bit hq hu.1 h (j := c.len) hl
  unfold Pfx.bit at this
  rw [← this]; exact hu.2.2.2

theorem tcovers_iff : ∀ {t : Node α}, t.Inv W → ∀ {q : Pfx}, q.WF W →
    (t.covers W q = true ↔ ∃ p v, (p, v) ∈ t.toList ∧ p.covers W q = true)
  | .nil, _, q, _ => by simp [Node.covers, toList]
  | .node c d l r, hi, q, hq => by
    have hc := hi.1
    have ihl := tcovers_iff hi.2.2.2.1 hq
    have ihr := tcovers_iff hi.2.2.2.2.1 hq
    unfold Node.covers
    split
    · rename_i h
      simp only [Bool.false_eq_true, false_iff]
      rintro ⟨x, v, hm, hx⟩
      have := Inv.mem_root hi hm
      exact h ((commonPrefix_eq_left_iff hc hq).2 (covers_trans hc this.1 hq this.2 hx))
    · rename_i h
      have hcq : c.covers W q = true := (commonPrefix_eq_left_iff hc hq).1 (by simpa using h)
      split
      · rename_i hd
        simp only [true_iff]
        obtain ⟨v, hv⟩ := Option.isSome_iff_exists.1 hd
        exact ⟨c, v, mem_toList_node.2 (Or.inl ⟨rfl, hv⟩), hcq⟩
      · rename_i hd
        have hdn : d = none := by cases d <;> simp_all
        split
        · rename_i hb
          rw [ihl]
          constructor
          · rintro ⟨x, v, hm, hx⟩; exact ⟨x, v, mem_toList_node.2 (Or.inr (Or.inl hm)), hx⟩
          · rintro ⟨x, v, hm, hx⟩
            rcases mem_toList_node.1 hm with ⟨_, h2⟩ | h2 | h2
            · rw [hdn] at h2; cases h2
            · exact ⟨x, v, h2, hx⟩
            · have := side_of_covers hc hq (All.mem hi.2.2.1 h2) hx
              omega
        · rename_i hb
          rw [ihr]
          constructor
          · rintro ⟨x, v, hm, hx⟩; exact ⟨x, v, mem_toList_node.2 (Or.inr (Or.inr hm)), hx⟩
          · rintro ⟨x, v, hm, hx⟩
            rcases mem_toList_node.1 hm with ⟨_, h2⟩ | h2 | h2
            · rw [hdn] at h2; cases h2
            · have := side_of_covers hc hq (All.mem hi.2.1 h2) hx
              omega
            · exact ⟨x, v, h2, hx⟩

theorem tintersects_iff : ∀ {t : Node α}, t.Inv W → ∀ {q : Pfx}, q.WF W →
    (t.intersects W q = true ↔ ∃ p v, (p, v) ∈ t.toList ∧ q.covers W p = true)
  | .nil, _, q, _ => by simp [Node.intersects, toList]
  | .node c d l r, hi, q, hq => by
    have hc := hi.1
    have ihl := tintersects_iff hi.2.2.2.1 hq
    have ihr := tintersects_iff hi.2.2.2.2.1 hq
    unfold Node.intersects
    simp only
    split
    · rename_i h
      have hqc : q.covers W c = true := (commonPrefix_eq_right_iff hc hq).1 h
      simp only [true_iff]
      obtain ⟨x, v, hm⟩ := Inv.exists_mem hi rfl
      have := Inv.mem_root hi hm
      exact ⟨x, v, hm, covers_trans hq hc this.1 hqc this.2⟩
    · rename_i h
      have hnqc : ¬ q.covers W c = true := fun e => h ((commonPrefix_eq_right_iff hc hq).2 e)
      split
      · rename_i h2
        have hncq : ¬ c.covers W q = true := fun e => h2 ((commonPrefix_eq_left_iff hc hq).2 e)
        simp only [Bool.false_eq_true, false_iff]
        rintro ⟨x, v, hm, hx⟩
        have hr := Inv.mem_root hi hm
        by_cases hl : q.len ≤ c.len
        · exact hnqc (covers_linear hq hc hr.1 hx hr.2 hl)
        · exact hncq (covers_linear hc hq hr.1 hr.2 hx (by omega))
      · rename_i h2
        have hcq : c.covers W q = true := (commonPrefix_eq_left_iff hc hq).1 (by simpa using h2)
        have hlt : c.len < q.len := by
          have := covers_len hc hq hcq
          by_cases hl : c.len < q.len
          · exact hl
          · exfalso
            have := covers_eq_of_len hc hq hcq (by omega)
            rw [this] at hnqc
            exact hnqc (covers_refl hq)
        have hnc : ∀ {v : α}, ¬ ((c, v) ∈ (node c d l r).toList ∧ q.covers W c = true) := fun h => hnqc h.2
        split
        · rename_i hb
          rw [ihl]
          constructor
          · rintro ⟨x, v, hm, hx⟩; exact ⟨x, v, mem_toList_node.2 (Or.inr (Or.inl hm)), hx⟩
          · rintro ⟨x, v, hm, hx⟩
            rcases mem_toList_node.1 hm with ⟨h1, _⟩ | h2 | h2
            · rw [h1] at hx; exact absurd hx hnqc
            · exact ⟨x, v, h2, hx⟩
            · have := side_of_covered hq (All.mem hi.2.2.1 h2) hx hlt
              omega
        · rename_i hb
          rw [ihr]
          constructor
          · rintro ⟨x, v, hm, hx⟩; exact ⟨x, v, mem_toList_node.2 (Or.inr (Or.inr hm)), hx⟩
          · rintro ⟨x, v, hm, hx⟩
            rcases mem_toList_node.1 hm with ⟨h1, _⟩ | h2 | h2
            · rw [h1] at hx; exact absurd hx hnqc
            · have := side_of_covered hq (All.mem hi.2.1 h2) hx hlt
              omega
            · exact ⟨x, v, h2, hx⟩

/-- `IsLpm es q p v`: `p ↦ v` is the longest stored prefix covering `q`. -/
def IsLpm (W : Nat) (es : List (Pfx × α)) (q : Pfx) (p : Pfx) (v : α) : Prop :=
  (p, v) ∈ es ∧ p.covers W q = true ∧ ∀ p' v', (p', v') ∈ es → p'.covers W q = true → p'.len ≤ p.len

/-- The walk never meets a node that contains `q`'s base address but is longer than `q`. -/
def LpmSafe (W : Nat) (t : Node α) (q : Pfx) : Prop :=
  t.All (fun x => x.contains W q.addr = true → x.len ≤ q.len)

/-- The walk of `LPM(q)` only meets nodes that are not longer than `q` (weaker than `LpmSafe`:
only the nodes actually visited matter; the walk stops at `q` itself). -/
def WalkOk (W : Nat) : Node α → Pfx → Prop
  | .nil, _ => True
  | .node c _ l r, q => c.contains W q.addr = true →
      c.len ≤ q.len ∧ (q ≠ c → (nthBit W q.addr (c.len + 1) = 0 → WalkOk W l q) ∧
        (¬ nthBit W q.addr (c.len + 1) = 0 → WalkOk W r q))

theorem lpmGo_spec : ∀ {t : Node α}, t.Inv W → ∀ {q : Pfx}, q.WF W → WalkOk W t q → ∀ m,
    (∃ p v, t.lpmGo W q m = some (p, v) ∧ IsLpm W t.toList q p v) ∨
    (t.lpmGo W q m = m ∧ ∀ p v, (p, v) ∈ t.toList → ¬ p.covers W q = true)
  | .nil, _, q, _, _, m => Or.inr ⟨rfl, fun p v h => absurd h not_mem_nil⟩
  | .node c d l r, hi, q, hq, hs, m => by
    have hc := hi.1
    unfold lpmGo
    split
    · rename_i hnc
      refine Or.inr ⟨rfl, fun p v hm hx => ?_⟩
      have := Inv.mem_root hi hm
      have := contains_of_covers hc hq (covers_trans hc this.1 hq this.2 hx)
      simp [this] at hnc
    · rename_i hcont
      have hcont : c.contains W q.addr = true := by simpa using hcont
      have hle : c.len ≤ q.len := (hs hcont).1
      have hcq : c.covers W q = true := (contains_iff_covers hc hq hle).1 hcont
      have hchild : ∀ {j : Nat} {ch : Node α}, ch.All (fun x => x.WF W ∧ Under W c j x) → q.len ≤ c.len →
          ∀ p v, (p, v) ∈ ch.toList → ¬ p.covers W q = true := by
        intro j ch ha hl p v hm hx
        have hu := All.mem ha hm
        have := covers_len hu.1 hq hx
        have := hu.2.2.1
        omega
      simp only
      split
      · rename_i he
        subst he
        cases d with
        | some v =>
          refine Or.inl ⟨q, v, rfl, mem_toList_node.2 (Or.inl ⟨rfl, rfl⟩), hcq, fun p' v' hm hx => ?_⟩
          exact covers_len (Inv.mem_wf hi hm) hq hx
        | none =>
          refine Or.inr ⟨rfl, fun p v hm hx => ?_⟩
          rcases mem_toList_node.1 hm with ⟨_, h2⟩ | h2 | h2
          · cases h2
          · exact hchild hi.2.1 (Nat.le_refl _) p v h2 hx
          · exact hchild hi.2.2.1 (Nat.le_refl _) p v h2 hx
      · rename_i hne
        have hlt : c.len < q.len := by
          by_cases h : c.len < q.len
          · exact h
          · exact absurd (covers_eq_of_len hc hq hcq (by omega)).symm hne
        -- generic step: descend into child `ch` on side `j`, the other child `oc` on side `j'`
        have step : ∀ {j j' : Nat} {ch oc : Node α}, j ≠ j' → nthBit W q.addr (c.len + 1) = j →
            ch.Inv W → WalkOk W ch q →
            ch.All (fun x => x.WF W ∧ Under W c j x) → oc.All (fun x => x.WF W ∧ Under W c j' x) →
            (∀ p v, (p, v) ∈ (node c d l r).toList ↔ (p = c ∧ d = some v) ∨ (p, v) ∈ ch.toList ∨ (p, v) ∈ oc.toList) →
            (∀ m', (∃ p v, ch.lpmGo W q m' = some (p, v) ∧ IsLpm W ch.toList q p v) ∨
              (ch.lpmGo W q m' = m' ∧ ∀ p v, (p, v) ∈ ch.toList → ¬ p.covers W q = true)) →
            ∀ m0 : Option (Pfx × α), (∀ v, d = some v → m0 = some (c, v)) → (d = none → m0 = m) →
            ((∃ p v, ch.lpmGo W q m0 = some (p, v) ∧
                IsLpm W (node c d l r).toList q p v) ∨
              (ch.lpmGo W q m0 = m ∧
                ∀ p v, (p, v) ∈ (node c d l r).toList → ¬ p.covers W q = true)) := by
          intro j j' ch oc hjj hb hci hcs hca hoa hmem ih m0 hm1 hm2
          have hoc : ∀ p v, (p, v) ∈ oc.toList → ¬ p.covers W q = true := by
            intro p v hm hx
            have := side_of_covers hc hq (All.mem hoa hm) hx
            omega
          rcases ih m0 with ⟨p, v, h1, h2, h3, h4⟩ | ⟨h1, h2⟩
          · refine Or.inl ⟨p, v, h1, (hmem p v).2 (Or.inr (Or.inl h2)), h3, fun p' v' hm hx => ?_⟩
            rcases (hmem p' v').1 hm with ⟨e, _⟩ | hm | hm
            · rw [e]; have := (All.mem hca h2).2.2.1; omega
            · exact h4 p' v' hm hx
            · exact absurd hx (hoc p' v' hm)
          · cases d with
            | some v =>
              refine Or.inl ⟨c, v, h1.trans (hm1 v rfl), (hmem c v).2 (Or.inl ⟨rfl, rfl⟩), hcq, fun p' v' hm hx => ?_⟩
              rcases (hmem p' v').1 hm with ⟨e, _⟩ | hm | hm
              · rw [e]; exact Nat.le_refl _
              · exact absurd hx (h2 p' v' hm)
              · exact absurd hx (hoc p' v' hm)
            | none =>
              refine Or.inr ⟨h1.trans (hm2 rfl), fun p v hm hx => ?_⟩
              rcases (hmem p v).1 hm with ⟨_, e⟩ | hm | hm
              · cases e
              · exact h2 p v hm hx
              · exact hoc p v hm hx
        split
        · rename_i hb
          have hsl := ((hs hcont).2 hne).1 hb
          exact step (j := 0) (j' := 1) (by decide) hb hi.2.2.2.1 hsl hi.2.1 hi.2.2.1
            (fun p v => mem_toList_node) (fun m' => lpmGo_spec hi.2.2.2.1 hq hsl m') _
            (fun v e => by subst e; rfl) (fun e => by subst e; rfl)
        · rename_i hb
          have hb1 : nthBit W q.addr (c.len + 1) = 1 := by
            have := nthBit_eq_zero_or_one W q.addr (c.len + 1); omega
          have hsr := ((hs hcont).2 hne).2 hb
          exact step (j := 1) (j' := 0) (by decide) hb1 hi.2.2.2.2.1 hsr hi.2.2.1 hi.2.1
            (fun p v => by rw [mem_toList_node]; constructor <;> (rintro (h | h | h) <;> simp [h]))
            (fun m' => lpmGo_spec hi.2.2.2.2.1 hq hsr m') _
            (fun v e => by subst e; rfl) (fun e => by subst e; rfl)


theorem walkOk_of_lpmSafe : ∀ {t : Node α} {q : Pfx}, LpmSafe W t q → WalkOk W t q
  | .nil, _, _ => trivial
  | .node _ _ _ _, _, hs => fun hc =>
    ⟨hs.1 hc, fun _ => ⟨fun _ => walkOk_of_lpmSafe hs.2.1, fun _ => walkOk_of_lpmSafe hs.2.2⟩⟩

/-- A single-address query (`/32`, `/128`) is always safe. -/
theorem lpmSafe_of_host {t : Node α} (hi : t.Inv W) {q : Pfx} (hq : q.len = W) : LpmSafe W t q := by
  have : t.All (fun x => x.WF W) := by
    cases t with
    | nil => trivial
    | node c d l r => exact ⟨hi.1, All.imp (fun _ h => h.1) hi.2.1, All.imp (fun _ h => h.1) hi.2.2.1⟩
  exact All.imp (fun x hx _ => by rw [hq]; exact hx.1) this

/-- The root of a non-empty trie is the meet of the stored prefixes. -/
theorem root_covered_iff {c : Pfx} {d : Option α} {l r : Node α} (hi : (node c d l r).Inv W) {q : Pfx} (hq : q.WF W) :
    q.covers W c = true ↔ ∀ p v, (p, v) ∈ (node c d l r).toList → q.covers W p = true := by
  have hc := hi.1
  constructor
  · intro h p v hm
    have := Inv.mem_root hi hm
    exact covers_trans hq hc this.1 h this.2
  · intro h
    cases d with
    | some v => exact h c v (mem_toList_node.2 (Or.inl ⟨rfl, rfl⟩))
    | none =>
      have hn := hi.2.2.2.2.2 rfl
      obtain ⟨x, v, hx⟩ := Inv.exists_mem hi.2.2.2.1 hn.1
      obtain ⟨y, w, hy⟩ := Inv.exists_mem hi.2.2.2.2.1 hn.2
      have ux := All.mem hi.2.1 hx
      have uy := All.mem hi.2.2.1 hy
      have cx := h x v (mem_toList_node.2 (Or.inr (Or.inl hx)))
      have cy := h y w (mem_toList_node.2 (Or.inr (Or.inr hy)))
      by_cases hl : q.len ≤ c.len
      · exact covers_linear hq hc ux.1 cx ux.2.1 hl
      · exfalso
        have h0 := side_of_covered hq ux cx (by omega)
        have h1 := side_of_covered hq uy cy (by omega)
        omega

end CalicoVerif.C36
