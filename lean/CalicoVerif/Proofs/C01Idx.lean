import CalicoVerif.Proofs.C04Main
/-! C01 helper (about the C04 model): every member callback an index operation makes is about an IP set
the index knows before or after the operation; `DeleteIPSet` makes exactly the one `cleared` callback.
(The C04 theorems speak about the whole log at operation boundaries; the composed graph needs this
per-callback fact to show that each `OnIPSetMemberAdded/Removed` call is for a DECLARED set.) -/
namespace CalicoVerif.C04
namespace C01Ext

variable {Sel : Type} [DecidableEq Sel]

/-- a member callback for set `s` -/
def MemberEv (s : String) (e : Event) : Prop := (∃ m, e = .added s m) ∨ (∃ m, e = .removed s m)

def keys (st : Idx Sel) : List String := st.ipsets.map (·.1)

/-- `st'` knows only sets from `K` and extends `st`'s log by member callbacks for sets in `K` -/
structure Ext (K : List String) (st st' : Idx Sel) : Prop where
  sub : ∀ k ∈ keys st', k ∈ K
  out : ∃ evs, st'.out = st.out ++ evs ∧ ∀ e ∈ evs, ∃ s ∈ K, MemberEv s e

theorem Ext.rfl' {K : List String} {st : Idx Sel} (h : ∀ k ∈ keys st, k ∈ K) : Ext K st st :=
  ⟨h, [], by simp, by simp⟩

/-- same log, keys within `K` -/
theorem Ext.of_out {K : List String} {st st' : Idx Sel} (h : ∀ k ∈ keys st', k ∈ K) (ho : st'.out = st.out) : Ext K st st' :=
  ⟨h, [], by simp [ho], by simp⟩

theorem Ext.trans {K : List String} {a b c : Idx Sel} (h1 : Ext K a b) (h2 : Ext K b c) : Ext K a c := by
  obtain ⟨e1, o1, p1⟩ := h1.out
  obtain ⟨e2, o2, p2⟩ := h2.out
  refine ⟨h2.sub, e1 ++ e2, by rw [o2, o1, List.append_assoc], ?_⟩
  intro e he
  rcases List.mem_append.mp he with h | h
  · exact p1 e h
  · exact p2 e h

theorem ext_foldl {α : Type} {K : List String} (f : Idx Sel → α → Idx Sel)
    (hf : ∀ st a, (∀ k ∈ keys st, k ∈ K) → Ext K st (f st a)) :
    ∀ (l : List α) (st : Idx Sel), (∀ k ∈ keys st, k ∈ K) → Ext K st (l.foldl f st)
  | [], st, h => Ext.rfl' h
  | a :: l, st, h => (hf st a h).trans (ext_foldl f hf l (f st a) (hf st a h).sub)

theorem mem_keys_of_get {st : Idx Sel} {s : String} {d : IpSetData Sel} (h : alGet s st.ipsets = some d) : s ∈ keys st :=
  alGet_isSome_iff.mp (by rw [h]; rfl)

theorem onMemberAdded_ext {K : List String} (s : String) (m : Member) (st : Idx Sel) (hs : s ∈ K)
    (hK : ∀ k ∈ keys st, k ∈ K) : Ext K st (onMemberAdded s m st) := by
  have hkeys : keys (onMemberAdded s m st) = keys st := by unfold keys; rw [(onMemberAdded_frame s m st).2.2.1]
  refine ⟨by rw [hkeys]; exact hK, ?_⟩
  by_cases hsup : st.suppress = true
  · cases m with
    | cidr c =>
      rw [onMemberAdded_sup hsup]
      refine ⟨_, rfl, ?_⟩
      intro e he
      split at he
      · cases he
      · rcases List.mem_cons.mp he with h | h
        · exact ⟨s, hs, Or.inl ⟨_, h⟩⟩
        · obtain ⟨x, _, rfl⟩ := List.mem_map.mp h
          exact ⟨s, hs, Or.inr ⟨_, rfl⟩⟩
    | ipp v a po pr =>
      refine ⟨[.added s (.ipp v a po pr)], by simp [onMemberAdded, emit], ?_⟩
      intro e he
      simp only [List.mem_singleton] at he
      exact ⟨s, hs, Or.inl ⟨_, he⟩⟩
  · have hs' : st.suppress = false := by simpa using hsup
    rw [onMemberAdded_noop hs']
    refine ⟨[.added s m], by simp [emit], ?_⟩
    intro e he
    simp only [List.mem_singleton] at he
    exact ⟨s, hs, Or.inl ⟨_, he⟩⟩

theorem onMemberRemoved_ext {K : List String} (s : String) (m : Member) (st : Idx Sel) (hs : s ∈ K)
    (hK : ∀ k ∈ keys st, k ∈ K) : Ext K st (onMemberRemoved s m st) := by
  have hkeys : keys (onMemberRemoved s m st) = keys st := by unfold keys; rw [(onMemberRemoved_frame s m st).2.2.1]
  refine ⟨by rw [hkeys]; exact hK, ?_⟩
  by_cases hsup : st.suppress = true
  · cases m with
    | cidr c =>
      rw [onMemberRemoved_sup hsup]
      refine ⟨_, rfl, ?_⟩
      intro e he
      split at he
      · cases he
      · rcases List.mem_cons.mp he with h | h
        · exact ⟨s, hs, Or.inr ⟨_, h⟩⟩
        · obtain ⟨x, _, rfl⟩ := List.mem_map.mp h
          exact ⟨s, hs, Or.inl ⟨_, rfl⟩⟩
    | ipp v a po pr =>
      refine ⟨[.removed s (.ipp v a po pr)], by simp [onMemberRemoved, emit], ?_⟩
      intro e he
      simp only [List.mem_singleton] at he
      exact ⟨s, hs, Or.inr ⟨_, he⟩⟩
  · have hs' : st.suppress = false := by simpa using hsup
    rw [onMemberRemoved_noop hs']
    refine ⟨[.removed s m], by simp [emit], ?_⟩
    intro e he
    simp only [List.mem_singleton] at he
    exact ⟨s, hs, Or.inr ⟨_, he⟩⟩

/-- changing fields other than `out`, keeping the keys -/
theorem Ext.then_same {K : List String} {a b c : Idx Sel} (h : Ext K a b) (hk : keys c = keys b) (ho : c.out = b.out) :
    Ext K a c :=
  h.trans (Ext.of_out (by rw [hk]; exact h.sub) ho)

theorem incref_ext {K : List String} (s : String) (m : Member) (st : Idx Sel) (hK : ∀ k ∈ keys st, k ∈ K) :
    Ext K st (incref s m st) := by
  unfold incref
  cases h : alGet s st.ipsets with
  | none => exact Ext.of_out hK rfl
  | some d =>
    simp only
    have hs : s ∈ K := hK s (mem_keys_of_get h)
    by_cases h0 : refOf d m = 0
    · simp only [h0, if_true]
      exact (onMemberAdded_ext s m st hs hK).then_same (by simp only [keys, alMod_keys]) rfl
    · simp only [h0, if_false]
      exact Ext.of_out (by simp only [keys, alMod_keys]; exact hK) rfl

theorem decref_ext {K : List String} (s : String) (m : Member) (st : Idx Sel) (hK : ∀ k ∈ keys st, k ∈ K) :
    Ext K st (decref s m st) := by
  unfold decref
  cases h : alGet s st.ipsets with
  | none => exact Ext.of_out hK rfl
  | some d =>
    simp only
    have hs : s ∈ K := hK s (mem_keys_of_get h)
    by_cases h0 : refOf d m = 0
    · simp only [h0, if_true]
      exact Ext.of_out (by simp only [keys, alMod_keys]; exact hK) rfl
    · simp only [h0, if_false]
      by_cases h1 : refOf d m - 1 = 0
      · simp only [h1, if_true]
        exact (onMemberRemoved_ext s m st hs hK).then_same (by simp only [keys, alMod_keys]) rfl
      · simp only [h1, if_false]
        exact Ext.of_out (by simp only [keys, alMod_keys]; exact hK) rfl

theorem increfAll_ext {K : List String} (s : String) (ms : List Member) (st : Idx Sel) (hK : ∀ k ∈ keys st, k ∈ K) :
    Ext K st (increfAll s ms st) :=
  ext_foldl _ (fun st m h => incref_ext s m st h) ms st hK

theorem decrefAll_ext {K : List String} (s : String) (ms : List Member) (st : Idx Sel) (hK : ∀ k ∈ keys st, k ∈ K) :
    Ext K st (decrefAll s ms st) :=
  ext_foldl _ (fun st m h => decref_ext s m st h) ms st hK

theorem decrefOld_ext {K : List String} (old : List (String × List Member)) (st : Idx Sel) (hK : ∀ k ∈ keys st, k ∈ K) :
    Ext K st (decrefOld old st) :=
  ext_foldl _ (fun st p h => decrefAll_ext p.1 p.2 st h) old st hK

variable (matchSel : Sel → Labels → Bool)

theorem scanOne_ext {K : List String} (s : String) (p : Idx Sel × EpData) (hK : ∀ k ∈ keys p.1, k ∈ K) :
    Ext K p.1 (scanOne matchSel s p).1 := by
  unfold scanOne
  cases h : alGet s p.1.ipsets with
  | none => exact Ext.rfl' hK
  | some d =>
    simp only
    split
    · exact increfAll_ext s _ p.1 hK
    · exact Ext.rfl' hK

theorem scanFold_ext {K : List String} : ∀ (ks : List String) (p : Idx Sel × EpData), (∀ k ∈ keys p.1, k ∈ K) →
    Ext K p.1 (ks.foldl (fun p s => scanOne matchSel s p) p).1
  | [], p, h => Ext.rfl' h
  | s :: ks, p, h =>
    (scanOne_ext matchSel s p h).trans (scanFold_ext ks _ (scanOne_ext matchSel s p h).sub)

theorem scanEp_ext {K : List String} (e : EpData) (old : List (String × List Member)) (st : Idx Sel)
    (hK : ∀ k ∈ keys st, k ∈ K) : Ext K st (scanEp matchSel e old st).1 := by
  unfold scanEp
  simp only []
  have h1 := scanFold_ext matchSel (K := K) (st.ipsets.map (·.1)) (st, { e with cached := [] }) hK
  exact h1.trans (decrefOld_ext old _ h1.sub)

theorem updateEndpoint_ext {K : List String} (id : String) (labels : Labels) (nets : List Cidr) (ports : List Port)
    (parentIDs : List String) (st : Idx Sel) (hK : ∀ k ∈ keys st, k ∈ K) :
    Ext K st (updateEndpoint matchSel id labels nets ports parentIDs st) := by
  unfold updateEndpoint
  generalize dedupParents parentIDs = parents
  unfold updateEndpointCore
  simp only []
  cases alGet id st.eps with
  | none =>
    simp only []
    exact (scanEp_ext matchSel _ [] st hK).then_same rfl rfl
  | some old =>
    simp only []
    split
    · exact Ext.rfl' hK
    · have h0 : Ext K st (if recalcPanics old st = true then { st with panicked := true } else st) := by
        split
        · exact Ext.of_out hK rfl
        · exact Ext.rfl' hK
      generalize (if recalcPanics old st = true then { st with panicked := true } else st) = st0 at h0 ⊢
      have h1 : Ext K st { st0 with eps := alErase id st0.eps } := h0.then_same rfl rfl
      have h2 := h1.trans (scanEp_ext matchSel
        { labels := labels, nets := nets, ports := ports, parents := parents, cached := [] }
        (recalc old st0) { st0 with eps := alErase id st0.eps } h1.sub)
      split
      · exact h2.then_same rfl rfl
      · exact h2.then_same rfl rfl

theorem deleteEndpoint_ext {K : List String} (id : String) (st : Idx Sel) (hK : ∀ k ∈ keys st, k ∈ K) :
    Ext K st (deleteEndpoint id st) := by
  unfold deleteEndpoint
  cases alGet id st.eps with
  | none => exact Ext.rfl' hK
  | some old =>
    simp only []
    have h0 : Ext K st (if recalcPanics old st = true then { st with panicked := true } else st) := by
      split
      · exact Ext.of_out hK rfl
      · exact Ext.rfl' hK
    generalize (if recalcPanics old st = true then { st with panicked := true } else st) = st0 at h0 ⊢
    have h1 := h0.trans (decrefOld_ext (recalc old st0) st0 h0.sub)
    split
    · exact h1.then_same rfl rfl
    · exact h1.then_same rfl rfl

theorem rescanEp_ext {K : List String} (id : String) (st : Idx Sel) (hK : ∀ k ∈ keys st, k ∈ K) :
    Ext K st (rescanEp matchSel id st) := by
  unfold rescanEp
  cases alGet id st.eps with
  | none => exact Ext.rfl' hK
  | some e =>
    simp only []
    have h0 : Ext K st (if recalcPanics e st = true then { st with panicked := true } else st) := by
      split
      · exact Ext.of_out hK rfl
      · exact Ext.rfl' hK
    generalize (if recalcPanics e st = true then { st with panicked := true } else st) = st0 at h0 ⊢
    exact (h0.trans (scanEp_ext matchSel e (recalc e st0) st0 h0.sub)).then_same rfl rfl

theorem updateParentLabels_ext {K : List String} (pid : String) (labels : Labels) (st : Idx Sel)
    (hK : ∀ k ∈ keys st, k ∈ K) : Ext K st (updateParentLabels matchSel pid labels st) := by
  unfold updateParentLabels
  split
  · exact Ext.rfl' hK
  · simp only []
    have h1 : Ext K st { st with parents := alSet pid labels st.parents } := Ext.of_out hK rfl
    exact h1.trans (ext_foldl _ (fun st id h => rescanEp_ext matchSel id st h) _ _ h1.sub)

theorem addIPSetScanOne_ext {K : List String} (s : String) (sel : Sel) (id : String) (st : Idx Sel)
    (hK : ∀ k ∈ keys st, k ∈ K) : Ext K st (addIPSetScanOne matchSel s sel id st) := by
  unfold addIPSetScanOne
  split
  · split
    · simp only []
      split
      · exact Ext.rfl' hK
      · have h1 : Ext K st { st with eps := alMod id (fun e => { e with cached := setAdd s e.cached }) st.eps } :=
          Ext.of_out hK rfl
        exact h1.trans (increfAll_ext s _ _ h1.sub)
    · exact Ext.rfl' hK
  · exact Ext.rfl' hK

theorem addIPSet_ext {K : List String} (s : String) (sel : Sel) (proto : Nat) (port : String) (st : Idx Sel)
    (hs : s ∈ K) (hK : ∀ k ∈ keys st, k ∈ K) : Ext K st (addIPSet matchSel s sel proto port st) := by
  unfold addIPSet
  simp only []
  have h1 : Ext K st { st with ipsets := alSet s { sel := sel, proto := proto, port := port, refc := [] } st.ipsets } := by
    refine Ext.of_out ?_ rfl
    intro k hk
    simp only [keys, alSet, alErase, List.map_cons, List.mem_cons, List.mem_map, List.mem_filter] at hk
    rcases hk with hk | ⟨a, ⟨ha, _⟩, rfl⟩
    · rw [hk]; exact hs
    · exact hK _ (List.mem_map.mpr ⟨a, ha, rfl⟩)
  exact h1.trans (ext_foldl _ (fun st id h => addIPSetScanOne_ext matchSel s sel id st h) _ _ h1.sub)

theorem forceRemove_ext {K : List String} (s : String) (m : Member) (st : Idx Sel) (hs : s ∈ K)
    (hK : ∀ k ∈ keys st, k ∈ K) : Ext K st (forceRemove s m st) := by
  unfold forceRemove
  simp only []
  exact (onMemberRemoved_ext s m st hs hK).then_same (by simp only [keys, alMod_keys]) rfl

theorem deleteIPSetCore_keys (s : String) (st : Idx Sel) :
    (deleteIPSetCore s st).out = st.out ∧ ∀ k ∈ keys (deleteIPSetCore s st), k ∈ keys st ∧ k ≠ s := by
  unfold deleteIPSetCore
  cases h : alGet s st.ipsets with
  | none =>
    refine ⟨rfl, fun k hk => ⟨hk, ?_⟩⟩
    rintro rfl
    have := alGet_isSome_iff.mpr hk
    rw [h] at this; cases this
  | some d =>
    refine ⟨rfl, fun k hk => ?_⟩
    simp only [keys, alErase, List.mem_map, List.mem_filter] at hk
    obtain ⟨a, ⟨ha, hne⟩, rfl⟩ := hk
    exact ⟨List.mem_map.mpr ⟨a, ha, rfl⟩, by simpa using hne⟩

theorem updateIPSet_ext {K : List String} (s : String) (sel : Sel) (proto : Nat) (port : String) (st : Idx Sel)
    (hs : s ∈ K) (hK : ∀ k ∈ keys st, k ∈ K) : Ext K st (updateIPSet matchSel s sel proto port st) := by
  unfold updateIPSet
  cases alGet s st.ipsets with
  | none => exact addIPSet_ext matchSel s sel proto port st hs hK
  | some d =>
    simp only []
    split
    · exact Ext.rfl' hK
    · have h1 := ext_foldl (K := K) (fun st m => forceRemove s m st) (fun st m h => forceRemove_ext s m st hs h)
        (d.refc.map (·.1)) st hK
      obtain ⟨ho, hk⟩ := deleteIPSetCore_keys s ((d.refc.map (·.1)).foldl (fun st m => forceRemove s m st) st)
      have h2 : Ext K st (deleteIPSetCore s ((d.refc.map (·.1)).foldl (fun st m => forceRemove s m st) st)) :=
        h1.trans (Ext.of_out (fun k hk' => h1.sub k (hk k hk').1) ho)
      exact h2.trans (addIPSet_ext matchSel s sel proto port _ hs h2.sub)

/-- every operation except `DeleteIPSet`: the new callbacks are member callbacks for sets in `K` ⊇ the
known sets (and, for `UpdateIPSet s`, `s`) -/
theorem step_ext {K : List String} (st : Idx Sel) (op : Op Sel) (hK : ∀ k ∈ keys st, k ∈ K)
    (hnew : ∀ s sel proto port, op = .updateIPSet s sel proto port → s ∈ K)
    (hdel : ∀ s, op ≠ .deleteIPSet s) : Ext K st (step matchSel st op) := by
  cases op with
  | updateIPSet s sel proto port => exact updateIPSet_ext matchSel s sel proto port st (hnew s sel proto port rfl) hK
  | deleteIPSet s => exact absurd rfl (hdel s)
  | updateEndpoint id labels nets ports parents => exact updateEndpoint_ext matchSel id labels nets ports parents st hK
  | deleteEndpoint id => exact deleteEndpoint_ext id st hK
  | updateParentLabels pid labels => exact updateParentLabels_ext matchSel pid labels st hK
  | deleteParentLabels pid => exact updateParentLabels_ext matchSel pid [] st hK
  | permEps l =>
    simp only [step]
    split
    · exact Ext.of_out hK rfl
    · exact Ext.rfl' hK
  | permIPSets l =>
    simp only [step]
    split
    · rename_i hp
      refine Ext.of_out ?_ rfl
      intro k hk
      simp only [keys, List.mem_map] at hk
      obtain ⟨a, ha, rfl⟩ := hk
      exact hK _ (List.mem_map.mpr ⟨a, hp.subset ha, rfl⟩)
    · exact Ext.rfl' hK
  | permCached id l => exact Ext.of_out hK rfl
  | permRefc s l => exact Ext.of_out (by simp only [step, keys, alMod_keys]; exact hK) rfl

/-- `DeleteIPSet s`: exactly one callback, `cleared s`; `s` is forgotten, nothing else changes in the keys -/
theorem deleteIPSet_out (s : String) (st : Idx Sel) :
    (deleteIPSet s st).out = st.out ++ [.cleared s] ∧ ∀ k ∈ keys (deleteIPSet s st), k ∈ keys st ∧ k ≠ s := by
  obtain ⟨ho, hk⟩ := deleteIPSetCore_keys s st
  refine ⟨by simp [deleteIPSet, emit, ho], ?_⟩
  intro k hk'
  exact hk k hk'

end C01Ext
end CalicoVerif.C04
