import CalicoVerif.Props.C18
/-! Helper lemmas for the C18 Len()/InSync theorems: one-entry-per-key for all three maps (`WF3`),
`desiredLen` counts the desired keys (`JU`), cardinality of the four views. -/
namespace CalicoVerif.C18
variable {K V : Type} [DecidableEq K]

/-- All three maps keep one entry per key. -/
def WF3 (t : Tracker K V) : Prop := NodupKeys t.dd ∧ NodupKeys t.dn ∧ NodupKeys t.du

theorem wf3_dSet (eqv : V → V → Bool) (t : Tracker K V) (k : K) (v : V) (h : WF3 t) : WF3 (dSet eqv t k v) := by
  obtain ⟨h1, h2, h3⟩ := h
  have a1 := fun c => nodupKeys_set t.dd k c h1
  have a2 := nodupKeys_del t.dn k h2
  have a3 := nodupKeys_set t.du k v h3
  have a4 := nodupKeys_del t.du k h3
  unfold dSet WF3
  split
  · dsimp only; split <;> exact ⟨a1 _, a2, by assumption⟩
  · split
    · split <;> exact ⟨h1, h2, by assumption⟩
    · dsimp only; split <;> exact ⟨h1, h2, a3⟩

theorem wf3_dDel (t : Tracker K V) (k : K) (h : WF3 t) : WF3 (dDel t k) := by
  obtain ⟨h1, h2, h3⟩ := h
  have a1 := nodupKeys_del t.dd k h1
  have a2 := fun c => nodupKeys_set t.dn k c h2
  have a4 := nodupKeys_del t.du k h3
  unfold WF3
  cases e1 : get t.du k <;> cases e2 : get t.dd k <;> simp [dDel, e1, e2] <;>
    first | exact ⟨h1, h2, h3⟩ | exact ⟨a1, a2 _, h3⟩ | exact ⟨h1, h2, a4⟩ | exact ⟨a1, a2 _, a4⟩

theorem wf3_pSet (eqv : V → V → Bool) (t : Tracker K V) (k : K) (v : V) (h : WF3 t) : WF3 (pSet eqv t k v) := by
  obtain ⟨h1, h2, h3⟩ := h
  unfold pSet WF3
  split
  · rename_i dv _
    dsimp only
    split
    · exact ⟨nodupKeys_set _ _ _ h1, h2, nodupKeys_set _ _ _ h3⟩
    · exact ⟨nodupKeys_set _ _ _ h1, h2, nodupKeys_del _ _ h3⟩
  · exact ⟨h1, nodupKeys_set _ _ _ h2, h3⟩

theorem wf3_pDel (t : Tracker K V) (k : K) (h : WF3 t) : WF3 (pDel t k) := by
  obtain ⟨h1, h2, h3⟩ := h
  unfold pDel WF3
  dsimp only
  split
  · exact ⟨nodupKeys_del _ _ h1, nodupKeys_del _ _ h2, nodupKeys_set _ _ _ h3⟩
  · exact ⟨nodupKeys_del _ _ h1, nodupKeys_del _ _ h2, h3⟩

theorem nodupKeys_copyInto (dst src : GoMap K V) (h : NodupKeys dst) : NodupKeys (copyInto dst src) := by
  unfold copyInto
  exact foldl_preserves NodupKeys _ (fun s x hs => nodupKeys_set _ _ _ hs) _ _ h

theorem wf3_repl (eqv : V → V → Bool) (t : Tracker K V) (items : List (K × V)) (fail : Bool) (h : WF3 t) :
    WF3 (replaceAllIter eqv t items fail).1 := by
  obtain ⟨h1, h2, h3⟩ := h
  have hr : (fun r : RState K V => NodupKeys r.du ∧ NodupKeys r.oldD ∧ NodupKeys r.oldN ∧ NodupKeys r.newD ∧ NodupKeys r.newN)
      (items.foldl (replVisit eqv) { du := t.du, oldD := t.dd, oldN := t.dn, newD := [], newN := [] }) := by
    refine foldl_preserves (fun r : RState K V => NodupKeys r.du ∧ NodupKeys r.oldD ∧ NodupKeys r.oldN ∧
      NodupKeys r.newD ∧ NodupKeys r.newN) (replVisit eqv) ?_ items _ ⟨h3, h1, h2, nodupKeys_nil, nodupKeys_nil⟩
    intro s x ⟨b1, b2, b3, b4, b5⟩
    unfold replVisit
    dsimp only
    split
    · split
      · exact ⟨nodupKeys_del _ _ b1, nodupKeys_del _ _ b2, nodupKeys_del _ _ b3, nodupKeys_set _ _ _ b4, b5⟩
      · exact ⟨nodupKeys_set _ _ _ b1, nodupKeys_del _ _ b2, nodupKeys_del _ _ b3, nodupKeys_set _ _ _ b4, b5⟩
    · exact ⟨b1, nodupKeys_del _ _ b2, nodupKeys_del _ _ b3, b4, nodupKeys_set _ _ _ b5⟩
  obtain ⟨b1, b2, b3, b4, b5⟩ := hr
  unfold replaceAllIter WF3
  dsimp only
  split
  · exact ⟨nodupKeys_copyInto _ _ b2, nodupKeys_copyInto _ _ b3, b1⟩
  · refine ⟨b4, b5, ?_⟩
    apply foldl_preserves NodupKeys _ _ _ _ b1
    intro s x hs
    unfold replMissing
    split <;> exact nodupKeys_set _ _ _ hs

theorem wf3_uIter (t : Tracker K V) (ord : List (K × V)) (act : K → Act) (h : WF3 t) : WF3 (uIter t ord act) := by
  unfold uIter
  apply foldl_preserves WF3 _ _ _ _ h
  intro s x ⟨b1, b2, b3⟩
  split
  · exact ⟨nodupKeys_set _ _ _ b1, b2, nodupKeys_del _ _ b3⟩
  · exact ⟨b1, b2, b3⟩
  · exact ⟨b1, b2, b3⟩

theorem wf3_xIter (t : Tracker K V) (ord : List K) (act : K → Act) (h : WF3 t) : WF3 (xIter t ord act) := by
  unfold xIter
  apply foldl_preserves WF3 _ _ _ _ h
  intro s x ⟨b1, b2, b3⟩
  split
  · exact ⟨b1, nodupKeys_del _ _ b2, b3⟩
  · exact ⟨b1, b2, b3⟩
  · exact ⟨b1, b2, b3⟩

theorem wf3_step (eqv : V → V → Bool) (t : Tracker K V) (op : Op K V) (h : WF3 t) : WF3 (step eqv t op) := by
  cases op with
  | dSet k v => exact wf3_dSet eqv t k v h
  | dDel k => exact wf3_dDel t k h
  | dDelAll =>
    show WF3 (dDelAll t)
    unfold dDelAll
    exact foldl_preserves WF3 _ (fun s x hs => wf3_dDel s x hs) _ _
      (foldl_preserves WF3 _ (fun s x hs => wf3_dDel s x hs) _ _ h)
  | pSet k v => exact wf3_pSet eqv t k v h
  | pDel k => exact wf3_pDel t k h
  | repl items fail => exact wf3_repl eqv t items fail h
  | uIter act => exact wf3_uIter t t.du act h
  | xIter act => exact wf3_xIter t (keys t.dn) act h
  | uBatched F c =>
    show WF3 (uBatched t batchSize F c t.du)
    rw [uBatched_eq_uIter]; exact wf3_uIter t t.du _ h
  | xBatched F c =>
    show WF3 (xBatched t batchSize F c (keys t.dn))
    rw [xBatched_eq_xIter]; exact wf3_xIter t (keys t.dn) _ h

/-! ### Counting -/

/-- `n` is the number of keys satisfying `S`: a duplicate-free list of length `n` enumerates `S`. -/
def IsCard (n : Nat) (S : K → Prop) : Prop := ∃ L : List K, L.Nodup ∧ L.length = n ∧ ∀ k, k ∈ L ↔ S k

theorem mem_keys_iff (m : GoMap K V) (k : K) : k ∈ keys m ↔ (get m k).isSome = true := by
  have := get_eq_none_iff m k
  cases h : get m k <;> simp_all

theorem keys_length (m : GoMap K V) : (keys m).length = m.length := by simp [keys]

theorem filter_length_update (univ : List K) (hu : univ.Nodup) (k : K) (hk : k ∈ univ) (f g : K → Bool)
    (h : ∀ k', k' ≠ k → g k' = f k') :
    ((univ.filter g).length : Int) = (univ.filter f).length + (if g k then 1 else 0) - (if f k then 1 else 0) := by
  induction univ with
  | nil => cases hk
  | cons x xs ih =>
    have hx : x ∉ xs ∧ xs.Nodup := by simpa using hu
    by_cases hxk : x = k
    · subst hxk
      have : xs.filter g = xs.filter f := by
        apply List.filter_congr
        intro y hy
        exact h y (by rintro rfl; exact hx.1 hy)
      simp only [List.filter, this]
      cases g x <;> cases f x <;> simp <;> omega
    · have hk' : k ∈ xs := by
        rcases List.mem_cons.1 hk with e | e
        · exact absurd e.symm hxk
        · exact e
      have := ih hx.2 hk'
      simp only [List.filter, h x hxk]
      cases f x <;> simp <;> omega

/-- The keys a history makes desired lie in `univ`. -/
def Op.keysIn (univ : List K) : Op K V → Prop
  | .dSet k _ => k ∈ univ
  | _ => True

/-- `desiredLen` counts the desired keys (over any duplicate-free universe containing them). -/
def JU (univ : List K) (t : Tracker K V) : Prop :=
  (∀ k, (desiredGet t k).isSome = true → k ∈ univ) ∧
  t.dlen = ((univ.filter (fun k => (desiredGet t k).isSome)).length : Int)

theorem ju_of_same (univ : List K) (t t' : Tracker K V) (h : JU univ t)
    (hd : ∀ k, (desiredGet t' k).isSome = (desiredGet t k).isSome) (hl : t'.dlen = t.dlen) : JU univ t' := by
  refine ⟨fun k hk => h.1 k (by rw [← hd]; exact hk), ?_⟩
  rw [hl, h.2]
  congr 2
  apply List.filter_congr
  intro k _; exact (hd k).symm

theorem desiredGet_step (eqv : V → V → Bool) (hs : Sym eqv) (hr : Refl eqv) (t : Tracker K V) (op : Op K V)
    (hi : Inv eqv t) (hn : NodupKeys t.du) (hop : op.WF) (k : K) :
    desiredGet (step eqv t op) k = (specAt eqv op k (desiredGet t k, dataplaneGet t k)).1 := by
  have := (step_at eqv hs hr t op hi hn hop k).2
  rw [desiredGet_eq]
  exact congrArg Prod.fst this

theorem ju_dSet (eqv : V → V → Bool) (hs : Sym eqv) (hr : Refl eqv) (univ : List K) (hu : univ.Nodup)
    (t : Tracker K V) (hi : Inv eqv t) (hn : NodupKeys t.du) (k : K) (v : V) (hk : k ∈ univ) (h : JU univ t) :
    JU univ (dSet eqv t k v) := by
  have hd : ∀ k', desiredGet (dSet eqv t k v) k' = (specAt eqv (.dSet k v) k' (desiredGet t k', dataplaneGet t k')).1 :=
    fun k' => desiredGet_step eqv hs hr t (.dSet k v) hi hn trivial k'
  have hk1 : (desiredGet (dSet eqv t k v) k).isSome = true := by
    rw [hd k]; simp only [specAt, if_true, sDSet]
    cases dataplaneGet t k with
    | none => rfl
    | some w => simp only; split <;> rfl
  have hoff : ∀ k', k' ≠ k → (desiredGet (dSet eqv t k v) k').isSome = (desiredGet t k').isSome := by
    intro k' hne
    rw [hd k']; simp [specAt, Ne.symm hne]
  refine ⟨fun k' hk' => ?_, ?_⟩
  · by_cases e : k' = k
    · subst e; exact hk
    · exact h.1 k' (by rw [← hoff k' e]; exact hk')
  · rw [(desiredLen_tracks eqv t hi k v).1, h.2,
      filter_length_update univ hu k hk (fun x => (desiredGet t x).isSome) (fun x => (desiredGet (dSet eqv t k v) x).isSome) hoff]
    simp only [hk1, if_true]
    cases (desiredGet t k).isSome <;> simp

theorem dlen_dDel (t : Tracker K V) (k : K) :
    (dDel t k).dlen = t.dlen - (if (desiredGet t k).isSome then 1 else 0) := by
  unfold desiredGet
  cases h2 : get t.dd k <;> cases h3 : get t.du k <;> simp [dDel, h2, h3]

theorem ju_dDel (eqv : V → V → Bool) (hs : Sym eqv) (hr : Refl eqv) (univ : List K) (hu : univ.Nodup)
    (t : Tracker K V) (hi : Inv eqv t) (hn : NodupKeys t.du) (k : K) (h : JU univ t) :
    JU univ (dDel t k) := by
  have hd : ∀ k', desiredGet (dDel t k) k' = (specAt eqv (.dDel k) k' (desiredGet t k', dataplaneGet t k')).1 :=
    fun k' => desiredGet_step eqv hs hr t (.dDel k) hi hn trivial k'
  have hk1 : (desiredGet (dDel t k) k).isSome = false := by
    rw [hd k]; simp [specAt, sDDel]
  have hoff : ∀ k', k' ≠ k → (desiredGet (dDel t k) k').isSome = (desiredGet t k').isSome := by
    intro k' hne
    rw [hd k']; simp [specAt, Ne.symm hne]
  by_cases hsome : (desiredGet t k).isSome = true
  · have hk := h.1 k hsome
    refine ⟨fun k' hk' => ?_, ?_⟩
    · by_cases e : k' = k
      · subst e; exact hk
      · exact h.1 k' (by rw [← hoff k' e]; exact hk')
    · rw [dlen_dDel, h.2,
        filter_length_update univ hu k hk (fun x => (desiredGet t x).isSome) (fun x => (desiredGet (dDel t k) x).isSome) hoff]
      simp only [hk1, hsome, if_true]
      simp
  · have hnone : (desiredGet t k).isSome = false := by simpa using hsome
    apply ju_of_same univ t _ h
    · intro k'
      by_cases e : k' = k
      · subst e; rw [hk1, hnone]
      · exact hoff k' e
    · rw [dlen_dDel]; simp [hnone]

theorem sUIter_des (eqv : V → V → Bool) (b : Bool) (x : S1 V) : (sUIter eqv b x).1 = x.1 := by
  unfold sUIter; split <;> rfl
theorem sXIter_des (b : Bool) (x : S1 V) : (sXIter b x).1 = x.1 := by
  unfold sXIter; split <;> rfl
theorem sPSet_des_isSome (eqv : V → V → Bool) (x : S1 V) (v : V) : (sPSet eqv x v).1.isSome = x.1.isSome := by
  obtain ⟨d, q⟩ := x
  unfold sPSet
  cases d with
  | none => rfl
  | some dv => simp only; split <;> rfl
theorem sRepl_des_isSome (eqv : V → V → Bool) (f : Bool) (x : S1 V) (i : Option V) :
    (sRepl eqv f x i).1.isSome = x.1.isSome := by
  obtain ⟨d, q⟩ := x
  unfold sRepl
  cases d <;> cases i <;> simp
  split <;> rfl

theorem dlen_pSet (eqv : V → V → Bool) (t : Tracker K V) (k : K) (v : V) : (pSet eqv t k v).dlen = t.dlen := by
  unfold pSet; split
  · dsimp only; split <;> rfl
  · rfl
theorem dlen_pDel (t : Tracker K V) (k : K) : (pDel t k).dlen = t.dlen := by
  unfold pDel; dsimp only; split <;> rfl
theorem dlen_repl (eqv : V → V → Bool) (t : Tracker K V) (items : List (K × V)) (fail : Bool) :
    (replaceAllIter eqv t items fail).1.dlen = t.dlen := by
  unfold replaceAllIter; dsimp only; split <;> rfl
theorem dlen_uIter (t : Tracker K V) (ord : List (K × V)) (act : K → Act) : (uIter t ord act).dlen = t.dlen := by
  unfold uIter
  apply foldl_preserves (fun s : Tracker K V => s.dlen = t.dlen) _ _ _ _ rfl
  intro s x hs; split <;> simp_all [applyUpd]
theorem dlen_xIter (t : Tracker K V) (ord : List K) (act : K → Act) : (xIter t ord act).dlen = t.dlen := by
  unfold xIter
  apply foldl_preserves (fun s : Tracker K V => s.dlen = t.dlen) _ _ _ _ rfl
  intro s x hs; split <;> simp_all [applyDel]

/-- Everything the induction carries. -/
def G (eqv : V → V → Bool) (univ : List K) (t : Tracker K V) : Prop :=
  Inv eqv t ∧ WF3 t ∧ JU univ t

theorem g_dDel (eqv : V → V → Bool) (hs : Sym eqv) (hr : Refl eqv) (univ : List K) (hu : univ.Nodup)
    (t : Tracker K V) (k : K) (h : G eqv univ t) : G eqv univ (dDel t k) := by
  obtain ⟨hi, hw, hj⟩ := h
  exact ⟨fun k' => (step_at eqv hs hr t (.dDel k) hi hw.2.2 trivial k').1, wf3_dDel t k hw,
    ju_dDel eqv hs hr univ hu t hi hw.2.2 k hj⟩

theorem g_step (eqv : V → V → Bool) (hs : Sym eqv) (hr : Refl eqv) (univ : List K) (hu : univ.Nodup)
    (t : Tracker K V) (op : Op K V) (hop : op.WF) (hk : op.keysIn univ) (h : G eqv univ t) :
    G eqv univ (step eqv t op) := by
  obtain ⟨hi, hw, hj⟩ := h
  have hi' : Inv eqv (step eqv t op) := fun k' => (step_at eqv hs hr t op hi hw.2.2 hop k').1
  have hw' := wf3_step eqv t op hw
  have hd := fun k => desiredGet_step eqv hs hr t op hi hw.2.2 hop k
  refine ⟨hi', hw', ?_⟩
  cases op with
  | dSet k v => exact ju_dSet eqv hs hr univ hu t hi hw.2.2 k v hk hj
  | dDel k => exact ju_dDel eqv hs hr univ hu t hi hw.2.2 k hj
  | dDelAll =>
    show JU univ (dDelAll t)
    unfold dDelAll
    exact (foldl_preserves (G eqv univ) _ (fun s x hs' => g_dDel eqv hs hr univ hu s x hs') _ _
      (foldl_preserves (G eqv univ) _ (fun s x hs' => g_dDel eqv hs hr univ hu s x hs') _ _ ⟨hi, hw, hj⟩)).2.2
  | pSet k v =>
    apply ju_of_same univ t _ hj
    · intro k'; rw [hd k']; simp only [specAt]; split
      · exact sPSet_des_isSome eqv _ v
      · rfl
    · exact dlen_pSet eqv t k v
  | pDel k =>
    apply ju_of_same univ t _ hj
    · intro k'; rw [hd k']; simp only [specAt]; split <;> rfl
    · exact dlen_pDel t k
  | repl items fail =>
    apply ju_of_same univ t _ hj
    · intro k'; rw [hd k']; exact sRepl_des_isSome eqv fail _ _
    · exact dlen_repl eqv t items fail
  | uIter act =>
    apply ju_of_same univ t _ hj
    · intro k'; rw [hd k']; simp only [specAt, sUIter_des]
    · exact dlen_uIter t t.du act
  | xIter act =>
    apply ju_of_same univ t _ hj
    · intro k'; rw [hd k']; simp only [specAt, sXIter_des]
    · exact dlen_xIter t (keys t.dn) act
  | uBatched F c =>
    apply ju_of_same univ t _ hj
    · intro k'; rw [hd k']; simp only [specAt, sUIter_des]
    · show (uBatched t batchSize F c t.du).dlen = t.dlen
      rw [uBatched_eq_uIter]; exact dlen_uIter t t.du _
  | xBatched F c =>
    apply ju_of_same univ t _ hj
    · intro k'; rw [hd k']; simp only [specAt, sXIter_des]
    · show (xBatched t batchSize F c (keys t.dn)).dlen = t.dlen
      rw [xBatched_eq_xIter]; exact dlen_xIter t (keys t.dn) _

theorem g_run (eqv : V → V → Bool) (hs : Sym eqv) (hr : Refl eqv) (univ : List K) (hu : univ.Nodup)
    (ops : List (Op K V)) (hw : ∀ op ∈ ops, op.WF) (hk : ∀ op ∈ ops, op.keysIn univ) :
    G eqv univ (run eqv ops) := by
  unfold run
  suffices h : ∀ t : Tracker K V, G eqv univ t → G eqv univ (ops.foldl (step eqv) t) by
    apply h
    refine ⟨fun k => by simp [proj, Tracker.new, P.Inv], ⟨nodupKeys_nil, nodupKeys_nil, nodupKeys_nil⟩, ?_, ?_⟩
    · intro k hk'; simp [desiredGet, Tracker.new] at hk'
    · have : univ.filter (fun _ : K => false) = [] := List.filter_eq_nil_iff.2 (by simp)
      simp [desiredGet, Tracker.new, this]
  induction ops with
  | nil => intro t h; exact h
  | cons op r ih =>
    intro t h
    exact ih (fun o ho => hw o (by simp [ho])) (fun o ho => hk o (by simp [ho])) _
      (g_step eqv hs hr univ hu t op (hw op (by simp)) (hk op (by simp)) h)

/-! ### The Len()/InSync theorems on a state satisfying the invariants -/

theorem pendU_isSome (eqv : V → V → Bool) (d q : Option V) (h : pendU eqv (d, q) = true) : d.isSome = true := by
  cases d <;> simp_all [pendU]
theorem pendX_isSome (d q : Option V) (h : pendX (d, q) = true) : q.isSome = true := by
  simp only [pendX, Bool.and_eq_true] at h; exact h.1

theorem card_pendingUpdates (eqv : V → V → Bool) (hr : Refl eqv) (t : Tracker K V) (hi : Inv eqv t) (hw : WF3 t) :
    IsCard t.pendingUpdatesLen (fun k => pendU eqv (desiredGet t k, dataplaneGet t k) = true) := by
  refine ⟨keys t.du, hw.2.2, keys_length _, fun k => ?_⟩
  rw [mem_keys_iff, pending_updates_exact eqv hr t hi k]
  constructor
  · intro h
    by_cases hp : pendU eqv (desiredGet t k, dataplaneGet t k) = true
    · exact hp
    · rw [if_neg hp] at h; cases h
  · intro hp
    rw [if_pos hp]; exact pendU_isSome eqv _ _ hp

theorem card_pendingDeletions (eqv : V → V → Bool) (t : Tracker K V) (hi : Inv eqv t) (hw : WF3 t) :
    IsCard t.pendingDeletionsLen (fun k => pendX (desiredGet t k, dataplaneGet t k) = true) := by
  refine ⟨keys t.dn, hw.2.1, keys_length _, fun k => ?_⟩
  rw [mem_keys_iff, pending_deletions_exact eqv t hi k]
  constructor
  · intro h
    by_cases hp : pendX (desiredGet t k, dataplaneGet t k) = true
    · exact hp
    · rw [if_neg hp] at h; cases h
  · intro hp
    rw [if_pos hp]; exact pendX_isSome _ _ hp

theorem card_dataplane (eqv : V → V → Bool) (t : Tracker K V) (hi : Inv eqv t) (hw : WF3 t) :
    IsCard t.dataplaneLen (fun k => (dataplaneGet t k).isSome = true) := by
  refine ⟨keys t.dn ++ keys t.dd, ?_, by simp [Tracker.dataplaneLen, keys_length], fun k => ?_⟩
  · rw [List.nodup_append]
    refine ⟨hw.2.1, hw.1, ?_⟩
    intro a ha b hb hab
    subst hab
    have h1 := (mem_keys_iff t.dn a).1 ha
    have h2 := (mem_keys_iff t.dd a).1 hb
    have := (hi a).1
    simp only [proj] at this
    cases e : get t.dd a with
    | none => rw [e] at h2; cases h2
    | some w => rw [this (by simp [e])] at h1; cases h1
  · rw [List.mem_append, mem_keys_iff, mem_keys_iff]
    cases h1 : get t.dd k <;> cases h2 : get t.dn k <;> simp [dataplaneGet, h1, h2]

theorem card_desired (univ : List K) (hu : univ.Nodup) (t : Tracker K V) (hj : JU univ t) :
    0 ≤ t.desiredLen ∧ IsCard t.desiredLen.toNat (fun k => (desiredGet t k).isSome = true) := by
  unfold Tracker.desiredLen
  rw [hj.2]
  refine ⟨Int.natCast_nonneg _, univ.filter (fun k => (desiredGet t k).isSome), hu.filter _, by simp, fun k => ?_⟩
  simp only [List.mem_filter]
  exact ⟨fun h => h.2, fun h => ⟨hj.1 k h, h⟩⟩

theorem inSync_iff (eqv : V → V → Bool) (hr : Refl eqv) (t : Tracker K V) (hi : Inv eqv t) :
    t.inSync = true ↔ ∀ k, pendU eqv (desiredGet t k, dataplaneGet t k) = false ∧
      pendX (desiredGet t k, dataplaneGet t k) = false := by
  unfold Tracker.inSync Tracker.pendingDeletionsLen Tracker.pendingUpdatesLen
  simp only [Bool.and_eq_true, beq_iff_eq, List.length_eq_zero_iff]
  constructor
  · rintro ⟨h1, h2⟩ k
    have e1 := pending_updates_exact eqv hr t hi k
    have e2 := pending_deletions_exact eqv t hi k
    rw [h2] at e1; rw [h1] at e2
    simp only [get_nil] at e1 e2
    constructor
    · cases hp : pendU eqv (desiredGet t k, dataplaneGet t k) with
      | false => rfl
      | true =>
        rw [hp] at e1; simp only [if_true] at e1
        unfold pendU at hp
        cases hd : desiredGet t k with
        | none => simp [hd] at hp
        | some v => rw [hd] at e1; cases e1
    · cases hp : pendX (desiredGet t k, dataplaneGet t k) with
      | false => rfl
      | true =>
        rw [hp] at e2; simp only [if_true] at e2
        unfold pendX at hp
        simp only [Bool.and_eq_true] at hp
        rw [← e2] at hp; cases hp.1
  · intro h
    constructor
    · cases e : t.dn with
      | nil => rfl
      | cons p r =>
        exfalso
        have e2 := pending_deletions_exact eqv t hi p.1
        rw [(h p.1).2, e] at e2
        simp [get] at e2
    · cases e : t.du with
      | nil => rfl
      | cons p r =>
        exfalso
        have e1 := pending_updates_exact eqv hr t hi p.1
        rw [(h p.1).1, e] at e1
        simp [get] at e1

end CalicoVerif.C18
