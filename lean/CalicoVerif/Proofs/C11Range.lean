import CalicoVerif.Proofs.C11Asm
/-!
C11 — every jump the assembler resolves is forward, within int16 range, and
lands inside the program (or exactly at its end).
-/
namespace CalicoVerif.C11

/-- Jump-class instruction that uses its offset (not `call` / `exit`). -/
def offsetJump (i : Insn) : Bool := i.isJumpOp && i.op != opCall && i.op != opExit

/-- All offset-jumps of the program are forward, ≤ 32767 and stay within the program. -/
def JumpsOK : List Insn → Prop
  | [] => True
  | i :: rest => (offsetJump i = true → 0 ≤ i.off ∧ i.off ≤ 32767 ∧ i.off.toNat ≤ rest.length) ∧ JumpsOK rest

/-- The builder adds jumps only through `addWithOffsetFixup` (`Ev.jmp`). -/
def InsPlain (evs : List Ev) : Prop := ∀ i, Ev.ins i ∈ evs → offsetJump i = false

theorem dist_le {l : Label} :
    ∀ (r : List Ev) (last : Option Insn) (pend use : List Label) (d : Nat) (p : List Insn),
      dist l r last pend use = some d → asmGo r last pend use = some p → d ≤ p.length := by
  intro r
  induction r with
  | nil => intro last pend use d p hd; simp [dist] at hd
  | cons e es ih =>
    intro last pend use d p hd ha
    cases e with
    | label l' =>
      simp only [dist] at hd
      simp only [asmGo] at ha
      by_cases hll : l' = l
      · simp only [if_pos hll] at hd; cases hd; omega
      · simp only [if_neg hll] at hd
        exact ih last (l' :: pend) use d p hd ha
    | ins j =>
      simp only [dist] at hd
      simp only [asmGo] at ha
      by_cases hr : reachable last pend use = true
      · simp only [if_pos hr] at hd ha
        cases hd1 : dist l es (some j) [] use with
        | none => simp [hd1] at hd
        | some d1 =>
          cases ha1 : asmGo es (some j) [] use with
          | none => simp [ha1] at ha
          | some p1 =>
            simp [hd1] at hd; simp [ha1] at ha
            subst hd; subst ha
            have := ih (some j) [] use d1 p1 hd1 ha1
            simp only [List.length_cons]; omega
      · simp only [if_neg hr] at hd ha
        exact ih last [] use d p hd ha
    | jmp j l2 =>
      simp only [dist] at hd
      simp only [asmGo] at ha
      by_cases hr : reachable last pend use = true
      · simp only [if_pos hr] at hd ha
        cases hd1 : dist l es (some j) [] (l2 :: use) with
        | none => simp [hd1] at hd
        | some d1 =>
          simp [hd1] at hd
          subst hd
          cases hd2 : dist l2 es (some j) [] (l2 :: use) with
          | none => simp [hd2] at ha
          | some d2 =>
            simp only [hd2] at ha
            by_cases hbig : d2 > maxInt16
            · simp [if_pos hbig] at ha
            · simp only [if_neg hbig] at ha
              cases ha1 : asmGo es (some j) [] (l2 :: use) with
              | none => simp [ha1] at ha
              | some p1 =>
                simp [ha1] at ha
                subst ha
                have := ih (some j) [] (l2 :: use) d1 p1 hd1 ha1
                simp only [List.length_cons]; omega
      · simp only [if_neg hr] at hd ha
        exact ih last [] use d p hd ha

/-- **Jumps forward and in range**, for every assembled event list whose plain
instructions are not offset-jumps. -/
theorem asm_jumps_ok :
    ∀ (evs : List Ev) (last : Option Insn) (pend use : List Label) (prog : List Insn),
      InsPlain evs → asmGo evs last pend use = some prog → JumpsOK prog := by
  intro evs
  induction evs with
  | nil => intro last pend use prog _ ha; simp [asmGo] at ha; subst ha; trivial
  | cons e es ih =>
    intro last pend use prog hp ha
    have hp' : InsPlain es := fun i hi => hp i (List.mem_cons_of_mem _ hi)
    cases e with
    | label l =>
      simp only [asmGo] at ha
      exact ih last (l :: pend) use prog hp' ha
    | ins j =>
      simp only [asmGo] at ha
      by_cases hr : reachable last pend use = true
      · simp only [if_pos hr] at ha
        cases ha1 : asmGo es (some j) [] use with
        | none => simp [ha1] at ha
        | some p1 =>
          simp [ha1] at ha
          subst ha
          refine ⟨?_, ih (some j) [] use p1 hp' ha1⟩
          intro hj
          rw [hp j (List.mem_cons_self)] at hj
          cases hj
      · simp only [if_neg hr] at ha
        exact ih last [] use prog hp' ha
    | jmp j l =>
      simp only [asmGo] at ha
      by_cases hr : reachable last pend use = true
      · simp only [if_pos hr] at ha
        cases hd : dist l es (some j) [] (l :: use) with
        | none => simp [hd] at ha
        | some d =>
          simp only [hd] at ha
          by_cases hbig : d > maxInt16
          · simp [if_pos hbig] at ha
          · simp only [if_neg hbig] at ha
            cases ha1 : asmGo es (some j) [] (l :: use) with
            | none => simp [ha1] at ha
            | some p1 =>
              simp [ha1] at ha
              subst ha
              refine ⟨?_, ih (some j) [] (l :: use) p1 hp' ha1⟩
              intro _
              have hle := dist_le es (some j) [] (l :: use) d p1 hd ha1
              simp only [maxInt16] at hbig
              refine ⟨by simp, by simp only; omega, by simpa using hle⟩
      · simp only [if_neg hr] at ha
        exact ih last [] use prog hp' ha

end CalicoVerif.C11
