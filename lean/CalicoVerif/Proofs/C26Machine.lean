import CalicoVerif.Proofs.C26Inv
/-!
C26 — the invariant through `finishResync`, `sendDeletionsForAllResources`, a successful List, the whole
`maybeResyncAndCreateWatcher` loop (all failure outcomes) and the watch-event loop.
-/
namespace CalicoVerif.C26

/-- Between list processings `oldResources` is nil. -/
structure Good (m0 : View) (st0 : Nat) (wc : WC) : Prop where
  inv : Inv m0 st0 wc
  idle : wc.old = none

theorem Good.of_eq {m0 : View} {st0 : Nat} {wc wc' : WC} (h : Good m0 st0 wc) (hr : wc'.res = wc.res)
    (ho : wc'.old = wc.old) (hout : wc'.out = wc.out) (hs : wc'.status = wc.status) : Good m0 st0 wc' :=
  ⟨h.inv.of_eq hr ho hout hs, by rw [ho]; exact h.idle⟩

theorem Good.view_eq {m0 : View} {st0 : Nat} {wc : WC} (h : Good m0 st0 wc) (k : Nat) : view wc k = lookup wc.res k := by
  simp only [view, oldLookup, h.idle, Option.bind_none]
  cases lookup wc.res k <;> rfl

theorem Good.send_status {m0 : View} {st0 : Nat} {wc : WC} (h : Good m0 st0 wc) (s : Nat) :
    Good m0 st0 (wc.send (.status s)) :=
  ⟨h.inv.send_status s, by rw [send_old']; exact h.idle⟩

theorem Good.send_backendErr {m0 : View} {st0 : Nat} {wc : WC} (h : Good m0 st0 wc) :
    Good m0 st0 (wc.send .backendErr) :=
  ⟨h.inv.send_backendErr, by rw [send_old']; exact h.idle⟩

/-! ### finishResync -/

theorem send_status_ne_wait (wc : WC) :
    (if wc.status = stWait then wc.send (.status stResync) else wc).status ≠ stWait := by
  split
  · rw [send_status']; decide
  · assumption

structure FinishOK (m0 : View) (st0 : Nat) (wc w : WC) : Prop where
  inv : Inv m0 st0 w
  idle : w.old = none
  status : w.status = stInSync
  /-- everything still in `oldResources` is swept (deleted), the rest is kept -/
  view : ∀ k, view w k = if oldLookup wc k ≠ none then none else view wc k
  mode : w.procMode = wc.procMode
  rev : w.rev = wc.rev

theorem finishResync_ok {m0 : View} {st0 : Nat} {wc : WC} (h : Inv m0 st0 wc) :
    FinishOK m0 st0 wc wc.finishResync := by
  -- step 1: leave WaitForDatastore
  have h1 : Inv m0 st0 (if wc.status = stWait then wc.send (.status stResync) else wc) := by
    split
    · exact h.send_status _
    · exact h
  have hs1 := send_status_ne_wait wc
  have r1 : (if wc.status = stWait then wc.send (.status stResync) else wc).res = wc.res := by
    split
    · exact send_res _ _
    · rfl
  have o1 : (if wc.status = stWait then wc.send (.status stResync) else wc).old = wc.old := by
    split
    · exact send_old' _ _
    · rfl
  have p1 : (if wc.status = stWait then wc.send (.status stResync) else wc).procMode = wc.procMode := by
    split
    · exact send_procMode _ _
    · rfl
  have rv1 : (if wc.status = stWait then wc.send (.status stResync) else wc).rev = wc.rev := by
    split
    · simp only [WC.send]; split <;> rfl
    · rfl
  generalize (if wc.status = stWait then wc.send (.status stResync) else wc) = w1 at h1 hs1 r1 o1 p1 rv1
  have hol : ∀ k, oldLookup w1 k = oldLookup wc k := fun k => by simp [oldLookup, o1]
  have hvw : ∀ k, view w1 k = view wc k := fun k => by simp [view, r1, hol]
  -- step 2+3: sweep and clear oldResources; the state before the final InSync
  have key : ∀ (w2 : WC), w2.res = w1.res → w2.old = none → w2.status = w1.status →
      (∃ ks : List Nat, w2.out = w1.out ++ (if ks.isEmpty then [] else [Res.updates (ks.map delUpd)]) ∧
        ∀ k, k ∈ ks ↔ oldLookup w1 k ≠ none) → Inv m0 st0 w2 := by
    intro w2 hr ho hst ⟨ks, hout, hks⟩
    have e : downFrom m0 w1.out = view w1 := funext h1.mirror
    have hdown : ∀ k, downFrom m0 w2.out k = if k ∈ ks then none else view w1 k := by
      intro k
      rw [hout]
      by_cases he : ks.isEmpty = true
      · have : ks = [] := by simpa using he
        simp [this, e]
      · simp only [he, if_false, downFrom_snoc, Bool.false_eq_true, applyRes, e]
        exact foldl_delUpd _ _ _
    refine ⟨?_, ?_, ?_, ?_⟩
    · intro k hk; simp [oldLookup, ho] at hk
    · intro k
      rw [hdown]
      simp only [view, oldLookup, ho, hr, Option.bind_none]
      by_cases hk : k ∈ ks
      · have := h1.disj k ((hks k).mp hk)
        simp [hk, this]
      · have : oldLookup w1 k = none := by
          by_cases c : oldLookup w1 k = none
          · exact c
          · exact absurd ((hks k).mpr c) hk
        simp only [hk, if_false]
        simp only [oldLookup] at this
        rw [this]
    · rw [hout, hst]
      by_cases he : ks.isEmpty = true
      · simp [he]; exact h1.track
      · simp only [he, if_false, Bool.false_eq_true]; rw [lastStatus_snoc]; exact h1.track
    · rw [hout]
      by_cases he : ks.isEmpty = true
      · simp [he]; exact h1.quiet
      · simp only [he, if_false, Bool.false_eq_true]
        rw [quietFrom_snoc, h1.quiet, h1.track]
        simp [hs1]
  -- instantiate with the model's state
  have hfin : ∀ (w2 : WC), Inv m0 st0 w2 → w2.old = none → w2.res = w1.res → w2.procMode = w1.procMode →
      w2.rev = w1.rev → FinishOK m0 st0 wc (w2.send (.status stInSync)) := by
    intro w2 hi ho hr hp hrv
    refine ⟨hi.send_status _, by rw [send_old']; exact ho, send_status' _ _, ?_, by rw [send_procMode, hp, p1], ?_⟩
    · intro k
      have : view (w2.send (.status stInSync)) k = lookup w1.res k := by
        simp only [view, oldLookup, send_res, send_old', ho, hr, Option.bind_none]
        cases lookup w1.res k <;> rfl
      rw [this, ← hol, ← hvw]
      by_cases c : oldLookup w1 k = none
      · simp only [c, ne_eq, not_true_eq_false, if_false, view]
        simp only [oldLookup] at c
        simp only [oldLookup, c]
        cases lookup w1.res k <;> rfl
      · simp only [c, ne_eq, not_false_eq_true, if_true]
        exact h1.disj k c
    · simp only [WC.send]; split
      · rw [hrv, rv1]
      · show w2.rev = wc.rev; rw [hrv, rv1]
  unfold WC.finishResync
  simp only
  cases ho1 : w1.old with
  | none =>
    simp only
    apply hfin { w1 with old := none }
    · apply key _ rfl rfl rfl
      refine ⟨[], by simp, ?_⟩
      intro k; simp [oldLookup, ho1]
    · rfl
    · rfl
    · rfl
    · rfl
  | some o =>
    simp only
    by_cases hoe : o.isEmpty = true
    · simp only [hoe, if_true]
      apply hfin { w1 with old := none }
      · apply key _ rfl rfl rfl
        refine ⟨[], by simp, ?_⟩
        intro k
        have : o = [] := by simpa using hoe
        simp [oldLookup, ho1, this, lookup]
      · rfl
      · rfl
      · rfl
      · rfl
    · simp only [hoe, if_false, Bool.false_eq_true]
      apply hfin { w1.send (.updates ((sortKeys (keysOf o)).map delUpd)) with old := none }
      · apply key _ rfl rfl rfl
        refine ⟨sortKeys (keysOf o), ?_, ?_⟩
        · have hne : (sortKeys (keysOf o)).isEmpty = false := by
            cases o with
            | nil => simp at hoe
            | cons p ps =>
              have : p.1 ∈ sortKeys (keysOf (p :: ps)) := (mem_sortKeys _ _).mpr (by simp [keysOf])
              cases hsk : sortKeys (keysOf (p :: ps)) with
              | nil => rw [hsk] at this; cases this
              | cons _ _ => rfl
          simp only [hne, Bool.false_eq_true, if_false]
          rfl
        · intro k
          rw [mem_sortKeys, mem_keysOf]
          simp [oldLookup, ho1]
      · rfl
      · rfl
      · rfl
      · rfl

/-! ### sendDeletionsForAllResources -/

def delResults (ks : List Nat) : List Res := ks.map (fun k => Res.updates [delUpd k])

theorem sendDels_fields (ks : List Nat) (wc : WC) :
    let w := ks.foldl (fun wc k => wc.send (.updates [delUpd k])) wc
    w.out = wc.out ++ delResults ks ∧ w.status = wc.status ∧ w.old = wc.old ∧ w.res = wc.res := by
  induction ks generalizing wc with
  | nil => simp [delResults]
  | cons k ks ih =>
    simp only [List.foldl_cons]
    obtain ⟨h1, h2, h3, h4⟩ := ih (wc.send (.updates [delUpd k]))
    refine ⟨?_, ?_, ?_, ?_⟩
    · rw [h1]; simp [delResults, WC.send]
    · rw [h2]; rfl
    · rw [h3]; rfl
    · rw [h4]; rfl

theorem downFrom_delResults (m : View) (ks : List Nat) (k : Nat) :
    downFrom m (delResults ks) k = if k ∈ ks then none else m k := by
  induction ks generalizing m with
  | nil => simp [delResults, downFrom]
  | cons x xs ih =>
    simp only [delResults, List.map_cons, downFrom, List.foldl_cons] at ih ⊢
    rw [ih]
    by_cases hk : k ∈ xs
    · simp [hk]
    · by_cases hx : x = k
      · simp [hk, hx, applyRes, applyUpd, delUpd]
      · have : ¬ k = x := fun e => hx e.symm
        simp [hk, applyRes, applyUpd, delUpd, hx, this]

theorem lastStatus_delResults (st : Nat) (ks : List Nat) : lastStatus st (delResults ks) = st := by
  induction ks with
  | nil => rfl
  | cons x xs ih => simpa [delResults, lastStatus] using ih

theorem quietFrom_delResults (st : Nat) (ks : List Nat) (h : st ≠ stWait ∨ ks = []) :
    quietFrom st (delResults ks) = true := by
  induction ks with
  | nil => rfl
  | cons x xs ih =>
    rcases h with h | h
    · simp only [delResults, List.map_cons, quietFrom, Bool.and_eq_true, bne_iff_ne, ne_eq]
      exact ⟨h, ih (Or.inl h)⟩
    · cases h

theorem sendDeletionsForAll_ok {m0 : View} {st0 : Nat} {wc : WC} (h : Good m0 st0 wc) :
    Good m0 st0 wc.sendDeletionsForAll ∧ wc.sendDeletionsForAll.res = [] ∧ wc.sendDeletionsForAll.rev = 0 := by
  have h1 : Good m0 st0 (if (!wc.res.isEmpty && decide (wc.status = stWait)) = true then wc.send (.status stResync) else wc) := by
    split
    · exact h.send_status _
    · exact h
  have hs1 : (if (!wc.res.isEmpty && decide (wc.status = stWait)) = true then wc.send (.status stResync) else wc).status ≠ stWait
      ∨ sortKeys (keysOf wc.res) = [] := by
    split
    · left; rw [send_status']; decide
    · rename_i hc
      simp only [Bool.and_eq_true, Bool.not_eq_true', decide_eq_true_eq, not_and] at hc
      by_cases he : wc.res.isEmpty = true
      · right
        have : wc.res = [] := by simpa using he
        simp [this, keysOf, sortKeys]
      · left; exact hc (by simpa using he)
  have r1 : (if (!wc.res.isEmpty && decide (wc.status = stWait)) = true then wc.send (.status stResync) else wc).res = wc.res := by
    split
    · exact send_res _ _
    · rfl
  unfold WC.sendDeletionsForAll
  simp only
  generalize (if (!wc.res.isEmpty && decide (wc.status = stWait)) = true then wc.send (.status stResync) else wc) = w1
    at h1 hs1 r1
  rw [← r1]
  obtain ⟨f1, f2, f3, f4⟩ := sendDels_fields (sortKeys (keysOf w1.res)) w1
  simp only at f1 f2 f3 f4
  refine ⟨⟨⟨?_, ?_, ?_, ?_⟩, ?_⟩, rfl, rfl⟩
  · intro k hk
    rfl
  · intro k
    show downFrom m0 (List.foldl _ w1 _).out k = _
    rw [f1, downFrom_append, downFrom_delResults]
    have e : downFrom m0 w1.out = view w1 := funext h1.inv.mirror
    rw [e, h1.view_eq]
    simp only [view, oldLookup, lookup, List.find?_nil, Option.map_none]
    rw [f3, h1.idle]
    by_cases hk : k ∈ sortKeys (keysOf w1.res)
    · simp [hk]
    · have : lookup w1.res k = none := by
        by_cases c : lookup w1.res k = none
        · exact c
        · exact absurd ((mem_sortKeys _ _).mpr ((mem_keysOf _ _).mpr c)) hk
      simp only [hk, if_false]
      simp only [lookup] at this
      simp [this]
  · show lastStatus st0 (List.foldl _ w1 _).out = (List.foldl _ w1 _).status
    rw [f1, f2, lastStatus_append, lastStatus_delResults]; exact h1.inv.track
  · show quietFrom st0 (List.foldl _ w1 _).out = true
    rw [f1, quietFrom_append, h1.inv.quiet, h1.inv.track]
    rcases hs1 with hs | hs
    · simp [quietFrom_delResults _ _ (Or.inl hs)]
    · rw [← r1] at hs ⊢
      simp [hs, delResults, quietFrom]
  · show (List.foldl _ w1 _).old = none
    rw [f3]; exact h1.idle

/-! ### a successful List -/

structure ListOK (m0 : View) (st0 : Nat) (wc w : WC) (kvs : List KV) : Prop where
  good : Good m0 st0 w
  status : w.status = stInSync
  /-- whatever the cache held before, it now holds exactly the converted list -/
  view : ∀ k, view w k = (kvs.flatMap (convert wc.procMode)).foldl applyKV emptyView k
  mode : w.procMode = wc.procMode

theorem processList_ok {m0 : View} {st0 : Nat} {wc : WC} (h : Good m0 st0 wc) (kvs : List KV) :
    ListOK m0 st0 wc (wc.processList kvs) kvs := by
  unfold WC.processList
  simp only
  have h0 : Good m0 st0 { wc with connected := true, crdInstalled := true } := h.of_eq rfl rfl rfl rfl
  generalize hw0 : ({ wc with connected := true, crdInstalled := true } : WC) = w0 at h0
  have pm0 : w0.procMode = wc.procMode := by rw [← hw0]
  have h1 : Good m0 st0 (if w0.status = stWait then w0.send (.status stResync) else w0) := by
    split
    · exact h0.send_status _
    · exact h0
  have hs1 := send_status_ne_wait w0
  have pm1 : (if w0.status = stWait then w0.send (.status stResync) else w0).procMode = wc.procMode := by
    split
    · rw [send_procMode]; exact pm0
    · exact pm0
  generalize (if w0.status = stWait then w0.send (.status stResync) else w0) = w1 at h1 hs1 pm1
  -- move everything to oldResources
  have h2 : Inv m0 st0 { w1 with old := some w1.res, res := [] } := by
    refine ⟨?_, ?_, h1.inv.track, h1.inv.quiet⟩
    · intro k _; rfl
    · intro k
      show downFrom m0 w1.out k = _
      rw [h1.inv.mirror, h1.view_eq]
      simp [view, oldLookup, lookup]
  have s := foldl_handleWatchListEvent_ok kvs h2 hs1
  have f := finishResync_ok s.inv
  simp only at s f
  rw [pm1] at s
  refine ⟨⟨f.inv, f.idle⟩, f.status, ?_, by rw [f.mode, s.mode]; exact pm1⟩
  intro k
  rw [f.view, s.old, s.view]
  have ol2 : oldLookup { w1 with old := some w1.res, res := [] } k = lookup w1.res k := by
    simp [oldLookup]
  have vw2 : ∀ k, view { w1 with old := some w1.res, res := [] } k = lookup w1.res k := by
    intro k; simp [view, oldLookup, lookup]
  rw [ol2]
  cases hm : mentions (kvs.flatMap (convert wc.procMode)) k with
  | true =>
    simp only [if_true, ne_eq, not_true_eq_false, if_false]
    exact foldl_applyKV_mem _ _ _ _ ((mentions_iff _ _).mp hm)
  | false =>
    have hn := (mentions_false_iff _ _).mp hm
    simp only [Bool.false_eq_true, if_false]
    rw [foldl_applyKV_not_mem _ _ _ hn, foldl_applyKV_not_mem _ _ _ hn, vw2]
    by_cases c : lookup w1.res k = none
    · simp [c, emptyView]
    · simp [c, emptyView]

/-! ### the resync loop -/

theorem beginFull_good {m0 : View} {st0 : Nat} {wc : WC} (h : Good m0 st0 wc) : Good m0 st0 wc.beginFull := by
  unfold WC.beginFull
  simp only
  have h' : Good m0 st0 { wc with listPolling := false, watchPolling := false } := h.of_eq rfl rfl rfl rfl
  split
  · split
    · exact h'.send_status _
    · exact h'.send_status _
  · exact h'

theorem beginFull_mode (wc : WC) : wc.beginFull.procMode = wc.procMode := by
  unfold WC.beginFull
  simp only
  split
  · split <;> rw [send_procMode]
  · rfl

/-- What one List step guarantees: the invariant, "still waiting ⇒ a full resync is still owed", and the
Watch is attempted only when not waiting. -/
structure ListStepOK (m0 : View) (st0 : Nat) (r : WC × Bool × Bool) : Prop where
  good : Good m0 st0 r.1
  owed : r.1.status = stWait → r.2.1 = true ∨ r.1.rev = 0
  go : r.2.2 = true → r.1.status ≠ stWait

theorem listStep_ok {m0 : View} {st0 : Nat} {wc : WC} (h : Good m0 st0 wc) (lo : ListOut) :
    ListStepOK m0 st0 (listStep wc lo) := by
  have hb := beginFull_good h
  unfold listStep
  simp only
  cases lo with
  | notFound =>
    simp only
    have f := finishResync_ok hb.inv
    have g : Good m0 st0 wc.beginFull.onListNotFound := by
      unfold WC.onListNotFound
      exact (Good.mk f.inv f.idle).of_eq rfl rfl rfl rfl
    exact ⟨g, fun _ => Or.inl rfl, fun c => by cases c⟩
  | expired =>
    simp only
    exact ⟨by unfold WC.onListExpired; exact hb.of_eq rfl rfl rfl rfl, fun _ => Or.inl rfl, fun c => by cases c⟩
  | other elapsed =>
    simp only
    refine ⟨?_, fun _ => Or.inl rfl, fun c => by cases c⟩
    unfold WC.onListOther
    simp only
    have h' : Good m0 st0 { wc.beginFull with crdInstalled := true } := hb.of_eq rfl rfl rfl rfl
    split
    · have h'' : Good m0 st0 ({ wc.beginFull with crdInstalled := true, connected := false, listPolling := false,
          watchPolling := false } : WC) := hb.of_eq rfl rfl rfl rfl
      have h3 := h''.send_backendErr
      split
      · exact (sendDeletionsForAll_ok h3).1
      · exact h3
    · exact h'
  | ok kvs lrev =>
    simp only
    have l := processList_ok hb kvs
    split
    · refine ⟨l.good.of_eq rfl rfl rfl rfl, fun _ => Or.inl rfl, fun c => by cases c⟩
    · refine ⟨l.good.of_eq rfl rfl rfl rfl, ?_, ?_⟩
      · intro c
        have : (wc.beginFull.processList kvs).status = stWait := c
        rw [l.status] at this; cases this
      · intro _
        show (wc.beginFull.processList kvs).status ≠ stWait
        rw [l.status]; decide

theorem watchStep_ok {m0 : View} {st0 : Nat} {wc : WC} (h : Good m0 st0 wc) (full : Bool) (wo : WatchOut) :
    Good m0 st0 (watchStep wc full wo).1 ∧ (watchStep wc full wo).1.status = wc.status := by
  unfold watchStep
  cases wo with
  | ok => exact ⟨h, rfl⟩
  | expired => exact ⟨h.of_eq rfl rfl rfl rfl, rfl⟩
  | connRefused e =>
    simp only
    split
    · exact ⟨h.of_eq rfl rfl rfl rfl, rfl⟩
    · exact ⟨h, rfl⟩
  | notSupported => exact ⟨h.of_eq rfl rfl rfl rfl, rfl⟩
  | other => exact ⟨h.of_eq rfl rfl rfl rfl, rfl⟩

/-- The whole `maybeResyncAndCreateWatcher`: for every scripted sequence of failures, when the watch is
finally created the invariant holds and the cache is not in WaitForDatastore. -/
theorem resyncLoop_ok {m0 : View} {st0 : Nat} (fin : List KV × Nat) :
    ∀ (fuel : Nat) (wc : WC) (full : Bool) (lists : List ListOut) (watches : List WatchOut),
      Good m0 st0 wc → (wc.status = stWait → full = true ∨ wc.rev = 0) →
      ∀ w, resyncLoop fin fuel wc full lists watches = some w → Good m0 st0 w ∧ w.status ≠ stWait := by
  intro fuel
  induction fuel with
  | zero => intro wc full lists watches _ _ w hw; simp [resyncLoop] at hw
  | succ n ih =>
    intro wc full lists watches hg ho w hw
    unfold resyncLoop at hw
    simp only at hw
    -- the list part
    have hr : ListStepOK m0 st0
        (if (full || decide (wc.rev = 0)) = true then listStep wc (lists.headD (ListOut.ok fin.1 fin.2))
          else (wc, false, true)) := by
      split
      · exact listStep_ok hg _
      · rename_i hf
        refine ⟨hg, ?_, ?_⟩
        · intro c
          rcases ho c with h1 | h1
          · simp [h1] at hf
          · simp [h1] at hf
        · intro _ c
          rcases ho c with h1 | h1
          · simp [h1] at hf
          · simp [h1] at hf
    generalize (if (full || decide (wc.rev = 0)) = true then listStep wc (lists.headD (ListOut.ok fin.1 fin.2))
          else (wc, false, true)) = r at hr hw
    by_cases hgo : r.2.2 = true
    · simp only [hgo, Bool.not_true, Bool.false_eq_true, if_false] at hw
      have hnw := hr.go hgo
      have hwk := watchStep_ok hr.good r.2.1 (watches.headD WatchOut.ok)
      by_cases hdone : (watchStep r.1 r.2.1 (watches.headD WatchOut.ok)).2.2 = true
      · simp only [hdone, if_true, Option.some.injEq] at hw
        subst hw
        exact ⟨hwk.1, by rw [hwk.2]; exact hnw⟩
      · simp only [hdone, Bool.false_eq_true, if_false] at hw
        exact ih _ _ _ _ hwk.1 (fun c => by rw [hwk.2] at c; exact absurd c hnw) w hw
    · have : r.2.2 = false := by simpa using hgo
      simp only [this, Bool.not_false, if_true] at hw
      exact ih _ _ _ _ hr.good hr.owed w hw

/-! ### the watch-event loop -/

/-- The (raw) KVs the event loop processes: everything before the first error event. -/
def processed : List Ev → List KV
  | [] => []
  | .upsert kv :: r => kv :: processed r
  | .delete kv :: r => { kv with del := true } :: processed r
  | .bookmark _ :: r => processed r
  | .unknown :: r => processed r
  | .errExpired :: _ => []
  | .errOther :: _ => []

theorem eventLoop_ok {m0 : View} {st0 : Nat} (evs : List Ev) {wc : WC} (h : Good m0 st0 wc) (hs : wc.status ≠ stWait) :
    Good m0 st0 (eventLoop wc evs) ∧ (eventLoop wc evs).status = wc.status ∧
      ∀ k, view (eventLoop wc evs) k = ((processed evs).flatMap (convert wc.procMode)).foldl applyKV (view wc) k := by
  induction evs generalizing wc with
  | nil => exact ⟨h, rfl, fun _ => rfl⟩
  | cons ev evs ih =>
    cases ev with
    | upsert kv =>
      simp only [eventLoop, processed, List.flatMap_cons, List.foldl_append]
      have s := handleWatchListEvent_ok h.inv hs kv
      obtain ⟨g, st, v⟩ := ih (wc := wc.handleWatchListEvent kv) ⟨s.inv, s.idle h.idle⟩ (by rw [s.status]; exact hs)
      refine ⟨g, st.trans s.status, ?_⟩
      intro k
      rw [v, s.mode]
      have : view (wc.handleWatchListEvent kv) = (convert wc.procMode kv).foldl applyKV (view wc) := funext s.view
      rw [this]
    | delete kv =>
      simp only [eventLoop, processed, List.flatMap_cons, List.foldl_append]
      have s := handleWatchListEvent_ok h.inv hs { kv with del := true }
      obtain ⟨g, st, v⟩ := ih (wc := wc.handleWatchListEvent { kv with del := true }) ⟨s.inv, s.idle h.idle⟩
        (by rw [s.status]; exact hs)
      refine ⟨g, st.trans s.status, ?_⟩
      intro k
      rw [v, s.mode]
      have : view (wc.handleWatchListEvent { kv with del := true }) =
          (convert wc.procMode { kv with del := true }).foldl applyKV (view wc) := funext s.view
      rw [this]
    | bookmark r =>
      simp only [eventLoop, processed]
      exact ih (wc := { wc with rev := r, errCount := 0 }) (h.of_eq rfl rfl rfl rfl) hs
    | errExpired =>
      simp only [eventLoop, processed]
      exact ⟨h.of_eq rfl rfl rfl rfl, rfl, fun _ => rfl⟩
    | errOther =>
      simp only [eventLoop, processed]
      split
      · exact ⟨h.of_eq rfl rfl rfl rfl, rfl, fun _ => rfl⟩
      · exact ⟨h.of_eq rfl rfl rfl rfl, rfl, fun _ => rfl⟩
    | unknown =>
      simp only [eventLoop, processed]
      exact ih h hs

end CalicoVerif.C26
