import CalicoVerif.Proofs.C26Inv
/-!
C26 — the invariant through `finishResync`, `sendDeletionsForAllResources`, a successful List, the whole
`maybeResyncAndCreateWatcher` loop (all failure outcomes) and the watch-event loop.
-/
namespace CalicoVerif.C26

/-- Between list processings `oldResources` is nil. -/
structure Good (m0 : View) (st0 : Nat) (wc : WC) : Prop where
  inv : Inv m0 st0 wc
  idle : wc.old = none

theorem Good.of_eq {m0 : View} {st0 : Nat} {wc wc' : WC} (h : Good m0 st0 wc) (hr : wc'.res = wc.res)
    (ho : wc'.old = wc.old) (hout : wc'.out = wc.out) (hs : wc'.status = wc.status) : Good m0 st0 wc' :=
  ⟨h.inv.of_eq hr ho hout hs, by rw [ho]; exact h.idle⟩

theorem Good.view_eq {m0 : View} {st0 : Nat} {wc : WC} (h : Good m0 st0 wc) (k : Nat) : view wc k = lookup wc.res k := by
  simp only [view, oldLookup, h.idle, Option.bind_none]
  cases lookup wc.res k <;> rfl

theorem Good.send_status {m0 : View} {st0 : Nat} {wc : WC} (h : Good m0 st0 wc) (s : Nat) :
    Good m0 st0 (wc.send (.status s)) :=
  ⟨h.inv.send_status s, by rw [send_old']; exact h.idle⟩

theorem Good.send_backendErr {m0 : View} {st0 : Nat} {wc : WC} (h : Good m0 st0 wc) :
    Good m0 st0 (wc.send .backendErr) :=
  ⟨h.inv.send_backendErr, by rw [send_old']; exact h.idle⟩

/-! ### finishResync -/

theorem leaveWait_good {m0 : View} {st0 : Nat} {wc : WC} (h : Inv m0 st0 wc) : Inv m0 st0 wc.leaveWait := by
  unfold WC.leaveWait; split
  · exact h.send_status _
  · exact h

theorem leaveWait_status (wc : WC) : wc.leaveWait.status ≠ stWait := by
  unfold WC.leaveWait; split
  · rw [send_status']; decide
  · assumption

theorem leaveWait_res (wc : WC) : wc.leaveWait.res = wc.res := by
  unfold WC.leaveWait; split
  · exact send_res _ _
  · rfl

theorem leaveWait_old (wc : WC) : wc.leaveWait.old = wc.old := by
  unfold WC.leaveWait; split
  · exact send_old' _ _
  · rfl

theorem leaveWait_mode (wc : WC) : wc.leaveWait.proc = wc.proc := by
  unfold WC.leaveWait; split
  · exact send_proc _ _
  · rfl

theorem leaveWait_pst (wc : WC) : wc.leaveWait.pst = wc.pst := by
  unfold WC.leaveWait; split
  · exact send_pst _ _
  · rfl

theorem leaveWait_view (wc : WC) (k : Nat) : view wc.leaveWait k = view wc k := by
  simp [view, oldLookup, leaveWait_res, leaveWait_old]

theorem leaveWait_oldLookup (wc : WC) (k : Nat) : oldLookup wc.leaveWait k = oldLookup wc k := by
  simp [oldLookup, leaveWait_old]

/-- The sweep: everything still in `oldResources` is deleted downstream, the rest is kept. -/
theorem sweep_ok {m0 : View} {st0 : Nat} {wc : WC} (h : Inv m0 st0 wc) (hs : wc.status ≠ stWait) :
    Inv m0 st0 wc.sweep ∧ wc.sweep.old = none ∧ wc.sweep.res = wc.res ∧ wc.sweep.status = wc.status ∧
      wc.sweep.proc = wc.proc := by
  have e : downFrom m0 wc.out = view wc := funext h.mirror
  -- generic: a state with the same res/status, old = nil, and out extended by the deletions of `ks`
  have key : ∀ (w2 : WC) (ks : List Nat), w2.res = wc.res → w2.old = none → w2.status = wc.status →
      w2.out = wc.out ++ (if ks.isEmpty then [] else [Res.updates (ks.map delUpd)]) →
      (∀ k, k ∈ ks ↔ oldLookup wc k ≠ none) → Inv m0 st0 w2 := by
    intro w2 ks hr ho hst hout hks
    have hdown : ∀ k, downFrom m0 w2.out k = if k ∈ ks then none else view wc k := by
      intro k
      rw [hout]
      by_cases he : ks.isEmpty = true
      · have : ks = [] := by simpa using he
        simp [this, e]
      · simp only [he, if_false, downFrom_snoc, Bool.false_eq_true, applyRes, e]
        exact foldl_delUpd _ _ _
    refine ⟨?_, ?_, ?_, ?_⟩
    · intro k hk; simp [oldLookup, ho] at hk
    · intro k
      rw [hdown]
      simp only [view, oldLookup, ho, hr, Option.bind_none]
      by_cases hk : k ∈ ks
      · have := h.disj k ((hks k).mp hk)
        simp [hk, this]
      · have : oldLookup wc k = none := by
          by_cases c : oldLookup wc k = none
          · exact c
          · exact absurd ((hks k).mpr c) hk
        simp only [hk, if_false]
        simp only [oldLookup] at this
        rw [this]
    · rw [hout, hst]
      by_cases he : ks.isEmpty = true
      · simp only [he, if_true, List.append_nil]; exact h.track
      · simp only [he, if_false, Bool.false_eq_true]; rw [lastStatus_snoc]; exact h.track
    · rw [hout]
      by_cases he : ks.isEmpty = true
      · simp only [he, if_true, List.append_nil]; exact h.quiet
      · simp only [he, if_false, Bool.false_eq_true]
        rw [quietFrom_snoc, h.quiet, h.track]
        simp [hs]
  unfold WC.sweep
  cases ho : wc.old with
  | none =>
    simp only
    refine ⟨key _ [] rfl rfl rfl (by simp) ?_, by trivial, by trivial, by trivial, by trivial⟩
    intro k; simp [oldLookup, ho]
  | some o =>
    simp only
    by_cases hoe : o.isEmpty = true
    · simp only [hoe, if_true]
      refine ⟨key _ [] rfl rfl rfl (by simp) ?_, by trivial, by trivial, by trivial, by trivial⟩
      intro k
      have : o = [] := by simpa using hoe
      simp [oldLookup, ho, this, lookup]
    · simp only [hoe, if_false, Bool.false_eq_true]
      refine ⟨key _ (sortKeys (keysOf o)) rfl rfl rfl ?_ ?_, by trivial, by trivial, by trivial, by trivial⟩
      · have hne : (sortKeys (keysOf o)).isEmpty = false := by
          cases o with
          | nil => simp at hoe
          | cons p ps =>
            have : p.1 ∈ sortKeys (keysOf (p :: ps)) := (mem_sortKeys _ _).mpr (by simp [keysOf])
            cases hsk : sortKeys (keysOf (p :: ps)) with
            | nil => rw [hsk] at this; cases this
            | cons _ _ => rfl
        simp only [hne, Bool.false_eq_true, if_false]
        rfl
      · intro k
        rw [mem_sortKeys, mem_keysOf]
        simp [oldLookup, ho]

structure FinishOK (m0 : View) (st0 : Nat) (wc w : WC) : Prop where
  inv : Inv m0 st0 w
  idle : w.old = none
  status : w.status = stInSync
  /-- everything still in `oldResources` is swept (deleted), the rest is kept -/
  view : ∀ k, view w k = if oldLookup wc k ≠ none then none else view wc k
  mode : w.proc = wc.proc

theorem finishResync_ok {m0 : View} {st0 : Nat} {wc : WC} (h : Inv m0 st0 wc) :
    FinishOK m0 st0 wc wc.finishResync := by
  have h1 := leaveWait_good h
  obtain ⟨i2, o2, r2, _, p2⟩ := sweep_ok h1 (leaveWait_status wc)
  unfold WC.finishResync
  refine ⟨i2.send_status _, by rw [send_old']; exact o2, send_status' _ _, ?_, by rw [send_proc, p2, leaveWait_mode]⟩
  intro k
  have : view (wc.leaveWait.sweep.send (.status stInSync)) k = lookup wc.res k := by
    simp only [view, oldLookup, send_res, send_old', o2, r2, leaveWait_res, Option.bind_none]
    cases lookup wc.res k <;> rfl
  rw [this]
  by_cases c : oldLookup wc k = none
  · simp only [c, ne_eq, not_true_eq_false, if_false, view]
    cases lookup wc.res k <;> rfl
  · simp only [c, ne_eq, not_false_eq_true, if_true]
    exact h.disj k c

theorem finishResync_pst (wc : WC) : wc.finishResync.pst = wc.pst := by
  unfold WC.finishResync
  rw [send_pst]
  have : wc.leaveWait.sweep.pst = wc.leaveWait.pst := by
    unfold WC.sweep
    split
    · split
      · rfl
      · show (WC.send _ _).pst = _; rw [send_pst]
    · rfl
  rw [this, leaveWait_pst]

/-! ### sendDeletionsForAllResources -/

def delResults (ks : List Nat) : List Res := ks.map (fun k => Res.updates [delUpd k])

theorem sendDels_fields (ks : List Nat) (wc : WC) :
    let w := ks.foldl (fun wc k => wc.send (.updates [delUpd k])) wc
    w.out = wc.out ++ delResults ks ∧ w.status = wc.status ∧ w.old = wc.old ∧ w.res = wc.res := by
  induction ks generalizing wc with
  | nil => simp [delResults]
  | cons k ks ih =>
    simp only [List.foldl_cons]
    obtain ⟨h1, h2, h3, h4⟩ := ih (wc.send (.updates [delUpd k]))
    refine ⟨?_, ?_, ?_, ?_⟩
    · rw [h1]; simp [delResults, WC.send]
    · rw [h2]; rfl
    · rw [h3]; rfl
    · rw [h4]; rfl

theorem downFrom_delResults (m : View) (ks : List Nat) (k : Nat) :
    downFrom m (delResults ks) k = if k ∈ ks then none else m k := by
  induction ks generalizing m with
  | nil => simp [delResults, downFrom]
  | cons x xs ih =>
    simp only [delResults, List.map_cons, downFrom, List.foldl_cons] at ih ⊢
    rw [ih]
    by_cases hk : k ∈ xs
    · simp [hk]
    · by_cases hx : x = k
      · simp [hk, hx, applyRes, applyUpd, delUpd]
      · have : ¬ k = x := fun e => hx e.symm
        simp [hk, applyRes, applyUpd, delUpd, hx, this]

theorem lastStatus_delResults (st : Nat) (ks : List Nat) : lastStatus st (delResults ks) = st := by
  induction ks with
  | nil => rfl
  | cons x xs ih => simpa [delResults, lastStatus] using ih

theorem quietFrom_delResults (st : Nat) (ks : List Nat) (h : st ≠ stWait ∨ ks = []) :
    quietFrom st (delResults ks) = true := by
  induction ks with
  | nil => rfl
  | cons x xs ih =>
    rcases h with h | h
    · simp only [delResults, List.map_cons, quietFrom, Bool.and_eq_true, bne_iff_ne, ne_eq]
      exact ⟨h, ih (Or.inl h)⟩
    · cases h

theorem leaveWaitIfAny_ok {m0 : View} {st0 : Nat} {wc : WC} (h : Good m0 st0 wc) :
    Good m0 st0 wc.leaveWaitIfAny ∧ wc.leaveWaitIfAny.res = wc.res ∧
      (wc.leaveWaitIfAny.status ≠ stWait ∨ wc.res = []) := by
  unfold WC.leaveWaitIfAny
  split
  · exact ⟨h.send_status _, send_res _ _, Or.inl (by rw [send_status']; decide)⟩
  · rename_i hc
    refine ⟨h, rfl, ?_⟩
    simp only [Bool.and_eq_true, Bool.not_eq_true', decide_eq_true_eq, not_and] at hc
    by_cases he : wc.res.isEmpty = true
    · right; simpa using he
    · left; exact hc (by simpa using he)

theorem sendDeletionsForAll_ok {m0 : View} {st0 : Nat} {wc : WC} (h : Good m0 st0 wc) :
    Good m0 st0 wc.sendDeletionsForAll ∧ wc.sendDeletionsForAll.res = [] ∧ wc.sendDeletionsForAll.rev = 0 := by
  obtain ⟨h1, r1, hs1⟩ := leaveWaitIfAny_ok h
  unfold WC.sendDeletionsForAll
  generalize wc.leaveWaitIfAny = w1 at h1 r1 hs1
  obtain ⟨f1, f2, f3, f4⟩ := sendDels_fields (sortKeys (keysOf w1.res)) w1
  have e : downFrom m0 w1.out = view w1 := funext h1.inv.mirror
  have hq : w1.status ≠ stWait ∨ sortKeys (keysOf w1.res) = [] := by
    rcases hs1 with hs | hs
    · exact Or.inl hs
    · right; rw [r1, hs]; rfl
  refine ⟨⟨⟨?_, ?_, ?_, ?_⟩, ?_⟩, rfl, rfl⟩
  · intro k _; rfl
  · intro k
    show downFrom m0 w1.sendDels.out k = view w1.sendDels.clearAll k
    have hv : view w1.sendDels.clearAll k = none := by
      simp only [view, oldLookup, WC.clearAll, lookup, List.find?_nil, Option.map_none]
      show (w1.sendDels.old.bind fun o => _) = none
      have : w1.sendDels.old = none := by unfold WC.sendDels; rw [f3]; exact h1.idle
      rw [this]; rfl
    rw [hv]
    unfold WC.sendDels
    rw [f1, downFrom_append, downFrom_delResults, e, h1.view_eq]
    by_cases hk : k ∈ sortKeys (keysOf w1.res)
    · simp [hk]
    · simp only [hk, if_false]
      by_cases c : lookup w1.res k = none
      · exact c
      · exact absurd ((mem_sortKeys _ _).mpr ((mem_keysOf _ _).mpr c)) hk
  · show lastStatus st0 w1.sendDels.out = w1.sendDels.status
    unfold WC.sendDels
    rw [f1, f2, lastStatus_append, lastStatus_delResults]; exact h1.inv.track
  · show quietFrom st0 w1.sendDels.out = true
    unfold WC.sendDels
    rw [f1, quietFrom_append, h1.inv.quiet, h1.inv.track, quietFrom_delResults _ _ hq]; rfl
  · show w1.sendDels.old = none
    unfold WC.sendDels
    rw [f3]; exact h1.idle

/-! ### a successful List -/

structure ListOK (m0 : View) (st0 : Nat) (wc w : WC) (kvs : List KV) : Prop where
  good : Good m0 st0 w
  status : w.status = stInSync
  /-- whatever the cache held before, it now holds exactly the list as converted by the processor from its state
  at the start of the list (fresh, since `OnSyncerStarting` is called just before every List) -/
  view : ∀ k, view w k = (convSeq wc.proc wc.pst kvs).foldl applyKV emptyView k
  mode : w.proc = wc.proc
  pst : w.pst = convState wc.proc wc.pst kvs

theorem processList_ok {m0 : View} {st0 : Nat} {wc : WC} (h : Good m0 st0 wc) (kvs : List KV) :
    ListOK m0 st0 wc (wc.processList kvs) kvs := by
  have h0 : Good m0 st0 wc.listSucceeded := h.of_eq rfl rfl rfl rfl
  have h1 : Inv m0 st0 wc.listSucceeded.leaveWait := leaveWait_good h0.inv
  have hs1 := leaveWait_status wc.listSucceeded
  have o1 : wc.listSucceeded.leaveWait.old = none := by rw [leaveWait_old]; exact h0.idle
  have pm1 : wc.listSucceeded.leaveWait.proc = wc.proc := by rw [leaveWait_mode]; rfl
  have ps1 : wc.listSucceeded.leaveWait.pst = wc.pst := by rw [leaveWait_pst]; rfl
  unfold WC.processList
  generalize wc.listSucceeded.leaveWait = w1 at h1 hs1 o1 pm1 ps1
  have g1 : Good m0 st0 w1 := ⟨h1, o1⟩
  -- move everything to oldResources
  have h2 : Inv m0 st0 w1.startSweep := by
    refine ⟨?_, ?_, h1.track, h1.quiet⟩
    · intro k _; rfl
    · intro k
      show downFrom m0 w1.out k = _
      rw [h1.mirror, g1.view_eq]
      simp [view, oldLookup, lookup, WC.startSweep]
  have hs2 : w1.startSweep.status ≠ stWait := hs1
  obtain ⟨s, sp⟩ := foldl_handleWatchListEvent_ok kvs h2 hs2
  have f := finishResync_ok s.inv
  have pm2 : w1.startSweep.proc = wc.proc := pm1
  have ps2 : w1.startSweep.pst = wc.pst := ps1
  rw [pm2, ps2] at s sp
  refine ⟨⟨f.inv, f.idle⟩, f.status, ?_, by rw [f.mode, s.mode]; exact pm2, by rw [finishResync_pst]; exact sp⟩
  intro k
  rw [f.view, s.old, s.view]
  have ol2 : oldLookup w1.startSweep k = lookup w1.res k := by
    simp [oldLookup, WC.startSweep]
  have vw2 : ∀ k, view w1.startSweep k = lookup w1.res k := by
    intro k; simp [view, oldLookup, lookup, WC.startSweep]
  rw [ol2]
  cases hm : mentions (convSeq wc.proc wc.pst kvs) k with
  | true =>
    simp only [if_true, ne_eq, not_true_eq_false, if_false]
    exact foldl_applyKV_mem _ _ _ _ ((mentions_iff _ _).mp hm)
  | false =>
    have hn := (mentions_false_iff _ _).mp hm
    simp only [Bool.false_eq_true, if_false]
    rw [foldl_applyKV_not_mem _ _ _ hn, foldl_applyKV_not_mem _ _ _ hn, vw2]
    by_cases c : lookup w1.res k = none
    · simp [c, emptyView]
    · simp [c, emptyView]

theorem notifyConverter_good {m0 : View} {st0 : Nat} {wc : WC} (h : Good m0 st0 wc) :
    Good m0 st0 wc.notifyConverter := h.of_eq rfl rfl rfl rfl

theorem notifyConverter_proc (wc : WC) : wc.notifyConverter.proc = wc.proc := rfl
theorem notifyConverter_pst (wc : WC) : wc.notifyConverter.pst = [] := rfl

/-! ### the resync loop -/

theorem beginFull_good {m0 : View} {st0 : Nat} {wc : WC} (h : Good m0 st0 wc) : Good m0 st0 wc.beginFull := by
  unfold WC.beginFull
  simp only
  have h' : Good m0 st0 { wc with listPolling := false, watchPolling := false } := h.of_eq rfl rfl rfl rfl
  split
  · split
    · exact h'.send_status _
    · exact h'.send_status _
  · exact h'

theorem beginFull_mode (wc : WC) : wc.beginFull.proc = wc.proc := by
  unfold WC.beginFull
  simp only
  split
  · split <;> rw [send_proc]
  · rfl

/-- What one List step guarantees: the invariant, "still waiting ⇒ a full resync is still owed", and the
Watch is attempted only when not waiting. -/
structure ListStepOK (m0 : View) (st0 : Nat) (r : WC × Bool × Bool) : Prop where
  good : Good m0 st0 r.1
  owed : r.1.status = stWait → r.2.1 = true ∨ r.1.rev = 0
  go : r.2.2 = true → r.1.status ≠ stWait

theorem listStep_ok {m0 : View} {st0 : Nat} {wc : WC} (h : Good m0 st0 wc) (lo : ListOut) :
    ListStepOK m0 st0 (listStep wc lo) := by
  have hb := notifyConverter_good (beginFull_good h)
  unfold listStep
  simp only
  cases lo with
  | notFound =>
    simp only
    have f := finishResync_ok hb.inv
    have g : Good m0 st0 wc.beginFull.notifyConverter.onListNotFound := by
      unfold WC.onListNotFound
      exact (Good.mk f.inv f.idle).of_eq rfl rfl rfl rfl
    exact ⟨g, fun _ => Or.inl rfl, fun c => by cases c⟩
  | expired =>
    simp only
    exact ⟨by unfold WC.onListExpired; exact hb.of_eq rfl rfl rfl rfl, fun _ => Or.inl rfl, fun c => by cases c⟩
  | other elapsed =>
    simp only
    refine ⟨?_, fun _ => Or.inl rfl, fun c => by cases c⟩
    unfold WC.onListOther
    simp only
    split
    · have hx : ∀ w : WC, w.res = wc.beginFull.notifyConverter.res → w.old = wc.beginFull.notifyConverter.old →
          w.out = wc.beginFull.notifyConverter.out → w.status = wc.beginFull.notifyConverter.status →
          Good m0 st0 (if (w.send .backendErr).sendDeletesOnConnFail then (w.send .backendErr).sendDeletionsForAll
            else w.send .backendErr) := by
        intro w a b c d
        have g := (hb.of_eq a b c d).send_backendErr
        split
        · exact (sendDeletionsForAll_ok g).1
        · exact g
      exact hx _ rfl rfl rfl rfl
    · exact hb.of_eq rfl rfl rfl rfl
  | ok kvs lrev =>
    simp only
    have l := processList_ok hb kvs
    split
    · refine ⟨l.good.of_eq rfl rfl rfl rfl, fun _ => Or.inl rfl, fun c => by cases c⟩
    · refine ⟨l.good.of_eq rfl rfl rfl rfl, ?_, ?_⟩
      · intro c
        have : (wc.beginFull.notifyConverter.processList kvs).status = stWait := c
        rw [l.status] at this; cases this
      · intro _
        show (wc.beginFull.notifyConverter.processList kvs).status ≠ stWait
        rw [l.status]; decide
  | pollStop =>
    simp only
    have l := processList_ok hb []
    exact ⟨l.good.of_eq rfl rfl rfl rfl, fun _ => Or.inl rfl, fun c => by cases c⟩

theorem isPollStop_eq (lo : ListOut) (h : lo.isPollStop = true) : lo = .pollStop := by
  cases lo <;> simp [ListOut.isPollStop] at h ⊢

/-- The terminal polling List: the invariant holds and the cache is InSync. -/
theorem listStep_pollStop_ok {m0 : View} {st0 : Nat} {wc : WC} (h : Good m0 st0 wc) :
    Good m0 st0 (listStep wc .pollStop).1 ∧ (listStep wc .pollStop).1.status = stInSync := by
  have l := processList_ok (notifyConverter_good (beginFull_good h)) []
  unfold listStep
  simp only
  exact ⟨l.good.of_eq rfl rfl rfl rfl, l.status⟩

theorem watchStep_ok {m0 : View} {st0 : Nat} {wc : WC} (h : Good m0 st0 wc) (full : Bool) (wo : WatchOut) :
    Good m0 st0 (watchStep wc full wo).1 ∧ (watchStep wc full wo).1.status = wc.status := by
  unfold watchStep
  cases wo with
  | ok => exact ⟨h, rfl⟩
  | expired => exact ⟨h.of_eq rfl rfl rfl rfl, rfl⟩
  | connRefused e =>
    simp only
    split
    · exact ⟨h.of_eq rfl rfl rfl rfl, rfl⟩
    · exact ⟨h, rfl⟩
  | notSupported => exact ⟨h.of_eq rfl rfl rfl rfl, rfl⟩
  | other => exact ⟨h.of_eq rfl rfl rfl rfl, rfl⟩

/-- The whole `maybeResyncAndCreateWatcher`: for every scripted sequence of failures, when the watch is
finally created the invariant holds and the cache is not in WaitForDatastore. -/
theorem resyncLoop_ok {m0 : View} {st0 : Nat} (fin : List KV × Nat) :
    ∀ (fuel : Nat) (wc : WC) (full : Bool) (lists : List ListOut) (watches : List WatchOut),
      Good m0 st0 wc → (wc.status = stWait → full = true ∨ wc.rev = 0) →
      ∀ w, resyncLoop fin fuel wc full lists watches = some w → Good m0 st0 w ∧ w.status ≠ stWait := by
  intro fuel
  induction fuel with
  | zero => intro wc full lists watches _ _ w hw; simp [resyncLoop] at hw
  | succ n ih =>
    intro wc full lists watches hg ho w hw
    unfold resyncLoop at hw
    simp only at hw
    by_cases hstop : ((full || decide (wc.rev = 0)) && (lists.headD (ListOut.ok fin.1 fin.2)).isPollStop) = true
    · simp only [hstop, if_true, Option.some.injEq] at hw
      have hf : (full || decide (wc.rev = 0)) = true := (Bool.and_eq_true _ _ ▸ hstop).1
      have hlo := isPollStop_eq _ (Bool.and_eq_true _ _ ▸ hstop).2
      rw [if_pos hf, hlo] at hw
      subst hw
      have := listStep_pollStop_ok hg
      exact ⟨this.1, by rw [this.2]; decide⟩
    have hstop' : ((full || decide (wc.rev = 0)) && (lists.headD (ListOut.ok fin.1 fin.2)).isPollStop) = false := by
      simpa using hstop
    simp only [hstop', Bool.false_eq_true, if_false] at hw
    -- the list part
    have hr : ListStepOK m0 st0
        (if (full || decide (wc.rev = 0)) = true then listStep wc (lists.headD (ListOut.ok fin.1 fin.2))
          else (wc, false, true)) := by
      split
      · exact listStep_ok hg _
      · rename_i hf
        refine ⟨hg, ?_, ?_⟩
        · intro c
          rcases ho c with h1 | h1
          · simp [h1] at hf
          · simp [h1] at hf
        · intro _ c
          rcases ho c with h1 | h1
          · simp [h1] at hf
          · simp [h1] at hf
    generalize (if (full || decide (wc.rev = 0)) = true then listStep wc (lists.headD (ListOut.ok fin.1 fin.2))
          else (wc, false, true)) = r at hr hw
    by_cases hgo : r.2.2 = true
    · simp only [hgo, Bool.not_true, Bool.false_eq_true, if_false] at hw
      have hnw := hr.go hgo
      have hwk := watchStep_ok hr.good r.2.1 (watches.headD WatchOut.ok)
      by_cases hdone : (watchStep r.1 r.2.1 (watches.headD WatchOut.ok)).2.2 = true
      · simp only [hdone, if_true, Option.some.injEq] at hw
        subst hw
        exact ⟨hwk.1, by rw [hwk.2]; exact hnw⟩
      · simp only [hdone, Bool.false_eq_true, if_false] at hw
        exact ih _ _ _ _ hwk.1 (fun c => by rw [hwk.2] at c; exact absurd c hnw) w hw
    · have : r.2.2 = false := by simpa using hgo
      simp only [this, Bool.not_false, if_true] at hw
      exact ih _ _ _ _ hr.good hr.owed w hw

/-! ### the watch-event loop -/

/-- The (raw) KVs the event loop processes: everything before the first error event. -/
def processed : List Ev → List KV
  | [] => []
  | .upsert kv :: r => kv :: processed r
  | .delete kv :: r => { kv with del := true } :: processed r
  | .bookmark _ :: r => processed r
  | .unknown :: r => processed r
  | .errExpired :: _ => []
  | .errOther :: _ => []

theorem eventLoop_ok {m0 : View} {st0 : Nat} (evs : List Ev) {wc : WC} (h : Good m0 st0 wc) (hs : wc.status ≠ stWait) :
    Good m0 st0 (eventLoop wc evs) ∧ (eventLoop wc evs).status = wc.status ∧
      ∀ k, view (eventLoop wc evs) k = (convSeq wc.proc wc.pst (processed evs)).foldl applyKV (view wc) k := by
  induction evs generalizing wc with
  | nil => exact ⟨h, rfl, fun _ => rfl⟩
  | cons ev evs ih =>
    cases ev with
    | upsert kv =>
      simp only [eventLoop, processed, convSeq, List.foldl_append]
      obtain ⟨s, sp⟩ := handleWatchListEvent_ok h.inv hs kv
      obtain ⟨g, st, v⟩ := ih (wc := wc.handleWatchListEvent kv) ⟨s.inv, s.idle h.idle⟩ (by rw [s.status]; exact hs)
      refine ⟨g, st.trans s.status, ?_⟩
      intro k
      rw [v, s.mode, sp]
      have : view (wc.handleWatchListEvent kv) = (procRun wc.proc wc.pst kv).2.1.foldl applyKV (view wc) := funext s.view
      rw [this]
    | delete kv =>
      simp only [eventLoop, processed, convSeq, List.foldl_append]
      obtain ⟨s, sp⟩ := handleWatchListEvent_ok h.inv hs { kv with del := true }
      obtain ⟨g, st, v⟩ := ih (wc := wc.handleWatchListEvent { kv with del := true }) ⟨s.inv, s.idle h.idle⟩
        (by rw [s.status]; exact hs)
      refine ⟨g, st.trans s.status, ?_⟩
      intro k
      rw [v, s.mode, sp]
      have : view (wc.handleWatchListEvent { kv with del := true }) =
          (procRun wc.proc wc.pst { kv with del := true }).2.1.foldl applyKV (view wc) := funext s.view
      rw [this]
    | bookmark r =>
      simp only [eventLoop, processed]
      exact ih (wc := { wc with rev := r, errCount := 0 }) (h.of_eq rfl rfl rfl rfl) hs
    | errExpired =>
      simp only [eventLoop, processed]
      refine ⟨h.of_eq rfl rfl rfl rfl, ?_, ?_⟩ <;> intros <;> trivial
    | errOther =>
      simp only [eventLoop, processed]
      split
      · refine ⟨h.of_eq rfl rfl rfl rfl, ?_, ?_⟩ <;> intros <;> trivial
      · refine ⟨h.of_eq rfl rfl rfl rfl, ?_, ?_⟩ <;> intros <;> trivial
    | unknown =>
      simp only [eventLoop, processed]
      exact ih h hs

end CalicoVerif.C26
