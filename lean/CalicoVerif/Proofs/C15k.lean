import CalicoVerif.Proofs.C15j
set_option linter.unusedSimpArgs false
namespace CalicoVerif.C15

theorem filter_map_pair_key (D : List String) (f : String → Option (List RLine × Option (List String × List FR)))
    (c : String) (hn : D.Nodup) :
    ((D.map (fun x => (x, f x))).filter (fun g => g.1 == c)) = if c ∈ D then [(c, f c)] else [] := by
  induction D with
  | nil => simp
  | cons a D ih =>
    simp only [List.nodup_cons] at hn
    simp only [List.map_cons, List.filter_cons]
    by_cases hac : a = c
    · subst hac
      simp only [beq_self_eq_true, if_true, List.mem_cons, true_or]
      rw [ih hn.2]; simp [hn.1]
    · have : (a == c) = false := by simp [hac]
      simp only [this, Bool.false_eq_true, if_false]
      rw [ih hn.2]
      simp [List.mem_cons, Ne.symm hac]

theorem iaLinesOf_chain (t : T) (a : String) : ∀ l ∈ iaLinesOf (t.iaLines a), l.chain = a ∨ l.chain = "" := by
  intro l hl
  cases hia : t.iaLines a with
  | none => rw [hia] at hl; simp [iaLinesOf] at hl
  | some v =>
    obtain ⟨ls, u⟩ := v
    rw [hia] at hl
    exact iaLines_chain hia l hl

theorem ia_filter (t : T) (c : String) (hne : c ≠ "") : ∀ (D : List String), D.Nodup →
    ((D.map (fun x => (x, t.iaLines x))).flatMap (fun p => iaLinesOf p.2)).filter (fun l => l.chain == c) =
      if c ∈ D then (iaLinesOf (t.iaLines c)).filter (fun l => l.chain == c) else [] := by
  intro D
  induction D with
  | nil => intro _; rfl
  | cons a D ih =>
    intro hn
    simp only [List.nodup_cons] at hn
    simp only [List.map_cons, List.flatMap_cons, List.filter_append]
    rw [ih hn.2]
    by_cases hac : a = c
    · subst hac
      simp [hn.1]
    · have hnone : (iaLinesOf (t.iaLines a)).filter (fun l => l.chain == c) = [] := by
        apply filter_none_chain
        intro l hl
        rcases iaLinesOf_chain t a l hl with h | h
        · rw [h]; exact hac
        · rw [h]; exact fun e => hne e.symm
      rw [hnone]
      simp [List.mem_cons, Ne.symm hac]

/-- The lines of the transaction that name the shared chain `c` (which is not in `dirtyChains`). -/
theorem plan_proj_ia {t : T} {lines newH newFull} (h : t.plan = some (lines, newH, newFull))
    (hn : t.dirtyIA.Nodup) (c : String) (hne : c ≠ "") (hd : c ∉ t.dirty) :
    lines.filter (fun l => l.chain == c) =
      (if c ∈ t.dirtyIA then (iaLinesOf (t.iaLines c)).filter (fun l => l.chain == c) else []) := by
  unfold T.plan at h
  dsimp only at h
  split at h
  · simp at h
  · simp only [Option.some.injEq, Prod.mk.injEq] at h
    rw [← h.1]
    have hcS : c ∉ sortS t.dirty := fun h' => hd (mem_sortS.1 h')
    simp only [List.filter_append]
    have h1 : ((sortS t.dirty).filter (fun c => (t.desiredChain c).isNone || !t.dpHashes.has c) |>.map RLine.fwd).filter
        (fun l => l.chain == c) = [] := by
      apply filter_none_chain
      intro l hl
      obtain ⟨x, hx, rfl⟩ := List.mem_map.1 hl
      simp only [RLine.chain]
      rintro rfl; exact hcS (List.mem_filter.1 hx).1
    have h2 : (((sortS t.dirty).filterMap (fun c => (t.desiredChain c).map (fun ch => (c, ch)))).flatMap
        (fun p => diffLines p.1 p.2.rules.length 0 ((t.dpHashes.get p.1).getD []) p.2.rules)).filter
        (fun l => l.chain == c) = [] := by
      apply filter_none_chain
      intro l hl
      obtain ⟨p, hp, hlp⟩ := List.mem_flatMap.1 hl
      obtain ⟨x, hx, hxp⟩ := List.mem_filterMap.1 hp
      rw [diffLines_chain _ _ _ _ _ l hlp]
      cases hdx : t.desiredChain x with
      | none => rw [hdx] at hxp; simp at hxp
      | some ch =>
        rw [hdx] at hxp
        simp only [Option.map_some, Option.some.injEq] at hxp
        rw [← hxp]
        rintro rfl; exact hcS hx
    have h4 : ((sortS t.dirty).filter (fun c => (t.desiredChain c).isNone) |>.map RLine.delChain).filter
        (fun l => l.chain == c) = [] := by
      apply filter_none_chain
      intro l hl
      obtain ⟨x, hx, rfl⟩ := List.mem_map.1 hl
      simp only [RLine.chain]
      rintro rfl; exact hcS (List.mem_filter.1 hx).1
    rw [h1, h2, h4]
    simp only [List.nil_append, List.append_nil]
    rw [ia_filter t c hne (sortS t.dirtyIA) (sortS_nodup hn)]
    by_cases hc : c ∈ t.dirtyIA
    · simp [hc, mem_sortS.2 hc]
    · have : c ∉ sortS t.dirtyIA := fun h' => hc (mem_sortS.1 h')
      simp [hc, this]

end CalicoVerif.C15
